(* Forces the number types used by ocaml/conv.ml into every extracted Model module. *)
From Coq Require Import ZArith NArith List.
Definition extract_base : (Z -> Z -> Z) * (N -> N -> N) * (nat -> nat -> nat) * (positive -> positive -> positive)
                          * (N -> Z) * (Z -> N) * (nat -> N) :=
  (Z.add, N.add, Nat.add, Pos.add, Z.of_N, Z.to_N, N.of_nat).
