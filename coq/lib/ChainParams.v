(* Per-chain consensus parameters; instances are generated from the compiled tree into
   gen/Params_gen.v by tie/dump_params.cpp on every run. *)
From Coq Require Import ZArith String List.
Record chain_params := {
  cp_name : string;
  cp_halving_interval : Z;
  cp_pow_limit : Z;
  cp_allow_min_difficulty : bool;
  cp_enforce_bip94 : bool;
  cp_no_retargeting : bool;
  cp_target_spacing : Z;
  cp_target_timespan : Z;
  cp_bip34_height : Z;
  cp_bip65_height : Z;
  cp_bip66_height : Z;
  cp_csv_height : Z;
  cp_segwit_height : Z;
  cp_min_chain_work : Z;
}.
