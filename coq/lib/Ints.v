(* Fixed-width integer conventions (DESIGN.md section 3): models compute in unbounded Z and write
   every place where the C++ type could wrap as an explicit wrap; lemmas then show the wrap is the
   identity under the guards the code actually has. *)
From Coq Require Export ZArith List Bool Lia.
From Coq Require Export ZifyBool.
Export ListNotations.
Local Open Scope Z_scope.

Ltac Zify.zify_post_hook ::= Z.div_mod_to_equations.

Definition INT64_MAX : Z := 9223372036854775807.
Definition INT64_MIN : Z := -9223372036854775808.
Definition INT32_MAX : Z := 2147483647.
Definition INT32_MIN : Z := -2147483648.
Definition UINT32_MAX : Z := 4294967295.
Definition UINT64_MAX : Z := 18446744073709551615.

(* unsigned wrap to w bits *)
Definition wrapu (w : Z) (x : Z) : Z := x mod 2 ^ w.
(* two's complement wrap to w bits (what conversion to a signed type does on the targets
   bitcoin supports; signed overflow itself is UB in C++ and is flagged separately by in_range) *)
Definition wraps (w : Z) (x : Z) : Z :=
  let m := x mod 2 ^ w in if m <? 2 ^ (w - 1) then m else m - 2 ^ w.

Definition wrapu8 := wrapu 8.
Definition wrapu16 := wrapu 16.
Definition wrapu32 := wrapu 32.
Definition wrapu64 := wrapu 64.
Definition wrap32 := wraps 32.
Definition wrap64 := wraps 64.

Definition in_i64 (x : Z) : bool := (INT64_MIN <=? x) && (x <=? INT64_MAX).
Definition in_i32 (x : Z) : bool := (INT32_MIN <=? x) && (x <=? INT32_MAX).
Definition in_u32 (x : Z) : bool := (0 <=? x) && (x <=? UINT32_MAX).
Definition in_u64 (x : Z) : bool := (0 <=? x) && (x <=? UINT64_MAX).

Lemma wrap64_id x : INT64_MIN <= x <= INT64_MAX -> wrap64 x = x.
Proof.
  unfold wrap64, wraps, INT64_MIN, INT64_MAX. intros H.
  change (2 ^ 64) with 18446744073709551616. change (2 ^ (64 - 1)) with 9223372036854775808.
  destruct (Z_lt_le_dec x 0) as [Hn|Hp].
  - assert (E : x mod 18446744073709551616 = x + 18446744073709551616).
    { symmetry. apply Z.mod_unique with (q := -1); lia. }
    rewrite E. destruct (_ <? _) eqn:Hc; lia.
  - rewrite Z.mod_small by lia. destruct (_ <? _) eqn:Hc; lia.
Qed.

Lemma wrap32_id x : INT32_MIN <= x <= INT32_MAX -> wrap32 x = x.
Proof.
  unfold wrap32, wraps, INT32_MIN, INT32_MAX. intros H.
  change (2 ^ 32) with 4294967296. change (2 ^ (32 - 1)) with 2147483648.
  destruct (Z_lt_le_dec x 0) as [Hn|Hp].
  - assert (E : x mod 4294967296 = x + 4294967296).
    { symmetry. apply Z.mod_unique with (q := -1); lia. }
    rewrite E. destruct (_ <? _) eqn:Hc; lia.
  - rewrite Z.mod_small by lia. destruct (_ <? _) eqn:Hc; lia.
Qed.

Lemma wrapu_id w x : 0 <= x < 2 ^ w -> wrapu w x = x.
Proof. unfold wrapu. intros. apply Z.mod_small; lia. Qed.

Lemma wrapu64_id x : 0 <= x <= UINT64_MAX -> wrapu64 x = x.
Proof. unfold UINT64_MAX. intros. apply wrapu_id. change (2 ^ 64) with 18446744073709551616. lia. Qed.

Lemma wrapu32_id x : 0 <= x <= UINT32_MAX -> wrapu32 x = x.
Proof. unfold UINT32_MAX. intros. apply wrapu_id. change (2 ^ 32) with 4294967296. lia. Qed.

(* C++ integer division truncates toward zero: Z.quot / Z.rem. *)
Definition cdiv (a b : Z) : Z := Z.quot a b.
Definition cmod (a b : Z) : Z := Z.rem a b.

Lemma cdiv_nonneg a b : 0 <= a -> 0 < b -> cdiv a b = a / b.
Proof. intros. unfold cdiv. apply Z.quot_div_nonneg; lia. Qed.

(* sum of a list *)
Fixpoint zsum (l : list Z) : Z := match l with [] => 0 | x :: r => x + zsum r end.
Lemma zsum_app a b : zsum (a ++ b) = zsum a + zsum b.
Proof. induction a; simpl; lia. Qed.
