(* C55: what loading a dumped file into an empty pool restores (Part 3 of the lemmas). *)
From Coq Require Import NArith Lia.
From BV Require Import lib.Ints gen.Params_gen model.SerBase model.SerTx model.CryptoSHA256 model.MempoolPersist
                       proofs.SerBaseLemmas proofs.SerTxLemmas proofs.MempoolPersistLemmas proofs.MempoolPersistPool.
Local Open Scope Z_scope.

Section Restore.
  Variable T : Type.
  Variable txid : T -> list N.
  Variable accept : pool -> T -> Z -> bool.
  Variables now expiry : Z.

  Notation rid := (rec_id T txid).
  Notation apply_rec := (apply_rec T txid accept now expiry startup_opts).
  Notation entry_of := (entry_of T txid).
  Notation accepted_recs := (accepted_recs T txid accept now expiry startup_opts).
  Notation with_delta := (with_delta T txid).
  Notation unexpired := (unexpired T now expiry).

  Definition rec_range (r : mrec T) : Prop := INT64_MIN <= r_delta r <= INT64_MAX.

  Fixpoint find_rec (id : list N) (l : list (mrec T)) : option (mrec T) :=
    match l with [] => None | r :: l' => if bytes_eqb id (rid r) then Some r else find_rec id l' end.

  Lemma find_rec_none id l : ~ In id (map rid l) -> find_rec id l = None.
  Proof.
    induction l as [|r l IH]; cbn; intros H; [reflexivity|].
    destruct (bytes_eqb id (rid r)) eqn:E; [apply bytes_eqb_eq in E; exfalso; apply H; left; congruence|].
    apply IH. tauto.
  Qed.

  Lemma find_rec_in id l r : find_rec id l = Some r -> In r l /\ rid r = id.
  Proof.
    induction l as [|r' l IH]; cbn; [discriminate|].
    destruct (bytes_eqb id (rid r')) eqn:E.
    - intros H. inversion H; subst. apply bytes_eqb_eq in E. split; [left; reflexivity|congruence].
    - intros H. apply IH in H. tauto.
  Qed.

  Lemma apply_rec_unfold p r :
    apply_rec p r = if unexpired r then fst (atmp T txid accept (with_delta p r) (r_tx r) (r_time r)) else with_delta p r.
  Proof.
    unfold MempoolPersist.apply_rec, MempoolPersist.with_delta, MempoolPersist.unexpired, MempoolPersist.rec_id.
    cbn [startup_opts o_use_current_time o_apply_fee_delta]. rewrite andb_true_r. reflexivity.
  Qed.

  (* one record, whose id is neither in the pool nor prioritised yet *)
  Lemma apply_rec_fresh p r :
    dmap_wf (p_deltas p) -> rec_range r -> dm_find (rid r) (p_deltas p) = None -> ~ In (rid r) (ids_of p) ->
    let q := apply_rec p r in
    p_entries q = p_entries p ++ map entry_of (if unexpired r && negb (in_pool (rid r) (with_delta p r)) && accept (with_delta p r) (r_tx r) (r_time r) then [r] else [])
    /\ dmap_wf (p_deltas q)
    /\ (forall id, dm_find id (p_deltas q) = if bytes_eqb id (rid r) then (if r_delta r =? 0 then None else Some (r_delta r)) else dm_find id (p_deltas p))
    /\ p_unb q = p_unb p.
  Proof.
    intros W R F NI q.
    set (p1 := with_delta p r).
    assert (E1 : p_entries p1 = p_entries p).
    { unfold p1, MempoolPersist.with_delta. destruct (negb (r_delta r =? 0)); [|reflexivity]. apply prioritise_entries_absent. exact NI. }
    assert (W1 : dmap_wf (p_deltas p1)).
    { unfold p1, MempoolPersist.with_delta. destruct (negb (r_delta r =? 0)); [|exact W]. apply prioritise_wf. exact W. }
    assert (U1 : p_unb p1 = p_unb p).
    { unfold p1, MempoolPersist.with_delta. destruct (negb (r_delta r =? 0)); reflexivity. }
    assert (D1 : forall id, dm_find id (p_deltas p1) = if bytes_eqb id (rid r) then (if r_delta r =? 0 then None else Some (r_delta r)) else dm_find id (p_deltas p)).
    { intros id. unfold p1, MempoolPersist.with_delta. destruct (r_delta r =? 0) eqn:Z0; cbn [negb].
      - destruct (bytes_eqb id (rid r)) eqn:E; [|reflexivity]. apply bytes_eqb_eq in E. subst. exact F.
      - destruct (bytes_eqb id (rid r)) eqn:E.
        + apply bytes_eqb_eq in E. subst id. rewrite prioritise_find_fresh by assumption. rewrite Z0. reflexivity.
        + apply bytes_eqb_neq in E. apply prioritise_find_other. exact E. }
    assert (IP : in_pool (rid r) p1 = false).
    { apply in_pool_false. unfold ids_of. rewrite E1. exact NI. }
    unfold q. rewrite apply_rec_unfold. fold p1. rewrite IP. cbn [negb]. rewrite andb_true_r.
    destruct (unexpired r); cbn [andb].
    - unfold atmp. fold (rid r). rewrite IP.
      destruct (accept p1 (r_tx r) (r_time r)); cbn [fst p_entries p_deltas p_unb map].
      + rewrite E1. repeat split; try assumption.
        f_equal. f_equal. unfold MempoolPersist.entry_of. f_equal.
        rewrite D1, bytes_eqb_refl. destruct (r_delta r =? 0) eqn:Z0; [apply Z.eqb_eq in Z0; congruence|reflexivity].
      + rewrite app_nil_r. repeat split; assumption.
    - cbn [map]. rewrite app_nil_r. repeat split; assumption.
  Qed.

  Lemma apply_rec_ids p r id : In id (ids_of (apply_rec p r)) -> In id (ids_of p) \/ id = rid r.
  Proof.
    rewrite apply_rec_unfold. unfold MempoolPersist.with_delta, atmp.
    set (p1 := if negb (r_delta r =? 0) then prioritise p (rid r) (r_delta r) else p).
    assert (E : ids_of p1 = ids_of p) by (unfold p1; destruct (negb (r_delta r =? 0)); [apply prioritise_ids|reflexivity]).
    destruct (unexpired r); [|rewrite E; tauto].
    destruct (in_pool (txid (r_tx r)) p1); cbn [fst]; [rewrite E; tauto|].
    destruct (accept p1 (r_tx r) (r_time r)); cbn [fst]; [|rewrite E; tauto].
    unfold ids_of. cbn [p_entries]. rewrite map_app. intros H. apply in_app_or in H. fold (ids_of p1) in H. rewrite E in H.
    destruct H as [H|[H|[]]]; [tauto|]. right. cbn in H. unfold MempoolPersist.rec_id. congruence.
  Qed.

  (* the records loop on records with pairwise different ids, none of which is in the pool or prioritised yet *)
  Lemma restore_recs l : forall p,
    NoDup (map rid l) -> Forall rec_range l -> dmap_wf (p_deltas p) ->
    (forall r, In r l -> dm_find (rid r) (p_deltas p) = None /\ ~ In (rid r) (ids_of p)) ->
    let q := fold_left apply_rec l p in
    p_entries q = p_entries p ++ map entry_of (accepted_recs p l)
    /\ dmap_wf (p_deltas q)
    /\ (forall id, dm_find id (p_deltas q) = match find_rec id l with
                                             | Some r => if r_delta r =? 0 then None else Some (r_delta r)
                                             | None => dm_find id (p_deltas p) end)
    /\ p_unb q = p_unb p.
  Proof.
    induction l as [|r l IH]; intros p ND RR W FR q.
    - unfold q. cbn. rewrite app_nil_r. repeat split; auto.
    - unfold q. cbn [fold_left].
      inversion ND as [|? ? NI ND']; subst. inversion RR as [|? ? R1 RR']; subst.
      destruct (FR r (or_introl eq_refl)) as [F0 NI0].
      destruct (apply_rec_fresh p r W R1 F0 NI0) as [E1 [W1 [D1 U1]]].
      specialize (IH (apply_rec p r) ND' RR' W1).
      assert (FR' : forall r0, In r0 l -> dm_find (rid r0) (p_deltas (apply_rec p r)) = None /\ ~ In (rid r0) (ids_of (apply_rec p r))).
      { intros r0 Hin. destruct (FR r0 (or_intror Hin)) as [F2 NI2].
        assert (NE : rid r0 <> rid r).
        { intros E. apply NI. rewrite <- E. apply in_map. exact Hin. }
        split.
        - rewrite D1. apply bytes_eqb_neq in NE. rewrite NE. exact F2.
        - intros H. apply apply_rec_ids in H. tauto. }
      destruct (IH FR') as [E2 [W2 [D2 U2]]].
      repeat split.
      + rewrite E2, E1. cbn [MempoolPersist.accepted_recs]. rewrite map_app, app_assoc. reflexivity.
      + exact W2.
      + intros id. rewrite D2. cbn [find_rec]. destruct (bytes_eqb id (rid r)) eqn:E.
        * apply bytes_eqb_eq in E. subst id. rewrite find_rec_none by exact NI. rewrite D1, bytes_eqb_refl. reflexivity.
        * destruct (find_rec id l); [reflexivity|]. rewrite D1, E. reflexivity.
      + rewrite U2. exact U1.
  Qed.

  (* mapDeltas of transactions that are not in the pool *)
  Lemma restore_deltas m : forall q,
    dmap_wf (p_deltas q) -> NoDup (map fst m) ->
    (forall k, In k (map fst m) -> ~ In k (ids_of q) /\ dm_find k (p_deltas q) = None) ->
    Forall (fun kv => INT64_MIN <= snd kv <= INT64_MAX /\ snd kv <> 0) m ->
    let q' := fold_left (fun q kv => prioritise q (fst kv) (snd kv)) m q in
    p_entries q' = p_entries q /\ p_unb q' = p_unb q /\ dmap_wf (p_deltas q') /\
    forall id, dm_find id (p_deltas q') = match dm_find id m with Some v => Some v | None => dm_find id (p_deltas q) end.
  Proof.
    induction m as [|[k v] m IH]; intros q W ND FR RG q'.
    - unfold q'. cbn. repeat split; auto.
    - unfold q'. cbn [fold_left fst snd].
      inversion ND as [|? ? NI ND']; subst. inversion RG as [|? ? [R1 NZ] RG']; subst. cbn [fst snd] in *.
      destruct (FR k (or_introl eq_refl)) as [NI0 F0].
      set (q1 := prioritise q k v).
      assert (W1 : dmap_wf (p_deltas q1)) by (apply prioritise_wf; exact W).
      assert (E1 : p_entries q1 = p_entries q) by (apply prioritise_entries_absent; exact NI0).
      assert (FR' : forall k0, In k0 (map fst m) -> ~ In k0 (ids_of q1) /\ dm_find k0 (p_deltas q1) = None).
      { intros k0 Hin. destruct (FR k0 (or_intror Hin)) as [A B]. split.
        - unfold q1. rewrite prioritise_ids. exact A.
        - unfold q1. rewrite prioritise_find_other; [exact B|]. intros E. subst. contradiction. }
      destruct (IH q1 W1 ND' FR' RG') as [E2 [U2 [W2 D2]]].
      repeat split.
      + rewrite E2. exact E1.
      + rewrite U2. reflexivity.
      + exact W2.
      + intros id. rewrite D2. cbn [dm_find]. destruct (bytes_eqb id k) eqn:E.
        * apply bytes_eqb_eq in E. subst id.
          assert (X : dm_find k m = None) by (apply dm_find_none_notin; exact NI). rewrite X.
          unfold q1. rewrite prioritise_find_fresh by assumption.
          destruct (v =? 0) eqn:Z0; [apply Z.eqb_eq in Z0; contradiction|reflexivity].
        * destruct (dm_find id m); [reflexivity|]. unfold q1. apply prioritise_find_other. apply bytes_eqb_neq. exact E.
  Qed.

  (* unbroadcast marks: only for transactions that made it in *)
  Lemma restore_unb rest : forall q done,
    sorted_keys (done ++ rest) -> p_unb q = filter (fun id => in_pool id q) done ->
    let q' := fold_left (fun q id => if in_pool id q then add_unbroadcast q id else q) rest q in
    p_entries q' = p_entries q /\ p_deltas q' = p_deltas q /\ p_unb q' = filter (fun id => in_pool id q) (done ++ rest).
  Proof.
    induction rest as [|k rest IH]; intros q done S U q'.
    - unfold q'. cbn. rewrite app_nil_r. auto.
    - unfold q'. cbn [fold_left].
      assert (S1 : sorted_keys ((done ++ [k]) ++ rest)) by (rewrite <- app_assoc; exact S).
      destruct (in_pool k q) eqn:IPk.
      + set (q1 := mk_pool (p_entries q) (p_deltas q) (set_insert k (p_unb q))).
        assert (A1 : add_unbroadcast q k = q1) by (unfold add_unbroadcast; rewrite IPk; reflexivity).
        rewrite A1.
        assert (IPeq : forall id, in_pool id q1 = in_pool id q) by reflexivity.
        assert (U1 : p_unb q1 = filter (fun id => in_pool id q1) (done ++ [k])).
        { unfold q1 at 1. cbn [p_unb]. rewrite U. rewrite filter_app. cbn [filter]. rewrite IPeq, IPk.
          change (filter (fun id => in_pool id q1) done) with (filter (fun id => in_pool id q) done).
          apply set_insert_snoc. apply sorted_keys_snoc_filter. eapply sorted_keys_app_inv. exact S1. }
        destruct (IH q1 (done ++ [k]) S1 U1) as [A [B C]].
        repeat split; [rewrite A; reflexivity|rewrite B; reflexivity|].
        rewrite C. rewrite <- app_assoc. reflexivity.
      + assert (U1 : p_unb q = filter (fun id => in_pool id q) (done ++ [k])).
        { rewrite filter_app. cbn [filter]. rewrite IPk, app_nil_r. exact U. }
        destruct (IH q (done ++ [k]) S1 U1) as [A [B C]].
        repeat split; [exact A|exact B|]. rewrite C. rewrite <- app_assoc. reflexivity.
  Qed.

  (* erasing the saved ids from mapDeltas (the dump) *)
  Lemma erase_ids_spec l : forall m, dmap_wf m ->
    let m' := fold_left (fun m r => dm_erase (rid r) m) l m in
    dmap_wf m' /\ forall id, dm_find id m' = if existsb (fun r => bytes_eqb id (rid r)) l then None else dm_find id m.
  Proof.
    induction l as [|r l IH]; intros m W m'.
    - unfold m'. cbn. auto.
    - unfold m'. cbn [fold_left existsb].
      destruct (IH (dm_erase (rid r) m) (dm_erase_wf _ _ W)) as [W' D'].
      split; [exact W'|]. intros id. rewrite D'.
      destruct (bytes_eqb id (rid r)) eqn:E; cbn [orb].
      + apply bytes_eqb_eq in E. subst id. destruct (existsb _ l); [reflexivity|]. apply dm_find_erase_same. exact W.
      + destruct (existsb _ l); [reflexivity|]. apply dm_find_erase_other. apply bytes_eqb_neq. exact E.
  Qed.

  Lemma existsb_ids id l : existsb (fun r : mrec T => bytes_eqb id (rid r)) l = true <-> In id (map rid l).
  Proof.
    rewrite existsb_exists. split.
    - intros [r [Hin E]]. apply bytes_eqb_eq in E. subst. apply in_map. exact Hin.
    - intros Hin. apply in_map_iff in Hin. destruct Hin as [r [E Hin]]. exists r. split; [exact Hin|]. subst. apply bytes_eqb_refl.
  Qed.

  Lemma dm_find_some_in k v m : dm_find k m = Some v -> In (k, v) m.
  Proof.
    induction m as [|[k' v'] m IH]; cbn; [discriminate|].
    destruct (bytes_eqb k k') eqn:E; [apply bytes_eqb_eq in E; intros H; inversion H; subst; left; reflexivity|].
    intros H. right. apply IH. exact H.
  Qed.

  Lemma dm_find_in_wf k v m : dmap_wf m -> In (k, v) m -> dm_find k m = Some v.
  Proof.
    unfold dmap_wf. induction m as [|[k' v'] m IH]; cbn; intros W H; [destruct H|].
    destruct H as [H|H].
    - inversion H; subst. rewrite bytes_eqb_refl. reflexivity.
    - destruct (bytes_eqb k k') eqn:E.
      + apply bytes_eqb_eq in E. subst. exfalso. apply (sorted_keys_notin _ _ W). apply (in_map fst) in H. exact H.
      + apply IH; [eapply sorted_keys_tail; eassumption|exact H].
  Qed.

  (* THE RESTORE THEOREM: a dumped pool loaded into an empty pool with the startup options *)
  Theorem restore_main (infos : list (mrec T)) (deltas : dmap) (unb : idset) :
    NoDup (map rid infos) -> Forall rec_range infos ->
    dmap_wf deltas -> Forall (fun kv => INT64_MIN <= snd kv <= INT64_MAX /\ snd kv <> 0) deltas -> sorted_keys unb ->
    let q := apply_snapshot T txid accept now expiry startup_opts (dump_snapshot T txid infos deltas unb) empty_pool in
    p_entries q = map entry_of (accepted_recs empty_pool infos)
    /\ (forall r, In r infos -> dm_find (rid r) (p_deltas q) = if r_delta r =? 0 then None else Some (r_delta r))
    /\ (forall id, ~ In id (map rid infos) -> dm_find id (p_deltas q) = dm_find id deltas)
    /\ p_unb q = filter (fun id => in_pool id q) unb.
  Proof.
    intros ND RR WD RD SU q.
    unfold q. change (dump_snapshot T txid infos deltas unb) with (mk_snap infos (fold_left (fun m r => dm_erase (rid r) m) infos deltas) unb).
    unfold apply_snapshot. cbn [sn_recs sn_deltas sn_unb].
    unfold apply_deltas, apply_unb. cbn [startup_opts o_apply_fee_delta o_apply_unbroadcast].
    set (q1 := fold_left apply_rec infos empty_pool).
    destruct (restore_recs infos empty_pool ND RR) as [E1 [W1 [D1 U1]]].
    { constructor. }
    { intros r _. split; [reflexivity|intros []]. }
    fold q1 in E1, W1, D1, U1. cbn [empty_pool p_entries p_deltas p_unb app dm_find] in E1, D1, U1.
    set (m := fold_left (fun m r => dm_erase (rid r) m) infos deltas).
    destruct (erase_ids_spec infos deltas WD) as [Wm Dm]. fold m in Wm, Dm.
    assert (IDS : forall id, In id (ids_of q1) -> In id (map rid infos)).
    { intros id H. unfold ids_of in H. rewrite E1 in H. rewrite map_map in H. apply in_map_iff in H.
      destruct H as [r [E H]]. subst id. cbn [MempoolPersist.entry_of e_id].
      assert (SUB : forall p l r0, In r0 (accepted_recs p l) -> In r0 l).
      { clear. intros p l. revert p. induction l as [|a l IH]; intros p r0 H; [destruct H|].
        cbn [MempoolPersist.accepted_recs] in H. apply in_app_or in H. destruct H as [H|H].
        - destruct (_ && _ && _) in H; [destruct H as [H|[]]; left; exact H|destruct H].
        - right. eapply IH. exact H. }
      apply in_map. eapply SUB. exact H. }
    set (q2 := fold_left (fun q kv => prioritise q (fst kv) (snd kv)) m q1).
    destruct (restore_deltas m q1 W1) as [E2 [U2 [W2 D2]]].
    { apply sorted_keys_nodup. exact Wm. }
    { intros k Hk.
      assert (NK : ~ In k (map rid infos)).
      { intros Hin. apply dm_find_none_notin in Hk; [exact Hk|]. rewrite Dm.
        apply existsb_ids in Hin. rewrite Hin. reflexivity. }
      split; [intros H; apply NK, IDS; exact H|]. rewrite D1. rewrite find_rec_none by exact NK. reflexivity. }
    { rewrite Forall_forall in *. intros [k v] Hin.
      apply RD. apply dm_find_some_in. rewrite <- (dm_find_in_wf k v m Wm Hin). rewrite Dm.
      destruct (existsb _ infos) eqn:X; [|reflexivity].
      exfalso. pose proof (dm_find_in_wf k v m Wm Hin) as Y. rewrite Dm, X in Y. discriminate. }
    fold q2 in E2, U2, W2, D2.
    destruct (restore_unb unb q2 [] SU) as [E3 [D3 U3]].
    { rewrite U2, U1. reflexivity. }
    cbn [app] in U3.
    set (q3 := fold_left (fun q id => if in_pool id q then add_unbroadcast q id else q) unb q2) in *.
    assert (IP : forall id, in_pool id q3 = in_pool id q2).
    { intros id. unfold in_pool. rewrite E3. reflexivity. }
    repeat split.
    - rewrite E3, E2. exact E1.
    - intros r Hin. rewrite D3, D2.
      assert (X : dm_find (rid r) m = None).
      { rewrite Dm. assert (Y : existsb (fun r0 => bytes_eqb (rid r) (rid r0)) infos = true) by (apply existsb_ids; apply in_map; exact Hin).
        rewrite Y. reflexivity. }
      rewrite X, D1.
      destruct (find_rec (rid r) infos) as [r'|] eqn:FRr.
      + apply find_rec_in in FRr. destruct FRr as [Hin' E].
        assert (r' = r); [|subst; reflexivity].
        clear - ND Hin Hin' E. induction infos as [|a l IH]; [destruct Hin|].
        inversion ND as [|? ? NI ND']; subst.
        destruct Hin as [->|Hin]; destruct Hin' as [->|Hin']; try reflexivity.
        * exfalso. apply NI. rewrite <- E. apply in_map. exact Hin'.
        * exfalso. apply NI. rewrite E. apply in_map. exact Hin.
        * apply IH; assumption.
      + exfalso. assert (Y : In (rid r) (map rid infos)) by (apply in_map; exact Hin).
        clear - FRr Y. induction infos as [|a l IH]; [destruct Y|]. cbn [find_rec] in FRr.
        destruct (bytes_eqb (rid r) (rid a)) eqn:E; [discriminate|]. apply bytes_eqb_neq in E.
        destruct Y as [Y|Y]; [congruence|]. apply IH; assumption.
    - intros id NI. rewrite D3, D2, Dm.
      assert (X : existsb (fun r => bytes_eqb id (rid r)) infos = false).
      { destruct (existsb _ infos) eqn:Y; [|reflexivity]. apply existsb_ids in Y. contradiction. }
      rewrite X. destruct (dm_find id deltas); [reflexivity|]. rewrite D1. rewrite find_rec_none by exact NI. reflexivity.
    - rewrite U3. apply filter_ext. intros id. symmetry. apply IP.
  Qed.

  (* When normal submission's verdict does not depend on the pool state, the restored entries are exactly
     the unexpired acceptable saved ones, in saved order. *)
  Lemma accepted_recs_stateless (a : T -> Z -> bool) l : forall p,
    (forall p t tm, accept p t tm = a t tm) ->
    NoDup (map rid l) -> (forall r, In r l -> ~ In (rid r) (ids_of p)) ->
    accepted_recs p l = filter (fun r => unexpired r && a (r_tx r) (r_time r)) l.
  Proof.
    induction l as [|r l IH]; intros p SA ND NI; [reflexivity|].
    cbn [MempoolPersist.accepted_recs filter].
    inversion ND as [|? ? NIr ND']; subst.
    assert (IPF : in_pool (rid r) (with_delta p r) = false).
    { apply in_pool_false. unfold MempoolPersist.with_delta. destruct (negb (r_delta r =? 0)); [rewrite prioritise_ids|]; apply NI; left; reflexivity. }
    rewrite IPF, SA. cbn [negb]. rewrite andb_true_r.
    rewrite IH; [destruct (unexpired r && a (r_tx r) (r_time r)); reflexivity|exact SA|exact ND'|].
    intros r0 Hin H. apply apply_rec_ids in H. destruct H as [H|H].
    - apply (NI r0 (or_intror Hin)). exact H.
    - apply NIr. rewrite <- H. apply in_map. exact Hin.
  Qed.
End Restore.
