(* The clauses of property C34 in the form used by props/Properties_C34.v. *)
From BV Require Import lib.Ints model.TxRequest proofs.TxRequestBasics proofs.TxRequestInv proofs.TxRequestOps
  proofs.TxRequestSteps proofs.TxRequestPost proofs.TxRequestRefine.
From Coq Require Import Sorting.Sorted Sorting.Permutation.
Local Open Scope Z_scope.

(* ---------- an announcement only moves CANDIDATE -> REQUESTED -> COMPLETED (specification level) ---------- *)
Definition rank (st : tstate) : Z := match st with REQUESTED => 1 | COMPLETED => 2 | _ => 0 end.

Definition origin_ok (a x : ann) : Prop :=
  ident a = ident x /\ rank (a_state a) <= rank (a_state x) /\ (1 <= rank (a_state a) -> a_time x = a_time a).

(* every announcement of l' comes from one of l, or is new (sequence number >= n) *)
Definition mono (n : Z) (l l' : list ann) : Prop :=
  forall x, In x l' -> (exists a, In a l /\ origin_ok a x) \/ n <= a_seq x.

Lemma origin_refl a : origin_ok a a.
Proof. unfold origin_ok. repeat split; auto; lia. Qed.

Lemma rank_norm a : rank (a_state (norm_ann a)) = rank (a_state a).
Proof.
  unfold norm_ann. destruct (is_candidate a) eqn:E; [|reflexivity]. apply cand_states in E.
  simpl. destruct E as [E|[E|E]]; rewrite E; reflexivity.
Qed.

Section Mono.
Variable prio : Z -> Z -> bool -> Z.

Lemma s_cleanup_in l x : In x (s_cleanup l) -> In x l.
Proof. unfold s_cleanup. intros H. apply filter_In in H. tauto. Qed.

Lemma s_step_mono s o : 0 <= s_seq s < SEQ_LIMIT -> uniq (s_anns s) ->
  mono (s_seq s) (s_anns s) (s_anns (fst (s_step prio s o))).
Proof.
  intros Hs U x Hx.
  assert (SAME : In x (s_anns s) -> (exists a, In a (s_anns s) /\ origin_ok a x) \/ s_seq s <= a_seq x).
  { intros H. left. exists x. split; auto. apply origin_refl. }
  assert (TOC : forall a, origin_ok a (with_state a COMPLETED)).
  { intros a. unfold origin_ok. cbn [with_state a_state a_time]. split; [reflexivity|].
    destruct (a_state a); cbn [rank]; split; auto; lia. }
  destruct o; cbn [s_step fst] in Hx.
  - unfold s_received_inv in Hx. destruct (existsb (is_key peer h) (s_anns s)); [auto|].
    cbn [s_anns] in Hx. apply in_app_iff in Hx. destruct Hx as [Hx|[<-|[]]]; [auto|].
    right. cbn [a_seq]. rewrite wrapu59_id by lia. lia.
  - unfold s_get_requestable in Hx. cbn [fst s_anns] in Hx. apply s_cleanup_in in Hx.
    apply in_map_iff in Hx. destruct Hx as [a [E Ha]]. left. exists a. split; auto. subst x.
    unfold s_expire. destruct (st_is REQUESTED a && (a_time a <=? now)); [apply TOC|apply origin_refl].
  - unfold s_requested_tx in Hx. destruct (find_ann peer h (s_anns s)) as [it|] eqn:F; [|auto].
    destruct (is_candidate it) eqn:Ci; [|auto].
    cbn [s_anns] in Hx. apply in_map_iff in Hx. destruct Hx as [a [E Ha]]. left. exists a. split; auto. subst x.
    destruct (is_key peer h a) eqn:K.
    + assert (a = it).
      { destruct (find_ann_some _ _ _ _ F) as [Hin [Hp0 Hh0]]. apply is_key_true in K. destruct K.
        apply (uniq_same_key (s_anns s)); auto. unfold key. congruence. }
      subst a. apply cand_states in Ci. unfold origin_ok. cbn [with_state_time a_state a_time]. split; [reflexivity|].
      destruct Ci as [Ci|[Ci|Ci]]; rewrite Ci; cbn [rank]; split; lia.
    + destruct (has_txhash h a && st_is REQUESTED a); [apply TOC|apply origin_refl].
  - cbn [s_received_response s_anns] in Hx. apply s_cleanup_in in Hx. unfold set_ann in Hx.
    apply in_map_iff in Hx. destruct Hx as [a [E Ha]]. left. exists a. split; auto. subst x.
    destruct (is_key peer h a); [apply TOC|apply origin_refl].
  - cbn [s_forget s_anns] in Hx. apply filter_In in Hx. apply SAME. tauto.
  - cbn [s_disconnected s_anns] in Hx. apply s_cleanup_in in Hx. apply filter_In in Hx. apply SAME. tauto.
Qed.

End Mono.

(* ---------- the modelled PriorityComputer ranks preferred announcements first ---------- *)
Lemma wrapu64_range x : 0 <= wrapu64 x < 2 ^ 64.
Proof. unfold wrapu64, wrapu. apply Z.mod_pos_bound. reflexivity. Qed.

Lemma sip_finalize4_range s : 0 <= sip_finalize4 s < 2 ^ 64.
Proof. unfold sip_finalize4. cbv zeta. apply wrapu64_range. Qed.

Lemma siphash_range k0 k1 h p : 0 <= siphash_txhash_peer k0 k1 h p < 2 ^ 64.
Proof. unfold siphash_txhash_peer. cbv zeta. apply sip_finalize4_range. Qed.

Lemma compute_priority_nonpref h p : 0 <= compute_priority h p false < 2 ^ 63.
Proof.
  unfold compute_priority. pose proof (siphash_range 0 0 h p) as R. set (x := siphash_txhash_peer 0 0 h p) in *.
  rewrite Z.lor_0_r. rewrite Z.shiftr_div_pow2 by lia. change (2 ^ 1) with 2. change (2 ^ 64) with (2 * 2 ^ 63) in R.
  split; [apply Z.div_pos; lia|]. apply Z.div_lt_upper_bound; lia.
Qed.

Lemma compute_priority_pref h p : 2 ^ 63 <= compute_priority h p true.
Proof.
  unfold compute_priority. pose proof (siphash_range 0 0 h p) as R. set (x := siphash_txhash_peer 0 0 h p) in *.
  set (y := Z.shiftr x 1). assert (Hy : 0 <= y) by (apply Z.shiftr_nonneg; lia).
  assert (N : 0 <= Z.lor y (Z.shiftl 1 63)) by (apply Z.lor_nonneg; split; [exact Hy|apply Z.shiftl_nonneg; lia]).
  destruct (Z_lt_le_dec (Z.lor y (Z.shiftl 1 63)) (2 ^ 63)) as [L|L]; [|exact L]. exfalso.
  assert (T : Z.testbit (Z.lor y (Z.shiftl 1 63)) 63 = true).
  { rewrite Z.lor_spec. rewrite Z.shiftl_spec by lia. change (63 - 63) with 0. rewrite Z.bit0_odd.
    change (Z.odd 1) with true. apply orb_true_r. }
  rewrite Z.testbit_true in T by lia. rewrite Z.div_small in T by lia. discriminate.
Qed.

Lemma compute_priority_prefers_preferred h p1 p2 : compute_priority h p2 false < compute_priority h p1 true.
Proof. pose proof (compute_priority_nonpref h p2). pose proof (compute_priority_pref h p1). lia. Qed.

Section Main.
Variable prio : Z -> Z -> bool -> Z.
Notation Inv := (Inv prio).
Notation prio_of := (prio_of prio).

(* the state part of the refinement needs no assumption on the priority function *)
Lemma step_abs t o : Inv t -> abs (fst (step prio t o)) = fst (s_step prio (abs t) o).
Proof.
  intros I. pose proof I as [W _ _]. destruct o; cbn [step s_step fst].
  - apply abs_received_inv.
  - unfold get_requestable, s_get_requestable.
    destruct (set_time_point_abs prio t now I) as [E1 [E2 _]].
    destruct (set_time_point prio t now) as [t1 ex]. cbn [fst snd] in *. unfold abs. cbn [s_anns s_seq].
    rewrite E1, E2. reflexivity.
  - apply (abs_requested_tx prio); auto.
  - apply abs_received_response; auto.
  - apply abs_forget; auto.
  - apply abs_disconnected; auto.
Qed.

Lemma step_seq_bounds t o : Inv t -> t_seq t < SEQ_LIMIT ->
  t_seq t <= t_seq (fst (step prio t o)) <= t_seq t + 1.
Proof.
  intros I Lim. pose proof (step_abs t o I) as A. pose proof (s_step_seq prio (abs t) o) as X.
  rewrite <- A in X. cbn [abs s_seq] in X. pose proof (wf_seq _ (inv_wf _ _ I)).
  destruct X as [X|X]; rewrite X; [lia|]. rewrite wrapu64_small by lia. lia.
Qed.

Lemma run_inv : forall ops t, Inv t -> t_seq t + Z.of_nat (length ops) <= SEQ_LIMIT -> Inv (fst (run prio t ops)).
Proof.
  induction ops as [|o ops IH]; intros t I Hb; cbn [run]; [exact I|].
  cbn [length] in Hb. assert (Lim : t_seq t < SEQ_LIMIT) by lia.
  pose proof (step_inv prio t o I Lim) as I1. pose proof (step_seq_bounds t o I Lim) as B.
  destruct (step prio t o) as [t1 out]. cbn [fst] in *.
  specialize (IH t1 I1). destruct (run prio t1 ops) as [t2 outs]. cbn [fst] in *. apply IH. lia.
Qed.

Lemma origin_trans a b x : origin_ok a b -> origin_ok b x -> origin_ok a x.
Proof.
  intros [I1 [R1 T1]] [I2 [R2 T2]]. unfold origin_ok. split; [congruence|]. split; [lia|].
  intros H. rewrite T2 by lia. apply T1. exact H.
Qed.

Lemma ident_seq a x : ident a = ident x -> a_seq a = a_seq x.
Proof. unfold ident. intros H. inversion H. auto. Qed.
Lemma ident_key a x : ident a = ident x -> key a = key x.
Proof. unfold ident, key. intros H. inversion H. congruence. Qed.

Lemma step_mono t o : Inv t -> t_seq t < SEQ_LIMIT -> mono (t_seq t) (t_index t) (t_index (fst (step prio t o))).
Proof.
  intros I Lim x Hx. pose proof (step_abs t o I) as A. pose proof I as [W _ _].
  assert (Hn : In (norm_ann x) (s_anns (fst (s_step prio (abs t) o)))).
  { rewrite <- A. cbn [abs s_anns]. unfold absl. apply in_map. exact Hx. }
  pose proof (wf_seq _ W) as Sq.
  assert (Bd : 0 <= s_seq (abs t) < SEQ_LIMIT) by (cbn [abs s_seq]; lia).
  assert (Ua : uniq (s_anns (abs t))) by (cbn [abs s_anns]; apply absl_uniq; apply (wf_uniq _ W)).
  destruct (s_step_mono prio (abs t) o Bd Ua (norm_ann x) Hn) as [[a' [Ha' [O1 [O2 O3]]]]|R].
  - left. cbn [abs s_anns] in Ha'. unfold absl in Ha'. apply in_map_iff in Ha'. destruct Ha' as [a [Ea Ha]]. subst a'.
    exists a. split; auto. rewrite !norm_ident in O1. rewrite !rank_norm in O2. rewrite !rank_norm in O3. rewrite !norm_time in O3.
    unfold origin_ok. repeat split; auto.
  - right. cbn [abs s_seq] in R. rewrite norm_seq in R. exact R.
Qed.

Lemma run_mono : forall ops t, Inv t -> t_seq t + Z.of_nat (length ops) <= SEQ_LIMIT ->
  mono (t_seq t) (t_index t) (t_index (fst (run prio t ops))).
Proof.
  induction ops as [|o ops IH]; intros t I Hb; cbn [run].
  - intros x Hx. left. exists x. split; auto. apply origin_refl.
  - cbn [length] in Hb. assert (Lim : t_seq t < SEQ_LIMIT) by lia.
    pose proof (step_inv prio t o I Lim) as I1. pose proof (step_seq_bounds t o I Lim) as B.
    pose proof (step_mono t o I Lim) as M1.
    destruct (step prio t o) as [t1 out]. cbn [fst] in *.
    assert (Hb1 : t_seq t1 + Z.of_nat (length ops) <= SEQ_LIMIT) by lia.
    specialize (IH t1 I1 Hb1). destruct (run prio t1 ops) as [t2 outs]. cbn [fst] in *.
    intros x Hx. destruct (IH x Hx) as [[a1 [Ha1 O1]]|R]; [|right; lia].
    destruct (M1 a1 Ha1) as [[a [Ha O]]|R].
    + left. exists a. split; auto. eapply origin_trans; eauto.
    + right. destruct O1 as [Ei _]. apply ident_seq in Ei. lia.
Qed.

(* C34 "never requests a transaction twice from the same peer for one announcement": along every continuation
   of a run, an announcement (identified by txhash, peer, sequence number) that is still tracked has moved
   only forward in CANDIDATE < REQUESTED < COMPLETED, and once it left CANDIDATE its expiry time is never
   rewritten (so there is no second request) *)
Lemma no_rerequest ops t a x :
  Inv t -> t_seq t + Z.of_nat (length ops) <= SEQ_LIMIT ->
  In a (t_index t) -> In x (t_index (fst (run prio t ops))) -> ident a = ident x ->
  rank (a_state a) <= rank (a_state x) /\ (1 <= rank (a_state a) -> a_time x = a_time a).
Proof.
  intros I Hb Ha Hx Ei. pose proof I as [W _ [_ QF]]. pose proof (wf_uniq _ W) as U.
  destruct (run_mono ops t I Hb x Hx) as [[a' [Ha' [O1 [O2 O3]]]]|R].
  - assert (a' = a) by (apply (uniq_same_key (t_index t)); auto; apply ident_key; congruence). subst a'. auto.
  - exfalso. rewrite Forall_forall in QF. assert (In (a_seq a) (map a_seq (t_index t))) by (apply in_map; auto).
    specialize (QF _ H). apply ident_seq in Ei. lia.
Qed.

(* ---------- readable forms of the invariant ---------- *)
Lemma inv_sanity t : Inv t ->
  t_bad t = false /\
  (forall p, t_peerinfo t p = recompute_peerinfo (t_index t) p) /\
  NoDup (map (fun a => (a_peer a, a_txhash a)) (t_index t)) /\
  (forall h, let n := fun st => cnt (in_st h st) (t_index t) in
     n CANDIDATE_BEST + n REQUESTED <= 1 /\
     (0 < n CANDIDATE_READY -> n CANDIDATE_BEST + n REQUESTED = 1) /\
     (0 < n COMPLETED -> 0 < n CANDIDATE_DELAYED + n CANDIDATE_READY + n CANDIDATE_BEST + n REQUESTED)) /\
  (forall a b, In a (t_index t) -> In b (t_index t) -> a_txhash a = a_txhash b ->
     a_state a = CANDIDATE_BEST -> a_state b = CANDIDATE_READY -> prio_of b <= prio_of a) /\
  StronglySorted Z.lt (map a_seq (t_index t)).
Proof.
  intros [[Hb Hu Hpi Hl Hs] [T P] [QS QF]]. repeat split; auto.
  - apply (ok_sel _ _ (T h)).
  - intros H. pose proof (ok_ready _ _ (T h) H). pose proof (ok_sel _ _ (T h)). unfold c in *. lia.
  - apply (ok_compl _ _ (T h)).
Qed.

Lemma inv_one_selected t a b : Inv t -> In a (t_index t) -> In b (t_index t) -> a_txhash a = a_txhash b ->
  is_selected a = true -> is_selected b = true -> a = b.
Proof. intros [_ [T _] _] Ha Hb E Sa Sb. apply (sel_unique (t_index t) (a_txhash b)); auto. Qed.

Lemma inv_live t a : Inv t -> In a (t_index t) ->
  exists b, In b (t_index t) /\ a_txhash b = a_txhash a /\ a_state b <> COMPLETED.
Proof.
  intros [_ S _] Ha. pose proof (cleanup_id prio _ S) as CI. rewrite s_cleanup_eq in CI.
  assert (X : In a (filter (fun a0 => live_tx (t_index t) (a_txhash a0)) (t_index t))) by (rewrite CI; auto).
  apply filter_In in X. destruct X as [_ L]. apply live_tx_true in L. exact L.
Qed.

Lemma inv_ready_has_selected t a : Inv t -> In a (t_index t) -> a_state a = CANDIDATE_READY ->
  exists b, In b (t_index t) /\ a_txhash b = a_txhash a /\ is_selected b = true.
Proof.
  intros [_ [T _] _] Ha Sa. set (h := a_txhash a). destruct (T h) as [_ R _].
  assert (CR : 0 < c (t_index t) h CANDIDATE_READY) by (apply (c_pos_of _ _ _ a); auto). specialize (R CR).
  pose proof (c_nonneg (t_index t) h CANDIDATE_BEST). pose proof (c_nonneg (t_index t) h REQUESTED).
  destruct (Z_lt_le_dec 0 (c (t_index t) h CANDIDATE_BEST)) as [B|B].
  - apply c_pos_ex in B. destruct B as [b [Hb [Eb Sb]]]. exists b. repeat split; auto. unfold is_selected, st_is. rewrite Sb. reflexivity.
  - assert (Q : 0 < c (t_index t) h REQUESTED) by lia. apply c_pos_ex in Q. destruct Q as [b [Hb [Eb Sb]]].
    exists b. repeat split; auto. unfold is_selected, st_is. rewrite Sb. reflexivity.
Qed.

(* ---------- GetRequestable ---------- *)
Lemma get_requestable_clauses t p now : Inv t ->
  let t' := fst (fst (get_requestable prio t p now)) in
  let r := snd (fst (get_requestable prio t p now)) in
  let best := filter (fun a => has_peer p a && st_is CANDIDATE_BEST a) (t_index t') in
  (* the answer: the peer's CANDIDATE_BEST announcements, in announcement order *)
  r = map gtxid_of best /\ StronglySorted Z.lt (map a_seq best) /\
  (* PostGetRequestableSanityCheck *)
  (forall a, In a (t_index t') -> is_waiting a = true -> now < a_time a) /\
  (forall a, In a (t_index t') -> is_selectable a = true -> a_time a <= now) /\
  (* never before the earliest time, never while another request is outstanding, best priority among the
     candidates whose time has come *)
  (forall a, In a best ->
     a_peer a = p /\ is_candidate a = true /\ a_time a <= now /\
     (forall b, In b (t_index t') -> a_txhash b = a_txhash a -> a_state b <> REQUESTED) /\
     (forall b, In b (t_index t') -> a_txhash b = a_txhash a -> is_candidate b = true -> a_time b <= now ->
                prio_of b <= prio_of a)) /\
  (* no stall: a txhash with a candidate whose time has come, or with a request in flight, has a selected
     announcement *)
  (forall a, In a (t_index t') -> (is_candidate a = true /\ a_time a <= now) \/ a_state a = REQUESTED ->
     exists b, In b (t_index t') /\ a_txhash b = a_txhash a /\ is_selected b = true).
Proof.
  intros I. destruct (get_requestable_spec prio t p now I) as [I' [P1 [P2 [Er Es]]]].
  cbv zeta. set (t' := fst (fst (get_requestable prio t p now))) in *.
  pose proof I' as [W' [T' P'] _]. pose proof (wf_uniq _ W') as U'.
  split; [exact Er|]. split; [exact Es|]. split; [exact P1|]. split; [exact P2|]. split.
  - intros a Ha. apply filter_In in Ha. destruct Ha as [Ha E]. apply andb_true_iff in E. destruct E as [Ep Sa].
    apply has_peer_true in Ep. apply st_is_eq in Sa.
    assert (Sel : is_selected a = true) by (unfold is_selected, st_is; rewrite Sa; reflexivity).
    split; [exact Ep|]. split; [apply cand_states; auto|]. split.
    + apply P2; auto. unfold is_selectable, st_is. rewrite Sa. apply orb_true_r.
    + split.
      * intros b Hb Eh Sb. assert (b = a); [|subst b; congruence].
        apply (inv_one_selected t'); auto. unfold is_selected, st_is. rewrite Sb. apply orb_true_r.
      * intros b Hb Eh Cb Tb. apply cand_states in Cb. destruct Cb as [Sb|[Sb|Sb]].
        -- exfalso. assert (now < a_time b); [|lia]. apply P1; auto. unfold is_waiting, st_is. rewrite Sb. apply orb_true_r.
        -- apply P'; auto.
        -- assert (b = a); [|subst b; lia]. apply (inv_one_selected t'); auto. unfold is_selected, st_is. rewrite Sb. reflexivity.
  - intros a Ha [[Ca Ta]|Sa].
    + apply cand_states in Ca. destruct Ca as [Sa|[Sa|Sa]].
      * exfalso. assert (now < a_time a); [|lia]. apply P1; auto. unfold is_waiting, st_is. rewrite Sa. apply orb_true_r.
      * apply inv_ready_has_selected; auto.
      * exists a. repeat split; auto. unfold is_selected, st_is. rewrite Sa. reflexivity.
    + exists a. repeat split; auto. unfold is_selected, st_is. rewrite Sa. apply orb_true_r.
Qed.

(* preferred first *)
Lemma get_requestable_preferred_first t p now :
  (forall h p1 p2, prio h p2 false < prio h p1 true) -> Inv t ->
  let t' := fst (fst (get_requestable prio t p now)) in
  forall a, In a (t_index t') -> a_peer a = p -> a_state a = CANDIDATE_BEST -> a_pref a = false ->
  forall b, In b (t_index t') -> a_txhash b = a_txhash a -> is_candidate b = true -> a_time b <= now ->
  a_pref b = false.
Proof.
  intros PP I. cbv zeta. intros a Ha Ep Sa Fa b Hb Eh Cb Tb.
  destruct (get_requestable_clauses t p now I) as [_ [_ [_ [_ [B _]]]]].
  assert (Hbest : In a (filter (fun a0 => has_peer p a0 && st_is CANDIDATE_BEST a0)
                               (t_index (fst (fst (get_requestable prio t p now)))))).
  { apply filter_In. split; auto. apply has_peer_true in Ep. apply st_is_eq in Sa. rewrite Ep, Sa. reflexivity. }
  destruct (B a Hbest) as [_ [_ [_ [_ M]]]]. specialize (M b Hb Eh Cb Tb).
  destruct (a_pref b) eqn:Fb; [|reflexivity]. exfalso.
  unfold TxRequest.prio_of in M. rewrite Fa, Fb, Eh in M. pose proof (PP (a_txhash a) (a_peer b) (a_peer a)). lia.
Qed.

(* with pairwise different priorities per txhash, the CANDIDATE_BEST announcements are exactly the ones the
   reference specification selects *)
Lemma get_requestable_best_is_selected t p now : prio_inj prio -> Inv t ->
  let t' := fst (fst (get_requestable prio t p now)) in
  forall a, In a (t_index t') -> (a_state a = CANDIDATE_BEST <-> s_selected prio (t_index t') now a = true).
Proof.
  intros PI I. cbv zeta. destruct (get_requestable_spec prio t p now I) as [I' [P1 [P2 _]]].
  pose proof I' as [W' S' _]. apply best_iff_selected; auto. apply (wf_uniq _ W').
Qed.

(* ---------- refinement, from the empty tracker ---------- *)
Lemma refines_reference ops : prio_inj prio -> Z.of_nat (length ops) <= SEQ_LIMIT ->
  abs (fst (run prio t_empty ops)) = fst (s_run prio s_empty ops) /\
  Forall2 out_rel (snd (run prio t_empty ops)) (snd (s_run prio s_empty ops)).
Proof.
  intros PI Hb. destruct (run_refines prio PI ops t_empty (empty_inv prio)) as [A [B _]]; [change (t_seq t_empty) with 0; lia|].
  split; [exact A|exact B].
Qed.

Lemma reachable_run ops : Z.of_nat (length ops) <= SEQ_LIMIT -> Inv (fst (run prio t_empty ops)).
Proof. intros Hb. apply run_inv; [apply empty_inv|change (t_seq t_empty) with 0; lia]. Qed.

End Main.

(* ---------- statements over runs from the empty tracker (used verbatim by props/Properties_C34.v) ---------- *)
Section Clauses.
Variable prio : Z -> Z -> bool -> Z.

Lemma clause_sanity ops : Z.of_nat (length ops) <= 2 ^ 59 ->
  let t := fst (run prio t_empty ops) in
  t_bad t = false /\
  (forall p, t_peerinfo t p = recompute_peerinfo (t_index t) p) /\
  NoDup (map (fun a => (a_peer a, a_txhash a)) (t_index t)) /\
  (forall h, let n := fun st => cnt (in_st h st) (t_index t) in
     n CANDIDATE_BEST + n REQUESTED <= 1 /\
     (0 < n CANDIDATE_READY -> n CANDIDATE_BEST + n REQUESTED = 1) /\
     (0 < n COMPLETED -> 0 < n CANDIDATE_DELAYED + n CANDIDATE_READY + n CANDIDATE_BEST + n REQUESTED)) /\
  (forall a b, In a (t_index t) -> In b (t_index t) -> a_txhash a = a_txhash b ->
     a_state a = CANDIDATE_BEST -> a_state b = CANDIDATE_READY -> prio_of prio b <= prio_of prio a) /\
  StronglySorted Z.lt (map a_seq (t_index t)).
Proof. intros Hb. apply inv_sanity. apply reachable_run. exact Hb. Qed.

Lemma clause_one_selected ops : Z.of_nat (length ops) <= 2 ^ 59 ->
  let t := fst (run prio t_empty ops) in
  forall a b, In a (t_index t) -> In b (t_index t) -> a_txhash a = a_txhash b ->
  is_selected a = true -> is_selected b = true -> a = b.
Proof. intros Hb. cbv zeta. intros a b. apply (inv_one_selected prio _ a b). apply reachable_run. exact Hb. Qed.

Lemma clause_forgets ops : Z.of_nat (length ops) <= 2 ^ 59 ->
  let t := fst (run prio t_empty ops) in
  forall a, In a (t_index t) -> exists b, In b (t_index t) /\ a_txhash b = a_txhash a /\ a_state b <> COMPLETED.
Proof. intros Hb. cbv zeta. intros a. apply (inv_live prio _ a). apply reachable_run. exact Hb. Qed.

Lemma clause_get_requestable ops p now : Z.of_nat (length ops) <= 2 ^ 59 ->
  let t := fst (run prio t_empty ops) in
  let t' := fst (fst (get_requestable prio t p now)) in
  let r := snd (fst (get_requestable prio t p now)) in
  let best := filter (fun a => has_peer p a && st_is CANDIDATE_BEST a) (t_index t') in
  r = map gtxid_of best /\ StronglySorted Z.lt (map a_seq best) /\
  (forall a, In a (t_index t') -> is_waiting a = true -> now < a_time a) /\
  (forall a, In a (t_index t') -> is_selectable a = true -> a_time a <= now) /\
  (forall a, In a best ->
     a_peer a = p /\ is_candidate a = true /\ a_time a <= now /\
     (forall b, In b (t_index t') -> a_txhash b = a_txhash a -> a_state b <> REQUESTED) /\
     (forall b, In b (t_index t') -> a_txhash b = a_txhash a -> is_candidate b = true -> a_time b <= now ->
                prio_of prio b <= prio_of prio a)) /\
  (forall a, In a (t_index t') -> (is_candidate a = true /\ a_time a <= now) \/ a_state a = REQUESTED ->
     exists b, In b (t_index t') /\ a_txhash b = a_txhash a /\ is_selected b = true).
Proof. intros Hb. apply get_requestable_clauses. apply reachable_run. exact Hb. Qed.

Lemma clause_preferred_first ops p now :
  (forall h p1 p2, prio h p2 false < prio h p1 true) -> Z.of_nat (length ops) <= 2 ^ 59 ->
  let t := fst (run prio t_empty ops) in
  let t' := fst (fst (get_requestable prio t p now)) in
  forall a, In a (t_index t') -> a_peer a = p -> a_state a = CANDIDATE_BEST -> a_pref a = false ->
  forall b, In b (t_index t') -> a_txhash b = a_txhash a -> is_candidate b = true -> a_time b <= now ->
  a_pref b = false.
Proof. intros PP Hb. apply get_requestable_preferred_first; auto. apply reachable_run. exact Hb. Qed.

Lemma clause_best_is_selected ops p now :
  (forall h p1 p2 f1 f2, prio h p1 f1 = prio h p2 f2 -> p1 = p2) -> Z.of_nat (length ops) <= 2 ^ 59 ->
  let t := fst (run prio t_empty ops) in
  let t' := fst (fst (get_requestable prio t p now)) in
  forall a, In a (t_index t') -> (a_state a = CANDIDATE_BEST <-> s_selected prio (t_index t') now a = true).
Proof. intros PI Hb. apply get_requestable_best_is_selected; auto. apply reachable_run. exact Hb. Qed.

Lemma clause_never_requested_twice ops1 ops2 :
  Z.of_nat (length ops1) + Z.of_nat (length ops2) <= 2 ^ 59 ->
  let t := fst (run prio t_empty ops1) in
  let t2 := fst (run prio t ops2) in
  forall a x, In a (t_index t) -> In x (t_index t2) ->
    a_txhash x = a_txhash a -> a_peer x = a_peer a -> a_seq x = a_seq a ->
    (a_state a = REQUESTED -> (a_state x = REQUESTED \/ a_state x = COMPLETED) /\ a_time x = a_time a) /\
    (a_state a = COMPLETED -> a_state x = COMPLETED).
Proof.
  intros Hb. cbv zeta. intros a x Ha Hx Eh Ep Es.
  assert (I : Inv prio (fst (run prio t_empty ops1))) by (apply reachable_run; unfold SEQ_LIMIT; lia).
  set (t := fst (run prio t_empty ops1)) in *.
  pose proof I as [W _ [_ QF]]. pose proof (wf_uniq _ W) as U.
  assert (Bt : t_seq t + Z.of_nat (length ops2) <= SEQ_LIMIT).
  { (* t_seq grows by at most one per operation *)
    assert (G : forall ops t0, Inv prio t0 -> t_seq t0 + Z.of_nat (length ops) <= SEQ_LIMIT ->
                t_seq (fst (run prio t0 ops)) <= t_seq t0 + Z.of_nat (length ops)).
    { induction ops as [|o ops IH]; intros t0 I0 B0; cbn [run]; [cbn; lia|].
      cbn [length] in B0. assert (Lim : t_seq t0 < SEQ_LIMIT) by lia.
      pose proof (step_inv prio t0 o I0 Lim) as I1. pose proof (step_seq_bounds prio t0 o I0 Lim) as B.
      destruct (step prio t0 o) as [t1 out]. cbn [fst] in *.
      assert (B1 : t_seq t1 + Z.of_nat (length ops) <= SEQ_LIMIT) by lia.
      specialize (IH t1 I1 B1). destruct (run prio t1 ops) as [t2' outs]. cbn [fst length] in *. lia. }
    specialize (G ops1 t_empty (empty_inv prio)). change (t_seq t_empty) with 0 in G. fold t in G.
    unfold SEQ_LIMIT in *. lia. }
  destruct (run_mono prio ops2 t I Bt x Hx) as [[a' [Ha' [O1 [O2 O3]]]]|R].
  - assert (a' = a).
    { apply (uniq_same_key (t_index t)); auto. rewrite (ident_key _ _ O1). unfold key. congruence. }
    subst a'. split.
    + intros Sa. rewrite Sa in O2, O3. cbn [rank] in O2, O3. split; [|apply O3; lia].
      destruct (a_state x); cbn [rank] in O2; auto; lia.
    + intros Sa. rewrite Sa in O2. cbn [rank] in O2. destruct (a_state x); cbn [rank] in O2; auto; lia.
  - exfalso. rewrite Forall_forall in QF. assert (In (a_seq a) (map a_seq (t_index t))) by (apply in_map; auto).
    specialize (QF _ H). lia.
Qed.

Lemma clause_refines ops :
  (forall h p1 p2 f1 f2, prio h p1 f1 = prio h p2 f2 -> p1 = p2) -> Z.of_nat (length ops) <= 2 ^ 59 ->
  let t := fst (run prio t_empty ops) in
  let s := fst (s_run prio s_empty ops) in
  mkS (t_seq t) (map norm_ann (t_index t)) = s /\
  Forall2 out_rel (snd (run prio t_empty ops)) (snd (s_run prio s_empty ops)) /\
  (forall p h, count_total t p = s_count s p /\ count_in_flight t p = s_count_in_flight s p /\
               count_candidates t p = s_count_candidates s p /\ tracker_size t = s_size s /\
               candidate_peers t h = s_candidate_peers s h).
Proof.
  intros PI Hb. cbv zeta. destruct (refines_reference prio ops PI Hb) as [A B].
  split; [exact A|]. split; [exact B|]. intros p h. rewrite <- A.
  apply (accessors_agree prio). exact (inv_wf prio _ (reachable_run prio ops Hb)).
Qed.

End Clauses.
