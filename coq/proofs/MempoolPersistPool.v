(* C55: lemmas about the pool operations used by the loader (model/MempoolPersist.v).
   Part 2: maps and sets as finite functions; PrioritiseTransaction / submission / unbroadcast marks. *)
From Coq Require Import NArith Lia.
From BV Require Import lib.Ints gen.Params_gen model.SerBase model.SerTx model.CryptoSHA256 model.MempoolPersist
                       proofs.SerBaseLemmas proofs.SerTxLemmas proofs.MempoolPersistLemmas.
Local Open Scope Z_scope.

Lemma lex_ltb_total a : forall b, lex_ltb a b = false -> a <> b -> lex_ltb b a = true.
Proof.
  induction a as [|x a IH]; intros [|y b] H NE; cbn in *; try congruence; try reflexivity.
  destruct (x <? y)%N eqn:Exy; [discriminate|]. destruct (y <? x)%N eqn:Eyx; [reflexivity|].
  apply N.ltb_ge in Exy. apply N.ltb_ge in Eyx. assert (x = y) by lia. subst.
  apply IH; [exact H|]. intros E. apply NE. subst. reflexivity.
Qed.

(* ---- dm_find after dm_set / dm_erase ---- *)
Lemma dm_find_set_same k v m : dm_find k (dm_set k v m) = Some v.
Proof.
  induction m as [|[k' v'] r IH]; cbn; [rewrite bytes_eqb_refl; reflexivity|].
  destruct (bytes_eqb k k') eqn:E; cbn; [rewrite bytes_eqb_refl; reflexivity|].
  destruct (lex_ltb k k'); cbn; [rewrite bytes_eqb_refl; reflexivity|]. rewrite E. exact IH.
Qed.

Lemma dm_find_set_other k k1 v m : k1 <> k -> dm_find k1 (dm_set k v m) = dm_find k1 m.
Proof.
  intros NE. apply bytes_eqb_neq in NE.
  induction m as [|[k' v'] r IH]; cbn; [rewrite NE; reflexivity|].
  destruct (bytes_eqb k k') eqn:E.
  - apply bytes_eqb_eq in E. subst k'. cbn. rewrite NE. reflexivity.
  - destruct (lex_ltb k k'); cbn; [rewrite NE; reflexivity|]. destruct (bytes_eqb k1 k'); [reflexivity|exact IH].
Qed.

Lemma dm_find_erase_other k k1 m : k1 <> k -> dm_find k1 (dm_erase k m) = dm_find k1 m.
Proof.
  intros NE. induction m as [|[k' v'] r IH]; cbn; [reflexivity|].
  destruct (bytes_eqb k k') eqn:E.
  - apply bytes_eqb_eq in E. subst k'. apply bytes_eqb_neq in NE. rewrite NE. reflexivity.
  - cbn. destruct (bytes_eqb k1 k'); [reflexivity|exact IH].
Qed.

Lemma dm_erase_keys_incl k m : incl (map fst (dm_erase k m)) (map fst m).
Proof.
  induction m as [|[k' v'] r IH]; cbn; [apply incl_refl|].
  destruct (bytes_eqb k k'); [apply incl_tl, incl_refl|]. cbn. apply incl_cons; [left; reflexivity|apply incl_tl; exact IH].
Qed.

Lemma sorted_keys_cons_intro k l : sorted_keys l -> (forall k', In k' l -> lex_ltb k k' = true) -> sorted_keys (k :: l).
Proof. intros S H. destruct l as [|x l]; [constructor|]. constructor; [apply H; left; reflexivity|exact S]. Qed.

Lemma dm_erase_wf k m : dmap_wf m -> dmap_wf (dm_erase k m).
Proof.
  unfold dmap_wf. induction m as [|[k' v'] r IH]; cbn; intros W; [constructor|].
  destruct (bytes_eqb k k'); [eapply sorted_keys_tail; eassumption|]. cbn.
  apply sorted_keys_cons_intro; [apply IH; eapply sorted_keys_tail; eassumption|].
  intros k2 Hin. apply (sorted_keys_lt _ _ W). apply (dm_erase_keys_incl k r). exact Hin.
Qed.

Lemma dm_find_erase_same k m : dmap_wf m -> dm_find k (dm_erase k m) = None.
Proof.
  unfold dmap_wf. induction m as [|[k' v'] r IH]; cbn; intros W; [reflexivity|].
  destruct (bytes_eqb k k') eqn:E.
  - apply bytes_eqb_eq in E. subst k'. apply dm_find_none_notin. apply sorted_keys_notin. exact W.
  - cbn. rewrite E. apply IH. eapply sorted_keys_tail; eassumption.
Qed.

Lemma dm_set_keys k v m k2 : In k2 (map fst (dm_set k v m)) -> k2 = k \/ In k2 (map fst m).
Proof.
  induction m as [|[k' v'] r IH]; cbn; [intuition congruence|].
  destruct (bytes_eqb k k') eqn:E.
  - apply bytes_eqb_eq in E. subst. cbn. intuition congruence.
  - destruct (lex_ltb k k'); cbn; [intuition congruence|]. intros [H|H]; [intuition congruence|]. apply IH in H. tauto.
Qed.

Lemma dm_set_wf k v m : dmap_wf m -> dmap_wf (dm_set k v m).
Proof.
  unfold dmap_wf. induction m as [|[k' v'] r IH]; cbn; intros W; [constructor|].
  destruct (bytes_eqb k k') eqn:E.
  - apply bytes_eqb_eq in E. subst. exact W.
  - destruct (lex_ltb k k') eqn:L; cbn.
    + constructor; assumption.
    + apply sorted_keys_cons_intro; [apply IH; eapply sorted_keys_tail; eassumption|].
      intros k2 Hin. apply dm_set_keys in Hin. destruct Hin as [->|Hin].
      * apply lex_ltb_total; [exact L|]. apply bytes_eqb_neq. exact E.
      * apply (sorted_keys_lt _ _ W). exact Hin.
Qed.

(* ---- sets ---- *)
Lemma set_mem_in k s : set_mem k s = true <-> In k s.
Proof.
  induction s as [|k' r IH]; cbn; [split; [discriminate|tauto]|].
  rewrite orb_true_iff, IH, bytes_eqb_eq. split; intros [H|H]; auto.
Qed.

Lemma set_insert_in k s k2 : In k2 (set_insert k s) <-> k2 = k \/ In k2 s.
Proof.
  induction s as [|k' r IH]; cbn; [intuition congruence|].
  destruct (bytes_eqb k k') eqn:E.
  - apply bytes_eqb_eq in E. subst. cbn. intuition congruence.
  - destruct (lex_ltb k k'); cbn; [intuition congruence|]. rewrite IH. intuition congruence.
Qed.

Lemma sorted_keys_filter P l : sorted_keys l -> sorted_keys (filter P l).
Proof.
  induction l as [|k r IH]; intros S; [constructor|]. cbn.
  pose proof (IH (sorted_keys_tail _ _ S)) as S'.
  destruct (P k); [|exact S'].
  apply sorted_keys_cons_intro; [exact S'|]. intros k' Hin. apply filter_In in Hin. apply (sorted_keys_lt _ _ S). tauto.
Qed.

Lemma sorted_keys_snoc_filter P a k : sorted_keys (a ++ [k]) -> sorted_keys (filter P a ++ [k]).
Proof.
  intros S. replace (filter P a ++ [k]) with (filter (fun x => P x || bytes_eqb x k) (a ++ [k])).
  - apply sorted_keys_filter. exact S.
  - rewrite filter_app. cbn. rewrite bytes_eqb_refl, orb_true_r. f_equal.
    apply filter_ext_in. intros x Hin.
    assert (NE : x <> k).
    { pose proof (sorted_keys_nodup _ S) as ND. intros ->. apply NoDup_remove_2 in ND. apply ND. rewrite app_nil_r. exact Hin. }
    apply bytes_eqb_neq in NE. rewrite NE, orb_false_r. reflexivity.
Qed.

(* ---- saturating addition ---- *)
Lemma sat_add64_0_l d : INT64_MIN <= d <= INT64_MAX -> sat_add64 0 d = d.
Proof. intros H. unfold sat_add64. rewrite Z.add_0_l. destruct (d >? INT64_MAX) eqn:A; [lia|]. destruct (d <? INT64_MIN) eqn:B; [lia|reflexivity]. Qed.

(* ---- pool operations ---- *)
Definition ids_of (p : pool) : list (list N) := map e_id (p_entries p).

Lemma in_pool_ids id p : in_pool id p = true <-> In id (ids_of p).
Proof.
  unfold in_pool, ids_of. rewrite existsb_exists. split.
  - intros [e [Hin E]]. apply bytes_eqb_eq in E. subst. apply in_map. exact Hin.
  - intros Hin. apply in_map_iff in Hin. destruct Hin as [e [E Hin]]. exists e. split; [exact Hin|]. subst. apply bytes_eqb_refl.
Qed.

Lemma in_pool_false id p : in_pool id p = false <-> ~ In id (ids_of p).
Proof.
  rewrite <- in_pool_ids. destruct (in_pool id p); split; intros H; try reflexivity; try discriminate; try tauto.
Qed.

Lemma prioritise_ids p id d : ids_of (prioritise p id d) = ids_of p.
Proof.
  unfold ids_of, prioritise. cbn [p_entries]. rewrite map_map. apply map_ext. intros e. destruct (bytes_eqb id (e_id e)); reflexivity.
Qed.

Lemma prioritise_times p id d : map e_time (p_entries (prioritise p id d)) = map e_time (p_entries p).
Proof.
  unfold prioritise. cbn [p_entries]. rewrite map_map. apply map_ext. intros e. destruct (bytes_eqb id (e_id e)); reflexivity.
Qed.

Lemma prioritise_entries_absent p id d : ~ In id (ids_of p) -> p_entries (prioritise p id d) = p_entries p.
Proof.
  intros H. unfold prioritise. cbn [p_entries]. rewrite <- (map_id (p_entries p)) at 2. apply map_ext_in.
  intros e Hin. destruct (bytes_eqb id (e_id e)) eqn:E; [|reflexivity].
  apply bytes_eqb_eq in E. exfalso. apply H. subst. unfold ids_of. apply in_map. exact Hin.
Qed.

Lemma prioritise_unb p id d : p_unb (prioritise p id d) = p_unb p.
Proof. reflexivity. Qed.

Lemma in_pool_prioritise p id d id2 : in_pool id2 (prioritise p id d) = in_pool id2 p.
Proof.
  destruct (in_pool id2 p) eqn:E.
  - apply in_pool_ids. rewrite prioritise_ids. apply in_pool_ids. exact E.
  - apply in_pool_false. rewrite prioritise_ids. apply in_pool_false. exact E.
Qed.

Lemma prioritise_wf p id d : dmap_wf (p_deltas p) -> dmap_wf (p_deltas (prioritise p id d)).
Proof.
  intros W. unfold prioritise. cbn [p_deltas]. match goal with |- context [if ?c then _ else _] => destruct c end.
  - apply dm_erase_wf. exact W.
  - apply dm_set_wf. exact W.
Qed.

Lemma prioritise_find_other p id d id2 : id2 <> id -> dm_find id2 (p_deltas (prioritise p id d)) = dm_find id2 (p_deltas p).
Proof.
  intros NE. unfold prioritise. cbn [p_deltas]. match goal with |- context [if ?c then _ else _] => destruct c end.
  - apply dm_find_erase_other. exact NE.
  - apply dm_find_set_other. exact NE.
Qed.

(* the first prioritisation of a txid records exactly the delta (0 is never stored) *)
Lemma prioritise_find_fresh p id d : dmap_wf (p_deltas p) -> dm_find id (p_deltas p) = None ->
  INT64_MIN <= d <= INT64_MAX ->
  dm_find id (p_deltas (prioritise p id d)) = if d =? 0 then None else Some d.
Proof.
  intros W F R. unfold prioritise. cbn [p_deltas]. rewrite F. rewrite sat_add64_0_l by exact R.
  destruct (d =? 0); [apply dm_find_erase_same; exact W|apply dm_find_set_same].
Qed.
