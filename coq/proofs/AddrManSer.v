(* C37: Serialize writes every address with its persistent statistics and never hits its assertions. *)
From Coq Require Import Sorted Permutation.
From BV Require Import lib.Ints model.AddrMan proofs.AddrManMaps proofs.AddrManInv proofs.AddrManOps proofs.AddrManCheck.
Local Open Scope Z_scope.

Lemma mcount_perm {K V} (f : K * V -> bool) (l l' : list (K * V)) : Permutation l l' -> mcount f l = mcount f l'.
Proof. induction 1; rewrite ?mcount_cons; try lia; auto. Qed.

Section Ser.
  Variable c : cfg.
  Variable tried_bucket : Z -> Z.
  Variable bucket_pos : bool -> Z -> Z -> Z.
  Variable routable : Z -> bool.
  Variable network : Z -> Z.
  Notation Inv := (Inv c tried_bucket bucket_pos routable network).

  Definition is_newe (e : Z * ainfo) : bool := negb (a_ref (snd e) =? 0).
  Definition is_triede (e : Z * ainfo) : bool := a_tried (snd e).

  Lemma ser_new_ok l : forall nnew nids unk out,
    nids + mcount is_newe l <= nnew ->
    exists unk', ser_new l nnew nids unk out = Ok (unk', rev out ++ map (fun e => entry_of (snd e)) (filter is_newe l)).
  Proof.
    induction l as [|[id a] r IH]; intros nnew nids unk out H.
    - eexists. simpl. rewrite app_nil_r. reflexivity.
    - cbn [ser_new filter]. rewrite mcount_cons in H. unfold is_newe at 1 in H. unfold is_newe at 1. cbn [snd] in *.
      pose proof (mcount_nonneg is_newe r). destruct (negb (a_ref a =? 0)) eqn:E; cbn [b2z] in H.
      + replace (nids =? nnew) with false by (symmetry; apply Z.eqb_neq; lia).
        destruct (IH nnew (nids + 1) (zset id nids unk) (entry_of a :: out)) as (u & Q); [lia|]. exists u. rewrite Q. cbn [rev map snd]. rewrite <- app_assoc. reflexivity.
      + destruct (IH nnew nids (zset id nids unk) out) as (u & Q); [lia|]. exists u. rewrite Q. reflexivity.
  Qed.
  Lemma ser_tried_ok l : forall ntried nids out,
    nids + mcount is_triede l <= ntried ->
    ser_tried l ntried nids out = Ok (rev out ++ map (fun e => entry_of (snd e)) (filter is_triede l)).
  Proof.
    induction l as [|[id a] r IH]; intros ntried nids out H.
    - simpl. rewrite app_nil_r. reflexivity.
    - cbn [ser_tried filter]. rewrite mcount_cons in H. unfold is_triede at 1 in H. unfold is_triede at 1. cbn [snd] in *.
      pose proof (mcount_nonneg is_triede r). destruct (a_tried a) eqn:E; cbn [b2z] in H.
      + replace (nids =? ntried) with false by (symmetry; apply Z.eqb_neq; lia).
        rewrite IH by lia. cbn [rev map snd]. rewrite <- app_assoc. reflexivity.
      + rewrite IH by lia. reflexivity.
  Qed.

  (* iterating mapInfo in any order visits every entry exactly once *)
  Lemma order_infos_perm s order : NoDup (keys (s_info s)) -> NoDup order -> (forall id, In id order <-> In id (keys (s_info s))) ->
    Permutation (order_infos s order) (s_info s).
  Proof.
    intros ND NO EQ. apply NoDup_Permutation.
    - unfold order_infos. clear EQ. induction order as [|id r IH]; simpl; [constructor|]. inversion NO; subst.
      destruct (zfind id (s_info s)) as [a|] eqn:F; simpl; auto. constructor; auto.
      intros I. apply in_flat_map in I. destruct I as (x & Ix & Q). destruct (zfind x (s_info s)); [|contradiction]. destruct Q as [Q|[]]. inversion Q; subst. contradiction.
    - clear - ND. induction (s_info s) as [|[k v] r IH]; [constructor|]. simpl in ND. inversion ND; subst. constructor; auto.
      intros I. apply H1. apply in_map_iff. exists (k, v). auto.
    - intros [id a]. unfold order_infos. rewrite in_flat_map. split.
      + intros (x & Ix & Q). destruct (zfind x (s_info s)) as [a0|] eqn:F; [|contradiction]. destruct Q as [Q|[]]. inversion Q; subst. apply z_find_In; auto.
      + intros I. exists id. split; [apply EQ; apply in_map_iff; exists (id, a); auto|]. rewrite (z_In_find id a _ ND I). left. reflexivity.
  Qed.

  Theorem serialize_ok s order : Inv s -> NoDup order -> (forall id, In id order <-> In id (keys (s_info s))) ->
    exists f, serialize c s order = Ok f /\ f_nnew f = s_nnew s /\ f_ntried f = s_ntried s /\
      zlen (f_new f) = s_nnew s /\ zlen (f_tried f) = s_ntried s /\
      (* every address is written, with its source, nTime (exactly: it fits the uint32 on disk), services, last success and attempts *)
      (forall id a, zfind id (s_info s) = Some a ->
         In (mkSentry (a_key a) (a_src a) (a_time a) (a_services a) (a_last_success a) (a_attempts a)) (if a_tried a then f_tried f else f_new f)) /\
      (forall e, In e (f_new f) \/ In e (f_tried f) -> exists id a, zfind id (s_info s) = Some a /\ e = entry_of a).
  Proof.
    intros G NO EQ. pose proof G as (HA & HR & HC & HX). unfold serialize.
    pose proof (order_infos_perm s order (S_nd_info _ _ _ _ _ HA) NO EQ) as PERM. set (l := order_infos s order) in *.
    assert (NEWEQ : forall e, In e (s_info s) -> is_newe e = negb (a_tried (snd e))).
    { intros [id a] I. assert (F : zfind id (s_info s) = Some a) by (apply z_In_find; auto; apply (S_nd_info _ _ _ _ _ HA)). unfold is_newe. simpl.
      destruct (a_tried a) eqn:T.
      - rewrite (tried_ref0 c tried_bucket bucket_pos routable s id a HA F T). reflexivity.
      - pose proof (HX id a F T (fun x => x)). replace (a_ref a =? 0) with false by (symmetry; apply Z.eqb_neq; lia). reflexivity. }
    assert (CN : mcount is_newe l = s_nnew s).
    { rewrite (mcount_perm is_newe _ _ PERM), (C_new _ _ _ HC). apply z_count_ext; [|apply (S_nd_info _ _ _ _ _ HA)].
      intros k v F. rewrite NEWEQ by (apply z_find_In; auto). unfold is_new. simpl. rewrite andb_true_r. reflexivity. }
    assert (CT : mcount is_triede l = s_ntried s) by (rewrite (mcount_perm is_triede _ _ PERM), (C_tried _ _ _ HC); reflexivity).
    destruct (ser_new_ok l (s_nnew s) 0 [] []) as (unk & SN); [lia|]. rewrite SN. cbn [bind].
    rewrite (ser_tried_ok l (s_ntried s) 0 []) by lia. cbn [bind rev app].
    eexists. split; [reflexivity|]. cbn [f_nnew f_ntried f_new f_tried].
    split; [auto|]. split; [auto|].
    split; [unfold zlen; rewrite map_length; exact CN|]. split; [unfold zlen; rewrite map_length; exact CT|]. split.
    - intros id a F. assert (I : In (id, a) l) by (apply (Permutation_in _ (Permutation_sym PERM)); apply z_find_In; auto).
      destruct (S_stats _ _ _ _ _ HA _ _ F) as (_ & _ & _ & TM & _).
      assert (E : entry_of a = mkSentry (a_key a) (a_src a) (a_time a) (a_services a) (a_last_success a) (a_attempts a)).
      { unfold entry_of. rewrite wrapu32_id by (unfold UINT32_MAX; lia). reflexivity. }
      rewrite <- E. destruct (a_tried a) eqn:T; apply in_map_iff; exists (id, a); split; auto; apply filter_In; split; auto.
      + rewrite NEWEQ by (apply z_find_In; auto). simpl. rewrite T. reflexivity.
    - intros e [I|I]; apply in_map_iff in I; destruct I as ([id a] & E & I); apply filter_In in I; destruct I as [I _];
        exists id, a; split; auto; apply z_In_find; [apply (S_nd_info _ _ _ _ _ HA) | apply (Permutation_in _ PERM); auto | apply (S_nd_info _ _ _ _ _ HA) | apply (Permutation_in _ PERM); auto].
  Qed.
End Ser.
