(* Signature / public-key encoding rules (C10): the strict-DER recogniser accepts exactly the
   declarative grammar, never reads outside the vector; the hash-type validity sets; what the two
   transaction signature checkers accept. *)
From Coq Require Import NArith.
From BV Require Import lib.Ints gen.Params_gen model.SerBase model.SerTx proofs.SerBaseLemmas model.SigHash model.SigEnc.
Local Open Scope Z_scope.

(* ------------------------------------------------------------------------------------------ *)
(* byte access *)

Lemma byte_at_range sig i : 0 <= i < Z.of_nat (length sig) -> exists b, byte_at sig i = Some b /\ 0 <= b.
Proof.
  intros Hi. unfold byte_at. assert (E : (i <? 0) = false) by lia. rewrite E.
  destruct (nth_error sig (Z.to_nat i)) as [x|] eqn:En.
  - exists (Z.of_N x). split; [reflexivity | lia].
  - apply nth_error_None in En. lia.
Qed.

Lemma byte_at_some sig i b : byte_at sig i = Some b -> 0 <= i < Z.of_nat (length sig) /\ 0 <= b.
Proof.
  unfold byte_at. destruct (i <? 0) eqn:E; [discriminate|].
  destruct (nth_error sig (Z.to_nat i)) as [x|] eqn:En; [|discriminate].
  intros Eb. injection Eb as <-. assert (Z.to_nat i < length sig)%nat by (apply nth_error_Some; congruence). lia.
Qed.

Lemma byte_at_nat sig k : byte_at sig (Z.of_nat k) = option_map Z.of_N (nth_error sig k).
Proof. unfold byte_at. assert (E : (Z.of_nat k <? 0) = false) by lia. rewrite E, Nat2Z.id. reflexivity. Qed.

Lemma byte_at_app_r pre l i : 0 <= i -> byte_at (pre ++ l) (Z.of_nat (length pre) + i) = byte_at l i.
Proof.
  intros Hi. unfold byte_at.
  assert (E1 : (Z.of_nat (length pre) + i <? 0) = false) by lia. assert (E2 : (i <? 0) = false) by lia.
  rewrite E1, E2. replace (Z.to_nat (Z.of_nat (length pre) + i)) with (length pre + Z.to_nat i)%nat by lia.
  rewrite nth_error_app2 by lia. replace (length pre + Z.to_nat i - length pre)%nat with (Z.to_nat i) by lia. reflexivity.
Qed.

Lemma byte_at_app_l pre l i : 0 <= i < Z.of_nat (length pre) -> byte_at (pre ++ l) i = byte_at pre i.
Proof.
  intros Hi. unfold byte_at. destruct (i <? 0); [reflexivity|]. rewrite nth_error_app1 by lia. reflexivity.
Qed.

Lemma byte_at_hd a l : byte_at (a :: l) 0 = Some (Z.of_N a).
Proof. reflexivity. Qed.

(* ------------------------------------------------------------------------------------------ *)
(* the recogniser in "facts about indices" form *)

Definition der_index_form (sig : list N) : Prop :=
  let n := Z.of_nat (length sig) in
  exists lenR lenS r0 s0,
    9 <= n <= 73 /\
    byte_at sig 0 = Some 48 /\ byte_at sig 1 = Some (n - 3) /\ byte_at sig 2 = Some 2 /\
    byte_at sig 3 = Some lenR /\ 5 + lenR < n /\ byte_at sig (5 + lenR) = Some lenS /\ lenR + lenS + 7 = n /\
    lenR <> 0 /\ byte_at sig 4 = Some r0 /\ Z.land r0 128 = 0 /\
    (lenR > 1 -> r0 = 0 -> exists r1, byte_at sig 5 = Some r1 /\ Z.land r1 128 <> 0) /\
    byte_at sig (lenR + 4) = Some 2 /\ lenS <> 0 /\
    byte_at sig (lenR + 6) = Some s0 /\ Z.land s0 128 = 0 /\
    (lenS > 1 -> s0 = 0 -> exists s1, byte_at sig (lenR + 7) = Some s1 /\ Z.land s1 128 <> 0).

Ltac rd_some Hv b E :=
  unfold rd at 1 in Hv;
  match type of Hv with
  | match byte_at ?s ?i with _ => _ end = _ => destruct (byte_at s i) as [b|] eqn:E; [|discriminate Hv]
  end.

Ltac if_false Hv E :=
  match type of Hv with
  | (if ?c then Some false else _) = Some true => destruct c eqn:E; [discriminate Hv|]
  end.

Lemma valid_index_form sig : is_valid_signature_encoding sig = Some true -> der_index_form sig.
Proof.
  unfold is_valid_signature_encoding, der_index_form. set (n := Z.of_nat (length sig)). intros Hv.
  if_false Hv E9. if_false Hv E73.
  rd_some Hv b0 B0. if_false Hv C0.
  rd_some Hv b1 B1. if_false Hv C1.
  rd_some Hv lenR B3. if_false Hv C3.
  rd_some Hv lenS B5. if_false Hv C5.
  rd_some Hv b2 B2. if_false Hv C2.
  if_false Hv CR0.
  rd_some Hv r0 B4. if_false Hv C4.
  exists lenR, lenS, r0.
  assert (HR : lenR > 1 -> r0 = 0 -> exists r1, byte_at sig 5 = Some r1 /\ Z.land r1 128 <> 0).
  { intros G1 G2. destruct ((lenR >? 1) && (r0 =? 0)) eqn:Ec; [|lia].
    unfold rd in Hv. destruct (byte_at sig 5) as [r1|]; [|discriminate].
    exists r1. split; [reflexivity|]. destruct (Z.land r1 128 =? 0) eqn:Er; [discriminate | lia]. }
  assert (Hv2 : rd sig (lenR + 4) (fun m2 => if negb (m2 =? 2) then Some false else
                 if lenS =? 0 then Some false else
                 rd sig (lenR + 6) (fun s0 => if negb (Z.land s0 128 =? 0) then Some false else
                 match (if (lenS >? 1) && (s0 =? 0) then rd sig (lenR + 7) (fun s1 => Some (Z.land s1 128 =? 0)) else Some false) with
                 | None => None | Some true => Some false | Some false => Some true end)) = Some true).
  { destruct ((lenR >? 1) && (r0 =? 0)).
    - unfold rd at 1 in Hv. destruct (byte_at sig 5) as [r1|]; [|discriminate]. destruct (Z.land r1 128 =? 0); [discriminate | exact Hv].
    - exact Hv. }
  clear Hv. rename Hv2 into Hv.
  rd_some Hv m2 BM. if_false Hv CM. if_false Hv CS0.
  rd_some Hv s0 BS. if_false Hv CS.
  exists s0.
  assert (HS : lenS > 1 -> s0 = 0 -> exists s1, byte_at sig (lenR + 7) = Some s1 /\ Z.land s1 128 <> 0).
  { intros G1 G2. destruct ((lenS >? 1) && (s0 =? 0)) eqn:Ec; [|lia].
    unfold rd in Hv. destruct (byte_at sig (lenR + 7)) as [s1|]; [|discriminate].
    exists s1. split; [reflexivity|]. destruct (Z.land s1 128 =? 0) eqn:Er; [discriminate | lia]. }
  assert (b0 = 48) by lia. assert (b1 = n - 3) by lia. assert (b2 = 2) by lia. assert (m2 = 2) by lia. subst b0 b1 b2 m2.
  repeat (split; [first [reflexivity | assumption | lia]|]). exact HS.
Qed.

Lemma index_form_valid sig : der_index_form sig -> is_valid_signature_encoding sig = Some true.
Proof.
  unfold der_index_form, is_valid_signature_encoding. set (n := Z.of_nat (length sig)).
  intros (lenR & lenS & r0 & s0 & Hn & B0 & B1 & B2 & B3 & H5 & B5 & Hsum & HR0 & B4 & L4 & HR & BM & HS0 & BS & LS & HS).
  assert (E9 : (n <? 9) = false) by lia. assert (E73 : (n >? 73) = false) by lia. rewrite E9, E73.
  unfold rd at 1. rewrite B0. change (negb (48 =? 48)) with false. cbv iota.
  unfold rd at 1. rewrite B1. rewrite Z.eqb_refl. cbn [negb].
  unfold rd at 1. rewrite B3. assert (E5 : (5 + lenR >=? n) = false) by lia. rewrite E5.
  unfold rd at 1. rewrite B5. assert (Es : (lenR + lenS + 7 =? n) = true) by lia. rewrite Es. cbn [negb].
  unfold rd at 1. rewrite B2. change (negb (2 =? 2)) with false. cbv iota.
  assert (ER0 : (lenR =? 0) = false) by lia. rewrite ER0.
  unfold rd at 1. rewrite B4. assert (EL4 : (Z.land r0 128 =? 0) = true) by lia. rewrite EL4. cbn [negb].
  assert (E1 : (if (lenR >? 1) && (r0 =? 0) then rd sig 5 (fun r1 => Some (Z.land r1 128 =? 0)) else Some false) = Some false).
  { destruct ((lenR >? 1) && (r0 =? 0)) eqn:Ec; [|reflexivity].
    destruct HR as (r1 & B5' & L5); [lia | lia |]. unfold rd. rewrite B5'.
    assert (El : (Z.land r1 128 =? 0) = false) by lia. rewrite El. reflexivity. }
  rewrite E1.
  unfold rd at 1. rewrite BM. change (negb (2 =? 2)) with false. cbv iota.
  assert (ES0 : (lenS =? 0) = false) by lia. rewrite ES0.
  unfold rd at 1. rewrite BS. assert (ELS : (Z.land s0 128 =? 0) = true) by lia. rewrite ELS. cbn [negb].
  assert (E2 : (if (lenS >? 1) && (s0 =? 0) then rd sig (lenR + 7) (fun s1 => Some (Z.land s1 128 =? 0)) else Some false) = Some false).
  { destruct ((lenS >? 1) && (s0 =? 0)) eqn:Ec; [|reflexivity].
    destruct HS as (s1 & B7 & L7); [lia | lia |]. unfold rd. rewrite B7.
    assert (El : (Z.land s1 128 =? 0) = false) by lia. rewrite El. reflexivity. }
  rewrite E2. reflexivity.
Qed.

(* the guards exclude every out-of-range read *)
Ltac rd_in_range b E :=
  match goal with
  | |- context [rd ?s ?i _] =>
    let P := fresh "P" in
    destruct (byte_at_range s i) as (b & E & P); [lia|]; unfold rd at 1; rewrite E
  end.
Ltac if_split :=
  match goal with
  | |- (if ?c then Some false else _) <> None => let E := fresh "C" in destruct c eqn:E; [discriminate|]
  end.

Theorem sigenc_no_oob sig : is_valid_signature_encoding sig <> None.
Proof.
  unfold is_valid_signature_encoding. set (n := Z.of_nat (length sig)).
  if_split. if_split.
  rd_in_range b0 B0. if_split. rd_in_range b1 B1. if_split. rd_in_range lenR B3. if_split. rd_in_range lenS B5. if_split.
  rd_in_range b2 B2. if_split. if_split. rd_in_range r0 B4. if_split.
  assert (E1 : exists x, (if (lenR >? 1) && (r0 =? 0) then rd sig 5 (fun r1 => Some (Z.land r1 128 =? 0)) else Some false) = Some x).
  { destruct ((lenR >? 1) && (r0 =? 0)); [|eexists; reflexivity]. rd_in_range r1 B5'. eexists; reflexivity. }
  destruct E1 as [x ->]. destruct x; [discriminate|].
  rd_in_range m2 BM. if_split. if_split. rd_in_range s0 BS. if_split.
  assert (E2 : exists x, (if (lenS >? 1) && (s0 =? 0) then rd sig (lenR + 7) (fun s1 => Some (Z.land s1 128 =? 0)) else Some false) = Some x).
  { destruct ((lenS >? 1) && (s0 =? 0)) eqn:Ec; [|eexists; reflexivity]. rd_in_range s1 B7. eexists; reflexivity. }
  destruct E2 as [x ->]. destruct x; discriminate.
Qed.

(* ------------------------------------------------------------------------------------------ *)
(* the declarative grammar:
     signature ::= 0x30 len 0x02 |R| R 0x02 |S| S hashtype       len = 4 + |R| + |S|, at most 73 bytes in all
     R, S      ::= non-empty big-endian byte strings, first byte < 0x80 (not negative), and a leading
                   0x00 only when the next byte is >= 0x80 (shortest encoding) *)
Definition der_integer (v : list N) : Prop :=
  match v with
  | [] => False
  | v0 :: vt => (v0 < 128)%N /\ (v0 = 0%N -> match vt with [] => True | v1 :: _ => (128 <= v1)%N end)
  end.

Definition der_sig_grammar (sig : list N) : Prop :=
  exists R S ht,
    sig = [48%N; N.of_nat (4 + length R + length S); 2%N; N.of_nat (length R)] ++ R ++ [2%N; N.of_nat (length S)] ++ S ++ [ht]
    /\ der_integer R /\ der_integer S /\ (length sig <= 73)%nat.

Lemma land128_byte b : 0 <= b < 256 -> (Z.land b 128 = 0 <-> b < 128).
Proof.
  intros Hb. pose proof (byte_land128 b Hb) as E.
  destruct (Z.land b 128 =? 0) eqn:E1; destruct (b <? 128) eqn:E2; try discriminate; lia.
Qed.

Lemma byte_at_nth sig i b : byte_at sig i = Some b -> exists x, nth_error sig (Z.to_nat i) = Some x /\ Z.of_N x = b /\ 0 <= i.
Proof.
  unfold byte_at. destruct (i <? 0) eqn:E; [discriminate|].
  destruct (nth_error sig (Z.to_nat i)) as [x|]; [|discriminate]. intros Eb. injection Eb as <-.
  exists x. repeat split; lia.
Qed.

Lemma nth_error_skipn' {A} (l : list A) m j : nth_error (skipn m l) j = nth_error l (m + j).
Proof. revert l. induction m as [|m IH]; intros l; [reflexivity|]. destruct l as [|a l]; [destruct j; reflexivity|]. cbn. apply IH. Qed.

Lemma firstn_S_nth {A} (l : list A) k x : nth_error l k = Some x -> firstn (S k) l = firstn k l ++ [x].
Proof.
  revert l. induction k as [|k IH]; intros [|a l] E; try discriminate.
  - injection E as ->. reflexivity.
  - cbn [nth_error] in E. change (a :: firstn (S k) l = (a :: firstn k l) ++ [x]). rewrite (IH l E). reflexivity.
Qed.

Lemma skipn_one {A} (l : list A) k : length l = S k -> exists x, skipn k l = [x] /\ nth_error l k = Some x.
Proof.
  revert l. induction k as [|k IH]; intros [|a l] L; try discriminate.
  - destruct l; [|discriminate]. exists a. split; reflexivity.
  - cbn in L. destruct (IH l ltac:(lia)) as (x & E1 & E2). exists x. split; assumption.
Qed.

Lemma bytes_ok_nth sig k x : bytes_ok sig -> nth_error sig k = Some x -> (x < 256)%N.
Proof. intros F E. unfold bytes_ok in F. rewrite Forall_forall in F. apply F. eapply nth_error_In. exact E. Qed.

Lemma der_integer_firstn (l : list N) k x : (1 <= k)%nat -> nth_error l 0 = Some x -> (x < 128)%N ->
  (x = 0%N -> (2 <= k)%nat -> forall y, nth_error l 1 = Some y -> (128 <= y)%N) -> der_integer (firstn k l).
Proof.
  intros K Q0 Hx Hy. destruct k as [|k]; [lia|]. destruct l as [|a l']; [discriminate|]. injection Q0 as ->.
  cbn [firstn der_integer]. split; [exact Hx|]. intros Z0.
  destruct k as [|k]; [exact I|]. destruct l' as [|b l'']; [exact I|]. cbn [firstn].
  apply Hy; [exact Z0 | lia | reflexivity].
Qed.

(* index form -> grammar *)
Lemma index_form_grammar sig : bytes_ok sig -> der_index_form sig -> der_sig_grammar sig.
Proof.
  intros Hok. unfold der_index_form. set (n := Z.of_nat (length sig)).
  intros (lenR & lenS & r0 & s0 & Hn & B0 & B1 & B2 & B3 & H5 & B5 & Hsum & HR0 & B4 & L4 & HR & BM & HS0 & BS & LS & HS).
  destruct (byte_at_some _ _ _ B3) as [_ PR]. destruct (byte_at_some _ _ _ B5) as [_ PS].
  set (lr := Z.to_nat lenR). set (ls := Z.to_nat lenS).
  assert (Elr : lenR = Z.of_nat lr) by lia. assert (Els : lenS = Z.of_nat ls) by lia.
  assert (Ln : length sig = (7 + lr + ls)%nat) by lia.
  apply byte_at_nth in B0, B1, B2, B3, B5, B4, BM, BS.
  destruct B0 as (x0 & N0 & V0 & _). destruct B1 as (x1 & N1 & V1 & _). destruct B2 as (x2 & N2 & V2 & _).
  destruct B3 as (x3 & N3 & V3 & _). destruct B5 as (x5 & N5 & V5 & _). destruct B4 as (xr & N4 & V4 & _).
  destruct BM as (xm & NM & VM & _). destruct BS as (xs & NS & VS & _).
  change (Z.to_nat 0) with 0%nat in N0. change (Z.to_nat 1) with 1%nat in N1. change (Z.to_nat 2) with 2%nat in N2.
  change (Z.to_nat 3) with 3%nat in N3. change (Z.to_nat 4) with 4%nat in N4.
  replace (Z.to_nat (5 + lenR)) with (4 + lr + 1)%nat in N5 by lia.
  replace (Z.to_nat (lenR + 4)) with (4 + lr + 0)%nat in NM by lia.
  replace (Z.to_nat (lenR + 6)) with (6 + lr + 0)%nat in NS by lia.
  (* cut the signature at 4, 4+lr, 6+lr, 6+lr+ls *)
  set (t4 := skipn 4 sig). set (R := firstn lr t4). set (t5 := skipn lr t4).
  set (t6 := skipn 2 t5). set (S := firstn ls t6). set (t7 := skipn ls t6).
  assert (E4 : firstn 4 sig = [x0; x1; x2; x3]).
  { rewrite (firstn_S_nth _ _ _ N3), (firstn_S_nth _ _ _ N2), (firstn_S_nth _ _ _ N1), (firstn_S_nth _ _ _ N0). reflexivity. }
  assert (Lt4 : length t4 = (3 + lr + ls)%nat) by (unfold t4; rewrite skipn_length; lia).
  assert (LR : length R = lr) by (unfold R; rewrite firstn_length; lia).
  assert (Lt5 : length t5 = (3 + ls)%nat) by (unfold t5; rewrite skipn_length; lia).
  assert (E5 : firstn 2 t5 = [xm; x5]).
  { assert (M0 : nth_error t5 0 = Some xm) by (unfold t5, t4; rewrite !nth_error_skipn'; rewrite <- NM; f_equal; lia).
    assert (M1 : nth_error t5 1 = Some x5) by (unfold t5, t4; rewrite !nth_error_skipn'; rewrite <- N5; f_equal; lia).
    rewrite (firstn_S_nth _ _ _ M1), (firstn_S_nth _ _ _ M0). reflexivity. }
  assert (Lt6 : length t6 = (1 + ls)%nat) by (unfold t6; rewrite skipn_length; lia).
  assert (LS' : length S = ls) by (unfold S; rewrite firstn_length; lia).
  assert (Lt7 : length t7 = 1%nat) by (unfold t7; rewrite skipn_length; lia).
  destruct t7 as [|ht [|? ?]] eqn:E7; try discriminate.
  assert (Esig : sig = [x0; x1; x2; x3] ++ R ++ [xm; x5] ++ S ++ [ht]).
  { rewrite <- E4, <- E5, <- E7. unfold t7, S, t6, R, t5, t4.
    rewrite firstn_skipn. rewrite firstn_skipn. rewrite firstn_skipn. rewrite firstn_skipn. reflexivity. }
  (* the integers *)
  assert (DR : der_integer R).
  { unfold R. apply der_integer_firstn with (x := xr).
    - lia.
    - unfold t4. rewrite nth_error_skipn'. exact N4.
    - apply land128_byte in L4; [lia|]. assert (xr < 256)%N by (eapply bytes_ok_nth; [exact Hok | exact N4]). lia.
    - intros Z0 K2 y Q1. unfold t4 in Q1. rewrite nth_error_skipn' in Q1. change (4 + 1)%nat with 5%nat in Q1.
      destruct HR as (r1 & B5' & L5); [lia | lia |].
      apply byte_at_nth in B5'. destruct B5' as (y' & N5' & V5' & _). change (Z.to_nat 5) with 5%nat in N5'.
      assert (y' = y) by congruence. subst y'. assert (y < 256)%N by (eapply bytes_ok_nth; [exact Hok | exact N5']).
      destruct (Z_lt_dec (Z.of_N y) 128) as [Hlt|Hge]; [|lia].
      exfalso. apply L5. apply land128_byte; lia. }
  exists R, S, ht. split; [|split; [exact DR|split]].
  - rewrite LR, LS'.
    assert (X0 : x0 = 48%N) by (apply N2Z.inj; rewrite V0; reflexivity).
    assert (X1 : x1 = N.of_nat (4 + lr + ls)) by (apply N2Z.inj; rewrite V1, nat_N_Z; lia).
    assert (X2 : x2 = 2%N) by (apply N2Z.inj; rewrite V2; reflexivity).
    assert (X3 : x3 = N.of_nat lr) by (apply N2Z.inj; rewrite V3, nat_N_Z; lia).
    assert (XM : xm = 2%N) by (apply N2Z.inj; rewrite VM; reflexivity).
    assert (X5 : x5 = N.of_nat ls) by (apply N2Z.inj; rewrite V5, nat_N_Z; lia).
    rewrite X0, X1, X2, X3, XM, X5 in Esig. exact Esig.
  - (* S *)
    unfold S. apply der_integer_firstn with (x := xs).
    + lia.
    + unfold t6, t5, t4. rewrite !nth_error_skipn'. rewrite <- NS. f_equal. lia.
    + apply land128_byte in LS; [lia|]. assert (xs < 256)%N by (eapply bytes_ok_nth; [exact Hok | exact NS]). lia.
    + intros Z0 K2 y Q1. unfold t6, t5, t4 in Q1. rewrite !nth_error_skipn' in Q1.
      destruct HS as (s1 & B7 & L7); [lia | lia |].
      apply byte_at_nth in B7. destruct B7 as (y' & N7 & V7 & _).
      replace (Z.to_nat (lenR + 7)) with (4 + (lr + (2 + 1)))%nat in N7 by lia.
      assert (y' = y) by congruence. subst y'. assert (y < 256)%N by (eapply bytes_ok_nth; [exact Hok | exact N7]).
      destruct (Z_lt_dec (Z.of_N y) 128) as [Hlt|Hge]; [|lia].
      exfalso. apply L7. apply land128_byte; lia.
  - lia.
Qed.

Lemma byte_at_of_nth sig k x : nth_error sig k = Some x -> byte_at sig (Z.of_nat k) = Some (Z.of_N x).
Proof. intros E. rewrite byte_at_nat, E. reflexivity. Qed.

(* grammar -> index form *)
Lemma der_integer_head v : der_integer v -> exists v0 vt, v = v0 :: vt /\ (v0 < 128)%N /\
  (v0 = 0%N -> match vt with [] => True | v1 :: _ => (128 <= v1)%N end).
Proof. destruct v as [|v0 vt]; [intros []|]. intros [A B]. exists v0, vt. repeat split; assumption. Qed.

Lemma grammar_index_form sig : bytes_ok sig -> der_sig_grammar sig -> der_index_form sig.
Proof.
  intros Hok (R & S & ht & Esig & DR & DS & L73).
  destruct (der_integer_head _ DR) as (r0 & R' & ER & Hr0 & Hr1).
  destruct (der_integer_head _ DS) as (s0 & S' & ES & Hs0 & Hs1).
  set (lr := length R) in *. set (ls := length S) in *.
  assert (Ln : length sig = (7 + lr + ls)%nat).
  { rewrite Esig. cbn [app length]. rewrite !app_length. cbn [length]. rewrite app_length. cbn [length]. fold lr ls. lia. }
  assert (Lr : (1 <= lr)%nat) by (unfold lr; rewrite ER; cbn; lia).
  assert (Ls : (1 <= ls)%nat) by (unfold ls; rewrite ES; cbn; lia).
  unfold der_index_form. exists (Z.of_nat lr), (Z.of_nat ls), (Z.of_N r0), (Z.of_N s0).
  (* three ways of bracketing the signature *)
  set (A := [48%N; N.of_nat (4 + lr + ls); 2%N; N.of_nat lr]) in *.
  set (B := [2%N; N.of_nat ls]) in *.
  assert (E1 : sig = (A ++ R) ++ (B ++ S ++ [ht])) by (rewrite Esig, <- app_assoc; reflexivity).
  assert (E2 : sig = (A ++ R ++ B) ++ (S ++ [ht])) by (rewrite Esig, <- !app_assoc; reflexivity).
  assert (LA : length (A ++ R) = (4 + lr)%nat) by (rewrite app_length; reflexivity).
  assert (LB : length (A ++ R ++ B) = (6 + lr)%nat) by (unfold A, B, lr; rewrite !app_length; cbn [length]; lia).
  split; [lia|].
  split; [rewrite Esig; reflexivity|].
  split; [change (byte_at sig 1) with (byte_at sig (Z.of_nat 1)); rewrite (byte_at_of_nth sig 1 (N.of_nat (4 + lr + ls))); [f_equal; rewrite nat_N_Z; lia | rewrite Esig; reflexivity]|].
  split; [rewrite Esig; reflexivity|].
  split; [change (byte_at sig 3) with (byte_at sig (Z.of_nat 3)); rewrite (byte_at_of_nth sig 3 (N.of_nat lr)); [f_equal; rewrite nat_N_Z; reflexivity | rewrite Esig; reflexivity]|].
  split; [lia|].
  split.
  { rewrite E1. replace (5 + Z.of_nat lr) with (Z.of_nat (length (A ++ R)) + 1) by lia.
    rewrite byte_at_app_r by lia. change (byte_at (B ++ S ++ [ht]) 1) with (byte_at (B ++ S ++ [ht]) (Z.of_nat 1)).
    rewrite (byte_at_of_nth _ 1 (N.of_nat ls)); [f_equal; rewrite nat_N_Z; reflexivity | reflexivity]. }
  split; [lia|]. split; [lia|].
  split; [rewrite Esig, ER; reflexivity|].
  split; [apply land128_byte; lia|].
  split.
  { intros G1 G2. destruct R' as [|r1 R'']; [unfold lr in G1; rewrite ER in G1; cbn in G1; lia|].
    exists (Z.of_N r1). split; [rewrite Esig, ER; reflexivity|].
    assert (r0 = 0%N) by lia. specialize (Hr1 H). intros X.
    assert (r1 < 256)%N.
    { unfold bytes_ok in Hok. rewrite Forall_forall in Hok. apply Hok. rewrite Esig, ER. cbn. tauto. }
    apply land128_byte in X; lia. }
  split.
  { rewrite E1. replace (Z.of_nat lr + 4) with (Z.of_nat (length (A ++ R)) + 0) by lia.
    rewrite byte_at_app_r by lia. reflexivity. }
  split; [lia|].
  split.
  { rewrite E2. replace (Z.of_nat lr + 6) with (Z.of_nat (length (A ++ R ++ B)) + 0) by lia.
    rewrite byte_at_app_r by lia. rewrite ES. reflexivity. }
  split; [apply land128_byte; lia|].
  intros G1 G2. destruct S' as [|s1 S'']; [unfold ls in G1; rewrite ES in G1; cbn in G1; lia|].
  exists (Z.of_N s1). split.
  { rewrite E2. replace (Z.of_nat lr + 7) with (Z.of_nat (length (A ++ R ++ B)) + 1) by lia.
    rewrite byte_at_app_r by lia. rewrite ES. reflexivity. }
  assert (s0 = 0%N) by lia. specialize (Hs1 H). intros X.
  assert (s1 < 256)%N.
  { unfold bytes_ok in Hok. rewrite Forall_forall in Hok. apply Hok. rewrite E2, ES. apply in_or_app. right. cbn. tauto. }
  apply land128_byte in X; lia.
Qed.

(* (iii) the strict-DER recogniser accepts exactly the grammar *)
Theorem der_recogniser_iff_grammar sig : bytes_ok sig ->
  (is_valid_signature_encoding sig = Some true <-> der_sig_grammar sig).
Proof.
  intros Hok. split.
  - intros V. apply index_form_grammar; [exact Hok | apply valid_index_form; exact V].
  - intros G. apply index_form_valid. apply grammar_index_form; assumption.
Qed.

(* ------------------------------------------------------------------------------------------ *)
(* (ii) hash-type validity sets *)

Definition defined_hashtypes : list Z := [1; 2; 3; 129; 130; 131].
Definition taproot_hashtypes : list Z := [0; 1; 2; 3; 129; 130; 131].

Lemma byte_cases (P : Z -> Prop) : (forall k : nat, (k < 256)%nat -> P (Z.of_nat k)) -> forall b, 0 <= b < 256 -> P b.
Proof. intros Hk b Hb. replace b with (Z.of_nat (Z.to_nat b)) by lia. apply Hk. lia. Qed.

Fixpoint all_below (k : nat) (f : nat -> bool) : bool := match k with O => true | S j => f j && all_below j f end.
Lemma all_below_spec k f : all_below k f = true -> forall j, (j < k)%nat -> f j = true.
Proof.
  induction k as [|k IH]; intros Ha j Hj; [lia|]. cbn in Ha. apply andb_prop in Ha. destruct Ha as [A B].
  destruct (Nat.eq_dec j k) as [->|Hne]; [exact A | apply IH; [exact B | lia]].
Qed.

Definition in_zlist (x : Z) (l : list Z) : bool := existsb (Z.eqb x) l.
Lemma in_zlist_In x l : in_zlist x l = true <-> In x l.
Proof.
  unfold in_zlist. rewrite existsb_exists. split.
  - intros (y & Hy & E). apply Z.eqb_eq in E. subst. exact Hy.
  - intros Hx. exists x. split; [exact Hx | apply Z.eqb_refl].
Qed.

(* STRICTENC: the last byte, with the ANYONECANPAY bit cleared, must be ALL, NONE or SINGLE *)
Theorem defined_hashtype_set body ht : (ht < 256)%N ->
  (is_defined_hashtype_signature (body ++ [ht]) = true <-> In (Z.of_N ht) defined_hashtypes).
Proof.
  intros Hb. unfold is_defined_hashtype_signature. rewrite rev_app_distr. cbn [rev app].
  rewrite <- in_zlist_In.
  assert (G : forall b, 0 <= b < 256 ->
            (let nht := wrapu8 (Z.land b (Z.lnot SIGHASH_ANYONECANPAY)) in
             if (nht <? SIGHASH_ALL) || (nht >? SIGHASH_SINGLE) then false else true) = in_zlist b defined_hashtypes).
  { apply byte_cases. intros k Hk.
    apply (all_below_spec 256 (fun k => Bool.eqb
             (let nht := wrapu8 (Z.land (Z.of_nat k) (Z.lnot SIGHASH_ANYONECANPAY)) in
              if (nht <? SIGHASH_ALL) || (nht >? SIGHASH_SINGLE) then false else true)
             (in_zlist (Z.of_nat k) defined_hashtypes))) in Hk; [|vm_compute; reflexivity].
    apply Bool.eqb_prop in Hk. exact Hk. }
  rewrite G by lia. reflexivity.
Qed.

Theorem defined_hashtype_empty : is_defined_hashtype_signature [] = false.
Proof. reflexivity. Qed.

(* taproot: SignatureHashSchnorr accepts exactly {0,1,2,3,0x81,0x82,0x83} *)
Theorem taproot_hashtype_set ht : 0 <= ht < 256 -> (tap_hash_type_valid ht = true <-> In ht taproot_hashtypes).
Proof.
  intros Hb. rewrite <- in_zlist_In. revert ht Hb. apply byte_cases. intros k Hk.
  apply (all_below_spec 256 (fun k => Bool.eqb (tap_hash_type_valid (Z.of_nat k)) (in_zlist (Z.of_nat k) taproot_hashtypes))) in Hk;
    [|vm_compute; reflexivity].
  apply Bool.eqb_prop in Hk. rewrite Hk. reflexivity.
Qed.

(* ------------------------------------------------------------------------------------------ *)
(* CheckSignatureEncoding as a conjunction of rules *)

Lemma flag_set_lor flags a b : flag_set flags (Z.lor a b) = flag_set flags a || flag_set flags b.
Proof.
  unfold flag_set. rewrite Z.land_lor_distr_r.
  destruct (Z.land flags a =? 0) eqn:Ea; destruct (Z.land flags b =? 0) eqn:Eb; cbn [negb orb];
    match goal with |- negb ?c = _ => destruct c eqn:Ec end; try reflexivity; exfalso.
  - apply Z.eqb_neq in Ec. apply Ec. apply Z.lor_eq_0_iff. lia.
  - apply Z.eqb_eq in Ec. apply Z.lor_eq_0_iff in Ec. lia.
  - apply Z.eqb_eq in Ec. apply Z.lor_eq_0_iff in Ec. lia.
  - apply Z.eqb_eq in Ec. apply Z.lor_eq_0_iff in Ec. lia.
Qed.

Section Checkers.
Variable low_s : list N -> bool.

Theorem check_signature_encoding_ok flags sig : bytes_ok sig ->
  (check_signature_encoding low_s flags sig = None <->
   sig = [] \/
   ((flag_set flags SH_FLAG_DERSIG || (flag_set flags SH_FLAG_LOW_S || flag_set flags SH_FLAG_STRICTENC) = true -> der_sig_grammar sig) /\
    (flag_set flags SH_FLAG_LOW_S = true -> low_s (drop_last sig) = true) /\
    (flag_set flags SH_FLAG_STRICTENC = true -> is_defined_hashtype_signature sig = true))).
Proof.
  intros Hok. unfold check_signature_encoding. destruct sig as [|a sig']; [split; [left; reflexivity | reflexivity]|].
  set (sig := a :: sig') in *.
  rewrite !flag_set_lor.
  pose proof (der_recogniser_iff_grammar sig Hok) as G. pose proof (sigenc_no_oob sig) as NO.
  unfold is_low_der_signature.
  destruct (is_valid_signature_encoding sig) as [[|]|] eqn:V; [| |congruence].
  - (* DER-valid *)
    assert (Gr : der_sig_grammar sig) by (apply G; reflexivity).
    destruct (flag_set flags SH_FLAG_DERSIG || (flag_set flags SH_FLAG_LOW_S || flag_set flags SH_FLAG_STRICTENC)) eqn:Ed;
      destruct (flag_set flags SH_FLAG_LOW_S) eqn:El; destruct (low_s (drop_last sig)) eqn:Els;
      destruct (flag_set flags SH_FLAG_STRICTENC) eqn:Est; destruct (is_defined_hashtype_signature sig) eqn:Eh;
      cbn [negb andb orb]; split; intros X; try reflexivity; try discriminate;
      try (right; repeat split; intros; (assumption || discriminate || reflexivity));
      try (destruct X as [X|(X1 & X2 & X3)]; [discriminate X | try (specialize (X2 eq_refl); discriminate X2); try (specialize (X3 eq_refl); discriminate X3)]).
  - (* not DER-valid *)
    assert (Gr : ~ der_sig_grammar sig) by (intros X; apply G in X; discriminate).
    destruct (flag_set flags SH_FLAG_DERSIG || (flag_set flags SH_FLAG_LOW_S || flag_set flags SH_FLAG_STRICTENC)) eqn:Ed.
    + split; [discriminate|]. intros [X|(X1 & _)]; [discriminate X|]. exfalso. apply Gr. apply X1. reflexivity.
    + apply orb_false_elim in Ed. destruct Ed as [_ Ed]. apply orb_false_elim in Ed. destruct Ed as [El Est].
      rewrite El, Est. cbn [andb]. split; [|reflexivity]. intros _. right.
      split; [intros X; discriminate X|].
      split; intros X; discriminate X.
Qed.

End Checkers.

(* ------------------------------------------------------------------------------------------ *)
(* the two checkers *)
Lemma rev_cons_split {A} (l : list A) x r : rev l = x :: r -> l = rev r ++ [x] /\ drop_last l = rev r.
Proof.
  intros E. assert (E' : l = rev (x :: r)) by (rewrite <- E, rev_involutive; reflexivity).
  cbn [rev] in E'. split; [exact E'|]. unfold drop_last. rewrite E'. apply removelast_last.
Qed.

Section Ecdsa.
Variable H : list N -> list N.
Variable ecdsa_verify : list N -> list N -> list N -> bool.

(* CheckECDSASignature succeeds iff the key has a valid format, the signature is a DER part followed by a
   hash-type byte, and CPubKey::Verify accepts the DER part for the digest the applicable algorithm
   defines for this context and that hash-type byte *)
Theorem check_ecdsa_iff witness_v0 t nIn amount sig pk sc :
  check_ecdsa_signature H ecdsa_verify witness_v0 t nIn amount sig pk sc = ChkTrue <->
  pubkey_is_valid pk = true /\
  exists der ht, sig = der ++ [ht] /\ (witness_v0 = true -> 0 <= amount) /\
    exists d, (if witness_v0 then bip143_sighash H t nIn (Z.of_N ht) sc amount else legacy_sighash H t nIn (Z.of_N ht) sc) = Some d /\
              ecdsa_verify pk d der = true.
Proof.
  unfold check_ecdsa_signature. destruct (pubkey_is_valid pk); cbn [negb]; [|split; [discriminate | intros [X _]; discriminate X]].
  destruct (rev sig) as [|last r] eqn:Er.
  - split; [discriminate|]. intros (_ & der & ht & E & _). subst sig. rewrite rev_app_distr in Er. discriminate.
  - destruct (rev_cons_split _ _ _ Er) as [Es Ed]. rewrite Ed.
    destruct (witness_v0 && (amount <? 0)) eqn:Ea.
    + split; [discriminate|]. intros (_ & der & ht & E & Ham & _). apply andb_prop in Ea. destruct Ea as [-> Ea]. specialize (Ham eq_refl). lia.
    + match goal with |- match ?X with _ => _ end = _ <-> _ => destruct X as [d|] eqn:Ed' end.
      * destruct (ecdsa_verify pk d (rev r)) eqn:Ev.
        -- split; [intros _|reflexivity]. split; [reflexivity|]. exists (rev r), last. split; [exact Es|].
           split; [intros ->; cbn [andb] in Ea; lia|]. exists d. split; assumption.
        -- split; [discriminate|]. intros (_ & der & ht & E & _ & d' & Ed2 & Ev2). rewrite Es in E.
           apply app_inj_tail in E. destruct E as [<- <-]. rewrite Ed' in Ed2. injection Ed2 as <-. congruence.
      * split; [discriminate|]. intros (_ & der & ht & E & _ & d' & Ed2 & _). rewrite Es in E.
        apply app_inj_tail in E. destruct E as [<- <-]. congruence.
Qed.

End Ecdsa.

Section Schnorr.
Variable H : list N -> list N.
Variable schnorr_verify : list N -> list N -> list N -> bool.

Lemma taproot_sighash_valid_type t nIn ht c d : taproot_sighash H t nIn ht c = ShPre d -> tap_hash_type_valid ht = true.
Proof.
  unfold taproot_sighash, taproot_preimage.
  destruct (nth_error (tx_vin t) nIn); [|discriminate]. destruct (tc_spent c); [discriminate|].
  destruct (nth_error _ nIn); [|discriminate]. destruct (negb (_ =? _)%nat); [discriminate|].
  destruct (tap_hash_type_valid ht); [reflexivity | discriminate].
Qed.

(* CheckSchnorrSignature: 64 bytes = SIGHASH_DEFAULT; 65 bytes = explicit type, which must not be 0x00 *)
Theorem check_schnorr_iff t nIn c sig pk :
  check_schnorr_signature H schnorr_verify t nIn c sig pk = ChkTrue <->
  length pk = 32%nat /\
  ((length sig = 64%nat /\ exists d, taproot_sighash H t nIn SIGHASH_DEFAULT c = ShPre d /\ schnorr_verify pk d sig = true) \/
   (exists s64 ht, sig = s64 ++ [ht] /\ length s64 = 64%nat /\ Z.of_N ht <> SIGHASH_DEFAULT /\
      exists d, taproot_sighash H t nIn (Z.of_N ht) c = ShPre d /\ schnorr_verify pk d s64 = true)).
Proof.
  unfold check_schnorr_signature.
  destruct (length pk =? 32)%nat eqn:Epk; cbn [negb]; [apply Nat.eqb_eq in Epk | split; [discriminate | intros [X _]; apply Nat.eqb_neq in Epk; contradiction]].
  destruct (length sig =? 64)%nat eqn:E64; cbn [negb andb].
  - apply Nat.eqb_eq in E64. assert (E65 : (length sig =? 65)%nat = false) by (apply Nat.eqb_neq; lia). rewrite E65.
    destruct (taproot_sighash H t nIn SIGHASH_DEFAULT c) as [| | | |d] eqn:Ed; try (split; [discriminate|]; intros [_ [(_ & d' & X & _)|(s64 & ht & -> & L & _)]]; [discriminate X | rewrite app_length in E64; cbn in E64; lia]).
    destruct (schnorr_verify pk d sig) eqn:Ev.
    + split; [intros _|reflexivity]. split; [exact Epk|]. left. split; [exact E64|]. exists d. split; [reflexivity | exact Ev].
    + split; [discriminate|]. intros [_ [(_ & d' & X & Y)|(s64 & ht & -> & L & _)]]; [injection X as <-; congruence | rewrite app_length in E64; cbn in E64; lia].
  - destruct (length sig =? 65)%nat eqn:E65; cbn [negb].
    + apply Nat.eqb_eq in E65. destruct (rev sig) as [|last r] eqn:Er.
      { exfalso. assert (X : sig = []) by (rewrite <- (rev_involutive sig), Er; reflexivity). rewrite X in E65. discriminate. }
      destruct (rev_cons_split _ _ _ Er) as [Es Edl]. rewrite Edl.
      assert (L64 : length (rev r) = 64%nat) by (rewrite Es, app_length in E65; cbn in E65; lia).
      destruct (Z.of_N last =? SIGHASH_DEFAULT) eqn:E0.
      * split; [discriminate|]. intros [_ [(X & _)|(s64 & ht & E & L & Hne & _)]]; [apply Nat.eqb_neq in E64; contradiction|].
        rewrite Es in E. apply app_inj_tail in E. destruct E as [_ <-]. lia.
      * destruct (taproot_sighash H t nIn (Z.of_N last) c) as [| | | |d] eqn:Ed;
          try (split; [discriminate|]; intros [_ [(X & _)|(s64 & ht & E & L & Hne & d' & X & _)]];
               [apply Nat.eqb_neq in E64; contradiction | rewrite Es in E; apply app_inj_tail in E; destruct E as [_ <-]; congruence]).
        destruct (schnorr_verify pk d (rev r)) eqn:Ev.
        -- split; [intros _|reflexivity]. split; [exact Epk|]. right. exists (rev r), last.
           split; [exact Es|]. split; [exact L64|]. split; [lia|]. exists d. split; [exact Ed | exact Ev].
        -- split; [discriminate|]. intros [_ [(X & _)|(s64 & ht & E & L & Hne & d' & X & Y)]]; [apply Nat.eqb_neq in E64; contradiction|].
           rewrite Es in E. apply app_inj_tail in E. destruct E as [<- <-]. rewrite Ed in X. injection X as <-. congruence.
    + split; [discriminate|]. apply Nat.eqb_neq in E64, E65.
      intros [_ [(X & _)|(s64 & ht & -> & L & _)]]; [contradiction | rewrite app_length in E65; cbn in E65; lia].
Qed.

(* a 65-byte signature whose explicit hash type is 0x00 is rejected, whatever the signature *)
Theorem schnorr_explicit_default_rejected t nIn c s64 pk : length s64 = 64%nat -> length pk = 32%nat ->
  check_schnorr_signature H schnorr_verify t nIn c (s64 ++ [0%N]) pk = ChkErr E_SCHNORR_SIG_HASHTYPE.
Proof.
  intros L Lp. unfold check_schnorr_signature. rewrite Lp. cbn [Nat.eqb negb].
  rewrite app_length, L. cbn [length Nat.add Nat.eqb negb andb]. rewrite rev_app_distr. cbn [rev app]. reflexivity.
Qed.

(* the explicit hash types an accepted 65-byte signature can carry *)
Theorem schnorr_explicit_hashtype_set t nIn c s64 ht pk : length s64 = 64%nat -> (ht < 256)%N ->
  check_schnorr_signature H schnorr_verify t nIn c (s64 ++ [ht]) pk = ChkTrue -> In (Z.of_N ht) defined_hashtypes.
Proof.
  intros L Hb Hc. apply check_schnorr_iff in Hc. destruct Hc as [_ [(X & _)|(s & h & E & _ & Hne & d & Ed & _)]].
  - rewrite app_length, L in X. cbn in X. lia.
  - apply app_inj_tail in E. destruct E as [_ <-]. apply taproot_sighash_valid_type in Ed.
    apply taproot_hashtype_set in Ed; [|lia]. unfold taproot_hashtypes in Ed. unfold defined_hashtypes. cbn [In] in *.
    unfold SIGHASH_DEFAULT in Hne. lia.
Qed.

End Schnorr.
