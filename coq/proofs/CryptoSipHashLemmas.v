(* C49 — SipHash: the test vectors of the paper / reference implementation pin the specification;
   the C++ object CSipHasher (byte-span Write with a uint8_t counter, Write(uint64_t), Finalize) and
   the uint256 fast paths of PresaltedSipHasher compute SipHash-2-4 of the bytes written, for every
   fragmentation and every total length. *)
From Coq Require Import NArith Arith.
From BV Require Import lib.Ints model.CryptoBase model.CryptoSipHash proofs.CryptoBaseLemmas.
Local Open Scope Z_scope.

(* ================= test vectors ================= *)
(* key 00 01 ... 0f: k0 = 0x0706050403020100, k1 = 0x0f0e0d0c0b0a0908 (little endian) *)
Definition sip_tv_k0 : Z := 0x0706050403020100.
Definition sip_tv_k1 : Z := 0x0f0e0d0c0b0a0908.
Definition bytes_upto (n : nat) : list N := map (fun i => N.of_nat (i mod 256)) (seq 0 n).

(* Appendix A of the paper: m = 00 01 ... 0e (15 bytes), SipHash-2-4 = a129ca6149be45e5 *)
Example siphash24_vector_paper :
  siphash24_spec sip_tv_k0 sip_tv_k1 [0;1;2;3;4;5;6;7;8;9;10;11;12;13;14]%N = 0xa129ca6149be45e5.
Proof. vm_compute. reflexivity. Qed.

(* Appendix A also lists the state after initialization and the final state words; initialization: *)
Example siphash24_vector_paper_init :
  sip_init sip_tv_k0 sip_tv_k1 = (0x7469686173716475, 0x6b617f6d656e6665, 0x6b7f62616d677361, 0x7b6b696e727e6c7b).
Proof. vm_compute. reflexivity. Qed.

(* reference implementation, vectors.h, vectors_sip64[n] = SipHash-2-4 of 00 01 ... (n-1) under the
   same key (values cross-checked with an independent implementation; the same table is
   siphash_4_2_testvec in src/test/hash_tests.cpp) *)
Example siphash24_vectors_ref :
  map (fun n => siphash24_spec sip_tv_k0 sip_tv_k1 (bytes_upto n)) [0; 1; 2; 3; 7; 8; 9; 15; 16; 63]%nat =
  [0x726fdb47dd0e0e31; 0x74f839c593dc67fd; 0x0d6c8009d9a94f5a; 0x85676696d7fb7e2d; 0xab0200f58b01d137;
   0x93f5f5799a932462; 0x9e0082df0ba9e4b0; 0xa129ca6149be45e5; 0x3f2acc7f57c29bdb; 0x958a324ceb064572].
Proof. vm_compute. reflexivity. Qed.

(* lengths at and beyond 256 (the length byte wraps) *)
Example siphash24_vectors_long :
  map (fun n => siphash24_spec sip_tv_k0 sip_tv_k1 (bytes_upto n)) [256; 300]%nat =
  [0x999d0526d2a7bfd7; 0x4b0b710db6117839].
Proof. vm_compute. reflexivity. Qed.

(* the model of the C++ object on the same inputs, fragmented *)
Example csiphasher_vectors :
  map (fun cs => csiphasher_stream sip_tv_k0 sip_tv_k1 cs)
      [ []; [[0]]; [[0;1;2];[];[3;4;5;6]]; [bytes_upto 5; skipn 5 (bytes_upto 63)];
        [bytes_upto 255; skipn 255 (bytes_upto 300)] ]%N =
  [0x726fdb47dd0e0e31; 0x74f839c593dc67fd; 0xab0200f58b01d137; 0x958a324ceb064572; 0x4b0b710db6117839].
Proof. vm_compute. reflexivity. Qed.

(* ================= the C++ SipHashState primitives are those of the paper ================= *)
Lemma cpp_sipround_eq v : cpp_sipround v = sipround v.
Proof. destruct v as [[[v0 v1] v2] v3]. reflexivity. Qed.

Lemma sipstate_init_eq k0 k1 : sipstate_init k0 k1 = sip_init k0 k1.
Proof.
  unfold sipstate_init, sip_init, SIP_C0, SIP_C1, SIP_C2, SIP_C3.
  rewrite (Z.lxor_comm _ k0), (Z.lxor_comm _ k1), (Z.lxor_comm _ k0), (Z.lxor_comm _ k1). reflexivity.
Qed.

Lemma cpp_compress2_eq v m : cpp_compress2 v m = sip_compress 2 v m.
Proof.
  destruct v as [[[v0 v1] v2] v3]. unfold cpp_compress2, sip_compress. cbn [sip_iter].
  rewrite !cpp_sipround_eq. reflexivity.
Qed.

Lemma cpp_compress1_eq v m : cpp_compress1 v m = sip_compress 1 v m.
Proof.
  destruct v as [[[v0 v1] v2] v3]. unfold cpp_compress1, sip_compress. cbn [sip_iter].
  rewrite !cpp_sipround_eq. reflexivity.
Qed.

Lemma cpp_finalize4_eq v : cpp_finalize4 v = sip_finalize 4 v.
Proof.
  destruct v as [[[v0 v1] v2] v3]. unfold cpp_finalize4, sip_finalize, SIP_FINALIZER. cbn [sip_iter].
  rewrite !cpp_sipround_eq. reflexivity.
Qed.

(* ================= words from bytes ================= *)
Lemma le_value_app a : forall b, le_value (a ++ b) = le_value a + 2 ^ (8 * Z.of_nat (length a)) * le_value b.
Proof.
  induction a as [|x a IH]; intros b.
  - cbn [app length le_value]. change (2 ^ (8 * Z.of_nat 0)) with 1. lia.
  - cbn [app le_value length]. rewrite IH.
    replace (8 * Z.of_nat (S (length a))) with (8 + 8 * Z.of_nat (length a)) by lia.
    rewrite Z.pow_add_r by lia. change (2 ^ 8) with 256. ring.
Qed.

Lemma le_value_bound l : bytes_ok l -> 0 <= le_value l < 2 ^ (8 * Z.of_nat (length l)).
Proof.
  intros H. induction H as [|x l Hx Hl IH].
  - simpl. lia.
  - cbn [le_value length].
    replace (8 * Z.of_nat (S (length l))) with (8 + 8 * Z.of_nat (length l)) by lia.
    rewrite Z.pow_add_r by lia. change (2 ^ 8) with 256. lia.
Qed.

Lemma le_value_zeros k : le_value (zeros k) = 0.
Proof. induction k as [|k IH]; [reflexivity|]. unfold zeros in *. cbn [repeat le_value]. rewrite IH. reflexivity. Qed.

Lemma bytes_ok_app a b : bytes_ok a -> bytes_ok b -> bytes_ok (a ++ b).
Proof. unfold bytes_ok. intros Ha Hb. apply Forall_app. split; assumption. Qed.

(* x | (c << n) = x + c * 2^n when x has at most n bits *)
Lemma lor_shiftl_add x c n : 0 <= n -> 0 <= x < 2 ^ n -> Z.lor x (Z.shiftl c n) = x + c * 2 ^ n.
Proof.
  intros Hn Hx.
  assert (Hland : Z.land x (Z.shiftl c n) = 0).
  { apply Z.bits_inj'. intros m Hm. rewrite Z.land_spec, Z.bits_0.
    destruct (Z_lt_le_dec m n) as [Hlt | Hge].
    - rewrite (Z.shiftl_spec_low c n m Hlt). apply andb_false_r.
    - rewrite <- (Z.mod_small x (2 ^ n) Hx). rewrite Z.mod_pow2_bits_high by lia. reflexivity. }
  rewrite <- Z.lxor_lor by exact Hland. rewrite <- Z.add_nocarry_lxor by exact Hland.
  rewrite Z.shiftl_mul_pow2 by exact Hn. reflexivity.
Qed.

Lemma pow2_8k_le k : (k <= 7)%nat -> 0 < 2 ^ (8 * Z.of_nat k) <= 2 ^ 56.
Proof.
  intros Hk. split; [apply Z.pow_pos_nonneg; lia | apply Z.pow_le_mono_r; lia].
Qed.

(* ================= byte loop of Write(span) against a byte-at-a-time absorber ================= *)
(* abstract absorber: (state, pending bytes of the current word) *)
Definition sip_feed (vp : sipstate * list N) (b : N) : sipstate * list N :=
  if (length (snd vp) =? 7)%nat then (sip_compress 2 (fst vp) (le_value (snd vp ++ [b])), [])
  else (fst vp, snd vp ++ [b]).

(* the locals (state, t, c) of the loop represent the absorber (v, p) after n bytes in total *)
Definition Rsip (stc : sipstate * Z * Z) (vp : sipstate * list N) (n : Z) : Prop :=
  fst (fst stc) = fst vp /\ snd (fst stc) = le_value (snd vp) /\ snd stc = n mod 256 /\
  Z.of_nat (length (snd vp)) = n mod 8 /\ bytes_ok (snd vp) /\ 0 <= n.

Lemma sip_step_refines stc vp n b :
  Rsip stc vp n -> (b < 256)%N -> Rsip (csiphasher_step stc b) (sip_feed vp b) (n + 1).
Proof.
  destruct stc as [[s t] c]. destruct vp as [v p].
  intros (Hs & Ht & Hc & Hp & Hok & Hn) Hb. cbn [fst snd] in *. subst s t c.
  assert (Hp7 : (length p <= 7)%nat) by lia.
  pose proof (pow2_8k_le (length p) Hp7) as Hpow.
  pose proof (le_value_bound p Hok) as Hlv.
  change (2 ^ 56) with 72057594037927936 in Hpow.
  unfold csiphasher_step.
  (* the new t *)
  assert (Hsh : w64 (Z.shiftl (Z.of_N b) (8 * ((n mod 256) mod 8))) = Z.of_N b * 2 ^ (8 * Z.of_nat (length p))).
  { replace ((n mod 256) mod 8) with (Z.of_nat (length p)) by lia.
    rewrite Z.shiftl_mul_pow2 by lia. rewrite w64_is_mod. apply Z.mod_small.
    change (2 ^ 64) with 18446744073709551616. nia. }
  assert (Ht' : Z.lor (le_value p) (w64 (Z.shiftl (Z.of_N b) (8 * ((n mod 256) mod 8)))) = le_value (p ++ [b])).
  { rewrite Hsh. rewrite <- Z.shiftl_mul_pow2 by lia.
    rewrite lor_shiftl_add by (try lia; exact Hlv).
    rewrite le_value_app. cbn [le_value]. lia. }
  rewrite Ht'.
  (* the new c *)
  assert (Hc' : wrapu8 (n mod 256 + 1) = (n + 1) mod 256).
  { unfold wrapu8, wrapu. change (2 ^ 8) with 256. lia. }
  rewrite Hc'.
  assert (Hland : Z.land ((n + 1) mod 256) 7 = (n + 1) mod 8).
  { change 7 with (Z.ones 3). rewrite Z.land_ones by lia. change (2 ^ 3) with 8. lia. }
  rewrite Hland.
  unfold sip_feed. cbn [fst snd].
  assert (Hok' : bytes_ok (p ++ [b])).
  { apply bytes_ok_app; [exact Hok|]. constructor; [exact Hb | constructor]. }
  destruct ((n + 1) mod 8 =? 0) eqn:E.
  - assert (H7 : (length p =? 7)%nat = true) by (apply Nat.eqb_eq; lia).
    rewrite H7. unfold Rsip. cbn [fst snd length le_value].
    rewrite cpp_compress2_eq.
    repeat split; try reflexivity; try lia. constructor.
  - assert (H7 : (length p =? 7)%nat = false) by (apply Nat.eqb_neq; lia).
    rewrite H7. unfold Rsip. cbn [fst snd].
    repeat split; try reflexivity; try lia; try assumption.
    rewrite app_length. simpl length. lia.
Qed.

Lemma sip_steps_refine data : forall stc vp n,
  Rsip stc vp n -> bytes_ok data ->
  Rsip (fold_left csiphasher_step data stc) (fold_left sip_feed data vp) (n + Z.of_nat (length data)).
Proof.
  induction data as [|b data IH]; intros stc vp n HR Hok.
  - simpl. rewrite Z.add_0_r. exact HR.
  - inversion Hok as [|x l Hb Hrest]; subst.
    cbn [fold_left length].
    replace (n + Z.of_nat (S (length data))) with (n + 1 + Z.of_nat (length data)) by lia.
    apply IH; [apply sip_step_refines; assumption | exact Hrest].
Qed.

(* ---- the object: Write(span) is the loop on (m_state, m_tmp, m_count) ---- *)
Definition sh_unpack (h : csiphasher) : sipstate * Z * Z := (sh_state h, sh_tmp h, sh_count h).
Definition sh_pack (stc : sipstate * Z * Z) : csiphasher :=
  {| sh_state := fst (fst stc); sh_tmp := snd (fst stc); sh_count := snd stc |}.

Lemma write_bytes_pack h data :
  csiphasher_write_bytes h data = sh_pack (fold_left csiphasher_step data (sh_unpack h)).
Proof.
  unfold csiphasher_write_bytes, sh_unpack.
  destruct (fold_left csiphasher_step data (sh_state h, sh_tmp h, sh_count h)) as [[s t] c]. reflexivity.
Qed.

Lemma unpack_pack stc : sh_unpack (sh_pack stc) = stc.
Proof. destruct stc as [[s t] c]. reflexivity. Qed.

(* chunking independence of the byte-span Write is structural *)
Lemma fold_write_bytes_concat chunks : forall h,
  fold_left csiphasher_write_bytes chunks h = csiphasher_write_bytes h (concat chunks) \/ chunks = [].
Proof.
  induction chunks as [|c cs IH]; intros h; [right; reflexivity|]. left.
  cbn [fold_left concat]. destruct (IH (csiphasher_write_bytes h c)) as [E | E].
  - rewrite E. rewrite !write_bytes_pack. rewrite unpack_pack. rewrite fold_left_app. reflexivity.
  - subst cs. cbn [fold_left concat]. rewrite app_nil_r. reflexivity.
Qed.

Lemma fold_write_bytes_unpack chunks h :
  sh_unpack (fold_left csiphasher_write_bytes chunks h) = fold_left csiphasher_step (concat chunks) (sh_unpack h).
Proof.
  destruct (fold_write_bytes_concat chunks h) as [E | E].
  - rewrite E, write_bytes_pack, unpack_pack. reflexivity.
  - subst chunks. reflexivity.
Qed.

(* ================= the byte-at-a-time absorber against the word parsing of the paper ================= *)
Lemma list8_ind (P : list N -> Prop) :
  (forall l, (length l < 8)%nat -> P l) ->
  (forall a b c d e f g h r, P r -> P (a :: b :: c :: d :: e :: f :: g :: h :: r)) ->
  forall l, P l.
Proof.
  intros Hs Hc l. remember (length l) as n eqn:Hn. revert l Hn.
  induction n as [n IH] using lt_wf_ind. intros l Hn.
  destruct l as [|a [|b [|c [|d [|e [|f [|g [|h r]]]]]]]]; try (apply Hs; simpl; lia).
  apply Hc. apply (IH (length r)); [simpl in Hn; lia | reflexivity].
Qed.

Lemma feed8 v a b c d e f g h r :
  fold_left sip_feed (a :: b :: c :: d :: e :: f :: g :: h :: r) (v, []) =
  fold_left sip_feed r (sip_compress 2 v (le_value [a; b; c; d; e; f; g; h]), []).
Proof. reflexivity. Qed.

Lemma feed_short v l : (length l < 8)%nat -> fold_left sip_feed l (v, []) = (v, l).
Proof.
  intros Hl.
  destruct l as [|a [|b [|c [|d [|e [|f [|g [|h r]]]]]]]]; try reflexivity.
  simpl in Hl. lia.
Qed.

(* parsing msg || 00..00 || L into words and compressing them = feeding the bytes of msg one at a
   time and compressing the last, padded, word *)
Lemma words_feed (L : N) msg : forall v,
  fold_left (sip_compress 2) (le64_words (msg ++ zeros (7 - length msg mod 8) ++ [L])) v =
  sip_compress 2 (fst (fold_left sip_feed msg (v, [])))
    (le_value (snd (fold_left sip_feed msg (v, [])) ++
               zeros (7 - length (snd (fold_left sip_feed msg (v, [])))) ++ [L])).
Proof.
  induction msg as [l Hl | a b c d e f g h r IH] using list8_ind; intros v.
  - rewrite feed_short by exact Hl. cbn [fst snd].
    rewrite Nat.mod_small by exact Hl.
    destruct l as [|a [|b [|c [|d [|e [|f [|g [|h r]]]]]]]]; try reflexivity.
    simpl in Hl. lia.
  - rewrite feed8.
    replace (length (a :: b :: c :: d :: e :: f :: g :: h :: r) mod 8)%nat with (length r mod 8)%nat.
    + change ((a :: b :: c :: d :: e :: f :: g :: h :: r) ++ zeros (7 - length r mod 8) ++ [L])
        with (a :: b :: c :: d :: e :: f :: g :: h :: (r ++ zeros (7 - length r mod 8) ++ [L])).
      cbn [le64_words fold_left]. apply IH.
    + cbn [length]. replace (S (S (S (S (S (S (S (S (length r)))))))))%nat with (length r + 1 * 8)%nat by lia.
      symmetry. apply Nat.mod_add. lia.
Qed.

(* ================= Finalize ================= *)
Lemma sip_finalize_refines h v p (msg : list N) :
  Rsip (sh_unpack h) (v, p) (Z.of_nat (length msg)) ->
  csiphasher_finalize h =
  sip_finalize 4 (sip_compress 2 v (le_value (p ++ zeros (7 - length p) ++ [N.of_nat (length msg mod 256)]))).
Proof.
  intros (Hs & Ht & Hc & Hp & Hok & Hn). unfold sh_unpack in *. cbn [fst snd] in *.
  unfold csiphasher_finalize. rewrite cpp_finalize4_eq, cpp_compress2_eq, Hs, Ht, Hc.
  set (n := Z.of_nat (length msg)) in *.
  assert (Hp7 : (length p <= 7)%nat) by lia.
  pose proof (le_value_bound p Hok) as Hlv.
  pose proof (pow2_8k_le (length p) Hp7) as Hpow.
  change (2 ^ 56) with 72057594037927936 in Hpow.
  assert (Hsh : w64 (Z.shiftl (n mod 256) 56) = Z.shiftl (n mod 256) 56).
  { rewrite w64_is_mod. apply Z.mod_small. rewrite Z.shiftl_mul_pow2 by lia.
    change (2 ^ 56) with 72057594037927936. change (2 ^ 64) with 18446744073709551616. lia. }
  rewrite Hsh. rewrite lor_shiftl_add by (change (2 ^ 56) with 72057594037927936; lia).
  do 2 f_equal.
  rewrite !le_value_app, le_value_zeros. cbn [le_value].
  unfold zeros. rewrite repeat_length.
  replace (Z.of_N (N.of_nat (length msg mod 256))) with (n mod 256)
    by (unfold n; rewrite nat_N_Z, Nat2Z.inj_mod; reflexivity).
  replace (2 ^ (8 * Z.of_nat (length p)) * (0 + 2 ^ (8 * Z.of_nat (7 - length p)) * (n mod 256 + 256 * 0)))
    with (2 ^ (8 * Z.of_nat (length p)) * 2 ^ (8 * Z.of_nat (7 - length p)) * (n mod 256)) by lia.
  rewrite <- Z.pow_add_r by lia.
  replace (8 * Z.of_nat (length p) + 8 * Z.of_nat (7 - length p)) with 56 by lia.
  lia.
Qed.

Lemma sip_init_refines k0 k1 : Rsip (sh_unpack (csiphasher_init k0 k1)) (sip_init k0 k1, []) 0.
Proof.
  unfold Rsip, sh_unpack, csiphasher_init. cbn [fst snd sh_state sh_tmp sh_count length le_value].
  rewrite sipstate_init_eq. repeat split; try reflexivity; try lia. constructor.
Qed.

(* ================= MAIN THEOREM =================
   CSipHasher(k0,k1).Write(c1)...Write(cn).Finalize() is SipHash-2-4 of c1 || ... || cn, for every
   fragmentation and EVERY total length (the uint8_t counter wraps exactly like the "b mod 256" of
   the specification; no bound on the length is needed).  bytes_ok: every element of the chunks is a
   byte (the C++ type is unsigned char). *)
Theorem csiphasher_stream_eq_spec k0 k1 chunks :
  bytes_ok (concat chunks) ->
  csiphasher_finalize (fold_left csiphasher_write_bytes chunks (csiphasher_init k0 k1)) =
  siphash24_spec k0 k1 (concat chunks).
Proof.
  intros Hok.
  pose proof (sip_steps_refine (concat chunks) _ _ _ (sip_init_refines k0 k1) Hok) as HR.
  rewrite <- fold_write_bytes_unpack in HR. rewrite Z.add_0_l in HR.
  set (msg := concat chunks) in *.
  destruct (fold_left sip_feed msg (sip_init k0 k1, [])) as [v p] eqn:Efeed.
  rewrite (sip_finalize_refines _ v p msg HR).
  unfold siphash24_spec, siphash_spec, sip_words, sip_padded.
  rewrite words_feed, Efeed. reflexivity.
Qed.

Corollary csiphasher_chunking_independent k0 k1 chunks1 chunks2 :
  concat chunks1 = concat chunks2 -> bytes_ok (concat chunks1) ->
  csiphasher_stream k0 k1 chunks1 = csiphasher_stream k0 k1 chunks2.
Proof.
  intros E Hok. unfold csiphasher_stream.
  rewrite !csiphasher_stream_eq_spec by (try rewrite <- E; exact Hok). rewrite E. reflexivity.
Qed.

(* ================= Write(uint64_t) ================= *)
(* states reachable by Write calls: the invariant of the object *)
Definition sip_wf (h : csiphasher) : Prop := exists v p n, Rsip (sh_unpack h) (v, p) n.

Lemma sip_wf_init k0 k1 : sip_wf (csiphasher_init k0 k1).
Proof. exists (sip_init k0 k1), [], 0. apply sip_init_refines. Qed.

Lemma sip_wf_write_bytes h data : sip_wf h -> bytes_ok data -> sip_wf (csiphasher_write_bytes h data).
Proof.
  intros (v & p & n & HR) Hok.
  pose proof (sip_steps_refine data _ _ _ HR Hok) as HR'.
  destruct (fold_left sip_feed data (v, p)) as [v' p'].
  exists v', p', (n + Z.of_nat (length data)). rewrite write_bytes_pack, unpack_pack. exact HR'.
Qed.

(* when m_count % 8 == 0 there is no partial word: m_tmp == 0 *)
Lemma sip_wf_aligned_tmp h : sip_wf h -> sh_count h mod 8 = 0 -> sh_tmp h = 0.
Proof.
  intros (v & p & n & (Hs & Ht & Hc & Hp & Hok & Hn)) Hal. unfold sh_unpack in *. cbn [fst snd] in *.
  assert (Hp0 : length p = 0%nat) by lia.
  destruct p; [|discriminate]. exact Ht.
Qed.

(* Write(uint64_t data) = Write of the 8 little-endian bytes of data, when the assert holds;
   and the assert fails (None) otherwise *)
Theorem csiphasher_write_u64_eq_bytes h data :
  sip_wf h -> sh_count h mod 8 = 0 -> 0 <= data < 2 ^ 64 ->
  csiphasher_write_u64 h data = Some (csiphasher_write_bytes h (le_bytes 8 data)).
Proof.
  intros Hwf Hal Hd. pose proof (sip_wf_aligned_tmp h Hwf Hal) as Htmp.
  destruct Hwf as (v & p & n & HR).
  assert (Hp0 : p = []).
  { destruct HR as (_ & _ & Hc & Hp & _). unfold sh_unpack in *. cbn [fst snd] in *.
    destruct p; [reflexivity | simpl length in Hp; lia]. }
  subst p.
  pose proof (sip_steps_refine (le_bytes 8 data) _ _ _ HR (le_bytes_ok 8 data)) as HR'.
  rewrite le_bytes_length in HR'.
  assert (Hfeed : fold_left sip_feed (le_bytes 8 data) (v, []) = (sip_compress 2 v data, [])).
  { pose proof (le_value_le_bytes 8 data) as Hv. change (2 ^ (8 * Z.of_nat 8)) with (2 ^ 64) in Hv.
    rewrite Z.mod_small in Hv by exact Hd.
    cbn [le_bytes] in *. rewrite feed8. rewrite Hv. reflexivity. }
  rewrite Hfeed in HR'.
  unfold csiphasher_write_u64. rewrite Hal. cbn [Z.eqb]. f_equal.
  rewrite write_bytes_pack.
  destruct HR as (Hs & Ht & Hc & Hp & Hok & Hn).
  destruct HR' as (Hs' & Ht' & Hc' & _).
  destruct (fold_left csiphasher_step (le_bytes 8 data) (sh_unpack h)) as [[s' t'] c'].
  unfold sh_unpack, sh_pack in *. cbn [fst snd length le_value] in *.
  subst s' t' c'. rewrite cpp_compress2_eq, Hs, Htmp. f_equal.
  rewrite Hc. unfold wrapu8, wrapu. change (2 ^ 8) with 256. change (Z.of_nat 8) with 8. lia.
Qed.

Lemma csiphasher_write_u64_assert h data :
  sh_count h mod 8 <> 0 -> csiphasher_write_u64 h data = None.
Proof.
  intros Hal. unfold csiphasher_write_u64. destruct (sh_count h mod 8 =? 0) eqn:E; [lia | reflexivity].
Qed.

(* any interleaving of the two Write overloads in which no assert fails computes SipHash-2-4 of
   the concatenation (uint64_t arguments contributing their 8 little-endian bytes) *)
Definition sip_op_ok (op : sip_op) : Prop :=
  match op with SipBytes data => bytes_ok data | SipU64 data => 0 <= data < 2 ^ 64 end.

Lemma sip_op_bytes_ok op : sip_op_ok op -> bytes_ok (sip_op_bytes op).
Proof. destruct op as [d | d]; cbn [sip_op_bytes sip_op_ok]; intros H; [exact H | apply le_bytes_ok]. Qed.

Lemma apply_none ops : fold_left csiphasher_apply ops None = None.
Proof. induction ops as [|op ops IH]; [reflexivity | exact IH]. Qed.

Lemma run_as_bytes ops : forall h h',
  sip_wf h -> Forall sip_op_ok ops ->
  fold_left csiphasher_apply ops (Some h) = Some h' ->
  h' = fold_left csiphasher_write_bytes (map sip_op_bytes ops) h.
Proof.
  induction ops as [|op ops IH]; intros h h' Hwf Hok Hrun.
  - simpl in Hrun. inversion Hrun. reflexivity.
  - inversion Hok as [|x l Hop Hrest]; subst.
    cbn [fold_left map] in *.
    destruct op as [d | d]; cbn [csiphasher_apply sip_op_bytes] in *.
    + apply IH; [apply sip_wf_write_bytes; assumption | exact Hrest | exact Hrun].
    + destruct (Z.eq_dec (sh_count h mod 8) 0) as [Hal | Hal].
      * rewrite (csiphasher_write_u64_eq_bytes h d Hwf Hal Hop) in Hrun.
        apply IH; [apply sip_wf_write_bytes; [exact Hwf | apply le_bytes_ok] | exact Hrest | exact Hrun].
      * rewrite (csiphasher_write_u64_assert h d Hal) in Hrun. rewrite apply_none in Hrun. discriminate.
Qed.

Lemma bytes_ok_concat ls : Forall bytes_ok ls -> bytes_ok (concat ls).
Proof.
  induction 1 as [|l ls Hl Hls IH]; [constructor|]. simpl. apply bytes_ok_app; assumption.
Qed.

Theorem csiphasher_run_eq_spec k0 k1 ops r :
  Forall sip_op_ok ops -> csiphasher_run k0 k1 ops = Some r ->
  r = siphash24_spec k0 k1 (concat (map sip_op_bytes ops)).
Proof.
  intros Hok Hrun. unfold csiphasher_run in Hrun.
  destruct (fold_left csiphasher_apply ops (Some (csiphasher_init k0 k1))) as [h'|] eqn:E; [|discriminate].
  simpl in Hrun. inversion Hrun; subst r.
  rewrite (run_as_bytes ops _ h' (sip_wf_init k0 k1) Hok E).
  apply csiphasher_stream_eq_spec. apply bytes_ok_concat.
  apply Forall_forall. intros l Hin. apply in_map_iff in Hin. destruct Hin as (op & Hl & Hin). subst l.
  apply sip_op_bytes_ok. rewrite Forall_forall in Hok. apply Hok. exact Hin.
Qed.

(* ================= PresaltedSipHasher ================= *)
Lemma spec_by_feed k0 k1 msg :
  siphash24_spec k0 k1 msg =
  sip_finalize 4 (sip_compress 2 (fst (fold_left sip_feed msg (sip_init k0 k1, [])))
    (le_value (snd (fold_left sip_feed msg (sip_init k0 k1, [])) ++
               zeros (7 - length (snd (fold_left sip_feed msg (sip_init k0 k1, [])))) ++
               [N.of_nat (length msg mod 256)]))).
Proof. unfold siphash24_spec, siphash_spec, sip_words, sip_padded. rewrite words_feed. reflexivity. Qed.

Lemma last_word_32 : le_value (zeros 7 ++ [32%N]) = w64 (Z.shiftl 32 56).
Proof. vm_compute. reflexivity. Qed.

Lemma presalted_words_eq k0 k1 val :
  presalted_u256_words k0 k1 val =
  sip_compress 2 (sip_compress 2 (sip_compress 2 (sip_compress 2 (sip_init k0 k1)
    (u256_get64 val 0)) (u256_get64 val 1)) (u256_get64 val 2)) (u256_get64 val 3).
Proof.
  unfold presalted_u256_words. rewrite sipstate_init_eq.
  rewrite (cpp_compress2_eq (sip_init k0 k1)).
  set (a := sip_compress 2 (sip_init k0 k1) _). rewrite (cpp_compress2_eq a).
  set (b := sip_compress 2 a _). rewrite (cpp_compress2_eq b).
  set (c := sip_compress 2 b _). rewrite (cpp_compress2_eq c). reflexivity.
Qed.

Ltac destruct_list32 val Hlen :=
  do 32 (destruct val as [|? val]; [discriminate Hlen|]);
  destruct val as [|? val]; [|discriminate Hlen]; clear Hlen.

(* operator()(const uint256& val) = SipHash-2-4 of the 32 bytes of val *)
Theorem presalted_siphash_u256_eq_spec k0 k1 val :
  length val = 32%nat -> presalted_siphash_u256 k0 k1 val = siphash24_spec k0 k1 val.
Proof.
  intros Hlen. destruct_list32 val Hlen.
  rewrite spec_by_feed. rewrite !feed8. cbn [fold_left fst snd length app Nat.sub].
  change (N.of_nat (32 mod 256)) with 32%N. rewrite last_word_32.
  unfold presalted_siphash_u256.
  rewrite cpp_finalize4_eq, (cpp_compress2_eq (presalted_u256_words _ _ _)), presalted_words_eq.
  reflexivity.
Qed.

(* operator()(const uint256& val, uint32_t extra) = SipHash-2-4 of the 32 bytes of val followed by
   the 4 little-endian bytes of extra *)
Theorem presalted_siphash_u256_extra_eq_spec k0 k1 val extra :
  length val = 32%nat -> 0 <= extra < 2 ^ 32 ->
  presalted_siphash_u256_extra k0 k1 val extra = siphash24_spec k0 k1 (val ++ le_bytes 4 extra).
Proof.
  intros Hlen Hx. destruct_list32 val Hlen.
  rewrite spec_by_feed. cbn [app]. rewrite !feed8.
  rewrite feed_short by (rewrite le_bytes_length; lia).
  cbn [fst snd]. rewrite le_bytes_length.
  cbn [length]. rewrite le_bytes_length.
  change (N.of_nat (36 mod 256)) with 36%N. change (7 - 4)%nat with 3%nat.
  assert (Hw : le_value (le_bytes 4 extra ++ zeros 3 ++ [36%N]) = Z.lor (w64 (Z.shiftl 36 56)) extra).
  { rewrite le_value_app, le_bytes_length, le_value_le_bytes.
    change (8 * Z.of_nat 4) with 32. rewrite Z.mod_small by exact Hx.
    rewrite Z.lor_comm.
    change (w64 (Z.shiftl 36 56)) with (Z.shiftl 603979776 32).
    rewrite lor_shiftl_add by lia.
    change (le_value (zeros 3 ++ [36%N])) with 603979776. lia. }
  rewrite Hw.
  unfold presalted_siphash_u256_extra.
  rewrite cpp_finalize4_eq, (cpp_compress2_eq (presalted_u256_words _ _ _)), presalted_words_eq.
  reflexivity.
Qed.

(* the header's claims "Equivalent to CSipHasher(k0, k1).Write(val).Finalize()" and
   "... .Write(val).Write(extra).Finalize() with extra encoded as 4 little-endian bytes" *)
Corollary presalted_eq_csiphasher k0 k1 val :
  length val = 32%nat -> bytes_ok val ->
  presalted_siphash_u256 k0 k1 val = csiphasher_stream k0 k1 [val].
Proof.
  intros Hlen Hok. unfold csiphasher_stream.
  rewrite csiphasher_stream_eq_spec by (simpl; rewrite app_nil_r; exact Hok).
  simpl. rewrite app_nil_r. apply presalted_siphash_u256_eq_spec. exact Hlen.
Qed.

Corollary presalted_extra_eq_csiphasher k0 k1 val extra :
  length val = 32%nat -> bytes_ok val -> 0 <= extra < 2 ^ 32 ->
  presalted_siphash_u256_extra k0 k1 val extra = csiphasher_stream k0 k1 [val; le_bytes 4 extra].
Proof.
  intros Hlen Hok Hx. unfold csiphasher_stream.
  assert (E : concat [val; le_bytes 4 extra] = val ++ le_bytes 4 extra) by (cbn [concat]; rewrite app_nil_r; reflexivity).
  rewrite csiphasher_stream_eq_spec by (rewrite E; apply bytes_ok_app; [exact Hok | apply le_bytes_ok]).
  rewrite E. apply presalted_siphash_u256_extra_eq_spec; assumption.
Qed.

Example presalted_vectors :
  (presalted_siphash_u256 1 2 (bytes_upto 32), presalted_siphash_u256_extra 1 2 (bytes_upto 32) 0x01020304) =
  (0x16f97b9187bc4e8b, 0xc21a07a1e775ee2f).
Proof. vm_compute. reflexivity. Qed.

(* ================= SipHasher13UJ ================= *)
Lemma cpp_compress1_jumbo_eq v h : cpp_compress1_jumbo v h = uj_block_spec v (UJJumbo h).
Proof.
  destruct v as [[[v0 v1] v2] v3]. unfold cpp_compress1_jumbo, cpp_compress1_jumbo_words, uj_block_spec.
  rewrite cpp_sipround_eq. reflexivity.
Qed.

Lemma uj_apply_eq v b : uj_apply v b = uj_block_spec v b.
Proof.
  destruct b as [d | h]; unfold uj_apply, uj_write, uj_write_jumbo.
  - apply cpp_compress1_eq.
  - apply cpp_compress1_jumbo_eq.
Qed.

(* the streaming object computes the documented function of the block sequence *)
Theorem uj_stream_eq_spec k0 k1 blocks : uj_stream k0 k1 blocks = siphash13uj_spec k0 k1 blocks.
Proof.
  unfold uj_stream, siphash13uj_spec, uj_init. rewrite sipstate_init_eq.
  generalize (sip_init k0 k1). induction blocks as [|b bs IH]; intros v.
  - cbn [fold_left]. destruct v as [[[v0 v1] v2] v3].
    unfold uj_finalize, cpp_finalize3u, SIP_FINALIZER_UNPADDED. cbn [sip_iter].
    rewrite !cpp_sipround_eq. reflexivity.
  - cbn [fold_left]. rewrite uj_apply_eq. apply IH.
Qed.

(* the Hash overloads = WriteJumbo [; Write]; Finalize on a copy *)
Lemma uj_hash_eq v h : uj_hash v h = uj_finalize (uj_write_jumbo v h).
Proof. reflexivity. Qed.
Lemma uj_hash_extra_eq v h extra : uj_hash_extra v h extra = uj_finalize (uj_write (uj_write_jumbo v h) extra).
Proof. reflexivity. Qed.

(* "This is a strict generalization of normal block processing, in the sense that if d1..d3=0, it
   is identical to processing a normal block d0" (siphash.h) *)
Lemma uj_jumbo_generalizes_normal v d0 : cpp_compress1_jumbo_words v d0 0 0 0 = cpp_compress1 v d0.
Proof.
  destruct v as [[[v0 v1] v2] v3]. unfold cpp_compress1_jumbo_words, cpp_compress1.
  rewrite !Z.lxor_0_r.
  destruct (cpp_sipround (v0, v1, v2, Z.lxor v3 d0)) as [[[a b] c] d].
  rewrite !Z.lxor_0_r. reflexivity.
Qed.

(* ... but, as the header says, one jumbo block is not four normal blocks *)
Example uj_jumbo_is_not_four_normal :
  uj_stream 1 2 [UJJumbo (bytes_upto 32)] <>
  uj_stream 1 2 [UJNormal (u256_get64 (bytes_upto 32) 0); UJNormal (u256_get64 (bytes_upto 32) 1);
                 UJNormal (u256_get64 (bytes_upto 32) 2); UJNormal (u256_get64 (bytes_upto 32) 3)].
Proof. vm_compute. discriminate. Qed.

(* ================= all state words stay 64-bit words ================= *)
Definition in64 (x : Z) : Prop := 0 <= x < 2 ^ 64.
Definition sipstate_in64 (v : sipstate) : Prop :=
  let '(v0, v1, v2, v3) := v in in64 v0 /\ in64 v1 /\ in64 v2 /\ in64 v3.

Lemma in64_w64_id x : in64 x -> w64 x = x.
Proof. intros H. rewrite w64_is_mod. apply Z.mod_small. exact H. Qed.

Lemma w64_in64 x : in64 (w64 x).
Proof. unfold in64. rewrite w64_is_mod. apply Z.mod_pos_bound. lia. Qed.

Lemma land_lxor_distr_l a b c : Z.land (Z.lxor a b) c = Z.lxor (Z.land a c) (Z.land b c).
Proof.
  apply Z.bits_inj'. intros n Hn. rewrite Z.land_spec, !Z.lxor_spec, !Z.land_spec.
  destruct (Z.testbit a n), (Z.testbit b n), (Z.testbit c n); reflexivity.
Qed.

Lemma lxor_in64 a b : in64 a -> in64 b -> in64 (Z.lxor a b).
Proof.
  intros Ha Hb. rewrite <- (in64_w64_id a Ha), <- (in64_w64_id b Hb).
  unfold w64 at 1 2. rewrite <- land_lxor_distr_l. apply w64_in64.
Qed.

Lemma lor_in64 a b : in64 a -> in64 b -> in64 (Z.lor a b).
Proof.
  intros Ha Hb. rewrite <- (in64_w64_id a Ha), <- (in64_w64_id b Hb).
  unfold w64 at 1 2. rewrite <- Z.land_lor_distr_l. apply w64_in64.
Qed.

Lemma rotl64_in64 n x : 0 <= n <= 64 -> in64 x -> in64 (rotl64 n x).
Proof.
  intros Hn Hx. unfold rotl64. apply lor_in64; [apply w64_in64|].
  unfold in64 in *. rewrite Z.shiftr_div_pow2 by lia.
  assert (0 < 2 ^ (64 - n)) by (apply Z.pow_pos_nonneg; lia).
  split; [apply Z.div_pos; lia|].
  apply Z.div_lt_upper_bound; [lia|]. nia.
Qed.

(* on 64-bit words rotl64 is std::rotl: the bits shifted out at the top come back at the bottom *)
Lemma rotl64_is_rotation n x : 0 <= n <= 64 -> in64 x ->
  rotl64 n x = (x * 2 ^ n) mod 2 ^ 64 + x / 2 ^ (64 - n).
Proof.
  intros Hn Hx. unfold rotl64. rewrite w64_is_mod, Z.shiftl_mul_pow2, Z.shiftr_div_pow2 by lia.
  rewrite Z.lor_comm.
  assert (Hp : 0 < 2 ^ (64 - n)) by (apply Z.pow_pos_nonneg; lia).
  assert (Hq : 0 < 2 ^ n) by (apply Z.pow_pos_nonneg; lia).
  assert (Hsplit : 2 ^ 64 = 2 ^ (64 - n) * 2 ^ n) by (rewrite <- Z.pow_add_r by lia; f_equal; lia).
  (* (x * 2^n) mod 2^64 = (x mod 2^(64-n)) * 2^n, a multiple of 2^n; x / 2^(64-n) < 2^n *)
  assert (Hlow : 0 <= x / 2 ^ (64 - n) < 2 ^ n).
  { unfold in64 in Hx. split; [apply Z.div_pos; lia|]. apply Z.div_lt_upper_bound; [lia|]. nia. }
  assert (Hhigh : (x * 2 ^ n) mod 2 ^ 64 = (x mod 2 ^ (64 - n)) * 2 ^ n).
  { rewrite Hsplit. rewrite Z.mul_mod_distr_r by lia. reflexivity. }
  rewrite Hhigh. rewrite <- Z.shiftl_mul_pow2 by lia.
  rewrite lor_shiftl_add by lia. rewrite Z.shiftl_mul_pow2 by lia. lia.
Qed.

Lemma sipround_in64 v : sipstate_in64 v -> sipstate_in64 (sipround v).
Proof.
  destruct v as [[[v0 v1] v2] v3]. intros (H0 & H1 & H2 & H3). unfold sipround, sipstate_in64.
  refine (conj _ (conj _ (conj _ _)));
    repeat first [ apply w64_in64 | apply lxor_in64 | apply rotl64_in64; [lia|] | assumption ].
Qed.

Lemma sip_iter_in64 n : forall v, sipstate_in64 v -> sipstate_in64 (sip_iter n v).
Proof. induction n as [|n IH]; intros v Hv; [exact Hv | apply IH, sipround_in64, Hv]. Qed.

Lemma sip_compress_in64 c v m : sipstate_in64 v -> in64 m -> sipstate_in64 (sip_compress c v m).
Proof.
  destruct v as [[[v0 v1] v2] v3]. intros (H0 & H1 & H2 & H3) Hm. unfold sip_compress.
  pose proof (sip_iter_in64 c (v0, v1, v2, Z.lxor v3 m)) as Hit.
  destruct (sip_iter c (v0, v1, v2, Z.lxor v3 m)) as [[[a b] c'] d].
  destruct Hit as (Ha & Hb & Hc & Hd).
  { refine (conj _ (conj _ (conj _ _))); try assumption. apply lxor_in64; assumption. }
  refine (conj _ (conj _ (conj _ _))); try assumption. apply lxor_in64; assumption.
Qed.

Lemma sip_init_in64 k0 k1 : in64 k0 -> in64 k1 -> sipstate_in64 (sip_init k0 k1).
Proof.
  intros H0 H1. unfold sip_init, sipstate_in64.
  refine (conj _ (conj _ (conj _ _))); apply lxor_in64; try assumption; unfold in64; lia.
Qed.

(* hence, for 64-bit key words and message bytes, every intermediate state of siphash24_spec (and of
   the C++ model, by the equalities above) consists of 64-bit words, on which rotl64 is std::rotl *)
Lemma sip_fold_in64 c ws : forall v,
  sipstate_in64 v -> Forall in64 ws -> sipstate_in64 (fold_left (sip_compress c) ws v).
Proof.
  induction ws as [|w ws IH]; intros v Hv Hws; [exact Hv|].
  inversion Hws as [|x l Hw Hrest]; subst. cbn [fold_left].
  apply IH; [apply sip_compress_in64; assumption | exact Hrest].
Qed.
