(* The derived transaction graph: closure under a successor function (sufficient fuel), descendants / ancestors, and the
   fact behind "bad-txns-spends-conflicting-tx": if no ancestor of a new transaction is a direct conflict, then none of
   its parents is among the descendants of the direct conflicts (the set a replacement removes). *)
From BV Require Import lib.Ints gen.Params_gen model.Locks model.Mempool proofs.MempoolBase proofs.MempoolPool.
Local Open Scope Z_scope.

Definition closed (succ : Z -> list Z) (S : list Z) : Prop := forall x y, In x S -> In y (succ x) -> In y S.

Inductive reach (succ : Z -> list Z) (seeds : list Z) : Z -> Prop :=
| reach_seed x : In x seeds -> reach succ seeds x
| reach_step x y : reach succ seeds x -> In y (succ x) -> reach succ seeds y.

Lemma close_incl fuel succ : forall acc x, In x acc -> In x (close fuel succ acc).
Proof.
  induction fuel as [|f IH]; simpl; intros acc x H; [exact H|].
  destruct (nodupz _) as [|n r] eqn:E; [exact H|]. apply IH. apply in_app_iff. auto.
Qed.

Lemma close_sound fuel succ : forall acc x, In x (close fuel succ acc) -> reach succ acc x.
Proof.
  induction fuel as [|f IH]; simpl; intros acc x H; [apply reach_seed; exact H|].
  destruct (nodupz _) as [|n r] eqn:E; [apply reach_seed; exact H|].
  apply IH in H. clear IH. induction H as [x H|x y H IHr Hy].
  - apply in_app_iff in H. destruct H as [H|H]; [apply reach_seed; exact H|].
    rewrite <- E in H. apply nodupz_In, filter_In in H. destruct H as [H _]. apply in_flat_map in H.
    destruct H as (z & Hz & Hx). eapply reach_step; [apply reach_seed; exact Hz|exact Hx].
  - eapply reach_step; eassumption.
Qed.

Lemma close_univ fuel succ (U : list Z) : (forall x y, In y (succ x) -> In y U) ->
  forall acc, incl acc U -> incl (close fuel succ acc) U.
Proof.
  intros HU. induction fuel as [|f IH]; simpl; intros acc H; [exact H|].
  destruct (nodupz _) as [|n r] eqn:E; [exact H|]. apply IH. intros x Hx. apply in_app_iff in Hx.
  destruct Hx as [Hx|Hx]; [auto|]. rewrite <- E in Hx. apply nodupz_In, filter_In in Hx. destruct Hx as [Hx _].
  apply in_flat_map in Hx. destruct Hx as (z & _ & Hx). eapply HU. exact Hx.
Qed.

Lemma NoDup_app_disjoint {A} (a b : list A) : NoDup a -> NoDup b -> (forall x, In x b -> ~ In x a) -> NoDup (a ++ b).
Proof.
  induction a as [|x a IH]; simpl; intros Na Nb D; [exact Nb|].
  inversion Na; subst. constructor.
  - rewrite in_app_iff. intros [H|H]; [tauto|]. apply (D x H). left. reflexivity.
  - apply IH; auto. intros y Hy Ha. apply (D y Hy). right. exact Ha.
Qed.

Lemma close_NoDup fuel succ : forall acc, NoDup acc -> NoDup (close fuel succ acc).
Proof.
  induction fuel as [|f IH]; simpl; intros acc N; [exact N|].
  destruct (nodupz _) as [|n r] eqn:E; [exact N|]. apply IH. apply NoDup_app_disjoint; [exact N|rewrite <- E; apply nodupz_NoDup|].
  intros x Hx. rewrite <- E in Hx. apply nodupz_In, filter_In in Hx. destruct Hx as [_ Hx].
  apply negb_true_iff, memz_false in Hx. exact Hx.
Qed.

(* enough fuel: every productive round adds an element of the finite universe *)
Lemma close_closed fuel succ (U : list Z) : (forall x y, In y (succ x) -> In y U) ->
  forall acc, incl acc U -> NoDup acc -> (length U < fuel + length acc)%nat -> closed succ (close fuel succ acc).
Proof.
  intros HU. induction fuel as [|f IH]; simpl; intros acc HI N L.
  - exfalso. pose proof (NoDup_incl_length N HI). lia.
  - destruct (nodupz _) as [|n r] eqn:E.
    + intros x y Hx Hy. destruct (memz y acc) eqn:M; [apply memz_In; exact M|]. exfalso.
      assert (In y (nodupz (filter (fun x0 : Z => negb (memz x0 acc)) (flat_map succ acc)))) as X.
      { apply nodupz_In, filter_In. split; [apply in_flat_map; eauto|rewrite M; reflexivity]. }
      rewrite E in X. exact X.
    + assert (NoDup (n :: r)) as Nn by (rewrite <- E; apply nodupz_NoDup).
      assert (forall x, In x (n :: r) -> ~ In x acc /\ In x U) as Hn.
      { intros x Hx. rewrite <- E in Hx. apply nodupz_In, filter_In in Hx. destruct Hx as [Hx Hm].
        apply negb_true_iff, memz_false in Hm. split; [exact Hm|]. apply in_flat_map in Hx.
        destruct Hx as (z & _ & Hx). eapply HU. exact Hx. }
      apply IH.
      * intros x Hx. apply in_app_iff in Hx. destruct Hx as [Hx|Hx]; [auto|apply Hn; exact Hx].
      * apply NoDup_app_disjoint; [exact N|exact Nn|]. intros x Hx. apply Hn. exact Hx.
      * rewrite app_length. simpl. lia.
Qed.

Lemma close_ext fuel s1 s2 : (forall x, s1 x = s2 x) -> forall acc, close fuel s1 acc = close fuel s2 acc.
Proof.
  intros H. induction fuel as [|f IH]; simpl; intros acc; [reflexivity|].
  replace (flat_map s2 acc) with (flat_map s1 acc).
  - destruct (nodupz _); [reflexivity|apply IH].
  - induction acc as [|a l IHl]; simpl; [reflexivity|]. rewrite H, IHl. reflexivity.
Qed.

(* ------------------------------------------------------------------------------------------ *)
(* children / parents *)

Lemma children_spec p x y : pool_ok p ->
  (In y (children p x) <-> exists e n, In e (p_entries p) /\ e_id e = y /\ In (x, n) (t_ins (e_tx e))).
Proof.
  intros K. unfold children. rewrite in_map_iff. split.
  - intros ([o i] & E & H). simpl in E. subst i. apply filter_In in H. destruct H as [H F]. simpl in F. apply Z.eqb_eq in F.
    apply (ok_next p K) in H. destruct H as (e & He & Ee & Oe). exists e, (snd o). destruct o as [a b]. simpl in *. subst. auto.
  - intros (e & n & He & Ee & Oe). exists ((x, n), y). split; [reflexivity|]. apply filter_In. split.
    + apply (ok_next p K). exists e. auto.
    + simpl. apply Z.eqb_refl.
Qed.
Lemma children_in_pool p x y : pool_ok p -> In y (children p x) -> In y (pool_ids p).
Proof. intros K H. apply (children_spec p x y K) in H. destruct H as (e & n & He & Ee & _). subst. apply in_map. exact He. Qed.

Lemma parents_tx_spec p t x : In x (parents_tx p t) <-> In x (pool_ids p) /\ exists n, In (x, n) (t_ins t).
Proof.
  unfold parents_tx. rewrite filter_In, in_pool_iff, in_map_iff. split.
  - intros [([a b] & E & H) I]. simpl in E. subst. split; [exact I|eauto].
  - intros [I (n & H)]. split; [exists (x, n); auto|exact I].
Qed.
Lemma parents_in_pool p y x : In x (parents p y) -> In x (pool_ids p).
Proof. unfold parents. destruct (find_entry p y); [|intros []]. intros H. apply parents_tx_spec in H. tauto. Qed.
Lemma parents_spec p y x : pool_ok p ->
  (In x (parents p y) <-> In x (pool_ids p) /\ exists e n, In e (p_entries p) /\ e_id e = y /\ In (x, n) (t_ins (e_tx e))).
Proof.
  intros K. unfold parents. destruct (find_entry p y) as [e|] eqn:F.
  - pose proof (find_entry_Some _ _ _ F) as [He Ee]. rewrite parents_tx_spec. split.
    + intros [I (n & H)]. split; [exact I|]. exists e, n. auto.
    + intros [I (e' & n & He' & Ee' & H)]. split; [exact I|]. exists n.
      assert (e' = e) as ->; [|exact H].
      pose proof (find_entry_unique p e' (ok_ids p K) He') as A. rewrite Ee' in A. congruence.
  - apply find_entry_None in F. split; [intros []|]. intros [_ (e & n & He & Ee & _)]. apply F. subst. apply in_map. exact He.
Qed.
Lemma child_parent p x y : pool_ok p -> In x (pool_ids p) -> In y (children p x) -> In x (parents p y).
Proof.
  intros K I H. apply (children_spec p x y K) in H. apply (parents_spec p y x K). split; [exact I|]. exact H.
Qed.

(* ------------------------------------------------------------------------------------------ *)
(* descendants *)

Lemma fuel_ok p (acc : list Z) : (length (pool_ids p) < fuel_of p + length acc)%nat.
Proof. unfold fuel_of, pool_ids. rewrite map_length. lia. Qed.

Lemma desc_seed p seeds x : In x seeds -> In x (pool_ids p) -> In x (descendants p seeds).
Proof.
  intros H I. unfold descendants. apply close_incl, nodupz_In, filter_In. split; [exact H|apply in_pool_iff; exact I].
Qed.
Lemma desc_in_pool p seeds x : pool_ok p -> In x (descendants p seeds) -> In x (pool_ids p).
Proof.
  intros K. unfold descendants. apply close_univ.
  - intros a b. apply children_in_pool. exact K.
  - intros a Ha. apply nodupz_In, filter_In in Ha. apply in_pool_iff. tauto.
Qed.
Lemma desc_closed p seeds : pool_ok p -> closed (children p) (descendants p seeds).
Proof.
  intros K. unfold descendants. apply close_closed with (U := pool_ids p).
  - intros a b. apply children_in_pool. exact K.
  - intros a Ha. apply nodupz_In, filter_In in Ha. apply in_pool_iff. tauto.
  - apply nodupz_NoDup.
  - apply fuel_ok.
Qed.
Lemma desc_NoDup p seeds : NoDup (descendants p seeds).
Proof. unfold descendants. apply close_NoDup, nodupz_NoDup. Qed.
Lemma desc_reach p seeds x : In x (descendants p seeds) -> reach (children p) (filter (in_pool p) seeds) x.
Proof.
  intros H. unfold descendants in H. apply close_sound in H. induction H as [x H|x y H IH Hy].
  - apply reach_seed. apply (proj1 (nodupz_In _ _)) in H. exact H.
  - eapply reach_step; eassumption.
Qed.

(* ancestors of a transaction that is not (yet) an entry *)
Lemma anc_parent p t x : In x (parents_tx p t) -> In x (ancestors_of_tx p t).
Proof. intros H. unfold ancestors_of_tx. apply close_incl, nodupz_In. exact H. Qed.
Lemma anc_closed p t : closed (parents p) (ancestors_of_tx p t).
Proof.
  unfold ancestors_of_tx. apply close_closed with (U := pool_ids p).
  - intros a b. apply parents_in_pool.
  - intros a Ha. apply nodupz_In, parents_tx_spec in Ha. tauto.
  - apply nodupz_NoDup.
  - apply fuel_ok.
Qed.

(* the replacement lemma: a parent of t among the descendants of the direct conflicts puts a direct conflict among t's ancestors *)
Lemma spends_conflict_detected p t direct q : pool_ok p ->
  In q (parents_tx p t) -> In q (descendants p direct) ->
  exists c, In c direct /\ In c (ancestors_of_tx p t).
Proof.
  intros K Hq Hd. pose proof (anc_parent p t q Hq) as Ha. apply desc_reach in Hd. clear Hq.
  revert Ha. induction Hd as [x H|x y H IH Hy]; intros Ha.
  - apply filter_In in H. exists x. tauto.
  - apply IH. apply (anc_closed p t y x Ha). apply child_parent; [exact K| |exact Hy].
    clear -H K. induction H as [x H|x y H IH Hy].
    + apply filter_In in H. apply in_pool_iff. tauto.
    + eapply children_in_pool; eassumption.
Qed.
