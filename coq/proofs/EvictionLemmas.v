(* Lemmas about the eviction pipeline (model/Eviction.v); C59. *)
From BV Require Import lib.Ints gen.Params_gen model.Eviction proofs.EvictionBase.
From Coq Require Import Sorting.Permutation Sorting.Sorted ZifyBool.
Local Open Scope Z_scope.

(* ---------------------------------------------------------------------------------------------- *)
(* 4. the stable insertion sort is a sorter in the sense of sort_spec *)

Lemma insert_by_perm {A} (lt : A -> A -> bool) x s : Permutation (x :: s) (insert_by lt x s).
Proof.
  induction s as [|y r IH]; simpl; [apply Permutation_refl|].
  destruct (lt y x); [|apply Permutation_refl].
  eapply Permutation_trans; [apply perm_swap|]. now constructor.
Qed.

Lemma stable_sort_perm {A} (lt : A -> A -> bool) l : Permutation l (stable_sort lt l).
Proof.
  induction l as [|x l IH]; simpl; [constructor|].
  eapply Permutation_trans; [|apply insert_by_perm]. now constructor.
Qed.

Lemma insert_by_sorted cmp x s : swo cmp -> sorted_wrt cmp s -> sorted_wrt cmp (insert_by cmp x s).
Proof.
  intros [Hasym Htrans]. unfold sorted_wrt. induction 1 as [|y r Hs IH Hf]; simpl.
  - constructor; constructor.
  - destruct (cmp y x) eqn:E.
    + constructor; [exact IH|].
      eapply Permutation_Forall; [apply insert_by_perm|]. constructor; [now apply Hasym | exact Hf].
    + constructor; [constructor; assumption|]. constructor; [exact E|].
      rewrite Forall_forall in *. intros z Hz. apply (Htrans x y z E). now apply Hf.
Qed.

Lemma stable_sort_sorted cmp l : swo cmp -> sorted_wrt cmp (stable_sort cmp l).
Proof.
  intros Hs. induction l as [|x l IH]; simpl; [constructor|]. now apply insert_by_sorted.
Qed.

Lemma stable_sorter_spec : sort_spec stable_sorter.
Proof. intros cmp l Hs. split; [apply stable_sort_perm | now apply stable_sort_sorted]. Qed.

(* ---------------------------------------------------------------------------------------------- *)
(* 5. EraseLastKElements on a sorted vector *)

Lemma els_subp s k pred : subp (fun x => pred x = true) (erase_last_k_sorted s k pred) s.
Proof.
  unfold erase_last_k_sorted. set (m := (length s - _)%nat).
  rewrite <- (firstn_skipn m s) at 3. apply subp_app_head.
  eapply subp_weaken; [|apply subp_filter]. intros x Hx. simpl in Hx. now destruct (pred x).
Qed.

Lemma els_all s k : erase_last_k_sorted s k pred_all = firstn (length s - Z.to_nat (Z.min k (Z.of_nat (length s)))) s.
Proof.
  unfold erase_last_k_sorted. set (m := (length s - _)%nat).
  assert (E : filter (fun c => negb (pred_all c)) (skipn m s) = []).
  { induction (skipn m s) as [|a l IH]; simpl; auto. }
  now rewrite E, app_nil_r.
Qed.

Lemma els_zlen_all s k : 0 <= k -> zlen (erase_last_k_sorted s k pred_all) = zlen s - Z.min k (zlen s).
Proof.
  intros Hk. rewrite els_all. unfold zlen. rewrite firstn_length. lia.
Qed.

Lemma els_zlen_ge s k pred : 0 <= k -> zlen s - Z.min k (zlen s) <= zlen (erase_last_k_sorted s k pred).
Proof.
  intros Hk. unfold erase_last_k_sorted, zlen. rewrite app_length, firstn_length. lia.
Qed.

Lemma SS_split_after {A} (R : A -> A -> Prop) a c b : StronglySorted R (a ++ c :: b) -> Forall (R c) b.
Proof.
  intros H. apply SS_app_inv in H. destruct H as [_ [H _]]. now inversion H.
Qed.

Lemma count_if_all_ge {A} (f : A -> bool) l : Forall (fun x => f x = true) l -> count_if f l = zlen l.
Proof.
  unfold count_if, zlen. induction 1 as [|x l Hx Hf IH]; simpl; [reflexivity|]. rewrite Hx. simpl length. lia.
Qed.

(* A candidate with [pred c = true] that survives EraseLastKElements has more than k candidates
   that the sorted order may place at or after it (itself included). *)
Lemma els_top cmp s k pred c :
  (forall a, cmp a a = false) -> sorted_wrt cmp s ->
  In c (erase_last_k_sorted s k pred) -> pred c = true -> k < not_before cmp c s.
Proof.
  intros Hirr Hs Hin Hp. unfold erase_last_k_sorted in Hin.
  set (e := Z.to_nat (Z.min k (Z.of_nat (length s)))) in *.
  apply in_app_or in Hin. destruct Hin as [Hin|Hin].
  2:{ apply filter_In in Hin. destruct Hin as [_ Hn]. rewrite Hp in Hn. discriminate. }
  assert (Hlt : (e < length s)%nat).
  { destruct (Nat.lt_ge_cases e (length s)) as [Hl|Hl]; [exact Hl|].
    replace (length s - e)%nat with 0%nat in Hin by lia. simpl in Hin. contradiction. }
  apply in_split in Hin. destruct Hin as [a [b Hab]].
  assert (Hs' : s = a ++ c :: (b ++ skipn (length s - e) s)).
  { rewrite <- (firstn_skipn (length s - e) s) at 1. rewrite Hab, <- app_assoc. reflexivity. }
  unfold sorted_wrt in Hs. rewrite Hs' in Hs. apply SS_split_after in Hs.
  unfold not_before. rewrite Hs' at 1. rewrite count_if_app.
  change (c :: b ++ skipn (length s - e) s) with ([c] ++ (b ++ skipn (length s - e) s)).
  rewrite count_if_app.
  rewrite (count_if_all_ge _ (b ++ _)).
  2:{ eapply Forall_impl; [|exact Hs]. intros x Hx. simpl in Hx. now rewrite Hx. }
  assert (H1 : count_if (fun x => negb (cmp x c)) [c] = 1).
  { unfold count_if, zlen. simpl. rewrite Hirr. reflexivity. }
  rewrite H1, zlen_app. pose proof (count_if_nonneg (fun x => negb (cmp x c)) a).
  pose proof (zlen_nonneg b).
  assert (Hsk : zlen (skipn (length s - e) s) = Z.of_nat e).
  { unfold zlen. rewrite skipn_length. lia. }
  rewrite Hsk. unfold e in *. lia.
Qed.

Lemma els_sorted cmp s k pred : sorted_wrt cmp s -> sorted_wrt cmp (erase_last_k_sorted s k pred).
Proof.
  unfold sorted_wrt, erase_last_k_sorted. intros H. set (m := (length s - _)%nat).
  rewrite <- (firstn_skipn m s) in H. apply SS_app_inv in H. destruct H as [Ha [Hb Hab]].
  apply SS_app_intro; [exact Ha | now apply SS_filter |].
  intros x y Hx Hy. apply filter_In in Hy. apply Hab; tauto.
Qed.

(* ---------------------------------------------------------------------------------------------- *)
(* 6. what the pipeline needs from EraseLastKElements, for every admissible std::sort *)

Definition elk_spec (elk : eraser) : Prop :=
  forall cmp k pred l, swo cmp ->
    exists s, Permutation l s /\ sorted_wrt cmp s /\ elk cmp k pred l = erase_last_k_sorted s k pred.

Lemma erase_last_k_spec srt : sort_spec srt -> elk_spec (erase_last_k srt).
Proof.
  intros Hs cmp k pred l Hc. destruct (Hs cmp l Hc) as [Hp Hso].
  exists (srt cmp l). repeat split; assumption.
Qed.

Section WithElk.
  Variable elk : eraser.
  Hypothesis Helk : elk_spec elk.

  Lemma elk_subp cmp k pred l : swo cmp -> subp (fun x => pred x = true) (elk cmp k pred l) l.
  Proof.
    intros Hc. destruct (Helk cmp k pred l Hc) as [s [Hp [Hs ->]]].
    eapply subp_perm_r; [apply els_subp | now apply Permutation_sym].
  Qed.

  Lemma elk_sub cmp k pred l : swo cmp -> sub (elk cmp k pred l) l.
  Proof. intros Hc. eapply subp_sub. now apply elk_subp. Qed.

  Lemma elk_top cmp k pred l c : swo cmp ->
    In c (elk cmp k pred l) -> pred c = true -> k < not_before cmp c l.
  Proof.
    intros Hc Hin Hp. destruct (Helk cmp k pred l Hc) as [s [Hperm [Hs E]]]. rewrite E in Hin.
    unfold not_before. rewrite (count_if_perm _ _ _ Hperm).
    eapply els_top; eauto. now apply swo_irrefl.
  Qed.

  Lemma elk_zlen_all cmp k l : swo cmp -> 0 <= k -> zlen (elk cmp k pred_all l) = zlen l - Z.min k (zlen l).
  Proof.
    intros Hc Hk. destruct (Helk cmp k pred_all l Hc) as [s [Hperm [Hs ->]]].
    rewrite els_zlen_all by assumption. unfold zlen. now rewrite (Permutation_length Hperm).
  Qed.

  Lemma elk_zlen_ge cmp k pred l : swo cmp -> 0 <= k -> zlen l - Z.min k (zlen l) <= zlen (elk cmp k pred l).
  Proof.
    intros Hc Hk. destruct (Helk cmp k pred l Hc) as [s [Hperm [Hs ->]]].
    pose proof (els_zlen_ge s k pred Hk) as H. unfold zlen in *. now rewrite (Permutation_length Hperm).
  Qed.

  Lemma elk_sorted cmp k pred l : swo cmp -> sorted_wrt cmp (elk cmp k pred l).
  Proof.
    intros Hc. destruct (Helk cmp k pred l Hc) as [s [Hperm [Hs ->]]]. now apply els_sorted.
  Qed.

  (* a candidate that is surely among the last k of a list [big] is erased from every sub-multiset
     [m] of it that still contains it *)
  Lemma elk_protects cmp k pred m big c : swo cmp -> sub m big ->
    pred c = true -> surely_last_k cmp k c big = true -> ~ In c (elk cmp k pred m).
  Proof.
    intros Hc Hsub Hp Hsure Hin. unfold surely_last_k in Hsure.
    pose proof (elk_top cmp k pred m c Hc Hin Hp) as H1.
    pose proof (sub_count (fun x => negb (cmp x c)) m big Hsub) as H2. unfold not_before in *. lia.
  Qed.
End WithElk.
