(* Generic theory of the receive loop CNode::ReceiveMsgBytes over an incremental transport (C32):
   fuel sufficiency, and independence of the result from how the byte stream is cut into chunks,
   from three local facts about one loop iteration (M1, M1f, M2). *)
From Coq Require Import NArith.
From BV Require Import lib.Ints model.Transport.
Local Open Scope nat_scope.

Section NodeTheory.
  Variable T : Type.
  Variable iter : T -> list N -> iter_result T.
  Variable wf : T -> Prop.               (* invariant of the transport's receive state *)
  Variable okb : list N -> Prop.         (* premise on chunk sizes *)
  Variable doomedb : T -> bool.          (* states in which the next byte, whatever it is, fails *)

  Hypothesis ok_app_l : forall a b, okb (a ++ b) -> okb a.
  Hypothesis ok_app_r : forall a b, okb (a ++ b) -> okb b.

  (* an iteration keeps the invariant and consumes a non-empty prefix *)
  Hypothesis wf_iter : forall s w s' r o, wf s -> okb w -> w <> [] -> iter s w = ICont s' r o ->
      wf s' /\ exists c, c <> [] /\ w = c ++ r.
  (* M1: an iteration that did not need all of the input does not look at what follows *)
  Hypothesis M1 : forall s a b s1 ra o, wf s -> okb (a ++ b) -> iter s a = ICont s1 ra o -> ra <> [] ->
      iter s (a ++ b) = ICont s1 (ra ++ b) o.
  Hypothesis M1f : forall s a b, wf s -> okb (a ++ b) -> a <> [] -> iter s a = IFail -> iter s (a ++ b) = IFail.
  (* M2: an iteration that used up the input either was complete (aligned), or absorbed silently (fused),
     or absorbed silently while postponing a check that the longer input triggers later (deferred) *)
  Hypothesis M2 : forall s a b s1 o, wf s -> okb (a ++ b) -> a <> [] -> b <> [] -> iter s a = ICont s1 [] o ->
      iter s (a ++ b) = ICont s1 b o
      \/ (o = [] /\ iter s (a ++ b) = iter s1 b)
      \/ (o = [] /\ exists c d s2, b = c ++ d /\ c <> [] /\ iter s (a ++ b) = ICont s2 d [] /\
            (iter s1 c = ICont s2 [] [] \/ (iter s1 c = IFail /\ doomedb s2 = true))).
  Hypothesis doomed_fail : forall s w, wf s -> doomedb s = true -> w <> [] -> iter s w = IFail.

  Lemma consumed_len (w c r : list N) : c <> [] -> w = c ++ r -> length r < length w.
  Proof. intros Hc Hw. subst w. rewrite app_length. destruct c; [congruence|simpl; lia]. Qed.

  Definition conn_wf (c : conn T) : Prop :=
    match c with Alive s _ => wf s | Dead _ => True | OutOfFuel => False end.

  (* doomed-but-alive is identified with dead: no byte can follow without the connection failing *)
  Definition norm (c : conn T) : conn T :=
    match c with
    | Alive s o => if doomedb s then Dead o else c
    | _ => c
    end.

  Lemma norm_outs c : conn_outs (norm c) = conn_outs c.
  Proof. destruct c as [s o|o|]; simpl; auto. destruct (doomedb s); auto. Qed.

  Lemma norm_idem c : norm (norm c) = norm c.
  Proof. destruct c as [s o|o|]; simpl; auto. destruct (doomedb s) eqn:E; simpl; auto. rewrite E. auto. Qed.

  (* ---------------------------------------------------------------------------------------------- *)
  (* fuel *)

  Lemma node_loop_fuel : forall n s w acc f1 f2, length w <= n -> wf s -> okb w ->
      length w <= f1 -> length w <= f2 ->
      node_loop iter f1 s w acc = node_loop iter f2 s w acc /\ node_loop iter f1 s w acc <> OutOfFuel /\
      conn_wf (node_loop iter f1 s w acc).
  Proof.
    induction n as [|n IH]; intros s w acc f1 f2 Hn Hwf Hok H1 H2.
    - destruct w; [|simpl in Hn; lia]. destruct f1, f2; simpl; repeat split; auto; discriminate.
    - destruct w as [|x w']. { destruct f1, f2; simpl; repeat split; auto; discriminate. }
      destruct f1 as [|f1]; [simpl in H1; lia|]. destruct f2 as [|f2]; [simpl in H2; lia|].
      simpl. destruct (iter s (x :: w')) as [|s' r o] eqn:E.
      + repeat split; auto; discriminate.
      + destruct (wf_iter s (x :: w') s' r o Hwf Hok ltac:(discriminate) E) as [Hwf' [c [Hc Hw]]].
        assert (Hlen : length r < length (x :: w')) by (eapply consumed_len; eauto).
        assert (Hokr : okb r) by (rewrite Hw in Hok; eapply ok_app_r; eauto).
        simpl in Hlen, Hn, H1, H2.
        apply IH; auto; lia.
  Qed.

  Definition run (s : T) (w : list N) (acc : list out) : conn T := node_loop iter (length w) s w acc.

  Lemma run_nil s acc : run s [] acc = Alive s acc.
  Proof. reflexivity. Qed.

  Lemma run_step s w acc : wf s -> okb w -> w <> [] ->
      run s w acc = match iter s w with IFail => Dead acc | ICont s' r o => run s' r (acc ++ o) end.
  Proof.
    intros Hwf Hok Hne. unfold run. destruct w as [|x w']; [congruence|].
    simpl. destruct (iter s (x :: w')) as [|s' r o] eqn:E; auto.
    destruct (wf_iter s (x :: w') s' r o Hwf Hok Hne E) as [Hwf' [c [Hc Hw]]].
    assert (Hlen : length r <= length w').
    { pose proof (consumed_len _ _ _ Hc Hw) as HH. simpl in HH. lia. }
    assert (Hokr : okb r) by (rewrite Hw in Hok; eapply ok_app_r; eauto).
    apply (node_loop_fuel (length r) s' r (acc ++ o) (length w') (length r)); auto.
  Qed.

  Lemma run_wf s w acc : wf s -> okb w -> conn_wf (run s w acc) /\ run s w acc <> OutOfFuel.
  Proof.
    intros. unfold run.
    destruct (node_loop_fuel (length w) s w acc (length w) (length w)) as [_ [? ?]]; auto.
  Qed.

  Lemma node_recv_alive s acc w : node_recv iter (Alive s acc) w = run s w acc.
  Proof. reflexivity. Qed.

  (* ---------------------------------------------------------------------------------------------- *)
  (* congruence of normalisation under further input *)

  Lemma run_doomed s w acc : wf s -> okb w -> doomedb s = true -> w <> [] -> run s w acc = Dead acc.
  Proof. intros Hwf Hok Hd Hne. rewrite run_step; auto. rewrite doomed_fail; auto. Qed.

  Lemma norm_recv_cong c1 c2 w : conn_wf c1 -> conn_wf c2 -> okb w -> norm c1 = norm c2 ->
      norm (node_recv iter c1 w) = norm (node_recv iter c2 w).
  Proof.
    intros W1 W2 Hok Hn.
    destruct w as [|x w'].
    { destruct c1, c2; simpl in *; auto. }
    set (w := x :: w') in *. assert (Hne : w <> []) by (unfold w; discriminate).
    destruct c1 as [s1 o1|o1|], c2 as [s2 o2|o2|]; simpl in W1, W2; try contradiction;
      simpl in Hn; rewrite ?node_recv_alive.
    - destruct (doomedb s1) eqn:D1, (doomedb s2) eqn:D2; try congruence.
      rewrite !run_doomed by auto. simpl. congruence.
    - destruct (doomedb s1) eqn:D1; try congruence. rewrite run_doomed by auto. simpl. congruence.
    - destruct (doomedb s2) eqn:D2; try congruence. rewrite run_doomed by auto. simpl. congruence.
    - simpl. congruence.
  Qed.

  (* ---------------------------------------------------------------------------------------------- *)
  (* cutting the input in two *)

  Lemma merge2 : forall n s a b acc, length a + length b <= n -> wf s -> okb (a ++ b) ->
      norm (node_recv iter (run s a acc) b) = norm (run s (a ++ b) acc).
  Proof.
    induction n as [n IH] using lt_wf_ind. intros s a b acc Hn Hwf Hok.
    destruct a as [|xa a'].
    { reflexivity. }
    destruct b as [|xb b'].
    { rewrite app_nil_r. destruct (run s (xa :: a') acc); reflexivity. }
    set (a := xa :: a') in *. set (b := xb :: b') in *.
    assert (Ha : a <> []) by (unfold a; discriminate).
    assert (Hb : b <> []) by (unfold b; discriminate).
    assert (Hab : a ++ b <> []) by (unfold a; discriminate).
    assert (Hoka : okb a) by (eapply ok_app_l; eauto).
    assert (Hokb : okb b) by (eapply ok_app_r; eauto).
    rewrite (run_step s a acc Hwf Hoka Ha).
    destruct (iter s a) as [|s1 ra o] eqn:E.
    - (* failure inside a *)
      rewrite (run_step s (a ++ b) acc Hwf Hok Hab). rewrite (M1f s a b Hwf Hok Ha E). reflexivity.
    - destruct (wf_iter s a s1 ra o Hwf Hoka Ha E) as [Hwf1 [c [Hc Hw]]].
      assert (Hlenra : length ra < length a) by (eapply consumed_len; eauto).
      destruct ra as [|xr ra'].
      + (* the iteration used up a *)
        rewrite run_nil. rewrite node_recv_alive.
        rewrite (run_step s (a ++ b) acc Hwf Hok Hab).
        destruct (M2 s a b s1 o Hwf Hok Ha Hb E) as [Hal | [[Ho Hfu] | [Ho [c' [d [s2 [Hbd [Hc' [Hit Hdef]]]]]]]]].
        * rewrite Hal. reflexivity.
        * subst o. rewrite Hfu. rewrite app_nil_r. rewrite (run_step s1 b acc Hwf1 Hokb Hb). reflexivity.
        * subst o. rewrite Hit. rewrite app_nil_r.
          assert (Hokcd : okb (c' ++ d)) by (rewrite <- Hbd; auto).
          assert (Hokc : okb c') by (eapply ok_app_l; eauto).
          assert (Hokd : okb d) by (eapply ok_app_r; eauto).
          assert (Hlt : length c' + length d < n).
          { assert (E1 : length b = length c' + length d) by (rewrite Hbd, app_length; auto).
            assert (E2 : length a = Datatypes.S (length a')) by reflexivity.
            rewrite E1, E2 in Hn. lia. }
          rewrite Hbd.
          rewrite <- (IH (length c' + length d) Hlt s1 c' d acc (le_n _) Hwf1 Hokcd).
          rewrite (run_step s1 c' acc Hwf1 Hokc Hc').
          destruct Hdef as [Hd1 | [Hd1 Hd2]].
          -- rewrite Hd1. rewrite run_nil, node_recv_alive, app_nil_r. reflexivity.
          -- rewrite Hd1. simpl.
             assert (Hwf2 : wf s2).
             { destruct (wf_iter s (a ++ b) s2 d [] Hwf Hok Hab Hit) as [? _]; auto. }
             destruct d as [|xd d'].
             ++ rewrite run_nil. simpl. rewrite Hd2. reflexivity.
             ++ rewrite run_doomed; auto. discriminate.
      + (* the iteration left part of a *)
        set (ra := xr :: ra') in *.
        assert (Hra : ra <> []) by (unfold ra; discriminate).
        rewrite (run_step s (a ++ b) acc Hwf Hok Hab).
        rewrite (M1 s a b s1 ra o Hwf Hok E Hra).
        assert (Hokrab : okb (ra ++ b)).
        { rewrite Hw in Hok. rewrite <- app_assoc in Hok. eapply ok_app_r; eauto. }
        apply (IH (length ra + length b)); auto. lia.
  Qed.

  Theorem node_merge c a b : conn_wf c -> okb (a ++ b) ->
      norm (node_recv iter (node_recv iter c a) b) = norm (node_recv iter c (a ++ b)).
  Proof.
    intros Hwf Hok. destruct c as [s acc|acc|]; simpl in Hwf; try contradiction.
    - rewrite !node_recv_alive. apply (merge2 (length a + length b)); auto.
    - reflexivity.
  Qed.

  Lemma node_recv_wf c w : conn_wf c -> okb w -> conn_wf (node_recv iter c w).
  Proof.
    intros Hwf Hok. destruct c as [s acc|acc|]; simpl in *; auto.
    apply (run_wf s w acc); auto.
  Qed.

  (* any fragmentation: feeding the chunks one by one equals feeding their concatenation at once *)
  Theorem node_chunks : forall chunks c, conn_wf c -> okb (concat chunks) ->
      norm (node_recv_chunks iter c chunks) = norm (node_recv iter c (concat chunks)) /\
      conn_wf (node_recv_chunks iter c chunks).
  Proof.
    intros chunks. induction chunks as [|ch init IH] using rev_ind; intros c Hwf Hok.
    - simpl. split; auto. destruct c; reflexivity.
    - unfold node_recv_chunks in *. rewrite fold_left_app. simpl.
      rewrite concat_app in Hok. simpl in Hok. rewrite app_nil_r in Hok.
      assert (Hok1 : okb (concat init)) by (eapply ok_app_l; eauto).
      assert (Hok2 : okb ch) by (eapply ok_app_r; eauto).
      destruct (IH c Hwf Hok1) as [IH1 IH2].
      split.
      + rewrite concat_app. simpl. rewrite app_nil_r.
        rewrite <- (node_merge c (concat init) ch Hwf Hok).
        apply norm_recv_cong; auto. apply node_recv_wf; auto.
      + apply node_recv_wf; auto.
  Qed.
  (* invariants along a run *)
  Lemma run_inv (P : T -> list N -> list out -> Prop) (Q : conn T -> Prop) :
      (forall s acc, P s [] acc -> Q (Alive s acc)) ->
      (forall s w acc, wf s -> okb w -> w <> [] -> P s w acc -> iter s w = IFail -> Q (Dead acc)) ->
      (forall s w acc s' r o, wf s -> okb w -> w <> [] -> P s w acc -> iter s w = ICont s' r o -> P s' r (acc ++ o)) ->
      forall n s w acc, length w <= n -> wf s -> okb w -> P s w acc -> Q (run s w acc).
  Proof.
    intros HA HD HC. induction n as [|n IH]; intros s w acc Hn Hwf Hok HP.
    - destruct w; [|simpl in Hn; lia]. rewrite run_nil. auto.
    - destruct w as [|x w']. { rewrite run_nil. auto. }
      assert (Hne : x :: w' <> []) by discriminate.
      rewrite run_step by auto.
      destruct (iter s (x :: w')) as [|s' r o] eqn:E.
      + apply (HD s (x :: w') acc); auto.
      + destruct (wf_iter s (x :: w') s' r o Hwf Hok Hne E) as [Hwf' [c [Hc Hw]]].
        pose proof (consumed_len _ _ _ Hc Hw) as Hl. simpl in Hl, Hn.
        apply IH; [lia | exact Hwf' | rewrite Hw in Hok; eapply ok_app_r; eauto | apply (HC s (x :: w') acc s' r o); auto].
  Qed.
End NodeTheory.

(* ------------------------------------------------------------------------------------------------ *)
(* Iterations of the form "append up to need(s) bytes to the buffer, then look at the buffer":
   the three local facts follow from how the look behaves on partially filled buffers. *)
Section Absorb.
  Variable T : Type.
  Variable need : T -> nat.
  Variable G : T -> list N -> option (T * list out).
  Variable wf : T -> Prop.
  Variable doomedb : T -> bool.

  Definition aiter (s : T) (w : list N) : iter_result T :=
    match G s (firstn (need s) w) with
    | None => IFail
    | Some (s', o) => ICont s' (skipn (need s) w) o
    end.

  Hypothesis need_pos : forall s, wf s -> 1 <= need s.
  Hypothesis G_wf : forall s t s' o, wf s -> t <> [] -> length t <= need s -> G s t = Some (s', o) -> wf s'.
  (* a look at a partially filled buffer that fails keeps failing when more bytes are added *)
  Hypothesis G_fail_mono : forall s t t', wf s -> t <> [] -> t' <> [] -> length t + length t' <= need s ->
      G s t = None -> G s (t ++ t') = None.
  (* a look at a partially filled buffer that succeeds is silent, and the continuation either behaves as if
     the bytes had arrived together (fused) or has postponed a check (deferred) *)
  Hypothesis G_partial : forall s t s1 o, wf s -> t <> [] -> length t < need s -> G s t = Some (s1, o) ->
      o = [] /\
      ((need s1 = need s - length t /\
        forall t', t' <> [] -> length t' <= need s1 -> G s (t ++ t') = G s1 t')
       \/
       (need s - length t <= need s1 /\
        forall t', t' <> [] -> length t' <= need s - length t ->
          exists s2, G s (t ++ t') = Some (s2, []) /\
                     (G s1 t' = Some (s2, []) \/ (G s1 t' = None /\ doomedb s2 = true)))).

  Lemma firstn_skipn_short (k : nat) (a b : list N) : skipn k a <> [] ->
      firstn k (a ++ b) = firstn k a /\ skipn k (a ++ b) = skipn k a ++ b.
  Proof.
    intros Hs. assert (Hk : k < length a).
    { destruct (Nat.lt_ge_cases k (length a)); auto. rewrite skipn_all2 in Hs by lia. congruence. }
    rewrite firstn_app, skipn_app. replace (k - length a) with 0 by lia. simpl. rewrite app_nil_r. auto.
  Qed.

  Lemma firstn_skipn_long (k : nat) (a b : list N) : length a <= k ->
      firstn k (a ++ b) = a ++ firstn (k - length a) b /\ skipn k (a ++ b) = skipn (k - length a) b.
  Proof.
    intros Hk. rewrite firstn_app, skipn_app. rewrite firstn_all2 by lia. rewrite skipn_all2 by lia. auto.
  Qed.

  Lemma firstn_nonnil (k : nat) (l : list N) : 1 <= k -> l <> [] -> firstn k l <> [].
  Proof. intros Hk Hl. destruct l; [congruence|]. destruct k; [lia|]. simpl. discriminate. Qed.

  Lemma aiter_wf s w s' r o : wf s -> w <> [] -> aiter s w = ICont s' r o ->
      wf s' /\ exists c, c <> [] /\ w = c ++ r.
  Proof.
    intros Hwf Hne E. unfold aiter in E.
    destruct (G s (firstn (need s) w)) as [[s2 o2]|] eqn:EG; [|discriminate]. inversion E; subst.
    pose proof (need_pos s Hwf) as Hp.
    split.
    - apply (G_wf s (firstn (need s) w) s' o); auto. apply firstn_nonnil; auto.
      rewrite firstn_length. lia.
    - exists (firstn (need s) w). split. apply firstn_nonnil; auto. symmetry. apply firstn_skipn.
  Qed.

  Lemma aiter_M1 s a b s1 ra o : wf s -> aiter s a = ICont s1 ra o -> ra <> [] ->
      aiter s (a ++ b) = ICont s1 (ra ++ b) o.
  Proof.
    intros Hwf E Hra. unfold aiter in *.
    destruct (G s (firstn (need s) a)) as [[s2 o2]|] eqn:EG; [|discriminate]. inversion E; subst.
    destruct (firstn_skipn_short (need s) a b Hra) as [F1 F2]. rewrite F1, F2, EG. reflexivity.
  Qed.

  Lemma aiter_M1f s a b : wf s -> a <> [] -> aiter s a = IFail -> aiter s (a ++ b) = IFail.
  Proof.
    intros Hwf Ha E. unfold aiter in *.
    destruct (G s (firstn (need s) a)) as [[s2 o2]|] eqn:EG; [discriminate|].
    destruct (Nat.le_gt_cases (need s) (length a)) as [Hle|Hgt].
    - rewrite firstn_app. replace (need s - length a) with 0 by lia. simpl. rewrite app_nil_r, EG. auto.
    - rewrite firstn_all2 in EG by lia.
      destruct (firstn_skipn_long (need s) a b ltac:(lia)) as [F1 _]. rewrite F1.
      destruct b as [|xb b'].
      + rewrite firstn_nil, app_nil_r, EG. auto.
      + rewrite G_fail_mono; auto.
        * apply firstn_nonnil; [lia|discriminate].
        * pose proof (firstn_le_length (need s - length a) (xb :: b')). lia.
  Qed.

  Lemma aiter_M2 s a b s1 o : wf s -> a <> [] -> b <> [] -> aiter s a = ICont s1 [] o ->
      aiter s (a ++ b) = ICont s1 b o
      \/ (o = [] /\ aiter s (a ++ b) = aiter s1 b)
      \/ (o = [] /\ exists c d s2, b = c ++ d /\ c <> [] /\ aiter s (a ++ b) = ICont s2 d [] /\
            (aiter s1 c = ICont s2 [] [] \/ (aiter s1 c = IFail /\ doomedb s2 = true))).
  Proof.
    intros Hwf Ha Hb E. unfold aiter in E.
    destruct (G s (firstn (need s) a)) as [[s2 o2]|] eqn:EG; [|discriminate].
    injection E as E1 E2 E3. subst s2 o2.
    assert (Hlen : length a <= need s).
    { apply (f_equal (@length N)) in E2. rewrite skipn_length in E2. simpl in E2. lia. }
    rewrite firstn_all2 in EG by lia.
    destruct (firstn_skipn_long (need s) a b Hlen) as [F1 F2].
    destruct (Nat.eq_dec (length a) (need s)) as [Heq|Hneq].
    - (* aligned *)
      left. unfold aiter. rewrite F1, F2. replace (need s - length a) with 0 by lia. simpl.
      rewrite app_nil_r, EG. reflexivity.
    - assert (Hlt : length a < need s) by lia.
      destruct (G_partial s a s1 o Hwf Ha Hlt EG) as [Ho [[Hn HG] | [Hn HG]]].
      + (* fused *)
        right. left. split; auto. unfold aiter. rewrite F1, F2, Hn.
        rewrite HG; auto.
        * apply firstn_nonnil; auto. lia.
        * rewrite <- Hn. apply firstn_le_length.
      + (* deferred *)
        right. right. split; auto.
        set (k := need s - length a) in *.
        exists (firstn k b), (skipn k b).
        assert (Hc : firstn k b <> []) by (apply firstn_nonnil; auto; unfold k; lia).
        assert (Hcl : length (firstn k b) <= k) by apply firstn_le_length.
        destruct (HG (firstn k b) Hc Hcl) as [s2 [EH Hd]].
        exists s2. split; [symmetry; apply firstn_skipn|]. split; auto. split.
        * unfold aiter. rewrite F1, F2, EH. reflexivity.
        * unfold aiter. rewrite firstn_all2 by lia. rewrite skipn_all2 by lia.
          destruct Hd as [Hd|[Hd1 Hd2]]; [left|right]; [rewrite Hd|rewrite Hd1]; auto.
  Qed.
End Absorb.
