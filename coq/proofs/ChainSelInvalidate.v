(* ChainSel: Chainstate::InvalidateBlock keeps the invariant and candidate completeness (the final sweep over the
   block index is what guarantees completeness; the cached out-of-chain headers only add sound candidates). *)
From BV Require Import lib.Ints gen.Params_gen model.ChainSel proofs.ChainSelBase proofs.ChainSelFrame proofs.ChainSelInv
  proofs.ChainSelDeliver proofs.ChainSelFmw.
Local Open Scope Z_scope.
#[local] Arguments Z.eqb : simpl never.
#[local] Arguments Z.ltb : simpl never.
#[local] Arguments Z.gtb : simpl never.
#[local] Arguments Z.geb : simpl never.
#[local] Arguments Z.leb : simpl never.
#[local] Arguments Z.add : simpl never.
#[local] Arguments Z.sub : simpl never.

(* everything but the tip, the failure flags and the candidate set is untouched *)
Definition same_core (s s' : state) : Prop :=
  st_index s' = st_index s /\ st_data s' = st_data s /\ st_chaintx s' = st_chaintx s /\ st_seq s' = st_seq s /\
  st_unlinked s' = st_unlinked s /\ st_next_seq s' = st_next_seq s /\ st_min_work s' = st_min_work s.
Lemma same_core_refl s : same_core s s.
Proof. repeat split. Qed.
Lemma same_core_trans a b c : same_core a b -> same_core b c -> same_core a c.
Proof. unfold same_core. intuition congruence. Qed.
Lemma sc_path s s' x : same_core s s' -> path s' x = path s x.
Proof. intros [E _]. unfold path. rewrite E. reflexivity. Qed.
Lemma sc_known s s' x : same_core s s' -> known s' x = known s x.
Proof. intros [E _]. unfold known. rewrite E. reflexivity. Qed.
Lemma sc_is_desc s s' x a : same_core s s' -> is_desc s' x a = is_desc s x a.
Proof. intros H. unfold is_desc. rewrite (sc_path _ _ _ H). reflexivity. Qed.
Lemma sc_worse s s' a c : same_core s s' -> worse s' a c = worse s a c.
Proof. intros [E1 [_ [_ [E2 _]]]]. unfold worse, work. rewrite E1, E2. reflexivity. Qed.
Lemma sc_work s s' a : same_core s s' -> work s' a = work s a.
Proof. intros [E1 _]. unfold work. rewrite E1. reflexivity. Qed.
Lemma sc_ids s s' : same_core s s' -> ids s' = ids s.
Proof. intros [E1 _]. unfold ids. rewrite E1. reflexivity. Qed.

Section Invalidate.
Variable parent_of : id -> id.
Variable proof_of : id -> Z.
Variable kind_of : id -> kind.
Hypothesis proof_pos : forall b, 0 < proof_of b.
Set Default Proof Using "All".

Notation Inv := (Inv parent_of proof_of kind_of).

(* ---------------------------------------------------------------------------------------------- *)
(* the scan over the cached headers during one disconnect *)
Lemma inv_scan_spec hp dt nt : forall s,
  let '(s', hp') := inv_scan s hp dt nt in
  same_core s s' /\ st_tip s' = st_tip s /\
  (forall x, st_failed s x = true -> st_failed s' x = true) /\
  (forall x, st_failed s' x = true -> st_failed s x = true \/ (In x hp /\ is_desc s x dt = true)) /\
  (forall c, In c (st_cands s') -> In c (st_cands s) \/ (In c hp /\ worse s c nt = false /\ st_chaintx s c = true)) /\
  (forall c, In c (st_cands s) -> In c (st_cands s')) /\
  (NoDup (st_cands s) -> NoDup (st_cands s')) /\
  (forall c, In c hp' -> In c hp).
Proof.
  induction hp as [|c r IH]; intros s.
  - cbn [inv_scan]. split; [apply same_core_refl|]. split; [reflexivity|]. split; [auto|]. split; [auto|]. split; [auto|]. split; [auto|]. split; auto.
  - cbn [inv_scan]. destruct (work s c <? work s nt) eqn:Ew.
    { specialize (IH s). destruct (inv_scan s r dt nt) as [s' r'].
      destruct IH as [H1 [H2 [H3 [H4 [H5 [H6 [H7 H8]]]]]]].
      split; [exact H1|]. split; [exact H2|]. split; [exact H3|]. split.
      { intros x Hx. destruct (H4 x Hx) as [H|[H H']]; [auto|right; split; [right; assumption|assumption]]. }
      split.
      { intros x Hx. destruct (H5 x Hx) as [H|[H H']]; [auto|right; split; [right; assumption|assumption]]. }
      split; [exact H6|]. split; [exact H7|].
      intros x [<-|Hx]; [left; reflexivity|right; apply H8; assumption]. }
    destruct (is_desc s c dt) eqn:Ed.
    { set (s1 := set_failed s (upd (st_failed s) c true)).
      assert (Hsc : same_core s s1) by (repeat split).
      specialize (IH s1). destruct (inv_scan s1 r dt nt) as [s' r'].
      destruct IH as [H1 [H2 [H3 [H4 [H5 [H6 [H7 H8]]]]]]].
      split; [eapply same_core_trans; eassumption|]. split; [exact H2|]. split.
      { intros x Hx. apply H3. unfold s1. ssimpl. unfold upd. destruct (x =? c); [reflexivity|assumption]. }
      split.
      { intros x Hx. destruct (H4 x Hx) as [H|[H H']].
        - unfold s1 in H. ssimpl. unfold upd in H. destruct (Z.eqb_spec x c) as [->|N]; [|auto].
          right. split; [left; reflexivity|assumption].
        - right. split; [right; assumption|]. rewrite <- (sc_is_desc s s1) by assumption. assumption. }
      split.
      { intros x Hx. destruct (H5 x Hx) as [H|[H [H' H'']]]; [left; exact H|].
        right. split; [right; assumption|]. split; [rewrite <- (sc_worse s s1) by assumption; assumption|exact H'']. }
      split; [exact H6|]. split; [exact H7|]. intros x Hx. right. apply H8. assumption. }
    set (s1 := if negb (worse s c nt) && is_valid_tx s c && st_chaintx s c then insert_cand s c else s).
    assert (Hsc : same_core s s1) by (unfold s1; destruct (_ && _ && _); repeat split).
    assert (Hf1 : st_failed s1 = st_failed s) by (unfold s1; destruct (_ && _ && _); reflexivity).
    assert (Ht1 : st_tip s1 = st_tip s) by (unfold s1; destruct (_ && _ && _); reflexivity).
    assert (Hc1 : forall x, In x (st_cands s1) <-> In x (st_cands s) \/ (x = c /\ (negb (worse s c nt) && is_valid_tx s c && st_chaintx s c) = true)).
    { intros x. unfold s1. destruct (negb (worse s c nt) && is_valid_tx s c && st_chaintx s c).
      - rewrite st_cands_insert_cand, cand_insert_In. intuition.
      - intuition congruence. }
    assert (Hn1 : NoDup (st_cands s) -> NoDup (st_cands s1)).
    { unfold s1. destruct (_ && _ && _); [rewrite st_cands_insert_cand; apply cand_insert_NoDup|auto]. }
    specialize (IH s1). destruct (inv_scan s1 r dt nt) as [s' r'].
    destruct IH as [H1 [H2 [H3 [H4 [H5 [H6 [H7 H8]]]]]]].
    split; [eapply same_core_trans; eassumption|]. split; [congruence|]. split.
    { intros x Hx. apply H3. rewrite Hf1. assumption. }
    split.
    { intros x Hx. destruct (H4 x Hx) as [H|[H H']]; [left; rewrite <- Hf1; assumption|].
      right. split; [right; assumption|]. rewrite <- (sc_is_desc s s1) by assumption. assumption. }
    split.
    { intros x Hx. destruct (H5 x Hx) as [H|[H [H' H'']]].
      - apply Hc1 in H. destruct H as [H|[-> H]]; [left; assumption|]. right. split; [left; reflexivity|].
        apply andb_prop in H. destruct H as [H Hc]. apply andb_prop in H. destruct H as [Hw _].
        split; [destruct (worse s c nt); [discriminate|reflexivity]|assumption].
      - right. split; [right; assumption|]. split; [rewrite <- (sc_worse s s1) by assumption; assumption|].
        destruct Hsc as [_ [_ [E _]]]. rewrite <- E. assumption. }
    split; [intros x Hx; apply H6; apply Hc1; auto|]. split; [auto|].
    intros x [<-|Hx]; [left; reflexivity|right; apply H8; assumption].
Qed.

(* ---------------------------------------------------------------------------------------------- *)
Section Loop.
Variable s0 : state.   (* the state InvalidateBlock was called in *)
Variable b : id.
Hypothesis HI : Inv s0.
Hypothesis Hkb : known s0 b = true.
Hypothesis Hng : b <> GENESIS.

(* what holds between two disconnects *)
Definition LP (s : state) : Prop :=
  same_core s0 s /\ In (st_tip s) (path s0 (st_tip s0)) /\
  (forall x, st_failed s0 x = true -> st_failed s x = true) /\
  (forall x, st_failed s x = true -> st_failed s0 x = true \/ (known s0 x = true /\ In b (path s0 x))) /\
  NoDup (st_cands s) /\
  (forall c, In c (st_cands s) -> known s0 c = true /\ st_chaintx s0 c = true /\ worse s0 c (st_tip s) = false).

Lemma step_spec s hp last t : LP s -> st_tip s = t -> t <> GENESIS -> In b (path s0 t) ->
  (forall c, In c hp -> known s0 c = true) ->
  let '(s4, hp', l) := inv_disconnect_one parent_of (s, hp, last) t in
  LP s4 /\ st_tip s4 = parent_of t /\ l = t /\ st_failed s4 t = true /\ (forall c, In c hp' -> known s0 c = true).
Proof.
  intros [Hsc [Htip [Hmono [Hfl [Hnd Hcs]]]]] Et Ngt Hbt Hhp.
  assert (Htc : In t (path s0 (st_tip s0))) by (rewrite <- Et; assumption).
  assert (Hkt : known s0 t = true) by (eapply (ipath_known _ _ _ proof_pos _ HI); eauto).
  destruct (ipath_unfold _ _ _ proof_pos _ HI _ Hkt Ngt) as [Hkp [Hpath Hwork]].
  unfold inv_disconnect_one.
  set (s3 := insert_cand (erase_cand (set_failed (set_tip s (parent_of t)) (upd (st_failed (set_tip s (parent_of t))) t true)) t) (parent_of t)).
  assert (Hsc3 : same_core s s3) by (repeat split).
  pose proof (inv_scan_spec hp t (parent_of t) s3) as HS.
  destruct (inv_scan s3 hp t (parent_of t)) as [s4 hp'].
  destruct HS as [S1 [S2 [S3 [S4 [S5 [S6 [S7 S8]]]]]]].
  assert (Hsc4 : same_core s0 s4) by (apply (same_core_trans s0 s s4 Hsc); apply (same_core_trans s s3 s4 Hsc3 S1)).
  assert (Hsc03 : same_core s0 s3) by (apply (same_core_trans s0 s s3 Hsc Hsc3)).
  assert (Hpt : In (parent_of t) (path s0 (st_tip s0))).
  { eapply (ipath_trans _ _ _ proof_pos _ HI); [|exact Htc]. apply (iparent_in_path _ _ _ proof_pos _ HI); assumption. }
  assert (Hf3 : forall x, st_failed s3 x = if x =? t then true else st_failed s x) by (intros x; reflexivity).
  assert (Hwpt : forall c, worse s0 c t = false -> worse s0 c (parent_of t) = false).
  { intros c Hc. assert (Hlt : worse s0 (parent_of t) t = true).
    { apply worse_work_lt. pose proof (proof_pos t). lia. }
    destruct (worse s0 c (parent_of t)) eqn:E; [|reflexivity]. pose proof (worse_trans s0 _ _ _ E Hlt). congruence. }
  split; [|split; [exact S2|split; [reflexivity|split]]].
  - split; [assumption|]. split; [rewrite S2; exact Hpt|]. split.
    + intros x Hx. apply S3. rewrite Hf3. destruct (x =? t); [reflexivity|apply Hmono; assumption].
    + split.
      * intros x Hx. destruct (S4 x Hx) as [H|[H H']].
        -- rewrite Hf3 in H. destruct (Z.eqb_spec x t) as [->|N]; [right; split; assumption|apply Hfl; assumption].
        -- right. split; [apply Hhp; assumption|]. rewrite (sc_is_desc s0 s3) in H' by assumption.
           apply (iis_desc_iff _ _ _ proof_pos _ HI) in H'. eapply (ipath_trans _ _ _ proof_pos _ HI); eassumption.
      * split.
        -- apply S7. unfold s3. rewrite st_cands_insert_cand. apply cand_insert_NoDup. rewrite st_cands_erase_cand.
           apply cand_erase_NoDup. exact Hnd.
        -- intros c Hc. rewrite S2. destruct (S5 c Hc) as [H|[H [H' H'']]].
           ++ unfold s3 in H. rewrite st_cands_insert_cand, cand_insert_In, st_cands_erase_cand, cand_erase_In in H.
              destruct H as [->|[H N]].
              ** split; [assumption|]. split; [apply (i_chain _ _ _ _ HI _ Hpt)|apply worse_irrefl].
              ** destruct (Hcs c H) as [H1 [H2 H3]]. split; [assumption|]. split; [assumption|]. apply Hwpt. rewrite <- Et. assumption.
           ++ split; [apply Hhp; assumption|]. rewrite (sc_worse s0 s3) in H' by exact Hsc03.
              destruct Hsc03 as [_ [_ [E _]]]. rewrite E in H''. split; assumption.
  - apply S3. rewrite Hf3, Z.eqb_refl. reflexivity.
  - intros c Hc. apply Hhp. apply S8. assumption.
Qed.

Lemma chain_down_cons t r : chain_down_to (t :: r) b = if t =? b then [t] else t :: chain_down_to r b.
Proof. reflexivity. Qed.

Lemma loop_spec : forall t, known s0 t = true -> In b (path s0 t) ->
  forall s hp last, st_tip s = t -> LP s -> (forall c, In c hp -> known s0 c = true) ->
  let '(s1, hp1, last1) := fold_left (inv_disconnect_one parent_of) (chain_down_to (path s0 t) b) (s, hp, last) in
  LP s1 /\ st_tip s1 = parent_of b /\ last1 = b /\ st_failed s1 b = true.
Proof.
  intros t Hk. pattern t. revert t Hk. apply (path_ind parent_of proof_of kind_of proof_pos s0 HI).
  - intros H. apply (ipath_genesis_only _ _ _ proof_pos _ HI) in H. contradiction.
  - intros t Hk Ngt IH Hbt s hp last Et HL Hhp.
    destruct (ipath_unfold _ _ _ proof_pos _ HI _ Hk Ngt) as [Hkp [Hpath _]].
    rewrite Hpath, chain_down_cons.
    pose proof (step_spec s hp last t HL Et Ngt Hbt Hhp) as HS.
    destruct (Z.eqb_spec t b) as [->|N].
    + cbn [fold_left]. destruct (inv_disconnect_one parent_of (s, hp, last) b) as [[s4 hp'] l].
      destruct HS as [H1 [H2 [H3 [H4 _]]]]. auto.
    + cbn [fold_left]. destruct (inv_disconnect_one parent_of (s, hp, last) t) as [[s4 hp'] l].
      destruct HS as [H1 [H2 [H3 [H4 H5]]]].
      assert (Hbp : In b (path s0 (parent_of t))).
      { rewrite Hpath in Hbt. destruct Hbt as [E|H]; [congruence|assumption]. }
      apply (IH Hbp s4 hp' l H2 H1 H5).
Qed.
End Loop.

(* ---------------------------------------------------------------------------------------------- *)
(* the sweep over the whole index *)
Definition sweep_step (s' : state) (x : id) : state :=
  if is_valid_tx s' x && st_chaintx s' x && negb (worse s' x (st_tip s')) then insert_cand s' x else s'.
Lemma sweep_unfold s : inv_sweep s = fold_left sweep_step (ids s) s.
Proof. reflexivity. Qed.

Lemma sweep_fold l : forall s,
  let r := fold_left sweep_step l s in
  same_core s r /\ st_tip r = st_tip s /\ st_failed r = st_failed s /\
  (NoDup (st_cands s) -> NoDup (st_cands r)) /\
  (forall c, In c (st_cands r) <->
     In c (st_cands s) \/ (In c l /\ is_valid_tx s c = true /\ st_chaintx s c = true /\ worse s c (st_tip s) = false)).
Proof.
  induction l as [|a l IH]; intros s.
  - cbn. repeat split; auto using same_core_refl. intros [H|[[] _]]. assumption.
  - cbn [fold_left]. set (s1 := sweep_step s a).
    assert (Hsc : same_core s s1) by (unfold s1, sweep_step; destruct (_ && _ && _); repeat split).
    assert (Ht : st_tip s1 = st_tip s) by (unfold s1, sweep_step; destruct (_ && _ && _); reflexivity).
    assert (Hf : st_failed s1 = st_failed s) by (unfold s1, sweep_step; destruct (_ && _ && _); reflexivity).
    assert (Hn : NoDup (st_cands s) -> NoDup (st_cands s1)).
    { unfold s1, sweep_step. destruct (_ && _ && _); [rewrite st_cands_insert_cand; apply cand_insert_NoDup|auto]. }
    assert (Hc : forall c, In c (st_cands s1) <-> In c (st_cands s) \/
                  (c = a /\ is_valid_tx s a = true /\ st_chaintx s a = true /\ worse s a (st_tip s) = false)).
    { intros c. unfold s1, sweep_step.
      destruct (is_valid_tx s a) eqn:E1; destruct (st_chaintx s a) eqn:E2; destruct (worse s a (st_tip s)) eqn:E3; cbn [andb negb];
        try (intuition congruence).
      rewrite st_cands_insert_cand, cand_insert_In. intuition. }
    destruct (IH s1) as [H1 [H2 [H3 [H4 H5]]]].
    split; [eapply same_core_trans; eassumption|]. split; [congruence|]. split; [congruence|]. split; [auto|].
    intros c. rewrite H5, Hc.
    assert (Ev : is_valid_tx s1 c = is_valid_tx s c).
    { unfold is_valid_tx. rewrite Hf. destruct Hsc as [_ [E _]]. rewrite E. reflexivity. }
    assert (Ec : st_chaintx s1 c = st_chaintx s c) by (destruct Hsc as [_ [_ [E _]]]; rewrite E; reflexivity).
    rewrite Ev, Ec, Ht, (sc_worse s s1) by assumption.
    split.
    + intros [[H|[-> H]]|[H H']]; [left; assumption|right; split; [left; reflexivity|assumption]|right; split; [right; assumption|assumption]].
    + intros [H|[[<-|H] H']]; [left; left; assumption|left; right; split; [reflexivity|assumption]|right; split; assumption].
Qed.

(* ---------------------------------------------------------------------------------------------- *)
(* from the state before the sweep to the end *)
Lemma finish_spec s s2 b : Inv s -> known s b = true -> b <> GENESIS ->
  same_core s s2 -> In (st_tip s2) (path s (st_tip s)) -> ~ In b (path s (st_tip s2)) ->
  (forall x, st_failed s x = true -> st_failed s2 x = true) ->
  (forall x, st_failed s2 x = true -> st_failed s x = true \/ (known s x = true /\ In b (path s x))) ->
  st_failed s2 b = true -> NoDup (st_cands s2) ->
  (forall c, In c (st_cands s2) -> known s c = true /\ st_chaintx s c = true /\ worse s c (st_tip s2) = false) ->
  Inv (invalid_chain_found (inv_sweep s2) b) /\ complete (invalid_chain_found (inv_sweep s2) b) /\
  st_failed (invalid_chain_found (inv_sweep s2) b) b = true.
Proof.
  intros HI Hkb Hng Hsc Htip Hbt Hmono Hfl Hfb Hnd Hcs.
  rewrite sweep_unfold. pose proof (sweep_fold (ids s2) s2) as HS. cbv zeta in HS.
  set (r := fold_left sweep_step (ids s2) s2) in *.
  destruct HS as [Hscr [Htr [Hfr [Hndr Hcr]]]].
  assert (Hsc' : same_core s r) by (eapply same_core_trans; eassumption).
  set (fin := invalid_chain_found r b).
  assert (Hscf : same_core s fin) by (destruct Hsc' as [E1 [E2 [E3 [E4 [E5 [E6 E7]]]]]]; repeat split; assumption).
  assert (Htf : st_tip fin = st_tip s2) by exact Htr.
  assert (Hcf : st_cands fin = st_cands r) by reflexivity.
  assert (Hff : forall x, st_failed fin x = true <-> st_failed s x = true \/ (known s x = true /\ In b (path s x))).
  { intros x. unfold fin, invalid_chain_found, set_block_failure_flags. ssimpl.
    rewrite (sc_known s r) by assumption. rewrite (sc_is_desc s r) by assumption. rewrite Hfr.
    destruct (known s x) eqn:Ek; cbn [andb].
    - destruct (Z.eqb_spec x b) as [->|N]; cbn [negb andb].
      + split; [intros _|intros _; assumption]. right. split; [reflexivity|apply (ipath_self _ _ _ proof_pos _ HI); assumption].
      + destruct (is_desc s x b) eqn:Ed.
        * apply (iis_desc_iff _ _ _ proof_pos _ HI) in Ed. split; auto.
        * split; [intros H; apply Hfl in H; destruct H as [H|[_ H]]; [auto|]|].
          -- apply (iis_desc_iff _ _ _ proof_pos _ HI) in H. congruence.
          -- intros [H|[_ H]]; [auto|]. apply (iis_desc_iff _ _ _ proof_pos _ HI) in H. congruence.
    - split; [intros H; apply Hfl in H; destruct H as [H|[H _]]; [auto|congruence]|].
      intros [H|[H _]]; [auto|congruence]. }
  assert (HIf : Inv fin).
  { constructor.
    - destruct Hscf as [E _]. rewrite E. apply (i_wf _ _ _ _ HI).
    - rewrite (sc_known s fin), Htf by assumption. eapply (ipath_known _ _ _ proof_pos _ HI); eauto.
    - rewrite Htf, (sc_path s fin) by assumption. intros x Hx.
      assert (Hx' : In x (path s (st_tip s))) by (eapply (ipath_trans _ _ _ proof_pos _ HI); eassumption).
      destruct (i_chain _ _ _ _ HI _ Hx') as [H1 [H2 [H3 H4]]].
      destruct Hscf as [_ [Ed [Ec _]]]. rewrite Ed, Ec. repeat split; try assumption.
      destruct (st_failed fin x) eqn:E; [|reflexivity]. apply Hff in E. destruct E as [E|[_ E]]; [congruence|].
      exfalso. apply Hbt. eapply (ipath_trans _ _ _ proof_pos _ HI); eassumption.
    - intros y. rewrite (sc_known s fin) by assumption. intros Hk N Hp. apply Hff. apply Hff in Hp.
      destruct (ipath_unfold _ _ _ proof_pos _ HI _ Hk N) as [Hkp [Hpath _]].
      destruct Hp as [Hp|[_ Hp]]; [left; apply (i_failed_closed _ _ _ _ HI _ Hk N Hp)|].
      right. split; [assumption|]. rewrite Hpath. right. assumption.
    - intros y. rewrite (sc_known s fin) by assumption. destruct Hscf as [_ [Ed [Ec _]]]. rewrite Ed, Ec. apply (i_chaintx _ _ _ _ HI).
    - rewrite Hcf. auto.
    - intros c Hc. rewrite Hcf in Hc. apply Hcr in Hc. rewrite (sc_known s fin), Htf, (sc_worse s fin) by assumption.
      destruct Hscf as [_ [_ [Ec _]]]. rewrite Ec.
      destruct Hc as [Hc|[Hin [_ [H2 H3]]]]; [apply Hcs; assumption|].
      rewrite (sc_ids s s2) in Hin by assumption.
      split; [apply (iknown_iff _ _ _ proof_pos _ HI); assumption|].
      pose proof (sc_worse s s2 c (st_tip s2) Hsc) as Ew2. rewrite Ew2 in H3.
      destruct Hsc as [_ [_ [Ec2 _]]]. rewrite Ec2 in H2. split; assumption.
    - destruct Hscf as [_ [_ [_ [_ [E _]]]]]. rewrite E. apply (i_unl_nodup _ _ _ _ HI).
    - intros p c. rewrite (sc_known s fin) by assumption. destruct Hscf as [_ [Ed [Ec [_ [E _]]]]]. rewrite E, Ed, Ec. apply (i_unl_sound _ _ _ _ HI).
    - intros c. rewrite (sc_known s fin) by assumption. destruct Hscf as [_ [Ed [Ec [_ [E _]]]]]. rewrite E, Ed, Ec. apply (i_unl_complete _ _ _ _ HI).
    - intros y. rewrite (sc_known s fin) by assumption. destruct Hscf as [_ [_ [Ec [Es [_ [En _]]]]]]. rewrite Ec, Es, En. apply (i_seq_range _ _ _ _ HI).
    - intros x y. rewrite !(sc_known s fin) by assumption. destruct Hscf as [_ [_ [Ec [Es _]]]]. rewrite Ec, Es. apply (i_seq_inj _ _ _ _ HI).
    - intros y. rewrite (sc_known s fin) by assumption. destruct Hscf as [_ [Ed _]]. rewrite Ed. apply (i_data_kind _ _ _ _ HI). }
  split; [assumption|]. split; [|apply Hff; right; split; [assumption|apply (ipath_self _ _ _ proof_pos _ HI); assumption]].
  intros x [Hk [Hcx Hfx]] Hw. rewrite (sc_known s fin) in Hk by assumption.
  assert (Hcx' : st_chaintx s x = true) by (destruct Hscf as [_ [_ [Ec _]]]; rewrite Ec in Hcx; assumption).
  rewrite Htf, (sc_worse s fin) in Hw by assumption.
  rewrite Hcf. apply Hcr. right.
  assert (Hf2 : st_failed s2 x = false).
  { destruct (st_failed s2 x) eqn:E; [|reflexivity]. apply Hfl in E. assert (st_failed fin x = true) by (apply Hff; assumption). congruence. }
  split; [rewrite (sc_ids s s2) by assumption; apply (iknown_iff _ _ _ proof_pos _ HI); assumption|].
  split.
  - unfold is_valid_tx. rewrite Hf2. destruct Hsc as [_ [Ed _]]. rewrite Ed. cbn [negb andb].
    apply (i_chaintx _ _ _ _ HI _ Hk). assumption.
  - split; [destruct Hsc as [_ [_ [Ec _]]]; rewrite Ec; assumption|].
    rewrite (sc_worse s s2) by assumption. assumption.
Qed.

Lemma height_zero s b : Inv s -> known s b = true -> ((height s b =? 0) = true <-> b = GENESIS).
Proof.
  intros HI Hk. unfold height. split.
  - intros H. apply Z.eqb_eq in H. destruct (Z.eq_dec b GENESIS) as [|N]; [assumption|]. exfalso.
    destruct (ipath_unfold _ _ _ proof_pos _ HI _ Hk N) as [Hkp [Hpath _]].
    destruct (ipath_head _ _ _ proof_pos _ HI _ Hkp) as [tl Hp]. rewrite Hpath, Hp in H. cbn [length] in H. lia.
  - intros ->. rewrite (ipath_genesis _ _ _ proof_pos _ HI). reflexivity.
Qed.

Theorem invalidate_spec s b : Inv s -> complete s -> known s b = true ->
  Inv (invalidate_block parent_of s b) /\ complete (invalidate_block parent_of s b) /\
  (b <> GENESIS -> st_failed (invalidate_block parent_of s b) b = true).
Proof.
  intros HI HC Hkb. unfold invalidate_block.
  destruct (height s b =? 0) eqn:Eh.
  { split; [assumption|]. split; [assumption|]. intros N. apply (height_zero s b HI Hkb) in Eh. contradiction. }
  assert (Hng : b <> GENESIS).
  { intros E. apply (height_zero s b HI Hkb) in E. congruence. }
  set (hp := filter (fun c => negb (in_chain s c) && negb (worse s c (parent_of b)) && negb (st_failed s c)) (ids s)).
  assert (Hhp : forall c, In c hp -> known s c = true).
  { intros c Hc. apply filter_In in Hc. apply (iknown_iff _ _ _ proof_pos _ HI). tauto. }
  assert (HLP0 : LP s b s).
  { split; [apply same_core_refl|]. split; [apply (ipath_self _ _ _ proof_pos _ HI); apply (i_tip_known _ _ _ _ HI)|].
    split; [auto|]. split; [auto|]. split; [apply (i_cands_nodup _ _ _ _ HI)|apply (i_cands _ _ _ _ HI)]. }
  destruct (in_chain s b) eqn:Ec.
  - (* pindex is in the active chain: disconnect down to it *)
    apply (iin_chain_iff _ _ _ proof_pos _ HI) in Ec.
    pose proof (loop_spec s b HI Hkb Hng (st_tip s) (i_tip_known _ _ _ _ HI) Ec s hp b eq_refl HLP0 Hhp) as HL.
    destruct (fold_left (inv_disconnect_one parent_of) (chain_down_to (path s (st_tip s)) b) (s, hp, b)) as [[s1 hp1] last].
    destruct HL as [[Hsc [Htip [Hmono [Hfl [Hnd Hcs]]]]] [Et [-> Hfb]]].
    assert (Hnb : ~ In b (path s (st_tip s1))).
    { rewrite Et. intros H. assert (N : b <> parent_of b) by (intros E; symmetry in E; revert E; apply (iparent_neq _ _ _ proof_pos _ HI); assumption).
      pose proof (ipath_work _ _ _ proof_pos _ HI _ _ H N).
      destruct (ipath_unfold _ _ _ proof_pos _ HI _ Hkb Hng) as [_ [_ Hw]]. pose proof (proof_pos b). lia. }
    assert (Eic : in_chain s1 b = false).
    { unfold in_chain. rewrite (sc_path s s1) by assumption. apply mem_false. assumption. }
    rewrite Eic. cbn [negb andb].
    destruct (finish_spec s s1 b HI Hkb Hng Hsc Htip Hnb Hmono Hfl Hfb Hnd Hcs) as [F1 [F2 F3]]. auto.
  - (* never was in the chain *)
    cbn [fold_left]. rewrite Ec. cbn [negb andb].
    assert (Hnb : ~ In b (path s (st_tip s))) by (intros H; apply (iin_chain_iff _ _ _ proof_pos _ HI) in H; congruence).
    destruct (st_failed s b) eqn:Ef; cbn [negb].
    + destruct (finish_spec s s b HI Hkb Hng (same_core_refl s)
                  (ipath_self _ _ _ proof_pos _ HI _ (i_tip_known _ _ _ _ HI)) Hnb (fun x H => H) (fun x H => or_introl H) Ef
                  (i_cands_nodup _ _ _ _ HI) (i_cands _ _ _ _ HI)) as [F1 [F2 F3]]. auto.
    + set (S2 := erase_cand (set_failed s (upd (st_failed s) b true)) b).
      assert (A1 : same_core s S2) by (repeat split).
      assert (A2 : In (st_tip S2) (path s (st_tip s))) by (apply (ipath_self _ _ _ proof_pos _ HI); apply (i_tip_known _ _ _ _ HI)).
      assert (A3 : ~ In b (path s (st_tip S2))) by exact Hnb.
      assert (A4 : forall x, st_failed s x = true -> st_failed S2 x = true).
      { intros x Hx. unfold S2. ssimpl. unfold upd. destruct (x =? b); [reflexivity|assumption]. }
      assert (A5 : forall x, st_failed S2 x = true -> st_failed s x = true \/ (known s x = true /\ In b (path s x))).
      { intros x Hx. destruct (Z.eq_dec x b) as [E|N].
        - right. rewrite E. split; [assumption|apply (ipath_self _ _ _ proof_pos _ HI); assumption].
        - left. unfold S2 in Hx. change (upd (st_failed s) b true x = true) in Hx. rewrite upd_other in Hx by assumption. assumption. }
      assert (A6 : st_failed S2 b = true) by (unfold S2; ssimpl; apply upd_same).
      assert (A7 : NoDup (st_cands S2)).
      { unfold S2. rewrite st_cands_erase_cand. apply cand_erase_NoDup. apply (i_cands_nodup _ _ _ _ HI). }
      assert (A8 : forall c, In c (st_cands S2) -> known s c = true /\ st_chaintx s c = true /\ worse s c (st_tip S2) = false).
      { intros c Hc. unfold S2 in Hc. rewrite st_cands_erase_cand in Hc. apply cand_erase_In in Hc. apply (i_cands _ _ _ _ HI). tauto. }
      destruct (finish_spec s S2 b HI Hkb Hng A1 A2 A3 A4 A5 A6 A7 A8) as [F1 [F2 F3]]. auto.
Qed.

End Invalidate.
