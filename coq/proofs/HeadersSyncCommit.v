(* The second pass is checked against the commitments of the first pass, height by height; C33. *)
From BV Require Import lib.Ints lib.ChainParams gen.Params_gen model.Pow model.HeadersSync
  proofs.HeadersSyncLemmas proofs.HeadersSyncMain.
Local Open Scope Z_scope.

Section Commit.
  Variable permitted : Z -> Z -> Z -> bool.
  Variable proof_of : Z -> Z.
  Variable p : hs_params.
  Hypothesis max_nonneg : 0 <= p_max_commitments p.
  Hypothesis buffer_nonneg : 0 <= p_buffer p.

  Notation pnh := (process_next_headers permitted proof_of p).
  Notation store := (store_redownloaded permitted proof_of p).
  Notation store_all := (store_all_redownloaded permitted proof_of p).

  (* cv: the commitment bits of a run of headers whose predecessor has height h0 (model/HeadersSync.v) *)
  Notation cv := (HeadersSync.cv p).

  Lemma cv_app : forall a h0 b, cv h0 (a ++ b) = cv h0 a ++ cv (h0 + zlen a) b.
  Proof.
    induction a as [|x a IH]; intros h0 b; cbn [HeadersSync.cv app].
    - unfold zlen. simpl. now rewrite Z.add_0_r.
    - rewrite IH, <- app_assoc.
      replace (h0 + zlen (x :: a)) with (h0 + 1 + zlen a) by (unfold zlen; simpl length; lia). reflexivity.
  Qed.

  (* heights stay representable: int in the first pass, int64_t in the second *)
  Definition in_range (h : Z) : Prop := 0 <= h /\ h <= INT32_MAX.

  (* ---- first pass ---- *)
  Lemma single_commit s h s' : HeadersSync.process_single permitted proof_of p s h = (true, s') ->
    s_state s = PRESYNC -> in_range (s_height s + 1) ->
    s_commitments s' = s_commitments s ++ cv (s_height s) [h] /\ s_height s' = s_height s + 1.
  Proof.
    unfold HeadersSync.process_single. intros H Hst [R1 R2]. rewrite Hst in H.
    rewrite wrap32_id in H by (unfold INT32_MIN, INT32_MAX in *; lia).
    destruct (negb (permitted _ _ _)); [discriminate|]. cbn [HeadersSync.cv]. rewrite app_nil_r.
    destruct (is_commitment_height p (s_height s + 1)).
    - cbn [andb] in H. destruct (p_max_commitments p <? _); [discriminate|]. injection H as <-. cbn. auto.
    - cbn [andb] in H. injection H as <-. cbn. now rewrite app_nil_r.
  Qed.

  Lemma single_state s h ok s' : HeadersSync.process_single permitted proof_of p s h = (ok, s') ->
    s_state s = PRESYNC -> s_state s' = PRESYNC.
  Proof.
    unfold HeadersSync.process_single. intros H Hst. rewrite Hst in H.
    destruct (negb (permitted _ _ _)); [injection H as _ <-; exact Hst|].
    destruct (is_commitment_height p _ && _); injection H as _ <-; reflexivity.
  Qed.

  Lemma all_single_commit : forall hs s s', HeadersSync.process_all_single permitted proof_of p s hs = (true, s') ->
    s_state s = PRESYNC -> in_range (s_height s) -> in_range (s_height s + zlen hs) ->
    s_commitments s' = s_commitments s ++ cv (s_height s) hs /\ s_height s' = s_height s + zlen hs.
  Proof.
    induction hs as [|h hs IH]; intros s s' H Hst R0 R; simpl in H.
    - injection H as <-. simpl. unfold zlen. simpl. rewrite app_nil_r. split; [reflexivity | lia].
    - destruct (HeadersSync.process_single permitted proof_of p s h) as [[|] s1] eqn:E1; [|discriminate].
      assert (Hz : zlen (h :: hs) = 1 + zlen hs) by (unfold zlen; simpl length; lia).
      assert (R1 : in_range (s_height s + 1)) by (unfold in_range, zlen in *; simpl length in *; lia).
      destruct (single_commit s h s1 E1 Hst R1) as [A B].
      assert (Hst1 : s_state s1 = PRESYNC) by (eapply single_state; eauto).
      destruct (IH s1 s' H Hst1) as [C D].
      + rewrite B. exact R1.
      + rewrite B. unfold in_range in *. rewrite Hz in R. lia.
      + rewrite C, A, B. cbn [HeadersSync.cv]. rewrite app_nil_r, <- app_assoc. split; [reflexivity|]. rewrite D, B, Hz. lia.
  Qed.

  (* ---- second pass ---- *)
  Lemma store_commit s h s' : store s h = (true, s') -> s_state s = REDOWNLOAD ->
    in_range (s_rlast_height s + 1) ->
    s_rlast_height s' = s_rlast_height s + 1 /\ (s_all s = true -> s_all s' = true) /\
    (s_all s' = false -> s_commitments s = cv (s_rlast_height s) [h] ++ s_commitments s').
  Proof.
    unfold store_redownloaded. intros H Hst [R1 R2]. rewrite Hst in H.
    rewrite wrap64_id in H by (unfold INT64_MIN, INT64_MAX, INT32_MAX in *; lia).
    destruct (negb (h_prev h =? s_rlast_hash s)); [discriminate|].
    destruct (negb (permitted _ _ _)); [discriminate|].
    set (rwork := wrap256 (s_rwork s + proof_of (h_bits h))) in *.
    set (all := if p_min_work p <=? rwork then true else s_all s) in *.
    assert (Hall : s_all s = true -> all = true) by (intros Ha; unfold all; rewrite Ha; now destruct (_ <=? _)).
    cbn [HeadersSync.cv]. rewrite app_nil_r.
    destruct (negb all && is_commitment_height p (s_rlast_height s + 1)) eqn:Ec.
    - apply andb_true_iff in Ec. destruct Ec as [Ea Ech]. rewrite Ech.
      destruct (s_commitments s) as [|expected remaining]; [discriminate|].
      destruct (negb (Bool.eqb (h_cbit h) expected)) eqn:Eb; [discriminate|].
      apply negb_false_iff, Bool.eqb_prop in Eb. injection H as <-. cbn. subst expected. auto.
    - injection H as <-. cbn. split; [reflexivity|]. split; [exact Hall|]. intros Ha. rewrite Ha in Ec. cbn in Ec.
      rewrite Ec. reflexivity.
  Qed.

  Lemma store_all_commit : forall hs s s', store_all s hs = (true, s') -> s_state s = REDOWNLOAD ->
    in_range (s_rlast_height s) -> in_range (s_rlast_height s + zlen hs) ->
    s_rlast_height s' = s_rlast_height s + zlen hs /\ (s_all s = true -> s_all s' = true) /\
    (s_all s' = false -> s_commitments s = cv (s_rlast_height s) hs ++ s_commitments s').
  Proof.
    induction hs as [|h hs IH]; intros s s' H Hst R0 R; simpl in H.
    - injection H as <-. unfold zlen. simpl. split; [lia | auto].
    - destruct (store s h) as [[|] s1] eqn:E1; [|discriminate].
      assert (Hz : zlen (h :: hs) = 1 + zlen hs) by (unfold zlen; simpl length; lia).
      assert (R1 : in_range (s_rlast_height s + 1)) by (unfold in_range, zlen in *; simpl length in *; lia).
      destruct (store_commit s h s1 E1 Hst R1) as (A & B & C).
      destruct (store_spec permitted proof_of p s h s1 E1 Hst) as (Hst1 & _).
      destruct (IH s1 s' H Hst1) as (A' & B' & C').
      + rewrite A. exact R1.
      + rewrite A. unfold in_range in *. rewrite Hz in R. lia.
      + split; [rewrite A', A, Hz; lia|]. split; [auto|].
        intros Ha. assert (Ha1 : s_all s1 = false) by (destruct (s_all s1) eqn:X; [rewrite (B' eq_refl) in Ha; discriminate | reflexivity]).
        rewrite (C Ha1), (C' Ha). cbn [HeadersSync.cv]. rewrite app_nil_r, A, <- app_assoc. reflexivity.
  Qed.

  (* ---- histories: the headers accepted in each pass ---- *)
  Fixpoint accepted (phase : sync_state) (s : hss) (calls : list (list hdr * bool)) : list hdr :=
    match calls with
    | [] => []
    | (hs, full) :: rest =>
      let '(s', r) := pnh s hs full in
      (if r_success r && (match phase, s_state s with PRESYNC, PRESYNC => true | REDOWNLOAD, REDOWNLOAD => true | _, _ => false end)
       then hs else []) ++ accepted phase s' rest
    end.

  (* what a reachable state knows about the two passes so far: [a] / [b] = headers accepted in
     the first / second pass *)
  Definition ghost (s : hss) (a b : list hdr) : Prop :=
    match s_state s with
    | PRESYNC => b = [] /\ s_commitments s = cv (p_start_height p) a /\ s_height s = p_start_height p + zlen a
    | REDOWNLOAD => cv (p_start_height p) a = cv (p_start_height p) b ++ s_commitments s /\
                    s_rlast_height s = p_start_height p + zlen b
    | FINAL => True
    end.

  Lemma ghost_step s hs full s' r a b : pnh s hs full = (s', r) -> inv2 p s -> ghost s a b ->
    in_range (p_start_height p) ->
    in_range (p_start_height p + zlen a + zlen hs) -> in_range (p_start_height p + zlen b + zlen hs) ->
    ghost s' (a ++ (if r_success r && (match s_state s with PRESYNC => true | _ => false end) then hs else []))
             (b ++ (if r_success r && (match s_state s with REDOWNLOAD => true | _ => false end) then hs else [])).
  Proof.
    intros E Hi Hg R0 Ra Rb. unfold ghost in Hg.
    assert (Hi' : inv2 p s').
    { pose proof (pnh_inv permitted proof_of p) as X. feed X. specialize (X s hs full Hi). now rewrite E in X. }
    assert (Hza : 0 <= zlen a) by (unfold zlen; lia). assert (Hzb : 0 <= zlen b) by (unfold zlen; lia).
    assert (Hzh : 0 <= zlen hs) by (unfold zlen; lia).
    destruct (s_state s) eqn:Est.
    - (* first pass *)
      destruct Hg as (-> & Hc & Hh). rewrite andb_false_r. simpl app.
      unfold process_next_headers in E. destruct hs as [|h0 hs0].
      { injection E as <- <-. cbn. rewrite app_nil_r. unfold ghost. rewrite Est. auto. }
      rewrite Est in E.
      destruct (validate_and_store_commitments permitted proof_of p s (h0 :: hs0)) as [ok s1] eqn:Ev.
      destruct (ok && (ok && (full || is_redownload s1))) eqn:Em; injection E as <- <-; cbn [r_success].
      2:{ unfold ghost. cbn. exact I. }
      apply andb_true_iff in Em. destruct Em as [-> _]. rewrite andb_true_r. cbn [andb].
      unfold validate_and_store_commitments in Ev. rewrite Est in Ev.
      destruct (negb (h_prev h0 =? s_last_hash s)); [discriminate|].
      destruct (HeadersSync.process_all_single permitted proof_of p s (h0 :: hs0)) as [[|] s2] eqn:E2; [|discriminate].
      assert (R1 : in_range (s_height s)) by (rewrite Hh; unfold in_range in *; lia).
      assert (R2 : in_range (s_height s + zlen (h0 :: hs0))) by (rewrite Hh; unfold in_range in *; lia).
      destruct (all_single_commit (h0 :: hs0) s s2 E2 Est R1 R2) as [A B].
      pose proof (process_all_single_spec permitted proof_of p) as PA. feed PA.
      destruct (PA (h0 :: hs0) s true s2 E2 Est (proj1 (proj1 Hi))) as (Hst2 & _).
      destruct (p_min_work p <=? s_work s2); injection Ev as <-; unfold ghost; cbn [s_state s_commitments s_rlast_height s_height].
      + split; [|unfold zlen; simpl; lia]. cbn [HeadersSync.cv]. rewrite A, Hc, Hh, cv_app. reflexivity.
      + rewrite Hst2. split; [reflexivity|]. split; [rewrite A, Hc, Hh, cv_app; reflexivity|].
        rewrite B, Hh. unfold zlen. rewrite app_length. lia.
    - (* second pass *)
      destruct Hg as (Hc & Hh). rewrite andb_false_r, andb_true_r. rewrite app_nil_r.
      destruct Hi as [Hi Hall]. specialize (Hall Est).
      unfold process_next_headers in E. destruct hs as [|h0 hs0].
      { injection E as <- <-. cbn. rewrite app_nil_r. unfold ghost. rewrite Est. auto. }
      rewrite Est in E.
      destruct (store_all s (h0 :: hs0)) as [ok s1] eqn:Es. destruct ok.
      2:{ injection E as <- <-. unfold ghost. cbn. exact I. }
      assert (R1 : in_range (s_rlast_height s)) by (rewrite Hh; unfold in_range in *; lia).
      assert (R2 : in_range (s_rlast_height s + zlen (h0 :: hs0))) by (rewrite Hh; unfold in_range in *; lia).
      destruct (store_all_commit (h0 :: hs0) s s1 Es Est R1 R2) as (A & B & C).
      pose proof (store_all_spec permitted proof_of p) as SA. feed SA.
      destruct (SA (h0 :: hs0) s s1 Es Est) as (Hst1 & _).
      unfold pop_ready in E. rewrite Hst1 in E.
      destruct (pop_loop (p_buffer p) (s_all s1) (s_buf s1) (s_rfirst_prev s1)) as [[rel buf'] fp'].
      match type of E with (if ?c then _ else _, _) = _ => destruct c eqn:Emore end; injection E as <- <-; cbn [r_success andb].
      2:{ unfold ghost. cbn. exact I. }
      unfold ghost. cbn [s_state s_commitments s_rlast_height].
      (* the sync goes on: not in release-everything mode *)
      assert (Hall1 : s_all s1 = false) by (destruct Hi' as [_ Hx]; exact (Hx eq_refl)).
      split.
      + rewrite cv_app, Hc, (C Hall1), Hh, <- app_assoc. reflexivity.
      + rewrite A, Hh. unfold zlen. rewrite app_length. lia.
    - unfold process_next_headers in E. destruct hs as [|h0 hs0]; [injection E as <- <-|rewrite Est in E; injection E as <- <-];
        unfold ghost; cbn; rewrite Est; exact I.
  Qed.

  Definition total (calls : list (list hdr * bool)) : Z := zlen (concat (map fst calls)).

  Lemma history_ghost : forall calls s a b, inv2 p s -> ghost s a b ->
    in_range (p_start_height p) -> in_range (p_start_height p + zlen a + zlen b + total calls) ->
    ghost (run_state permitted proof_of p s calls) (a ++ accepted PRESYNC s calls) (b ++ accepted REDOWNLOAD s calls).
  Proof.
    induction calls as [|[hs full] calls IH]; intros s a b Hi Hg R0 R; simpl.
    - now rewrite !app_nil_r.
    - destruct (pnh s hs full) as [s' r] eqn:E. cbn [fst].
      assert (Hza : 0 <= zlen a) by (unfold zlen; lia). assert (Hzb : 0 <= zlen b) by (unfold zlen; lia).
      assert (Hzh : 0 <= zlen hs) by (unfold zlen; lia).
      assert (Ht : total ((hs, full) :: calls) = zlen hs + total calls).
      { unfold total, zlen. simpl. rewrite app_length. lia. }
      assert (Htc : 0 <= total calls) by (unfold total, zlen; lia).
      rewrite Ht in R.
      assert (Hi' : inv2 p s').
      { pose proof (pnh_inv permitted proof_of p) as X. feed X. specialize (X s hs full Hi). now rewrite E in X. }
      pose proof (ghost_step s hs full s' r a b E Hi Hg R0
                    ltac:(unfold in_range in *; lia) ltac:(unfold in_range in *; lia)) as Hg'.
      rewrite !app_assoc.
      replace (match s_state s with PRESYNC => true | _ => false end) with
              (match PRESYNC, s_state s with PRESYNC, PRESYNC => true | REDOWNLOAD, REDOWNLOAD => true | _, _ => false end) in Hg'
        by (destruct (s_state s); reflexivity).
      replace (match s_state s with REDOWNLOAD => true | _ => false end) with
              (match REDOWNLOAD, s_state s with PRESYNC, PRESYNC => true | REDOWNLOAD, REDOWNLOAD => true | _, _ => false end) in Hg'
        by (destruct (s_state s); reflexivity).
      match type of Hg' with ghost _ ?x ?y => set (a' := x) in *; set (b' := y) in * end.
      assert (Hgrow : zlen a' + zlen b' <= zlen a + zlen b + zlen hs /\ 0 <= zlen a' + zlen b').
      { unfold a', b', zlen. rewrite !app_length. destruct (r_success r), (s_state s); simpl length; lia. }
      apply IH; [exact Hi' | exact Hg' | exact R0 |].
      unfold in_range in *. lia.
  Qed.

  (* ---- the executable commitment predicate holds on what the model itself reports ---- *)
  Lemma bits_prefix_app : forall x y, bits_prefix x (x ++ y) = true.
  Proof. induction x as [|c x IH]; intros y; simpl; [reflexivity|]. now rewrite Bool.eqb_reflx, IH. Qed.

  (* per call: (success, state after the call) *)
  Fixpoint model_outs (s : hss) (calls : list (list hdr * bool)) : list (bool * sync_state) :=
    match calls with
    | [] => []
    | (hs, full) :: rest => let '(s', r) := pnh s hs full in (r_success r, s_state s') :: model_outs s' rest
    end.

  Lemma holds_commit_sound : forall calls s a b, inv2 p s -> ghost s a b ->
    in_range (p_start_height p) -> in_range (p_start_height p + zlen a + zlen b + total calls) ->
    holds_commit p (s_state s) a b calls (model_outs s calls) = true.
  Proof.
    induction calls as [|[hs full] calls IH]; intros s a b Hi Hg R0 R; [reflexivity|].
    cbn [model_outs]. destruct (pnh s hs full) as [s' r] eqn:E. cbn [holds_commit].
    assert (Hza : 0 <= zlen a) by (unfold zlen; lia). assert (Hzb : 0 <= zlen b) by (unfold zlen; lia).
    assert (Hzh : 0 <= zlen hs) by (unfold zlen; lia).
    assert (Ht : total ((hs, full) :: calls) = zlen hs + total calls).
    { unfold total, zlen. simpl. rewrite app_length. lia. }
    assert (Htc : 0 <= total calls) by (unfold total, zlen; lia).
    rewrite Ht in R.
    assert (Hi' : inv2 p s').
    { pose proof (pnh_inv permitted proof_of p) as X. feed X. specialize (X s hs full Hi). now rewrite E in X. }
    pose proof (ghost_step s hs full s' r a b E Hi Hg R0
                  ltac:(unfold in_range in *; lia) ltac:(unfold in_range in *; lia)) as Hg'.
    change (match s_state s with PRESYNC => true | _ => false end) with (is_presync (s_state s)) in Hg'.
    change (match s_state s with REDOWNLOAD => true | _ => false end) with (is_redl (s_state s)) in Hg'.
    match type of Hg' with ghost _ ?x ?y => set (a' := x) in *; set (b' := y) in * end.
    assert (Hgrow : zlen a' + zlen b' <= zlen a + zlen b + zlen hs /\ 0 <= zlen a' + zlen b').
    { unfold a', b', zlen. rewrite !app_length. destruct (r_success r), (s_state s); simpl length; lia. }
    apply andb_true_iff. split.
    - destruct (s_state s') eqn:Es'; cbn [is_redl]; try reflexivity.
      unfold ghost in Hg'. rewrite Es' in Hg'. destruct Hg' as [Hc _]. rewrite Hc. apply bits_prefix_app.
    - apply IH; [exact Hi' | exact Hg' | exact R0 |]. unfold in_range in *. lia.
  Qed.
End Commit.

(* statement used by props/Properties_C33.v *)
Lemma hs_commitments_match permitted proof_of p : 0 <= p_max_commitments p -> 0 <= p_buffer p ->
  forall calls, 0 <= p_start_height p -> p_start_height p + total calls <= INT32_MAX ->
  let s := run_state permitted proof_of p (hs_init p) calls in
  s_state s = REDOWNLOAD ->
  cv p (p_start_height p) (accepted permitted proof_of p PRESYNC (hs_init p) calls) =
  cv p (p_start_height p) (accepted permitted proof_of p REDOWNLOAD (hs_init p) calls) ++ s_commitments s.
Proof.
  intros Hm Hb calls H0 Hr. cbv zeta. intros Hst.
  assert (Htc : 0 <= total calls) by (unfold total, zlen; lia).
  pose proof (history_ghost permitted proof_of p) as X. feed X.
  assert (Hi : inv2 p (hs_init p)) by (eapply inv2_init; eauto).
  assert (Hg : ghost p (hs_init p) [] []).
  { unfold ghost, hs_init, zlen. simpl. repeat split; lia. }
  specialize (X calls (hs_init p) [] [] Hi Hg).
  assert (R0 : in_range (p_start_height p)) by (unfold in_range; lia).
  assert (R : in_range (p_start_height p + zlen (@nil hdr) + zlen (@nil hdr) + total calls)) by (unfold in_range, zlen; simpl; lia).
  specialize (X R0 R). unfold ghost in X. rewrite Hst in X. simpl app in X. tauto.
Qed.

Lemma hs_holds_commitments_sound permitted proof_of p : 0 <= p_max_commitments p -> 0 <= p_buffer p ->
  forall calls, holds_commitments p calls (model_outs permitted proof_of p (hs_init p) calls) = true.
Proof.
  intros Hm Hb calls. unfold holds_commitments.
  destruct ((0 <=? p_start_height p) && (p_start_height p + Z.of_nat (length (concat (map fst calls))) <=? INT32_MAX)) eqn:Er;
    [|reflexivity].
  apply andb_true_iff in Er. destruct Er as [E0 E1]. apply Z.leb_le in E0, E1.
  pose proof (holds_commit_sound permitted proof_of p) as X. feed X.
  assert (Hi : inv2 p (hs_init p)) by (eapply inv2_init; eauto).
  assert (Hg : ghost p (hs_init p) [] []).
  { unfold ghost, hs_init, zlen. simpl. repeat split; lia. }
  apply (X calls (hs_init p) [] [] Hi Hg); unfold in_range, total, zlen; simpl; lia.
Qed.
