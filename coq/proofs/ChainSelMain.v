(* ChainSel: the invariant holds after every sequence of operations from the genesis state; the C08 statements. *)
From BV Require Import lib.Ints gen.Params_gen model.ChainSel proofs.ChainSelBase proofs.ChainSelFrame proofs.ChainSelInv
  proofs.ChainSelDeliver proofs.ChainSelAccept proofs.ChainSelFmw proofs.ChainSelActivate proofs.ChainSelInvalidate
  proofs.ChainSelReconsider.
Local Open Scope Z_scope.
#[local] Arguments Z.eqb : simpl never.
#[local] Arguments Z.ltb : simpl never.
#[local] Arguments Z.gtb : simpl never.
#[local] Arguments Z.geb : simpl never.
#[local] Arguments Z.leb : simpl never.
#[local] Arguments Z.add : simpl never.
#[local] Arguments Z.sub : simpl never.

Section Main.
Variable parent_of : id -> id.
Variable proof_of : id -> Z.
Variable kind_of : id -> kind.
Hypothesis proof_pos : forall b, 0 < proof_of b.
Hypothesis genesis_valid : kind_of GENESIS = KValid.
Set Default Proof Using "All".

Notation Inv := (Inv parent_of proof_of kind_of).
Notation Good := (Good parent_of proof_of kind_of).
Notation AInv := (AInv parent_of proof_of kind_of).
Notation apply_op := (apply_op parent_of proof_of kind_of).
Notation run := (run parent_of proof_of kind_of).

(* ---------------------------------------------------------------------------------------------- *)
Lemma genesis_known mw x : known (genesis_state proof_of mw) x = true -> x = GENESIS.
Proof.
  unfold known, genesis_state. cbn [st_index get_hdr h_id]. destruct (Z.eqb_spec GENESIS x); [auto|discriminate].
Qed.

Lemma genesis_good mw : Good (genesis_state proof_of mw).
Proof.
  set (g := genesis_state proof_of mw).
  assert (HkG : known g GENESIS = true) by reflexivity.
  assert (HpG : path g GENESIS = [GENESIS]) by reflexivity.
  assert (Hseq : CHAINSEL_SEQ_ID_INIT_FROM_DISK < CHAINSEL_SEQ_ID_INIT_FROM_DISK + 1 < CHAINSEL_SEQ_ID_INIT_FROM_DISK + 2) by lia.
  split; [|split].
  - constructor.
    + apply wf_gen.
    + exact HkG.
    + change (st_tip g) with GENESIS. rewrite HpG. intros x [<-|[]]. repeat split; auto.
    + intros b _ _ H. discriminate.
    + intros b Hk. apply genesis_known in Hk. subst b. cbn. rewrite Z.eqb_refl. split; auto.
    + constructor; [intros []|constructor].
    + intros c [<-|[]]. split; [exact HkG|]. split; [reflexivity|apply worse_irrefl].
    + constructor.
    + intros p c [].
    + intros c Hk N. apply genesis_known in Hk. contradiction.
    + intros b Hk _. apply genesis_known in Hk. subst b. cbn. rewrite Z.eqb_refl. exact Hseq.
    + intros a b Ha Hb _ _ _. apply genesis_known in Ha, Hb. congruence.
    + intros b Hk _. apply genesis_known in Hk. subst b. left. exact genesis_valid.
  - intros b [Hk _] _. apply genesis_known in Hk. subst b. left. reflexivity.
  - intros c [<-|[]]. reflexivity.
Qed.

(* ---------------------------------------------------------------------------------------------- *)
Lemma good_header s b : Good s -> Good (fst (process_new_block_header parent_of proof_of s b)).
Proof.
  intros [HI [HC HQ]]. unfold process_new_block_header.
  pose proof (accept_header_spec parent_of proof_of kind_of proof_pos s b HI HC) as H.
  destruct (accept_block_header parent_of proof_of s b) as [s' r]. cbn [fst].
  destruct H as [HI' [HC' [Ec [Et _]]]]. split; [assumption|]. split; [assumption|].
  intros c Hc. rewrite Ec in Hc. rewrite Et. apply HQ. assumption.
Qed.

Lemma good_block s b rq : Good s -> Good (fst (process_new_block parent_of proof_of kind_of s b rq)).
Proof.
  intros HG. unfold process_new_block.
  assert (Hmain : Good (fst (let '(s1, r) := accept_block parent_of proof_of kind_of s b rq in
                             match r with BFail => (s1, BFail) | _ => (activate_best_chain parent_of kind_of s1, r) end))).
  { pose proof (accept_block_spec parent_of proof_of kind_of proof_pos s b rq HG) as H.
    destruct (accept_block parent_of proof_of kind_of s b rq) as [s1 r]. destruct H as [HI1 [HC1 HQ1]].
    destruct r; cbn [fst].
    - split; [assumption|]. split; [assumption|]. apply HQ1. discriminate.
    - apply (abc_good parent_of proof_of kind_of proof_pos). apply (good_ainv parent_of proof_of kind_of proof_pos); assumption.
    - apply (abc_good parent_of proof_of kind_of proof_pos). apply (good_ainv parent_of proof_of kind_of proof_pos); assumption. }
  destruct (kind_of b); try exact Hmain. exact HG.
Qed.

Lemma good_invalidate s b : Good s -> Good (rpc_invalidate parent_of kind_of s b).
Proof.
  intros [HI [HC HQ]]. unfold rpc_invalidate. destruct (known s b) eqn:Hk; [|split; [assumption|split; assumption]].
  destruct (invalidate_spec parent_of proof_of kind_of proof_pos s b HI HC Hk) as [H1 [H2 _]].
  apply (abc_good parent_of proof_of kind_of proof_pos). apply (good_ainv parent_of proof_of kind_of proof_pos); assumption.
Qed.

Lemma good_reconsider s b : Good s -> Good (rpc_reconsider parent_of kind_of s b).
Proof.
  intros [HI [HC HQ]]. unfold rpc_reconsider. destruct (known s b) eqn:Hk; [|split; [assumption|split; assumption]].
  destruct (reset_spec parent_of proof_of kind_of proof_pos s b HI HC Hk) as [H1 H2].
  apply (abc_good parent_of proof_of kind_of proof_pos). apply (good_ainv parent_of proof_of kind_of proof_pos); assumption.
Qed.

Lemma good_apply_op s o : Good s -> Good (apply_op s o).
Proof.
  intros HG. destruct o; cbn [ChainSel.apply_op].
  - apply good_header. assumption.
  - apply good_block. assumption.
  - apply good_invalidate. assumption.
  - apply good_reconsider. assumption.
Qed.

Lemma good_run ops : forall s, Good s -> Good (run s ops).
Proof.
  induction ops as [|o ops IH]; intros s HG; [exact HG|]. cbn [ChainSel.run fold_left]. apply IH. apply good_apply_op. assumption.
Qed.

(* every state reachable from genesis by header deliveries, block deliveries (requested or not), invalidateblock
   and reconsiderblock calls *)
Definition reachable (mw : Z) (s : state) : Prop := exists ops, s = run (genesis_state proof_of mw) ops.

Theorem reachable_good mw s : reachable mw s -> Good s.
Proof. intros [ops ->]. apply good_run. apply genesis_good. Qed.

(* ---------------------------------------------------------------------------------------------- *)
(* C08 *)

(* the whole ancestry of b (b included) has data and carries no failure flag *)
Definition clean_ancestry (s : state) (b : id) : Prop :=
  known s b = true /\ forall x, In x (path s b) -> st_data s x = true /\ st_failed s x = false.

Lemma clean_eligible s b : Inv s -> clean_ancestry s b -> eligible s b.
Proof.
  intros HI [Hk Hall]. split; [assumption|]. split; [|apply Hall; apply (ipath_self _ _ _ proof_pos _ HI); assumption].
  revert Hall. pattern b. revert b Hk. apply (path_ind parent_of proof_of kind_of proof_pos s HI).
  - intros _. apply (i_chaintx _ _ _ _ HI); [apply (iknown_genesis _ _ _ proof_pos _ HI)|].
    split; [|left; reflexivity].
    destruct (i_chain _ _ _ _ HI GENESIS) as [H _]; [|assumption].
    apply (igenesis_in_path _ _ _ proof_pos _ HI). apply (i_tip_known _ _ _ _ HI).
  - intros x Hk N IH Hall. destruct (ipath_unfold _ _ _ proof_pos _ HI _ Hk N) as [Hkp [Hpath _]].
    apply (i_chaintx _ _ _ _ HI _ Hk). split; [apply Hall; rewrite Hpath; left; reflexivity|]. right.
    apply IH. intros y Hy. apply Hall. rewrite Hpath. right. assumption.
Qed.
Lemma eligible_clean s b : Inv s -> eligible s b -> clean_ancestry s b.
Proof.
  intros HI [Hk [Hc Hf]]. split; [assumption|]. intros x Hx. split.
  - apply (inv_chaintx_anc _ _ _ proof_pos s HI _ _ Hx Hc).
  - destruct (st_failed s x) eqn:E; [|reflexivity]. pose proof (inv_failed_desc _ _ _ proof_pos s HI _ _ Hx E). congruence.
Qed.

(* tip_is_best, in the order of CBlockIndexWorkComparator *)
Theorem tip_is_best s : Good s -> forall b, clean_ancestry s b -> b <> st_tip s -> worse s b (st_tip s) = true.
Proof.
  intros [HI [HC HQ]] b Hb N. destruct (worse s b (st_tip s)) eqn:E; [reflexivity|]. exfalso. apply N.
  apply HQ. apply HC; [apply clean_eligible; assumption|assumption].
Qed.

(* ... hence the tip has the greatest chainwork among them, and among those of equal work the earliest sequence id *)
Theorem tip_most_work s : Good s -> forall b, clean_ancestry s b -> work s b <= work s (st_tip s).
Proof.
  intros HG b Hb. destruct (Z.eq_dec b (st_tip s)) as [->|N]; [lia|]. apply worse_work_le. apply tip_is_best; assumption.
Qed.
Theorem tip_first_seen s : Good s -> forall b, clean_ancestry s b -> b <> st_tip s -> work s b = work s (st_tip s) ->
  st_seq s (st_tip s) < st_seq s b.
Proof.
  intros HG b Hb N Hw. pose proof (tip_is_best s HG b Hb N) as Hworse. destruct HG as [HI [HC HQ]].
  destruct (clean_eligible s b HI Hb) as [Hk [Hc _]]. destruct (tip_eligible _ _ _ proof_pos s HI) as [Hkt [Hct _]].
  assert (Hne : st_seq s b <> st_seq s (st_tip s)).
  { intros E. apply N. apply (i_seq_inj _ _ _ _ HI); assumption. }
  apply (worse_spec_seq s b (st_tip s) Hne) in Hworse. lia.
Qed.
Theorem tip_clean s : Good s -> clean_ancestry s (st_tip s).
Proof. intros [HI _]. apply eligible_clean; [assumption|apply (tip_eligible parent_of proof_of kind_of proof_pos); assumption]. Qed.

(* no failed block, no block that fails a consensus check and no descendant of one is in the active chain *)
Theorem active_chain_valid s : Good s -> forall x, In x (path s (st_tip s)) ->
  st_failed s x = false /\ st_data s x = true /\ forall a, In a (path s x) -> kind_of a = KValid /\ st_failed s a = false.
Proof.
  intros [HI _] x Hx. destruct (i_chain _ _ _ _ HI _ Hx) as [H1 [_ [H3 _]]]. split; [assumption|]. split; [assumption|].
  intros a Ha. assert (Ha' : In a (path s (st_tip s))) by (eapply (ipath_trans _ _ _ proof_pos _ HI); eassumption).
  destruct (i_chain _ _ _ _ HI _ Ha') as [_ [_ [H H']]]. auto.
Qed.

(* invalidateblock b: b is flagged and is not in the active chain afterwards *)
Theorem invalidate_moves_tip s b : Good s -> known s b = true -> b <> GENESIS ->
  let s' := rpc_invalidate parent_of kind_of s b in
  st_failed s' b = true /\ ~ In b (path s' (st_tip s')).
Proof.
  intros [HI [HC HQ]] Hk N. cbv zeta. unfold rpc_invalidate. rewrite Hk.
  destruct (invalidate_spec parent_of proof_of kind_of proof_pos s b HI HC Hk) as [H1 [H2 H3]].
  destruct (abc_good_full parent_of proof_of kind_of proof_pos _ (good_ainv parent_of proof_of kind_of proof_pos _ H1 H2)) as [[HI' _] [Hmono _]].
  assert (Hf : st_failed (activate_best_chain parent_of kind_of (invalidate_block parent_of s b)) b = true) by (apply Hmono; apply H3; assumption).
  split; [assumption|]. intros Hin. destruct (i_chain _ _ _ _ HI' _ Hin) as [_ [_ [E _]]]. congruence.
Qed.

(* ---------------------------------------------------------------------------------------------- *)
(* the statements of props/Properties_C08.v, over all histories from genesis *)
Theorem c08_invariant mw ops : let s := run (genesis_state proof_of mw) ops in Inv s /\ complete s /\ quiescent s.
Proof. exact (reachable_good mw _ (ex_intro _ ops eq_refl)). Qed.

Theorem c08_tip_is_best mw ops : let s := run (genesis_state proof_of mw) ops in
  clean_ancestry s (st_tip s) /\
  forall b, clean_ancestry s b ->
    work s b <= work s (st_tip s) /\
    (b <> st_tip s -> worse s b (st_tip s) = true) /\
    (b <> st_tip s -> work s b = work s (st_tip s) -> st_seq s (st_tip s) < st_seq s b).
Proof.
  intros s. pose proof (reachable_good mw s (ex_intro _ ops eq_refl)) as HG.
  split; [exact (tip_clean s HG)|]. intros b Hb.
  split; [exact (tip_most_work s HG b Hb)|]. split; [exact (tip_is_best s HG b Hb)|exact (tip_first_seen s HG b Hb)].
Qed.

Theorem c08_no_invalid_block_active mw ops : let s := run (genesis_state proof_of mw) ops in
  forall x, In x (path s (st_tip s)) ->
    st_failed s x = false /\ st_data s x = true /\
    forall a, In a (path s x) -> kind_of a = KValid /\ st_failed s a = false.
Proof. intros s. exact (active_chain_valid s (reachable_good mw s (ex_intro _ ops eq_refl))). Qed.

Theorem c08_invalidate_moves_tip mw ops b : let s := run (genesis_state proof_of mw) ops in
  known s b = true -> b <> GENESIS ->
  let s' := apply_op s (OpInvalidate b) in
  st_failed s' b = true /\ ~ In b (path s' (st_tip s')).
Proof. intros s Hk N. exact (invalidate_moves_tip s b (reachable_good mw s (ex_intro _ ops eq_refl)) Hk N). Qed.

Theorem c08_reconsider_restores_best mw ops b : let s' := run (genesis_state proof_of mw) (ops ++ [OpReconsider b]) in
  forall c, clean_ancestry s' c -> work s' c <= work s' (st_tip s') /\ (c <> st_tip s' -> worse s' c (st_tip s') = true).
Proof.
  intros s' c Hc. pose proof (reachable_good mw s' (ex_intro _ (ops ++ [OpReconsider b]) eq_refl)) as HG.
  split; [exact (tip_most_work s' HG c Hc)|exact (tip_is_best s' HG c Hc)].
Qed.

End Main.
