(* C21 part A: arithmetic of the Num3072 model (model/MuHash.v):
   Multiply is multiplication modulo P3072, GetInverse is a modular inverse, Divide is the quotient. *)
From Coq Require Import NArith Znumtheory.
From BV Require Import lib.Ints model.CryptoBase model.MuHash.
Local Open Scope Z_scope.

(* ---------- generic facts (modulus as a variable) ---------- *)
Section Generic.
Variables B D p : Z.
Hypothesis HB : B = p + D.
Hypothesis HD : 0 < D.
Hypothesis HDD : D * D + D < p.

Lemma gen_p_pos : 0 < p.
Proof. nia. Qed.

Lemma gen_D_lt_p : D < p.
Proof. nia. Qed.

(* the final conditional subtraction *)
Lemma gen_norm r : 0 <= r < B -> (if p <=? r then (r + D) mod B else r) = r mod p.
Proof.
  intros Hr. pose proof gen_D_lt_p as HDp.
  destruct (p <=? r) eqn:E.
  - apply Z.leb_le in E.
    assert (Hm : (r + D) mod B = r - p).
    { symmetry. apply Z.mod_unique_pos with (q := 1); lia. }
    rewrite Hm. apply Z.mod_unique_pos with (q := 1); lia.
  - apply Z.leb_gt in E. symmetry. apply Z.mod_small. lia.
Qed.

Lemma gen_multiply t :
  0 <= t < B * B ->
  let t1 := t mod B + D * (t / B) in
  let t2 := t1 mod B + D * (t1 / B) in
  let c0 := t2 / B in
  let r := t2 mod B in
  let r' := if p <=? r then (r + D) mod B else r in
  (if c0 =? 0 then r' else (r' + D) mod B) = t mod p.
Proof.
  intros Ht. pose proof gen_p_pos as Hp. pose proof gen_D_lt_p as HDp.
  assert (HBpos : 0 < B) by lia.
  intros t1 t2 c0 r r'.
  assert (Hq1 : 0 <= t / B < B).
  { split. apply Z.div_pos; lia. apply Z.div_lt_upper_bound; lia. }
  assert (Hl1 : 0 <= t mod B < B) by (apply Z.mod_pos_bound; lia).
  assert (Et : t = B * (t / B) + t mod B) by (apply Z.div_mod; lia).
  assert (Ht1 : 0 <= t1 < B + D * B) by (unfold t1; nia).
  assert (Hq2 : 0 <= t1 / B <= D).
  { split. apply Z.div_pos; lia.
    assert (t1 / B < D + 1); [ apply Z.div_lt_upper_bound; nia | lia ]. }
  assert (Hl2 : 0 <= t1 mod B < B) by (apply Z.mod_pos_bound; lia).
  assert (Et1 : t1 = B * (t1 / B) + t1 mod B) by (apply Z.div_mod; lia).
  assert (Ht2 : 0 <= t2 < B + D * D) by (unfold t2; nia).
  assert (Et2 : t2 = B * c0 + r) by (unfold c0, r; apply Z.div_mod; lia).
  assert (Hr : 0 <= r < B) by (unfold r; apply Z.mod_pos_bound; lia).
  assert (Hc0 : c0 = 0 \/ c0 = 1).
  { assert (0 <= c0) by (unfold c0; apply Z.div_pos; lia).
    assert (c0 < 2); [ unfold c0; apply Z.div_lt_upper_bound; nia | lia ]. }
  assert (Ett : t = p * (t / B + t1 / B) + t2).
  { assert (Dt1 : t1 = t mod B + D * (t / B)) by reflexivity.
    assert (Dt2 : t2 = t1 mod B + D * (t1 / B)) by reflexivity.
    clearbody t1 t2. clear - Et Et1 Dt1 Dt2 HB.
    remember (t / B) as q1. remember (t1 / B) as q2. remember (t mod B) as l1. remember (t1 mod B) as l2.
    subst B. nia. }
  destruct Hc0 as [Hc | Hc]; rewrite Hc; simpl.
  - (* no carry *)
    assert (Er : t2 = r) by lia.
    unfold r'. rewrite gen_norm by exact Hr.
    rewrite Ett, Er. rewrite Z.add_comm, Z.mul_comm, Z.mod_add by lia. reflexivity.
  - (* carry: r < D*D, not an overflow; one FullReduce *)
    assert (Hrs : r < D * D) by lia.
    assert (Enr : r' = r).
    { unfold r'. destruct (p <=? r) eqn:E; [ apply Z.leb_le in E; lia | reflexivity ]. }
    rewrite Enr.
    assert (Hm : (r + D) mod B = r + D) by (apply Z.mod_small; lia).
    rewrite Hm. apply Z.mod_unique_pos with (q := t / B + t1 / B + 1); [ lia | ].
    rewrite Et2, Hc in Ett. clearbody t1 t2 r. clear - Ett HB.
    remember (t / B) as q1. remember (t1 / B) as q2. subst B. nia.
Qed.
End Generic.

(* ---------- the constants ---------- *)
Lemma B3072_eq : B3072 = P3072 + MAX_PRIME_DIFF.
Proof. unfold P3072. lia. Qed.
Lemma DIFF_pos : 0 < MAX_PRIME_DIFF.
Proof. reflexivity. Qed.
Lemma DIFF_sq : MAX_PRIME_DIFF * MAX_PRIME_DIFF + MAX_PRIME_DIFF < P3072.
Proof. apply Z.ltb_lt. vm_compute. reflexivity. Qed.
Lemma P3072_gt1 : 1 < P3072.
Proof. apply Z.ltb_lt. vm_compute. reflexivity. Qed.
Lemma P3072_odd : Z.odd P3072 = true.
Proof. vm_compute. reflexivity. Qed.
Lemma B3072_pow : B3072 = 2 ^ 3072.
Proof. reflexivity. Qed.
Lemma P3072_lt_B : P3072 < B3072.
Proof. rewrite B3072_eq. pose proof DIFF_pos. lia. Qed.
Lemma B3072_lt_2P : B3072 < 2 * P3072.
Proof. rewrite B3072_eq. pose proof DIFF_sq. pose proof DIFF_pos. nia. Qed.

Lemma lo3072_mod t : lo3072 t = t mod B3072.
Proof. unfold lo3072, MASK3072, B3072. apply Z.land_ones. lia. Qed.
Lemma hi3072_div t : hi3072 t = t / B3072.
Proof. unfold hi3072, B3072. apply Z.shiftr_div_pow2. lia. Qed.
Lemma full_reduce_mod x : num_full_reduce x = (x + MAX_PRIME_DIFF) mod B3072.
Proof. unfold num_full_reduce. apply lo3072_mod. Qed.

Global Opaque B3072 P3072 MASK3072 MAX_PRIME_DIFF.

Definition num_ok (x : Z) : Prop := 0 <= x < B3072.

Lemma lo3072_ok t : num_ok (lo3072 t).
Proof. rewrite lo3072_mod. apply Z.mod_pos_bound. pose proof P3072_lt_B. pose proof P3072_gt1. lia. Qed.

Lemma mod_P_ok x : num_ok (x mod P3072).
Proof.
  pose proof (Z.mod_pos_bound x P3072). pose proof P3072_lt_B. pose proof P3072_gt1.
  unfold num_ok. lia.
Qed.

(* if (IsOverflow()) FullReduce();  is reduction modulo P3072 on a Num3072 *)
Lemma num_normalize x : num_ok x ->
  (if num_is_overflow x then num_full_reduce x else x) = x mod P3072.
Proof.
  intros Hx. unfold num_is_overflow. rewrite full_reduce_mod.
  apply (gen_norm B3072 MAX_PRIME_DIFF P3072 B3072_eq DIFF_pos DIFF_sq). exact Hx.
Qed.

(* Multiply is multiplication modulo P3072, with a canonical result *)
Theorem num_multiply_spec x a : num_ok x -> num_ok a -> num_multiply x a = (x * a) mod P3072.
Proof.
  intros Hx Ha. unfold num_multiply, num_is_overflow.
  rewrite !full_reduce_mod, !lo3072_mod, !hi3072_div.
  apply (gen_multiply B3072 MAX_PRIME_DIFF P3072 B3072_eq DIFF_pos DIFF_sq).
  unfold num_ok in *. nia.
Qed.

Lemma num_multiply_ok x a : num_ok x -> num_ok a -> num_ok (num_multiply x a).
Proof. intros. rewrite num_multiply_spec by assumption. apply mod_P_ok. Qed.

(* ---------- GetInverse ---------- *)
Definition invertible (a : Z) : Prop := rel_prime a P3072.

Lemma invertible_mod a : invertible a <-> invertible (a mod P3072).
Proof.
  pose proof P3072_gt1. unfold invertible. split; intros Hr.
  - apply rel_prime_mod; [ lia | exact Hr ].
  - apply rel_prime_mod_rev; [ lia | exact Hr ].
Qed.

Lemma invertible_mult a b : invertible a -> invertible b -> invertible (a * b).
Proof. unfold invertible. intros. apply rel_prime_sym, rel_prime_mult; apply rel_prime_sym; assumption. Qed.

Lemma invertible_1 : invertible 1.
Proof. unfold invertible. apply rel_prime_1. Qed.

(* every residue that is not 0 is invertible when the modulus is prime (it is: "the largest 3072-bit
   safe prime"; primality itself is not proved here and is not needed by the theorems, which are
   stated over `invertible`) *)
Lemma prime_invertible a : prime P3072 -> a mod P3072 <> 0 -> invertible a.
Proof.
  intros Hp Hnz. unfold invertible. apply rel_prime_sym. apply prime_rel_prime; [ exact Hp | ].
  intros Hd. apply Hnz. apply Z.mod_divide in Hd; [ exact Hd | pose proof P3072_gt1; lia ].
Qed.

(* cancellation of an invertible factor *)
Lemma invertible_cancel a x y : invertible a ->
  (x * a) mod P3072 = (y * a) mod P3072 -> x mod P3072 = y mod P3072.
Proof.
  intros Ha E. pose proof P3072_gt1 as Hp.
  assert (Hd : (P3072 | (x - y) * a)).
  { apply Z.mod_divide; [ lia | ]. rewrite Z.mul_sub_distr_r, Zminus_mod, E, Z.sub_diag. apply Z.mod_0_l. lia. }
  assert (Hd2 : (P3072 | x - y)).
  { apply Gauss with (b := a). rewrite Z.mul_comm. exact Hd. apply rel_prime_sym. exact Ha. }
  destruct Hd2 as [k Hk]. replace x with (y + k * P3072) by lia. apply Z.mod_add. lia.
Qed.

Lemma half_mod_range x : 0 <= x < P3072 -> 0 <= half_mod x < P3072.
Proof.
  intros Hx. unfold half_mod. pose proof P3072_gt1.
  destruct (Z.even x); rewrite Z.div2_div; lia.
Qed.

Lemma even_div2 u : Z.even u = true -> 2 * Z.div2 u = u.
Proof. intros Ev. apply Z.even_spec in Ev. destruct Ev as [k ->]. rewrite Z.div2_div. lia. Qed.

Lemma half_mod_double x : 0 <= x < P3072 -> (2 * half_mod x) mod P3072 = x mod P3072.
Proof.
  intros Hx. unfold half_mod. pose proof P3072_gt1 as Hp. pose proof P3072_odd as Ho.
  destruct (Z.even x) eqn:E.
  - rewrite even_div2 by exact E. reflexivity.
  - assert (Ev : Z.even (x + P3072) = true).
    { rewrite Z.even_add. rewrite E. rewrite <- Z.negb_odd, Ho. reflexivity. }
    rewrite even_div2 by exact Ev.
    rewrite <- (Z.mul_1_l P3072) at 1. apply Z.mod_add. lia.
Qed.

Lemma sub_mod_range a b : 0 <= a < P3072 -> 0 <= b < P3072 -> 0 <= sub_mod a b < P3072.
Proof. intros. unfold sub_mod. destruct (b <=? a) eqn:E; lia. Qed.

Lemma sub_mod_spec a b : (sub_mod a b) mod P3072 = (a - b) mod P3072.
Proof.
  unfold sub_mod. pose proof P3072_gt1. destruct (b <=? a); [ reflexivity | ].
  rewrite <- (Z.mul_1_l P3072) at 1. apply Z.mod_add. lia.
Qed.

Lemma two_invertible : invertible 2.
Proof.
  unfold invertible. apply rel_prime_sym. apply Zgcd_1_rel_prime.
  pose proof P3072_odd as Ho. pose proof P3072_gt1.
  pose proof (Z.gcd_divide_r P3072 2) as [k Hk]. pose proof (Z.gcd_divide_l P3072 2) as [m Hm].
  pose proof (Z.gcd_nonneg P3072 2).
  assert (Z.gcd P3072 2 <= 2).
  { apply Z.divide_pos_le; [ lia | exists k; exact Hk ]. }
  assert (Z.gcd P3072 2 <> 0) by (intros E; rewrite E in Hk; lia).
  assert (Z.gcd P3072 2 <> 2).
  { intros E. rewrite E in Hm. rewrite Hm in Ho. rewrite Z.odd_mul in Ho. simpl in Ho.
    rewrite Bool.andb_false_r in Ho. discriminate. }
  lia.
Qed.

(* halving keeps  u = x * a (mod p) *)
Lemma half_step u x a : 0 <= x < P3072 -> Z.even u = true ->
  u mod P3072 = (x * a) mod P3072 -> (Z.div2 u) mod P3072 = (half_mod x * a) mod P3072.
Proof.
  intros Hx Ev Hu. apply invertible_cancel with (a := 2); [ exact two_invertible | ].
  apply Z.even_spec in Ev. destruct Ev as [k Ek].
  assert (E1 : Z.div2 u * 2 = u).
  { rewrite Z.div2_div, Ek. lia. }
  rewrite E1, Hu.
  replace (half_mod x * a * 2) with ((2 * half_mod x) * a) by ring.
  rewrite <- (Zmult_mod_idemp_l (2 * half_mod x)), half_mod_double by exact Hx.
  rewrite Zmult_mod_idemp_l. reflexivity.
Qed.

Lemma sub_step u v x1 x2 a :
  u mod P3072 = (x1 * a) mod P3072 -> v mod P3072 = (x2 * a) mod P3072 ->
  (u - v) mod P3072 = (sub_mod x1 x2 * a) mod P3072.
Proof.
  intros Hu Hv. rewrite <- Zmult_mod_idemp_l, sub_mod_spec, Zmult_mod_idemp_l.
  rewrite Z.mul_sub_distr_r, Zminus_mod, Hu, Hv, <- Zminus_mod. reflexivity.
Qed.

Lemma gcd_div2 u v : Z.even u = true -> Z.gcd u v = 1 -> Z.gcd (Z.div2 u) v = 1.
Proof.
  intros Ev Hg. apply Z.even_spec in Ev. destruct Ev as [k Ek].
  assert (E1 : Z.div2 u = k) by (rewrite Z.div2_div, Ek, (Z.mul_comm 2 k), Z.div_mul by lia; reflexivity).
  rewrite E1. pose proof (Z.gcd_nonneg k v).
  assert (Hd : (Z.gcd k v | Z.gcd u v)).
  { apply Z.gcd_greatest; [ rewrite Ek; apply Z.divide_mul_r, Z.gcd_divide_l | apply Z.gcd_divide_r ]. }
  rewrite Hg in Hd. apply Z.divide_1_r_nonneg in Hd; lia.
Qed.

Lemma gcd_sub_l u v : Z.gcd (u - v) v = Z.gcd u v.
Proof. rewrite Z.gcd_comm, Z.gcd_sub_diag_r, Z.gcd_comm. reflexivity. Qed.

(* soundness of the loop: when it answers, the answer is the inverse *)
Lemma inv_loop_sound a : forall fuel u v x1 x2 r,
  0 <= u -> 0 < v -> 0 <= x1 < P3072 -> 0 <= x2 < P3072 ->
  u mod P3072 = (x1 * a) mod P3072 -> v mod P3072 = (x2 * a) mod P3072 ->
  inv_loop fuel u v x1 x2 = Some r ->
  0 <= r < P3072 /\ (Z.gcd u v = 1 -> (r * a) mod P3072 = 1).
Proof.
  pose proof P3072_gt1 as Hp.
  induction fuel as [| k IH]; intros u v x1 x2 r Hu Hv Hx1 Hx2 Eu Ev Hrun; [ discriminate | ].
  simpl in Hrun.
  destruct (u =? 0) eqn:E0.
  - apply Z.eqb_eq in E0. subst u. inversion Hrun; subst r. split; [ exact Hx2 | ].
    intros Hg. rewrite Z.gcd_0_l, Z.abs_eq in Hg by lia. rewrite <- Ev, Hg. apply Z.mod_small. lia.
  - apply Z.eqb_neq in E0.
    destruct (Z.even u) eqn:Eeu.
    { assert (Hd : 0 <= Z.div2 u) by (rewrite Z.div2_div; apply Z.div_pos; lia).
      destruct (IH _ _ _ _ _ Hd Hv (half_mod_range _ Hx1) Hx2 (half_step _ _ _ Hx1 Eeu Eu) Ev Hrun) as [Hr Hi].
      split; [ exact Hr | ]. intros Hg. apply Hi. apply gcd_div2; assumption. }
    destruct (Z.even v) eqn:Eev.
    { assert (Hd : 0 < Z.div2 v).
      { apply Z.even_spec in Eev. destruct Eev as [m Em]. rewrite Z.div2_div, Em, (Z.mul_comm 2 m), Z.div_mul; lia. }
      destruct (IH _ _ _ _ _ Hu Hd Hx1 (half_mod_range _ Hx2) Eu (half_step _ _ _ Hx2 Eev Ev) Hrun) as [Hr Hi].
      split; [ exact Hr | ]. intros Hg. apply Hi. rewrite Z.gcd_comm. apply gcd_div2; [ exact Eev | ].
      rewrite Z.gcd_comm. exact Hg. }
    assert (Eev2 : forall w z, Z.even w = false -> Z.even z = false -> Z.even (w - z) = true).
    { intros w z Hw Hz. rewrite Z.even_sub, Hw, Hz. reflexivity. }
    destruct (v <=? u) eqn:Ele.
    { apply Z.leb_le in Ele.
      assert (Hd : 0 <= Z.div2 (u - v)) by (rewrite Z.div2_div; apply Z.div_pos; lia).
      pose proof (sub_mod_range _ _ Hx1 Hx2) as Hs.
      destruct (IH _ _ _ _ _ Hd Hv (half_mod_range _ Hs) Hx2
                  (half_step _ _ _ Hs (Eev2 _ _ Eeu Eev) (sub_step _ _ _ _ _ Eu Ev)) Ev Hrun) as [Hr Hi].
      split; [ exact Hr | ]. intros Hg. apply Hi. apply gcd_div2; [ apply Eev2; assumption | ].
      rewrite gcd_sub_l. exact Hg. }
    { apply Z.leb_gt in Ele.
      assert (Hd : 0 < Z.div2 (v - u)).
      { pose proof (Eev2 _ _ Eev Eeu) as He. apply Z.even_spec in He. destruct He as [m Em].
        rewrite Z.div2_div, Em, (Z.mul_comm 2 m), Z.div_mul; lia. }
      pose proof (sub_mod_range _ _ Hx2 Hx1) as Hs.
      destruct (IH _ _ _ _ _ Hu Hd Hx1 (half_mod_range _ Hs) Eu
                  (half_step _ _ _ Hs (Eev2 _ _ Eev Eeu) (sub_step _ _ _ _ _ Ev Eu)) Hrun) as [Hr Hi].
      split; [ exact Hr | ]. intros Hg. apply Hi. rewrite Z.gcd_comm.
      apply gcd_div2; [ apply Eev2; assumption | ].
      rewrite gcd_sub_l, Z.gcd_comm. exact Hg. }
Qed.

(* sufficient fuel: the bit lengths of u and v *)
Definition bitlen (x : Z) : Z := if x =? 0 then 0 else Z.log2 x + 1.

Lemma bitlen_nonneg x : 0 <= bitlen x.
Proof. unfold bitlen. destruct (x =? 0); [ lia | pose proof (Z.log2_nonneg x); lia ]. Qed.

Lemma bitlen_div2 x : 0 < x -> bitlen (Z.div2 x) = bitlen x - 1.
Proof.
  intros Hx. unfold bitlen. rewrite Z.div2_div.
  destruct (x =? 0) eqn:E; [ apply Z.eqb_eq in E; lia | ].
  destruct (x / 2 =? 0) eqn:E2.
  - apply Z.eqb_eq in E2. assert (x = 1) by lia. subst x. reflexivity.
  - apply Z.eqb_neq in E2. assert (2 <= x) by lia.
    replace (x / 2) with (Z.shiftr x 1) by (rewrite Z.shiftr_div_pow2 by lia; reflexivity).
    rewrite Z.log2_shiftr by lia. assert (1 <= Z.log2 x) by (apply Z.log2_le_pow2; lia). lia.
Qed.

Lemma bitlen_mono x y : 0 <= x <= y -> bitlen x <= bitlen y.
Proof.
  intros H. unfold bitlen. destruct (x =? 0) eqn:Ex.
  - destruct (y =? 0); [ lia | pose proof (Z.log2_nonneg y); lia ].
  - apply Z.eqb_neq in Ex. destruct (y =? 0) eqn:Ey; [ apply Z.eqb_eq in Ey; lia | ].
    pose proof (Z.log2_le_mono x y). lia.
Qed.

Lemma bitlen_bound x n : 0 <= n -> 0 <= x < 2 ^ n -> bitlen x <= n.
Proof.
  intros Hn Hx. unfold bitlen. destruct (x =? 0) eqn:E; [ lia | ]. apply Z.eqb_neq in E.
  assert (Z.log2 x < n) by (apply Z.log2_lt_pow2; lia). lia.
Qed.

Lemma inv_loop_total : forall fuel u v x1 x2,
  0 <= u -> 0 < v -> bitlen u + bitlen v < Z.of_nat fuel ->
  exists r, inv_loop fuel u v x1 x2 = Some r.
Proof.
  induction fuel as [| k IH]; intros u v x1 x2 Hu Hv Hf.
  - pose proof (bitlen_nonneg u). pose proof (bitlen_nonneg v). simpl in Hf. lia.
  - simpl. destruct (u =? 0) eqn:E0; [ eexists; reflexivity | ]. apply Z.eqb_neq in E0.
    assert (Hup : 0 < u) by lia.
    pose proof (bitlen_div2 u Hup) as Bu. pose proof (bitlen_div2 v Hv) as Bv.
    destruct (Z.even u) eqn:Eeu.
    { apply IH; [ rewrite Z.div2_div; apply Z.div_pos; lia | exact Hv | lia ]. }
    destruct (Z.even v) eqn:Eev.
    { apply IH; [ exact Hu | | lia ].
      apply Z.even_spec in Eev. destruct Eev as [m Em]. rewrite Z.div2_div, Em, (Z.mul_comm 2 m), Z.div_mul; lia. }
    destruct (v <=? u) eqn:Ele.
    { apply Z.leb_le in Ele. apply IH; [ rewrite Z.div2_div; apply Z.div_pos; lia | exact Hv | ].
      assert (bitlen (Z.div2 (u - v)) <= bitlen (Z.div2 u)).
      { apply bitlen_mono. rewrite !Z.div2_div. split; [ apply Z.div_pos; lia | apply Z.div_le_mono; lia ]. }
      lia. }
    { apply Z.leb_gt in Ele.
      assert (He : Z.even (v - u) = true) by (rewrite Z.even_sub, Eeu, Eev; reflexivity).
      apply IH; [ exact Hu | | ].
      - apply Z.even_spec in He. destruct He as [m Em]. rewrite Z.div2_div, Em, (Z.mul_comm 2 m), Z.div_mul; lia.
      - assert (bitlen (Z.div2 (v - u)) <= bitlen (Z.div2 v)).
        { apply bitlen_mono. rewrite !Z.div2_div. split; [ apply Z.div_pos; lia | apply Z.div_le_mono; lia ]. }
        lia. }
Qed.

Lemma INV_FUEL_val : Z.of_nat INV_FUEL = 6200.
Proof. unfold INV_FUEL. rewrite Z2Nat.id; lia. Qed.

Theorem num_get_inverse_spec a : num_ok a ->
  0 <= num_get_inverse a < P3072 /\ (invertible a -> (num_get_inverse a * a) mod P3072 = 1).
Proof.
  intros Ha. unfold num_get_inverse. pose proof P3072_gt1 as Hp. pose proof P3072_lt_B as HpB.
  destruct (a =? 1) eqn:E1.
  { apply Z.eqb_eq in E1. subst a. split; [ lia | ]. intros _. rewrite Z.mul_1_l. apply Z.mod_small. lia. }
  destruct (inv_loop_total INV_FUEL a P3072 1 0) as [r Hr].
  - apply Ha.
  - lia.
  - rewrite INV_FUEL_val.
    assert (bitlen a <= 3072) by (apply bitlen_bound; [ lia | rewrite <- B3072_pow; exact Ha ]).
    assert (bitlen P3072 <= 3072) by (apply bitlen_bound; [ lia | rewrite <- B3072_pow; lia ]).
    lia.
  - rewrite Hr.
    destruct (inv_loop_sound a INV_FUEL a P3072 1 0 r) as [Hrange Hinv]; try lia.
    + apply Ha.
    + rewrite Z.mul_1_l. reflexivity.
    + rewrite Z.mod_same, Z.mul_0_l, Z.mod_0_l by lia. reflexivity.
    + exact Hr.
    + split; [ exact Hrange | ]. intros Hi. apply Hinv. apply Zgcd_1_rel_prime. exact Hi.
Qed.

Global Opaque num_get_inverse INV_FUEL.

(* the field inverse used by Divide: the argument is first reduced *)
Definition finv (a : Z) : Z := num_get_inverse (a mod P3072).

Lemma finv_range a : 0 <= finv a < P3072.
Proof. unfold finv. apply num_get_inverse_spec. apply mod_P_ok. Qed.

Lemma finv_spec a : invertible a -> (finv a * a) mod P3072 = 1.
Proof.
  intros Hi. unfold finv.
  destruct (num_get_inverse_spec (a mod P3072) (mod_P_ok a)) as [_ Hs].
  rewrite <- Zmult_mod_idemp_r. apply Hs. apply invertible_mod in Hi. exact Hi.
Qed.

(* Divide: x * a^-1 modulo P3072 *)
Theorem num_divide_spec x a : num_ok x -> num_ok a ->
  num_divide x a = (x * finv a) mod P3072.
Proof.
  intros Hx Ha. unfold num_divide. rewrite (num_normalize x Hx), (num_normalize a Ha).
  change (num_get_inverse (a mod P3072)) with (finv a). pose proof (finv_range a) as Hf. pose proof P3072_lt_B.
  assert (Hfo : num_ok (finv a)) by (unfold num_ok; lia).
  rewrite num_multiply_spec by (apply mod_P_ok || exact Hfo).
  rewrite (num_normalize _ (mod_P_ok _)). rewrite Z.mod_mod by (pose proof P3072_gt1; lia).
  rewrite Zmult_mod_idemp_l. reflexivity.
Qed.

Lemma num_divide_range x a : num_ok x -> num_ok a -> 0 <= num_divide x a < P3072.
Proof. intros. rewrite num_divide_spec by assumption. apply Z.mod_pos_bound. pose proof P3072_gt1. lia. Qed.

(* the quotient is characterised by  q * a = x  *)
Lemma num_divide_char x a : num_ok x -> num_ok a -> invertible a ->
  (num_divide x a * a) mod P3072 = x mod P3072.
Proof.
  intros Hx Ha Hi. rewrite num_divide_spec by assumption.
  rewrite Zmult_mod_idemp_l. replace (x * finv a * a) with (x * (finv a * a)) by ring.
  rewrite <- Zmult_mod_idemp_r, finv_spec by exact Hi. rewrite Z.mul_1_r. reflexivity.
Qed.
