(* Proofs for model/Rbf.v *)
From Coq Require Import QArith.
From BV Require Import lib.Ints gen.Params_gen model.Fee model.Lin model.Rbf
  proofs.FeeLemmas proofs.FeeChunkLemmas proofs.LinLemmas.
Local Open Scope Z_scope.

(* ---------------------------------------------------------------------------------- *)
(* PaysForRBF *)
Lemma incr_is_100 : RBF_INCREMENTAL_RELAY_FEE = 100.
Proof. vm_compute. reflexivity. Qed.

Lemma pays_for_rbf_iff orig repl vsize :
  is_i64 orig -> is_i64 repl -> is_i64 (repl - orig) -> 0 <= vsize <= INT32_MAX ->
  (pays_for_rbf orig repl vsize RBF_INCREMENTAL_RELAY_FEE = true <->
   orig <= repl /\ RBF_INCREMENTAL_RELAY_FEE * vsize <= (repl - orig) * 1000).
Proof.
  intros Ho Hr Hd Hv. rewrite incr_is_100. unfold pays_for_rbf.
  assert (Hc : is_i64 (ceil_div (100 * vsize) 1000)).
  { unfold is_i64, INT64_MIN, INT64_MAX, INT32_MAX, ceil_div in *. enia. }
  assert (G : get_fee (100, 1000) (wrap32 vsize) = ceil_div (100 * vsize) 1000).
  { rewrite wrap32_id by (unfold INT32_MIN, INT32_MAX in *; lia).
    change (100, 1000) with (cfeerate_make 100 1000).
    rewrite get_fee_spec.
    - unfold spec_get_fee. change (1000 <=? 0) with false. change (100 <? 0) with false. cbv iota zeta.
      rewrite andb_false_r. reflexivity.
    - unfold is_i64, INT64_MIN, INT64_MAX. lia.
    - unfold is_i32, INT32_MIN, INT32_MAX. lia.
    - exact Hv.
    - intros _. exact Hc. }
  rewrite G. rewrite wrap64_id by exact Hd.
  destruct (repl <? orig) eqn:E1.
  - split; [discriminate | lia].
  - destruct (repl - orig <? ceil_div (100 * vsize) 1000) eqn:E2.
    + split; [discriminate|]. unfold ceil_div in *. intros [_ H]. enia.
    + split; [|reflexivity]. intros _. split; [lia|]. unfold ceil_div in *. enia.
Qed.

(* ---------------------------------------------------------------------------------- *)
(* descendants by one pass in acceptance order *)
Lemma mark_step_mono m e x : In x m -> In x (mark_step m e).
Proof. intros H. unfold mark_step. destruct (memn (e_id e) m); [exact H|]. destruct (has_parent_in m (e_ins e)); [right; exact H | exact H]. Qed.

Lemma fold_mark_mono l : forall m x, In x m -> In x (fold_left mark_step l m).
Proof. induction l as [|e l IH]; intros m x H; cbn [fold_left]; [exact H|]. apply IH. apply mark_step_mono. exact H. Qed.

Lemma fold_mark_origin l : forall m x, In x (fold_left mark_step l m) -> In x m \/ In x (ids l).
Proof.
  induction l as [|e l IH]; intros m x H; cbn [fold_left] in H; [left; exact H|].
  destruct (IH _ _ H) as [H1|H1]; [|right; right; exact H1].
  unfold mark_step in H1. destruct (memn (e_id e) m); [left; exact H1|].
  destruct (has_parent_in m (e_ins e)); [|left; exact H1].
  destruct H1 as [H1|H1]; [right; left; exact H1 | left; exact H1].
Qed.

Lemma has_parent_in_spec m ins : has_parent_in m ins = true <-> exists t, In t (tx_parents ins) /\ In t m.
Proof.
  unfold has_parent_in. rewrite existsb_exists. split; intros [t [H1 H2]]; exists t; split; try assumption; apply memn_In; assumption.
Qed.

Lemma fold_mark_sound pool start l : incl l pool ->
  forall m, (forall x, In x m -> exists d, In d start /\ desc pool d x) ->
  forall x, In x (fold_left mark_step l m) -> exists d, In d start /\ desc pool d x.
Proof.
  induction l as [|e l IH]; intros Hincl m Hm x Hx; cbn [fold_left] in Hx; [apply Hm; exact Hx|].
  apply (IH (fun y Hy => Hincl y (or_intror Hy)) (mark_step m e)); [|exact Hx].
  intros y Hy. unfold mark_step in Hy. destruct (memn (e_id e) m); [apply Hm; exact Hy|].
  destruct (has_parent_in m (e_ins e)) eqn:Hp; [|apply Hm; exact Hy].
  destruct Hy as [Hy|Hy]; [|apply Hm; exact Hy]. subst y.
  apply has_parent_in_spec in Hp. destruct Hp as [t [Ht1 Ht2]].
  destruct (Hm t Ht2) as [d [Hd1 Hd2]]. exists d. split; [exact Hd1|].
  eapply desc_step; [exact Hd2 | apply Hincl; left; reflexivity | exact Ht1].
Qed.

Lemma wf_nodup pool : forall earlier, wf_pool pool earlier ->
  NoDup (ids pool) /\ (forall y, In y (ids pool) -> ~ In y earlier).
Proof.
  induction pool as [|e r IH]; intros earlier W; cbn [ids map].
  - split; [constructor | intros y []].
  - destruct W as [W1 [_ W3]]. destruct (IH _ W3) as [N D]. fold (ids r) in *. split.
    + constructor; [|exact N]. intros Hin. apply (D _ Hin). left. reflexivity.
    + intros y [Hy|Hy]; [subst y; exact W1|]. intros He. apply (D _ Hy). right. exact He.
Qed.

Lemma wf_split pre : forall e post earlier, wf_pool (pre ++ e :: post) earlier ->
  forall t, In t (tx_parents (e_ins e)) -> In t earlier \/ In t (ids pre).
Proof.
  induction pre as [|a pre IH]; intros e post earlier W t Ht.
  - cbn [app] in W. destruct W as [_ [W2 _]]. left. apply W2. exact Ht.
  - cbn [app] in W. destruct W as [_ [_ W3]]. destruct (IH e post _ W3 t Ht) as [[H|H]|H].
    + right. left. exact H.
    + left. exact H.
    + right. right. exact H.
Qed.

Lemma nodup_app_disjoint {A} (a b : list A) x : NoDup (a ++ b) -> In x a -> ~ In x b.
Proof.
  induction a as [|y a IH]; intros N Ha; [contradiction|]. cbn [app] in N. inversion N as [|? ? Hy N']; subst.
  destruct Ha as [Ha|Ha]; [subst y; intros Hb; apply Hy; apply in_or_app; right; exact Hb | apply IH; assumption].
Qed.

Lemma mark_desc_complete pool start : wf_pool pool [] ->
  forall d x, In d start -> desc pool d x -> In x (mark_desc pool start).
Proof.
  intros W d x Hd Hx. unfold mark_desc. induction Hx as [a Ha | a p e Hap IH He Hp].
  - apply fold_mark_mono. exact Hd.
  - specialize (IH Hd). destruct (in_split _ _ He) as [pre [post E]]. rewrite E in *.
    destruct (wf_nodup _ _ W) as [N _].
    destruct (wf_split pre e post [] W p Hp) as [[]|Hpre].
    rewrite fold_left_app in *. cbn [fold_left] in *.
    set (M1 := fold_left mark_step pre start) in *.
    assert (Hp1 : In p M1).
    { destruct (fold_mark_origin (e :: post) M1 p IH) as [H|H]; [exact H|]. exfalso.
      unfold ids in N. rewrite map_app in N. exact (nodup_app_disjoint _ _ p N Hpre H). }
    apply fold_mark_mono. unfold mark_step. destruct (memn (e_id e) M1) eqn:Em; [apply memn_In; exact Em|].
    assert (Hh : has_parent_in M1 (e_ins e) = true) by (apply has_parent_in_spec; exists p; split; assumption).
    rewrite Hh. left. reflexivity.
Qed.

Theorem mark_desc_iff pool start : wf_pool pool [] -> incl start (ids pool) ->
  forall x, In x (mark_desc pool start) <-> exists d, In d start /\ desc pool d x.
Proof.
  intros W Hs x. split.
  - apply (fold_mark_sound pool start pool (incl_refl _) start).
    intros y Hy. exists y. split; [exact Hy | apply desc_refl; apply Hs; exact Hy].
  - intros [d [Hd Hx]]. eapply mark_desc_complete; eassumption.
Qed.

Lemma mark_step_nodup m e : NoDup m -> NoDup (mark_step m e).
Proof.
  intros N. unfold mark_step. destruct (memn (e_id e) m) eqn:E; [exact N|].
  destruct (has_parent_in m (e_ins e)); [|exact N]. constructor; [|exact N]. apply memn_false. exact E.
Qed.
Lemma mark_desc_nodup pool start : NoDup start -> NoDup (mark_desc pool start).
Proof.
  unfold mark_desc. revert start. induction pool as [|e r IH]; intros start N; cbn [fold_left]; [exact N|].
  apply IH. apply mark_step_nodup. exact N.
Qed.

(* ---------------------------------------------------------------------------------- *)
(* direct conflicts *)
Lemma op_eqb_eq a b : op_eqb a b = true <-> a = b.
Proof.
  unfold op_eqb. rewrite andb_true_iff, !Nat.eqb_eq. destruct a, b; cbn [fst snd]. split; [intros [H1 H2]; congruence | intros H; inversion H; auto].
Qed.

Lemma shares_input_spec a b : shares_input a b = true <-> exists op, In op a /\ In op b.
Proof.
  unfold shares_input. rewrite existsb_exists. split.
  - intros [op [H1 H2]]. apply existsb_exists in H2. destruct H2 as [op' [H2 H3]]. apply op_eqb_eq in H3. subst. exists op'. auto.
  - intros [op [H1 H2]]. exists op. split; [exact H1|]. apply existsb_exists. exists op. split; [exact H2 | apply op_eqb_eq; reflexivity].
Qed.

(* the direct input conflicts are exactly the mempool transactions spending an outpoint the candidate spends *)
Lemma input_conflicts_spec pool cand_ins x :
  In x (input_conflicts pool cand_ins) <-> exists e, In e pool /\ e_id e = x /\ exists op, In op (e_ins e) /\ In op cand_ins.
Proof.
  unfold input_conflicts. rewrite in_map_iff. split.
  - intros [e [E H]]. apply filter_In in H. destruct H as [H1 H2]. apply shares_input_spec in H2. exists e. auto.
  - intros [e [H1 [E H2]]]. exists e. split; [exact E|]. apply filter_In. split; [exact H1 | apply shares_input_spec; exact H2].
Qed.

Lemma input_conflicts_incl pool ci : incl (input_conflicts pool ci) (ids pool).
Proof. intros x H. unfold input_conflicts in H. apply in_map_iff in H. destruct H as [e [E H]]. apply filter_In in H. subst x. apply in_map. exact (proj1 H). Qed.

Lemma map_filter_nodup {A B} (f : A -> B) (g : A -> bool) l : NoDup (map f l) -> NoDup (map f (filter g l)).
Proof.
  induction l as [|a l IH]; intros N; cbn [filter map]; [constructor|].
  cbn [map] in N. inversion N as [|? ? Ha N']; subst. destruct (g a); [|apply IH; exact N'].
  cbn [map]. constructor; [|apply IH; exact N'].
  intros H. apply Ha. apply in_map_iff in H. destruct H as [b [E Hb]]. apply filter_In in Hb. rewrite <- E. apply in_map. exact (proj1 Hb).
Qed.

Lemma input_conflicts_nodup pool ci : NoDup (ids pool) -> NoDup (input_conflicts pool ci).
Proof. intros N. unfold input_conflicts. apply map_filter_nodup. exact N. Qed.

Lemma filter_incl_l {A} (g : A -> bool) l : incl (filter g l) l.
Proof. intros x H. apply filter_In in H. exact (proj1 H). Qed.

Lemma truc_sibling_spec pool ver ci dc s : truc_sibling pool ver ci dc = Some s -> In s (mark_desc pool (dedup (filter (fun t => memn t (ids pool)) (tx_parents ci)))) /\ ~ In s dc.
Proof.
  unfold truc_sibling. destruct (negb (ver =? RBF_TRUC_VERSION)); [discriminate|].
  destruct (dedup _) as [|p [|? ?]] eqn:Ep; try discriminate.
  destruct (filter _ (mark_desc pool [p])) as [|s' [|? ?]] eqn:Ed; try discriminate.
  destruct (memn s' dc) eqn:Em; [discriminate|]. destruct (Nat.eqb _ 2); [|discriminate].
  intros E. inversion E; subst s'. split; [|apply memn_false; exact Em].
  assert (H : In s (filter (fun t => negb (Nat.eqb t p)) (mark_desc pool [p]))) by (rewrite Ed; left; reflexivity).
  apply filter_In in H. exact (proj1 H).
Qed.

Lemma dedup_In x l : In x (dedup l) <-> In x l.
Proof.
  induction l as [|y l IH]; cbn [dedup]; [tauto|]. destruct (memn y l) eqn:E.
  - rewrite IH. split; [intros H; right; exact H|]. intros [H|H]; [subst; apply memn_In; exact E | exact H].
  - cbn [In]. rewrite IH. tauto.
Qed.

Lemma nodup_snoc {A} (l : list A) s : NoDup l -> ~ In s l -> NoDup (l ++ [s]).
Proof.
  induction l as [|a l IH]; intros N H; cbn [app]; [constructor; [intros []|constructor]|].
  inversion N as [|? ? Ha N']; subst. constructor.
  - intros Hin. apply in_app_or in Hin. destruct Hin as [Hin|[Hin|[]]]; [exact (Ha Hin) | subst; apply H; left; reflexivity].
  - apply IH; [exact N' | intros Hin; apply H; right; exact Hin].
Qed.

Lemma direct_conflicts_props pool ver ci : wf_pool pool [] ->
  incl (direct_conflicts pool ver ci) (ids pool) /\ NoDup (direct_conflicts pool ver ci).
Proof.
  intros W. destruct (wf_nodup _ _ W) as [N _]. unfold direct_conflicts.
  destruct (truc_sibling pool ver ci (input_conflicts pool ci)) as [s|] eqn:Es.
  - apply truc_sibling_spec in Es. destruct Es as [Hs Hn]. split.
    + intros x Hx. apply in_app_or in Hx. destruct Hx as [Hx|[Hx|[]]]; [apply input_conflicts_incl in Hx; exact Hx|]. subst x.
      destruct (fold_mark_origin pool _ s Hs) as [H|H]; [|exact H].
      apply (proj1 (dedup_In _ _)) in H. apply filter_In in H. apply memn_In. exact (proj2 H).
    + apply nodup_snoc; [exact (input_conflicts_nodup pool ci N) | exact Hn].
  - split; [apply input_conflicts_incl | apply input_conflicts_nodup; exact N].
Qed.

(* ---------------------------------------------------------------------------------- *)
(* cluster bound *)
Lemma reaches_sound pool r d : In r (ids pool) -> reaches pool r d = true -> same_cluster pool r d.
Proof.
  intros Hr H. unfold reaches in H. apply memn_In in H. unfold same_cluster.
  apply (grow_linked (pool_edges pool) (ids pool) r (length pool) [r]); [|exact H].
  intros y [Hy|[]]. subst y. apply linked_refl. exact Hr.
Qed.

Lemma cluster_reps_sound pool dc : forall reps,
  incl dc (ids pool) -> incl reps (ids pool) ->
  let R := cluster_reps pool dc reps in
  incl R (ids pool) /\ incl reps R /\ (forall d, In d dc -> exists r, In r R /\ same_cluster pool r d).
Proof.
  induction dc as [|d dc IH]; intros reps Hdc Hreps; cbn [cluster_reps].
  - cbv zeta. split; [exact Hreps|]. split; [apply incl_refl | intros d []].
  - assert (Hd : In d (ids pool)) by (apply Hdc; left; reflexivity).
    assert (Hdc' : incl dc (ids pool)) by (intros y Hy; apply Hdc; right; exact Hy).
    destruct (existsb (fun p => reaches pool p d) reps) eqn:E.
    + destruct (IH reps Hdc' Hreps) as [I1 [I2 I3]]. cbv zeta in *. split; [exact I1|]. split; [exact I2|].
      intros y [Hy|Hy]; [|apply I3; exact Hy]. subst y.
      apply existsb_exists in E. destruct E as [r [Hr1 Hr2]]. exists r. split; [apply I2; exact Hr1|].
      apply reaches_sound; [apply Hreps; exact Hr1 | exact Hr2].
    + assert (Hreps' : incl (d :: reps) (ids pool)) by (intros y [Hy|Hy]; [subst; exact Hd | apply Hreps; exact Hy]).
      destruct (IH (d :: reps) Hdc' Hreps') as [I1 [I2 I3]]. cbv zeta in *. split; [exact I1|].
      split; [intros y Hy; apply I2; right; exact Hy|].
      intros y [Hy|Hy]; [|apply I3; exact Hy]. subst y. exists d. split; [apply I2; left; reflexivity|].
      unfold same_cluster. apply linked_refl. exact Hd.
Qed.

(* ---------------------------------------------------------------------------------- *)
Lemma within_b_sound c : forall af asz, within_b c af asz = true -> within c af asz.
Proof.
  induction c as [|[f s] r IH]; intros af asz H; cbn [within_b within] in *; [exact I|].
  rewrite !andb_true_iff in H. destruct H as [[[[[H1 H2] H3] H4] H5] H6].
  split; [lia|]. split; [unfold pt_ok; lia | apply IH; exact H6].
Qed.

Lemma wf_pool_b_sound pool : forall earlier, wf_pool_b pool earlier = true -> wf_pool pool earlier.
Proof.
  induction pool as [|e r IH]; intros earlier H; cbn [wf_pool_b wf_pool] in *; [exact I|].
  rewrite !andb_true_iff in H. destruct H as [[H1 H2] H3]. split; [apply memn_false; apply negb_true_iff; exact H1|].
  split; [|apply IH; exact H3]. intros t Ht. rewrite forallb_forall in H2. apply memn_In. apply H2. exact Ht.
Qed.

Lemma same_set_spec a b : same_set a b = true <-> (forall x, In x a <-> In x b).
Proof.
  unfold same_set, subset_b. rewrite andb_true_iff, !forallb_forall. split.
  - intros [H1 H2] x. split; intros H; apply memn_In; [apply H1 | apply H2]; exact H.
  - intros H. split; intros x Hx; apply memn_In; apply H; exact Hx.
Qed.

(* ---------------------------------------------------------------------------------- *)
(* the check on an accepted replacement implies the property's clauses *)
Theorem rbf_accept_ok_sound pool cand_ids cand_fee cand_vsize cand_ver cand_ins repl after diag_before diag_after :
  rbf_accept_ok pool cand_ids cand_fee cand_vsize cand_ver cand_ins repl after diag_before diag_after = true ->
  let dc := direct_conflicts pool cand_ver cand_ins in
  exists ev,
    NoDup ev /\
    (* the evicted set is exactly the direct conflicts (incl. a TRUC sibling) and all their descendants *)
    (forall x, In x ev <-> exists d, In d dc /\ desc pool d x) /\
    (forall x, In x repl <-> In x ev) /\
    (forall x, In x after <-> In x cand_ids \/ (In x (ids pool) /\ ~ In x ev)) /\
    (dc <> [] ->
       (* pays at least the modified fees of everything evicted, plus the incremental relay fee for its own size *)
       fees_of pool ev <= cand_fee /\
       RBF_INCREMENTAL_RELAY_FEE * cand_vsize <= (cand_fee - fees_of pool ev) * 1000 /\
       (* spends no output of anything it evicts *)
       (forall t, In t (tx_parents cand_ins) -> ~ In t ev) /\
       (* the direct conflicts lie in at most MAX_REPLACEMENT_CANDIDATES clusters *)
       (exists reps, Z.of_nat (length reps) <= RBF_MAX_REPLACEMENT_CANDIDATES /\
                     forall d, In d dc -> exists r, In r reps /\ same_cluster pool r d) /\
       (* the mempool's feerate diagram strictly improves *)
       diagram_order diag_after diag_before PGreater).
Proof.
  intros H dc. unfold rbf_accept_ok in H. fold dc in H.
  rewrite !andb_true_iff in H. destruct H as [[[[[Hwf Hnew] Hpar] Hrepl] Hafter] Hrest].
  apply wf_pool_b_sound in Hwf. destruct (direct_conflicts_props pool cand_ver cand_ins Hwf) as [Dincl Dnd]. fold dc in Dincl, Dnd.
  exists (mark_desc pool dc).
  split; [apply mark_desc_nodup; exact Dnd|].
  split; [apply mark_desc_iff; assumption|].
  split; [apply same_set_spec; exact Hrepl|].
  split.
  - intros x. rewrite (proj1 (same_set_spec _ _) Hafter x). rewrite in_app_iff, filter_In, negb_true_iff, memn_false. reflexivity.
  - intros Hne. destruct dc as [|d0 dc'] eqn:Edc; [contradiction|]. rewrite <- Edc in *.
    rewrite !andb_true_iff in Hrest.
    destruct Hrest as [[[[[[[[[[Hf1 Hf2] Hf3] Hv1] Hv2] Hpays] Hsp] Hcl] Wb] Wa] Hcmp].
    assert (If1 : is_i64 cand_fee) by (unfold in_i64 in Hf1; unfold is_i64; lia).
    assert (If2 : is_i64 (fees_of pool (mark_desc pool dc))) by (unfold in_i64 in Hf2; unfold is_i64; lia).
    assert (Hv : 0 <= cand_vsize <= INT32_MAX) by lia.
    (* first clause of PaysForRBF gives replacement >= original, so the difference is in range *)
    assert (Hge : fees_of pool (mark_desc pool dc) <= cand_fee).
    { unfold pays_for_rbf in Hpays. destruct (cand_fee <? fees_of pool (mark_desc pool dc)) eqn:E; [discriminate | lia]. }
    assert (Id : is_i64 (cand_fee - fees_of pool (mark_desc pool dc))) by (unfold in_i64 in Hf3; unfold is_i64; lia).
    apply (pays_for_rbf_iff _ _ _ If2 If1 Id Hv) in Hpays. destruct Hpays as [P1 P2].
    split; [exact P1|]. split; [exact P2|]. split.
    + intros t Ht. rewrite forallb_forall in Hsp. specialize (Hsp t Ht). apply memn_false. apply negb_true_iff. exact Hsp.
    + split.
      * exists (cluster_reps pool dc []). split; [lia|].
        destruct (cluster_reps_sound pool dc [] Dincl (fun y (F : In y []) => match F with end)) as [_ [_ S]]. exact S.
      * apply within_b_sound in Wb. apply within_b_sound in Wa.
        destruct (compare_chunks_spec diag_after diag_before Wa Wb) as [r [Er Dr]]. rewrite Er in Hcmp.
        destruct r; try discriminate. exact Dr.
Qed.
