(* Proofs about model/Codec.v, part 2: ConvertBits, base64, base32. *)
From Coq Require Import NArith.
From BV Require Import lib.Ints gen.Params_gen model.SerBase model.Codec proofs.SerBaseLemmas proofs.CodecLemmas.
Local Open Scope Z_scope.

(* value of a most-significant-first list of w-bit digits *)
Fixpoint dval (w : Z) (l : list Z) : Z :=
  match l with [] => 0 | d :: r => d * 2 ^ (w * Z.of_nat (length r)) + dval w r end.
Definition digits_ok (w : Z) (l : list Z) : Prop := Forall (fun d => 0 <= d < 2 ^ w) l.

Lemma pow2_pos k : 0 <= k -> 0 < 2 ^ k.
Proof. intros. apply Z.pow_pos_nonneg; lia. Qed.

Lemma dval_bound w l : 0 <= w -> digits_ok w l -> 0 <= dval w l < 2 ^ (w * Z.of_nat (length l)).
Proof.
  intros Hw H. induction H as [|d r Hd Hr IH].
  - cbn. lia.
  - cbn [dval length]. replace (w * Z.of_nat (S (length r))) with (w + w * Z.of_nat (length r)) by lia.
    rewrite Z.pow_add_r by lia.
    pose proof (pow2_pos (w * Z.of_nat (length r)) ltac:(lia)). nia.
Qed.

Lemma dval_app w a b : 0 <= w ->
  dval w (a ++ b) = dval w a * 2 ^ (w * Z.of_nat (length b)) + dval w b.
Proof.
  intros Hw. induction a as [|d a IH]; [cbn; lia|].
  cbn [app dval length]. rewrite IH, app_length.
  replace (w * Z.of_nat (length a + length b)) with (w * Z.of_nat (length a) + w * Z.of_nat (length b)) by lia.
  rewrite Z.pow_add_r by lia. ring.
Qed.

Lemma dval_inj w : 0 <= w -> forall a b, digits_ok w a -> digits_ok w b -> length a = length b ->
  dval w a = dval w b -> a = b.
Proof.
  intros Hw a. induction a as [|x a IH]; intros [|y b] Ha Hb L E; try reflexivity; try discriminate.
  inversion Ha as [|? ? Hx Ha']; subst. inversion Hb as [|? ? Hy Hb']; subst.
  cbn [dval length] in E. injection L as L. rewrite L in E.
  pose proof (dval_bound w a Hw Ha') as Ba. pose proof (dval_bound w b Hw Hb') as Bb. rewrite L in Ba.
  set (K := 2 ^ (w * Z.of_nat (length b))) in *.
  assert (x = y) by nia. subst y. f_equal. apply IH; auto. lia.
Qed.

Lemma land_mask x k : 0 <= k -> Z.land x (2 ^ k - 1) = x mod 2 ^ k.
Proof. intros. rewrite <- Z.land_ones by lia. rewrite Z.ones_equiv. reflexivity. Qed.

Lemma mod_pow_split x a b : 0 <= a -> 0 <= b ->
  x mod 2 ^ (a + b) = (x / 2 ^ a) mod 2 ^ b * 2 ^ a + x mod 2 ^ a.
Proof.
  intros. rewrite Z.pow_add_r by lia.
  rewrite Z.rem_mul_r by (try apply Z.pow_nonzero; try apply pow2_pos; lia). ring.
Qed.

Lemma mod_mod_pow x a b : 0 <= b <= a -> (x mod 2 ^ a) mod 2 ^ b = x mod 2 ^ b.
Proof.
  intros. replace a with (b + (a - b)) by lia. rewrite mod_pow_split by lia.
  pose proof (pow2_pos b ltac:(lia)).
  rewrite Z.add_comm, Z.mod_add by lia. apply Z.mod_mod. lia.
Qed.

(* the inner while loop *)
Lemma cb_emit_spec to acc : 0 < to -> 0 <= acc -> forall k bits, 0 <= bits -> Z.of_nat k = bits / to ->
  forall b l, cb_emit k to acc bits = (b, l) ->
  b = bits mod to /\ length l = k /\ digits_ok to l /\
  acc mod 2 ^ bits = dval to l * 2 ^ b + acc mod 2 ^ b.
Proof.
  intros Hto Hacc. induction k as [|k IH]; intros bits Hb Hk b l H.
  - cbn [cb_emit] in H. inversion H; subst b l.
    assert (Hlt : bits < to).
    { destruct (Z_lt_le_dec bits to) as [Hlt|Hle]; [exact Hlt|].
      assert (1 <= bits / to) by (apply Z.div_le_lower_bound; lia). lia. }
    rewrite Z.mod_small by lia. repeat split; try constructor; cbn [dval]; lia.
  - cbn [cb_emit] in H.
    assert (Hge' : to <= bits).
    { destruct (Z_lt_le_dec bits to) as [Hlt|Hle]; [|exact Hle]. rewrite Z.div_small in Hk by lia. lia. }
    assert (Hge : (bits >=? to) = true) by lia. rewrite Hge in H.
    destruct (cb_emit k to acc (bits - to)) as [b0 l0] eqn:E.
    inversion H; subst b l. clear H.
    assert (Hk' : Z.of_nat k = (bits - to) / to).
    { replace (bits - to) with (bits + (-1) * to) by lia. rewrite Z.div_add by lia. lia. }
    destruct (IH (bits - to) ltac:(lia) Hk' b0 l0 E) as [B [L [D V]]].
    split; [|split; [|split]].
    + rewrite B. replace (bits - to) with (bits + (-1) * to) by lia. apply Z.mod_add. lia.
    + cbn [length]. lia.
    + constructor; [|exact D]. rewrite land_mask by lia. apply Z.mod_pos_bound. apply pow2_pos. lia.
    + cbn [dval]. rewrite land_mask by lia. rewrite Z.shiftr_div_pow2 by lia.
      replace bits with ((bits - to) + to) at 1 by lia. rewrite mod_pow_split by lia. rewrite V.
      rewrite L.
      assert (Ebits : bits - to = to * Z.of_nat k + b0) by lia.
      assert (Hb0 : 0 <= b0) by lia.
      rewrite Ebits at 2. rewrite Z.pow_add_r by lia. ring.
Qed.

(* absorbing one input value *)
Lemma absorb_pending acc bits from v : 0 <= acc -> 0 <= bits -> 0 < from -> 0 <= v < 2 ^ from ->
  (acc * 2 ^ from + v) mod 2 ^ (bits + from) = (acc mod 2 ^ bits) * 2 ^ from + v.
Proof.
  intros. rewrite (Z.add_comm bits from). rewrite mod_pow_split by lia.
  pose proof (pow2_pos from ltac:(lia)).
  assert (E1 : (acc * 2 ^ from + v) / 2 ^ from = acc) by (symmetry; apply Z.div_unique with (r := v); lia).
  assert (E2 : (acc * 2 ^ from + v) mod 2 ^ from = v) by (symmetry; apply Z.mod_unique with (q := acc); lia).
  rewrite E1, E2. reflexivity.
Qed.

(* the outer loop: the pending bits followed by the input bits are what is emitted plus what stays pending *)
Lemma cb_loop_spec from to : 0 < from -> 0 < to -> forall inp acc bits,
  digits_ok from inp -> 0 <= acc -> 0 <= bits < to ->
  exists acc' bits' outs, cb_loop from to acc bits inp = Some (acc', bits', outs) /\
    0 <= acc' /\ 0 <= bits' < to /\ digits_ok to outs /\
    bits + from * Z.of_nat (length inp) = to * Z.of_nat (length outs) + bits' /\
    (acc mod 2 ^ bits) * 2 ^ (from * Z.of_nat (length inp)) + dval from inp =
      dval to outs * 2 ^ bits' + acc' mod 2 ^ bits'.
Proof.
  intros Hfrom Hto. induction inp as [|v r IH]; intros acc bits Hd Hacc Hbits.
  - exists acc, bits, []. cbn [cb_loop length dval]. change (Z.of_nat 0) with 0. rewrite !Z.mul_0_r.
    change (2 ^ 0) with 1. repeat split; try constructor; lia.
  - inversion Hd as [|? ? Hv Hr]; subst. cbn [cb_loop].
    assert (Ev : (v <? 0) = false) by lia. rewrite Ev.
    set (acc1 := Z.land (Z.lor (Z.shiftl acc from) v) (2 ^ (from + to - 1) - 1)).
    set (bits1 := bits + from).
    assert (Hacc1 : acc1 = (acc * 2 ^ from + v) mod 2 ^ (from + to - 1)).
    { unfold acc1. rewrite land_mask by lia. rewrite lor_shiftl_small by lia. reflexivity. }
    assert (Hacc1_nn : 0 <= acc1) by (rewrite Hacc1; apply Z.mod_pos_bound; apply pow2_pos; lia).
    assert (Pend : acc1 mod 2 ^ bits1 = (acc mod 2 ^ bits) * 2 ^ from + v).
    { rewrite Hacc1. unfold bits1. rewrite mod_mod_pow by lia. apply absorb_pending; lia. }
    destruct (cb_emit (Z.to_nat (bits1 / to)) to acc1 bits1) as [bits2 outs1] eqn:EM.
    assert (Hk : Z.of_nat (Z.to_nat (bits1 / to)) = bits1 / to).
    { apply Z2Nat.id. apply Z.div_pos; unfold bits1; lia. }
    destruct (cb_emit_spec to acc1 Hto Hacc1_nn _ bits1 ltac:(unfold bits1; lia) Hk bits2 outs1 EM) as [B2 [L1 [D1 V1]]].
    assert (Hbits2 : 0 <= bits2 < to) by (rewrite B2; apply Z.mod_pos_bound; lia).
    destruct (IH acc1 bits2 Hr Hacc1_nn Hbits2) as [acc' [bits' [outs [E [A' [Bb [D [LEN V]]]]]]]].
    rewrite E. exists acc', bits', (outs1 ++ outs).
    split; [reflexivity|]. split; [exact A'|]. split; [exact Bb|].
    split; [apply Forall_app; split; assumption|].
    assert (Hb1 : bits1 = to * Z.of_nat (length outs1) + bits2).
    { rewrite L1, Hk, B2. apply Z.div_mod. clear -Hto. lia. }
    split.
    + rewrite app_length. cbn [length]. unfold bits1 in Hb1.
      rewrite Nat2Z.inj_succ, Nat2Z.inj_add, Z.mul_succ_r, Z.mul_add_distr_l. clear -LEN Hb1. lia.
    + cbn [dval length]. rewrite dval_app by (clear -Hto; lia).
      assert (N1 : 0 <= from * Z.of_nat (length r)) by (clear -Hfrom; nia).
      assert (N2 : 0 <= to * Z.of_nat (length outs)) by (clear -Hto; nia).
      assert (N3 : 0 <= bits' /\ 0 <= bits2) by (clear -Bb Hbits2; lia).
      replace (from * Z.of_nat (S (length r))) with (from + from * Z.of_nat (length r)) by (clear; lia).
      rewrite Z.pow_add_r by (clear -Hfrom N1; lia).
      (* the pending value after absorbing v *)
      rewrite Pend in V1.
      assert (Epow : 2 ^ (to * Z.of_nat (length outs)) * 2 ^ bits' = 2 ^ bits2 * 2 ^ (from * Z.of_nat (length r))).
      { rewrite <- !Z.pow_add_r by (clear -N1 N2 N3; lia). f_equal. clear -LEN. lia. }
      clearbody acc1 bits1.
      set (R := 2 ^ (from * Z.of_nat (length r))) in *.
      set (p := acc mod 2 ^ bits) in *.
      transitivity ((p * 2 ^ from + v) * R + dval from r); [ring|].
      rewrite V1.
      transitivity (dval to outs1 * (2 ^ bits2 * R) + (acc1 mod 2 ^ bits2 * R + dval from r)); [ring|].
      rewrite V, <- Epow. ring.
Qed.

(* a negative value anywhere makes the whole conversion fail *)
Lemma cb_loop_negative from to : forall inp acc bits, (exists v, In v inp /\ v < 0) ->
  cb_loop from to acc bits inp = None.
Proof.
  induction inp as [|x r IH]; intros acc bits [v [Hin Hv]]; [destruct Hin|].
  cbn [cb_loop]. destruct (x <? 0) eqn:E; [reflexivity|].
  destruct Hin as [->|Hin]; [lia|].
  destruct (cb_emit _ _ _ _) as [b2 o]. rewrite IH by (exists v; auto). reflexivity.
Qed.

Lemma divmod_unique m q1 r1 q2 r2 : 0 <= r1 < m -> 0 <= r2 < m -> m * q1 + r1 = m * q2 + r2 ->
  q1 = q2 /\ r1 = r2.
Proof.
  intros H1 H2 E.
  assert (Q : q1 = q2).
  { rewrite (Z.div_unique (m * q1 + r1) m q1 r1) by lia. rewrite (Z.div_unique (m * q1 + r1) m q2 r2) at 1 by lia. reflexivity. }
  subst. split; [reflexivity | lia].
Qed.

Lemma shl_mask acc b to : 0 <= acc -> 0 <= b <= to ->
  Z.land (Z.shiftl acc (to - b)) (2 ^ to - 1) = (acc mod 2 ^ b) * 2 ^ (to - b).
Proof.
  intros Ha Hb. rewrite land_mask by lia. rewrite Z.shiftl_mul_pow2 by lia.
  replace to with (b + (to - b)) at 2 by lia. rewrite Z.pow_add_r by lia.
  pose proof (pow2_pos b ltac:(lia)). pose proof (pow2_pos (to - b) ltac:(lia)).
  rewrite Z.mul_mod_distr_r by lia. reflexivity.
Qed.

(* ENCODER (pad = true): the output digits spell the input value shifted left by the padding *)
Lemma convert_bits_pad_spec from to inp : 0 < from -> 0 < to -> digits_ok from inp ->
  exists outs pad, convert_bits from to true inp = Some outs /\ digits_ok to outs /\
    0 <= pad < to /\ to * Z.of_nat (length outs) = from * Z.of_nat (length inp) + pad /\
    dval to outs = dval from inp * 2 ^ pad.
Proof.
  intros Hfrom Hto Hd.
  destruct (cb_loop_spec from to Hfrom Hto inp 0 0 Hd ltac:(lia) ltac:(lia)) as [acc' [bits' [outs [E [A' [Bb [D [LEN V]]]]]]]].
  unfold convert_bits. rewrite E.
  change (0 mod 2 ^ 0) with 0 in V. rewrite Z.mul_0_l, Z.add_0_l in V.
  destruct (bits' =? 0) eqn:B0.
  - assert (bits' = 0) by lia. subst bits'. exists outs, 0. split; [reflexivity|]. split; [exact D|].
    change (2 ^ 0) with 1 in *. rewrite Z.mod_1_r in V. repeat split; lia.
  - exists (outs ++ [Z.land (Z.shiftl acc' (to - bits')) (2 ^ to - 1)]), (to - bits').
    split; [reflexivity|].
    rewrite shl_mask by lia.
    pose proof (pow2_pos bits' ltac:(lia)) as P1. pose proof (pow2_pos (to - bits') ltac:(lia)) as P2.
    pose proof (Z.mod_pos_bound acc' (2 ^ bits') P1) as Hm.
    assert (Eto : 2 ^ to = 2 ^ bits' * 2 ^ (to - bits')) by (rewrite <- Z.pow_add_r by lia; f_equal; lia).
    split; [|split; [lia|split]].
    + apply Forall_app. split; [exact D|]. constructor; [|constructor]. rewrite Eto. nia.
    + rewrite app_length. cbn [length]. rewrite Nat2Z.inj_add, Z.mul_add_distr_l. change (Z.of_nat 1) with 1. lia.
    + rewrite dval_app by lia. cbn [dval length]. change (Z.of_nat 0) with 0. change (Z.of_nat 1) with 1.
      rewrite !Z.mul_0_r, Z.mul_1_r. change (2 ^ 0) with 1. rewrite V, Eto. ring.
Qed.

(* DECODER (pad = false) on the output of the encoder gives the input back *)
Lemma convert_bits_roundtrip from to inp : 0 < to <= from -> digits_ok from inp ->
  exists outs, convert_bits from to true inp = Some outs /\ digits_ok to outs /\
               convert_bits to from false outs = Some inp.
Proof.
  intros [Hto Hle] Hd. assert (Hfrom : 0 < from) by lia.
  destruct (convert_bits_pad_spec from to inp Hfrom Hto Hd) as [outs [pad [E [D [Hpad [LEN V]]]]]].
  exists outs. split; [exact E|]. split; [exact D|].
  destruct (cb_loop_spec to from Hto Hfrom outs 0 0 D ltac:(lia) ltac:(lia)) as [acc' [b2 [X [E2 [A' [Bb [DX [LEN2 V2]]]]]]]].
  unfold convert_bits. rewrite E2.
  change (0 mod 2 ^ 0) with 0 in V2. rewrite Z.mul_0_l, Z.add_0_l in V2.
  (* to*|outs| = from*|inp| + pad = from*|X| + b2 with pad, b2 < from: same quotient and remainder *)
  assert (Elen : Z.of_nat (length X) = Z.of_nat (length inp) /\ b2 = pad).
  { apply (divmod_unique from); lia. }
  destruct Elen as [EL EB]. subst b2.
  pose proof (pow2_pos pad ltac:(lia)) as P1.
  pose proof (Z.mod_pos_bound acc' (2 ^ pad) P1) as Hm.
  assert (EV : dval from X = dval from inp /\ acc' mod 2 ^ pad = 0).
  { rewrite V in V2.
    destruct (divmod_unique (2 ^ pad) (dval from inp) 0 (dval from X) (acc' mod 2 ^ pad)) as [Q1 Q2]; try lia. }
  destruct EV as [EV EP].
  assert (X = inp).
  { apply (dval_inj from ltac:(lia)); auto. lia. }
  subst X.
  assert (C1 : (pad >=? to) = false) by lia. rewrite C1.
  rewrite shl_mask by lia. rewrite EP, Z.mul_0_l. reflexivity.
Qed.

(* CANONICAL: whatever the strict decoder accepts is what the encoder produces from the result *)
Lemma convert_bits_canonical from to outs X : 0 < to <= from -> digits_ok to outs ->
  convert_bits to from false outs = Some X ->
  digits_ok from X /\ convert_bits from to true X = Some outs.
Proof.
  intros [Hto Hle] D H. assert (Hfrom : 0 < from) by lia.
  destruct (cb_loop_spec to from Hto Hfrom outs 0 0 D ltac:(lia) ltac:(lia)) as [acc' [b2 [X' [E2 [A' [Bb [DX [LEN2 V2]]]]]]]].
  unfold convert_bits in H. rewrite E2 in H.
  change (0 mod 2 ^ 0) with 0 in V2. rewrite Z.mul_0_l, Z.add_0_l in V2.
  destruct (b2 >=? to) eqn:C1; [discriminate|]. cbn [orb] in H.
  destruct (Z.land (Z.shiftl acc' (from - b2)) (2 ^ from - 1) =? 0) eqn:C2; [|discriminate].
  cbn [negb] in H. inversion H; subst X'. clear H.
  rewrite shl_mask in C2 by lia.
  pose proof (pow2_pos b2 ltac:(lia)) as P1. pose proof (pow2_pos (from - b2) ltac:(lia)) as P2.
  assert (EP : acc' mod 2 ^ b2 = 0).
  { apply Z.eqb_eq in C2. apply Z.mul_eq_0 in C2. destruct C2 as [C2|C2]; [exact C2|lia]. }
  rewrite EP, Z.add_0_r in V2.
  split; [exact DX|].
  destruct (convert_bits_pad_spec from to X Hfrom Hto DX) as [outs' [pad [E [D' [Hpad [LEN V]]]]]].
  rewrite E. f_equal.
  assert (Elen : Z.of_nat (length outs') = Z.of_nat (length outs) /\ b2 = pad).
  { apply (divmod_unique to); lia. }
  destruct Elen as [EL EB]. subst pad.
  apply (dval_inj to ltac:(lia)); auto; [lia|]. rewrite V, V2. reflexivity.
Qed.

(* ------------------------------------------------------------------------------------------ *)
(* characters and padding *)

Lemma bytes_digits_ok l : bytes_ok l -> digits_ok 8 (bytes_to_Z l).
Proof.
  unfold bytes_ok, digits_ok, bytes_to_Z. intros H. apply Forall_map.
  eapply Forall_impl; [|exact H]. cbv beta. intros a Ha. change (2 ^ 8) with 256. lia.
Qed.

Lemma Z_to_bytes_to_Z l : Z_to_bytes (bytes_to_Z l) = l.
Proof.
  unfold Z_to_bytes, bytes_to_Z. rewrite map_map. rewrite <- (map_id l) at 2.
  apply map_ext. intros a. apply N2Z.id.
Qed.

Lemma bytes_to_Z_to_bytes l : digits_ok 8 l -> bytes_to_Z (Z_to_bytes l) = l.
Proof.
  unfold Z_to_bytes, bytes_to_Z, digits_ok. intros H. rewrite map_map. rewrite <- (map_id l) at 2.
  apply map_ext_in. intros a Ha. rewrite Forall_forall in H. specialize (H a Ha). apply Z2N.id. lia.
Qed.

Definition all_digits (n : nat) : list Z := map Z.of_nat (seq 0 n).
Lemma all_digits_complete n v : 0 <= v < Z.of_nat n -> In v (all_digits n).
Proof. intros. unfold all_digits. apply in_map_iff. exists (Z.to_nat v). split; [lia|]. apply in_seq. lia. Qed.

(* the base64 alphabet and table are inverse on 0..63, no alphabet character is '=' *)
Lemma b64_digit_facts v : 0 <= v < 64 -> b64_value (b64_char v) = v /\ b64_char v <> 61%N.
Proof.
  intros H.
  assert (F : forallb (fun v => (b64_value (b64_char v) =? v) && negb (b64_char v =? 61)%N) (all_digits 64) = true)
    by (vm_compute; reflexivity).
  rewrite forallb_forall in F. specialize (F v (all_digits_complete 64 v H)).
  apply andb_prop in F. destruct F as [F1 F2]. apply Z.eqb_eq in F1. apply negb_true_iff in F2. apply N.eqb_neq in F2.
  split; assumption.
Qed.
Lemma b32_digit_facts v : 0 <= v < 32 -> b32_value (b32_char v) = v /\ b32_char v <> 61%N.
Proof.
  intros H.
  assert (F : forallb (fun v => (b32_value (b32_char v) =? v) && negb (b32_char v =? 61)%N) (all_digits 32) = true)
    by (vm_compute; reflexivity).
  rewrite forallb_forall in F. specialize (F v (all_digits_complete 32 v H)).
  apply andb_prop in F. destruct F as [F1 F2]. apply Z.eqb_eq in F1. apply negb_true_iff in F2. apply N.eqb_neq in F2.
  split; assumption.
Qed.

Definition no_eq (l : list N) : Prop := Forall (fun c => c <> 61%N) l.

Lemma repeat_snoc {A} (x : A) n : repeat x (S n) = repeat x n ++ [x].
Proof. induction n as [|n IH]; [reflexivity|]. cbn [repeat app] in *. rewrite <- IH. reflexivity. Qed.

Lemma strip_one_eq_snoc l : strip_one_eq (l ++ [61%N]) = l.
Proof. unfold strip_one_eq. rewrite rev_app_distr. cbn [rev app]. rewrite N.eqb_refl. apply rev_involutive. Qed.

Lemma strip_one_eq_clean l : no_eq l -> strip_one_eq l = l.
Proof.
  intros H. unfold strip_one_eq. destruct (rev l) as [|c r] eqn:E; [reflexivity|].
  assert (Hin : In c l) by (apply in_rev; rewrite E; left; reflexivity).
  unfold no_eq in H. rewrite Forall_forall in H. specialize (H c Hin).
  apply N.eqb_neq in H. rewrite H. reflexivity.
Qed.

Lemma strip_two_eq_snoc l : strip_two_eq (l ++ [61%N; 61%N]) = l.
Proof. unfold strip_two_eq. rewrite rev_app_distr. cbn [rev app]. rewrite N.eqb_refl. cbn [andb]. apply rev_involutive. Qed.

Lemma strip_two_eq_clean l : no_eq l -> strip_two_eq l = l.
Proof.
  intros H. unfold strip_two_eq. destruct (rev l) as [|c r] eqn:E; [reflexivity|]. destruct r as [|c2 r]; [reflexivity|].
  assert (Hin : In c l) by (apply in_rev; rewrite E; left; reflexivity).
  unfold no_eq in H. rewrite Forall_forall in H. specialize (H c Hin).
  apply N.eqb_neq in H. rewrite H. reflexivity.
Qed.

Lemma strip_two_eq_one l : no_eq l -> strip_two_eq (l ++ [61%N]) = l ++ [61%N].
Proof.
  intros H. unfold strip_two_eq. rewrite rev_app_distr. cbn [rev app].
  destruct (rev l) as [|c2 r] eqn:E; [reflexivity|].
  assert (Hin : In c2 l) by (apply in_rev; rewrite E; left; reflexivity).
  unfold no_eq in H. rewrite Forall_forall in H. specialize (H c2 Hin).
  apply N.eqb_neq in H. rewrite H, andb_false_r. reflexivity.
Qed.

Lemma pad_to_length m l : (0 < m)%nat -> (length (pad_to m l) mod m = 0)%nat.
Proof.
  intros Hm. unfold pad_to. rewrite app_length, repeat_length.
  pose proof (Nat.mod_upper_bound (length l) m ltac:(lia)) as B.
  pose proof (Nat.div_mod (length l) m ltac:(lia)) as DM.
  destruct (Nat.eq_dec (length l mod m) 0) as [E|E].
  - rewrite E, Nat.sub_0_r, Nat.mod_same, Nat.add_0_r by lia. exact E.
  - rewrite (Nat.mod_small (m - length l mod m) m) by lia.
    replace (length l + (m - length l mod m))%nat with (length l mod m + (m - length l mod m) + length l / m * m)%nat by lia.
    rewrite Nat.mod_add by lia. replace (length l mod m + (m - length l mod m))%nat with m by lia. apply Nat.mod_same. lia.
Qed.

Lemma map_value_char_64 vs : digits_ok 6 vs -> map b64_value (map b64_char vs) = vs /\ no_eq (map b64_char vs).
Proof.
  unfold digits_ok, no_eq. induction 1 as [|v r Hv Hr [IH1 IH2]]; [split; [reflexivity|constructor]|].
  change (2 ^ 6) with 64 in Hv. destruct (b64_digit_facts v Hv) as [F1 F2].
  cbn [map]. rewrite F1, IH1. split; [reflexivity|constructor; assumption].
Qed.
Lemma map_value_char_32 vs : digits_ok 5 vs -> map b32_value (map b32_char vs) = vs /\ no_eq (map b32_char vs).
Proof.
  unfold digits_ok, no_eq. induction 1 as [|v r Hv Hr [IH1 IH2]]; [split; [reflexivity|constructor]|].
  change (2 ^ 5) with 32 in Hv. destruct (b32_digit_facts v Hv) as [F1 F2].
  cbn [map]. rewrite F1, IH1. split; [reflexivity|constructor; assumption].
Qed.

(* BASE64 ROUND TRIP *)
Lemma base64_roundtrip input : bytes_ok input ->
  exists s, encode_base64 input = Some s /\ decode_base64 s = Some input.
Proof.
  intros Hb. pose proof (bytes_digits_ok input Hb) as D8.
  destruct (convert_bits_pad_spec 8 6 (bytes_to_Z input) ltac:(lia) ltac:(lia) D8) as [vs [pad [E [D6 [Hpad [LEN V]]]]]].
  destruct (convert_bits_roundtrip 8 6 (bytes_to_Z input) ltac:(lia) D8) as [vs' [E' [_ R]]].
  rewrite E in E'. inversion E'; subst vs'. clear E'.
  unfold encode_base64. rewrite E. eexists. split; [reflexivity|].
  destruct (map_value_char_64 vs D6) as [MV NE].
  set (chars := map b64_char vs) in *.
  unfold decode_base64. rewrite pad_to_length by lia. cbn [Nat.eqb negb].
  (* the number of '=' is 0, 1 or 2 *)
  assert (Lc : length chars = length vs) by (unfold chars; apply map_length).
  unfold bytes_to_Z in LEN. rewrite map_length in LEN.
  assert (K : ((4 - length chars mod 4) mod 4 = 0 \/ (4 - length chars mod 4) mod 4 = 1 \/ (4 - length chars mod 4) mod 4 = 2)%nat).
  { rewrite Lc. clear -LEN Hpad. 
    assert (M : (length vs mod 4 <> 1)%nat).
    { intros M. pose proof (Nat.div_mod (length vs) 4 ltac:(lia)) as DM. rewrite M in DM. lia. }
    pose proof (Nat.mod_upper_bound (length vs) 4 ltac:(lia)) as B.
    destruct (length vs mod 4)%nat as [|[|[|[|k]]]]; try lia; cbn; lia. }
  unfold pad_to.
  assert (S2 : strip_one_eq (strip_one_eq (chars ++ repeat 61%N ((4 - length chars mod 4) mod 4))) = chars).
  { destruct K as [K|[K|K]]; rewrite K.
    - cbn [repeat]. rewrite app_nil_r. rewrite (strip_one_eq_clean chars NE), (strip_one_eq_clean chars NE). reflexivity.
    - cbn [repeat]. rewrite strip_one_eq_snoc. apply strip_one_eq_clean. exact NE.
    - change (repeat 61%N 2) with ([61%N] ++ [61%N]). rewrite app_assoc. rewrite !strip_one_eq_snoc. reflexivity. }
  rewrite S2, MV, R. rewrite Z_to_bytes_to_Z. reflexivity.
Qed.

(* BASE32 ROUND TRIP (padded form) *)
Lemma base32_roundtrip input : bytes_ok input ->
  exists s, encode_base32 true input = Some s /\ decode_base32 s = Some input.
Proof.
  intros Hb. pose proof (bytes_digits_ok input Hb) as D8.
  destruct (convert_bits_pad_spec 8 5 (bytes_to_Z input) ltac:(lia) ltac:(lia) D8) as [vs [pad [E [D5 [Hpad [LEN V]]]]]].
  destruct (convert_bits_roundtrip 8 5 (bytes_to_Z input) ltac:(lia) D8) as [vs' [E' [_ R]]].
  rewrite E in E'. inversion E'; subst vs'. clear E'.
  unfold encode_base32. rewrite E. eexists. split; [reflexivity|].
  destruct (map_value_char_32 vs D5) as [MV NE].
  set (chars := map b32_char vs) in *.
  unfold decode_base32. rewrite pad_to_length by lia. cbn [Nat.eqb negb].
  assert (Lc : length chars = length vs) by (unfold chars; apply map_length).
  unfold bytes_to_Z in LEN. rewrite map_length in LEN.
  set (k := ((8 - length chars mod 8) mod 8)%nat).
  assert (K : (k = 0 \/ k = 1 \/ k = 3 \/ k = 4 \/ k = 6)%nat).
  { unfold k. rewrite Lc. clear -LEN Hpad.
    pose proof (Nat.div_mod (length vs) 8 ltac:(lia)) as DM.
    pose proof (Nat.mod_upper_bound (length vs) 8 ltac:(lia)) as B.
    destruct (length vs mod 8)%nat as [|[|[|[|[|[|[|[|j]]]]]]]] eqn:M; try lia; cbn; lia. }
  unfold pad_to. fold k.
  assert (S4 : strip_two_eq (strip_one_eq (strip_two_eq (strip_one_eq (chars ++ repeat 61%N k)))) = chars).
  { destruct K as [K|[K|[K|[K|K]]]]; rewrite K.
    - cbn [repeat]. rewrite app_nil_r.
      rewrite (strip_one_eq_clean chars NE), (strip_two_eq_clean chars NE), (strip_one_eq_clean chars NE), (strip_two_eq_clean chars NE). reflexivity.
    - cbn [repeat]. rewrite strip_one_eq_snoc.
      rewrite (strip_two_eq_clean chars NE), (strip_one_eq_clean chars NE), (strip_two_eq_clean chars NE). reflexivity.
    - change (repeat 61%N 3) with ([61%N; 61%N] ++ [61%N]). rewrite app_assoc, strip_one_eq_snoc, strip_two_eq_snoc.
      rewrite (strip_one_eq_clean chars NE), (strip_two_eq_clean chars NE). reflexivity.
    - change (repeat 61%N 4) with ([61%N] ++ [61%N; 61%N] ++ [61%N]). rewrite !app_assoc, strip_one_eq_snoc.
      rewrite <- app_assoc. rewrite app_assoc. rewrite strip_two_eq_snoc, strip_one_eq_snoc. apply strip_two_eq_clean. exact NE.
    - change (repeat 61%N 6) with ([61%N; 61%N] ++ [61%N] ++ [61%N; 61%N] ++ [61%N]). rewrite !app_assoc, strip_one_eq_snoc.
      rewrite strip_two_eq_snoc, strip_one_eq_snoc, strip_two_eq_snoc. reflexivity. }
  rewrite S4, MV, R. rewrite Z_to_bytes_to_Z. reflexivity.
Qed.

(* ------------------------------------------------------------------------------------------ *)
(* BASE64 CANONICAL: a string the decoder accepts is exactly the encoder's output for the result
   (so wrong padding, characters outside the alphabet, white space and non-zero discarded bits are
   all rejected) *)

Lemma b64_value_facts c : 0 <= b64_value c -> b64_value c < 64 /\ b64_char (b64_value c) = c /\ c <> 61%N.
Proof.
  unfold b64_value, b64_char. cbv zeta. intros H.
  destruct ((65 <=? Z.of_N c) && (Z.of_N c <=? 90)) eqn:A.
  { split; [lia|]. split; [|lia]. assert (E : (Z.of_N c - 65 <? 26) = true) by lia. rewrite E. lia. }
  destruct ((97 <=? Z.of_N c) && (Z.of_N c <=? 122)) eqn:B.
  { split; [lia|]. split; [|lia].
    assert (E1 : (Z.of_N c - 97 + 26 <? 26) = false) by lia. assert (E2 : (Z.of_N c - 97 + 26 <? 52) = true) by lia.
    rewrite E1, E2. lia. }
  destruct ((48 <=? Z.of_N c) && (Z.of_N c <=? 57)) eqn:C.
  { split; [lia|]. split; [|lia].
    assert (E1 : (Z.of_N c - 48 + 52 <? 26) = false) by lia. assert (E2 : (Z.of_N c - 48 + 52 <? 52) = false) by lia.
    assert (E3 : (Z.of_N c - 48 + 52 <? 62) = true) by lia. rewrite E1, E2, E3. lia. }
  destruct (Z.of_N c =? 43) eqn:D; [split; [lia|]; split; [cbn; lia | lia]|].
  destruct (Z.of_N c =? 47) eqn:E; [split; [lia|]; split; [cbn; lia | lia]|]. lia.
Qed.

Lemma cb_loop_some_nonneg from to inp : forall acc bits r, cb_loop from to acc bits inp = Some r ->
  Forall (fun v => 0 <= v) inp.
Proof.
  intros acc bits r H. apply Forall_forall. intros v Hv.
  destruct (Z_lt_le_dec v 0) as [Hn|Hp]; [|exact Hp].
  rewrite cb_loop_negative in H by (exists v; auto). discriminate.
Qed.

Lemma strip_one_eq_cases l : strip_one_eq l = l \/ l = strip_one_eq l ++ [61%N].
Proof.
  unfold strip_one_eq. destruct (rev l) as [|c r] eqn:E; [left; reflexivity|].
  destruct (c =? 61)%N eqn:C; [|left; reflexivity]. right. apply N.eqb_eq in C. subst c.
  rewrite <- (rev_involutive l), E. reflexivity.
Qed.

Lemma strip_one_eq_idem_clean l : strip_one_eq l = l -> strip_one_eq (strip_one_eq l) = l.
Proof. intros H. rewrite !H. reflexivity. Qed.

Lemma base64_canonical s X : decode_base64 s = Some X -> encode_base64 X = Some s.
Proof.
  unfold decode_base64. destruct (length s mod 4 =? 0)%nat eqn:L4; [|discriminate]. cbn [negb].
  apply Nat.eqb_eq in L4.
  set (s' := strip_one_eq (strip_one_eq s)).
  destruct (convert_bits 6 8 false (map b64_value s')) as [vs|] eqn:CB; [|discriminate].
  intros H. inversion H; subst X. clear H.
  (* every character of s' is in the alphabet *)
  assert (NN : Forall (fun v => 0 <= v) (map b64_value s')).
  { unfold convert_bits in CB. destruct (cb_loop 6 8 0 0 (map b64_value s')) as [[[a b] o]|] eqn:E; [|discriminate].
    eapply cb_loop_some_nonneg; eauto. }
  assert (D6 : digits_ok 6 (map b64_value s')).
  { unfold digits_ok. rewrite Forall_forall in *. intros v Hv. specialize (NN v Hv).
    apply in_map_iff in Hv. destruct Hv as [c [<- _]]. destruct (b64_value_facts c NN) as [F _]. change (2 ^ 6) with 64. lia. }
  assert (Chars : map b64_char (map b64_value s') = s' /\ no_eq s').
  { clear -NN. induction s' as [|c r IH]; [split; [reflexivity|constructor]|].
    cbn [map] in *. inversion NN as [|? ? Hc Hr]; subst. destruct (b64_value_facts c Hc) as [_ [F2 F3]].
    destruct (IH Hr) as [I1 I2]. rewrite F2, I1. split; [reflexivity|constructor; assumption]. }
  destruct Chars as [CM NE].
  destruct (convert_bits_canonical 8 6 (map b64_value s') vs ltac:(lia) D6 CB) as [D8 ENC].
  unfold encode_base64. rewrite (bytes_to_Z_to_bytes vs D8), ENC, CM. f_equal.
  (* s is s' followed by at most two '=' and its length is a multiple of 4 *)
  assert (Sh : exists j, (j <= 2)%nat /\ s = s' ++ repeat 61%N j).
  { unfold s'. destruct (strip_one_eq_cases s) as [E1|E1].
    - exists 0%nat. rewrite !E1. cbn [repeat]. rewrite app_nil_r. split; [lia|reflexivity].
    - destruct (strip_one_eq_cases (strip_one_eq s)) as [E2|E2].
      + exists 1%nat. rewrite E2. split; [lia|exact E1].
      + exists 2%nat. split; [lia|]. rewrite E1 at 1. rewrite E2 at 1. rewrite <- app_assoc. reflexivity. }
  destruct Sh as [j [Hj Es]]. clearbody s'. unfold pad_to. rewrite Es. f_equal. f_equal.
  rewrite Es, app_length, repeat_length in L4.
  pose proof (Nat.div_mod (length s') 4 ltac:(lia)) as DM.
  pose proof (Nat.mod_upper_bound (length s') 4 ltac:(lia)) as B.
  assert (Hm : ((length s' mod 4 + j) mod 4 = 0)%nat).
  { rewrite Nat.add_mod_idemp_l by lia. exact L4. }
  (* the decoder would have rejected a remainder of 1 (6 leftover bits) *)
  destruct (length s' mod 4)%nat as [|[|[|[|k]]]] eqn:M; try lia;
    destruct j as [|[|[|j]]]; try lia; cbn in Hm |- *; try lia; try reflexivity.
Qed.
