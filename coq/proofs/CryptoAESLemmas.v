(* C49 — AES-256 and AES-256-CBC (model/CryptoAES.v).
   - the FIPS 197 / SP 800-38A test vectors pin the specification (S-box spot values of figure 7, the
     GF(2^8) examples of section 4.2, Appendix A.3 key expansion, Appendix C.3 cipher / inverse cipher,
     SP 800-38A F.2.5 / F.2.6); the tabulated S-box is its definition (sub_byte_is_def);
   - aes256_inv_cipher: InvCipher(Cipher(block)) = block for every 32-byte key and 16-byte block
     (S-box inverse by 256 cases; ShiftRows structurally; MixColumns by GF(2)-linearity + the 4 x 256
     unit columns; AddRoundKey is an involution; every intermediate state is 16 bytes);
   - the model of CBCEncrypt / CBCDecrypt (src/crypto/aes.cpp): equals the SP 800-38A CBC mode on the
     RFC 5652 padded data (pad = true, size > 0) resp. on the data (pad = false, 16 | size); returns 0
     in the other cases; round trips; what exactly the branch-free padding check of CBCDecrypt accepts. *)
From Coq Require Import NArith Arith.
From BV Require Import lib.Ints model.CryptoBase model.CryptoAES.
Local Open Scope nat_scope.

(* conversion should never unfold these (only the order in which the kernel unfolds constants is
   affected, not what is provable) *)
Strategy 1000 [gmul gmul_aux ginv sbox_def inv_sbox_def sub_byte inv_sub_byte sbox_table inv_sbox_table
               key_expansion key_expansion_loop cipher inv_cipher all_bytes].

(* ---------- bytes ---------- *)
Lemma all_bytes_complete b : (b < 256)%N -> In b all_bytes.
Proof.
  intros H. unfold all_bytes. rewrite <- (N2Nat.id b). apply in_map. apply in_seq. lia.
Qed.

Lemma forall_bytes (P : N -> bool) : forallb P all_bytes = true -> forall b, (b < 256)%N -> P b = true.
Proof. intros H b Hb. rewrite forallb_forall in H. apply H, all_bytes_complete, Hb. Qed.

Lemma byte_of_bits a : (forall k, (8 <= k)%N -> N.testbit a k = false) -> (a < 256)%N.
Proof.
  intros H. destruct (N.eq_dec a 0) as [->|Hz]; [reflexivity|].
  change 256%N with (2 ^ 8)%N. apply N.log2_lt_pow2; [lia|].
  destruct (N.lt_ge_cases (N.log2 a) 8) as [|Hge]; [assumption|].
  specialize (H _ Hge). rewrite N.bit_log2 in H by assumption. discriminate.
Qed.

Lemma byte_bits a k : (a < 256)%N -> (8 <= k)%N -> N.testbit a k = false.
Proof.
  intros Ha Hk. destruct (N.eq_dec a 0) as [->|Hz]; [apply N.bits_0|].
  apply N.bits_above_log2. apply N.lt_le_trans with 8%N; [|exact Hk].
  apply N.log2_lt_pow2; [lia | exact Ha].
Qed.

Lemma lxor_byte a b : (a < 256)%N -> (b < 256)%N -> (N.lxor a b < 256)%N.
Proof.
  intros Ha Hb. apply byte_of_bits. intros k Hk.
  rewrite N.lxor_spec, (byte_bits a k Ha Hk), (byte_bits b k Hb Hk). reflexivity.
Qed.

Lemma land_255_byte a : (N.land a 255 < 256)%N.
Proof.
  apply byte_of_bits. intros k Hk. rewrite N.land_spec, (byte_bits 255 k) by (try reflexivity; exact Hk).
  apply Bool.andb_false_r.
Qed.

(* a tactic for identities between XOR combinations of the same atoms *)
Ltac lxor_ac :=
  apply N.bits_inj; intro; rewrite ?N.lxor_spec, ?N.bits_0;
  repeat match goal with |- context [N.testbit ?x ?n] => destruct (N.testbit x n) end; reflexivity.

(* ---------- GF(2^8): xtime and the multiplication by a constant are additive ---------- *)
Lemma xtime_byte b : (xtime b < 256)%N.
Proof. unfold xtime. apply lxor_byte; [apply land_255_byte | destruct (N.testbit b 7); reflexivity]. Qed.

Lemma land_lxor_l a b c : N.land (N.lxor a b) c = N.lxor (N.land a c) (N.land b c).
Proof.
  apply N.bits_inj; intro n. rewrite N.lxor_spec, !N.land_spec, N.lxor_spec.
  destruct (N.testbit a n), (N.testbit b n), (N.testbit c n); reflexivity.
Qed.

Lemma xtime_add x y : xtime (N.lxor x y) = N.lxor (xtime x) (xtime y).
Proof.
  unfold xtime. rewrite N.shiftl_lxor, land_lxor_l, N.lxor_spec.
  set (A := N.land (N.shiftl x 1) 255). set (B := N.land (N.shiftl y 1) 255).
  destruct (N.testbit x 7), (N.testbit y 7); cbn [xorb]; lxor_ac.
Qed.

Lemma gmul_aux_add fuel : forall c x y, gmul_aux fuel c (N.lxor x y) = N.lxor (gmul_aux fuel c x) (gmul_aux fuel c y).
Proof.
  induction fuel as [|f IH]; intros c x y; cbn [gmul_aux]; [reflexivity|].
  rewrite xtime_add, IH. destruct (N.odd c); lxor_ac.
Qed.

Lemma gmul_add c x y : gmul c (N.lxor x y) = N.lxor (gmul c x) (gmul c y).
Proof. apply gmul_aux_add. Qed.

Lemma gmul_aux_0 fuel : forall c, gmul_aux fuel c 0 = 0%N.
Proof.
  induction fuel as [|f IH]; intros c; cbn [gmul_aux]; [reflexivity|].
  change (xtime 0) with 0%N. rewrite IH. destruct (N.odd c); reflexivity.
Qed.

Lemma gmul_aux_byte fuel : forall c s, (s < 256)%N -> (gmul_aux fuel c s < 256)%N.
Proof.
  induction fuel as [|f IH]; intros c s Hs; cbn [gmul_aux]; [reflexivity|].
  apply lxor_byte; [destruct (N.odd c); [exact Hs | reflexivity] | apply IH, xtime_byte].
Qed.

Lemma gmul_byte c s : (s < 256)%N -> (gmul c s < 256)%N.
Proof. apply gmul_aux_byte. Qed.

(* ---------- the S-box ---------- *)
Lemma bits_value_lt l : (bits_value l < 2 ^ N.of_nat (length l))%N.
Proof.
  induction l as [|b r IH]; [reflexivity|].
  cbn [bits_value length]. rewrite Nat2N.inj_succ, N.pow_succ_r'. destruct b; lia.
Qed.

Lemma affine_byte b : (affine b < 256)%N.
Proof. unfold affine. apply (bits_value_lt (map (affine_bit b) [0; 1; 2; 3; 4; 5; 6; 7]%N)). Qed.

Lemma sbox_def_byte b : (sbox_def b < 256)%N.
Proof. apply affine_byte. Qed.

Lemma all_bytes_byte b : In b all_bytes -> (b < 256)%N.
Proof. unfold all_bytes. rewrite in_map_iff. intros [n [<- Hn]]. apply in_seq in Hn. lia. Qed.

Lemma find_all_bytes_byte f : (match find f all_bytes with Some x => x | None => 0%N end < 256)%N.
Proof.
  destruct (find f all_bytes) as [x|] eqn:E; [|reflexivity].
  apply find_some in E. apply all_bytes_byte, E.
Qed.

Lemma inv_sbox_def_byte y : (inv_sbox_def y < 256)%N.
Proof. apply find_all_bytes_byte. Qed.

Lemma sbox_table_length : length sbox_table = 256.
Proof. vm_compute. reflexivity. Qed.
Lemma inv_sbox_table_length : length inv_sbox_table = 256.
Proof. vm_compute. reflexivity. Qed.

Lemma sbox_table_bytes : forallb (fun v => (v <? 256)%N) sbox_table = true.
Proof. vm_compute. reflexivity. Qed.
Lemma inv_sbox_table_bytes : forallb (fun v => (v <? 256)%N) inv_sbox_table = true.
Proof. vm_compute. reflexivity. Qed.

Lemma table_lookup_byte (t : list N) (d : N) (i : nat) :
  forallb (fun v => (v <? 256)%N) t = true -> (d < 256)%N ->
  (match nth_error t i with Some v => v | None => d end < 256)%N.
Proof.
  intros Ht Hd. destruct (nth_error t i) as [v|] eqn:E; [|exact Hd].
  apply nth_error_In in E. rewrite forallb_forall in Ht. apply N.ltb_lt, Ht, E.
Qed.

(* SubBytes / InvSubBytes produce bytes, whatever the argument *)
Lemma sub_byte_byte b : (sub_byte b < 256)%N.
Proof. apply table_lookup_byte; [exact sbox_table_bytes | apply sbox_def_byte]. Qed.
Lemma inv_sub_byte_byte b : (inv_sub_byte b < 256)%N.
Proof. apply table_lookup_byte; [exact inv_sbox_table_bytes | apply inv_sbox_def_byte]. Qed.

(* the table is the definition: 256 evaluations of "inverse, then affine map" *)
Lemma sub_byte_is_def_bytes : forallb (fun b => N.eqb (sub_byte b) (sbox_def b)) all_bytes = true.
Proof. vm_compute. reflexivity. Qed.

Lemma sub_byte_is_def b : sub_byte b = sbox_def b.
Proof.
  destruct (N.lt_ge_cases b 256) as [Hb|Hb].
  - apply N.eqb_eq. exact (forall_bytes _ sub_byte_is_def_bytes b Hb).
  - unfold sub_byte. assert (E : nth_error sbox_table (N.to_nat b) = None).
    { apply nth_error_None. rewrite sbox_table_length. lia. }
    rewrite E. reflexivity.
Qed.

Lemma inv_sub_byte_is_def_bytes : forallb (fun b => N.eqb (inv_sub_byte b) (inv_sbox_def b)) all_bytes = true.
Proof. vm_compute. reflexivity. Qed.

Lemma inv_sub_byte_is_def b : inv_sub_byte b = inv_sbox_def b.
Proof.
  destruct (N.lt_ge_cases b 256) as [Hb|Hb].
  - apply N.eqb_eq. exact (forall_bytes _ inv_sub_byte_is_def_bytes b Hb).
  - unfold inv_sub_byte. assert (E : nth_error inv_sbox_table (N.to_nat b) = None).
    { apply nth_error_None. rewrite inv_sbox_table_length. lia. }
    rewrite E. reflexivity.
Qed.

(* the S-box is a permutation of the bytes and the inverse S-box is its inverse (256 cases each) *)
Lemma inv_sub_sub_bytes : forallb (fun b => N.eqb (inv_sub_byte (sub_byte b)) b) all_bytes = true.
Proof. vm_compute. reflexivity. Qed.
Lemma sub_inv_sub_bytes : forallb (fun b => N.eqb (sub_byte (inv_sub_byte b)) b) all_bytes = true.
Proof. vm_compute. reflexivity. Qed.

Lemma inv_sub_sub b : (b < 256)%N -> inv_sub_byte (sub_byte b) = b.
Proof. intros Hb. apply N.eqb_eq. exact (forall_bytes _ inv_sub_sub_bytes b Hb). Qed.
Lemma sub_inv_sub b : (b < 256)%N -> sub_byte (inv_sub_byte b) = b.
Proof. intros Hb. apply N.eqb_eq. exact (forall_bytes _ sub_inv_sub_bytes b Hb). Qed.

(* the multiplicative inverse really is one: b • ginv b = {01} for every non-zero byte, ginv {00} = {00},
   and it is b^254 (FIPS 197-upd1 (5.2)) *)
Fixpoint gpow (b : N) (n : nat) : N := match n with O => 1%N | S k => gmul b (gpow b k) end.
Example ginv_is_inverse :
  forallb (fun b => if N.eqb b 0 then N.eqb (ginv b) 0 else N.eqb (gmul b (ginv b)) 1 && N.eqb (gmul (ginv b) b) 1) all_bytes = true.
Proof. vm_compute. reflexivity. Qed.
Example ginv_is_pow254 : forallb (fun b => N.eqb (ginv b) (gpow b 254)) all_bytes = true.
Proof. vm_compute. reflexivity. Qed.
(* the multiplication is commutative on bytes (65536 cases) *)
Example gmul_comm_bytes : forallb (fun a => forallb (fun b => N.eqb (gmul a b) (gmul b a)) all_bytes) all_bytes = true.
Proof. vm_compute. reflexivity. Qed.

(* FIPS 197 section 4.2: {57} • {83} = {c1};  4.2.1: {57} • {02} = {ae}, • {04} = {47}, • {08} = {8e}, • {10} = {07}, {57} • {13} = {fe} *)
Example gmul_fips_4_2 : gmul 0x57 0x83 = 0xc1%N /\ gmul 0x83 0x57 = 0xc1%N.
Proof. vm_compute. split; reflexivity. Qed.
Example xtime_fips_4_2_1 :
  map (fun c => gmul c 0x57) [0x02; 0x04; 0x08; 0x10; 0x13]%N = [0xae; 0x47; 0x8e; 0x07; 0xfe]%N /\ xtime 0x57 = 0xae%N.
Proof. vm_compute. split; reflexivity. Qed.
(* FIPS 197 figure 7 spot values (5.1.1: "if s = {53} then the substitution value is {ed}"), first row, last entry;
   figure 14 *)
Example sbox_fips_figure7 :
  map sub_byte [0x00; 0x01; 0x02; 0x03; 0x53; 0x10; 0x9a; 0xff]%N = [0x63; 0x7c; 0x77; 0x7b; 0xed; 0xca; 0xb8; 0x16]%N.
Proof. vm_compute. reflexivity. Qed.
Example inv_sbox_fips_figure14 :
  map inv_sub_byte [0x00; 0x63; 0xed; 0x16]%N = [0x52; 0x00; 0x53; 0xff]%N.
Proof. vm_compute. reflexivity. Qed.
(* the affine map alone: {00} -> {63} *)
Example affine_0 : affine 0 = 0x63%N.
Proof. vm_compute. reflexivity. Qed.
(* 5.2: Rcon[i] = x^(i-1): 01 02 04 08 10 20 40 80 1b 36 *)
Example rcon_values :
  map rcon [1; 2; 3; 4; 5; 6; 7; 8; 9; 10] =
  map (fun v => [v; 0; 0; 0]%N) [0x01; 0x02; 0x04; 0x08; 0x10; 0x20; 0x40; 0x80; 0x1b; 0x36]%N.
Proof. vm_compute. reflexivity. Qed.

(* ---------- states: 16 bytes ---------- *)
Definition state_ok (s : list N) : Prop := length s = 16 /\ bytes_ok s.

Lemma list16 (s : list N) : length s = 16 ->
  exists s0 s1 s2 s3 s4 s5 s6 s7 s8 s9 s10 s11 s12 s13 s14 s15,
    s = [s0; s1; s2; s3; s4; s5; s6; s7; s8; s9; s10; s11; s12; s13; s14; s15].
Proof.
  intros H. do 16 (destruct s as [|? s]; [discriminate|]). destruct s; [|discriminate].
  repeat eexists.
Qed.

Ltac forall_inv :=
  repeat match goal with H : Forall _ (_ :: _) |- _ => inversion H; clear H; subst end.

(* ShiftRows *)
Example shift_rows_formula :
  shift_rows (map N.of_nat (seq 0 16)) = map (fun i => N.of_nat (i mod 4 + 4 * ((i / 4 + i mod 4) mod 4))) (seq 0 16).
Proof. vm_compute. reflexivity. Qed.
Example inv_shift_rows_formula :
  inv_shift_rows (map N.of_nat (seq 0 16)) = map (fun i => N.of_nat (i mod 4 + 4 * ((i / 4 + 4 - i mod 4) mod 4))) (seq 0 16).
Proof. vm_compute. reflexivity. Qed.

Lemma shift_rows_ok s : state_ok s -> state_ok (shift_rows s).
Proof.
  intros [Hl Hb]. destruct (list16 s Hl) as (s0&s1&s2&s3&s4&s5&s6&s7&s8&s9&s10&s11&s12&s13&s14&s15&->).
  split; [reflexivity|]. unfold bytes_ok in *. cbn [shift_rows]. forall_inv. repeat constructor; assumption.
Qed.
Lemma inv_shift_rows_ok s : state_ok s -> state_ok (inv_shift_rows s).
Proof.
  intros [Hl Hb]. destruct (list16 s Hl) as (s0&s1&s2&s3&s4&s5&s6&s7&s8&s9&s10&s11&s12&s13&s14&s15&->).
  split; [reflexivity|]. unfold bytes_ok in *. cbn [inv_shift_rows]. forall_inv. repeat constructor; assumption.
Qed.
Lemma inv_shift_shift s : length s = 16 -> inv_shift_rows (shift_rows s) = s.
Proof.
  intros Hl. destruct (list16 s Hl) as (s0&s1&s2&s3&s4&s5&s6&s7&s8&s9&s10&s11&s12&s13&s14&s15&->). reflexivity.
Qed.
Lemma shift_inv_shift s : length s = 16 -> shift_rows (inv_shift_rows s) = s.
Proof.
  intros Hl. destruct (list16 s Hl) as (s0&s1&s2&s3&s4&s5&s6&s7&s8&s9&s10&s11&s12&s13&s14&s15&->). reflexivity.
Qed.

(* SubBytes *)
Lemma sub_bytes_ok s : length s = 16 -> state_ok (sub_bytes s).
Proof.
  intros Hl. split; [unfold sub_bytes; rewrite map_length; exact Hl|].
  unfold bytes_ok, sub_bytes. apply Forall_forall. intros x Hx. apply in_map_iff in Hx.
  destruct Hx as [b [<- _]]. apply sub_byte_byte.
Qed.
Lemma inv_sub_bytes_ok s : length s = 16 -> state_ok (inv_sub_bytes s).
Proof.
  intros Hl. split; [unfold inv_sub_bytes; rewrite map_length; exact Hl|].
  unfold bytes_ok, inv_sub_bytes. apply Forall_forall. intros x Hx. apply in_map_iff in Hx.
  destruct Hx as [b [<- _]]. apply inv_sub_byte_byte.
Qed.
Lemma inv_sub_sub_bytes_id s : bytes_ok s -> inv_sub_bytes (sub_bytes s) = s.
Proof.
  unfold bytes_ok, inv_sub_bytes, sub_bytes. induction 1 as [|b s Hb Hs IH]; [reflexivity|].
  cbn [map]. rewrite inv_sub_sub by exact Hb. f_equal. exact IH.
Qed.
Lemma sub_inv_sub_bytes_id s : bytes_ok s -> sub_bytes (inv_sub_bytes s) = s.
Proof.
  unfold bytes_ok, inv_sub_bytes, sub_bytes. induction 1 as [|b s Hb Hs IH]; [reflexivity|].
  cbn [map]. rewrite sub_inv_sub by exact Hb. f_equal. exact IH.
Qed.

(* AddRoundKey *)
Lemma xor_bytes_len : forall a b, length (xor_bytes a b) = Nat.min (length a) (length b).
Proof. induction a as [|x a IH]; intros [|y b]; cbn [xor_bytes length Nat.min]; auto. Qed.
Lemma xor_bytes_ok : forall a b, bytes_ok a -> bytes_ok b -> bytes_ok (xor_bytes a b).
Proof.
  unfold bytes_ok. induction a as [|x a IH]; intros [|y b] Ha Hb; cbn [xor_bytes]; try constructor.
  - inversion Ha; inversion Hb; subst. apply lxor_byte; assumption.
  - inversion Ha; inversion Hb; subst. apply IH; assumption.
Qed.
Lemma xor_bytes_invol : forall m k, length m <= length k -> xor_bytes (xor_bytes m k) k = m.
Proof.
  induction m as [|x m IH]; intros [|y k] Hl; cbn [xor_bytes length] in *; try reflexivity; try lia.
  rewrite N.lxor_assoc, N.lxor_nilpotent, N.lxor_0_r. f_equal. apply IH. lia.
Qed.
Lemma xor_bytes_comm : forall a b, xor_bytes a b = xor_bytes b a.
Proof. induction a as [|x a IH]; intros [|y b]; cbn [xor_bytes]; try reflexivity. rewrite N.lxor_comm, IH. reflexivity. Qed.
Lemma xor_bytes_app_eq : forall a1 b1 a2 b2, length a1 = length b1 ->
  xor_bytes (a1 ++ a2) (b1 ++ b2) = xor_bytes a1 b1 ++ xor_bytes a2 b2.
Proof.
  induction a1 as [|x a1 IH]; intros [|y b1] a2 b2 Hl; cbn [length app xor_bytes] in *; try discriminate; [reflexivity|].
  f_equal. apply IH. lia.
Qed.

Lemma add_round_key_ok s k : state_ok s -> state_ok k -> state_ok (add_round_key s k).
Proof.
  intros [Hl Hb] [Hkl Hkb]. unfold add_round_key. split; [rewrite xor_bytes_len, Hl, Hkl; reflexivity|].
  apply xor_bytes_ok; assumption.
Qed.
Lemma add_round_key_invol s k : length s = 16 -> length k = 16 -> add_round_key (add_round_key s k) k = s.
Proof. intros Hs Hk. apply xor_bytes_invol. lia. Qed.

(* MixColumns: GF(2)-linearity reduces InvMixColumns o MixColumns = id to the 4 x 256 columns with one non-zero byte *)
Lemma shuffle4 a a' b b' c c' d d' :
  N.lxor (N.lxor (N.lxor (N.lxor a a') (N.lxor b b')) (N.lxor c c')) (N.lxor d d') =
  N.lxor (N.lxor (N.lxor (N.lxor a b) c) d) (N.lxor (N.lxor (N.lxor a' b') c') d').
Proof. lxor_ac. Qed.

Definition mc0 (a b c d : N) : N := N.lxor (N.lxor (N.lxor (gmul 2 a) (gmul 3 b)) c) d.
Definition mc1 (a b c d : N) : N := N.lxor (N.lxor (N.lxor a (gmul 2 b)) (gmul 3 c)) d.
Definition mc2 (a b c d : N) : N := N.lxor (N.lxor (N.lxor a b) (gmul 2 c)) (gmul 3 d).
Definition mc3 (a b c d : N) : N := N.lxor (N.lxor (N.lxor (gmul 3 a) b) c) (gmul 2 d).

Lemma mix_column_eq a b c d : mix_column a b c d = [mc0 a b c d; mc1 a b c d; mc2 a b c d; mc3 a b c d].
Proof. reflexivity. Qed.

Lemma mc0_add a b c d a' b' c' d' :
  mc0 (N.lxor a a') (N.lxor b b') (N.lxor c c') (N.lxor d d') = N.lxor (mc0 a b c d) (mc0 a' b' c' d').
Proof. unfold mc0. rewrite !gmul_add. apply shuffle4. Qed.
Lemma mc1_add a b c d a' b' c' d' :
  mc1 (N.lxor a a') (N.lxor b b') (N.lxor c c') (N.lxor d d') = N.lxor (mc1 a b c d) (mc1 a' b' c' d').
Proof. unfold mc1. rewrite !gmul_add. apply shuffle4. Qed.
Lemma mc2_add a b c d a' b' c' d' :
  mc2 (N.lxor a a') (N.lxor b b') (N.lxor c c') (N.lxor d d') = N.lxor (mc2 a b c d) (mc2 a' b' c' d').
Proof. unfold mc2. rewrite !gmul_add. apply shuffle4. Qed.
Lemma mc3_add a b c d a' b' c' d' :
  mc3 (N.lxor a a') (N.lxor b b') (N.lxor c c') (N.lxor d d') = N.lxor (mc3 a b c d) (mc3 a' b' c' d').
Proof. unfold mc3. rewrite !gmul_add. apply shuffle4. Qed.

Lemma inv_mix_column_add a b c d a' b' c' d' :
  inv_mix_column (N.lxor a a') (N.lxor b b') (N.lxor c c') (N.lxor d d') =
  xor_bytes (inv_mix_column a b c d) (inv_mix_column a' b' c' d').
Proof.
  unfold inv_mix_column. cbn [xor_bytes]. rewrite !gmul_add.
  f_equal; [apply shuffle4 | f_equal; [apply shuffle4 | f_equal; [apply shuffle4 | f_equal; apply shuffle4]]].
Qed.

(* InvMixColumns after MixColumns, on one column *)
Definition imc (a b c d : N) : list N := inv_mix_column (mc0 a b c d) (mc1 a b c d) (mc2 a b c d) (mc3 a b c d).

Lemma imc_add a b c d a' b' c' d' :
  imc (N.lxor a a') (N.lxor b b') (N.lxor c c') (N.lxor d d') = xor_bytes (imc a b c d) (imc a' b' c' d').
Proof. unfold imc. rewrite mc0_add, mc1_add, mc2_add, mc3_add. apply inv_mix_column_add. Qed.

Fixpoint lN_eqb (a b : list N) : bool :=
  match a, b with
  | [], [] => true
  | x :: a', y :: b' => N.eqb x y && lN_eqb a' b'
  | _, _ => false
  end.
Lemma lN_eqb_eq : forall a b, lN_eqb a b = true -> a = b.
Proof.
  induction a as [|x a IH]; intros [|y b] H; cbn [lN_eqb] in H; try discriminate; [reflexivity|].
  apply andb_prop in H. destruct H as [Hx Hr]. apply N.eqb_eq in Hx. subst. f_equal. apply IH, Hr.
Qed.

Lemma imc_units : forallb (fun x =>
    lN_eqb (imc x 0 0 0) [x; 0; 0; 0]%N && lN_eqb (imc 0 x 0 0) [0; x; 0; 0]%N &&
    lN_eqb (imc 0 0 x 0) [0; 0; x; 0]%N && lN_eqb (imc 0 0 0 x) [0; 0; 0; x]%N) all_bytes = true.
Proof. vm_compute. reflexivity. Qed.

Lemma imc_id a b c d : (a < 256)%N -> (b < 256)%N -> (c < 256)%N -> (d < 256)%N -> imc a b c d = [a; b; c; d].
Proof.
  intros Ha Hb Hc Hd.
  assert (E : imc a b c d =
              xor_bytes (xor_bytes (imc a 0 0 0) (imc 0 b 0 0)) (xor_bytes (imc 0 0 c 0) (imc 0 0 0 d))).
  { rewrite <- !imc_add. rewrite ?N.lxor_0_r, ?N.lxor_0_l. reflexivity. }
  rewrite E.
  pose proof (forall_bytes _ imc_units a Ha) as Ua. pose proof (forall_bytes _ imc_units b Hb) as Ub.
  pose proof (forall_bytes _ imc_units c Hc) as Uc. pose proof (forall_bytes _ imc_units d Hd) as Ud.
  cbv beta in Ua, Ub, Uc, Ud.
  apply andb_prop in Ua. destruct Ua as [Ua _]. apply andb_prop in Ua. destruct Ua as [Ua _].
  apply andb_prop in Ua. destruct Ua as [Ua _].
  apply andb_prop in Ub. destruct Ub as [Ub _]. apply andb_prop in Ub. destruct Ub as [Ub _].
  apply andb_prop in Ub. destruct Ub as [_ Ub].
  apply andb_prop in Uc. destruct Uc as [Uc _]. apply andb_prop in Uc. destruct Uc as [_ Uc].
  apply andb_prop in Ud. destruct Ud as [_ Ud].
  rewrite (lN_eqb_eq _ _ Ua), (lN_eqb_eq _ _ Ub), (lN_eqb_eq _ _ Uc), (lN_eqb_eq _ _ Ud).
  cbn [xor_bytes]. rewrite ?N.lxor_0_r, ?N.lxor_0_l. reflexivity.
Qed.

Opaque gmul.
Lemma mc_bytes a b c d : (a < 256)%N -> (b < 256)%N -> (c < 256)%N -> (d < 256)%N ->
  bytes_ok (mix_column a b c d).
Proof.
  intros Ha Hb Hc Hd. unfold bytes_ok, mix_column.
  repeat constructor; repeat apply lxor_byte; try apply gmul_byte; assumption.
Qed.
Lemma imc_bytes a b c d : (a < 256)%N -> (b < 256)%N -> (c < 256)%N -> (d < 256)%N ->
  bytes_ok (inv_mix_column a b c d).
Proof.
  intros Ha Hb Hc Hd. unfold bytes_ok, inv_mix_column.
  repeat constructor; repeat apply lxor_byte; try apply gmul_byte; assumption.
Qed.

Transparent gmul.

Lemma mix_columns_ok s : state_ok s -> state_ok (mix_columns s).
Proof.
  intros [Hl Hb]. destruct (list16 s Hl) as (s0&s1&s2&s3&s4&s5&s6&s7&s8&s9&s10&s11&s12&s13&s14&s15&->).
  split; [reflexivity|]. unfold bytes_ok in Hb. forall_inv. cbn [mix_columns].
  unfold bytes_ok. repeat (apply Forall_app; split); try (apply mc_bytes; assumption). constructor.
Qed.
Lemma inv_mix_columns_ok s : state_ok s -> state_ok (inv_mix_columns s).
Proof.
  intros [Hl Hb]. destruct (list16 s Hl) as (s0&s1&s2&s3&s4&s5&s6&s7&s8&s9&s10&s11&s12&s13&s14&s15&->).
  split; [reflexivity|]. unfold bytes_ok in Hb. forall_inv. cbn [inv_mix_columns].
  unfold bytes_ok. repeat (apply Forall_app; split); try (apply imc_bytes; assumption). constructor.
Qed.

Lemma inv_mix_columns_step a b c d r : (a < 256)%N -> (b < 256)%N -> (c < 256)%N -> (d < 256)%N ->
  inv_mix_columns (mix_column a b c d ++ r) = a :: b :: c :: d :: inv_mix_columns r.
Proof.
  intros Ha Hb Hc Hd. rewrite mix_column_eq. cbn [app inv_mix_columns].
  change (inv_mix_column (mc0 a b c d) (mc1 a b c d) (mc2 a b c d) (mc3 a b c d)) with (imc a b c d).
  rewrite imc_id by assumption. reflexivity.
Qed.

Lemma inv_mix_mix s : state_ok s -> inv_mix_columns (mix_columns s) = s.
Proof.
  intros [Hl Hb]. destruct (list16 s Hl) as (s0&s1&s2&s3&s4&s5&s6&s7&s8&s9&s10&s11&s12&s13&s14&s15&->).
  unfold bytes_ok in Hb. forall_inv. cbn [mix_columns].
  rewrite !inv_mix_columns_step by assumption. reflexivity.
Qed.

(* ---------- KeyExpansion yields 60 words of 4 bytes ---------- *)
Definition word_ok (w : list N) : Prop := length w = 4 /\ bytes_ok w.

Lemma words4_ok_aux : forall n key, length key <= n -> bytes_ok key -> Forall word_ok (words4 key).
Proof.
  induction n as [|n IH]; intros key Hl Hb.
  - destruct key; [constructor | cbn [length] in Hl; lia].
  - destruct key as [|a [|b [|c [|d r]]]]; try constructor.
    + unfold bytes_ok in Hb. forall_inv. split; [reflexivity | repeat constructor; assumption].
    + apply IH; [cbn [length] in Hl; lia|]. unfold bytes_ok in *. forall_inv. assumption.
Qed.
Lemma words4_ok key : bytes_ok key -> Forall word_ok (words4 key).
Proof. apply (words4_ok_aux (length key)). lia. Qed.
Lemma words4_length_32 key : length key = 32 -> length (words4 key) = 8.
Proof. intros H. do 32 (destruct key as [|? key]; [discriminate|]). destruct key; [reflexivity | discriminate]. Qed.

Lemma xpow_byte n : (xpow n < 256)%N.
Proof. destruct n; [reflexivity | apply xtime_byte]. Qed.

Lemma rcon_ok i : word_ok (rcon i).
Proof. split; [reflexivity|]. unfold bytes_ok, rcon. repeat constructor. apply xpow_byte. Qed.

Lemma sub_word_ok w : length w = 4 -> word_ok (sub_word w).
Proof.
  intros Hl. split; [unfold sub_word; rewrite map_length; exact Hl|].
  unfold bytes_ok, sub_word. apply Forall_forall. intros x Hx. apply in_map_iff in Hx.
  destruct Hx as [b [<- _]]. apply sub_byte_byte.
Qed.

Lemma rot_word_length w : length w = 4 -> length (rot_word w) = 4.
Proof. intros H. do 4 (destruct w as [|? w]; [discriminate|]). destruct w; [reflexivity | discriminate]. Qed.

Lemma xor_word_ok a b : word_ok a -> word_ok b -> word_ok (xor_bytes a b).
Proof.
  intros [Ha Hab] [Hb Hbb]. split; [rewrite xor_bytes_len, Ha, Hb; reflexivity | apply xor_bytes_ok; assumption].
Qed.

Lemma key_expansion_step_ok i rw : Forall word_ok rw -> 8 <= length rw ->
  Forall word_ok (key_expansion_step i rw) /\ length (key_expansion_step i rw) = S (length rw).
Proof.
  intros Hw Hl.
  destruct rw as [|w1 [|w2 [|w3 [|w4 [|w5 [|w6 [|w7 [|w8 r]]]]]]]]; cbn [length] in Hl; try lia.
  unfold key_expansion_step.
  assert (H1 : word_ok w1) by (inversion Hw; assumption).
  assert (H8 : word_ok w8) by (forall_inv; assumption).
  split; [|reflexivity]. constructor; [|exact Hw].
  apply xor_word_ok; [exact H8|].
  destruct (i mod Nk =? 0).
  - apply xor_word_ok; [|apply rcon_ok]. apply sub_word_ok, rot_word_length, H1.
  - destruct (i mod Nk =? 4); [apply sub_word_ok, H1 | exact H1].
Qed.

Lemma key_expansion_loop_ok n : forall i rw, Forall word_ok rw -> 8 <= length rw ->
  Forall word_ok (key_expansion_loop n i rw) /\ length (key_expansion_loop n i rw) = n + length rw.
Proof.
  induction n as [|n IH]; intros i rw Hw Hl; cbn [key_expansion_loop]; [split; [exact Hw | reflexivity]|].
  destruct (key_expansion_step_ok i rw Hw Hl) as [Hw1 Hl1].
  assert (Hl1' : 8 <= length (key_expansion_step i rw)) by lia.
  destruct (IH (S i) _ Hw1 Hl1') as [Hw2 Hl2]. split; [exact Hw2 | lia].
Qed.

Lemma key_expansion_ok key : length key = 32 -> bytes_ok key ->
  Forall word_ok (key_expansion key) /\ length (key_expansion key) = 60.
Proof.
  intros Hl Hb. unfold key_expansion. change (4 * (Nr + 1) - Nk) with 52.
  assert (H1 : Forall word_ok (rev (words4 key))) by apply Forall_rev, words4_ok, Hb.
  assert (H2 : 8 <= length (rev (words4 key))) by (rewrite rev_length, words4_length_32 by exact Hl; lia).
  destruct (key_expansion_loop_ok 52 Nk (rev (words4 key)) H1 H2) as [Hw Hn].
  split; [apply Forall_rev, Hw|]. rewrite rev_length, Hn, rev_length, words4_length_32 by exact Hl. reflexivity.
Qed.

Lemma Forall_firstn' {A} (P : A -> Prop) n : forall l, Forall P l -> Forall P (firstn n l).
Proof. induction n as [|n IH]; intros [|x l] H; cbn [firstn]; try constructor; inversion H; subst; auto. Qed.
Lemma Forall_skipn' {A} (P : A -> Prop) n : forall l, Forall P l -> Forall P (skipn n l).
Proof. induction n as [|n IH]; intros [|x l] H; cbn [skipn]; try assumption. inversion H; subst; auto. Qed.

Lemma concat_words_ok l : Forall word_ok l -> length (concat l) = 4 * length l /\ bytes_ok (concat l).
Proof.
  induction 1 as [|w l [Hwl Hwb] Hl [IHl IHb]]; [split; [reflexivity | constructor]|].
  cbn [concat length]. rewrite app_length, Hwl, IHl. split; [lia|]. unfold bytes_ok in *. apply Forall_app. split; assumption.
Qed.

Lemma round_key_ok w r : Forall word_ok w -> 4 * r + 4 <= length w -> state_ok (round_key w r).
Proof.
  intros Hw Hl. unfold round_key.
  assert (H1 : Forall word_ok (firstn 4 (skipn (4 * r) w))) by apply Forall_firstn', Forall_skipn', Hw.
  destruct (concat_words_ok _ H1) as [Hcl Hcb].
  split; [|exact Hcb]. rewrite Hcl, firstn_length, skipn_length. lia.
Qed.

Lemma aes256_round_keys_ok key r : length key = 32 -> bytes_ok key -> r <= Nr ->
  state_ok (round_key (key_expansion key) r).
Proof.
  intros Hl Hb Hr. destruct (key_expansion_ok key Hl Hb) as [Hw Hn].
  apply round_key_ok; [exact Hw|]. unfold Nr in Hr. lia.
Qed.

(* ---------- InvCipher inverts Cipher, for any expanded key whose round keys are 16 bytes ---------- *)
Section CipherInverse.
  Variable w : list word.
  Hypothesis rk_ok : forall r, r <= Nr -> state_ok (round_key w r).

  (* SubBytes then ShiftRows, and back *)
  Let SS (st : list N) : list N := shift_rows (sub_bytes st).
  Let SSinv (st : list N) : list N := inv_sub_bytes (inv_shift_rows st).

  Lemma SS_ok st : state_ok st -> state_ok (shift_rows (sub_bytes st)).
  Proof. intros [Hl _]. apply shift_rows_ok, sub_bytes_ok, Hl. Qed.

  Lemma SSinv_SS st : state_ok st -> inv_sub_bytes (inv_shift_rows (shift_rows (sub_bytes st))) = st.
  Proof.
    intros [Hl Hb]. rewrite inv_shift_shift by (unfold sub_bytes; rewrite map_length; exact Hl).
    apply inv_sub_sub_bytes_id, Hb.
  Qed.

  Lemma cipher_round_ok st r : state_ok st -> state_ok (round_key w r) -> state_ok (cipher_round w st r).
  Proof. intros Hs Hk. unfold cipher_round. apply add_round_key_ok; [|exact Hk]. apply mix_columns_ok, SS_ok, Hs. Qed.

  Lemma inv_round_round st r : state_ok st -> state_ok (round_key w r) ->
    inv_cipher_round w (shift_rows (sub_bytes (cipher_round w st r))) r = shift_rows (sub_bytes st).
  Proof.
    intros Hs Hk. unfold inv_cipher_round. rewrite SSinv_SS by (apply cipher_round_ok; assumption).
    unfold cipher_round.
    pose proof (mix_columns_ok _ (SS_ok _ Hs)) as Hm.
    rewrite add_round_key_invol by (try apply Hm; apply Hk).
    apply inv_mix_mix, SS_ok, Hs.
  Qed.

  Lemma rounds_ok l : forall st, (forall r, In r l -> state_ok (round_key w r)) -> state_ok st ->
    state_ok (fold_left (cipher_round w) l st).
  Proof.
    induction l as [|r l IH]; intros st Hk Hs; cbn [fold_left]; [exact Hs|].
    apply IH; [intros r' Hr'; apply Hk; right; exact Hr'|]. apply cipher_round_ok; [exact Hs | apply Hk; left; reflexivity].
  Qed.

  Lemma inv_rounds_rounds l : forall st, (forall r, In r l -> state_ok (round_key w r)) -> state_ok st ->
    fold_left (inv_cipher_round w) (rev l) (shift_rows (sub_bytes (fold_left (cipher_round w) l st))) =
    shift_rows (sub_bytes st).
  Proof.
    induction l as [|r l IH]; intros st Hk Hs; cbn [fold_left rev]; [reflexivity|].
    assert (Hkr : state_ok (round_key w r)) by (apply Hk; left; reflexivity).
    rewrite fold_left_app, IH; [|intros r' Hr'; apply Hk; right; exact Hr' | apply cipher_round_ok; assumption].
    cbn [fold_left]. apply inv_round_round; assumption.
  Qed.

  Lemma mid_rounds_ok r : In r (seq 1 (Nr - 1)) -> state_ok (round_key w r).
  Proof. intros H. apply in_seq in H. apply rk_ok. unfold Nr in *. lia. Qed.

  Lemma cipher_ok inp : state_ok inp -> state_ok (cipher w inp).
  Proof.
    intros Hi. unfold cipher. cbv zeta. apply add_round_key_ok; [|apply rk_ok; lia].
    apply SS_ok, rounds_ok; [exact mid_rounds_ok|]. apply add_round_key_ok; [exact Hi | apply rk_ok; lia].
  Qed.

  Lemma inv_cipher_cipher inp : state_ok inp -> inv_cipher w (cipher w inp) = inp.
  Proof.
    intros Hi. unfold cipher, inv_cipher. cbv zeta.
    assert (H0 : state_ok (add_round_key inp (round_key w 0))) by (apply add_round_key_ok; [exact Hi | apply rk_ok; lia]).
    pose proof (rounds_ok _ _ mid_rounds_ok H0) as Hr.
    rewrite add_round_key_invol by (try apply (SS_ok _ Hr); apply (rk_ok Nr); lia).
    rewrite inv_rounds_rounds by (try exact mid_rounds_ok; exact H0).
    rewrite SSinv_SS by exact H0.
    apply add_round_key_invol; [apply Hi | apply (rk_ok 0); lia].
  Qed.

  Lemma inv_cipher_round_ok st r : state_ok st -> state_ok (round_key w r) -> state_ok (inv_cipher_round w st r).
  Proof.
    intros Hs Hk. unfold inv_cipher_round. apply inv_mix_columns_ok, add_round_key_ok; [|exact Hk].
    apply inv_sub_bytes_ok. apply (inv_shift_rows_ok _ Hs).
  Qed.

  Lemma inv_rounds_ok l : forall st, (forall r, In r l -> state_ok (round_key w r)) -> state_ok st ->
    state_ok (fold_left (inv_cipher_round w) l st).
  Proof.
    induction l as [|r l IH]; intros st Hk Hs; cbn [fold_left]; [exact Hs|].
    apply IH; [intros r' Hr'; apply Hk; right; exact Hr'|]. apply inv_cipher_round_ok; [exact Hs | apply Hk; left; reflexivity].
  Qed.

  Lemma inv_cipher_ok inp : state_ok inp -> state_ok (inv_cipher w inp).
  Proof.
    intros Hi. unfold inv_cipher. cbv zeta. apply add_round_key_ok; [|apply rk_ok; lia].
    apply inv_sub_bytes_ok. apply inv_shift_rows_ok. apply inv_rounds_ok.
    - intros r Hr. apply in_rev in Hr. apply mid_rounds_ok, Hr.
    - apply add_round_key_ok; [exact Hi | apply rk_ok; lia].
  Qed.
End CipherInverse.

(* THEOREM inv_cipher: AES-256 decryption of the AES-256 encryption of a block is the block *)
Theorem aes256_inv_cipher key block : length key = 32 -> bytes_ok key -> length block = 16 -> bytes_ok block ->
  aes256_decrypt_block_spec key (aes256_encrypt_block_spec key block) = block.
Proof.
  intros Hkl Hkb Hbl Hbb. unfold aes256_decrypt_block_spec, aes256_encrypt_block_spec.
  apply inv_cipher_cipher; [|split; assumption].
  intros r Hr. apply aes256_round_keys_ok; assumption.
Qed.

Lemma aes256_encrypt_block_ok key block : length key = 32 -> bytes_ok key -> state_ok block ->
  state_ok (aes256_encrypt_block_spec key block).
Proof.
  intros Hkl Hkb Hb. unfold aes256_encrypt_block_spec. apply cipher_ok; [|exact Hb].
  intros r Hr. apply aes256_round_keys_ok; assumption.
Qed.

Lemma aes256_decrypt_block_ok key block : length key = 32 -> bytes_ok key -> state_ok block ->
  state_ok (aes256_decrypt_block_spec key block).
Proof.
  intros Hkl Hkb Hb. unfold aes256_decrypt_block_spec. apply inv_cipher_ok; [|exact Hb].
  intros r Hr. apply aes256_round_keys_ok; assumption.
Qed.

(* ---------- list helpers ---------- *)
Lemma firstn_len_app {A} (l1 l2 : list A) n : n = length l1 -> firstn n (l1 ++ l2) = l1.
Proof. intros ->. induction l1 as [|x l1 IH]; [destruct l2; reflexivity | cbn [length app firstn]; rewrite IH; reflexivity]. Qed.
Lemma skipn_len_app {A} (l1 l2 : list A) n : n = length l1 -> skipn n (l1 ++ l2) = l2.
Proof. intros ->. induction l1 as [|x l1 IH]; [reflexivity | exact IH]. Qed.
Lemma rev_repeat' {A} (x : A) n : rev (repeat x n) = repeat x n.
Proof.
  induction n as [|n IH]; [reflexivity|]. cbn [repeat rev]. rewrite IH.
  clear IH. induction n as [|n IH]; [reflexivity | cbn [repeat app]; rewrite IH; reflexivity].
Qed.
Lemma forallb_rev' {A} (f : A -> bool) l : forallb f (rev l) = forallb f l.
Proof.
  induction l as [|x l IH]; [reflexivity|]. cbn [rev forallb]. rewrite forallb_app, IH. cbn [forallb].
  rewrite Bool.andb_true_r. apply Bool.andb_comm.
Qed.
Lemma forallb_eqb_repeat p l : forallb (N.eqb p) l = true -> l = repeat p (length l).
Proof.
  induction l as [|x l IH]; [reflexivity|]. cbn [forallb length repeat]. intros H. apply andb_prop in H.
  destruct H as [Hx Hl]. apply N.eqb_eq in Hx. subst x. f_equal. apply IH, Hl.
Qed.
Lemma forallb_eqb_repeat' p n : forallb (N.eqb p) (repeat p n) = true.
Proof. induction n as [|n IH]; [reflexivity|]. cbn [repeat forallb]. rewrite N.eqb_refl. exact IH. Qed.
Lemma divmod16 n q r : n = 16 * q + r -> r < 16 -> n / 16 = q /\ n mod 16 = r.
Proof. intros Hn Hr. split; symmetry; [apply (Nat.div_unique n 16 q r) | apply (Nat.mod_unique n 16 q r)]; assumption. Qed.
Lemma concat16_length (bs : list (list N)) : Forall state_ok bs -> length (concat bs) = 16 * length bs.
Proof.
  induction 1 as [|b bs [Hb _] _ IH]; [reflexivity|]. cbn [concat length]. rewrite app_length, Hb, IH. lia.
Qed.
Lemma concat16_bytes (bs : list (list N)) : Forall state_ok bs -> bytes_ok (concat bs).
Proof.
  induction 1 as [|b bs [_ Hb] _ IH]; [constructor|]. cbn [concat]. unfold bytes_ok in *. apply Forall_app. split; assumption.
Qed.
Lemma repeat_bytes (v : N) n : (v < 256)%N -> bytes_ok (repeat v n).
Proof. intros Hv. unfold bytes_ok. induction n; cbn [repeat]; constructor; assumption. Qed.

(* every byte string is a sequence of whole 16-byte blocks followed by fewer than 16 bytes *)
Lemma split_blocks_aux : forall n data, length data < 16 * S n -> bytes_ok data ->
  exists bs rest, data = concat bs ++ rest /\ Forall state_ok bs /\ length rest < 16 /\ bytes_ok rest.
Proof.
  induction n as [|n IH]; intros data Hl Hb.
  - exists [], data. repeat split; [constructor | lia | exact Hb].
  - destruct (Nat.lt_ge_cases (length data) 16) as [Hs|Hs].
    + exists [], data. repeat split; [constructor | exact Hs | exact Hb].
    + destruct (IH (skipn 16 data)) as (bs & rest & Hd & Hbs & Hr & Hrb).
      * rewrite skipn_length. lia.
      * apply Forall_skipn', Hb.
      * exists (firstn 16 data :: bs), rest. repeat split; try assumption.
        -- cbn [concat]. rewrite <- app_assoc, <- Hd. symmetry. apply firstn_skipn.
        -- constructor; [|exact Hbs]. split; [rewrite firstn_length; lia | apply Forall_firstn', Hb].
Qed.
Lemma split_blocks data : bytes_ok data ->
  exists bs rest, data = concat bs ++ rest /\ Forall state_ok bs /\ length rest < 16 /\ bytes_ok rest.
Proof. apply (split_blocks_aux (length data)). lia. Qed.

(* blocks16 recovers the blocks *)
Lemma chunks_of_nil f n : chunks_of f n [] = [].
Proof. destruct f; reflexivity. Qed.
Lemma chunks_of_block f (b X : list N) : length b = 16 -> chunks_of (S f) 16 (b ++ X) = b :: chunks_of f 16 X.
Proof.
  intros Hb. cbn [chunks_of]. destruct b as [|x b']; [discriminate|].
  change ((x :: b') ++ X) with (x :: (b' ++ X)) at 1. cbv iota.
  rewrite firstn_len_app, skipn_len_app by (symmetry; exact Hb). reflexivity.
Qed.
Lemma chunks_of_blocks : forall bs f rest, Forall state_ok bs -> length rest < 16 ->
  length (concat bs ++ rest) <= f ->
  chunks_of f 16 (concat bs ++ rest) = bs ++ match rest with [] => [] | _ => [rest] end.
Proof.
  induction bs as [|b bs IH]; intros f rest Hbs Hr Hf.
  - cbn [concat app] in *. destruct rest as [|x r]; [apply chunks_of_nil|].
    destruct f as [|f]; [cbn [length] in Hf; lia|]. cbn [chunks_of].
    rewrite firstn_all2, skipn_all2, chunks_of_nil by lia. reflexivity.
  - inversion Hbs as [|? ? [Hb _] Hbs']; subst. cbn [concat] in *. rewrite <- app_assoc in *.
    rewrite app_length, Hb in Hf. destruct f as [|f]; [lia|].
    rewrite chunks_of_block by exact Hb. rewrite IH by (try assumption; lia). reflexivity.
Qed.
Lemma blocks16_blocks bs rest : Forall state_ok bs -> length rest < 16 ->
  blocks16 (concat bs ++ rest) = bs ++ match rest with [] => [] | _ => [rest] end.
Proof. intros Hbs Hr. unfold blocks16. apply chunks_of_blocks; [assumption | assumption | lia]. Qed.

Lemma blocks16_concat bs : Forall state_ok bs -> blocks16 (concat bs) = bs.
Proof.
  intros Hbs. rewrite <- (app_nil_r (concat bs)). rewrite blocks16_blocks by (try exact Hbs; cbn [length]; lia).
  apply app_nil_r.
Qed.

(* ---------- RFC 5652 padding ---------- *)
Lemma pkcs7_padlen_range len : 1 <= pkcs7_padlen len <= 16.
Proof. unfold pkcs7_padlen. pose proof (Nat.mod_upper_bound len 16). lia. Qed.

(* what pkcs7_unpad accepts: exactly the strings d ++ k bytes of value k, 1 <= k <= 16 *)
Lemma pkcs7_unpad_some_iff padded d :
  pkcs7_unpad padded = Some d <-> exists k, 1 <= k <= 16 /\ padded = d ++ repeat (N.of_nat k) k.
Proof.
  unfold pkcs7_unpad. split.
  - destruct (rev padded) as [|p r] eqn:Er; [discriminate|].
    destruct (1 <=? N.to_nat p) eqn:E1; [|discriminate]. destruct (N.to_nat p <=? 16) eqn:E2; [|discriminate].
    destruct (N.to_nat p <=? length padded) eqn:E3; [|discriminate]. cbn [andb].
    destruct (forallb (N.eqb p) (skipn (length padded - N.to_nat p) padded)) eqn:E4; [|discriminate].
    intros H. inversion H; subst d; clear H.
    apply Nat.leb_le in E1, E2, E3. exists (N.to_nat p). split; [lia|].
    apply forallb_eqb_repeat in E4. rewrite skipn_length in E4.
    replace (length padded - (length padded - N.to_nat p)) with (N.to_nat p) in E4 by lia.
    rewrite N2Nat.id. rewrite <- E4. symmetry. apply firstn_skipn.
  - intros (k & Hk & ->). rewrite rev_app_distr, rev_repeat'.
    destruct k as [|k]; [lia|]. cbn [repeat app]. rewrite Nat2N.id.
    rewrite app_length. change (N.of_nat (S k) :: repeat (N.of_nat (S k)) k) with (repeat (N.of_nat (S k)) (S k)).
    rewrite repeat_length.
    replace (length d + S k - S k) with (length d) by lia.
    rewrite skipn_len_app, firstn_len_app by reflexivity. rewrite forallb_eqb_repeat'.
    destruct (S k <=? 16) eqn:E2; [|apply Nat.leb_gt in E2; lia].
    destruct (S k <=? length d + S k) eqn:E3; [|apply Nat.leb_gt in E3; lia]. reflexivity.
Qed.

(* LEMMA pkcs7_unpad_pad *)
Lemma pkcs7_unpad_pad data : pkcs7_unpad (pkcs7_pad data) = Some data.
Proof. apply pkcs7_unpad_some_iff. exists (pkcs7_padlen (length data)). split; [apply pkcs7_padlen_range | reflexivity]. Qed.

Lemma pkcs7_pad_length data : length (pkcs7_pad data) = (length data / 16 + 1) * 16.
Proof.
  unfold pkcs7_pad, pkcs7_padlen. rewrite app_length, repeat_length.
  pose proof (Nat.div_mod (length data) 16) as H. pose proof (Nat.mod_upper_bound (length data) 16). lia.
Qed.

(* ---------- CBCEncrypt / CBCDecrypt over arbitrary block functions ---------- *)
Lemma xor_state_ok a b : state_ok a -> state_ok b -> state_ok (xor_bytes a b).
Proof. apply add_round_key_ok. Qed.


Section CBCEnc.
  Variable E : list N -> list N.
  Hypothesis E_ok : forall x, state_ok x -> state_ok (E x).

  (* the chaining value after the blocks bs *)
  Fixpoint chain_last (prev : list N) (bs : list (list N)) : list N :=
    match bs with [] => prev | p :: r => chain_last (E (xor_bytes p prev)) r end.

  Lemma chain_ok : forall bs prev, Forall state_ok bs -> state_ok prev ->
    Forall state_ok (cbc_encrypt_blocks E prev bs) /\ state_ok (chain_last prev bs).
  Proof.
    induction bs as [|b bs IH]; intros prev Hbs Hp; cbn [cbc_encrypt_blocks chain_last]; [split; [constructor | exact Hp]|].
    inversion Hbs as [|? ? Hb Hbs']; subst.
    assert (Hc : state_ok (E (xor_bytes b prev))) by (apply E_ok, xor_state_ok; assumption).
    destruct (IH _ Hbs' Hc) as [H1 H2]. split; [constructor; assumption | exact H2].
  Qed.

  Lemma chain_app : forall bs prev p,
    cbc_encrypt_blocks E prev (bs ++ [p]) = cbc_encrypt_blocks E prev bs ++ [E (xor_bytes p (chain_last prev bs))].
  Proof. induction bs as [|b bs IH]; intros prev p; cbn [app cbc_encrypt_blocks chain_last]; [reflexivity | rewrite IH; reflexivity]. Qed.

  (* the while loop of CBCEncrypt consumes the whole blocks *)
  Lemma encrypt_loop_blocks : forall bs fuel size written mixed rest out,
    Forall state_ok bs -> length rest < 16 -> length bs <= fuel -> size = written + 16 * length bs + length rest ->
    cbc_encrypt_loop fuel E size written mixed (concat bs ++ rest) out =
    (written + 16 * length bs, chain_last mixed bs, rest, out ++ concat (cbc_encrypt_blocks E mixed bs)).
  Proof.
    induction bs as [|b bs IH]; intros fuel size written mixed rest out Hbs Hr Hf Hs.
    - cbn [concat app length cbc_encrypt_blocks chain_last] in *. rewrite app_nil_r, Nat.mul_0_r, Nat.add_0_r.
      destruct fuel as [|f]; [reflexivity|]. cbn [cbc_encrypt_loop].
      destruct (written + 16 <=? size) eqn:Ec; [apply Nat.leb_le in Ec; lia | reflexivity].
    - inversion Hbs as [|? ? [Hb _] Hbs']; subst. cbn [length] in Hf. destruct fuel as [|f]; [lia|].
      cbn [cbc_encrypt_loop concat]. rewrite <- app_assoc.
      destruct (written + 16 <=? written + 16 * length (b :: bs) + length rest) eqn:Ec;
        [|apply Nat.leb_gt in Ec; cbn [length] in Ec; lia].
      rewrite firstn_len_app, skipn_len_app by (symmetry; exact Hb).
      rewrite IH by (try assumption; cbn [length]; lia).
      cbn [cbc_encrypt_blocks chain_last concat length]. rewrite (xor_bytes_comm mixed b), <- app_assoc.
      f_equal. f_equal. f_equal. lia.
  Qed.

  Lemma cbc_blocks_length : forall bs prev, length (cbc_encrypt_blocks E prev bs) = length bs.
  Proof. induction bs as [|b bs IH]; intros prev; cbn [cbc_encrypt_blocks length]; [reflexivity | rewrite IH; reflexivity]. Qed.

  Lemma padded_tail_ok rest : length rest < 16 -> bytes_ok rest ->
    state_ok (rest ++ repeat (N.of_nat (16 - length rest)) (16 - length rest)).
  Proof.
    intros Hr Hb. split; [rewrite app_length, repeat_length; lia|].
    unfold bytes_ok. apply Forall_app. split; [exact Hb | apply repeat_bytes; lia].
  Qed.

  (* CBCEncrypt on data = whole blocks bs ++ rest (|rest| < 16), size > 0 *)
  Lemma cbc_encrypt_with_run iv bs rest pad :
    Forall state_ok bs -> length rest < 16 -> bytes_ok rest -> state_ok iv -> concat bs ++ rest <> [] ->
    (pad = true \/ rest = []) ->
    cbc_encrypt_with E iv (concat bs ++ rest) pad =
    concat (cbc_encrypt_blocks E iv bs) ++
    (if pad then E (xor_bytes (rest ++ repeat (N.of_nat (16 - length rest)) (16 - length rest)) (chain_last iv bs)) else []).
  Proof.
    intros Hbs Hr Hrb Hiv Hne Hpad. unfold cbc_encrypt_with.
    assert (Hlen : length (concat bs ++ rest) = 16 * length bs + length rest) by (rewrite app_length, concat16_length by exact Hbs; reflexivity).
    destruct (divmod16 _ _ _ Hlen Hr) as [Hdiv Hmod]. rewrite Hdiv, Hmod.
    destruct (length (concat bs ++ rest) =? 0) eqn:E0.
    { apply Nat.eqb_eq in E0. destruct (concat bs ++ rest); [contradiction Hne; reflexivity | discriminate]. }
    assert (Eg : negb pad && negb (length rest =? 0) = false).
    { destruct Hpad as [-> | ->]; [reflexivity | destruct pad; reflexivity]. }
    rewrite Eg. rewrite (encrypt_loop_blocks bs (length bs + 1) _ 0 iv rest []) by (try assumption; lia).
    cbv beta iota. cbn [app]. rewrite firstn_all.
    destruct (chain_ok bs iv Hbs Hiv) as [Hcs Hlast].
    assert (Hcl : length (concat (cbc_encrypt_blocks E iv bs)) = 16 * length bs)
      by (rewrite concat16_length by exact Hcs; rewrite cbc_blocks_length; reflexivity).
    destruct pad.
    - rewrite (xor_bytes_comm (chain_last iv bs)). apply firstn_all2. rewrite app_length, Hcl.
      destruct (E_ok _ (xor_state_ok _ _ (padded_tail_ok rest Hr Hrb) Hlast)) as [Hel _]. rewrite Hel. lia.
    - rewrite app_nil_r. apply firstn_all2. lia.
  Qed.

  (* ---- results for arbitrary data ---- *)
  Lemma cbc_encrypt_with_empty iv pad : cbc_encrypt_with E iv [] pad = [].
  Proof. reflexivity. Qed.
  Lemma cbc_encrypt_with_unaligned iv data : length data mod 16 <> 0 -> cbc_encrypt_with E iv data false = [].
  Proof.
    intros H. unfold cbc_encrypt_with. destruct (length data =? 0); [reflexivity|].
    apply Nat.eqb_neq in H. rewrite H. reflexivity.
  Qed.
  (* pad = true, size > 0: the SP 800-38A encryption of the RFC 5652 padded data *)
  Lemma cbc_encrypt_with_padded iv data : bytes_ok data -> state_ok iv -> data <> [] ->
    exists bs, Forall state_ok bs /\ concat bs = pkcs7_pad data /\ length bs = length data / 16 + 1 /\
               cbc_encrypt_with E iv data true = concat (cbc_encrypt_blocks E iv bs).
  Proof.
    intros Hb Hiv Hne. destruct (split_blocks data Hb) as (bs & rest & -> & Hbs & Hr & Hrb).
    assert (Hlen : length (concat bs ++ rest) = 16 * length bs + length rest) by (rewrite app_length, concat16_length by exact Hbs; reflexivity).
    destruct (divmod16 _ _ _ Hlen Hr) as [Hdiv Hmod].
    exists (bs ++ [rest ++ repeat (N.of_nat (16 - length rest)) (16 - length rest)]).
    repeat split.
    - apply Forall_app. split; [exact Hbs | constructor; [apply padded_tail_ok; assumption | constructor]].
    - unfold pkcs7_pad, pkcs7_padlen. rewrite Hmod, concat_app. cbn [concat]. rewrite app_nil_r, app_assoc. reflexivity.
    - rewrite app_length, Hdiv. reflexivity.
    - rewrite cbc_encrypt_with_run by (try assumption; left; reflexivity).
      rewrite chain_app, concat_app. cbn [concat]. rewrite app_nil_r. reflexivity.
  Qed.

  (* pad = false, size a multiple of 16 *)
  Lemma cbc_encrypt_with_aligned iv data : bytes_ok data -> state_ok iv -> length data mod 16 = 0 ->
    exists bs, Forall state_ok bs /\ concat bs = data /\ cbc_encrypt_with E iv data false = concat (cbc_encrypt_blocks E iv bs).
  Proof.
    intros Hb Hiv Hm. destruct (split_blocks data Hb) as (bs & rest & -> & Hbs & Hr & Hrb).
    assert (Hlen : length (concat bs ++ rest) = 16 * length bs + length rest) by (rewrite app_length, concat16_length by exact Hbs; reflexivity).
    destruct (divmod16 _ _ _ Hlen Hr) as [Hdiv Hmod]. rewrite Hmod in Hm.
    destruct rest; [|discriminate]. exists bs. rewrite app_nil_r. repeat split; [exact Hbs|].
    destruct bs as [|b bs]; [reflexivity|].
    rewrite <- (app_nil_r (concat (b :: bs))) at 1.
    rewrite cbc_encrypt_with_run; try assumption; [apply app_nil_r | | right; reflexivity].
    inversion Hbs as [|? ? [Hbl _] _]; subst. cbn [concat]. destruct b; [discriminate | discriminate].
  Qed.

End CBCEnc.

Section CBCDec.
  Variable D : list N -> list N.
  Hypothesis D_ok : forall x, state_ok x -> state_ok (D x).

  Lemma dechain_ok : forall cs prev, Forall state_ok cs -> state_ok prev ->
    Forall state_ok (cbc_decrypt_blocks D prev cs).
  Proof.
    induction cs as [|c cs IH]; intros prev Hcs Hp; cbn [cbc_decrypt_blocks]; [constructor|].
    inversion Hcs as [|? ? Hc Hcs']; subst. constructor; [apply xor_state_ok; [apply D_ok, Hc | exact Hp] | apply IH; assumption].
  Qed.

  (* the while loop of CBCDecrypt; pre = the part of the input already consumed *)
  Lemma decrypt_loop_blocks : forall cs fuel size written prev pre out,
    Forall state_ok cs -> length cs <= fuel -> length pre = written -> size = written + 16 * length cs ->
    cbc_decrypt_loop fuel D size written prev (pre ++ concat cs) out =
    (size, out ++ concat (cbc_decrypt_blocks D prev cs)).
  Proof.
    induction cs as [|c cs IH]; intros fuel size written prev pre out Hcs Hf Hp Hs.
    - cbn [length concat cbc_decrypt_blocks] in *. rewrite !app_nil_r. rewrite Nat.mul_0_r, Nat.add_0_r in Hs. subst size.
      destruct fuel as [|f]; [reflexivity|]. cbn [cbc_decrypt_loop]. rewrite Nat.eqb_refl. reflexivity.
    - inversion Hcs as [|? ? [Hc _] Hcs']; subst. cbn [length] in Hf. destruct fuel as [|f]; [lia|].
      cbn [cbc_decrypt_loop concat].
      destruct (length pre =? length pre + 16 * length (c :: cs)) eqn:Ec; [apply Nat.eqb_eq in Ec; cbn [length] in Ec; lia|].
      cbn [negb]. rewrite skipn_len_app by reflexivity. rewrite firstn_len_app by (symmetry; exact Hc).
      rewrite app_assoc. rewrite IH by (try assumption; try (rewrite app_length); cbn [length]; lia).
      cbn [cbc_decrypt_blocks concat]. rewrite <- app_assoc. reflexivity.
  Qed.

  Lemma dechain_length : forall cs prev, length (cbc_decrypt_blocks D prev cs) = length cs.
  Proof. induction cs as [|c cs IH]; intros prev; cbn [cbc_decrypt_blocks length]; [reflexivity | rewrite IH; reflexivity]. Qed.

  Lemma plain_length cs iv : Forall state_ok cs -> state_ok iv ->
    length (concat (cbc_decrypt_blocks D iv cs)) = 16 * length cs.
  Proof. intros Hcs Hiv. rewrite concat16_length by (apply dechain_ok; assumption). rewrite dechain_length. reflexivity. Qed.

  (* CBCDecrypt, pad = false, on whole blocks *)
  Lemma cbc_decrypt_with_blocks iv cs : Forall state_ok cs -> state_ok iv ->
    cbc_decrypt_with D iv (concat cs) false = concat (cbc_decrypt_blocks D iv cs).
  Proof.
    intros Hcs Hiv. unfold cbc_decrypt_with. pose proof (concat16_length _ Hcs) as Hl.
    destruct (divmod16 (length (concat cs)) (length cs) 0) as [Hdiv Hmod]; [lia | lia|]. rewrite Hdiv, Hmod.
    destruct (length (concat cs) =? 0) eqn:E0.
    { apply Nat.eqb_eq in E0. destruct cs; [reflexivity | cbn [length] in Hl; lia]. }
    cbn [Nat.eqb negb].
    rewrite (decrypt_loop_blocks cs (length cs + 1) _ 0 iv [] []) by (try assumption; cbn [length]; lia).
    cbn [app]. apply firstn_all2. rewrite plain_length by assumption. lia.
  Qed.

  (* the branch-free padding check loop: it looks at the last `padsize` bytes *)
  Lemma padcheck_spec p : N.to_nat p <= 16 -> forall i rout fail, i <= 16 -> i <= length rout ->
    cbc_padcheck_loop i p rout fail = fail || negb (forallb (N.eqb p) (firstn (N.to_nat p - (16 - i)) rout)).
  Proof.
    intros Hp. induction i as [|i IH]; intros rout fail Hi Hl; cbn [cbc_padcheck_loop].
    - replace (N.to_nat p - (16 - 0)) with 0 by lia. cbn [firstn forallb negb]. rewrite Bool.orb_false_r. reflexivity.
    - destruct rout as [|b r]; [cbn [length] in Hl; lia|]. cbn [length] in Hl.
      rewrite IH by lia.
      destruct (Z.ltb_spec (16 - Z.of_N p) (Z.of_nat (S i))) as [Hc|Hc].
      + replace (N.to_nat p - (16 - S i)) with (S (N.to_nat p - (16 - i))) by lia.
        cbn [firstn forallb]. rewrite (N.eqb_sym b p).
        destruct fail, (N.eqb p b), (forallb (N.eqb p) (firstn (N.to_nat p - (16 - i)) r)); reflexivity.
      + replace (N.to_nat p - (16 - S i)) with 0 by lia. replace (N.to_nat p - (16 - i)) with 0 by lia.
        cbn [firstn forallb negb andb]. rewrite !Bool.orb_false_r. reflexivity.
  Qed.

  (* CBCDecrypt, pad = true, on whole blocks: decrypt everything, then accept exactly the well-formed paddings *)
  Lemma cbc_decrypt_with_blocks_pad iv cs : Forall state_ok cs -> state_ok iv ->
    cbc_decrypt_with D iv (concat cs) true =
    match pkcs7_unpad (concat (cbc_decrypt_blocks D iv cs)) with Some d => d | None => [] end.
  Proof.
    intros Hcs Hiv. unfold cbc_decrypt_with. pose proof (concat16_length _ Hcs) as Hl.
    destruct (divmod16 (length (concat cs)) (length cs) 0) as [Hdiv Hmod]; [lia | lia|]. rewrite Hdiv, Hmod.
    destruct (length (concat cs) =? 0) eqn:E0.
    { apply Nat.eqb_eq in E0. destruct cs; [reflexivity | cbn [length] in Hl; lia]. }
    apply Nat.eqb_neq in E0. cbn [Nat.eqb negb].
    rewrite (decrypt_loop_blocks cs (length cs + 1) _ 0 iv [] []) by (try assumption; cbn [length]; lia).
    cbn [app]. pose proof (plain_length cs iv Hcs Hiv) as HP.
    set (P := concat (cbc_decrypt_blocks D iv cs)) in *. rewrite Hl, <- HP.
    unfold pkcs7_unpad. destruct (rev P) as [|p r] eqn:Er.
    { apply (f_equal (@length N)) in Er. rewrite rev_length in Er. cbn [length] in Er. lia. }
    assert (Hrl : length (p :: r) = length P) by (rewrite <- Er; apply rev_length).
    destruct (N.eqb p 0 || (16 <? p)%N) eqn:Ef.
    - (* last byte 0 or above 16 *)
      rewrite padcheck_spec by (cbn [N.to_nat]; lia). cbn [orb].
      assert (Hk : (1 <=? N.to_nat p) && (N.to_nat p <=? 16) = false).
      { apply Bool.orb_true_iff in Ef. destruct Ef as [Ef|Ef].
        - apply N.eqb_eq in Ef. subst p. reflexivity.
        - apply N.ltb_lt in Ef. destruct (1 <=? N.to_nat p); [|reflexivity]. cbn [andb]. apply Nat.leb_gt. lia. }
      rewrite Hk. reflexivity.
    - apply Bool.orb_false_iff in Ef. destruct Ef as [Ef1 Ef2]. apply N.eqb_neq in Ef1. apply N.ltb_ge in Ef2.
      rewrite padcheck_spec by lia. cbn [orb]. rewrite Nat.sub_0_r, <- Er, firstn_rev, forallb_rev'.
      assert (H1 : (1 <=? N.to_nat p) = true) by (apply Nat.leb_le; lia).
      assert (H2 : (N.to_nat p <=? 16) = true) by (apply Nat.leb_le; lia).
      assert (H3 : (N.to_nat p <=? length P) = true) by (apply Nat.leb_le; lia).
      rewrite H1, H2, H3. cbn [andb].
      destruct (forallb (N.eqb p) (skipn (length P - N.to_nat p) P)); reflexivity.
  Qed.

  Lemma cbc_decrypt_with_empty iv pad : cbc_decrypt_with D iv [] pad = [].
  Proof. reflexivity. Qed.
  Lemma cbc_decrypt_with_unaligned iv data pad : length data mod 16 <> 0 -> cbc_decrypt_with D iv data pad = [].
  Proof.
    intros H. unfold cbc_decrypt_with. destruct (length data =? 0); [reflexivity|].
    apply Nat.eqb_neq in H. rewrite H. reflexivity.
  Qed.

End CBCDec.

Lemma aligned_blocks data : bytes_ok data -> length data mod 16 = 0 ->
  exists cs, Forall state_ok cs /\ concat cs = data.
Proof.
  intros Hb Hm. destruct (split_blocks data Hb) as (bs & rest & -> & Hbs & Hr & Hrb).
  assert (Hlen : length (concat bs ++ rest) = 16 * length bs + length rest) by (rewrite app_length, concat16_length by exact Hbs; reflexivity).
  destruct (divmod16 _ _ _ Hlen Hr) as [Hdiv Hmod]. rewrite Hmod in Hm.
  destruct rest; [|discriminate]. exists bs. rewrite app_nil_r. split; [exact Hbs | reflexivity].
Qed.


Section CBCRoundtrip.
  Variables E D : list N -> list N.
  Hypothesis E_ok : forall x, state_ok x -> state_ok (E x).
  Hypothesis D_ok : forall x, state_ok x -> state_ok (D x).
  (* ---- round trip, given that D inverts E on blocks ---- *)
  Hypothesis DE : forall x, state_ok x -> D (E x) = x.

  Lemma dechain_chain : forall bs prev, Forall state_ok bs -> state_ok prev ->
    cbc_decrypt_blocks D prev (cbc_encrypt_blocks E prev bs) = bs.
  Proof.
    induction bs as [|b bs IH]; intros prev Hbs Hp; cbn [cbc_encrypt_blocks cbc_decrypt_blocks]; [reflexivity|].
    inversion Hbs as [|? ? Hb Hbs']; subst.
    pose proof (xor_state_ok _ _ Hb Hp) as Hx. rewrite DE by exact Hx.
    rewrite xor_bytes_invol by (destruct Hb as [-> _]; destruct Hp as [-> _]; lia).
    rewrite IH by (try assumption; apply E_ok, Hx). reflexivity.
  Qed.

  Lemma cbc_with_roundtrip_pad iv data : bytes_ok data -> state_ok iv ->
    cbc_decrypt_with D iv (cbc_encrypt_with E iv data true) true = data.
  Proof.
    intros Hb Hiv. destruct data as [|x data']; [reflexivity|]. set (data := x :: data') in *.
    destruct (cbc_encrypt_with_padded E E_ok iv data Hb Hiv) as (bs & Hbs & Hcat & _ & ->); [discriminate|].
    destruct (chain_ok E E_ok bs iv Hbs Hiv) as [Hcs _].
    rewrite (cbc_decrypt_with_blocks_pad D D_ok) by assumption. rewrite dechain_chain by assumption.
    rewrite Hcat, pkcs7_unpad_pad. reflexivity.
  Qed.

  Lemma cbc_with_roundtrip_nopad iv data : bytes_ok data -> state_ok iv -> length data mod 16 = 0 ->
    cbc_decrypt_with D iv (cbc_encrypt_with E iv data false) false = data.
  Proof.
    intros Hb Hiv Hm. destruct (cbc_encrypt_with_aligned E E_ok iv data Hb Hiv Hm) as (bs & Hbs & Hcat & ->).
    destruct (chain_ok E E_ok bs iv Hbs Hiv) as [Hcs _].
    rewrite (cbc_decrypt_with_blocks D D_ok) by assumption. rewrite dechain_chain by assumption. exact Hcat.
  Qed.
End CBCRoundtrip.


(* ======================= the AES-256-CBC wrappers ======================= *)
Section AES256CBC.
  Variables key iv : list N.
  Hypothesis key_len : length key = 32.
  Hypothesis key_bytes : bytes_ok key.
  Hypothesis iv_len : length iv = 16.
  Hypothesis iv_bytes : bytes_ok iv.

  Let E := aes256_encrypt_block_spec key.
  Let D := aes256_decrypt_block_spec key.
  Let E_ok : forall x, state_ok x -> state_ok (E x) := fun x => aes256_encrypt_block_ok key x key_len key_bytes.
  Let D_ok : forall x, state_ok x -> state_ok (D x) := fun x => aes256_decrypt_block_ok key x key_len key_bytes.
  Let DE : forall x, state_ok x -> D (E x) = x :=
    fun x Hx => aes256_inv_cipher key x key_len key_bytes (proj1 Hx) (proj2 Hx).
  Let iv_ok : state_ok iv := conj iv_len iv_bytes.

  (* THEOREM cbc_roundtrip (pad = true: every data, the empty one included) *)
  Theorem cbc_roundtrip data : bytes_ok data ->
    cbc_decrypt key iv (cbc_encrypt key iv data true) true = data.
  Proof. intros Hb. exact (cbc_with_roundtrip_pad E D E_ok D_ok DE iv data Hb iv_ok). Qed.

  (* pad = false: sizes that are a multiple of 16 *)
  Theorem cbc_roundtrip_nopad data : bytes_ok data -> length data mod 16 = 0 ->
    cbc_decrypt key iv (cbc_encrypt key iv data false) false = data.
  Proof. intros Hb Hm. exact (cbc_with_roundtrip_nopad E D E_ok D_ok DE iv data Hb iv_ok Hm). Qed.

  (* ... other sizes: CBCEncrypt with pad = false returns 0, CBCDecrypt returns 0 whatever pad is; size 0: both return 0 *)
  Theorem cbc_encrypt_unaligned data : length data mod 16 <> 0 -> cbc_encrypt key iv data false = [].
  Proof. apply cbc_encrypt_with_unaligned. Qed.
  Theorem cbc_decrypt_unaligned data pad : length data mod 16 <> 0 -> cbc_decrypt key iv data pad = [].
  Proof. apply cbc_decrypt_with_unaligned. Qed.
  Theorem cbc_encrypt_empty pad : cbc_encrypt key iv [] pad = [].
  Proof. reflexivity. Qed.
  Theorem cbc_decrypt_empty pad : cbc_decrypt key iv [] pad = [].
  Proof. reflexivity. Qed.

  (* THEOREM cbc_encrypt_is_sp80038a, pad = true (size > 0; for size 0 the C++ returns 0, see cbc_encrypt_empty):
     the output is the SP 800-38A CBC encryption of data followed by the RFC 5652 padding, and
     (size / 16 + 1) * 16 bytes are written *)
  Theorem cbc_encrypt_is_sp80038a data : bytes_ok data -> data <> [] ->
    cbc_encrypt key iv data true = cbc_encrypt_spec key iv (pkcs7_pad data) /\
    cbc_encrypt_ret key iv data true = (length data / 16 + 1) * 16.
  Proof.
    intros Hb Hne. unfold cbc_encrypt_ret, cbc_encrypt, cbc_encrypt_spec. fold E.
    destruct (cbc_encrypt_with_padded E E_ok iv data Hb iv_ok Hne) as (bs & Hbs & Hcat & Hn & ->).
    rewrite <- Hcat, blocks16_concat by exact Hbs. split; [reflexivity|].
    destruct (chain_ok E E_ok bs iv Hbs iv_ok) as [Hcs _].
    rewrite concat16_length by exact Hcs. rewrite cbc_blocks_length, Hn. lia.
  Qed.

  (* pad = false and size a multiple of 16 (0 included): the SP 800-38A CBC encryption of data, size bytes *)
  Theorem cbc_encrypt_nopad_is_sp80038a data : bytes_ok data -> length data mod 16 = 0 ->
    cbc_encrypt key iv data false = cbc_encrypt_spec key iv data /\ cbc_encrypt_ret key iv data false = length data.
  Proof.
    intros Hb Hm. unfold cbc_encrypt_ret, cbc_encrypt, cbc_encrypt_spec. fold E.
    destruct (cbc_encrypt_with_aligned E E_ok iv data Hb iv_ok Hm) as (bs & Hbs & Hcat & ->).
    rewrite <- Hcat, blocks16_concat by exact Hbs. split; [reflexivity|].
    destruct (chain_ok E E_ok bs iv Hbs iv_ok) as [Hcs _].
    rewrite !concat16_length by assumption. rewrite cbc_blocks_length. reflexivity.
  Qed.

  (* CBCDecrypt with pad = false and size a multiple of 16: the SP 800-38A CBC decryption, size bytes *)
  Theorem cbc_decrypt_nopad_is_sp80038a data : bytes_ok data -> length data mod 16 = 0 ->
    cbc_decrypt key iv data false = cbc_decrypt_spec key iv data /\ cbc_decrypt_ret key iv data false = length data.
  Proof.
    intros Hb Hm. unfold cbc_decrypt_ret, cbc_decrypt, cbc_decrypt_spec. fold D.
    destruct (aligned_blocks data Hb Hm) as (cs & Hcs & <-).
    rewrite (cbc_decrypt_with_blocks D D_ok iv cs Hcs iv_ok).
    rewrite blocks16_concat by exact Hcs. split; [reflexivity|].
    rewrite (plain_length D D_ok cs iv Hcs iv_ok). rewrite concat16_length by exact Hcs. reflexivity.
  Qed.

  (* CBCDecrypt with pad = true: everything is decrypted as with pad = false, then the padding check
     accepts exactly what pkcs7_unpad accepts (pkcs7_unpad_some_iff: plaintext = d ++ k bytes of value k,
     1 <= k <= 16) and d is returned; otherwise 0 is returned. *)
  Theorem cbc_decrypt_padding_check data : bytes_ok data ->
    cbc_decrypt key iv data true =
    match pkcs7_unpad (cbc_decrypt key iv data false) with Some d => d | None => [] end.
  Proof.
    intros Hb. unfold cbc_decrypt. fold D.
    destruct (Nat.eq_dec (length data mod 16) 0) as [Hm|Hm].
    - destruct (aligned_blocks data Hb Hm) as (cs & Hcs & <-).
      rewrite (cbc_decrypt_with_blocks D D_ok iv cs Hcs iv_ok).
      apply (cbc_decrypt_with_blocks_pad D D_ok iv cs Hcs iv_ok).
    - rewrite !(cbc_decrypt_with_unaligned D iv data _ Hm). reflexivity.
  Qed.

  (* spelled out *)
  Corollary cbc_decrypt_good_padding data d k : bytes_ok data -> 1 <= k <= 16 ->
    cbc_decrypt key iv data false = d ++ repeat (N.of_nat k) k -> cbc_decrypt key iv data true = d.
  Proof.
    intros Hb Hk Hp. rewrite cbc_decrypt_padding_check by exact Hb.
    assert (Hs : pkcs7_unpad (cbc_decrypt key iv data false) = Some d) by (apply pkcs7_unpad_some_iff; exists k; split; assumption).
    rewrite Hs. reflexivity.
  Qed.
  Corollary cbc_decrypt_bad_padding data : bytes_ok data ->
    (forall d k, 1 <= k <= 16 -> cbc_decrypt key iv data false <> d ++ repeat (N.of_nat k) k) ->
    cbc_decrypt key iv data true = [].
  Proof.
    intros Hb Hn. rewrite cbc_decrypt_padding_check by exact Hb.
    destruct (pkcs7_unpad (cbc_decrypt key iv data false)) as [d|] eqn:Es; [|reflexivity].
    apply pkcs7_unpad_some_iff in Es. destruct Es as (k & Hk & Hp). exfalso. exact (Hn d k Hk Hp).
  Qed.
End AES256CBC.

(* rejected paddings, in terms of the last plaintext byte p (= the first byte of the reversed plaintext) *)
Lemma pkcs7_unpad_bad_last padded p r : rev padded = p :: r -> (p = 0 \/ 16 < p)%N -> pkcs7_unpad padded = None.
Proof.
  intros Er Hp. unfold pkcs7_unpad. rewrite Er.
  destruct Hp as [-> | Hp]; [reflexivity|].
  destruct (1 <=? N.to_nat p); [|reflexivity]. destruct (N.to_nat p <=? 16) eqn:E2; [|reflexivity].
  apply Nat.leb_le in E2. lia.
Qed.
Lemma pkcs7_unpad_bad_byte padded p r j b : rev padded = p :: r -> j < N.to_nat p ->
  nth_error (p :: r) j = Some b -> b <> p -> pkcs7_unpad padded = None.
Proof.
  intros Er Hj Hn Hb. destruct (pkcs7_unpad padded) as [d|] eqn:Es; [|reflexivity]. exfalso.
  apply pkcs7_unpad_some_iff in Es. destruct Es as (k & Hk & ->).
  rewrite rev_app_distr, rev_repeat' in Er.
  assert (Hp : p = N.of_nat k).
  { destruct k as [|k]; [lia|]. cbn [repeat app] in Er. inversion Er. reflexivity. }
  subst p. rewrite Nat2N.id in Hj. rewrite <- Er in Hn.
  rewrite nth_error_app1 in Hn by (rewrite repeat_length; exact Hj).
  apply nth_error_In, repeat_spec in Hn. exact (Hb Hn).
Qed.
Lemma pkcs7_unpad_none_iff padded :
  pkcs7_unpad padded = None <-> ~ exists d k, 1 <= k <= 16 /\ padded = d ++ repeat (N.of_nat k) k.
Proof.
  split.
  - intros Hn (d & k & Hk & Hp). assert (Hs : pkcs7_unpad padded = Some d) by (apply pkcs7_unpad_some_iff; exists k; split; assumption).
    rewrite Hs in Hn. discriminate.
  - intros Hn. destruct (pkcs7_unpad padded) as [d|] eqn:Es; [|reflexivity]. exfalso. apply Hn.
    apply pkcs7_unpad_some_iff in Es. destruct Es as (k & Hk & Hp). exists d, k. split; assumption.
Qed.

(* ======================= test vectors ======================= *)
Definition hexv (l : list N) : Z := be_value l.
Definition unhex (k : nat) (v : Z) : list N := be_bytes k v.

(* FIPS 197 Appendix C.3 (AES-256, Nk = 8, Nr = 14) *)
Definition c3_key : list N := map N.of_nat (seq 0 32).   (* 000102...1f *)
Example fips197_c3_cipher :
  hexv (aes256_encrypt_block_spec c3_key (unhex 16 0x00112233445566778899aabbccddeeff)) = 0x8ea2b7ca516745bfeafc49904b496089%Z.
Proof. vm_compute. reflexivity. Qed.
Example fips197_c3_inv_cipher :
  hexv (aes256_decrypt_block_spec c3_key (unhex 16 0x8ea2b7ca516745bfeafc49904b496089)) = 0x00112233445566778899aabbccddeeff%Z.
Proof. vm_compute. reflexivity. Qed.

(* FIPS 197 Appendix A.3: expansion of 603deb10 15ca71be 2b73aef0 857d7781 1f352c07 3b6108d7 2d9810a3 0914dff4 *)
Definition a3_key : list N := unhex 32 0x603deb1015ca71be2b73aef0857d77811f352c073b6108d72d9810a30914dff4.
Example fips197_a3_key_expansion :
  let w := map hexv (key_expansion a3_key) in
  length w = 60 /\
  firstn 13 w = [0x603deb10; 0x15ca71be; 0x2b73aef0; 0x857d7781; 0x1f352c07; 0x3b6108d7; 0x2d9810a3; 0x0914dff4;
                 0x9ba35411; 0x8e6925af; 0xa51a8b5f; 0x2067fcde; 0xa8b09c1a]%Z /\
  nth_error w 16 = Some 0xd59aecb8%Z /\ skipn 56 w = [0xfe4890d1; 0xe6188d0b; 0x046df344; 0x706c631e]%Z.
Proof. vm_compute. repeat split; reflexivity. Qed.

(* NIST SP 800-38A F.2.5 CBC-AES256.Encrypt / F.2.6 CBC-AES256.Decrypt (key of A.3, IV 000102...0f, four blocks) *)
Definition f25_iv : list N := map N.of_nat (seq 0 16).
Definition f25_plain : list N :=
  unhex 64 0x6bc1bee22e409f96e93d7e117393172aae2d8a571e03ac9c9eb76fac45af8e5130c81c46a35ce411e5fbc1191a0a52eff69f2445df4f9b17ad2b417be66c3710.
Definition f25_cipher : list N :=
  unhex 64 0xf58c4c04d6e5f1ba779eabfb5f7bfbd69cfc4e967edb808d679f777bc6702c7d39f23369a9d9bacfa530e26304231461b2eb05e2c39be9fcda6c19078c6a9d1b.
Example sp80038a_f25_spec : cbc_encrypt_spec a3_key f25_iv f25_plain = f25_cipher.
Proof. vm_compute. reflexivity. Qed.
Example sp80038a_f26_spec : cbc_decrypt_spec a3_key f25_iv f25_cipher = f25_plain.
Proof. vm_compute. reflexivity. Qed.
Example sp80038a_f25_model : cbc_encrypt a3_key f25_iv f25_plain false = f25_cipher.
Proof. vm_compute. reflexivity. Qed.
Example sp80038a_f26_model : cbc_decrypt a3_key f25_iv f25_cipher false = f25_plain.
Proof. vm_compute. reflexivity. Qed.
(* first two blocks only *)
Example sp80038a_f25_two_blocks :
  hexv (cbc_encrypt a3_key f25_iv (firstn 32 f25_plain) false) = 0xf58c4c04d6e5f1ba779eabfb5f7bfbd69cfc4e967edb808d679f777bc6702c7d%Z.
Proof. vm_compute. reflexivity. Qed.

(* with padding (expected values from `openssl enc -aes-256-cbc -K .. -iv ..`, which pads as RFC 5652):
   5 bytes -> one block; 16 bytes -> two blocks, the second one being the encryption of 16 bytes 0x10 *)
Example cbc_pad_5_bytes :
  hexv (cbc_encrypt a3_key f25_iv (firstn 5 f25_plain) true) = 0x117fb057f4728629cee1de6a7afe3370%Z.
Proof. vm_compute. reflexivity. Qed.
Example cbc_pad_16_bytes :
  hexv (cbc_encrypt a3_key f25_iv (firstn 16 f25_plain) true) = 0xf58c4c04d6e5f1ba779eabfb5f7bfbd6485a5c81519cf378fa36d42b8547edc0%Z.
Proof. vm_compute. reflexivity. Qed.
Example cbc_unpad_examples :
  cbc_decrypt a3_key f25_iv (unhex 16 0x117fb057f4728629cee1de6a7afe3370) true = firstn 5 f25_plain /\
  cbc_decrypt a3_key f25_iv (unhex 32 0xf58c4c04d6e5f1ba779eabfb5f7bfbd6485a5c81519cf378fa36d42b8547edc0) true = firstn 16 f25_plain /\
  (* a block that does not end in a padding: 0 is returned *)
  cbc_decrypt a3_key f25_iv (firstn 16 f25_cipher) true = [] /\
  (* not a multiple of 16 / nothing: 0 is returned *)
  cbc_decrypt a3_key f25_iv (firstn 17 f25_cipher) false = [] /\ cbc_encrypt a3_key f25_iv (firstn 17 f25_plain) false = [] /\
  cbc_encrypt a3_key f25_iv [] true = [].
Proof. vm_compute. repeat split; reflexivity. Qed.
(* the ciphertext of "one full block of padding" (what RFC 5652 prescribes for the empty message, which
   CBCEncrypt never produces since it returns 0 for size 0) decrypts to 0 bytes: the return value 0 of
   CBCDecrypt does not distinguish this from a failure *)
Example cbc_decrypt_full_padding_block :
  cbc_decrypt a3_key f25_iv (cbc_encrypt_spec a3_key f25_iv (pkcs7_pad [])) true = [] /\
  pkcs7_unpad (cbc_decrypt a3_key f25_iv (cbc_encrypt_spec a3_key f25_iv (pkcs7_pad [])) false) = Some [].
Proof. vm_compute. split; reflexivity. Qed.
