(* C02 along the chain without assuming the ids distinct: if the id determines the transaction
   (collision freeness of the hash) and the coinbases of the chain are pairwise different (BIP34), a
   chain accepted from genesis never contains the same transaction twice. *)
From BV Require Import lib.Ints gen.Params_gen model.Amount model.Ledger proofs.LedgerMap proofs.LedgerConnect
  proofs.LedgerValue proofs.LedgerHistory proofs.LedgerSpend.
Local Open Scope Z_scope.

Lemma map_eq_app_cons {A B} (f : A -> B) (l : list A) pre x post :
  map f l = pre ++ x :: post ->
  exists pre' t post', l = pre' ++ t :: post' /\ pre = map f pre' /\ x = f t /\ post = map f post'.
Proof.
  revert pre. induction l as [|a l IH]; intros pre E; cbn [map] in E.
  - destruct pre; discriminate.
  - destruct pre as [|p pre]; cbn [app] in E.
    + injection E as <- <-. exists [], a, l. repeat split; reflexivity.
    + injection E as <- E. destruct (IH _ E) as [pre' [t [post' [-> [-> [-> ->]]]]]].
      exists (a :: pre'), t, post'. repeat split; reflexivity.
Qed.

(* every input of a transaction of a chain accepted from a state exists in the view left by all the
   transactions before it (of its block and of the earlier blocks) *)
Lemma replay_from_spend_exists cf bs : forall s s' pre t h post,
  replay_from cf s bs = Some s' ->
  chain_htxs bs (cs_height s + 1) = pre ++ (t, h) :: post -> is_cb t = false ->
  exists u_pre, apply_htxs (cs_utxo s) pre = Some u_pre /\ forall o, In o (tx_spends t) -> in_dom u_pre o.
Proof.
  induction bs as [|b r IH]; intros s s' pre t h post; cbn [replay_from chain_htxs].
  - intros _ E. destruct pre; discriminate.
  - destruct (connect_tip cf s b) as [s1 [e|]] eqn:Ect; [discriminate|]. intros Hr E Ecb.
    apply connect_tip_ok in Ect. destruct Ect as [u' [undo [Hcb ->]]].
    apply app_eq_app in E. destruct E as [l [[E1 E2]|[E1 E2]]].
    + (* the transaction is in this block, or the split is exactly at the block boundary *)
      destruct l as [|x l].
      * rewrite app_nil_r in E1. cbn [app] in E2.
        (* pre = the whole block; (t,h) is the first transaction of the rest *)
        pose proof Hcb as Hcb0. apply connect_block_inv in Hcb0. destruct Hcb0 as [_ [_ [fees [sf [cb_out [Hl _]]]]]].
        apply tx_loop_apply in Hl. rewrite apply_txs_htxs in Hl.
        assert (Hh : cs_height {| cs_utxo := u'; cs_chain := (b, undo) :: cs_chain s |} + 1 = cs_height s + 1 + 1).
        { unfold cs_height. cbn [cs_chain length]. lia. }
        rewrite <- Hh in E2. symmetry in E2.
        destruct (IH _ _ [] t h post Hr E2 Ecb) as [u_pre [Ha Hd]]. cbn in Ha. injection Ha as <-.
        exists u'. split; [rewrite <- E1; exact Hl|exact Hd].
      * cbn [app] in E2. injection E2 as Ex E2. subst x.
        apply map_eq_app_cons in E1. destruct E1 as [pre' [t' [post' [Eb [-> [Et _]]]]]].
        injection Et as Et1 Et2. subst t' h.
        destruct (spend_exists _ _ _ _ _ _ pre' t post' Hcb Eb Ecb) as [u_pre [Ha Hd]].
        exists u_pre. split; [rewrite <- apply_txs_htxs; exact Ha|exact Hd].
    + (* later block *)
      pose proof Hcb as Hcb0. apply connect_block_inv in Hcb0. destruct Hcb0 as [_ [_ [fees [sf [cb_out [Hl _]]]]]].
      apply tx_loop_apply in Hl. rewrite apply_txs_htxs in Hl.
      assert (Hh : cs_height {| cs_utxo := u'; cs_chain := (b, undo) :: cs_chain s |} + 1 = cs_height s + 1 + 1).
      { unfold cs_height. cbn [cs_chain length]. lia. }
      rewrite <- Hh in E2.
      destruct (IH _ _ l t h post Hr E2 Ecb) as [u_pre [Ha Hd]]. cbn [cs_utxo] in Ha.
      exists u_pre. split; [|exact Hd]. rewrite E1, apply_htxs_app, Hl. exact Ha.
Qed.

Lemma replay_from_tx_ok cf bs : forall s s' t h,
  replay_from cf s bs = Some s' -> In (t, h) (chain_htxs bs (cs_height s + 1)) -> tx_ok t.
Proof.
  induction bs as [|b r IH]; intros s s' t h; cbn [replay_from chain_htxs]; [intros _ []|].
  destruct (connect_tip cf s b) as [s1 [e|]] eqn:Ect; [discriminate|]. intros Hr Hin.
  apply connect_tip_ok in Ect. destruct Ect as [u' [undo [Hcb ->]]].
  apply in_app_or in Hin. destruct Hin as [Hin|Hin].
  - apply in_map_iff in Hin. destruct Hin as [t0 [E0 Hin]]. injection E0 as -> _.
    apply connect_block_inv in Hcb. destruct Hcb as [Hck _].
    destruct (check_block_none _ Hck) as [cbt [rest [_ [_ [_ Hok]]]]]. rewrite Forall_forall in Hok. apply Hok. exact Hin.
  - apply (IH _ _ t h Hr).
    replace (cs_height {| cs_utxo := u'; cs_chain := (b, undo) :: cs_chain s |} + 1) with (cs_height s + 1 + 1)
      by (unfold cs_height; cbn [cs_chain length]; lia).
    exact Hin.
Qed.

Lemma chain_htxs_fst bs h : map fst (chain_htxs bs h) = concat bs.
Proof.
  revert h. induction bs as [|b r IH]; intros h; cbn [chain_htxs concat]; [reflexivity|].
  rewrite map_app, map_map, IH. cbn [fst]. rewrite map_id. reflexivity.
Qed.

Lemma nodup_filter_twice {A} (f : A -> Z) (p : A -> bool) (l : list A) a b c x :
  NoDup (map f (filter p l)) -> l = a ++ x :: b ++ x :: c -> p x = true -> False.
Proof.
  intros Hn -> Hp. rewrite filter_app in Hn. cbn [filter] in Hn. rewrite Hp in Hn.
  rewrite filter_app in Hn. cbn [filter] in Hn. rewrite Hp in Hn.
  rewrite map_app in Hn. cbn [map] in Hn. apply NoDup_remove_2 in Hn. apply Hn.
  apply in_or_app. right. rewrite map_app. apply in_or_app. right. left. reflexivity.
Qed.

Theorem accepted_chain_distinct_ids cf bs s :
  replay cf bs = Some s ->
  (forall t t', In t (concat bs) -> In t' (concat bs) -> t_id t = t_id t' -> t = t') ->
  NoDup (map t_id (filter is_cb (concat bs))) ->
  NoDup (map t_id (concat bs)).
Proof.
  intros Hr Hinj Hcbs. unfold replay in Hr.
  set (L := chain_htxs bs 1).
  assert (HL : map fst L = concat bs) by apply chain_htxs_fst.
  assert (G : forall P S, L = P ++ S -> NoDup (map (fun th : htx => t_id (fst th)) P)).
  { induction P as [|[t h] P IH] using rev_ind; intros S E; [constructor|].
    rewrite <- app_assoc in E. cbn [app] in E. specialize (IH ((t, h) :: S) E).
    rewrite map_app. cbn [map fst]. apply nodup_snoc; [exact IH|]. intros Hin.
    apply in_map_iff in Hin. destruct Hin as [[t0 h0] [Eid Ht0]]. cbn [fst] in Eid.
    assert (Hin_t : In t (concat bs)).
    { rewrite <- HL, E, map_app. apply in_or_app. right. left. reflexivity. }
    assert (Hin_t0 : In t0 (concat bs)).
    { rewrite <- HL, E, map_app. apply in_or_app. left. apply (in_map fst) in Ht0. exact Ht0. }
    assert (t0 = t) by (apply Hinj; assumption). subst t0.
    destruct (is_cb t) eqn:Ecb.
    - (* two coinbases with the same id *)
      apply in_split in Ht0. destruct Ht0 as [P1 [P2 EP]].
      apply (nodup_filter_twice t_id is_cb (concat bs) (map fst P1) (map fst P2) (map fst S) t Hcbs); [|exact Ecb].
      rewrite <- HL, E, EP. repeat (rewrite map_app || rewrite <- app_assoc || (progress cbn [map fst app])).
      reflexivity.
    - (* a non-coinbase transaction: its first input was consumed by the first copy *)
      assert (Hne : t_in t <> []).
      { assert (Hin : In (t, h) (chain_htxs bs (cs_height genesis_state + 1))).
        { change (In (t, h) L). rewrite E. apply in_or_app. right. left. reflexivity. }
        destruct (replay_from_tx_ok cf bs _ _ _ _ Hr Hin) as [Hne _]. exact Hne. }
      destruct (t_in t) as [|i0 ri] eqn:Ein; [congruence|].
      assert (Ho : In (i_prev i0) (tx_spends t)) by (unfold tx_spends; rewrite Ecb, Ein; left; reflexivity).
      change 1 with (cs_height genesis_state + 1) in L.
      destruct (replay_from_spend_exists cf bs genesis_state s P t h S Hr E Ecb) as [u_pre [Ha Hd]].
      specialize (Hd _ Ho). apply Hd. cbn [genesis_state cs_utxo] in Ha.
      destruct (apply_htxs_closed P [] u_pre I Ha IH) as [_ [_ [_ Cl]]]; [intros; reflexivity|].
      rewrite Cl.
      assert (Hex : existsb (oeqb (i_prev i0)) (hspends P) = true).
      { apply existsb_oeqb_in. unfold hspends. apply in_concat. exists (tx_spends t). split; [|exact Ho].
        apply in_map_iff. exists (t, h0). split; [reflexivity|exact Ht0]. }
      rewrite Hex. reflexivity. }
  specialize (G L [] (eq_sym (app_nil_r L))).
  rewrite <- HL, map_map. exact G.
Qed.

(* C02 along the chain, for every history, from hash collision freeness and BIP34 only *)
Theorem once_across_history_inj cf ops :
  cf_bip30 cf = true ->
  let s := run cf genesis_state ops in
  (forall t t', In t (concat (chain_blocks s)) -> In t' (concat (chain_blocks s)) -> t_id t = t_id t' -> t = t') ->
  NoDup (map t_id (filter is_cb (concat (chain_blocks s)))) ->
  let l := chain_htxs (chain_blocks s) 1 in
  NoDup (hspends l) /\
  (forall k, In k (hspends l) -> lookup (hcreates l) k <> None) /\
  (forall k, lookup (cs_utxo s) k = if existsb (oeqb k) (hspends l) then None else lookup (hcreates l) k).
Proof.
  intros Hb s Hinj Hcbs. apply (once_across_history cf ops Hb).
  apply (accepted_chain_distinct_ids cf (chain_blocks s) s); [apply (history_independent cf ops Hb)|exact Hinj|exact Hcbs].
Qed.
