(* Size limits of the HTTP parser model: header accounting is exact, nothing is dispatched above
   the header and body caps, and the unread buffer stays below the line limit; C52. *)
From BV Require Import lib.Ints gen.Params_gen model.Http proofs.HttpLoop proofs.HttpHeaders proofs.HttpBody
  proofs.HttpRequest proofs.HttpFeed.
Local Open Scope Z_scope.

Definition zl (r : bytes) : Z := Z.of_nat (length r).

(* ---------------------------------------------------------------------------------------------- *)
(* 1. HTTPHeaders::Read: m_consumed grows by exactly the bytes taken from the buffer, whatever the
      number of calls; what it leaves unread is a line without terminator, within the line limit *)

Lemma headers_body_account w s r :
  match headers_body w s r with
  | Need s' r' => s' = s /\ r' = r /\ (length r <= MAX_LINE)%nat
  | Done s' r' | Adv s' r' => snd s' - snd s = zl r - zl r' /\ h_consumed (fst s') = h_consumed (fst s)
  | Fail _ _ => True
  end.
Proof.
  destruct s as [h here]. unfold headers_body.
  destruct (read_line MAX_LINE r) as [| |l rest n] eqn:E.
  - apply read_line_none in E. tauto.
  - exact I.
  - apply read_line_consumed in E. unfold zl.
    destruct (HTTP_MAX_HEADERS_SIZE <? here + Z.of_nat n + h_consumed h); [exact I|].
    destruct l as [|c l]; [cbn [fst snd]; split; [lia | reflexivity]|].
    destruct (contains_any [CR; LF; NUL] (c :: l)); [exact I|].
    destruct (find_byte COLON (c :: l)) as [pos|]; [|exact I].
    destruct (contains_any _ (firstn pos (c :: l))); [exact I|].
    destruct (firstn pos (c :: l)); [exact I|].
    destruct w; cbn [fst snd]; split; try lia; reflexivity.
Qed.

Lemma headers_loop_account w : forall f s r,
  match loop (headers_body w) f s r with
  | LNeed s' r' => snd s' - snd s = zl r - zl r' /\ h_consumed (fst s') = h_consumed (fst s) /\ (length r' <= MAX_LINE)%nat
  | LDone s' r' => snd s' - snd s = zl r - zl r' /\ h_consumed (fst s') = h_consumed (fst s)
  | _ => True
  end.
Proof.
  induction f as [|f IH]; intros s r; simpl; [exact I|].
  pose proof (headers_body_account w s r) as H.
  destruct (headers_body w s r) as [s1 r1|sf e|s1 r1|s1 r1]; auto.
  - destruct H as (-> & -> & Hl). repeat split; auto; lia.
  - specialize (IH s1 r1). destruct H as [H1 H2].
    destruct (loop (headers_body w) f s1 r1) as [s2 r2|sf2 e2|s2 r2|]; auto.
    + destruct IH as (I1 & I2 & I3). repeat split; auto; try lia; congruence.
    + destruct IH as (I1 & I2). split; [lia | congruence].
Qed.

Lemma headers_read_account w h r :
  match headers_read w h r with
  | Ret false h' r' => h_consumed h' = h_consumed h + (zl r - zl r') /\ (length r' <= MAX_LINE)%nat
  | Ret true h' r' => h_consumed h' = h_consumed h + (zl r - zl r')
  | Throw _ _ => True
  end.
Proof.
  unfold headers_read, run_loop.
  pose proof (headers_loop_account w (Datatypes.S (length r)) (h, 0) r) as H.
  destruct (loop (headers_body w) _ (h, 0) r) as [s' r'|sf e|s' r'|]; auto.
  - destruct H as (H1 & H2 & H3). destruct s' as [h' here']. unfold headers_finish. cbn [fst snd h_consumed] in *. split; [lia | exact H3].
  - destruct H as (H1 & H2). destruct s' as [h' here']. unfold headers_finish. cbn [fst snd h_consumed] in *. lia.
Qed.

(* ---------------------------------------------------------------------------------------------- *)
(* 2. the size invariant of a request: accounted header bytes and body (plus what the open chunk
      may still add) are within the caps *)

Definition open_rest (q : request) : Z :=
  match rq_chunk_size q with Some sz => sz - rq_chunk_read q | None => 0 end.
Definition size_inv (q : request) : Prop :=
  0 <= h_consumed (rq_headers q) <= HTTP_MAX_HEADERS_SIZE /\
  (0 <= open_rest q /\ zl (rq_body q) + open_rest q <= HTTP_MAX_BODY_SIZE).

Definition need_rest_ok (r' : bytes) : Prop := (length r' <= MAX_LINE)%nat.

Lemma chunk_crlf_caps q1 size rem1 : rq_chunk_size q1 = Some size -> rq_chunk_read q1 = size -> size_inv q1 ->
  match chunk_crlf q1 size rem1 with
  | Need q' r' => size_inv q' /\ need_rest_ok r'
  | Done q' _ | Adv q' _ => size_inv q'
  | Fail _ _ => True
  end.
Proof.
  intros Hcs Hrd [Hh Hb]. unfold chunk_crlf. replace (rq_chunk_read q1 =? size) with true by lia.
  destruct (read_line MAX_LINE rem1) as [| |l rest n] eqn:El.
  - apply read_line_none in El. split; [split; assumption | unfold need_rest_ok; tauto].
  - exact I.
  - destruct l; [|exact I].
    assert (Hq2 : size_inv (set_body_chunk (rq_body q1) None 0 q1)).
    { split; [exact Hh|]. unfold open_rest in *. cbn. rewrite Hcs in Hb. lia. }
    destruct rest; cbn [chunk_continue]; [split; [exact Hq2 | unfold need_rest_ok; simpl; lia] | exact Hq2].
Qed.

Lemma chunk_data_caps q size rem : rq_chunk_size q = Some size -> 0 <= rq_chunk_read q <= size -> size_inv q ->
  match chunk_data q size rem with
  | Need q' r' => size_inv q' /\ need_rest_ok r'
  | Done q' _ | Adv q' _ => size_inv q'
  | Fail _ _ => True
  end.
Proof.
  intros Hcs Hrd Hs. unfold chunk_data.
  destruct (Z.eq_dec (rq_chunk_read q) size) as [Heq|Hneq].
  - rewrite (chunk_bulk_none q size rem Heq). now apply chunk_crlf_caps.
  - assert (Hlt : rq_chunk_read q < size) by lia.
    destruct (Z_le_gt_dec (size - rq_chunk_read q) (Z.of_nat (length rem))) as [Hfull|Hpart].
    + pose proof (chunk_bulk_full q size rem [] Hlt Hfull) as Hb. rewrite !app_nil_r in Hb. rewrite Hb.
      apply chunk_crlf_caps; try reflexivity.
      destruct Hs as [Hh Hbd]. split; [exact Hh|]. unfold open_rest, zl in *. cbn. rewrite Hcs in Hbd.
      rewrite app_length, firstn_length. lia.
    + destruct (chunk_bulk_part q size rem Hlt ltac:(lia)) as [Hb _]. cbv zeta in Hb. rewrite Hb.
      unfold chunk_crlf. cbn [rq_chunk_read set_body_chunk].
      replace (rq_chunk_read q + Z.of_nat (length rem) =? size) with false by lia.
      cbn [chunk_continue]. split; [|unfold need_rest_ok; simpl; lia].
      destruct Hs as [Hh Hbd]. split; [exact Hh|]. unfold open_rest, zl in *. cbn. rewrite Hcs in Hbd.
      rewrite app_length. lia.
Qed.

Lemma ctod_caps q1 size rem : rq_chunk_size q1 = Some size -> 0 <= rq_chunk_read q1 <= size -> size_inv q1 ->
  match chunk_trailers_or_data q1 size rem with
  | Need q' r' => size_inv q' /\ need_rest_ok r'
  | Done q' _ | Adv q' _ => size_inv q'
  | Fail _ _ => True
  end.
Proof.
  intros Hcs Hrd Hs. unfold chunk_trailers_or_data. destruct (size =? 0) eqn:Ez; [|now apply chunk_data_caps].
  pose proof (headers_read_bound false (rq_headers q1) rem ltac:(destruct Hs; lia)) as Hb.
  pose proof (headers_read_account false (rq_headers q1) rem) as Ha.
  destruct Hs as [Hh Hbd].
  destruct (headers_read false (rq_headers q1) rem) as [[|] h r'|e h] eqn:Eh; [| |exact I].
  - split; [|exact Hbd]. cbn. pose proof (headers_read_true_decr _ _ _ _ _ Eh). unfold zl in *. lia.
  - destruct Ha as [Ha Hl]. split; [|exact Hl]. split; [|exact Hbd]. cbn.
    pose proof (headers_read_false_len _ _ _ _ _ Eh). unfold zl in *. lia.
Qed.

Definition rcaps (q : request) : Prop :=
  size_inv q /\ (is_chunked q = false -> rq_chunk_size q = None).

Lemma max_body_nonneg : 0 <= HTTP_MAX_BODY_SIZE.
Proof. unfold HTTP_MAX_BODY_SIZE. lia. Qed.
Lemma max_headers_nonneg : 0 <= HTTP_MAX_HEADERS_SIZE.
Proof. unfold HTTP_MAX_HEADERS_SIZE. lia. Qed.

Lemma chunk_body_caps q r : chunk_inv q -> size_inv q ->
  match chunk_body q r with
  | Need q' r' => size_inv q' /\ need_rest_ok r'
  | Done q' _ | Adv q' _ => size_inv q'
  | Fail _ _ => True
  end.
Proof.
  intros Hci Hs. unfold chunk_body. destruct r as [|c t].
  { split; [exact Hs | unfold need_rest_ok; simpl; lia]. }
  unfold chunk_inv in Hci. destruct (rq_chunk_size q) as [size|] eqn:Ecs.
  - now apply ctod_caps.
  - destruct (read_line MAX_LINE (c :: t)) as [| |l rest n] eqn:El.
    + apply read_line_none in El. split; [exact Hs | unfold need_rest_ok; tauto].
    + exact I.
    + destruct (chunk_size_of_line l) as [size|] eqn:Esz; [|exact I]. cbv zeta.
      destruct ((HTTP_MAX_BODY_SIZE <? Z.of_nat (length (rq_body q))) || (HTTP_MAX_BODY_SIZE - Z.of_nat (length (rq_body q)) <? size)) eqn:Ecap; [exact I|].
      apply orb_false_iff in Ecap. destruct Ecap as [E1 E2].
      assert (Hsz : 0 <= size).
      { unfold chunk_size_of_line in Esz. eapply to_integral_nonneg; [|exact Esz]. lia. }
      apply ctod_caps; [reflexivity | cbn; lia |].
      destruct Hs as [Hh Hb]. split; [exact Hh|]. unfold open_rest, zl in *. cbn. rewrite Ecs in Hb. lia.
Qed.

Lemma chunk_loop_caps hl : forall f q r, cinv hl q -> size_inv q ->
  match loop chunk_body f q r with
  | LNeed q' r' => size_inv q' /\ need_rest_ok r'
  | LDone q' _ => size_inv q'
  | _ => True
  end.
Proof.
  induction f as [|f IH]; intros q r Hc Hs; simpl; [exact I|].
  pose proof (chunk_body_caps q r (proj1 Hc) Hs) as H.
  pose proof (chunk_body_spec hl q r Hc) as Hsp.
  destruct (chunk_body q r) as [q1 r1|sf e|q1 r1|q1 r1]; auto.
  apply IH; tauto.
Qed.

Lemma load_body_caps q r : body_inv q -> rcaps q ->
  match load_body q r with
  | Ret false q' r' => rcaps q' /\ need_rest_ok r'
  | Ret true q' _ => rcaps q'
  | Throw _ _ => True
  end.
Proof.
  intros [Hci Hcl] [Hs Hn]. unfold load_body. destruct (is_chunked q) eqn:Ech.
  - pose proof (chunk_loop_caps (h_list (rq_headers q)) (Datatypes.S (length r)) q r (conj Hci eq_refl) Hs) as H.
    pose proof (chunk_loop_resume (h_list (rq_headers q)) q r [] (conj Hci eq_refl)) as Hr.
    fold (run_loop chunk_body q r) in H.
    destruct (run_loop chunk_body q r) as [q' r'|sf e|q' r'|]; auto.
    + destruct Hr as ([_ Hhl] & _). destruct H as [H1 H2]. split; [|exact H2]. split; [exact H1|].
      rewrite (is_chunked_hl q q' Hhl), Ech. discriminate.
    + destruct Hr as ([_ Hhl] & _). split; [exact H|]. rewrite (is_chunked_hl q q' Hhl), Ech. discriminate.
  - specialize (Hn eq_refl). destruct (cl_of q) as [cl|] eqn:Ecl.
    + pose proof (Hcl eq_refl cl eq_refl) as Hle. pose proof (cl_of_range q cl Ecl) as Hrg.
      rewrite (lbcl_some q cl r Ecl Hle). cbv zeta.
      set (has := Z.to_nat (Z.min (cl - Z.of_nat (length (rq_body q))) (Z.of_nat (length r)))).
      assert (Hq' : rcaps (set_body_chunk (rq_body q ++ firstn has r) (rq_chunk_size q) (rq_chunk_read q) q)).
      { split; [|intros _; exact Hn]. destruct Hs as [Hh Hb]. split; [exact Hh|].
        unfold open_rest, zl in *. cbn. rewrite Hn in *. rewrite app_length, firstn_length. unfold has. lia. }
      destruct (Z.of_nat (length (rq_body q ++ firstn has r)) =? cl) eqn:Ec; [exact Hq'|].
      split; [exact Hq'|]. unfold need_rest_ok. rewrite skipn_length.
      rewrite app_length, firstn_length in Ec. unfold has in *. lia.
    + destruct (lbcl_none q Ecl) as [H|[e H]]; rewrite (H r); [|exact I]. split; [exact Hs | intros _; exact Hn].
Qed.

Lemma rcaps_set_state st q : rcaps (set_state st q) <-> rcaps q.
Proof. reflexivity. Qed.

Lemma fnb_caps q r : body_inv q -> rcaps q ->
  match from_needs_body q r with
  | Ret false q' r' => rcaps q' /\ need_rest_ok r'
  | Ret true q' _ => rcaps q'
  | Throw _ _ => True
  end.
Proof.
  intros Hi Hc. unfold from_needs_body. pose proof (load_body_caps q r Hi Hc) as H.
  destruct (load_body q r) as [[|] q' r'|e qf]; auto.
Qed.

Lemma fresh_rcaps_headers h q : fresh q -> 0 <= h_consumed h <= HTTP_MAX_HEADERS_SIZE -> rcaps (set_headers h q).
Proof.
  intros (Hb & Hs & Hr) Hh. split; [split; [exact Hh|]|].
  - unfold open_rest, zl. cbn. rewrite Hb, Hs. simpl. pose proof max_body_nonneg. lia.
  - intros _. exact Hs.
Qed.

Lemma fnh_caps q r : fresh q -> 0 <= h_consumed (rq_headers q) <= HTTP_MAX_HEADERS_SIZE ->
  match from_needs_headers q r with
  | Ret false q' r' => rcaps q' /\ need_rest_ok r'
  | Ret true q' _ => rcaps q'
  | Throw _ _ => True
  end.
Proof.
  intros Hf Hh. unfold from_needs_headers, load_headers.
  pose proof (headers_read_bound true (rq_headers q) r ltac:(lia)) as Hb.
  pose proof (headers_read_account true (rq_headers q) r) as Ha.
  destruct (headers_read true (rq_headers q) r) as [[|] h r1|e hf] eqn:Eh; [| |exact I].
  - pose proof (headers_read_true_decr _ _ _ _ _ Eh) as Hd.
    assert (Hh' : 0 <= h_consumed h <= HTTP_MAX_HEADERS_SIZE) by (unfold zl in *; lia).
    set (q1 := set_state NeedsBody (set_headers h q)).
    assert (Hf1 : fresh q1) by (destruct Hf as (A & B & C); repeat split; assumption).
    apply (fnb_caps q1 r1 (fresh_body_inv q1 Hf1)). apply (fresh_rcaps_headers h q Hf Hh').
  - destruct Ha as [Ha Hl]. pose proof (headers_read_false_len _ _ _ _ _ Eh) as Hd.
    split; [|exact Hl]. apply fresh_rcaps_headers; [exact Hf | unfold zl in *; lia].
Qed.

Lemma fi_caps q r : fresh q -> 0 <= h_consumed (rq_headers q) <= HTTP_MAX_HEADERS_SIZE ->
  match from_init q r with
  | Ret false q' r' => rcaps q' /\ need_rest_ok r'
  | Ret true q' _ => rcaps q'
  | Throw _ _ => True
  end.
Proof.
  intros Hf Hh. unfold from_init, load_control_data.
  destruct (read_line MAX_LINE r) as [| |l rest n] eqn:El.
  - apply read_line_none in El. split; [|unfold need_rest_ok; tauto].
    replace q with (set_headers (rq_headers q) q) by (destruct q; reflexivity). now apply fresh_rcaps_headers.
  - exact I.
  - destruct (parse_request_line l q) as [[|] q0] eqn:Ep; [|exact I].
    destruct (parse_request_line_fresh l q q0 Ep Hf) as (Hf0 & Hs0 & Hh0).
    set (q1 := set_state NeedsHeaders q0).
    assert (Hf1 : fresh q1) by (destruct Hf0 as (A & B & C); repeat split; assumption).
    apply (fnh_caps q1 rest Hf1). cbn. rewrite Hh0. exact Hh.
Qed.

(* what the connection additionally knows about the request it is reading *)
Definition rcaps_state (q : request) : Prop :=
  match rq_state q with
  | Init | NeedsHeaders => 0 <= h_consumed (rq_headers q) <= HTTP_MAX_HEADERS_SIZE
  | _ => rcaps q
  end.

Lemma phase_caps q r : req_inv q -> rcaps_state q ->
  match phase q r with
  | Ret false q' r' => rcaps_state q' /\ rcaps q' /\ need_rest_ok r'
  | Ret true q' _ => rcaps q'
  | Throw _ _ => True
  end.
Proof.
  unfold req_inv, rcaps_state, phase. destruct (rq_state q) eqn:Est; try contradiction.
  - intros Hf Hh. pose proof (fi_caps q r Hf Hh) as H.
    destruct (from_init q r) as [[|] q' r'|e qf]; auto.
    destruct H as [H1 H2]. split; [|split; assumption].
    destruct (rq_state q'); try exact H1; destruct H1 as [[H1 _] _]; exact H1.
  - intros Hf Hh. pose proof (fnh_caps q r Hf Hh) as H.
    destruct (from_needs_headers q r) as [[|] q' r'|e qf]; auto.
    destruct H as [H1 H2]. split; [|split; assumption].
    destruct (rq_state q'); try exact H1; destruct H1 as [[H1 _] _]; exact H1.
  - intros [Hi _] Hc. pose proof (fnb_caps q r Hi Hc) as H.
    destruct (from_needs_body q r) as [[|] q' r'|e qf]; auto.
    destruct H as [H1 H2]. split; [|split; assumption].
    destruct (rq_state q'); try exact H1; destruct H1 as [[H1 _] _]; exact H1.
Qed.

(* ---------------------------------------------------------------------------------------------- *)
(* 3. the connection *)

Definition dcaps (st : dispatch_state) : Prop :=
  match st with (q, done, err) => (err = None -> rcaps_state q) /\ Forall rcaps done end.

Lemma rcaps_state_new : rcaps_state new_request.
Proof. unfold rcaps_state, new_request. simpl. pose proof max_headers_nonneg. lia. Qed.

Lemma dispatch_caps st buf : dinv st -> dcaps st ->
  match dispatch_body st buf with
  | Need st' r' => dcaps st' /\ need_rest_ok r'
  | Adv st' _ => dcaps st'
  | _ => True
  end.
Proof.
  destruct st as [[q done] err]. intros Hinv [Hq Hd]. destruct err as [e0|].
  { simpl. split; [split; [intros; discriminate | exact Hd] | unfold need_rest_ok; simpl; lia]. }
  destruct buf as [|c t].
  { simpl. split; [split; assumption | unfold need_rest_ok; simpl; lia]. }
  rewrite (dispatch_body_nonempty q done (c :: t)) by discriminate.
  pose proof (phase_caps q (c :: t) (Hinv eq_refl) (Hq eq_refl)) as H.
  destruct (phase q (c :: t)) as [[|] q' rest|e qf].
  - assert (Hd' : dcaps (new_request, done ++ [q'], None)).
    { split; [intros _; apply rcaps_state_new|]. apply Forall_app. split; [exact Hd|]. constructor; [exact H | constructor]. }
    destruct rest; [split; [exact Hd' | unfold need_rest_ok; simpl; lia] | exact Hd'].
  - destruct H as (H1 & H2 & H3). split; [split; [intros _; exact H1 | exact Hd] | exact H3].
  - split; [split; [intros; discriminate | exact Hd] | unfold need_rest_ok; simpl; lia].
Qed.

Lemma dispatch_loop_caps : forall f st buf, dinv st -> dcaps st ->
  match loop dispatch_body f st buf with
  | LNeed st' r' => dcaps st' /\ need_rest_ok r'
  | _ => True
  end.
Proof.
  induction f as [|f IH]; intros st buf Hi Hc; simpl; [exact I|].
  pose proof (dispatch_caps st buf Hi Hc) as H. pose proof (dispatch_spec st buf Hi) as Hs.
  destruct (dispatch_body st buf) as [s1 r1|sf e|s1 r1|s1 r1]; auto.
  apply IH; tauto.
Qed.

Definition client_caps (c : client) : Prop := dcaps (cl_req c, cl_dispatched c, cl_error c).

Lemma client_caps_new : client_caps new_client.
Proof. split; [intros _; apply rcaps_state_new | constructor]. Qed.

Lemma feed_caps c a : client_inv c -> client_caps c ->
  client_caps (feed c a) /\ (length (cl_buffer (feed c a)) <= MAX_LINE)%nat.
Proof.
  intros Hi Hc. unfold feed.
  pose proof (dispatch_loop_caps (Datatypes.S (length (cl_buffer c ++ a))) _ (cl_buffer c ++ a) Hi Hc) as H.
  pose proof (dispatch_loop_resume (cl_req c, cl_dispatched c, cl_error c) (cl_buffer c ++ a) [] Hi) as Hr.
  fold (run_loop dispatch_body (cl_req c, cl_dispatched c, cl_error c) (cl_buffer c ++ a)) in H.
  destruct (run_loop dispatch_body _ (cl_buffer c ++ a)) as [st' r'|sf e|st' r'|]; try contradiction.
  destruct st' as [[q d] e]. exact H.
Qed.

Lemma feed_all_caps : forall frags c, client_inv c -> client_caps c ->
  client_inv (feed_all c frags) /\ client_caps (feed_all c frags) /\
  (frags <> [] -> (length (cl_buffer (feed_all c frags)) <= MAX_LINE)%nat).
Proof.
  induction frags as [|f frags IH]; intros c Hi Hc; simpl.
  - split; [exact Hi|]. split; [exact Hc|]. intros H. contradiction.
  - destruct (feed_caps c f Hi Hc) as [Hc' Hl]. pose proof (feed_inv c f Hi) as Hi'.
    destruct (IH (feed c f) Hi' Hc') as (I1 & I2 & I3). split; [exact I1|]. split; [exact I2|]. intros _.
    destruct frags as [|g frags']; [exact Hl | apply I3; discriminate].
Qed.

(* Whatever arrives in whatever pieces on a new connection: every dispatched request accounted at
   most MAX_HEADERS_SIZE header bytes (trailers included) and has a body of at most MAX_BODY_SIZE
   bytes; the bytes kept unread are fewer than the line limit + 1. *)
Theorem caps_enforced frags :
  let c := feed_all new_client frags in
  Forall (fun q => h_consumed (rq_headers q) <= HTTP_MAX_HEADERS_SIZE /\
                   Z.of_nat (length (rq_body q)) <= HTTP_MAX_BODY_SIZE) (cl_dispatched c) /\
  (length (cl_buffer c) <= MAX_LINE)%nat.
Proof.
  cbv zeta. destruct (feed_all_caps frags new_client client_inv_new client_caps_new) as (_ & [_ Hd] & Hl).
  split.
  - eapply Forall_impl; [|exact Hd]. intros q [[Hh Hb] _]. split; [lia|].
    unfold zl in Hb. lia.
  - destruct frags as [|f frags]; [simpl; unfold MAX_LINE; lia | apply Hl; discriminate].
Qed.

(* ---------------------------------------------------------------------------------------------- *)
(* 4. an over-long first line is answered with 400, however it arrives *)

Lemma read_line_go_toolong : forall a left acc n b,
  ~ In LF a -> (left < length a)%nat -> read_line_go left acc n (a ++ b) = RL_TooLong.
Proof.
  induction a as [|c a IH]; intros left acc n b Hn Hl; simpl in *; [lia|].
  destruct (N.eqb c LF) eqn:Ec.
  { exfalso. apply Hn. left. now apply N.eqb_eq. }
  destruct left as [|left]; [reflexivity|]. apply IH; [tauto | lia].
Qed.

Lemma long_request_line_rejected a b : ~ In LF a -> (MAX_LINE < length a)%nat ->
  cl_error (feed new_client (a ++ b)) = Some BadRequest /\ cl_dispatched (feed new_client (a ++ b)) = [].
Proof.
  intros Hn Hl. unfold feed. cbn [cl_req cl_dispatched cl_error cl_buffer new_client app].
  assert (Hne : a ++ b <> []) by (destruct a; [simpl in Hl; lia | discriminate]).
  assert (Hb : dispatch_body (new_request, [], None) (a ++ b) = Need (set_state Error new_request, [], Some BadRequest) []).
  { rewrite (dispatch_body_nonempty new_request [] (a ++ b) Hne). unfold phase. cbn [rq_state new_request].
    unfold from_init, load_control_data, read_line. rewrite (read_line_go_toolong a MAX_LINE [] 0%nat b Hn Hl). reflexivity. }
  unfold run_loop. cbn [loop]. rewrite Hb. split; reflexivity.
Qed.

Theorem long_request_line_rejected_any_fragmentation frags a b :
  concat frags = a ++ b -> ~ In LF a -> (MAX_LINE < length a)%nat ->
  cl_error (feed_all new_client frags) = Some BadRequest /\ cl_dispatched (feed_all new_client frags) = [].
Proof. intros Hc Hn Hl. rewrite feed_all_new, Hc. now apply long_request_line_rejected. Qed.
