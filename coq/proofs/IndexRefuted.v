(* C21: the corner where "the index follows the active chain after any history of connections,
   reorganizations and restarts" is false of the code (finding C21-revert-fallback).

   History: the coin statistics index is synced and committed at a3 on the chain g-a1-a2-a3; the node
   reorganizes to g-a1-b2-b3-b4 (two blocks deep), which the index follows (Rewind + CustomAppend
   overwrite the height index at heights 2 and 3 after copying the old entries to the hash index); no
   ChainStateFlushed arrives, so nothing is committed; the index object is destroyed and restarted
   (as after an unclean shutdown).  Init reloads best block a3 and passes CustomInit (LookUpOne finds a3
   in the hash index), Sync must rewind a3 -> a1, and RevertBlock(a3) finds b2's entry at height 2,
   falls back to the hash index, where the read of a bare DBVal into a std::pair<uint256, DBVal> fails:
   "previous block header not found" -> Rewind fails -> FatalErrorf.  All blocks are empty and valid. *)
From Coq Require Import NArith.
From BV Require Import lib.Ints model.MuHash model.Index model.IndexCoinStats model.IndexTx model.IndexFilter model.IndexSim.
Local Open Scope Z_scope.

Definition rb (h : N) (p : N) (height : Z) : block :=
  {| b_hash := [h]; b_prev := [p]; b_height := height; b_txs := []; b_filter_hash := [h] |}.
Definition rg := rb 10 0 0.
Definition ra1 := rb 11 10 1.  Definition ra2 := rb 12 11 2.  Definition ra3 := rb 13 12 3.
Definition rbb2 := rb 22 11 2. Definition rbb3 := rb 23 22 3.  Definition rbb4 := rb 24 23 4.

Definition refuted_prefix : list sim_ev :=
  [SvBlock rg; SvBlock ra1; SvBlock ra2; SvBlock ra3; SvTip (Some [13%N]); SvLastFlushed (Some [13%N]); SvStart true false false;
   SvBlock rbb2; SvBlock rbb3; SvBlock rbb4; SvConnected [22%N]; SvConnected [23%N]; SvConnected [24%N]; SvTip (Some [24%N])].
(* without a restart the index answers for the new tip; with the restart it aborts the node *)
Definition refuted_no_restart : list sim_ev := refuted_prefix ++ [SvQuery [24%N]].
Definition refuted_restart : list sim_ev := refuted_prefix ++ [SvStop; SvStart true false false; SvQuery [24%N]].

Definition query_summary (o : list sim_out) : option (bool * bool * bool) :=   (* fatal, synced, entry found *)
  match o with
  | [OQuery _ fatal (Some (synced, e)) _] => Some (fatal, synced, match e with Some _ => true | None => false end)
  | _ => None
  end.

Lemma coinstats_follows_reorg_without_restart : query_summary (sim_run sim0 refuted_no_restart) = Some (false, true, true).
Proof. vm_compute. reflexivity. Qed.

Lemma coinstats_restart_after_uncommitted_reorg_aborts : query_summary (sim_run sim0 refuted_restart) = Some (true, false, true).
Proof. vm_compute. reflexivity. Qed.

(* the same history with a block filter index: Init fails ("Cannot read last block filter header; index may be corrupted") *)
Definition bf_refuted_prefix : list sim_ev :=
  [SvBlock rg; SvBlock ra1; SvBlock ra2; SvBlock ra3; SvTip (Some [13%N]); SvLastFlushed (Some [13%N]); SvStart false false true;
   SvBlock rbb2; SvBlock rbb3; SvBlock rbb4; SvConnected [22%N]; SvConnected [23%N]; SvConnected [24%N]; SvTip (Some [24%N])].
Definition init_failed (o : list sim_out) : bool := match o with OInitFail 2 :: _ => true | _ => false end.
Lemma blockfilter_restart_after_uncommitted_reorg_init_fails :
  init_failed (sim_run sim0 (bf_refuted_prefix ++ [SvStop; SvStart false false true])) = true.
Proof. vm_compute. reflexivity. Qed.

Theorem index_follows_active_chain_with_restarts_refuted :
  exists evs_live evs_restart,
    (* same node history; the second only adds an index restart before the query *)
    query_summary (sim_run sim0 evs_live) = Some (false, true, true) /\
    query_summary (sim_run sim0 evs_restart) = Some (true, false, true).
Proof.
  exists refuted_no_restart, refuted_restart.
  split; [ exact coinstats_follows_reorg_without_restart | exact coinstats_restart_after_uncommitted_reorg_aborts ].
Qed.
