(* C21: index restarts after an uncommitted reorganization.

   History: the index is synced and committed at a3 on the chain g-a1-a2-a3; the node reorganizes to
   g-a1-b2-b3-b4 (two blocks deep), which the index follows (Rewind + CustomAppend overwrite the height index
   at heights 2 and 3 after copying the old entries to the hash index); no ChainStateFlushed arrives, so
   nothing is committed; the index object is destroyed and restarted (as after an unclean shutdown).  Init
   reloads best block a3, Sync must rewind a3 -> a1, and RevertBlock(a3) finds b2's entry at height 2 and falls
   back to the hash index.
   - CoinStatsIndex, current code (/repo commit b3a3ee2): the fallback reads the bare DBVal, the rewind
     succeeds and the index reaches the new tip (positive witness below).
   - CoinStatsIndex BEFORE b3a3ee2 (cs_remove_prefix_b3a3ee2): the fallback read a bare DBVal into a
     std::pair<uint256, DBVal> and always failed: "previous block header not found" -> Rewind fails ->
     FatalErrorf (witness about the old code; finding C21-revert-fallback, repaired).
   - BlockFilterIndex (open finding): CustomInit reads the height index only (ReadFilterHeader) and refuses to start.
   All blocks are empty and valid. *)
From Coq Require Import NArith.
From BV Require Import lib.Ints model.MuHash model.Index model.IndexCoinStats model.IndexTx model.IndexFilter model.IndexSim.
Local Open Scope Z_scope.

Definition rb (h : N) (p : N) (height : Z) : block :=
  {| b_hash := [h]; b_prev := [p]; b_height := height; b_txs := []; b_filter_hash := [h] |}.
Definition rg := rb 10 0 0.
Definition ra1 := rb 11 10 1.  Definition ra2 := rb 12 11 2.  Definition ra3 := rb 13 12 3.
Definition rbb2 := rb 22 11 2. Definition rbb3 := rb 23 22 3.  Definition rbb4 := rb 24 23 4.

Definition refuted_prefix : list sim_ev :=
  [SvBlock rg; SvBlock ra1; SvBlock ra2; SvBlock ra3; SvTip (Some [13%N]); SvLastFlushed (Some [13%N]); SvStart true false false;
   SvBlock rbb2; SvBlock rbb3; SvBlock rbb4; SvConnected [22%N]; SvConnected [23%N]; SvConnected [24%N]; SvTip (Some [24%N])].
(* without a restart the index answers for the new tip; with the restart it aborts the node *)
Definition refuted_no_restart : list sim_ev := refuted_prefix ++ [SvQuery [24%N]].
Definition refuted_restart : list sim_ev := refuted_prefix ++ [SvStop; SvStart true false false; SvQuery [24%N]].

Definition query_summary (o : list sim_out) : option (bool * bool * bool) :=   (* fatal, synced, entry found *)
  match o with
  | [OQuery _ fatal (Some (synced, e)) _] => Some (fatal, synced, match e with Some _ => true | None => false end)
  | _ => None
  end.

Lemma coinstats_follows_reorg_without_restart : query_summary (sim_run sim0 refuted_no_restart) = Some (false, true, true).
Proof. vm_compute. reflexivity. Qed.

(* current code: the restarted index rewinds through the hash-index fallback and follows the active chain *)
Lemma coinstats_restart_after_uncommitted_reorg_recovers : query_summary (sim_run sim0 refuted_restart) = Some (false, true, true).
Proof. vm_compute. reflexivity. Qed.

(* the code before b3a3ee2: the same history over BaseIndex with the old CustomRemove *)
Definition nv_a : node_view := {| nv_blocks := [ra3; ra2; ra1; rg]; nv_tip := Some [13%N]; nv_last_flushed := Some [13%N] |}.
Definition nv_b : node_view :=
  {| nv_blocks := [rbb4; rbb3; rbb2; ra3; ra2; ra1; rg]; nv_tip := Some [24%N]; nv_last_flushed := Some [13%N] |}.
Definition old_sync := base_sync cs_index (cs_append 150) cs_remove_prefix_b3a3ee2 cs_commit.
Definition old_connected := base_block_connected cs_index (cs_append 150) cs_remove_prefix_b3a3ee2.
Definition old_init := base_init cs_index cs_custom_init.
Definition old_live : base_index cs_index :=
  let x1 := old_sync nv_a (old_init nv_a (base_new cs_index cs_init)) in
  old_connected nv_b (old_connected nv_b (old_connected nv_b x1 rbb2) rbb3) rbb4.
Definition old_restarted : base_index cs_index := old_sync nv_b (old_init nv_b old_live).
Definition base_summary (x : base_index cs_index) : bool * bool * option bytes :=
  (bi_fatal _ x, bi_synced _ x, match bi_best _ x with Some b => Some (b_hash b) | None => None end).

Lemma coinstats_prefix_b3a3ee2_follows_reorg_without_restart : base_summary old_live = (false, true, Some [24%N]).
Proof. vm_compute. reflexivity. Qed.
Lemma coinstats_prefix_b3a3ee2_restart_aborts : base_summary old_restarted = (true, false, Some [13%N]).
Proof. vm_compute. reflexivity. Qed.

(* the same history with a block filter index: Init fails ("Cannot read last block filter header; index may be corrupted") *)
Definition bf_refuted_prefix : list sim_ev :=
  [SvBlock rg; SvBlock ra1; SvBlock ra2; SvBlock ra3; SvTip (Some [13%N]); SvLastFlushed (Some [13%N]); SvStart false false true;
   SvBlock rbb2; SvBlock rbb3; SvBlock rbb4; SvConnected [22%N]; SvConnected [23%N]; SvConnected [24%N]; SvTip (Some [24%N])].
Definition init_failed (o : list sim_out) : bool := match o with OInitFail 2 :: _ => true | _ => false end.
Lemma blockfilter_restart_after_uncommitted_reorg_init_fails :
  init_failed (sim_run sim0 (bf_refuted_prefix ++ [SvStop; SvStart false false true])) = true.
Proof. vm_compute. reflexivity. Qed.

Theorem coinstats_restart_recovers_on_fixed_code_and_aborted_prefix_b3a3ee2 :
  (* current code *)
  query_summary (sim_run sim0 refuted_no_restart) = Some (false, true, true) /\
  query_summary (sim_run sim0 refuted_restart) = Some (false, true, true) /\
  (* the code before b3a3ee2 *)
  base_summary old_live = (false, true, Some [24%N]) /\ base_summary old_restarted = (true, false, Some [13%N]).
Proof.
  split; [ exact coinstats_follows_reorg_without_restart | split; [ exact coinstats_restart_after_uncommitted_reorg_recovers | ] ].
  split; [ exact coinstats_prefix_b3a3ee2_follows_reorg_without_restart | exact coinstats_prefix_b3a3ee2_restart_aborts ].
Qed.
