(* C32, v2 (BIP324) transport: the receive loop as an "absorb then look" iteration, fragmentation
   independence (up to the one postponed check of the handshake), round trip, decoys, authentication
   failures, the garbage bound. *)
From Coq Require Import NArith.
From BV Require Import lib.Ints gen.Params_gen model.Transport proofs.TransportNode proofs.TransportV1.
Local Open Scope nat_scope.

Lemma ELLSWIFT_SIZE_64 : ELLSWIFT_SIZE = 64. Proof. reflexivity. Qed.
Lemma GARBAGE_TERMINATOR_LEN_16 : GARBAGE_TERMINATOR_LEN = 16. Proof. reflexivity. Qed.
Lemma MAX_GARBAGE_LEN_4095 : MAX_GARBAGE_LEN = 4095. Proof. reflexivity. Qed.
(* the terminator search limit, kept folded: a 4111-deep unary numeral in a goal slows every tactic *)
Definition GLIM : nat := MAX_GARBAGE_LEN + GARBAGE_TERMINATOR_LEN.
Lemma GLIM_bounds : 16 <= GLIM /\ GLIM = MAX_GARBAGE_LEN + 16. Proof. split; [apply Nat.leb_le|]; reflexivity. Qed.
Global Opaque GLIM.
Lemma LENGTH_LEN_3 : LENGTH_LEN = 3. Proof. reflexivity. Qed.
Lemma V1_PREFIX_LEN_16 : V1_PREFIX_LEN = 16. Proof. reflexivity. Qed.
Lemma TR_EXPANSION_20 : TR_EXPANSION = 20%Z. Proof. reflexivity. Qed.
Lemma MAX_CONTENTS_LEN_val : MAX_CONTENTS_LEN = (13 + V1_MAX_PAYLOAD)%Z. Proof. reflexivity. Qed.
Lemma MAX_CONTENTS_LEN_small : (0 <= MAX_CONTENTS_LEN < 16777216)%Z. Proof. vm_compute. split; [discriminate|reflexivity]. Qed.
Lemma VERSION_TAIL_len : length VERSION_TAIL = 12. Proof. reflexivity. Qed.
Lemma IGNORE_BIT_128 : Z.to_N TR_IGNORE_BIT = 128%N. Proof. reflexivity. Qed.

Lemma is_prefix_of_app_false a t p : is_prefix_of a p = false -> is_prefix_of (a ++ t) p = false.
Proof.
  revert p. induction a as [|x a IH]; intros p H; [discriminate|].
  destruct p as [|y p]; cbn [app is_prefix_of] in *; auto.
  destruct (N.eqb x y); cbn [andb] in *; auto.
Qed.

Lemma is_prefix_of_full a p : length a = length p -> is_prefix_of a p = true -> a = p.
Proof.
  revert p. induction a as [|x a IH]; destruct p as [|y p]; cbn [length is_prefix_of]; intros Hl H; try lia; auto.
  apply andb_true_iff in H. destruct H as [H1 H2]. apply N.eqb_eq in H1. f_equal; auto.
Qed.

Lemma is_prefix_of_refl p t : is_prefix_of p (p ++ t) = true.
Proof. induction p; cbn [app is_prefix_of]; auto. rewrite N.eqb_refl. auto. Qed.

Section V2Proofs.
  Variable magic : list N.
  Variable H4 : list N -> list N.
  Variable ids : list (list N).
  Variable initiating : bool.
  Variable S : Type.
  Variable kex : list N -> S.
  Variable rterm : S -> list N.
  Variable ldec : S -> nat -> list N -> Z.
  Variable pdec : S -> nat -> list N -> list N -> option (N * list N).
  Hypothesis magic_len : length magic = MESSAGE_START_SIZE.
  Hypothesis H4_len : forall p, length (H4 p) = CHECKSUM_SIZE.
  (* DecryptLength assembles three bytes *)
  Hypothesis ldec_range : forall s n b, (0 <= ldec s n b < 16777216)%Z.

  Notation v2st := (v2st S).
  Notation v2_iter := (v2_iter magic H4 ids initiating S kex rterm ldec pdec).
  Notation v2_init := (v2_init initiating S).
  Notation v1_prefix := (v1_prefix magic).

  Definition key_match (buf : list N) : bool :=
    negb initiating && Nat.leb (MESSAGE_START_SIZE + 12) (length buf)
    && bytes_eqb (firstn 12 (skipn MESSAGE_START_SIZE buf)) VERSION_TAIL.

  Definition v2_wf (s : v2st) : Prop :=
    match s with
    | SMaybeV1 buf => length buf < 16
    | SKey buf => length buf < 64
    | SGarb _ buf => length buf < GLIM
    | SPkt _ _ _ _ buf len =>
        length buf < 3 \/ (3 <= length buf /\ (0 <= len <= MAX_CONTENTS_LEN)%Z /\ (Z.of_nat (length buf) < len + 20)%Z)
    | SV1 v => v1_wf v
    end.

  Definition v2_need (s : v2st) : nat :=
    match s with
    | SMaybeV1 buf => V1_PREFIX_LEN - length buf
    | SKey buf => ELLSWIFT_SIZE - length buf
    | SGarb _ _ => 1
    | SPkt _ _ _ _ buf len =>
        if Nat.ltb (length buf) LENGTH_LEN then LENGTH_LEN - length buf
        else Z.to_nat (wrapu32 (TR_EXPANSION + len)) - length buf
    | SV1 v => v1_need v
    end.

  Definition v2_G (st : v2st) (t : list N) : option (v2st * list out) :=
    match st with
    | SMaybeV1 buf =>
        let buf' := buf ++ t in
        if negb (is_prefix_of buf' v1_prefix) then Some (SKey buf', [])
        else if Nat.eqb (length buf') V1_PREFIX_LEN then
          let v := match fst (v1_received_bytes magic v1_init buf') with Some v => v | None => v1_init end in
          Some (SV1 v, [])
        else Some (SMaybeV1 buf', [])
    | SKey buf =>
        let buf' := buf ++ t in
        if negb initiating && Nat.leb (MESSAGE_START_SIZE + 12) (length buf')
           && bytes_eqb (firstn 12 (skipn MESSAGE_START_SIZE buf')) VERSION_TAIL then None
        else if Nat.eqb (length buf') ELLSWIFT_SIZE then Some (SGarb (kex buf') [], [])
        else Some (SKey buf', [])
    | SGarb s buf =>
        let buf' := buf ++ t in
        if Nat.leb GARBAGE_TERMINATOR_LEN (length buf') then
          if bytes_eqb (lastn GARBAGE_TERMINATOR_LEN buf') (rterm s) then
            Some (SPkt s false 0 (firstn (length buf' - GARBAGE_TERMINATOR_LEN) buf') [] 0%Z, [])
          else if Nat.eqb (length buf') (MAX_GARBAGE_LEN + GARBAGE_TERMINATOR_LEN) then None
          else Some (SGarb s buf', [])
        else Some (SGarb s buf', [])
    | SPkt s app cnt aad buf len =>
        let buf' := buf ++ t in
        if Nat.eqb (length buf') LENGTH_LEN then
          let len' := ldec s cnt buf' in
          if (MAX_CONTENTS_LEN <? len')%Z then None
          else Some (SPkt s app cnt aad buf' len', [])
        else if Nat.ltb LENGTH_LEN (length buf') && (Z.of_nat (length buf') =? wrapu32 (len + TR_EXPANSION))%Z then
          match pdec s cnt aad (skipn LENGTH_LEN buf') with
          | None => None
          | Some (hdr, contents) =>
              if N.eqb (N.land hdr (Z.to_N TR_IGNORE_BIT)) (Z.to_N TR_IGNORE_BIT) then
                Some (SPkt s app (Datatypes.S cnt) [] [] len, [])
              else if app then
                Some (SPkt s true (Datatypes.S cnt) [] [] len, [v2_get_received_message ids contents])
              else
                Some (SPkt s true (Datatypes.S cnt) [] [] len, [])
          end
        else Some (SPkt s app cnt aad buf' len, [])
    | SV1 v =>
        match v1_G magic H4 v t with
        | None => None
        | Some (v', o) => Some (SV1 v', o)
        end
    end.

  Definition v2_doomed (s : v2st) : bool :=
    match s with SKey buf => key_match buf | _ => false end.

  Lemma v2_iter_aiter s w : v2_wf s -> small w -> v2_iter s w = aiter _ v2_need v2_G s w.
  Proof.
    intros Hwf Hs. destruct s as [buf|buf|s buf|s app cnt aad buf len|v].
    - unfold Transport.v2_iter, aiter, v2_need, v2_G. cbv zeta.
      destruct (negb _); [reflexivity|]. destruct (Nat.eqb _ _); reflexivity.
    - unfold Transport.v2_iter, aiter, v2_need, v2_G. cbv zeta.
      destruct (_ && _); [reflexivity|]. destruct (Nat.eqb _ _); reflexivity.
    - unfold Transport.v2_iter, aiter, v2_need, v2_G. cbv zeta.
      destruct (Nat.leb _ _); [|reflexivity]. destruct (bytes_eqb _ _); [reflexivity|].
      destruct (Nat.eqb _ _); reflexivity.
    - unfold Transport.v2_iter, aiter, v2_need, v2_G. cbv zeta.
      assert (Hmin : forall a : Z,
                 firstn (Z.to_nat (Z.min (a - Z.of_nat (length buf)) (Z.of_nat (length w)))) w = firstn (Z.to_nat a - length buf) w /\
                 skipn (Z.to_nat (Z.min (a - Z.of_nat (length buf)) (Z.of_nat (length w)))) w = skipn (Z.to_nat a - length buf) w).
      { intros a. replace (Z.to_nat (Z.min (a - Z.of_nat (length buf)) (Z.of_nat (length w))))
          with (Nat.min (Z.to_nat a - length buf) (length w)) by lia.
        split; [apply firstn_min_len|apply skipn_min_len]. }
      destruct (Nat.ltb (length buf) LENGTH_LEN); [|destruct (Hmin (wrapu32 (TR_EXPANSION + len))) as [Hm1 Hm2]; rewrite Hm1, Hm2];
      (destruct (Nat.eqb _ LENGTH_LEN); [destruct (_ <? _)%Z; reflexivity|]);
      (destruct (_ && _); [|reflexivity]);
      (destruct (pdec _ _ _ _) as [[hdr contents]|]; [|reflexivity]);
      (destruct (N.eqb _ _); [reflexivity|]); destruct app; reflexivity.
    - cbn [v2_wf] in Hwf. unfold Transport.v2_iter. rewrite (v1_iter_aiter magic H4 magic_len H4_len v w Hwf Hs).
      unfold aiter. cbn [v2_need v2_G].
      destruct (v1_G magic H4 v _) as [[v' o]|]; reflexivity.
  Qed.

  (* ---------------------------------------------------------------------------------------------- *)

  Lemma pkt_wrap len : (0 <= len <= MAX_CONTENTS_LEN)%Z ->
      wrapu32 (TR_EXPANSION + len) = (len + 20)%Z /\ wrapu32 (len + TR_EXPANSION) = (len + 20)%Z.
  Proof.
    intros H. pose proof MAX_CONTENTS_LEN_small. rewrite TR_EXPANSION_20.
    split; [replace (20 + len)%Z with (len + 20)%Z by lia|]; apply wrapu32_id; unfold UINT32_MAX; lia.
  Qed.

  Lemma v2_need_pos s : v2_wf s -> 1 <= v2_need s.
  Proof.
    destruct s as [buf|buf|s buf|s app cnt aad buf len|v]; cbn [v2_wf v2_need]; intros Hwf.
    - rewrite V1_PREFIX_LEN_16. lia.
    - rewrite ELLSWIFT_SIZE_64. lia.
    - lia.
    - rewrite LENGTH_LEN_3. destruct (Nat.ltb_spec (length buf) 3); [lia|].
      destruct Hwf as [|[H3 [Hl Hb]]]; [lia|]. rewrite (proj1 (pkt_wrap len Hl)). lia.
    - apply (v1_need_pos magic H4 magic_len H4_len v Hwf).
  Qed.

  Lemma v1_fallback_state buf : length buf = 16 ->
      match fst (v1_received_bytes magic v1_init buf) with Some v => v | None => v1_init end = V1H buf.
  Proof.
    intros Hl. unfold v1_received_bytes, v1_init. cbn [length app].
    rewrite (ncopy_small magic H4 magic_len H4_len); [|rewrite HEADER_SIZE_24; unfold UINT32_MAX; lia|rewrite Hl; unfold UINT32_MAX; lia].
    rewrite HEADER_SIZE_24, Hl. change (Z.to_nat (Z.of_nat 24 - Z.of_nat 0)) with 24.
    change (Nat.min 24 16) with 16. rewrite firstn_all2 by lia. rewrite Hl.
    change (Nat.ltb 16 24) with true. reflexivity.
  Qed.

  Lemma wf_pkt_nil s app cnt aad len : v2_wf (SPkt s app cnt aad [] len).
  Proof. cbn [v2_wf length]. left. lia. Qed.

  Lemma v2_G_wf s t s' o : v2_wf s -> t <> [] -> length t <= v2_need s -> v2_G s t = Some (s', o) -> v2_wf s'.
  Proof.
    intros Hwf Ht Hl E.
    assert (Htl : 1 <= length t) by (destruct t; [congruence|cbn [length]; lia]).
    destruct s as [buf|buf|s buf|s app cnt aad buf len|v]; cbn [v2_wf v2_need v2_G] in *.
    - rewrite V1_PREFIX_LEN_16 in *.
      destruct (negb _).
      { inversion E; subst. cbn [v2_wf]. rewrite app_length. lia. }
      destruct (Nat.eqb_spec (length (buf ++ t)) 16) as [He|Hn].
      + rewrite v1_fallback_state in E by auto. inversion E; subst. cbn [v2_wf v1_wf].
        rewrite HEADER_SIZE_24, He. lia.
      + inversion E; subst. cbn [v2_wf]. rewrite app_length in *. lia.
    - rewrite ELLSWIFT_SIZE_64 in *.
      destruct (_ && _); [discriminate|].
      destruct (Nat.eqb_spec (length (buf ++ t)) 64) as [He|Hn]; inversion E; subst; cbn [v2_wf length].
      + pose proof GLIM_bounds. lia.
      + rewrite app_length in *. lia.
    - change (MAX_GARBAGE_LEN + GARBAGE_TERMINATOR_LEN) with GLIM in *. rewrite GARBAGE_TERMINATOR_LEN_16 in *.
      pose proof GLIM_bounds as [HG1 HG2].
      assert (Hb : length (buf ++ t) <= GLIM) by (rewrite app_length; lia).
      destruct (Nat.leb_spec 16 (length (buf ++ t))).
      + destruct (bytes_eqb _ _).
        { inversion E; subst. apply wf_pkt_nil. }
        destruct (Nat.eqb_spec (length (buf ++ t)) GLIM) as [He|Hn]; [discriminate|].
        inversion E; subst. cbn [v2_wf]. lia.
      + inversion E; subst. cbn [v2_wf]. lia.
    - rewrite LENGTH_LEN_3 in *.
      destruct (Nat.eqb_spec (length (buf ++ t)) 3) as [He|Hn].
      + destruct (Z.ltb_spec MAX_CONTENTS_LEN (ldec s cnt (buf ++ t))) as [|Hle]; [discriminate|].
        inversion E; subst. cbn [v2_wf]. right. pose proof (ldec_range s cnt (buf ++ t)). lia.
      + destruct (Nat.ltb_spec (length buf) 3) as [Hlt|Hge].
        * (* length phase, not yet complete *)
          assert (Hb : length (buf ++ t) < 3) by (rewrite app_length in *; lia).
          destruct (Nat.ltb_spec 3 (length (buf ++ t))); [lia|]. cbn [andb] in E.
          inversion E; subst. cbn [v2_wf]. lia.
        * destruct Hwf as [|[H3 [Hlen Hb]]]; [lia|].
          destruct (pkt_wrap len Hlen) as [W1 W2]. rewrite W1 in Hl. rewrite W2 in E.
          destruct (Nat.ltb_spec 3 (length (buf ++ t))) as [_|Hc]; [|rewrite app_length in Hc; lia].
          cbn [andb] in E.
          destruct (Z.eqb_spec (Z.of_nat (length (buf ++ t))) (len + 20)) as [He|Hne].
          -- destruct (pdec _ _ _ _) as [[hdr contents]|]; [|discriminate].
             destruct (N.eqb _ _); [|destruct app]; inversion E; subst; apply wf_pkt_nil.
          -- inversion E; subst. cbn [v2_wf]. right. rewrite app_length in *. lia.
    - destruct (v1_G magic H4 v t) as [[v' o']|] eqn:E1; [|discriminate]. inversion E; subst.
      cbn [v2_wf]. eapply (v1_G_wf magic H4 magic_len H4_len); eauto.
  Qed.

  Lemma key_match_app buf t : 16 <= length buf -> key_match (buf ++ t) = key_match buf.
  Proof.
    intros H. unfold key_match. rewrite MESSAGE_START_SIZE_4. rewrite app_length.
    replace (Nat.leb (4 + 12) (length buf + length t)) with true by (symmetry; apply Nat.leb_le; lia).
    replace (Nat.leb (4 + 12) (length buf)) with true by (symmetry; apply Nat.leb_le; lia).
    rewrite skipn_app. replace (4 - length buf) with 0 by lia. change (skipn 0 t) with t.
    rewrite firstn_app. rewrite skipn_length. replace (12 - (length buf - 4)) with 0 by lia.
    change (firstn 0 t) with (@nil N). rewrite app_nil_r. reflexivity.
  Qed.

  Lemma key_match_short buf : length buf < 16 -> key_match buf = false.
  Proof.
    intros H. unfold key_match. rewrite MESSAGE_START_SIZE_4.
    replace (Nat.leb (4 + 12) (length buf)) with false by (symmetry; apply Nat.leb_gt; lia).
    rewrite andb_false_r. reflexivity.
  Qed.

  Lemma v2_G_fail_mono s t t' : v2_wf s -> t <> [] -> t' <> [] -> length t + length t' <= v2_need s ->
      v2_G s t = None -> v2_G s (t ++ t') = None.
  Proof.
    intros Hwf Ht Ht' Hl E.
    assert (Htl : 1 <= length t) by (destruct t; [congruence|cbn [length]; lia]).
    assert (Htl' : 1 <= length t') by (destruct t'; [congruence|cbn [length]; lia]).
    destruct s as [buf|buf|s buf|s app cnt aad buf len|v]; cbn [v2_wf v2_need v2_G] in *.
    - destruct (negb _); [discriminate|]. destruct (Nat.eqb _ _); discriminate.
    - fold (key_match (buf ++ t)) in E. fold (key_match (buf ++ t ++ t')).
      destruct (key_match (buf ++ t)) eqn:Ek.
      + destruct (Nat.lt_ge_cases (length (buf ++ t)) 16) as [Hs|Hg].
        { rewrite key_match_short in Ek by auto. discriminate. }
        rewrite app_assoc. rewrite key_match_app by auto. rewrite Ek. reflexivity.
      + destruct (Nat.eqb _ _); discriminate.
    - lia.
    - rewrite LENGTH_LEN_3 in *.
      destruct (Nat.ltb_spec (length buf) 3) as [Hlt|Hge].
      + assert (Hb : length (buf ++ t) < 3) by (rewrite app_length in *; lia).
        destruct (Nat.eqb_spec (length (buf ++ t)) 3); [lia|].
        destruct (Nat.ltb_spec 3 (length (buf ++ t))); [lia|]. discriminate.
      + destruct Hwf as [|[H3 [Hlen Hb]]]; [lia|].
        destruct (pkt_wrap len Hlen) as [W1 W2]. rewrite W1 in Hl. rewrite W2 in E.
        destruct (Nat.eqb_spec (length (buf ++ t)) 3) as [He|_]; [rewrite app_length in He; lia|].
        destruct (Z.eqb_spec (Z.of_nat (length (buf ++ t))) (len + 20)) as [He|_]; [rewrite app_length in He; lia|].
        rewrite andb_false_r in E. discriminate.
    - destruct (v1_G magic H4 v t) as [[v' o']|] eqn:E1; [discriminate|].
      rewrite (v1_G_fail_mono magic H4 magic_len H4_len v t t'); auto.
  Qed.

  Lemma v2_G_partial s t s1 o : v2_wf s -> t <> [] -> length t < v2_need s -> v2_G s t = Some (s1, o) ->
      o = [] /\
      ((v2_need s1 = v2_need s - length t /\
        forall t', t' <> [] -> length t' <= v2_need s1 -> v2_G s (t ++ t') = v2_G s1 t')
       \/
       (v2_need s - length t <= v2_need s1 /\
        forall t', t' <> [] -> length t' <= v2_need s - length t ->
          exists s2, v2_G s (t ++ t') = Some (s2, []) /\
                     (v2_G s1 t' = Some (s2, []) \/ (v2_G s1 t' = None /\ v2_doomed s2 = true)))).
  Proof.
    intros Hwf Ht Hl E.
    assert (Htl : 1 <= length t) by (destruct t; [congruence|cbn [length]; lia]).
    destruct s as [buf|buf|s buf|s app cnt aad buf len|v]; cbn [v2_wf v2_need v2_G] in *.
    - (* KEY_MAYBE_V1 *)
      rewrite V1_PREFIX_LEN_16 in *.
      assert (Hb : length (buf ++ t) < 16) by (rewrite app_length; lia).
      destruct (is_prefix_of (buf ++ t) v1_prefix) eqn:Ep; cbn [negb] in E.
      + destruct (Nat.eqb_spec (length (buf ++ t)) 16); [lia|].
        inversion E; subst. split; auto. left. cbn [v2_need v2_G]. rewrite V1_PREFIX_LEN_16, app_length.
        split; [lia|]. intros t' _ _. rewrite app_assoc. reflexivity.
      + inversion E; subst. split; auto. right. cbn [v2_need]. rewrite ELLSWIFT_SIZE_64.
        split; [rewrite app_length; lia|].
        intros t' Ht' Hl'. assert (Htl' : 1 <= length t') by (destruct t'; [congruence|cbn [length]; lia]).
        exists (SKey (buf ++ t ++ t')).
        rewrite app_assoc. rewrite is_prefix_of_app_false by auto. cbn [negb]. split; [reflexivity|].
        cbn [v2_G v2_doomed]. fold (key_match ((buf ++ t) ++ t')).
        destruct (key_match ((buf ++ t) ++ t')) eqn:Ek.
        * right. auto.
        * left. rewrite ELLSWIFT_SIZE_64.
          destruct (Nat.eqb_spec (length ((buf ++ t) ++ t')) 64) as [He|_]; [rewrite !app_length in *; lia|].
          reflexivity.
    - (* KEY *)
      rewrite ELLSWIFT_SIZE_64 in *.
      assert (Hb : length (buf ++ t) < 64) by (rewrite app_length; lia).
      destruct (_ && _); [discriminate|].
      destruct (Nat.eqb_spec (length (buf ++ t)) 64); [lia|].
      inversion E; subst. split; auto. left. cbn [v2_need v2_G]. rewrite ELLSWIFT_SIZE_64, app_length.
      split; [lia|]. intros t' _ _. rewrite app_assoc. reflexivity.
    - lia.
    - rewrite LENGTH_LEN_3 in *.
      destruct (Nat.ltb_spec (length buf) 3) as [Hlt|Hge].
      + assert (Hb : length (buf ++ t) < 3) by (rewrite app_length in *; lia).
        destruct (Nat.eqb_spec (length (buf ++ t)) 3); [lia|].
        destruct (Nat.ltb_spec 3 (length (buf ++ t))); [lia|]. cbn [andb] in E.
        inversion E; subst. split; auto. left. cbn [v2_need v2_G]. rewrite LENGTH_LEN_3.
        destruct (Nat.ltb_spec (length (buf ++ t)) 3); [|lia].
        rewrite app_length. split; [lia|]. intros t' _ _. rewrite app_assoc. reflexivity.
      + destruct Hwf as [|[H3 [Hlen Hb]]]; [lia|].
        destruct (pkt_wrap len Hlen) as [W1 W2]. rewrite W1 in Hl. rewrite W2 in E.
        destruct (Nat.eqb_spec (length (buf ++ t)) 3) as [He|_]; [rewrite app_length in He; lia|].
        destruct (Z.eqb_spec (Z.of_nat (length (buf ++ t))) (len + 20)) as [He|_]; [rewrite app_length in He; lia|].
        rewrite andb_false_r in E.
        inversion E; subst. split; auto. left. cbn [v2_need v2_G]. rewrite LENGTH_LEN_3.
        destruct (Nat.ltb_spec (length (buf ++ t)) 3); [rewrite app_length in *; lia|].
        rewrite app_length. split; [lia|]. intros t' _ _. rewrite app_assoc. reflexivity.
    - destruct (v1_G magic H4 v t) as [[v' o']|] eqn:E1; [|discriminate]. inversion E; subst.
      destruct (v1_G_partial magic H4 magic_len H4_len v t v' o Hwf Ht Hl E1) as [Ho [Hn HG]].
      split; auto. left. cbn [v2_need v2_G]. split; auto.
      intros t' Ht' Hl'. rewrite HG; auto.
  Qed.

  Lemma v2_doomed_fail_G s t : v2_wf s -> v2_doomed s = true -> v2_G s t = None.
  Proof.
    intros Hwf Hd. destruct s as [buf|buf|s buf|s app cnt aad buf len|v]; cbn [v2_doomed] in Hd; try discriminate.
    cbn [v2_G]. fold (key_match (buf ++ t)).
    assert (16 <= length buf).
    { destruct (Nat.lt_ge_cases (length buf) 16); auto. rewrite key_match_short in Hd by auto. discriminate. }
    rewrite key_match_app by auto. rewrite Hd. reflexivity.
  Qed.

  Ltac v2h := first [exact v2_need_pos | exact v2_G_wf | exact v2_G_fail_mono | exact v2_G_partial | eassumption].

  Lemma v2_ok_wf_iter s w s' r o : v2_wf s -> small w -> w <> [] -> v2_iter s w = ICont s' r o ->
      v2_wf s' /\ exists c, c <> [] /\ w = c ++ r.
  Proof.
    intros Hwf Hs Hne E. rewrite v2_iter_aiter in E by auto.
    eapply (aiter_wf _ v2_need v2_G v2_wf v2_doomed); v2h.
  Qed.

  Lemma v2_M1 s a b s1 ra o : v2_wf s -> small (a ++ b) -> v2_iter s a = ICont s1 ra o -> ra <> [] ->
      v2_iter s (a ++ b) = ICont s1 (ra ++ b) o.
  Proof.
    intros Hwf Hs E Hra. pose proof (small_app_l _ _ Hs).
    rewrite v2_iter_aiter in * by auto. eapply (aiter_M1 _ v2_need v2_G v2_wf v2_doomed); v2h.
  Qed.

  Lemma v2_M1f s a b : v2_wf s -> small (a ++ b) -> a <> [] -> v2_iter s a = IFail -> v2_iter s (a ++ b) = IFail.
  Proof.
    intros Hwf Hs Ha E. pose proof (small_app_l _ _ Hs).
    rewrite v2_iter_aiter in * by auto.
    eapply (aiter_M1f _ v2_need v2_G v2_wf v2_doomed); v2h.
  Qed.

  Lemma v2_M2 s a b s1 o : v2_wf s -> small (a ++ b) -> a <> [] -> b <> [] -> v2_iter s a = ICont s1 [] o ->
      v2_iter s (a ++ b) = ICont s1 b o
      \/ (o = [] /\ v2_iter s (a ++ b) = v2_iter s1 b)
      \/ (o = [] /\ exists c d s2, b = c ++ d /\ c <> [] /\ v2_iter s (a ++ b) = ICont s2 d [] /\
            (v2_iter s1 c = ICont s2 [] [] \/ (v2_iter s1 c = IFail /\ v2_doomed s2 = true))).
  Proof.
    intros Hwf Hs Ha Hb E. pose proof (small_app_l _ _ Hs) as Hsa. pose proof (small_app_r _ _ Hs) as Hsb.
    assert (Hwf1 : v2_wf s1) by (destruct (v2_ok_wf_iter s a s1 [] o Hwf Hsa Ha E); auto).
    rewrite v2_iter_aiter in E by auto.
    assert (HM2 := aiter_M2 _ v2_need v2_G v2_wf v2_doomed).
    specialize (HM2 ltac:(v2h) ltac:(v2h) ltac:(v2h) ltac:(v2h) s a b s1 o Hwf Ha Hb E).
    destruct HM2 as [H1 | [[Ho H2] | [Ho [c [d [s2 [Hbd [Hc [Hit Hd]]]]]]]]].
    - left. rewrite v2_iter_aiter by auto. exact H1.
    - right. left. split; auto. rewrite !v2_iter_aiter by auto. exact H2.
    - right. right. split; auto. exists c, d, s2. split; auto. split; auto.
      assert (small c) by (rewrite Hbd in Hsb; eapply small_app_l; eauto).
      rewrite !v2_iter_aiter by auto. auto.
  Qed.

  Lemma v2_doomed_fail s w : v2_wf s -> v2_doomed s = true -> w <> [] -> v2_iter s w = IFail.
  Proof.
    intros Hwf Hd Hne. destruct s as [buf|buf|s buf|s app cnt aad buf len|v]; cbn [v2_doomed] in Hd; try discriminate.
    unfold Transport.v2_iter. cbv zeta.
    pose proof (v2_doomed_fail_G (SKey buf) (firstn (ELLSWIFT_SIZE - length buf) w) Hwf Hd) as HG.
    cbn [v2_G] in HG. cbv zeta in HG.
    destruct (_ && _); [reflexivity|]. destruct (Nat.eqb _ _); discriminate.
  Qed.

  Ltac v2n := first [exact small_app_l | exact small_app_r | exact v2_ok_wf_iter | exact v2_M1 | exact v2_M1f
                    | exact v2_M2 | exact v2_doomed_fail | eassumption].

  Definition v2_norm := norm v2st v2_doomed.

  (* THEOREM (fragmentation independence, v2): for every receive state (handshake, garbage, version, application,
     v1 fallback), every byte stream and every way of cutting it into chunks, feeding the chunks one by one gives
     the same delivered/rejected sequence, the same final state and the same disconnect decision as feeding the
     whole stream at once — except that a responder which has received exactly 16 bytes spelling a v1 version
     header of ANOTHER network in one piece reports the failure only on the next byte (v2_norm identifies that
     state, from which every further byte fails, with the failed connection). *)
  Theorem v2_fragmentation : forall chunks s acc, v2_wf s -> small (concat chunks) ->
      v2_norm (node_recv_chunks v2_iter (Alive s acc) chunks) = v2_norm (node_recv v2_iter (Alive s acc) (concat chunks)).
  Proof.
    intros chunks s acc Hwf Hs.
    assert (HH := node_chunks _ v2_iter v2_wf small v2_doomed).
    specialize (HH ltac:(v2n) ltac:(v2n) ltac:(v2n) ltac:(v2n) ltac:(v2n) ltac:(v2n) ltac:(v2n) chunks (Alive s acc) Hwf Hs).
    exact (proj1 HH).
  Qed.

  (* the delivered sequence is exactly the same *)
  Corollary v2_fragmentation_outs chunks s acc : v2_wf s -> small (concat chunks) ->
      conn_outs (node_recv_chunks v2_iter (Alive s acc) chunks) = conn_outs (node_recv v2_iter (Alive s acc) (concat chunks)).
  Proof.
    intros Hwf Hs. pose proof (v2_fragmentation chunks s acc Hwf Hs) as H.
    apply (f_equal conn_outs) in H. unfold v2_norm in H. rewrite !norm_outs in H. exact H.
  Qed.

  Lemma v2_run_step s w acc : v2_wf s -> small w -> w <> [] ->
      run _ v2_iter s w acc = match v2_iter s w with IFail => Dead acc | ICont s' r o => run _ v2_iter s' r (acc ++ o) end.
  Proof. intros. eapply (run_step _ v2_iter v2_wf small); v2n. Qed.

  Lemma v2_init_wf : v2_wf v2_init.
  Proof. unfold Transport.v2_init. destruct initiating; cbn [v2_wf length]; lia. Qed.

  (* ---------------------------------------------------------------------------------------------- *)
  (* THEOREM (garbage bound): the terminator search never holds more than MAX_GARBAGE_LEN + 16 bytes: once that
     many bytes have been fed to a receiver in the garbage state it has either found the terminator or failed. *)
  Theorem v2_garbage_bound s0 w acc : MAX_GARBAGE_LEN + GARBAGE_TERMINATOR_LEN <= length w -> small w ->
      match run _ v2_iter (SGarb s0 []) w acc with
      | Alive (SGarb _ _) _ => False
      | _ => True
      end.
  Proof.
    intros Hl Hs. change (MAX_GARBAGE_LEN + GARBAGE_TERMINATOR_LEN) with GLIM in Hl.
    set (P := fun (s : v2st) (w : list N) (acc : list out) =>
                match s with
                | SGarb _ buf => GLIM <= length buf + length w /\ length buf < GLIM
                | SMaybeV1 _ | SKey _ => False
                | _ => True
                end).
    set (Q := fun (c : conn v2st) => match c with Alive (SGarb _ _) _ => False | _ => True end).
    assert (HH := run_inv _ v2_iter v2_wf small v2_doomed).
    specialize (HH ltac:(v2n) ltac:(v2n) ltac:(v2n) ltac:(v2n) ltac:(v2n) ltac:(v2n) ltac:(v2n) P Q).
    apply HH with (n := length w); auto.
    - intros s acc0 HP. unfold P, Q in *. destruct s; auto. cbn [length] in HP. lia.
    - intros; unfold Q; auto.
    - intros s w0 acc0 s' r o Hwf0 Hok0 Hne0 HP E. unfold P in *.
      destruct (v2_ok_wf_iter s w0 s' r o Hwf0 Hok0 Hne0 E) as [Hwf' _].
      rewrite v2_iter_aiter in E by auto. unfold aiter in E.
      destruct s as [buf|buf|s2 buf|s2 app cnt aad buf len|v]; try contradiction; cbn [v2_need v2_G] in E.
      + destruct w0 as [|x w1]; [congruence|].
        change (firstn 1 (x :: w1)) with [x] in E. change (skipn 1 (x :: w1)) with w1 in E.
        destruct (Nat.leb _ _); [destruct (bytes_eqb _ _); [|destruct (Nat.eqb _ _)]|];
          inversion E; subst; auto; cbn [v2_wf] in Hwf'; rewrite app_length in *; cbn [length] in *; lia.
      + destruct (Nat.eqb _ _).
        { destruct (_ <? _)%Z; inversion E; subst; auto. }
        destruct (_ && _); [|inversion E; subst; auto].
        destruct (pdec _ _ _ _) as [[h c]|]; [|discriminate].
        destruct (N.eqb _ _); [|destruct app]; inversion E; subst; auto.
      + destruct (v1_G _ _ _ _) as [[? ?]|]; inversion E; subst; auto.
    - cbn [v2_wf length]. pose proof GLIM_bounds. lia.
    - unfold P. cbn [length]. pose proof GLIM_bounds. lia.
  Qed.

  (* ============================================================================================== *)
  (* An honest peer: its 64 key bytes pk, the session sr the receiver derives from them, and the send half of
     the peer's cipher.  PREMISES about the cryptography (they stay in the theorem statements):
       term_ok   both sides derive the same garbage terminator (ECDH + HKDF agree)
       lenc_ok   the length cipher decrypts what it encrypted, three bytes long
       penc_ok   the AEAD decrypts what it encrypted under the same packet counter and AAD, 16+1 bytes longer *)
  Section Honest.
  Variable pk : list N.
  Variable sterm : list N.
  Variable lenc : nat -> Z -> list N.
  Variable penc : nat -> list N -> N -> list N -> list N.
  Let sr : S := kex pk.
  Hypothesis pk_len : length pk = 64.
  (* a responder takes a key whose bytes 4..15 spell a v1 version header for a v1 peer of another network *)
  Hypothesis pk_not_v1 : initiating = false -> firstn 12 (skipn 4 pk) <> VERSION_TAIL.
  Hypothesis term_ok : rterm sr = sterm.
  Hypothesis term_len : length sterm = 16.
  Hypothesis lenc_ok : forall n len, (0 <= len < 16777216)%Z -> length (lenc n len) = 3 /\ ldec sr n (lenc n len) = len.
  Hypothesis penc_ok : forall n aad h c, length (penc n aad h c) = length c + 17 /\ pdec sr n aad (penc n aad h c) = Some (h, c).

  Notation v2_stream := (v2_stream sterm lenc penc).
  Notation v2_packets := (v2_packets lenc penc).
  Notation v2_packet := (v2_packet lenc penc).

  Lemma key_match_pk : key_match pk = false.
  Proof.
    unfold key_match. destruct initiating eqn:Ei; [reflexivity|]. cbn [negb andb].
    rewrite MESSAGE_START_SIZE_4. apply andb_false_iff. right. apply bytes_eqb_neq. auto.
  Qed.

  (* the handshake's key part *)
  Lemma v2_key_phase rest acc : small (pk ++ rest) ->
      run _ v2_iter v2_init (pk ++ rest) acc = run _ v2_iter (SGarb sr []) rest acc.
  Proof.
    intros Hs. pose proof v2_init_wf as Hwf0.
    assert (Hne : pk ++ rest <> []) by (destruct pk; [cbn [length] in pk_len; lia|discriminate]).
    assert (Hi : initiating = true \/ initiating = false) by (destruct initiating; auto).
    destruct Hi as [Ei|Ei].
    - assert (E0 : v2_init = SKey []) by (unfold Transport.v2_init; rewrite Ei; reflexivity).
      rewrite E0 in *.
      rewrite v2_run_step by auto. rewrite v2_iter_aiter by auto.
      unfold aiter. cbn [v2_need length]. rewrite ELLSWIFT_SIZE_64. change (64 - 0) with 64.
      rewrite firstn_app_exact, skipn_app_exact by auto.
      cbn [v2_G app]. fold (key_match pk). rewrite key_match_pk.
      rewrite ELLSWIFT_SIZE_64, pk_len. change (Nat.eqb 64 64) with true.
      cbn iota. rewrite app_nil_r. reflexivity.
    - assert (E0 : v2_init = SMaybeV1 []) by (unfold Transport.v2_init; rewrite Ei; reflexivity).
      rewrite E0 in *.
      rewrite v2_run_step by auto. rewrite v2_iter_aiter by auto.
      unfold aiter. cbn [v2_need length]. rewrite V1_PREFIX_LEN_16. change (16 - 0) with 16.
      assert (F1 : firstn 16 (pk ++ rest) = firstn 16 pk).
      { rewrite firstn_app. replace (16 - length pk) with 0 by lia. change (firstn 0 rest) with (@nil N). apply app_nil_r. }
      assert (F2 : skipn 16 (pk ++ rest) = skipn 16 pk ++ rest).
      { rewrite skipn_app. replace (16 - length pk) with 0 by lia. reflexivity. }
      rewrite F1, F2. cbn [v2_G app].
      assert (Hp : is_prefix_of (firstn 16 pk) v1_prefix = false).
      { destruct (is_prefix_of (firstn 16 pk) v1_prefix) eqn:Ep; auto. exfalso.
        apply is_prefix_of_full in Ep.
        - apply pk_not_v1; auto. rewrite firstn_skipn_comm. change (4 + 12) with 16. rewrite Ep.
          unfold Transport.v1_prefix. rewrite skipn_app_exact by (rewrite magic_len; reflexivity). reflexivity.
        - rewrite firstn_length, pk_len. unfold Transport.v1_prefix. rewrite app_length, magic_len, VERSION_TAIL_len.
          reflexivity. }
      rewrite Hp. cbn [negb]. cbn iota. rewrite app_nil_r.
      assert (Hwf1 : v2_wf (SKey (firstn 16 pk))) by (cbn [v2_wf]; rewrite firstn_length; lia).
      assert (Hs1 : small (skipn 16 pk ++ rest)) by (rewrite <- F2; eapply small_app_r; rewrite firstn_skipn; eauto).
      assert (Hl48 : length (skipn 16 pk) = 48) by (rewrite skipn_length; lia).
      assert (Hne1 : skipn 16 pk ++ rest <> []) by (destruct (skipn 16 pk); [cbn [length] in Hl48; lia|discriminate]).
      rewrite v2_run_step by auto. rewrite v2_iter_aiter by auto. unfold aiter.
      cbn [v2_need]. rewrite ELLSWIFT_SIZE_64, firstn_length, pk_len. change (64 - Nat.min 16 64) with 48.
      rewrite firstn_app_exact, skipn_app_exact by auto.
      cbn [v2_G]. rewrite firstn_skipn. fold (key_match pk). rewrite key_match_pk.
      rewrite ELLSWIFT_SIZE_64, pk_len. change (Nat.eqb 64 64) with true. cbn iota. rewrite app_nil_r. reflexivity.
  Qed.

  Lemma lastn_app_exact (a b : list N) n : length b = n -> lastn n (a ++ b) = b.
  Proof. intros H. unfold lastn. rewrite app_length, H. replace (length a + n - n) with (length a) by lia. apply skipn_app_exact. auto. Qed.

  (* garbage and terminator, byte by byte *)
  Lemma v2_garb_loop garbage rest : length garbage <= MAX_GARBAGE_LEN ->
      (forall k, 16 <= k < length garbage + 16 -> lastn 16 (firstn k (garbage ++ sterm)) <> sterm) ->
      forall q p acc, p ++ q = garbage ++ sterm -> q <> [] -> small (q ++ rest) ->
      run _ v2_iter (SGarb sr p) (q ++ rest) acc = run _ v2_iter (SPkt sr false 0 garbage [] 0%Z) rest acc.
  Proof.
    intros Hg Hearly. induction q as [|x q IH]; intros p acc Hpq Hq Hs; [congruence|].
    assert (Hlen : length p + Datatypes.S (length q) = length garbage + 16).
    { apply (f_equal (@length N)) in Hpq. rewrite !app_length, term_len in Hpq. cbn [length] in Hpq. lia. }
    pose proof GLIM_bounds as [HG1 HG2].
    assert (Hwf : v2_wf (SGarb sr p)) by (cbn [v2_wf]; lia).
    rewrite v2_run_step; auto; [|discriminate].
    rewrite v2_iter_aiter by auto. unfold aiter. cbn [v2_need].
    change (firstn 1 ((x :: q) ++ rest)) with [x]. change (skipn 1 ((x :: q) ++ rest)) with (q ++ rest).
    cbn [v2_G]. change (MAX_GARBAGE_LEN + GARBAGE_TERMINATOR_LEN) with GLIM. rewrite GARBAGE_TERMINATOR_LEN_16.
    assert (Hpx : length (p ++ [x]) = length p + 1) by (rewrite app_length; reflexivity).
    assert (Hpq' : (p ++ [x]) ++ q = garbage ++ sterm) by (rewrite <- app_assoc; exact Hpq).
    destruct q as [|y q'].
    - (* last byte of the terminator *)
      rewrite app_nil_r in Hpq'. rewrite Hpq'.
      replace (Nat.leb 16 (length (garbage ++ sterm))) with true
        by (symmetry; apply Nat.leb_le; rewrite app_length, term_len; lia).
      rewrite (lastn_app_exact garbage sterm 16 term_len). rewrite term_ok, bytes_eqb_refl.
      rewrite app_length, term_len. replace (length garbage + 16 - 16) with (length garbage) by lia.
      rewrite firstn_app_exact by auto. rewrite app_nil_r. reflexivity.
    - set (q := y :: q') in *.
      assert (Hk : length (p ++ [x]) < length garbage + 16) by (unfold q in Hlen; cbn [length] in Hlen; lia).
      assert (Hfk : firstn (length (p ++ [x])) (garbage ++ sterm) = p ++ [x]).
      { rewrite <- Hpq'. apply firstn_app_exact. reflexivity. }
      assert (Hcont : run _ v2_iter (SGarb sr (p ++ [x])) (q ++ rest) (acc ++ []) =
                      run _ v2_iter (SPkt sr false 0 garbage [] 0%Z) rest acc).
      { rewrite app_nil_r. apply IH; auto. unfold q; discriminate. eapply (small_app_r [x]); exact Hs. }
      destruct (Nat.leb_spec 16 (length (p ++ [x]))) as [H16|H16].
      + destruct (bytes_eqb (lastn 16 (p ++ [x])) (rterm sr)) eqn:Eb.
        * exfalso. apply bytes_eqb_eq in Eb. rewrite term_ok in Eb.
          apply (Hearly (length (p ++ [x]))); [lia|]. rewrite Hfk. exact Eb.
        * destruct (Nat.eqb_spec (length (p ++ [x])) GLIM); [lia|]. exact Hcont.
      + exact Hcont.
  Qed.

  Lemma v2_garbage_phase garbage rest acc : length garbage <= MAX_GARBAGE_LEN ->
      (forall k, 16 <= k < length garbage + 16 -> lastn 16 (firstn k (garbage ++ sterm)) <> sterm) ->
      small (garbage ++ sterm ++ rest) ->
      run _ v2_iter (SGarb sr []) (garbage ++ sterm ++ rest) acc = run _ v2_iter (SPkt sr false 0 garbage [] 0%Z) rest acc.
  Proof.
    intros Hg He Hs. rewrite app_assoc in *. apply v2_garb_loop; auto.
    destruct sterm; [cbn [length] in term_len; lia|]. destruct garbage; discriminate.
  Qed.

  Definition hdr_byte (ignore : bool) : N := if ignore then Z.to_N TR_IGNORE_BIT else 0%N.

  (* one packet *)
  Lemma v2_packet_step app cnt aad len0 ig c rest acc : (Z.of_nat (length c) <= MAX_CONTENTS_LEN)%Z ->
      small (v2_packet cnt aad ig c ++ rest) ->
      run _ v2_iter (SPkt sr app cnt aad [] len0) (v2_packet cnt aad ig c ++ rest) acc =
      run _ v2_iter (SPkt sr (if ig then app else true) (Datatypes.S cnt) [] [] (Z.of_nat (length c))) rest
          (acc ++ (if ig then [] else if app then [v2_get_received_message ids c] else [])).
  Proof.
    intros Hc Hs. unfold Transport.v2_packet in *. fold (hdr_byte ig) in *.
    pose proof MAX_CONTENTS_LEN_small as HM.
    destruct (lenc_ok cnt (Z.of_nat (length c)) ltac:(lia)) as [Ll Ld].
    destruct (penc_ok cnt aad (hdr_byte ig) c) as [Pl Pd].
    set (L := lenc cnt (Z.of_nat (length c))) in *. set (P := penc cnt aad (hdr_byte ig) c) in *.
    rewrite <- app_assoc in *.
    assert (Hne : L ++ P ++ rest <> []) by (destruct L; [cbn [length] in Ll; lia|discriminate]).
    rewrite v2_run_step; auto; [|apply wf_pkt_nil].
    rewrite v2_iter_aiter; auto; [|apply wf_pkt_nil].
    unfold aiter. cbn [v2_need length]. rewrite LENGTH_LEN_3. change (Nat.ltb 0 3) with true. cbn iota.
    change (3 - 0) with 3. rewrite firstn_app_exact, skipn_app_exact by auto.
    cbn [v2_G Datatypes.app]. rewrite LENGTH_LEN_3, Ll. change (Nat.eqb 3 3) with true. cbn iota.
    rewrite Ld. destruct (Z.ltb_spec MAX_CONTENTS_LEN (Z.of_nat (length c))); [lia|].
    rewrite app_nil_r.
    assert (Hwf1 : v2_wf (SPkt sr app cnt aad L (Z.of_nat (length c)))) by (cbn [v2_wf]; right; lia).
    assert (Hs1 : small (P ++ rest)) by (eapply small_app_r; eauto).
    assert (Hne1 : P ++ rest <> []) by (destruct P; [cbn [length] in Pl; lia|discriminate]).
    destruct (pkt_wrap (Z.of_nat (length c)) ltac:(lia)) as [W1 W2].
    rewrite v2_run_step by auto. rewrite v2_iter_aiter by auto.
    unfold aiter. cbn [v2_need]. rewrite LENGTH_LEN_3, Ll. change (Nat.ltb 3 3) with false. cbn iota.
    rewrite W1. replace (Z.to_nat (Z.of_nat (length c) + 20) - 3) with (length c + 17) by lia.
    rewrite firstn_app_exact, skipn_app_exact by auto.
    cbn [v2_G]. rewrite LENGTH_LEN_3, W2.
    assert (Hlp : length (L ++ P) = length c + 20) by (rewrite app_length; lia).
    rewrite Hlp.
    destruct (Nat.eqb_spec (length c + 20) 3); [lia|].
    destruct (Nat.ltb_spec 3 (length c + 20)); [|lia]. cbn [andb].
    destruct (Z.eqb_spec (Z.of_nat (length c + 20)) (Z.of_nat (length c) + 20)); [|lia].
    rewrite skipn_app_exact by auto. rewrite Pd.
    unfold hdr_byte. destruct ig.
    - rewrite N.land_diag, N.eqb_refl. reflexivity.
    - rewrite IGNORE_BIT_128. change (N.eqb (N.land 0 128) 128) with false. cbn iota.
      destruct app; reflexivity.
  Qed.

  Fixpoint seen_version (pkts : list (bool * list N)) : bool :=
    match pkts with [] => false | (ig, _) :: r => negb ig || seen_version r end.

  Lemma v2_packets_run pkts : forall app cnt aad len0 acc,
      Forall (fun p => (Z.of_nat (length (snd p)) <= MAX_CONTENTS_LEN)%Z) pkts ->
      small (v2_packets cnt aad pkts) ->
      exists len, run _ v2_iter (SPkt sr app cnt aad [] len0) (v2_packets cnt aad pkts) acc =
                  Alive (SPkt sr (app || seen_version pkts) (cnt + length pkts) (if pkts then aad else []) [] len)
                        (acc ++ v2_expected ids app pkts).
  Proof.
    induction pkts as [|[ig c] r IH]; intros app cnt aad len0 acc Hall Hs.
    - exists len0. cbn [Transport.v2_packets v2_expected seen_version length]. rewrite run_nil, app_nil_r, orb_false_r, Nat.add_0_r.
      reflexivity.
    - inversion_clear Hall as [|? ? Hc Hr]. cbn [snd] in Hc.
      cbn [Transport.v2_packets] in *. rewrite v2_packet_step by auto.
      destruct (IH (if ig then app else true) (Datatypes.S cnt) [] (Z.of_nat (length c))
                  (acc ++ (if ig then [] else if app then [v2_get_received_message ids c] else [])) Hr)
        as [len Hrun].
      { eapply small_app_r; eauto. }
      exists len. rewrite Hrun. cbn [seen_version v2_expected length].
      replace (Datatypes.S cnt + length r) with (cnt + Datatypes.S (length r)) by lia.
      f_equal.
      + destruct ig, app; cbn [negb orb]; try reflexivity; destruct r; reflexivity.
      + rewrite <- app_assoc. destruct ig, app; reflexivity.
  Qed.

  (* THEOREM (v2 round trip): a peer's stream — key, any garbage of 0..4095 bytes in which the terminator does not
     occur early, terminator, then ANY sequence of packets (decoys anywhere, a version packet, application packets of
     any contents within the size bound) — delivered in ANY fragmentation is received as exactly the messages of
     the non-decoy packets after the version packet, in order; decoys deliver nothing; the connection stays up. *)
  Theorem v2_roundtrip garbage pkts chunks :
      length garbage <= MAX_GARBAGE_LEN ->
      (forall k, 16 <= k < length garbage + 16 -> lastn 16 (firstn k (garbage ++ sterm)) <> sterm) ->
      Forall (fun p => (Z.of_nat (length (snd p)) <= MAX_CONTENTS_LEN)%Z) pkts ->
      concat chunks = v2_stream pk garbage pkts -> small (v2_stream pk garbage pkts) ->
      conn_outs (node_recv_chunks v2_iter (Alive v2_init []) chunks) = v2_expected ids false pkts /\
      conn_dead (v2_norm (node_recv_chunks v2_iter (Alive v2_init []) chunks)) = false.
  Proof.
    intros Hg He Hall Hc Hs.
    assert (Hrun : exists st, node_recv v2_iter (Alive v2_init []) (concat chunks) = Alive st (v2_expected ids false pkts)
                              /\ v2_doomed st = false).
    { rewrite Hc, node_recv_alive. unfold Transport.v2_stream in *.
      rewrite v2_key_phase by auto.
      rewrite v2_garbage_phase; auto; [|eapply small_app_r; eauto].
      destruct (v2_packets_run pkts false 0 garbage 0%Z [] Hall) as [len Hr].
      { do 3 (eapply small_app_r in Hs). exact Hs. }
      rewrite Hr. eexists. split; [reflexivity|reflexivity]. }
    destruct Hrun as [st [Hrun Hd]].
    split.
    - rewrite v2_fragmentation_outs; [|apply v2_init_wf|rewrite Hc; auto]. rewrite Hrun. reflexivity.
    - rewrite v2_fragmentation; [|apply v2_init_wf|rewrite Hc; auto]. rewrite Hrun.
      unfold v2_norm, norm. rewrite Hd. reflexivity.
  Qed.

  End Honest.

  (* ============================================================================================== *)
  (* Tampering.  pkts0 is what the honest peer encrypted, in order (decoys and the version packet included).
     PREMISES (they stay in the theorem statement):
       auth     AEAD unforgeability, idealised: under the session both ends share, the receiver's n-th Decrypt
                accepts only a ciphertext whose plaintext is the sender's n-th packet
       no_mitm  if the key bytes were altered, the receiver derives a session under which nothing authenticates
                (BIP324 is unauthenticated: an active attacker who substitutes its own key and re-encrypts is
                outside this property; bit flips and any other alteration by a party without the private keys
                are inside) *)
  Section Tamper.
  Variable pk : list N.
  Variable pkts0 : list (bool * list N).
  Hypothesis auth : forall n aad c h m, pdec (kex pk) n aad c = Some (h, m) ->
      exists ig, nth_error pkts0 n = Some (ig, m) /\ h = hdr_byte ig.
  Hypothesis no_mitm : forall pk', pk' <> pk -> forall n aad c, pdec (kex pk') n aad c = None.

  Definition blind (s' : S) : Prop := forall n aad c, pdec s' n aad c = None.

  Definition tamper_inv (s : v2st) (w : list N) (acc : list out) : Prop :=
    match s with
    | SMaybeV1 buf => acc = [] /\ ~ (exists tl, buf ++ w = v1_prefix ++ tl)
    | SKey _ => acc = []
    | SGarb s' _ => acc = [] /\ (s' = kex pk \/ blind s')
    | SPkt s' app cnt _ _ _ =>
        (s' = kex pk /\ cnt <= length pkts0 /\ acc = v2_expected ids false (firstn cnt pkts0) /\
         app = seen_version (firstn cnt pkts0))
        \/ (blind s' /\ acc = [])
    | SV1 _ => False
    end.

  Definition delivered_prefix (c : conn v2st) : Prop :=
    exists k, k <= length pkts0 /\ conn_outs c = v2_expected ids false (firstn k pkts0).

  Lemma expected_snoc l : forall a ig c,
      v2_expected ids a (l ++ [(ig, c)]) =
      v2_expected ids a l ++ (if ig then [] else if a || seen_version l then [v2_get_received_message ids c] else []).
  Proof.
    induction l as [|[ig0 c0] l IH]; intros a ig c.
    - cbn [Datatypes.app v2_expected seen_version]. rewrite orb_false_r. destruct ig, a; reflexivity.
    - cbn [Datatypes.app v2_expected seen_version]. destruct ig0; cbn [negb orb].
      + apply IH.
      + destruct a; cbn [orb]; rewrite IH; cbn [orb]; try rewrite orb_true_r; reflexivity.
  Qed.

  Lemma seen_snoc l ig c : seen_version (l ++ [(ig, c)]) = seen_version l || negb ig.
  Proof.
    induction l as [|[ig0 c0] l IH]; cbn [Datatypes.app seen_version].
    - rewrite orb_false_r. reflexivity.
    - rewrite IH, orb_assoc. reflexivity.
  Qed.

  Lemma firstn_S_nth {A} (l : list A) : forall n x, nth_error l n = Some x -> firstn (Datatypes.S n) l = firstn n l ++ [x].
  Proof.
    induction l as [|y l IH]; intros n x H; destruct n; cbn [nth_error] in H; try discriminate.
    - inversion H. reflexivity.
    - cbn [firstn Datatypes.app]. f_equal. apply IH. exact H.
  Qed.

  Lemma hdr_byte_ignore ig : N.eqb (N.land (hdr_byte ig) (Z.to_N TR_IGNORE_BIT)) (Z.to_N TR_IGNORE_BIT) = ig.
  Proof. destruct ig; reflexivity. Qed.

  Lemma tamper_step s w acc s' r o : v2_wf s -> small w -> w <> [] -> tamper_inv s w acc ->
      v2_iter s w = ICont s' r o -> tamper_inv s' r (acc ++ o).
  Proof.
    intros Hwf Hok Hne HP E. rewrite v2_iter_aiter in E by auto. unfold aiter in E.
    pose proof (firstn_skipn (v2_need s) w) as Hfs.
    destruct s as [buf|buf|s2 buf|s2 app cnt aad buf len|v]; cbn [tamper_inv] in HP; try contradiction;
      cbn [v2_need v2_G] in E, Hfs.
    - destruct HP as [Ha Hnv]. rewrite Ha. rewrite V1_PREFIX_LEN_16 in *.
      destruct (is_prefix_of _ _) eqn:Ep; cbn [negb] in E.
      + destruct (Nat.eqb_spec (length (buf ++ firstn (16 - length buf) w)) 16) as [He|_].
        * exfalso. apply Hnv. exists (skipn (16 - length buf) w).
          apply is_prefix_of_full in Ep.
          -- assert (Hsplit : buf ++ w = (buf ++ firstn (16 - length buf) w) ++ skipn (16 - length buf) w)
               by (rewrite <- app_assoc, Hfs; reflexivity).
             rewrite Hsplit, Ep. reflexivity.
          -- rewrite He. unfold Transport.v1_prefix. rewrite app_length, magic_len, VERSION_TAIL_len. reflexivity.
        * assert (E' : s' = SMaybeV1 (buf ++ firstn (16 - length buf) w) /\ r = skipn (16 - length buf) w /\ o = [])
            by (injection E as E1 E2 E3; auto).
          destruct E' as [E1 [E2 E3]]. rewrite E1, E2, E3. cbn [tamper_inv Datatypes.app]. split; auto.
          intros [tl Htl]. apply Hnv. exists tl. rewrite <- Htl, <- app_assoc, Hfs. reflexivity.
      + injection E as E1 E2 E3. rewrite <- E1, <- E3. cbn [tamper_inv Datatypes.app]. reflexivity.
    - rewrite HP. rewrite ELLSWIFT_SIZE_64 in *.
      set (buf' := buf ++ firstn (64 - length buf) w) in *.
      destruct (_ && _); [discriminate|].
      destruct (Nat.eqb _ _).
      + assert (E' : s' = SGarb (kex buf') [] /\ o = []) by (injection E as E1 E2 E3; auto).
        destruct E' as [E1 E3]. rewrite E1, E3. cbn [tamper_inv Datatypes.app]. split; auto.
        destruct (bytes_eqb buf' pk) eqn:Eb.
        * apply bytes_eqb_eq in Eb. left. rewrite Eb. reflexivity.
        * apply bytes_eqb_neq in Eb. right. exact (no_mitm _ Eb).
      + assert (E' : s' = SKey buf' /\ o = []) by (injection E as E1 E2 E3; auto).
        destruct E' as [E1 E3]. rewrite E1, E3. cbn [tamper_inv Datatypes.app]. reflexivity.
    - destruct HP as [Ha Hg]. rewrite Ha.
      destruct (Nat.leb _ _); [destruct (bytes_eqb _ _); [|destruct (Nat.eqb _ _); [discriminate|]]|];
        injection E as E1 E2 E3; rewrite <- E1, <- E3; cbn [tamper_inv Datatypes.app]; auto.
      destruct Hg as [Hg|Hg]; [left|right]; auto.
      repeat split; auto. lia.
    - destruct (Nat.eqb _ _).
      { destruct (_ <? _)%Z; [discriminate|]. injection E as E1 E2 E3. rewrite <- E1, <- E3, app_nil_r. exact HP. }
      destruct (_ && _); [|injection E as E1 E2 E3; rewrite <- E1, <- E3, app_nil_r; exact HP].
      destruct (pdec s2 cnt aad _) as [[h c]|] eqn:Ed; [|discriminate].
      destruct HP as [[Hs [Hc [Ha Hap]]]|[Hb Ha]]; [|rewrite Hb in Ed; discriminate].
      rewrite Hs in Ed. destruct (auth _ _ _ _ _ Ed) as [ig [Hn Hh]].
      assert (Hlt : cnt < length pkts0) by (apply nth_error_Some; rewrite Hn; discriminate).
      rewrite Hh, hdr_byte_ignore in E.
      assert (Hf := firstn_S_nth pkts0 cnt (ig, c) Hn).
      destruct ig.
      + injection E as E1 E2 E3. rewrite <- E1, <- E3, app_nil_r. cbn [tamper_inv]. left.
        rewrite Hf, expected_snoc, seen_snoc, app_nil_r, orb_false_r. repeat split; auto.
      + assert (E' : s' = SPkt s2 true (Datatypes.S cnt) [] [] len /\
                     o = if app then [v2_get_received_message ids c] else []).
        { destruct app; injection E as E1 E2 E3; auto. }
        destruct E' as [E1 E3]. rewrite E1, E3. cbn [tamper_inv]. left.
        rewrite Hf, expected_snoc, seen_snoc. cbn [negb orb]. rewrite orb_true_r.
        repeat split; auto. rewrite Ha, <- Hap. reflexivity.
  Qed.

  Lemma tamper_inv_prefix s w acc : tamper_inv s w acc ->
      exists k, k <= length pkts0 /\ acc = v2_expected ids false (firstn k pkts0).
  Proof.
    intros HP. destruct s as [buf|buf|s2 buf|s2 app cnt aad buf len|v]; cbn [tamper_inv] in HP; try contradiction.
    - destruct HP as [Ha _]. exists 0. split; [lia|]. rewrite Ha. reflexivity.
    - exists 0. split; [lia|]. rewrite HP. reflexivity.
    - destruct HP as [Ha _]. exists 0. split; [lia|]. rewrite Ha. reflexivity.
    - destruct HP as [[_ [Hc [Ha _]]]|[_ Ha]].
      + exists cnt. auto.
      + exists 0. split; [lia|]. rewrite Ha. reflexivity.
  Qed.

  (* THEOREM (v2, tampering never misdelivers): whatever byte stream reaches a v2 receiver — the honest stream with
     any bytes altered, truncated, extended, reordered — and however it is fragmented, what the receiver delivers is
     exactly what an honest delivery of the first k packets the peer encrypted would deliver, for some k: never a
     message that was not sent, never out of order, never a decoy; and since a failed authentication ends the
     connection (Dead is absorbing) nothing is delivered after it.  (A responder excludes streams that open with
     this network's v1 version header: that is the v1 fallback, which is not authenticated by design.) *)
  Theorem v2_tamper_delivers_prefix w chunks : concat chunks = w -> small w ->
      ~ (initiating = false /\ exists tl, w = v1_prefix ++ tl) ->
      delivered_prefix (node_recv_chunks v2_iter (Alive v2_init []) chunks).
  Proof.
    intros Hc Hs Hv1. unfold delivered_prefix.
    rewrite v2_fragmentation_outs; [|apply v2_init_wf|rewrite Hc; auto]. rewrite Hc, node_recv_alive.
    assert (HH := run_inv _ v2_iter v2_wf small v2_doomed).
    specialize (HH ltac:(v2n) ltac:(v2n) ltac:(v2n) ltac:(v2n) ltac:(v2n) ltac:(v2n) ltac:(v2n) tamper_inv delivered_prefix).
    apply HH with (n := length w); auto; try apply v2_init_wf.
    - intros s acc HP. unfold delivered_prefix. cbn [conn_outs]. eapply tamper_inv_prefix; eauto.
    - intros s w0 acc Hwf0 Hok0 Hne0 HP _. unfold delivered_prefix. cbn [conn_outs]. eapply tamper_inv_prefix; eauto.
    - intros s w0 acc s' r o Hwf0 Hok0 Hne0 HP E. eapply tamper_step; eauto.
    - unfold Transport.v2_init. destruct initiating eqn:Ei; cbn [tamper_inv]; auto;
        try (split; auto; intros [tl Htl]; apply Hv1; split; auto; exists tl; exact Htl).
  Qed.

  (* what an honest delivery of the first k packets delivers is an initial segment of the whole *)
  Lemma v2_expected_firstn_prefix : forall (l : list (bool * list N)) k a,
      exists tl, v2_expected ids a l = v2_expected ids a (firstn k l) ++ tl.
  Proof.
    induction l as [|[ig c] l IH]; intros k a.
    - exists []. destruct k; reflexivity.
    - destruct k as [|k].
      + eexists. cbn [firstn v2_expected Datatypes.app]. reflexivity.
      + cbn [firstn v2_expected]. destruct ig.
        * apply IH.
        * destruct a; destruct (IH k true) as [tl Htl]; exists tl; rewrite Htl; reflexivity.
  Qed.
  End Tamper.
End V2Proofs.
