(* Proofs about the context-free package checks (C29). *)
From BV Require Import lib.Ints gen.Params_gen model.Package.
Local Open Scope Z_scope.

(* ---------- membership helpers ---------- *)
Lemma zmem_In x l : zmem x l = true <-> In x l.
Proof.
  unfold zmem. rewrite existsb_exists. split.
  - intros [y [Hy He]]. apply Z.eqb_eq in He. subst. exact Hy.
  - intros H. exists x. split; [exact H | apply Z.eqb_refl].
Qed.
Lemma zmem_false x l : zmem x l = false <-> ~ In x l.
Proof. rewrite <- zmem_In. destruct (zmem x l); split; congruence. Qed.

Lemma zerase_In x y l : In y (zerase x l) <-> In y l /\ y <> x.
Proof.
  unfold zerase. rewrite filter_In. split; intros [H1 H2]; split; auto.
  - intros E. subst. rewrite Z.eqb_refl in H2. discriminate.
  - destruct (Z.eqb_spec x y); [subst; congruence | reflexivity].
Qed.

Lemma opeqb_eq a b : opeqb a b = true <-> a = b.
Proof.
  unfold opeqb. destruct a as [a1 a2], b as [b1 b2]. simpl. rewrite andb_true_iff, !Z.eqb_eq.
  split; [intros [? ?]; subst; reflexivity | intros E; inversion E; auto].
Qed.
Lemma opmem_In o l : opmem o l = true <-> In o l.
Proof.
  unfold opmem. rewrite existsb_exists. split.
  - intros [y [Hy He]]. apply opeqb_eq in He. subst. exact Hy.
  - intros H. exists o. split; [exact H | apply opeqb_eq; reflexivity].
Qed.

Lemma existsb_false_forall {A} (f : A -> bool) l : existsb f l = false <-> forall x, In x l -> f x = false.
Proof.
  induction l as [|a l IH]; simpl.
  - split; [intros _ x [] | reflexivity].
  - rewrite orb_false_iff, IH. split.
    + intros [Ha Hl] x [E|Hx]; [subst; exact Ha | apply Hl; exact Hx].
    + intros H. split; [apply H; left; reflexivity | intros x Hx; apply H; right; exact Hx].
Qed.

(* ---------- IsTopoSortedPackage ---------- *)

(* exact meaning for an arbitrary initial set: an input naming a member of the set must name a
   transaction placed strictly earlier (whose id has therefore been erased) *)
Lemma topo_sorted_from_iff : forall txns later,
  topo_sorted_from txns later = true <->
  (forall i ti inp, nth_error txns i = Some ti -> In inp (p_inputs ti) -> In (fst inp) later ->
     In (fst inp) (map p_txid (firstn i txns))).
Proof.
  induction txns as [|t r IH]; intros later; simpl.
  - split; [intros _ i ti inp H | reflexivity]. destruct i; discriminate.
  - destruct (existsb (fun inp => zmem (fst inp) later) (p_inputs t)) eqn:Hex.
    + split; [discriminate|]. intros H. exfalso.
      apply existsb_exists in Hex. destruct Hex as [inp [Hin Hm]]. apply zmem_In in Hm.
      specialize (H 0%nat t inp eq_refl Hin Hm). simpl in H. exact H.
    + rewrite IH. rewrite existsb_false_forall in Hex. split.
      * intros H i ti inp Hn Hin Hl. destruct i as [|i]; simpl in *.
        { inversion Hn; subst ti. specialize (Hex inp Hin). apply zmem_false in Hex. contradiction. }
        destruct (Z.eq_dec (fst inp) (p_txid t)) as [E|NE]; [left; symmetry; exact E|].
        right. apply (H i ti inp Hn Hin). apply zerase_In. split; assumption.
      * intros H i ti inp Hn Hin Hl. apply zerase_In in Hl. destruct Hl as [Hl NE].
        specialize (H (S i) ti inp Hn Hin Hl). simpl in H. destruct H as [E|H]; [congruence | exact H].
Qed.

Lemma nth_error_firstn_lt {A} (l : list A) : forall i x, In x (firstn i l) -> exists k, (k < i)%nat /\ nth_error l k = Some x.
Proof.
  induction l as [|a l IH]; intros i x H.
  - rewrite firstn_nil in H. destruct H.
  - destruct i as [|i]; simpl in H; [destruct H|]. destruct H as [E|H].
    + subst. exists 0%nat. split; [lia | reflexivity].
    + destruct (IH i x H) as [k [Hk Hn]]. exists (S k). split; [lia | exact Hn].
Qed.

Lemma nth_error_in_firstn {A} (l : list A) : forall k i x, (k < i)%nat -> nth_error l k = Some x -> In x (firstn i l).
Proof.
  induction l as [|a l IH]; intros k i x Hk Hn.
  - destruct k; discriminate.
  - destruct i as [|i]; [lia|]. destruct k as [|k]; simpl in *.
    + inversion Hn. left. reflexivity.
    + right. apply (IH k i x); [lia | exact Hn].
Qed.

Lemma NoDup_map_nth_inj {A} (f : A -> Z) (l : list A) : NoDup (map f l) ->
  forall i j a b, nth_error l i = Some a -> nth_error l j = Some b -> f a = f b -> i = j.
Proof.
  intros Hnd i j a b Hi Hj E.
  assert (Hi' : nth_error (map f l) i = Some (f a)) by (rewrite nth_error_map, Hi; reflexivity).
  assert (Hj' : nth_error (map f l) j = Some (f b)) by (rewrite nth_error_map, Hj; reflexivity).
  rewrite NoDup_nth_error in Hnd. apply Hnd.
  - apply nth_error_Some. rewrite Hi'. discriminate.
  - rewrite Hi', Hj', E. reflexivity.
Qed.

(* with later = exactly the (distinct) txids of the package: the declarative meaning *)
Lemma topo_sorted_from_spec txns later :
  NoDup (map p_txid txns) -> (forall x, In x later <-> In x (map p_txid txns)) ->
  (topo_sorted_from txns later = true <-> spec_sorted txns).
Proof.
  intros Hnd Hl. rewrite topo_sorted_from_iff. unfold spec_sorted. split.
  - intros H i j ti tj inp Hi Hj Hij Hin E.
    assert (Hmem : In (fst inp) later).
    { apply Hl. rewrite E. apply in_map. eapply nth_error_In; eauto. }
    specialize (H i ti inp Hi Hin Hmem). apply in_map_iff in H. destruct H as [tk [Ek Hk]].
    apply nth_error_firstn_lt in Hk. destruct Hk as [k [Hki Hk]].
    assert (k = j) by (eapply (NoDup_map_nth_inj p_txid txns Hnd); eauto; congruence). lia.
  - intros H i ti inp Hi Hin Hmem. apply Hl in Hmem. apply in_map_iff in Hmem.
    destruct Hmem as [tj [E Hj]]. apply In_nth_error in Hj. destruct Hj as [j Hj].
    destruct (le_lt_dec i j) as [Hij|Hji].
    + exfalso. apply (H i j ti tj inp Hi Hj Hij Hin). symmetry. exact E.
    + rewrite <- E. apply in_map. eapply nth_error_in_firstn; eauto.
Qed.

Lemma is_topo_sorted_spec txns : NoDup (map p_txid txns) -> (is_topo_sorted txns = true <-> spec_sorted txns).
Proof. intros H. apply topo_sorted_from_spec; [exact H | intros x; reflexivity]. Qed.

(* without the distinctness premise: the exact meaning of the one-argument overload *)
Lemma is_topo_sorted_iff txns :
  is_topo_sorted txns = true <->
  (forall i ti inp, nth_error txns i = Some ti -> In inp (p_inputs ti) -> In (fst inp) (map p_txid txns) ->
     In (fst inp) (map p_txid (firstn i txns))).
Proof. apply topo_sorted_from_iff. Qed.

(* ---------- IsConsistentPackage ---------- *)
Fixpoint consistent_rec (txns : package) : Prop :=
  match txns with
  | [] => True
  | t :: r => p_inputs t <> [] /\ (forall o tj, In o (p_inputs t) -> In tj r -> ~ In o (p_inputs tj)) /\ consistent_rec r
  end.

Lemma consistent_from_iff : forall txns seen,
  consistent_from txns seen = true <->
  consistent_rec txns /\ (forall t o, In t txns -> In o (p_inputs t) -> ~ In o seen).
Proof.
  induction txns as [|t r IH]; intros seen; simpl.
  - split; [intros _; split; [exact I | intros t o []] | reflexivity].
  - destruct (p_inputs t) as [|i0 ir] eqn:Hinp.
    + split; [discriminate | intros [[H _] _]; congruence].
    + rewrite <- Hinp. destruct (existsb (fun inp => opmem inp seen) (p_inputs t)) eqn:Hex.
      * split; [discriminate|]. intros [_ H]. exfalso.
        apply existsb_exists in Hex. destruct Hex as [o [Ho Hm]]. apply opmem_In in Hm.
        apply (H t o); auto.
      * rewrite existsb_false_forall in Hex. rewrite IH. split.
        -- intros [Hrec Hs]. split; [split; [rewrite Hinp; discriminate | split; [|exact Hrec]]|].
           ++ intros o tj Ho Htj Hc. apply (Hs tj o Htj Hc). apply in_or_app. left. exact Ho.
           ++ intros t' o [E|Ht'] Ho Hc.
              ** subst t'. specialize (Hex o Ho). rewrite <- not_true_iff_false in Hex. apply Hex. apply opmem_In. exact Hc.
              ** apply (Hs t' o Ht' Ho). apply in_or_app. right. exact Hc.
        -- intros [[_ [Hd Hrec]] Hs]. split; [exact Hrec|].
           intros t' o Ht' Ho Hc. apply in_app_or in Hc. destruct Hc as [Hc|Hc].
           ++ apply (Hd o t' Hc Ht' Ho).
           ++ apply (Hs t' o (or_intror Ht') Ho Hc).
Qed.

Lemma consistent_rec_spec txns : consistent_rec txns <-> spec_consistent txns.
Proof.
  unfold spec_consistent. induction txns as [|t r IH]; simpl.
  - split; [intros _; split; [intros t [] | intros i j ti tj o H; destruct i; discriminate] | auto].
  - rewrite IH. split.
    + intros [Hne [Hd [Hr1 Hr2]]]. split.
      * intros t' [E|H]; [subst; exact Hne | apply Hr1; exact H].
      * intros i j ti tj o Hi Hj Hij Hoi Hoj. destruct j as [|j]; [lia|]. simpl in Hj.
        destruct i as [|i]; simpl in Hi.
        -- inversion Hi; subst ti. apply (Hd o tj Hoi); [eapply nth_error_In; eauto | exact Hoj].
        -- apply (Hr2 i j ti tj o Hi Hj); [lia | exact Hoi | exact Hoj].
    + intros [H1 H2]. split; [apply H1; left; reflexivity|]. split; [|split].
      * intros o tj Ho Htj Hc. apply In_nth_error in Htj. destruct Htj as [j Hj].
        apply (H2 0%nat (S j) t tj o eq_refl Hj); [lia | exact Ho | exact Hc].
      * intros t' Ht'. apply H1. right. exact Ht'.
      * intros i j ti tj o Hi Hj Hij. apply (H2 (S i) (S j) ti tj o Hi Hj). lia.
Qed.

Lemma is_consistent_spec txns : is_consistent txns = true <-> spec_consistent txns.
Proof.
  unfold is_consistent. rewrite consistent_from_iff, consistent_rec_spec.
  split; [intros [H _]; exact H | intros H; split; [exact H | intros t o _ _ []]].
Qed.

(* ---------- duplicates ---------- *)
Lemma nodup_length_le (l : list Z) : (length (nodup Z.eq_dec l) <= length l)%nat.
Proof. induction l as [|a l IH]; simpl; [lia|]. destruct (in_dec Z.eq_dec a l); simpl; lia. Qed.

Lemma nodup_length_eq_iff (l : list Z) : length (nodup Z.eq_dec l) = length l <-> NoDup l.
Proof.
  split.
  - induction l as [|a l IH]; simpl; [constructor|]. destruct (in_dec Z.eq_dec a l) as [Hin|Hn]; simpl.
    + pose proof (nodup_length_le l). lia.
    + intros H. constructor; [exact Hn | apply IH; lia].
  - intros H. rewrite nodup_fixed_point; [reflexivity | exact H].
Qed.

(* ---------- weight accumulator ---------- *)
Lemma acc_weight_exact_gen : forall txns acc B,
  0 <= B -> 0 <= acc -> (forall t, In t txns -> 0 <= p_weight t <= B) ->
  acc + Z.of_nat (length txns) * B <= INT32_MAX ->
  fold_left (fun a tx => wrap32 (wrap64 (a + p_weight tx))) txns acc = acc + zsum (map p_weight txns).
Proof.
  induction txns as [|t r IH]; intros acc B HB Hacc Hw Hle; simpl; [lia|].
  assert (Ht : 0 <= p_weight t <= B) by (apply Hw; left; reflexivity).
  assert (Hlen : 0 <= Z.of_nat (length r)) by lia.
  assert (Hmul : 0 <= Z.of_nat (length r) * B) by (apply Z.mul_nonneg_nonneg; lia).
  change (length (t :: r)) with (S (length r)) in Hle. rewrite Nat2Z.inj_succ in Hle.
  replace (Z.succ (Z.of_nat (length r)) * B) with (B + Z.of_nat (length r) * B) in Hle by lia.
  rewrite wrap64_id by (unfold INT64_MIN, INT64_MAX, INT32_MAX in *; lia).
  rewrite wrap32_id by (unfold INT32_MIN, INT32_MAX in *; lia).
  rewrite (IH (acc + p_weight t) B); try lia.
  intros t' Ht'. apply Hw. right. exact Ht'.
Qed.

(* the int accumulator of std::accumulate cannot wrap under the count limit when no transaction
   weighs more than INT32_MAX / MAX_PACKAGE_COUNT *)
Lemma acc_weight_exact txns :
  Z.of_nat (length txns) <= MAX_PACKAGE_COUNT ->
  (forall t, In t txns -> 0 <= p_weight t /\ p_weight t * MAX_PACKAGE_COUNT <= INT32_MAX) ->
  acc_weight txns = zsum (map p_weight txns).
Proof.
  intros Hc Hw. unfold acc_weight.
  rewrite (acc_weight_exact_gen txns 0 (INT32_MAX / MAX_PACKAGE_COUNT)); try lia.
  - unfold INT32_MAX, MAX_PACKAGE_COUNT, MPP_MAX_PACKAGE_COUNT. vm_compute. discriminate.
  - intros t Ht. destruct (Hw t Ht) as [H0 H1]. split; [exact H0|].
    unfold MAX_PACKAGE_COUNT, MPP_MAX_PACKAGE_COUNT, INT32_MAX in *. lia.
  - assert (0 <= Z.of_nat (length txns)) by lia.
    unfold MAX_PACKAGE_COUNT, MPP_MAX_PACKAGE_COUNT, INT32_MAX in *. nia.
Qed.

(* every transaction that can arrive in a P2P message (serialized size <= MAX_PROTOCOL_MESSAGE_LENGTH,
   weight <= 4 * size) satisfies the per-transaction bound *)
Lemma p2p_weight_within_bound w :
  0 <= w <= WITNESS_SCALE_FACTOR * MPP_MAX_PROTOCOL_MESSAGE_LENGTH -> w * MAX_PACKAGE_COUNT <= INT32_MAX.
Proof.
  unfold WITNESS_SCALE_FACTOR, MPP_MAX_PROTOCOL_MESSAGE_LENGTH, MAX_PACKAGE_COUNT, MPP_MAX_PACKAGE_COUNT, INT32_MAX. lia.
Qed.

(* ---------- IsWellFormedPackage ---------- *)
Definition weights_ok (txns : package) : Prop :=
  forall t, In t txns -> 0 <= p_weight t /\ p_weight t * MAX_PACKAGE_COUNT <= INT32_MAX.

Lemma is_well_formed_first_violation txns :
  Z.of_nat (length txns) <= UINT32_MAX -> weights_ok txns ->
  first_violation_is txns (is_well_formed txns).
Proof.
  intros Hlen Hw. unfold is_well_formed.
  rewrite wrapu32_id by lia.
  destruct (Z.of_nat (length txns) >? MAX_PACKAGE_COUNT) eqn:Hc.
  { simpl. unfold spec_count. lia. }
  assert (Hcount : spec_count txns) by (unfold spec_count; lia).
  rewrite (acc_weight_exact txns Hcount Hw).
  destruct ((Z.of_nat (length txns) >? 1) && (zsum (map p_weight txns) >? MAX_PACKAGE_WEIGHT)) eqn:Hwt.
  { simpl. split; [exact Hcount|]. unfold spec_weight. apply andb_true_iff in Hwt. lia. }
  assert (Hweight : spec_weight txns).
  { unfold spec_weight. apply andb_false_iff in Hwt. destruct Hwt; [left|right]; lia. }
  destruct (negb (Nat.eqb _ _)) eqn:Hd.
  { simpl. split; [exact Hcount|]. split; [exact Hweight|]. unfold spec_no_duplicates.
    rewrite <- nodup_length_eq_iff. rewrite map_length. apply negb_true_iff in Hd. apply Nat.eqb_neq in Hd. exact Hd. }
  assert (Hnd : spec_no_duplicates txns).
  { unfold spec_no_duplicates. rewrite <- nodup_length_eq_iff. rewrite map_length.
    apply negb_false_iff in Hd. apply Nat.eqb_eq in Hd. exact Hd. }
  assert (Hts : topo_sorted_from txns (nodup Z.eq_dec (map p_txid txns)) = true <-> spec_sorted txns).
  { apply topo_sorted_from_spec; [exact Hnd | intros x; apply nodup_In]. }
  destruct (topo_sorted_from txns _) eqn:Ht; simpl.
  2:{ repeat (split; [assumption|]). rewrite <- Hts. discriminate. }
  assert (Hsorted : spec_sorted txns) by (apply Hts; reflexivity).
  pose proof (is_consistent_spec txns) as Hcs.
  destruct (is_consistent txns) eqn:Hcon; simpl.
  - repeat (split; [assumption|]). apply Hcs. reflexivity.
  - repeat (split; [assumption|]). rewrite <- Hcs. discriminate.
Qed.

Lemma first_violation_is_unique txns r1 r2 :
  first_violation_is txns r1 -> first_violation_is txns r2 -> r1 = r2.
Proof.
  destruct r1 as [[]|], r2 as [[]|]; simpl; intros H1 H2; try reflexivity; exfalso; tauto.
Qed.

(* accepted iff every clause holds *)
Lemma is_well_formed_accepts_iff txns :
  Z.of_nat (length txns) <= UINT32_MAX -> weights_ok txns ->
  (is_well_formed txns = None <->
   spec_count txns /\ spec_weight txns /\ spec_no_duplicates txns /\ spec_sorted txns /\ spec_consistent txns).
Proof.
  intros Hl Hw. pose proof (is_well_formed_first_violation txns Hl Hw) as H. split.
  - intros E. rewrite E in H. exact H.
  - intros Hall. apply (first_violation_is_unique txns); [exact H | exact Hall].
Qed.

Lemma is_well_formed_reason_iff txns r :
  Z.of_nat (length txns) <= UINT32_MAX -> weights_ok txns ->
  (is_well_formed txns = r <-> first_violation_is txns r).
Proof.
  intros Hl Hw. pose proof (is_well_formed_first_violation txns Hl Hw) as H. split.
  - intros E. rewrite <- E. exact H.
  - intros Hr. apply (first_violation_is_unique txns); assumption.
Qed.

(* ---------- the independent executable first-violated-rule function is the declarative one ---------- *)
Lemma has_dup_iff l : has_dup l = false <-> NoDup l.
Proof.
  induction l as [|a l IH]; simpl.
  - split; [constructor | reflexivity].
  - rewrite orb_false_iff, IH, zmem_false. split.
    + intros [H1 H2]. constructor; assumption.
    + intros H. inversion H; subst. split; assumption.
Qed.

Fixpoint sorted_rec (txns : package) : Prop :=
  match txns with
  | [] => True
  | t :: r => (forall inp tj, In inp (p_inputs t) -> In tj (t :: r) -> fst inp <> p_txid tj) /\ sorted_rec r
  end.

Lemma sorted_rec_spec txns : sorted_rec txns <-> spec_sorted txns.
Proof.
  unfold spec_sorted. induction txns as [|t r IH]; simpl.
  - split; [intros _ i j ti tj inp H; destruct i; discriminate | auto].
  - rewrite IH. split.
    + intros [Hh Hr] i j ti tj inp Hi Hj Hij Hin. destruct i as [|i]; simpl in Hi.
      * inversion Hi; subst ti. apply (Hh inp tj Hin). change (In tj (t :: r)). eapply nth_error_In. exact Hj.
      * destruct j as [|j]; [lia|]. simpl in Hj. apply (Hr i j ti tj inp Hi Hj); [lia | exact Hin].
    + intros H. split.
      * intros inp tj Hin Htj. apply (In_nth_error (t :: r)) in Htj. destruct Htj as [j Hj].
        apply (H 0%nat j t tj inp eq_refl Hj); [lia | exact Hin].
      * intros i j ti tj inp Hi Hj Hij. apply (H (S i) (S j) ti tj inp Hi Hj). lia.
Qed.

Lemma unsorted_iff txns : unsorted txns = false <-> sorted_rec txns.
Proof.
  induction txns as [|t r IH]; simpl; [tauto|].
  rewrite orb_false_iff, IH. unfold spends_any. rewrite existsb_false_forall.
  split; intros [H1 H2]; split; try exact H2.
  - intros inp tj Hin Htj E. specialize (H1 inp Hin). apply zmem_false in H1. apply H1.
    rewrite E. apply (in_map p_txid (t :: r) tj Htj).
  - intros inp Hin. apply zmem_false. intros Hm. change (p_txid t :: map p_txid r) with (map p_txid (t :: r)) in Hm.
    apply in_map_iff in Hm. destruct Hm as [tj [E Htj]]. apply (H1 inp tj Hin Htj). symmetry. exact E.
Qed.

Lemma has_conflict_iff txns :
  has_empty_vin txns || has_conflict txns = false <-> consistent_rec txns.
Proof.
  induction txns as [|t r IH]; simpl; [tauto|].
  rewrite <- IH. rewrite !orb_false_iff. unfold shares_input.
  rewrite existsb_false_forall. split.
  - intros [[He Her] [Hs Hc]]. split; [destruct (p_inputs t); [discriminate | discriminate]|].
    split; [|split; assumption].
    intros o tj Ho Htj Hc'. specialize (Hs tj Htj). rewrite existsb_false_forall in Hs.
    specialize (Hs o Ho). rewrite <- not_true_iff_false in Hs. apply Hs. apply opmem_In. exact Hc'.
  - intros [Hne [Hd [Her Hc]]]. split; [split; [destruct (p_inputs t); [congruence | reflexivity] | exact Her]|].
    split; [|exact Hc].
    intros tj Htj. apply existsb_false_forall. intros o Ho. rewrite <- not_true_iff_false. rewrite opmem_In.
    apply (Hd o tj Ho Htj).
Qed.

Lemma first_violation_correct txns : first_violation_is txns (first_violation txns).
Proof.
  unfold first_violation.
  destruct (Z.of_nat (length txns) >? MAX_PACKAGE_COUNT) eqn:Hc.
  { simpl. unfold spec_count. lia. }
  assert (Hcount : spec_count txns) by (unfold spec_count; lia).
  destruct ((1 <? length txns)%nat && _) eqn:Hwt.
  { simpl. split; [exact Hcount|]. unfold spec_weight. apply andb_true_iff in Hwt. destruct Hwt as [H1 H2].
    apply Nat.ltb_lt in H1. lia. }
  assert (Hweight : spec_weight txns).
  { unfold spec_weight. apply andb_false_iff in Hwt. destruct Hwt as [H|H]; [left; apply Nat.ltb_ge in H; lia | right; lia]. }
  pose proof (has_dup_iff (map p_txid txns)) as Hdi.
  destruct (has_dup (map p_txid txns)) eqn:Hd.
  { simpl. repeat (split; [assumption|]). unfold spec_no_duplicates. rewrite <- Hdi. discriminate. }
  assert (Hnd : spec_no_duplicates txns) by (apply Hdi; reflexivity).
  pose proof (unsorted_iff txns) as Hui. rewrite sorted_rec_spec in Hui.
  destruct (unsorted txns) eqn:Hu.
  { simpl. repeat (split; [assumption|]). rewrite <- Hui. discriminate. }
  assert (Hsorted : spec_sorted txns) by (apply Hui; reflexivity).
  pose proof (has_conflict_iff txns) as Hci. rewrite consistent_rec_spec in Hci.
  destruct (has_empty_vin txns || has_conflict txns) eqn:Hcf; simpl.
  - repeat (split; [assumption|]). rewrite <- Hci. discriminate.
  - repeat (split; [assumption|]). apply Hci. reflexivity.
Qed.

(* the code's verdict/reason is the one of the independent first-violated-rule function *)
Lemma is_well_formed_eq_first_violation txns :
  Z.of_nat (length txns) <= UINT32_MAX -> weights_ok txns ->
  is_well_formed txns = first_violation txns.
Proof.
  intros Hl Hw. apply (first_violation_is_unique txns).
  - apply is_well_formed_first_violation; assumption.
  - apply first_violation_correct.
Qed.

(* ---------- IsChildWithParents / IsChildWithParentsTree ---------- *)
Lemma last_opt_app {A} (l : list A) x : last_opt (l ++ [x]) = Some x.
Proof. induction l as [|a l IH]; simpl; [reflexivity|]. destruct (l ++ [x]) eqn:E; [destruct l; discriminate | exact IH]. Qed.

Lemma list_snoc_cases {A} (l : list A) : l = [] \/ exists r x, l = r ++ [x].
Proof. destruct l as [|a l]; [left; reflexivity|]. right. exists (removelast (a :: l)), (last (a :: l) a). apply app_removelast_last. discriminate. Qed.

Lemma is_child_with_parents_iff pkg : is_child_with_parents pkg = true <-> spec_child_with_parents pkg.
Proof.
  unfold is_child_with_parents, spec_child_with_parents.
  destruct (list_snoc_cases pkg) as [E|[parents [child E]]]; subst pkg.
  - simpl. split; [discriminate|]. intros [ps [c [_ [E _]]]]. destruct ps; discriminate.
  - rewrite last_opt_app, removelast_last, app_length. simpl.
    destruct parents as [|p0 ps].
    + simpl. split; [discriminate|]. intros [ps [c [Hne [E _]]]].
      destruct ps as [|a ps]; [congruence|]. destruct ps; discriminate.
    + replace (length (p0 :: ps) + 1 <? 2)%nat with false by (symmetry; apply Nat.ltb_ge; simpl; lia).
      rewrite forallb_forall. split.
      * intros H. exists (p0 :: ps), child. split; [discriminate|]. split; [reflexivity|].
        intros p Hp. specialize (H p Hp). apply zmem_In in H. apply in_map_iff in H.
        destruct H as [inp [E Hin]]. exists inp. split; assumption.
      * intros [ps' [c [_ [E H]]]]. apply app_inj_tail in E. destruct E as [E1 E2]. subst ps' c.
        intros p Hp. destruct (H p Hp) as [inp [Hin E]]. apply zmem_In. rewrite <- E. apply in_map. exact Hin.
Qed.

Lemma is_child_with_parents_tree_iff pkg : is_child_with_parents_tree pkg = true <-> spec_child_with_parents_tree pkg.
Proof.
  unfold is_child_with_parents_tree, spec_child_with_parents_tree.
  pose proof (is_child_with_parents_iff pkg) as Hc. unfold spec_child_with_parents in Hc.
  destruct (is_child_with_parents pkg) eqn:Hcwp; simpl.
  - destruct (proj1 Hc eq_refl) as [parents [child [Hne [E Hp]]]]. subst pkg. rewrite removelast_last.
    rewrite forallb_forall. split.
    + intros H. exists parents, child. repeat (split; [assumption || reflexivity|]).
      intros p q inp Hpi Hq Hin Eq. specialize (H p Hpi). apply negb_true_iff in H.
      rewrite existsb_false_forall in H. specialize (H inp Hin). apply zmem_false in H. apply H.
      rewrite Eq. apply in_map. exact Hq.
    + intros [ps' [c [_ [E [_ Ht]]]]]. apply app_inj_tail in E. destruct E as [E1 E2]. subst ps' c.
      intros p Hpi. apply negb_true_iff. apply existsb_false_forall. intros inp Hin. apply zmem_false.
      intros Hm. apply in_map_iff in Hm. destruct Hm as [q [Eq Hq]]. apply (Ht p q inp Hpi Hq Hin). symmetry. exact Eq.
  - split; [discriminate|]. intros [parents [child [Hne [E [Hp _]]]]].
    assert (Hx : false = true) by (apply Hc; exists parents, child; auto). discriminate.
Qed.

Lemma spec_cwp_b_iff pkg : spec_cwp_b pkg = true <-> spec_child_with_parents pkg.
Proof.
  unfold spec_cwp_b, spec_child_with_parents.
  destruct (list_snoc_cases pkg) as [E|[parents [child E]]]; subst pkg.
  - simpl. split; [discriminate|]. intros [ps [c [_ [E _]]]]. destruct ps; discriminate.
  - rewrite rev_unit. destruct (rev parents) as [|r0 rs] eqn:Hrev.
    + assert (parents = []) by (rewrite <- (rev_involutive parents), Hrev; reflexivity). subst parents.
      split; [discriminate|]. intros [ps [c [Hne [E _]]]]. destruct ps as [|a ps]; [congruence|]. destruct ps; discriminate.
    + rewrite <- Hrev. rewrite forallb_forall. split.
      * intros H. exists parents, child. split; [intros E0; subst; discriminate|]. split; [reflexivity|].
        intros p Hp. apply in_rev in Hp. specialize (H p Hp). apply existsb_exists in H.
        destruct H as [inp [Hin E]]. apply Z.eqb_eq in E. exists inp. split; assumption.
      * intros [ps' [c [_ [E H]]]]. apply app_inj_tail in E. destruct E as [E1 E2]. subst ps' c.
        intros p Hp. apply in_rev in Hp. destruct (H p Hp) as [inp [Hin E]]. apply existsb_exists.
        exists inp. split; [exact Hin | apply Z.eqb_eq; exact E].
Qed.

Lemma spec_cwp_tree_b_iff pkg : spec_cwp_tree_b pkg = true <-> spec_child_with_parents_tree pkg.
Proof.
  unfold spec_cwp_tree_b, spec_child_with_parents_tree.
  destruct (list_snoc_cases pkg) as [E|[parents [child E]]]; subst pkg.
  - simpl. split; [discriminate|]. intros [ps [c [_ [E _]]]]. destruct ps; discriminate.
  - rewrite rev_unit. destruct (rev parents) as [|r0 rs] eqn:Hrev.
    + assert (parents = []) by (rewrite <- (rev_involutive parents), Hrev; reflexivity). subst parents.
      split; [discriminate|]. intros [ps [c [Hne [E _]]]]. destruct ps as [|a ps]; [congruence|]. destruct ps; discriminate.
    + rewrite <- Hrev. rewrite andb_true_iff, !forallb_forall. split.
      * intros [H Ht]. exists parents, child. split; [intros E0; subst; discriminate|]. split; [reflexivity|]. split.
        -- intros p Hp. apply in_rev in Hp. specialize (H p Hp). apply existsb_exists in H.
           destruct H as [inp [Hin E]]. apply Z.eqb_eq in E. exists inp. split; assumption.
        -- intros p q inp Hp Hq Hin E. apply in_rev in Hp. apply in_rev in Hq.
           specialize (Ht p Hp). rewrite forallb_forall in Ht. specialize (Ht q Hq).
           rewrite forallb_forall in Ht. specialize (Ht inp Hin). apply negb_true_iff in Ht. apply Z.eqb_neq in Ht. contradiction.
      * intros [ps' [c [_ [E [H Ht]]]]]. apply app_inj_tail in E. destruct E as [E1 E2]. subst ps' c. split.
        -- intros p Hp. apply in_rev in Hp. destruct (H p Hp) as [inp [Hin E]]. apply existsb_exists.
           exists inp. split; [exact Hin | apply Z.eqb_eq; exact E].
        -- intros p Hp. apply in_rev in Hp. apply forallb_forall. intros q Hq. apply in_rev in Hq.
           apply forallb_forall. intros inp Hin. apply negb_true_iff. apply Z.eqb_neq. apply (Ht p q inp Hp Hq Hin).
Qed.

Lemma is_child_with_parents_eq_spec pkg : is_child_with_parents pkg = spec_cwp_b pkg.
Proof.
  pose proof (is_child_with_parents_iff pkg) as H1. pose proof (spec_cwp_b_iff pkg) as H2.
  destruct (is_child_with_parents pkg), (spec_cwp_b pkg); try reflexivity.
  - symmetry. apply H2, H1. reflexivity.
  - apply H1, H2. reflexivity.
Qed.
Lemma is_child_with_parents_tree_eq_spec pkg : is_child_with_parents_tree pkg = spec_cwp_tree_b pkg.
Proof.
  pose proof (is_child_with_parents_tree_iff pkg) as H1. pose proof (spec_cwp_tree_b_iff pkg) as H2.
  destruct (is_child_with_parents_tree pkg), (spec_cwp_tree_b pkg); try reflexivity.
  - symmetry. apply H2, H1. reflexivity.
  - apply H1, H2. reflexivity.
Qed.

(* ---------- the int accumulator does wrap outside the per-transaction bound ---------- *)
Definition big_tx (k : Z) : ptx := {| p_txid := k; p_wtxid := k; p_inputs := [(1000 + k, 0)]; p_weight := 171798692;
                                    p_fee := 0; p_version := 2; p_nout := 1 |}.
Definition big_package : package := map big_tx [1;2;3;4;5;6;7;8;9;10;11;12;13;14;15;16;17;18;19;20;21;22;23;24;25].

(* 25 transactions of int32 weight 171,798,692 (43 MB each): the int accumulator wraps to 4, the
   package is declared well-formed although its weight exceeds MAX_PACKAGE_WEIGHT ten thousand times.
   Such transactions cannot arrive over P2P (p2p_weight_within_bound) nor over RPC. *)
Lemma weight_accumulator_wraps_refuted :
  exists txns, Z.of_nat (length txns) <= MAX_PACKAGE_COUNT /\
    (forall t, In t txns -> 0 <= p_weight t <= INT32_MAX) /\
    is_well_formed txns = None /\ ~ spec_weight txns.
Proof.
  exists big_package. split; [vm_compute; discriminate|]. split.
  - intros t Ht. unfold big_package in Ht. apply in_map_iff in Ht. destruct Ht as [k [E _]]. subst t. simpl.
    unfold INT32_MAX. lia.
  - split; [vm_compute; reflexivity|]. unfold spec_weight. intros [H|H].
    + vm_compute in H. lia.
    + vm_compute in H. apply H. reflexivity.
Qed.
