(* Proofs about the TRUC topology rules (C27). *)
From BV Require Import lib.Ints gen.Params_gen model.Package model.PackageAccept model.Truc
  proofs.PackageLemmas proofs.PackageAcceptLemmas.
Local Open Scope Z_scope.

(* ---------- the parent / child relation ---------- *)
Lemma In_parents_of P t p : In p (parents_of P t) <-> In p P /\ spends t (p_txid p) = true.
Proof. unfold parents_of. apply filter_In. Qed.
Lemma In_children_of P t c : In c (children_of P t) <-> In c P /\ spends c (p_txid t) = true.
Proof. unfold children_of. apply filter_In. Qed.

Lemma parents_of_app P Q t : parents_of (P ++ Q) t = parents_of P t ++ parents_of Q t.
Proof. unfold parents_of. apply filter_app. Qed.
Lemma children_of_app P Q t : children_of (P ++ Q) t = children_of P t ++ children_of Q t.
Proof. unfold children_of. apply filter_app. Qed.

Lemma filter_filter_comm {A} (f g : A -> bool) l : filter f (filter g l) = filter g (filter f l).
Proof.
  induction l as [|a l IH]; simpl; [reflexivity|].
  destruct (g a) eqn:Hg, (f a) eqn:Hf; simpl; rewrite ?Hg, ?Hf, IH; reflexivity.
Qed.
Lemma parents_of_remove R P t : parents_of (remove_set R P) t = remove_set R (parents_of P t).
Proof. unfold parents_of, remove_set. apply filter_filter_comm. Qed.
Lemma children_of_remove R P t : children_of (remove_set R P) t = remove_set R (children_of P t).
Proof. unfold children_of, remove_set. apply filter_filter_comm. Qed.

Lemma filter_length_le {A} (f : A -> bool) l : (length (filter f l) <= length l)%nat.
Proof. induction l as [|a l IH]; simpl; [lia|]. destruct (f a); simpl; lia. Qed.
Lemma filter_nil_of_nil {A} (f : A -> bool) l : l = [] -> filter f l = [].
Proof. intros ->. reflexivity. Qed.
Lemma filter_nonnil {A} (f : A -> bool) l : filter f l <> [] -> l <> [].
Proof. intros H E. apply H. subst. reflexivity. Qed.

(* ---------- the invariant only gets easier when transactions leave ---------- *)
Lemma TrucInvTx_remove R P t : TrucInvTx P t -> TrucInvTx (remove_set R P) t.
Proof.
  intros [H3 H2]. split.
  - intros Hv. destruct (H3 Hv) as [A [B [C [D [E [F G]]]]]].
    rewrite parents_of_remove, children_of_remove. unfold remove_set.
    split; [exact A|]. split; [pose proof (filter_length_le (fun t0 => negb (zmem (p_txid t0) R)) (parents_of P t)); lia|].
    split; [pose proof (filter_length_le (fun t0 => negb (zmem (p_txid t0) R)) (children_of P t)); lia|].
    split; [destruct D as [D|D]; [left|right]; rewrite D; reflexivity|].
    split; [intros p Hp; apply filter_In in Hp; apply E; tauto|].
    split; [intros c Hc; apply filter_In in Hc; apply F; tauto|].
    intros Hne. apply G. eapply filter_nonnil. exact Hne.
  - intros Hv p Hp. rewrite parents_of_remove in Hp. apply remove_set_In in Hp. apply (H2 Hv). tauto.
Qed.

Lemma TrucInv_remove R P : TrucInv P -> TrucInv (remove_set R P).
Proof. intros H t Ht. apply TrucInvTx_remove. apply H. apply remove_set_In in Ht. tauto. Qed.

(* ---------- closure: completeness for one step, soundness ---------- *)
Lemma in_set_true t S : in_set t S = true <-> exists e, In e S /\ p_txid e = p_txid t.
Proof.
  unfold in_set. rewrite existsb_exists. split; intros [e [H1 H2]]; exists e; split; auto; apply Z.eqb_eq; auto.
Qed.

Lemma add_new_incl_l : forall new S x, In x S -> In x (add_new S new).
Proof.
  unfold add_new. induction new as [|a new IH]; intros S x H; simpl; [exact H|].
  apply IH. destruct (in_set a S); [exact H | apply in_or_app; left; exact H].
Qed.
Lemma add_new_In : forall new S x, In x (add_new S new) -> In x S \/ In x new.
Proof.
  unfold add_new. induction new as [|a new IH]; intros S x H; simpl in *; [left; exact H|].
  destruct (IH _ _ H) as [H1|H1]; [|right; right; exact H1].
  destruct (in_set a S); [left; exact H1|]. apply in_app_or in H1. destruct H1 as [H1|[H1|[]]]; [left; exact H1 | right; left; exact H1].
Qed.
Lemma add_new_has : forall new S y, In y new -> in_set y (add_new S new) = true.
Proof.
  unfold add_new. induction new as [|a new IH]; intros S y Hy; [destruct Hy|]. destruct Hy as [E|H]; simpl.
  - subst a. destruct (in_set y S) eqn:Hs.
    + apply in_set_true in Hs. destruct Hs as [e [He Ee]]. apply in_set_true. exists e. split; [|exact Ee].
      apply (add_new_incl_l new S e He).
    + apply in_set_true. exists y. split; [|reflexivity]. apply (add_new_incl_l new (S ++ [y]) y). apply in_or_app. right. left. reflexivity.
  - apply IH. exact H.
Qed.
Lemma add_new_length : forall new S, (length S <= length (add_new S new))%nat.
Proof.
  unfold add_new. induction new as [|a new IH]; intros S; simpl; [lia|].
  destruct (in_set a S); [apply IH|]. specialize (IH (S ++ [a])). rewrite app_length in IH. simpl in IH. lia.
Qed.

Lemma closure_incl : forall next f S x, In x S -> In x (closure next f S).
Proof. induction f as [|f IH]; intros S x H; simpl; [exact H|]. apply IH. apply add_new_incl_l. exact H. Qed.
Lemma closure_length : forall next f S, (length S <= length (closure next f S))%nat.
Proof.
  induction f as [|f IH]; intros S; simpl; [lia|].
  specialize (IH (add_new S (flat_map next S))). pose proof (add_new_length (flat_map next S) S). lia.
Qed.

Lemma two_distinct_length {A} (l : list A) a b : In a l -> In b l -> a <> b -> (2 <= length l)%nat.
Proof.
  destruct l as [|x [|y r]]; simpl; intros Ha Hb Hne; try lia.
  destruct Ha as [Ha|[]], Hb as [Hb|[]]. congruence.
Qed.

(* a start set that gains an element with a new txid in the first round has at least 2 elements *)
Lemma closure_ge_2 next f t y : In y (next t) -> p_txid y <> p_txid t -> (2 <= length (closure next (S f) [t]))%nat.
Proof.
  intros Hy Hne. simpl. rewrite app_nil_r.
  pose proof (closure_length next f (add_new [t] (next t))) as Hl.
  assert (Hh : in_set y (add_new [t] (next t)) = true) by (apply add_new_has; exact Hy).
  apply in_set_true in Hh. destruct Hh as [e [He Ee]].
  assert (Ht : In t (add_new [t] (next t))) by (apply add_new_incl_l; left; reflexivity).
  assert (Hne2 : e <> t) by (intros E; subst e; congruence).
  pose proof (two_distinct_length _ e t He Ht Hne2). lia.
Qed.

Inductive reach (next : ptx -> list ptx) (s : ptx) : ptx -> Prop :=
| reach_refl : reach next s s
| reach_step y z : reach next s y -> In z (next y) -> reach next s z.

Lemma reach_prepend next s0 s x : In s (next s0) -> reach next s x -> reach next s0 x.
Proof.
  intros Hn Hr. induction Hr as [|y z Hy IH Hz].
  - eapply reach_step; [constructor | exact Hn].
  - eapply reach_step; eauto.
Qed.

Lemma closure_sound : forall next f S x, In x (closure next f S) -> exists s, In s S /\ reach next s x.
Proof.
  induction f as [|f IH]; intros S x H; simpl in H.
  - exists x. split; [exact H | constructor].
  - destruct (IH _ _ H) as [s [Hs Hr]]. apply add_new_In in Hs. destruct Hs as [Hs|Hs].
    + exists s. auto.
    + apply in_flat_map in Hs. destruct Hs as [s0 [Hs0 Hn]]. exists s0. split; [exact Hs0|].
      eapply reach_prepend; eauto.
Qed.

(* no transaction names its own txid in an input (a hash cannot contain itself) *)
Definition NoSelf (P : pool) : Prop := forall e, In e P -> spends e (p_txid e) = false.

Lemma anc_count_ge_2 P t : NoSelf P -> In t P -> parents_of P t <> [] -> 2 <= anc_count P t.
Proof.
  intros Hns Ht Hne. unfold anc_count, anc_set.
  destruct (parents_of P t) as [|p ps] eqn:Hp; [congruence|].
  assert (Hin : In p (parents_of P t)) by (rewrite Hp; left; reflexivity).
  assert (Hne' : p_txid p <> p_txid t).
  { intros E. apply In_parents_of in Hin. destruct Hin as [_ Hs]. rewrite E in Hs. rewrite (Hns t Ht) in Hs. discriminate. }
  destruct P as [|a P']; [destruct Ht|]. change (length (a :: P')) with (S (length P')).
  pose proof (closure_ge_2 (parents_of (a :: P')) (length P') t p Hin Hne'). lia.
Qed.

Lemma desc_count_ge_2 P t : NoSelf P -> In t P -> children_of P t <> [] -> 2 <= desc_count P t.
Proof.
  intros Hns Ht Hne. unfold desc_count, desc_set.
  destruct (children_of P t) as [|c cs] eqn:Hc; [congruence|].
  assert (Hin : In c (children_of P t)) by (rewrite Hc; left; reflexivity).
  assert (Hne' : p_txid c <> p_txid t).
  { intros E. apply In_children_of in Hin. destruct Hin as [HcP Hs]. rewrite <- E in Hs. rewrite (Hns c HcP) in Hs. discriminate. }
  destruct P as [|a P']; [destruct Ht|]. change (length (a :: P')) with (S (length P')).
  pose proof (closure_ge_2 (children_of (a :: P')) (length P') t c Hin Hne'). lia.
Qed.

(* under the invariant the descendants of a version-3 transaction are itself and its (single) child *)
Lemma truc_desc_shape P t d : TrucInv P -> In t P -> is_truc t = true ->
  In d (desc_set P t) -> d = t \/ In d (children_of P t).
Proof.
  intros Hinv Ht Hv Hd. unfold desc_set in Hd. apply closure_sound in Hd. destruct Hd as [s [[Es|[]] Hr]]. subst s.
  assert (G : forall x, reach (children_of P) t x -> x = t \/ In x (children_of P t)).
  { intros x Hx. induction Hx as [|y z Hxy IH Hz]; [left; reflexivity|].
    destruct IH as [E|Hy]; [subst y; right; exact Hz|]. exfalso.
    (* y is a child of t: version 3, has the parent t, hence no children *)
    destruct (Hinv t Ht) as [H3 _]. destruct (H3 Hv) as [_ [_ [_ [_ [_ [Fc _]]]]]].
    pose proof (Fc y Hy) as Hyv. apply In_children_of in Hy. destruct Hy as [HyP Hys].
    destruct (Hinv y HyP) as [H3y _]. destruct (H3y Hyv) as [_ [_ [_ [Dy _]]]].
    destruct Dy as [Dy|Dy].
    - assert (In t (parents_of P y)) by (apply In_parents_of; auto). rewrite Dy in H. destruct H.
    - rewrite Dy in Hz. destruct Hz. }
  apply G. exact Hr.
Qed.

(* ---------- what the single-transaction check accepts ---------- *)
Lemma single_truc_checks_none P tx mp conf vs :
  single_truc_checks P tx mp conf vs = None ->
  (forall p, In p mp -> is_truc p = is_truc tx) /\
  (is_truc tx = true ->
     vs <= TRUC_MAX_VSIZE /\ (length mp <= 1)%nat /\
     forall p, In p mp ->
       anc_count P p + 1 <= TRUC_ANCESTOR_LIMIT /\ vs <= TRUC_CHILD_MAX_VSIZE /\
       (desc_count P p + 1 <= TRUC_DESCENDANT_LIMIT \/
        exists d, In d (desc_set P p) /\ p_txid d <> p_txid p /\ In (p_txid d) conf)).
Proof.
  unfold single_truc_checks.
  destruct (negb (is_truc tx) && existsb is_truc mp) eqn:H1; [discriminate|].
  destruct (is_truc tx && existsb (fun e => negb (is_truc e)) mp) eqn:H2; [discriminate|].
  assert (Hinh : forall p, In p mp -> is_truc p = is_truc tx).
  { intros p Hp. destruct (is_truc tx) eqn:Hv; simpl in *.
    - rewrite existsb_false_forall in H2. specialize (H2 p Hp). apply negb_false_iff in H2. exact H2.
    - rewrite existsb_false_forall in H1. apply H1. exact Hp. }
  destruct (negb (is_truc tx)) eqn:Hn.
  { intros _. split; [exact Hinh|]. intros Hv. rewrite Hv in Hn. discriminate. }
  destruct (vs >? TRUC_MAX_VSIZE) eqn:Hs; [discriminate|].
  destruct (Z.of_nat (length mp) + 1 >? TRUC_ANCESTOR_LIMIT) eqn:Hl; [discriminate|].
  assert (Hlen : (length mp <= 1)%nat).
  { unfold TRUC_ANCESTOR_LIMIT, MPP_TRUC_ANCESTOR_LIMIT in Hl. lia. }
  destruct mp as [|parent rest].
  { intros _. split; [exact Hinh|]. intros _. split; [lia|]. split; [simpl; lia|]. intros p []. }
  destruct (anc_count P parent + 1 >? TRUC_ANCESTOR_LIMIT) eqn:Ha; [discriminate|].
  destruct (vs >? TRUC_CHILD_MAX_VSIZE) eqn:Hc; [discriminate|].
  destruct ((desc_count P parent + 1 >? TRUC_DESCENDANT_LIMIT) && _) eqn:Hd; [discriminate|].
  intros _. split; [exact Hinh|]. intros _. split; [lia|]. split; [exact Hlen|].
  intros p Hp. destruct rest; [|simpl in Hlen; lia]. destruct Hp as [E|[]]. subst p.
  split; [lia|]. split; [lia|].
  apply andb_false_iff in Hd. destruct Hd as [Hd|Hd]; [left; lia|]. right.
  apply negb_false_iff in Hd. apply existsb_exists in Hd. destruct Hd as [d [Hd1 Hd2]].
  apply filter_In in Hd1. destruct Hd1 as [Hd1 Hd3]. apply negb_true_iff in Hd3. apply Z.eqb_neq in Hd3.
  apply zmem_In in Hd2. exists d. auto.
Qed.

(* the sibling offered for eviction is a descendant of the (only) mempool parent *)
Lemma single_truc_checks_sibling P tx mp conf vs e s :
  single_truc_checks P tx mp conf vs = Some (e, Some s) ->
  (forall p, In p mp -> is_truc p = is_truc tx) /\ is_truc tx = true /\
  vs <= TRUC_MAX_VSIZE /\ vs <= TRUC_CHILD_MAX_VSIZE /\
  exists parent, mp = [parent] /\ anc_count P parent + 1 <= TRUC_ANCESTOR_LIMIT /\
    In s (desc_set P parent) /\ p_txid s <> p_txid parent.
Proof.
  unfold single_truc_checks.
  destruct (negb (is_truc tx) && existsb is_truc mp) eqn:H1; [discriminate|].
  destruct (is_truc tx && existsb (fun e => negb (is_truc e)) mp) eqn:H2; [discriminate|].
  assert (Hinh : forall p, In p mp -> is_truc p = is_truc tx).
  { intros p Hp. destruct (is_truc tx) eqn:Hv; simpl in *.
    - rewrite existsb_false_forall in H2. specialize (H2 p Hp). apply negb_false_iff in H2. exact H2.
    - rewrite existsb_false_forall in H1. apply H1. exact Hp. }
  destruct (negb (is_truc tx)) eqn:Hn; [discriminate|]. apply negb_false_iff in Hn.
  destruct (vs >? TRUC_MAX_VSIZE) eqn:Hs; [discriminate|].
  destruct (Z.of_nat (length mp) + 1 >? TRUC_ANCESTOR_LIMIT) eqn:Hl; [discriminate|].
  destruct mp as [|parent rest]; [discriminate|].
  destruct (anc_count P parent + 1 >? TRUC_ANCESTOR_LIMIT) eqn:Ha; [discriminate|].
  destruct (vs >? TRUC_CHILD_MAX_VSIZE) eqn:Hc; [discriminate|].
  destruct ((desc_count P parent + 1 >? TRUC_DESCENDANT_LIMIT) && _) eqn:Hd; [|discriminate].
  destruct (filter _ (desc_set P parent)) as [|d ds] eqn:Hf; [discriminate|].
  destruct ((desc_count P parent =? 2) && (anc_count P d =? 2)); [|discriminate].
  intros E. inversion E; subst e s. split; [exact Hinh|]. split; [exact Hn|]. split; [lia|]. split; [lia|].
  exists parent. split.
  - destruct rest; [reflexivity|]. simpl in Hl. unfold TRUC_ANCESTOR_LIMIT, MPP_TRUC_ANCESTOR_LIMIT in Hl. lia.
  - split; [lia|]. assert (Hin : In d (filter (fun d0 => negb (p_txid d0 =? p_txid parent)) (desc_set P parent))) by (rewrite Hf; left; reflexivity).
    apply filter_In in Hin. destruct Hin as [Hin1 Hin2]. apply negb_true_iff in Hin2. apply Z.eqb_neq in Hin2. auto.
Qed.

(* ---------- single submissions preserve the invariant ---------- *)
Lemma desc_txids_In P roots x :
  In x (desc_txids P roots) <-> exists e d, In e P /\ In (p_txid e) roots /\ In d (desc_set P e) /\ p_txid d = x.
Proof.
  unfold desc_txids. rewrite in_flat_map. split.
  - intros [e [He Hx]]. apply filter_In in He. destruct He as [He Hr]. apply zmem_In in Hr.
    apply in_map_iff in Hx. destruct Hx as [d [Ed Hd]]. exists e, d. auto.
  - intros [e [d [He [Hr [Hd Ed]]]]]. exists e. split; [apply filter_In; split; [exact He | apply zmem_In; exact Hr]|].
    apply in_map_iff. exists d. auto.
Qed.

Lemma root_in_desc_txids P roots e : In e P -> In (p_txid e) roots -> In (p_txid e) (desc_txids P roots).
Proof.
  intros He Hr. apply desc_txids_In. exists e, e. repeat split; auto. unfold desc_set. apply closure_incl. left. reflexivity.
Qed.

Lemma truc_try_add_preserves P tx :
  TrucInv P -> NoSelf P -> TrucInv (snd (truc_try_add P tx)) /\ NoSelf (snd (truc_try_add P tx)).
Proof.
  intros Hinv Hns. unfold truc_try_add.
  destruct (has_txid P (p_txid tx) || existsb (fun e => spends e (p_txid tx)) P || spends tx (p_txid tx)) eqn:Hg; [simpl; auto|].
  apply orb_false_iff in Hg. destruct Hg as [Hg Hself]. apply orb_false_iff in Hg. destruct Hg as [Hfresh Hnosp].
  rewrite existsb_false_forall in Hnosp.
  set (mp := parents_of P tx). set (conf := direct_conflicts P tx).
  destruct (single_truc_checks P tx mp conf (vsize_of tx)) as [[e [s|]]|] eqn:Hchk; [| simpl; auto |].
  - (* sibling eviction *)
    set (R := desc_txids P (p_txid s :: conf)).
    destruct (existsb (fun p => zmem (p_txid p) R) mp) eqn:Hsc; [simpl; auto|]. simpl.
    destruct (single_truc_checks_sibling P tx mp conf (vsize_of tx) e s Hchk) as [Hinh [Hv [Hsz [Hcsz [parent [Emp [Hanc [Hsd Hsne]]]]]]]].
    assert (HparP : In parent P /\ spends tx (p_txid parent) = true).
    { apply In_parents_of. fold mp. rewrite Emp. left. reflexivity. }
    destruct HparP as [HparP Hsp].
    assert (Hpv : is_truc parent = true) by (rewrite (Hinh parent); [exact Hv | rewrite Emp; left; reflexivity]).
    (* the sibling is the parent's only child and is evicted *)
    destruct (truc_desc_shape P parent s Hinv HparP Hpv Hsd) as [E|Hsc']; [subst s; congruence|].
    assert (HsP : In s P) by (apply In_children_of in Hsc'; tauto).
    assert (HsR : In (p_txid s) R) by (apply root_in_desc_txids; [exact HsP | left; reflexivity]).
    split.
    + apply (fun H => H) . intros t Ht. apply in_app_or in Ht. destruct Ht as [Ht|[Ht|[]]].
      * (* an old transaction *)
        assert (HtP : In t P) by (apply remove_set_In in Ht; tauto).
        pose proof (TrucInvTx_remove R P t (Hinv t HtP)) as [O3 O2].
        assert (Epar : parents_of (remove_set R P ++ [tx]) t = parents_of (remove_set R P) t).
        { rewrite parents_of_app. simpl. rewrite (Hnosp t HtP). rewrite app_nil_r. reflexivity. }
        destruct (spends tx (p_txid t)) eqn:Hst.
        -- (* t is the mempool parent of tx *)
           assert (Htmp : In t mp) by (apply In_parents_of; auto). rewrite Emp in Htmp. destruct Htmp as [Et|[]]. subst t.
           assert (Hnopar : parents_of P parent = []).
           { destruct (parents_of P parent) eqn:Hpp; [reflexivity|]. exfalso.
             assert (2 <= anc_count P parent) by (apply anc_count_ge_2; auto; rewrite Hpp; discriminate).
             unfold TRUC_ANCESTOR_LIMIT, MPP_TRUC_ANCESTOR_LIMIT in Hanc. lia. }
           assert (Hnoch : children_of (remove_set R P) parent = []).
           { rewrite children_of_remove. destruct (Hinv parent HparP) as [H3 _]. destruct (H3 Hpv) as [_ [_ [Hc1 _]]].
             destruct (children_of P parent) as [|c [|c2 cs]] eqn:Hch; [reflexivity | | simpl in Hc1; lia].
             destruct Hsc' as [Ec|[]]. subst c. unfold remove_set. simpl.
             replace (zmem (p_txid s) R) with true by (symmetry; apply zmem_In; exact HsR). reflexivity. }
           split.
           ++ intros _. destruct (O3 Hpv) as [A [B [C [D [E' [F G]]]]]]. rewrite Epar. rewrite children_of_app, Hnoch. simpl. rewrite Hst. simpl.
              rewrite parents_of_remove, Hnopar. simpl.
              split; [exact A|]. split; [lia|]. split; [lia|]. split; [left; reflexivity|].
              split; [intros p []|]. split; [intros c [Ec|[]]; subst c; exact Hv|]. intros Hx. congruence.
           ++ intros Hx. congruence.
        -- (* unrelated to tx *)
           assert (Ech : children_of (remove_set R P ++ [tx]) t = children_of (remove_set R P) t).
           { rewrite children_of_app. simpl. rewrite Hst. rewrite app_nil_r. reflexivity. }
           unfold TrucInvTx. rewrite Epar, Ech. split; assumption.
      * (* the new transaction *)
        subst t.
        assert (Epar : parents_of (remove_set R P ++ [tx]) tx = parents_of (remove_set R P) tx).
        { rewrite parents_of_app. simpl. rewrite Hself. rewrite app_nil_r. reflexivity. }
        assert (Ech : children_of (remove_set R P ++ [tx]) tx = []).
        { rewrite children_of_app. simpl. rewrite Hself. rewrite app_nil_r. rewrite children_of_remove.
          assert (Hc0 : children_of P tx = []).
          { unfold children_of. destruct (filter _ P) as [|c cs] eqn:Hf; [reflexivity|]. exfalso.
            assert (Hc : In c (filter (fun e0 => spends e0 (p_txid tx)) P)) by (rewrite Hf; left; reflexivity).
            apply filter_In in Hc. destruct Hc as [HcP Hcs]. rewrite (Hnosp c HcP) in Hcs. discriminate. }
          rewrite Hc0. reflexivity. }
        split.
        -- intros _. rewrite Epar, Ech, parents_of_remove. fold mp. rewrite Emp.
           split; [exact Hsz|]. split; [pose proof (filter_length_le (fun t0 => negb (zmem (p_txid t0) R)) [parent]); unfold remove_set; simpl in *; lia|].
           split; [simpl; lia|]. split; [right; reflexivity|].
           split; [intros p Hp; apply remove_set_In in Hp; destruct Hp as [[Ep|[]] _]; subst p; exact Hpv|].
           split; [intros c []|]. intros _. exact Hcsz.
        -- intros Hx. congruence.
    + intros e0 He0. apply in_app_or in He0. destruct He0 as [He0|[He0|[]]].
      * apply Hns. apply remove_set_In in He0. tauto.
      * subst e0. exact Hself.
  - (* accepted outright: conflicts (if any) are replaced *)
    set (R := desc_txids P conf).
    destruct (existsb (fun p => zmem (p_txid p) R) mp) eqn:Hsc; [simpl; auto|]. simpl.
    destruct (single_truc_checks_none P tx mp conf (vsize_of tx) Hchk) as [Hinh Hv3].
    split.
    + intros t Ht. apply in_app_or in Ht. destruct Ht as [Ht|[Ht|[]]].
      * assert (HtP : In t P) by (apply remove_set_In in Ht; tauto).
        pose proof (TrucInvTx_remove R P t (Hinv t HtP)) as [O3 O2].
        assert (Epar : parents_of (remove_set R P ++ [tx]) t = parents_of (remove_set R P) t).
        { rewrite parents_of_app. simpl. rewrite (Hnosp t HtP). rewrite app_nil_r. reflexivity. }
        destruct (spends tx (p_txid t)) eqn:Hst.
        -- assert (Htmp : In t mp) by (apply In_parents_of; auto).
           destruct (is_truc t) eqn:Htv.
           ++ (* version-3 parent: tx is version 3, t is its only parent, has no parent and (after replacement) no child *)
              assert (Hv : is_truc tx = true) by (rewrite <- (Hinh t Htmp); exact Htv).
              destruct (Hv3 Hv) as [Hsz [Hlen Hpp]]. destruct (Hpp t Htmp) as [Hanc [Hcsz Hdesc]].
              assert (Hnopar : parents_of P t = []).
              { destruct (parents_of P t) eqn:Hq; [reflexivity|]. exfalso.
                assert (2 <= anc_count P t) by (apply anc_count_ge_2; auto; rewrite Hq; discriminate).
                unfold TRUC_ANCESTOR_LIMIT, MPP_TRUC_ANCESTOR_LIMIT in Hanc. lia. }
              assert (Hnoch : children_of (remove_set R P) t = []).
              { rewrite children_of_remove. destruct Hdesc as [Hd|[d [Hd1 [Hd2 Hd3]]]].
                - destruct (children_of P t) eqn:Hch; [reflexivity|]. exfalso.
                  assert (2 <= desc_count P t) by (apply desc_count_ge_2; auto; rewrite Hch; discriminate).
                  unfold TRUC_DESCENDANT_LIMIT, MPP_TRUC_DESCENDANT_LIMIT in Hd. lia.
                - destruct (truc_desc_shape P t d Hinv HtP Htv Hd1) as [E|Hdc]; [subst d; congruence|].
                  destruct (Hinv t HtP) as [H3 _]. destruct (H3 Htv) as [_ [_ [Hc1 _]]].
                  destruct (children_of P t) as [|c [|c2 cs]] eqn:Hch; [reflexivity | | simpl in Hc1; lia].
                  destruct Hdc as [Ec|[]]. subst c.
                  assert (HdP : In d P).
                  { assert (Hx : In d (children_of P t)) by (rewrite Hch; left; reflexivity). apply In_children_of in Hx. tauto. }
                  assert (HdR : In (p_txid d) R) by (apply root_in_desc_txids; assumption).
                  unfold remove_set. simpl. replace (zmem (p_txid d) R) with true by (symmetry; apply zmem_In; exact HdR). reflexivity. }
              split; [|intros Hx; congruence].
              intros _. destruct (O3 eq_refl) as [A [B [C [D [E' [F G]]]]]]. rewrite Epar. rewrite children_of_app, Hnoch. simpl. rewrite Hst. simpl.
              rewrite parents_of_remove, Hnopar. simpl.
              split; [exact A|]. split; [lia|]. split; [lia|]. split; [left; reflexivity|].
              split; [intros p []|]. split; [intros c [Ec|[]]; subst c; exact Hv|]. intros Hx. congruence.
           ++ (* a non-version-3 parent is not constrained by its children *)
              split; [intros Hx; congruence|]. intros _. rewrite Epar. apply O2. reflexivity.
        -- assert (Ech : children_of (remove_set R P ++ [tx]) t = children_of (remove_set R P) t).
           { rewrite children_of_app. simpl. rewrite Hst. rewrite app_nil_r. reflexivity. }
           unfold TrucInvTx. rewrite Epar, Ech. split; assumption.
      * subst t.
        assert (Epar : parents_of (remove_set R P ++ [tx]) tx = remove_set R mp).
        { rewrite parents_of_app. simpl. rewrite Hself. rewrite app_nil_r. apply parents_of_remove. }
        assert (Ech : children_of (remove_set R P ++ [tx]) tx = []).
        { rewrite children_of_app. simpl. rewrite Hself. rewrite app_nil_r. rewrite children_of_remove.
          assert (Hc0 : children_of P tx = []).
          { unfold children_of. destruct (filter _ P) as [|c cs] eqn:Hf; [reflexivity|]. exfalso.
            assert (Hc : In c (filter (fun e0 => spends e0 (p_txid tx)) P)) by (rewrite Hf; left; reflexivity).
            apply filter_In in Hc. destruct Hc as [HcP Hcs]. rewrite (Hnosp c HcP) in Hcs. discriminate. }
          rewrite Hc0. reflexivity. }
        split.
        -- intros Hv. destruct (Hv3 Hv) as [Hsz [Hlen Hpp]]. rewrite Epar, Ech.
           split; [exact Hsz|]. split; [pose proof (filter_length_le (fun t0 => negb (zmem (p_txid t0) R)) mp); unfold remove_set; lia|].
           split; [simpl; lia|]. split; [right; reflexivity|].
           split; [intros p Hp; apply remove_set_In in Hp; rewrite (Hinh p); tauto|].
           split; [intros c []|].
           intros Hne. destruct (remove_set R mp) as [|p ps] eqn:Hrm; [congruence|].
           assert (Hp : In p mp) by (assert (Hx : In p (remove_set R mp)) by (rewrite Hrm; left; reflexivity); apply remove_set_In in Hx; tauto).
           destruct (Hpp p Hp) as [_ [Hc _]]. exact Hc.
        -- intros Hv p Hp. rewrite Epar in Hp. apply remove_set_In in Hp. rewrite (Hinh p); tauto.
    + intros e0 He0. apply in_app_or in He0. destruct He0 as [He0|[He0|[]]].
      * apply Hns. apply remove_set_In in He0. tauto.
      * subst e0. exact Hself.
Qed.

(* ---------- what the package check accepts ---------- *)
Lemma scan_inputs_none a b ins : scan_inputs a b ins = None -> forall inp, In inp ins -> fst inp <> a /\ fst inp <> b.
Proof.
  induction ins as [|i0 r IH]; simpl; intros H inp Hin; [destruct Hin|].
  destruct (Z.eqb_spec (fst i0) a); [discriminate|]. destruct (Z.eqb_spec (fst i0) b); [discriminate|].
  destruct Hin as [E|Hin]; [subst; auto | apply IH; assumption].
Qed.

Lemma scan_package_none a b i : forall l k, scan_package a b i k l = None ->
  forall j t inp, nth_error l j = Some t -> (k + j)%nat <> i -> In inp (p_inputs t) -> fst inp <> a /\ fst inp <> b.
Proof.
  induction l as [|t0 r IH]; intros k H j t inp Hn Hne Hin; [destruct j; discriminate|].
  simpl in H. destruct (k =? i)%nat eqn:Hk.
  - destruct j as [|j]; simpl in Hn.
    + apply Nat.eqb_eq in Hk. lia.
    + apply (IH (S k) H j t inp Hn); [lia | exact Hin].
  - destruct (scan_inputs a b (p_inputs t0)) eqn:Hs; [discriminate|].
    destruct j as [|j]; simpl in Hn.
    + inversion Hn; subst t0. apply (scan_inputs_none a b _ Hs). exact Hin.
    + apply (IH (S k) H j t inp Hn); [lia | exact Hin].
Qed.

Lemma spends_false t x : spends t x = false <-> forall inp, In inp (p_inputs t) -> fst inp <> x.
Proof.
  unfold spends. rewrite existsb_false_forall. split; intros H inp Hin; specialize (H inp Hin); [apply Z.eqb_neq | apply Z.eqb_neq]; exact H.
Qed.

(* for a version-3 member *)
Lemma package_truc_checks_none_v3 P pkg i tx vs mp :
  is_truc tx = true -> package_truc_checks P pkg i tx vs mp = None ->
  vs <= TRUC_MAX_VSIZE /\ (length mp + length (in_package_parents pkg i tx) <= 1)%nat /\
  (forall p, In p mp -> anc_count P p + 1 <= TRUC_ANCESTOR_LIMIT /\ desc_count P p <= 1 /\ is_truc p = true) /\
  (forall q, In q (in_package_parents pkg i tx) -> is_truc q = true) /\
  (mp ++ in_package_parents pkg i tx <> [] -> vs <= TRUC_CHILD_MAX_VSIZE /\
     forall j t, nth_error pkg j = Some t -> j <> i ->
       spends t (p_txid tx) = false /\ forall p, In p (mp ++ in_package_parents pkg i tx) -> spends t (p_txid p) = false).
Proof.
  intros Hv. unfold package_truc_checks. rewrite Hv. set (ipp := in_package_parents pkg i tx). intros H.
  destruct (vs >? TRUC_MAX_VSIZE) eqn:Hs; [discriminate|].
  destruct (Z.of_nat (length mp) + Z.of_nat (length ipp) + 1 >? TRUC_ANCESTOR_LIMIT) eqn:Hl; [discriminate|].
  assert (Hlen : (length mp + length ipp <= 1)%nat) by (unfold TRUC_ANCESTOR_LIMIT, MPP_TRUC_ANCESTOR_LIMIT in Hl; lia).
  destruct (match mp with p :: _ => anc_count P p + Z.of_nat (length ipp) + 1 >? TRUC_ANCESTOR_LIMIT | [] => false end) eqn:Ha; [discriminate|].
  destruct (0 <? Z.of_nat (length mp) + Z.of_nat (length ipp)) eqn:Hpos.
  - destruct (vs >? TRUC_CHILD_MAX_VSIZE) eqn:Hc; [discriminate|].
    destruct mp as [|p mrest].
    + destruct ipp as [|q irest] eqn:Hipp; [simpl in Hpos; lia|].
      destruct (negb (p_version q =? TRUC_VERSION)) eqn:Hqv; [discriminate|].
      destruct (scan_package (p_txid q) (p_txid tx) i 0 pkg) eqn:Hsc; [discriminate|].
      assert (irest = []) by (destruct irest; [reflexivity | simpl in Hlen; lia]). subst irest.
      split; [lia|]. split; [exact Hlen|]. split; [intros p0 []|].
      split; [intros q0 [E|[]]; subst q0; unfold is_truc; apply negb_false_iff in Hqv; exact Hqv|].
      intros _. split; [lia|]. intros j t Hn Hne.
      split.
      * apply spends_false. intros inp Hin. apply (scan_package_none _ _ _ _ _ Hsc j t inp Hn); [lia | exact Hin].
      * intros p0 [E|[]]. subst p0. apply spends_false. intros inp Hin. apply (scan_package_none _ _ _ _ _ Hsc j t inp Hn); [lia | exact Hin].
    + assert (mrest = [] /\ ipp = []).
      { destruct mrest; [|simpl in Hlen; lia]. destruct ipp; [auto | simpl in Hlen; lia]. }
      destruct H0 as [E1 E2]. subst mrest. rewrite E2 in *. simpl in Ha.
      destruct (negb (p_version p =? TRUC_VERSION)) eqn:Hpv; [discriminate|].
      destruct (scan_package (p_txid p) (p_txid tx) i 0 pkg) eqn:Hsc; [discriminate|].
      destruct (desc_count P p >? 1) eqn:Hd; [discriminate|].
      split; [lia|]. split; [exact Hlen|].
      split; [intros p0 [E|[]]; subst p0; split; [lia | split; [lia | unfold is_truc; apply negb_false_iff in Hpv; exact Hpv]]|].
      split; [intros q []|].
      intros _. split; [lia|]. intros j t Hn Hne. split.
      * apply spends_false. intros inp Hin. apply (scan_package_none _ _ _ _ _ Hsc j t inp Hn); [lia | exact Hin].
      * intros p0 Hp0. simpl in Hp0. destruct Hp0 as [E|[]]. subst p0. apply spends_false. intros inp Hin.
        apply (scan_package_none _ _ _ _ _ Hsc j t inp Hn); [lia | exact Hin].
  - assert (mp = [] /\ ipp = []).
    { destruct mp; [|cbn [length] in Hpos; lia]. destruct ipp; [auto | cbn [length] in Hpos; lia]. }
    destruct H0 as [E1 E2]. subst mp. rewrite E2.
    split; [lia|]. split; [simpl; lia|]. split; [intros p []|]. split; [intros q []|]. intros Hx. exfalso. apply Hx. reflexivity.
Qed.

Lemma package_truc_checks_none_nonv3 P pkg i tx vs mp :
  is_truc tx = false -> package_truc_checks P pkg i tx vs mp = None ->
  (forall p, In p mp -> is_truc p = false) /\ (forall q, In q (in_package_parents pkg i tx) -> is_truc q = false).
Proof.
  intros Hv. unfold package_truc_checks. rewrite Hv.
  destruct (existsb is_truc mp) eqn:H1; [discriminate|].
  destruct (existsb is_truc (in_package_parents pkg i tx)) eqn:H2; [discriminate|]. intros _.
  rewrite existsb_false_forall in H1, H2. auto.
Qed.

(* ---------- package submissions preserve the invariant ---------- *)
Lemma filter_all_false {A} (f : A -> bool) (l : list A) : (forall x, In x l -> f x = false) -> filter f l = [].
Proof.
  induction l as [|a l IH]; intros H; simpl; [reflexivity|].
  rewrite (H a) by (left; reflexivity). apply IH. intros x Hx. apply H. right. exact Hx.
Qed.

Lemma filter_at_most_one {A} (f : A -> bool) : forall (l : list A) i,
  (forall j x, nth_error l j = Some x -> j <> i -> f x = false) -> (length (filter f l) <= 1)%nat.
Proof.
  induction l as [|a l IH]; intros i H; simpl; [lia|].
  destruct i as [|i].
  - assert (Hall : filter f l = []).
    { apply filter_all_false. intros x Hx. apply In_nth_error in Hx. destruct Hx as [j Hj].
      apply (H (S j) x); [exact Hj | lia]. }
    rewrite Hall. destruct (f a); simpl; lia.
  - rewrite (H 0%nat a eq_refl) by lia. apply (IH i). intros j x Hn Hne. apply (H (S j) x); [exact Hn | lia].
Qed.

Lemma is_well_formed_None_sorted txns : is_well_formed txns = None -> spec_sorted txns.
Proof.
  intros H. pose proof (is_well_formed_None_nodup txns H) as Hnd. unfold is_well_formed in H.
  destruct (_ >? MAX_PACKAGE_COUNT); [discriminate|].
  destruct (_ && _); [discriminate|].
  destruct (negb (Nat.eqb _ _)); [discriminate|].
  destruct (topo_sorted_from txns (nodup Z.eq_dec (map p_txid txns))) eqn:Ht; [|discriminate].
  apply (topo_sorted_from_spec txns (nodup Z.eq_dec (map p_txid txns))); [exact Hnd | intros x; apply nodup_In | exact Ht].
Qed.

Lemma pkg_checks_ok P pkg : forall rest k,
  forallb (fun r => match r with (None, None) => true | _ => false end) (pkg_checks P pkg k rest) = true ->
  forall j tx, nth_error rest j = Some tx ->
    single_truc_checks P tx (parents_of P tx) [] (vsize_of tx) = None /\
    package_truc_checks P pkg (k + j) tx (vsize_of tx) (parents_of P tx) = None.
Proof.
  induction rest as [|t r IH]; intros k H j tx Hn; [destruct j; discriminate|].
  simpl in H. apply andb_true_iff in H. destruct H as [Hh Hr].
  destruct j as [|j]; simpl in Hn.
  - inversion Hn; subst t. rewrite Nat.add_0_r.
    destruct (single_truc_checks P tx (parents_of P tx) [] (vsize_of tx)) as [[e o]|]; [discriminate|].
    destruct (package_truc_checks P pkg k tx (vsize_of tx) (parents_of P tx)); [discriminate|]. auto.
  - replace (k + S j)%nat with (S k + j)%nat by lia. apply (IH (S k) Hr j tx Hn).
Qed.

Lemma nth_error_skipn' {A} : forall i (l : list A) j, nth_error (skipn i l) j = nth_error l (i + j).
Proof.
  induction i as [|i IH]; intros l j; simpl; [reflexivity|]. destruct l as [|a l]; [destruct j; reflexivity | apply IH].
Qed.

(* in a sorted package the in-package parents of the member at position i are all placed before it *)
Lemma sorted_parents_before pkg i tx : spec_sorted pkg -> nth_error pkg i = Some tx ->
  parents_of pkg tx = in_package_parents pkg i tx.
Proof.
  intros Hs Hn. unfold parents_of, in_package_parents.
  rewrite <- (firstn_skipn i pkg) at 1. rewrite filter_app.
  rewrite (filter_all_false _ (skipn i pkg)); [apply app_nil_r|].
  intros x Hx. apply spends_false. intros inp Hin E.
  apply In_nth_error in Hx. destruct Hx as [j Hj]. rewrite nth_error_skipn' in Hj.
  apply (Hs i (i + j)%nat tx x inp Hn Hj); [lia | exact Hin | exact E].
Qed.

Lemma truc_try_package_preserves P pkg :
  TrucInv P -> NoSelf P -> TrucInv (snd (truc_try_package P pkg)) /\ NoSelf (snd (truc_try_package P pkg)).
Proof.
  intros Hinv Hns. unfold truc_try_package.
  destruct (negb (pkg_fresh P pkg)) eqn:Hf; [simpl; auto|]. apply negb_false_iff in Hf.
  destruct (forallb _ (pkg_checks P pkg 0 pkg)) eqn:Hall; [|simpl; auto]. simpl.
  unfold pkg_fresh in Hf. destruct (is_well_formed pkg) eqn:Hwf; [discriminate|].
  rewrite forallb_forall in Hf.
  pose proof (is_well_formed_None_sorted pkg Hwf) as Hsorted.
  assert (Hchk : forall j tx, nth_error pkg j = Some tx ->
            single_truc_checks P tx (parents_of P tx) [] (vsize_of tx) = None /\
            package_truc_checks P pkg j tx (vsize_of tx) (parents_of P tx) = None).
  { intros j tx Hn. apply (pkg_checks_ok P pkg pkg 0 Hall j tx Hn). }
  assert (Hnosp : forall tx e, In tx pkg -> In e P -> spends e (p_txid tx) = false).
  { intros tx e Htx He. specialize (Hf tx Htx). apply andb_true_iff in Hf. destruct Hf as [Hf _].
    apply andb_true_iff in Hf. destruct Hf as [_ Hf]. apply negb_true_iff in Hf. rewrite existsb_false_forall in Hf. apply Hf. exact He. }
  assert (Hself : forall tx, In tx pkg -> spends tx (p_txid tx) = false).
  { intros tx Htx. apply spends_false. intros inp Hin E. apply In_nth_error in Htx. destruct Htx as [i Hi].
    apply (Hsorted i i tx tx inp Hi Hi); [lia | exact Hin | exact E]. }
  assert (Hpar_old : forall t, In t P -> parents_of (P ++ pkg) t = parents_of P t).
  { intros t Ht. rewrite parents_of_app. unfold parents_of at 2. rewrite filter_all_false; [apply app_nil_r|].
    intros x Hx. apply Hnosp; assumption. }
  assert (Hch_new : forall tx, In tx pkg -> children_of (P ++ pkg) tx = children_of pkg tx).
  { intros tx Htx. rewrite children_of_app. unfold children_of at 1. rewrite filter_all_false; [reflexivity|].
    intros x Hx. apply Hnosp; assumption. }
  (* every package transaction spending t, for a version-3 t: it is version 3 and t is its only parent *)
  split.
  - intros t Ht. apply in_app_or in Ht. destruct Ht as [Ht|Ht].
    + (* an old transaction *)
      destruct (Hinv t Ht) as [O3 O2]. unfold TrucInvTx. rewrite (Hpar_old t Ht). split; [|exact O2].
      intros Hv. destruct (O3 Hv) as [A [B [C [D [E [F G]]]]]]. rewrite children_of_app.
      destruct (children_of pkg t) as [|c0 cs0] eqn:Hcp.
      { rewrite app_nil_r. repeat split; assumption. }
      (* some package transaction spends t *)
      assert (Hc0 : In c0 (children_of pkg t)) by (rewrite Hcp; left; reflexivity).
      apply In_children_of in Hc0. destruct Hc0 as [Hc0p Hc0s].
      pose proof Hc0p as Hc0n. apply In_nth_error in Hc0n. destruct Hc0n as [i Hi].
      destruct (Hchk i c0 Hi) as [Hs1 Hp1].
      destruct (single_truc_checks_none P c0 (parents_of P c0) [] (vsize_of c0) Hs1) as [Hinh Hv3].
      assert (Htmp : In t (parents_of P c0)) by (apply In_parents_of; auto).
      assert (Hc0v : is_truc c0 = true) by (rewrite <- (Hinh t Htmp); exact Hv).
      destruct (Hv3 Hc0v) as [_ [Hlen Hpp]]. destruct (Hpp t Htmp) as [Hanc [_ Hdesc]].
      assert (Hnopar : parents_of P t = []).
      { destruct (parents_of P t) eqn:Hq; [reflexivity|]. exfalso.
        assert (2 <= anc_count P t) by (apply anc_count_ge_2; auto; rewrite Hq; discriminate).
        unfold TRUC_ANCESTOR_LIMIT, MPP_TRUC_ANCESTOR_LIMIT in Hanc. lia. }
      assert (Hnoch : children_of P t = []).
      { destruct Hdesc as [Hd|[d [_ [_ []]]]]. destruct (children_of P t) eqn:Hch; [reflexivity|]. exfalso.
        assert (2 <= desc_count P t) by (apply desc_count_ge_2; auto; rewrite Hch; discriminate).
        unfold TRUC_DESCENDANT_LIMIT, MPP_TRUC_DESCENDANT_LIMIT in Hd. lia. }
      (* t is c0's only parent, so the package check at c0 forbids any other member spending t *)
      destruct (package_truc_checks_none_v3 P pkg i c0 (vsize_of c0) (parents_of P c0) Hc0v Hp1) as [_ [_ [_ [_ Hsib]]]].
      assert (Hne : parents_of P c0 ++ in_package_parents pkg i c0 <> []).
      { intros E0. apply app_eq_nil in E0. destruct E0 as [E0 _]. rewrite E0 in Htmp. destruct Htmp. }
      destruct (Hsib Hne) as [_ Hothers].
      assert (Hone : (length (children_of pkg t) <= 1)%nat).
      { unfold children_of. apply (filter_at_most_one _ pkg i). intros j x Hn Hji.
        destruct (Hothers j x Hn Hji) as [_ Hx]. apply Hx. apply in_or_app. left. exact Htmp. }
      rewrite Hnoch, Hnopar. rewrite <- Hcp. cbn [app].
      split; [exact A|]. split; [simpl; lia|]. split; [exact Hone|]. split; [left; reflexivity|].
      split; [intros p []|]. split; [|intros Hx; exfalso; apply Hx; reflexivity].
      intros c Hc. apply In_children_of in Hc. destruct Hc as [Hcp' Hcs'].
      pose proof Hcp' as Hcn. apply In_nth_error in Hcn. destruct Hcn as [j Hj].
      destruct (Hchk j c Hj) as [Hs2 _].
      destruct (single_truc_checks_none P c (parents_of P c) [] (vsize_of c) Hs2) as [Hinh2 _].
      rewrite <- (Hinh2 t); [exact Hv | apply In_parents_of; auto].
    + (* a package member *)
      pose proof Ht as Htn. apply In_nth_error in Htn. destruct Htn as [i Hi].
      destruct (Hchk i t Hi) as [Hs1 Hp1].
      destruct (single_truc_checks_none P t (parents_of P t) [] (vsize_of t) Hs1) as [Hinh Hv3].
      assert (Epar : parents_of (P ++ pkg) t = parents_of P t ++ in_package_parents pkg i t).
      { rewrite parents_of_app. rewrite (sorted_parents_before pkg i t Hsorted Hi). reflexivity. }
      unfold TrucInvTx. rewrite Epar, (Hch_new t Ht). split.
      * intros Hv. destruct (package_truc_checks_none_v3 P pkg i t (vsize_of t) (parents_of P t) Hv Hp1) as [Hsz [Hlen [Hmp [Hipp Hhas]]]].
        split; [exact Hsz|]. split; [rewrite app_length; exact Hlen|].
        assert (Hkids : forall c, In c (children_of pkg t) -> is_truc c = true /\
                  exists j, nth_error pkg j = Some c /\ forall k x, nth_error pkg k = Some x -> k <> j -> spends x (p_txid t) = false).
        { intros c Hc. apply In_children_of in Hc. destruct Hc as [Hcp Hcs].
          pose proof Hcp as Hcn. apply In_nth_error in Hcn. destruct Hcn as [j Hj].
          destruct (Hchk j c Hj) as [_ Hp2].
          assert (Htipp : In t (in_package_parents pkg j c)).
          { rewrite <- (sorted_parents_before pkg j c Hsorted Hj). apply In_parents_of. auto. }
          destruct (is_truc c) eqn:Hcv.
          - split; [reflexivity|]. exists j. split; [exact Hj|].
            destruct (package_truc_checks_none_v3 P pkg j c (vsize_of c) (parents_of P c) Hcv Hp2) as [_ [_ [_ [_ Hh2]]]].
            assert (Hne2 : parents_of P c ++ in_package_parents pkg j c <> []).
            { intros E0. apply app_eq_nil in E0. destruct E0 as [_ E0]. rewrite E0 in Htipp. destruct Htipp. }
            destruct (Hh2 Hne2) as [_ Hoth]. intros k x Hk Hkj. destruct (Hoth k x Hk Hkj) as [_ Hx]. apply Hx.
            apply in_or_app. right. exact Htipp.
          - exfalso. destruct (package_truc_checks_none_nonv3 P pkg j c (vsize_of c) (parents_of P c) Hcv Hp2) as [_ Hq].
            rewrite (Hq t Htipp) in Hv. discriminate. }
        split.
        { destruct (children_of pkg t) as [|c cs] eqn:Hck; [simpl; lia|].
          destruct (Hkids c (or_introl eq_refl)) as [_ [j [Hj Hoth]]]. rewrite <- Hck.
          unfold children_of. apply (filter_at_most_one _ pkg j). exact Hoth. }
        split.
        { destruct (parents_of P t ++ in_package_parents pkg i t) as [|p0 ps0] eqn:Hpp; [left; reflexivity|]. right.
          assert (Hne : p0 :: ps0 <> []) by discriminate.
          destruct (Hhas Hne) as [_ Hoth].
          unfold children_of. apply filter_all_false. intros x Hx. apply In_nth_error in Hx. destruct Hx as [k Hk].
          destruct (Nat.eq_dec k i) as [E|NE].
          - subst k. rewrite Hi in Hk. inversion Hk; subst x. apply Hself. exact Ht.
          - destruct (Hoth k x Hk NE) as [Hx _]. exact Hx. }
        split.
        { intros p Hp. apply in_app_or in Hp. destruct Hp as [Hp|Hp]; [apply Hmp; exact Hp | apply Hipp; exact Hp]. }
        split; [intros c Hc; apply (Hkids c Hc)|].
        intros Hne. apply (Hhas Hne).
      * intros Hv p Hp. destruct (package_truc_checks_none_nonv3 P pkg i t (vsize_of t) (parents_of P t) Hv Hp1) as [Hm Hq].
        apply in_app_or in Hp. destruct Hp as [Hp|Hp]; [apply Hm; exact Hp | apply Hq; exact Hp].
  - intros e He. apply in_app_or in He. destruct He as [He|He]; [apply Hns; exact He | apply Hself; exact He].
Qed.

(* ---------- over all op sequences ---------- *)
Lemma truc_apply_preserves P o : is_force o = false -> TrucInv P /\ NoSelf P -> TrucInv (truc_apply P o) /\ NoSelf (truc_apply P o).
Proof.
  intros Hf [Hinv Hns]. destruct o as [tx|pkg|R|tx]; simpl in *.
  - apply truc_try_add_preserves; assumption.
  - apply truc_try_package_preserves; assumption.
  - split; [apply TrucInv_remove; exact Hinv | intros e He; apply Hns; apply remove_set_In in He; tauto].
  - discriminate.
Qed.

Theorem truc_run_invariant : forall ops, forallb (fun o => negb (is_force o)) ops = true -> TrucInv (truc_run ops).
Proof.
  intros ops Hops. unfold truc_run.
  assert (G : forall l P, forallb (fun o => negb (is_force o)) l = true -> TrucInv P /\ NoSelf P ->
            TrucInv (fold_left truc_apply l P) /\ NoSelf (fold_left truc_apply l P)).
  { induction l as [|o l IH]; intros P Hl HP; simpl; [exact HP|].
    simpl in Hl. apply andb_true_iff in Hl. destruct Hl as [Ho Hl]. apply negb_true_iff in Ho.
    apply IH; [exact Hl | apply truc_apply_preserves; assumption]. }
  apply (G ops [] Hops). split; [intros t [] | intros e []].
Qed.

(* ---------- the executable invariant check follows from the invariant ---------- *)
Lemma add_new_nodup : forall new S, NoDup (map p_txid S) -> NoDup (map p_txid (add_new S new)).
Proof.
  unfold add_new. induction new as [|a new IH]; intros S H; simpl; [exact H|].
  apply IH. destruct (in_set a S) eqn:Hs; [exact H|].
  rewrite map_app. simpl. apply NoDup_snoc; [exact H|].
  intros Hin. apply in_map_iff in Hin. destruct Hin as [e [Ee He]].
  assert (in_set a S = true) by (apply in_set_true; exists e; auto). congruence.
Qed.
Lemma closure_nodup : forall next f S, NoDup (map p_txid S) -> NoDup (map p_txid (closure next f S)).
Proof. induction f as [|f IH]; intros S H; simpl; [exact H|]. apply IH. apply add_new_nodup. exact H. Qed.

Lemma bounded_length (L bound : list ptx) : NoDup (map p_txid L) -> incl L bound -> (length L <= length bound)%nat.
Proof. intros Hnd Hi. apply NoDup_incl_length; [|exact Hi]. eapply NoDup_map_inv. exact Hnd. Qed.

Lemma truc_anc_shape P t a : TrucInv P -> In t P -> is_truc t = true ->
  In a (anc_set P t) -> a = t \/ In a (parents_of P t).
Proof.
  intros Hinv Ht Hv Ha. unfold anc_set in Ha. apply closure_sound in Ha. destruct Ha as [s [[Es|[]] Hr]]. subst s.
  induction Hr as [|y z Hxy IH Hz]; [left; reflexivity|].
  destruct IH as [E|Hy]; [subst y; right; exact Hz|]. exfalso.
  destruct (Hinv t Ht) as [H3 _]. destruct (H3 Hv) as [_ [_ [_ [_ [Fp _]]]]].
  pose proof (Fp y Hy) as Hyv. apply In_parents_of in Hy. destruct Hy as [HyP Hys].
  destruct (Hinv y HyP) as [H3y _]. destruct (H3y Hyv) as [_ [_ [_ [Dy _]]]].
  destruct Dy as [Dy|Dy].
  - rewrite Dy in Hz. destruct Hz.
  - assert (In t (children_of P y)) by (apply In_children_of; auto). rewrite Dy in H. destruct H.
Qed.

Lemma truc_counts P t : TrucInv P -> In t P -> is_truc t = true ->
  anc_count P t <= 1 + Z.of_nat (length (parents_of P t)) /\ desc_count P t <= 1 + Z.of_nat (length (children_of P t)).
Proof.
  intros Hinv Ht Hv. unfold anc_count, desc_count. split.
  - assert (H : (length (anc_set P t) <= length (t :: parents_of P t))%nat).
    { apply bounded_length; [apply closure_nodup; simpl; constructor; [intros [] | constructor]|].
      intros a Ha. destruct (truc_anc_shape P t a Hinv Ht Hv Ha) as [E|H]; [left; auto | right; exact H]. }
    simpl in H. lia.
  - assert (H : (length (desc_set P t) <= length (t :: children_of P t))%nat).
    { apply bounded_length; [apply closure_nodup; simpl; constructor; [intros [] | constructor]|].
      intros a Ha. destruct (truc_desc_shape P t a Hinv Ht Hv Ha) as [E|H]; [left; auto | right; exact H]. }
    simpl in H. lia.
Qed.

Theorem truc_holds_of_inv P : TrucInv P -> truc_holds P = true.
Proof.
  intros Hinv. unfold truc_holds. apply forallb_forall. intros t Ht. unfold truc_ok_tx.
  destruct (Hinv t Ht) as [H3 H2]. destruct (is_truc t) eqn:Hv.
  - destruct (H3 eq_refl) as [A [B [C [D [E [F G]]]]]]. destruct (truc_counts P t Hinv Ht Hv) as [Ha Hd].
    unfold TRUC_DESCENDANT_LIMIT, MPP_TRUC_DESCENDANT_LIMIT, TRUC_ANCESTOR_LIMIT, MPP_TRUC_ANCESTOR_LIMIT.
    rewrite !andb_true_iff. split; [split; [split|]|]; try lia.
    destruct (1 <? anc_count P t) eqn:H1; [|reflexivity].
    assert (Hne : parents_of P t <> []).
    { intros E0. rewrite E0 in Ha. simpl in Ha. lia. }
    rewrite andb_true_iff. split; [specialize (G Hne); lia|]. apply forallb_forall. exact E.
  - apply forallb_forall. intros p Hp. rewrite (H2 eq_refl p Hp). reflexivity.
Qed.

(* the counts form of the cluster bound: after every rule-abiding history no version-3 transaction has more than
   TRUC_ANCESTOR_LIMIT ancestors or TRUC_DESCENDANT_LIMIT descendants (itself included) *)
Theorem truc_run_counts : forall ops t, forallb (fun o => negb (is_force o)) ops = true ->
  In t (truc_run ops) -> is_truc t = true ->
  anc_count (truc_run ops) t <= TRUC_ANCESTOR_LIMIT /\ desc_count (truc_run ops) t <= TRUC_DESCENDANT_LIMIT.
Proof.
  intros ops t Hops Ht Hv. pose proof (truc_run_invariant ops Hops) as Hinv.
  destruct (truc_counts _ t Hinv Ht Hv) as [Ha Hd]. destruct (Hinv t Ht) as [H3 _]. destruct (H3 Hv) as [_ [B [C _]]].
  unfold TRUC_DESCENDANT_LIMIT, MPP_TRUC_DESCENDANT_LIMIT, TRUC_ANCESTOR_LIMIT, MPP_TRUC_ANCESTOR_LIMIT. lia.
Qed.

(* ---------- cluster limits: the decision is the stated bound on every cluster ---------- *)
Lemma check_cluster_limits_iff c w P :
  check_cluster_limits c w P = true <->
  forall t, In t P -> Z.of_nat (length (cluster_of P t)) <= c /\ zsum (map p_weight (cluster_of P t)) <= w.
Proof.
  unfold check_cluster_limits, cluster_within. rewrite forallb_forall. split; intros H t Ht; specialize (H t Ht).
  - apply andb_true_iff in H. lia.
  - apply andb_true_iff. lia.
Qed.

Lemma cluster_contains_self P t : In t (cluster_of P t).
Proof. unfold cluster_of. apply closure_incl. left. reflexivity. Qed.

(* the limits of a default-configured mempool leave room for any package and any TRUC pair *)
Lemma default_limits_cover_packages_and_truc :
  MAX_PACKAGE_COUNT <= MPP_LIMITS_CLUSTER_COUNT /\
  MAX_PACKAGE_WEIGHT <= MPP_LIMITS_CLUSTER_SIZE_VBYTES * WITNESS_SCALE_FACTOR /\
  TRUC_MAX_VSIZE + TRUC_CHILD_MAX_VSIZE <= MPP_LIMITS_CLUSTER_SIZE_VBYTES /\
  TRUC_ANCESTOR_LIMIT <= MPP_LIMITS_CLUSTER_COUNT.
Proof. vm_compute. repeat split; discriminate. Qed.
