(* AddChildrenToWorkSet and GetTxToReconsider only flip m_reconsider flags: the consistency invariant is kept, no
   Assume fails, and nothing else changes. *)
From BV Require Import lib.Ints gen.Params_gen model.Orphanage proofs.OrphanBasics proofs.OrphanInv proofs.OrphanLimit
  proofs.OrphanSteps.
Local Open Scope Z_scope.

(* two announcement lists that differ only in the m_reconsider flags *)
Definition same_core (l l' : list oann) : Prop :=
  Forall2 (fun a a' => o_tx a = o_tx a' /\ o_peer a = o_peer a' /\ o_seq a = o_seq a') l l'.

Lemma same_core_refl l : same_core l l.
Proof. induction l; constructor; auto. Qed.
Lemma same_core_trans l1 l2 l3 : same_core l1 l2 -> same_core l2 l3 -> same_core l1 l3.
Proof.
  intros H. revert l3. induction H; intros l3 H3; inversion H3; subst; constructor.
  - destruct H as [A [B C]], H4 as [A' [B' C']]. repeat split; congruence.
  - apply IHForall2. assumption.
Qed.
Lemma same_core_set l w p v : same_core l (set_reconsider w p v l).
Proof.
  unfold set_reconsider. induction l as [|x l IH]; cbn [map]; constructor; auto.
  destruct (is_oann w p x); auto.
Qed.
Lemma same_core_map (f : oann -> Z * Z) l l' :
  (forall a a', o_tx a = o_tx a' -> o_peer a = o_peer a' -> f a = f a') -> same_core l l' -> map f l = map f l'.
Proof. intros Hf H. induction H; cbn [map]; [reflexivity|]. destruct H as [A [B _]]. rewrite (Hf x y A B), IHForall2. reflexivity. Qed.
Lemma same_core_wtxids l l' : same_core l l' -> map o_wtxid l = map o_wtxid l'.
Proof. intros H. induction H; cbn [map]; [reflexivity|]. destruct H as [A _]. unfold o_wtxid at 1 3. rewrite A, IHForall2. reflexivity. Qed.
Lemma same_core_length l l' : same_core l l' -> length l = length l'.
Proof. intros H. induction H; cbn [length]; auto. Qed.
Lemma same_core_in l l' a' : same_core l l' -> In a' l' -> exists a, In a l /\ o_tx a = o_tx a' /\ o_peer a = o_peer a'.
Proof.
  intros H. induction H; intros Hin; [contradiction|]. destruct Hin as [<-|Hin].
  - exists x. destruct H as [A [B _]]. split; [left|]; auto.
  - destruct (IHForall2 Hin) as [a [Ha E]]. exists a. split; [right|]; auto.
Qed.
Lemma same_core_recompute l l' q : same_core l l' -> recompute_peer l q = recompute_peer l' q.
Proof.
  intros H. unfold recompute_peer.
  assert (X : zsum_map mem_usage (filter (from_peer q) l) = zsum_map mem_usage (filter (from_peer q) l') /\
              length (filter (from_peer q) l) = length (filter (from_peer q) l') /\
              zsum_map latency_score (filter (from_peer q) l) = zsum_map latency_score (filter (from_peer q) l')).
  { induction H; [auto|]. destruct H as [A [B _]]. destruct IHForall2 as [I1 [I2 I3]]. cbn [filter].
    assert (E : from_peer q x = from_peer q y) by (unfold from_peer; rewrite B; reflexivity). rewrite E.
    destruct (from_peer q y); [|auto]. cbn [zsum_map length].
    assert (E1 : mem_usage x = mem_usage y) by (unfold mem_usage; rewrite A; reflexivity).
    assert (E2 : latency_score x = latency_score y) by (unfold latency_score; rewrite A; reflexivity).
    rewrite E1, E2, I1, I2, I3. auto. }
  destruct X as [X1 [X2 X3]]. rewrite X1, X2, X3. reflexivity.
Qed.
Lemma same_core_filter_len l l' q : same_core l l' -> length (filter (from_peer q) l) = length (filter (from_peer q) l').
Proof.
  intros H. induction H; [reflexivity|]. destruct H as [_ [B _]]. cbn [filter].
  assert (E : from_peer q x = from_peer q y) by (unfold from_peer; rewrite B; reflexivity). rewrite E.
  destruct (from_peer q y); cbn [length]; auto.
Qed.

Section Work.
Variable tx_of : Z -> otx.
Hypothesis tx_wtxid : forall w, x_wtxid (tx_of w) = w.
Hypothesis tx_inputs_weight : forall w, 164 * Z.of_nat (length (x_inputs (tx_of w))) <= x_weight (tx_of w).
Hypothesis tx_weight_nonneg : forall w, 0 <= x_weight (tx_of w).
Notation OWF := (OWF tx_of).

(* replacing the announcements by ones with the same core, with a matching reconsiderable set *)
Lemma owf_recore g l' rc :
  OWF g -> same_core (g_anns g) l' ->
  (forall w, In w rc <-> exists a, In a l' /\ o_wtxid a = w /\ o_reconsider a = true) -> NoDup rc ->
  (forall a b, In a l' -> In b l' -> o_wtxid a = o_wtxid b -> o_reconsider a = true -> o_reconsider b = true -> a = b) ->
  OWF (set_recon_state g l' rc).
Proof.
  intros W SC Hr Hn Hone. destruct W as [Hbad Hk Ht Hpn Hp Hu Hus Hin Hom Hon _ _ _ Hlen Hml Hres].
  pose proof (same_core_wtxids _ _ SC) as EW.
  assert (EWt : wtxids_of l' = wtxids_of (g_anns g)) by (unfold wtxids_of; rewrite EW; reflexivity).
  constructor; cbn [set_recon_state g_bad g_anns g_unique g_usage g_inscores g_outmap g_recon g_peers g_maxlat g_reserved]; auto.
  - unfold okeys. rewrite <- (same_core_map akey _ _ (fun a a' A B => ltac:(unfold akey, o_wtxid; rewrite A, B; reflexivity)) SC). exact Hk.
  - intros a' Ha'. destruct (same_core_in _ _ a' SC Ha') as [a [Ha [A B]]]. destruct (Ht a Ha) as [T1 T2].
    unfold o_wtxid in *. rewrite <- A. auto.
  - intros q. rewrite (Hp q), (same_core_filter_len _ _ q SC), (same_core_recompute _ _ q SC). reflexivity.
  - rewrite EWt. exact Hu.
  - unfold dsum. rewrite EWt. exact Hus.
  - unfold dsum. rewrite EWt. exact Hin.
  - intros k w. rewrite EWt. apply Hom.
  - rewrite <- (same_core_length _ _ SC). exact Hlen.
Qed.

Lemma needs_trim_recore g l' rc : length l' = length (g_anns g) -> needs_trim (set_recon_state g l' rc) = needs_trim g.
Proof. intros E. unfold needs_trim, total_latency, max_global_usage, n_peers. cbn [set_recon_state g_maxlat g_inscores g_anns g_usage g_reserved g_peers]. rewrite E. reflexivity. Qed.

(* membership after set_reconsider *)
Lemma in_set_reconsider w p v l x :
  In x (set_reconsider w p v l) <-> exists a, In a l /\ x = (if is_oann w p a then mkOA (o_tx a) (o_peer a) (o_seq a) v else a).
Proof. unfold set_reconsider. rewrite in_map_iff. split; intros [a [A B]]; exists a; auto. Qed.

Lemma sort_by_peer_in l x : In x (sort_by_peer l) <-> In x l.
Proof.
  assert (Ins : forall a m, In x (insert_by_peer a m) <-> x = a \/ In x m).
  { intros a m. induction m as [|b m IH]; cbn [insert_by_peer]; [simpl; intuition congruence|].
    destruct (o_peer a <? o_peer b); simpl; [intuition congruence|]. rewrite IH. intuition congruence. }
  induction l as [|a l IH]; cbn [sort_by_peer]; [tauto|]. rewrite Ins, IH. simpl. intuition congruence.
Qed.
Lemma sort_by_peer_length l : length (sort_by_peer l) = length l.
Proof.
  assert (Ins : forall a m, length (insert_by_peer a m) = S (length m)).
  { intros a m. induction m as [|b m IH]; cbn [insert_by_peer]; [reflexivity|]. destruct (o_peer a <? o_peer b); cbn [length]; auto. }
  induction l as [|a l IH]; cbn [sort_by_peer]; [reflexivity|]. rewrite Ins, IH. reflexivity.
Qed.

(* the invariant kept by the steps of AddChildrenToWorkSet *)
Definition wstate (g0 g : orph) : Prop :=
  OWF g /\ same_core (g_anns g0) (g_anns g) /\ needs_trim g = needs_trim g0 /\ same_params g0 g /\
  g_outmap g = g_outmap g0.

Lemma work_one_ok choice g0 g ret w :
  (forall w0 n, 0 < n -> 0 <= choice w0 n < n) ->
  wstate g0 g -> In w (wtxids_of (g_anns g)) ->
  wstate g0 (fst (work_one choice (g, ret) w)).
Proof.
  intros Hch [W [SC [NT [SP OM]]]] Hw. unfold work_one. destruct (set_mem w (g_recon g)) eqn:M; [cbn [fst]; unfold wstate; auto|].
  apply set_mem_false in M.
  remember (sort_by_peer (filter (has_wtxid w) (g_anns g))) as anns eqn:EA.
  assert (NE : anns <> []).
  { apply in_wtxids in Hw. destruct Hw as [b [Hb Eb]].
    assert (X : In b anns) by (rewrite EA; apply sort_by_peer_in; apply filter_In; split; auto; apply has_wtxid_true; auto).
    intros E. rewrite E in X. contradiction. }
  assert (Ln : 0 < Z.of_nat (length anns)) by (destruct anns; [contradiction|cbn [length]; lia]).
  destruct (Hch w _ Ln) as [C1 C2].
  assert (Hm : forall (X : Type) (x y : X), match anns with [] => x | _ :: _ => y end = y) by (intros; destruct anns; [contradiction|reflexivity]).
  rewrite Hm.
  destruct (nth_error anns (Z.to_nat (choice w (Z.of_nat (length anns))))) as [a|] eqn:NE2.
  2:{ exfalso. apply nth_error_None in NE2. lia. }
  apply nth_error_In in NE2. rewrite EA in NE2. apply (proj1 (sort_by_peer_in _ _)) in NE2. apply filter_In in NE2. destruct NE2 as [Ha Ea]. apply has_wtxid_true in Ea.
  (* no announcement of w is reconsiderable yet *)
  assert (NR : forall b, In b (g_anns g) -> o_wtxid b = w -> o_reconsider b = false).
  { intros b Hb Eb. destruct (o_reconsider b) eqn:R; [|reflexivity]. exfalso. apply M. apply (ow_recon _ _ W). exists b. auto. }
  rewrite (NR a Ha Ea). cbn [fst].
  set (l' := set_reconsider w (o_peer a) true (g_anns g)).
  assert (SC' : same_core (g_anns g) l') by apply same_core_set.
  assert (InL' : forall x, In x l' <-> exists b, In b (g_anns g) /\ x = (if is_oann w (o_peer a) b then mkOA (o_tx b) (o_peer b) (o_seq b) true else b))
    by (intros; apply in_set_reconsider).
  assert (Ka : forall b, In b (g_anns g) -> is_oann w (o_peer a) b = true -> b = a).
  { intros b Hb K. apply is_oann_true in K. apply (okeys_same (g_anns g)); auto; [apply (ow_keys _ _ W)|]. rewrite K. unfold akey. rewrite Ea. reflexivity. }
  split; [|split; [eapply same_core_trans; eauto|split; [rewrite needs_trim_recore; [exact NT|symmetry; apply (same_core_length _ _ SC')]|split; [exact SP|exact OM]]]].
  apply owf_recore; auto.
  - intros w'. rewrite in_set_add, (ow_recon _ _ W). split.
    + intros [->|[b [Hb [Eb Rb]]]].
      * exists (mkOA (o_tx a) (o_peer a) (o_seq a) true). split; [|split; [unfold o_wtxid in *; cbn; exact Ea|reflexivity]].
        apply InL'. exists a. split; auto. assert (K : is_oann w (o_peer a) a = true) by (apply is_oann_true; unfold akey; rewrite Ea; reflexivity).
        rewrite K. reflexivity.
      * exists b. split; [|auto]. apply InL'. exists b. split; auto.
        destruct (is_oann w (o_peer a) b) eqn:K; [|reflexivity]. rewrite (Ka b Hb K) in Rb. rewrite (NR a Ha Ea) in Rb. discriminate.
    + intros [x [Hx [Ex Rx]]]. apply InL' in Hx. destruct Hx as [b [Hb Exb]].
      destruct (is_oann w (o_peer a) b) eqn:K.
      * left. subst x. unfold o_wtxid in Ex. cbn [o_tx] in Ex. rewrite (Ka b Hb K) in Ex. unfold o_wtxid in Ea. congruence.
      * right. exists b. subst x. auto.
  - apply nodup_set_add. apply (ow_recnodup _ _ W).
  - intros x y Hx Hy Exy Rx Ry. apply InL' in Hx, Hy. destruct Hx as [b [Hb Exb]], Hy as [c [Hc Eyc]].
    destruct (is_oann w (o_peer a) b) eqn:Kb, (is_oann w (o_peer a) c) eqn:Kc.
    + rewrite (Ka b Hb Kb) in Exb. rewrite (Ka c Hc Kc) in Eyc. congruence.
    + exfalso. subst x y. unfold o_wtxid in Exy. cbn [o_tx] in Exy. rewrite (Ka b Hb Kb) in Exy.
      assert (o_wtxid c = w) by (unfold o_wtxid in *; congruence). rewrite (NR c Hc H) in Ry. discriminate.
    + exfalso. subst x y. unfold o_wtxid in Exy. cbn [o_tx] in Exy. rewrite (Ka c Hc Kc) in Exy.
      assert (o_wtxid b = w) by (unfold o_wtxid in *; congruence). rewrite (NR b Hb H) in Rx. discriminate.
    + subst x y. apply (ow_recone _ _ W); auto.
Qed.

Lemma work_one_ret choice g ret w : exists ret', work_one choice (g, ret) w = (fst (work_one choice (g, ret) w), ret').
Proof. destruct (work_one choice (g, ret) w) as [g' r']. exists r'. reflexivity. Qed.

Lemma work_inner_ok choice g0 : (forall w0 n, 0 < n -> 0 <= choice w0 n < n) ->
  forall (ws : list Z) g ret, wstate g0 g -> (forall w, In w ws -> In w (wtxids_of (g_anns g0))) ->
  wstate g0 (fst (fold_left (work_one choice) ws (g, ret))).
Proof.
  intros Hch. induction ws as [|w ws IH]; intros g ret St Hws; cbn [fold_left]; [exact St|].
  destruct (work_one_ret choice g ret w) as [ret' E]. rewrite E. apply IH; [|intros x Hx; apply Hws; right; auto].
  apply work_one_ok; auto. destruct St as [_ [SC _]]. unfold wtxids_of. rewrite <- (same_core_wtxids _ _ SC). apply Hws. left. auto.
Qed.

Lemma add_children_ok g txid nout choice : (forall w0 n, 0 < n -> 0 <= choice w0 n < n) -> OWF g ->
  wstate g (fst (add_children_to_work_set g txid nout choice)).
Proof.
  intros Hch W. unfold add_children_to_work_set.
  assert (St0 : wstate g g) by (split; [exact W|split; [apply same_core_refl|split; [reflexivity|split; [repeat split; reflexivity|reflexivity]]]]).
  destruct (g_anns g) as [|x m] eqn:EA; [exact St0|]. clear EA x m.
  generalize (seq 0 (Z.to_nat nout)). intros idx.
  assert (G : forall (idx : list nat) acc, wstate g (fst acc) ->
              wstate g (fst (fold_left (fun acc i => fold_left (work_one choice) (g_outmap (fst acc) (txid, Z.of_nat i)) acc) idx acc))).
  { induction idx0 as [|i idx0 IH]; intros acc St; cbn [fold_left]; [exact St|]. apply IH. destruct acc as [g1 r1]. cbn [fst] in *.
    apply work_inner_ok; auto. intros w Hw. destruct St as [W1 [_ [_ [_ OM]]]]. rewrite OM in Hw.
    apply (ow_outmap _ _ W) in Hw. tauto. }
  apply (G idx (g, [])). exact St0.
Qed.

(* GetTxToReconsider *)
Lemma first_of_in lt (l : list oann) a : first_of lt l = Some a -> In a l.
Proof.
  revert a. induction l as [|x l IH]; intros a; [discriminate|]. cbn [first_of]. destruct (first_of lt l) as [b|].
  - destruct (lt b x); intros E; inversion E; subst; [right; apply IH; reflexivity|left; reflexivity].
  - intros E. inversion E. left. reflexivity.
Qed.

Lemma get_tx_to_reconsider_ok g p : OWF g -> wstate g (fst (get_tx_to_reconsider g p)).
Proof.
  intros W. unfold get_tx_to_reconsider.
  assert (St0 : wstate g g) by (split; [exact W|split; [apply same_core_refl|split; [reflexivity|split; [repeat split; reflexivity|reflexivity]]]]).
  destruct (first_recon_of_peer p (g_anns g)) as [a|] eqn:F; [|exact St0]. cbn [fst].
  unfold first_recon_of_peer in F. apply first_of_in in F. apply filter_In in F. destruct F as [Ha E].
  apply andb_true_iff in E. destruct E as [Ep Ra]. apply from_peer_true in Ep.
  set (w := o_wtxid a). set (l' := set_reconsider w p false (g_anns g)).
  assert (SC' : same_core (g_anns g) l') by apply same_core_set.
  assert (InL' : forall x, In x l' <-> exists b, In b (g_anns g) /\ x = (if is_oann w p b then mkOA (o_tx b) (o_peer b) (o_seq b) false else b))
    by (intros; apply in_set_reconsider).
  assert (Ka : forall b, In b (g_anns g) -> is_oann w p b = true -> b = a).
  { intros b Hb K. apply is_oann_true in K. apply (okeys_same (g_anns g)); auto; [apply (ow_keys _ _ W)|]. rewrite K. unfold akey. rewrite Ep. reflexivity. }
  split; [|split; [exact SC'|split; [apply needs_trim_recore; symmetry; apply (same_core_length _ _ SC')|split; [repeat split; reflexivity|reflexivity]]]].
  apply owf_recore; auto.
  - intros w'. rewrite in_set_del, (ow_recon _ _ W). split.
    + intros [Nw [b [Hb [Eb Rb]]]]. exists b. split; [|auto]. apply InL'. exists b. split; auto.
      destruct (is_oann w p b) eqn:K; [|reflexivity]. exfalso. apply Nw. rewrite <- Eb, (Ka b Hb K). reflexivity.
    + intros [x [Hx [Ex Rx]]]. apply InL' in Hx. destruct Hx as [b [Hb Exb]].
      destruct (is_oann w p b) eqn:K; [subst x; discriminate|]. subst x. split; [|exists b; auto].
      intros ->. assert (b = a) by (apply (ow_recone _ _ W); auto). subst b.
      assert (K' : is_oann w p a = true) by (apply is_oann_true; unfold akey; rewrite Ep; reflexivity). congruence.
  - apply nodup_set_del. apply (ow_recnodup _ _ W).
  - intros x y Hx Hy Exy Rx Ry. apply InL' in Hx, Hy. destruct Hx as [b [Hb Exb]], Hy as [c [Hc Eyc]].
    destruct (is_oann w p b) eqn:Kb; [subst x; discriminate|]. destruct (is_oann w p c) eqn:Kc; [subst y; discriminate|].
    subst x y. apply (ow_recone _ _ W); auto.
Qed.

End Work.
