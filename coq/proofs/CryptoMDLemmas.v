(* C49 — proofs about the generic Merkle–Damgård streaming object (model/CryptoMD.v):
   for every block size B > 0, every compression function, and every fragmentation of the input,
   Write...Write;Finalize of the C++ object model equals the one-shot padded iteration of the
   standard.  Proved once; instantiated for SHA-256, SHA-1, RIPEMD-160 (B = 64) and SHA-512 (B = 128). *)
From Coq Require Import NArith Arith.
From BV Require Import lib.Ints model.CryptoBase model.CryptoMD.
Local Open Scope Z_scope.

(* ---------- list helpers ---------- *)
Lemma skipn_skipn' {A} (x y : nat) (l : list A) : skipn x (skipn y l) = skipn (y + x) l.
Proof.
  revert l. induction y as [|y IH]; intros l; simpl; [reflexivity|].
  destruct l as [|a l]; [destruct x; reflexivity|]. apply IH.
Qed.

Lemma firstn_repeat' {A} (a : A) (z n : nat) : (z <= n)%nat -> firstn z (repeat a n) = repeat a z.
Proof.
  revert n. induction z as [|z IH]; intros n Hz; [reflexivity|].
  destruct n as [|n]; [lia|]. simpl. f_equal. apply IH. lia.
Qed.

Lemma firstn_exact_app {A} (l1 l2 : list A) : firstn (length l1) (l1 ++ l2) = l1.
Proof.
  rewrite firstn_app, Nat.sub_diag, firstn_all2 by lia. simpl. apply app_nil_r.
Qed.

Lemma skipn_exact_app {A} (l1 l2 : list A) : skipn (length l1) (l1 ++ l2) = l2.
Proof.
  rewrite skipn_app, Nat.sub_diag, skipn_all2 by lia. reflexivity.
Qed.

Lemma length_zero_nil {A} (l : list A) : length l = 0%nat -> l = [].
Proof. destruct l; simpl; [reflexivity|discriminate]. Qed.

(* ---------- nat division by a variable block size ---------- *)
Lemma div_block_add (B k r : nat) : (0 < B)%nat -> ((k * B + r) / B = k + r / B)%nat.
Proof. intros HB. apply Nat.div_add_l. lia. Qed.

Lemma mul_div_le' (B a : nat) : (0 < B)%nat -> (a / B * B <= a)%nat.
Proof. intros HB. rewrite Nat.mul_comm. apply Nat.mul_div_le. lia. Qed.

Lemma div_mod_split (B a : nat) : (0 < B)%nat -> (a = a / B * B + a mod B)%nat.
Proof. intros HB. rewrite Nat.mul_comm. apply Nat.div_mod. lia. Qed.

(* ---------- block iteration and the abstract absorber, for any block size and compression function ---------- *)
Section Absorb.
  Variable State : Type.
  Variable B : nat.
  Variable compress : State -> list N -> State.
  Hypothesis B_pos : (0 < B)%nat.
  Notation process := (process State B compress).

  (* ---------- the block iteration ---------- *)
  Lemma process_firstn n : forall s d, process n s (firstn (n * B) d) = process n s d.
  Proof.
    induction n as [|n IH]; intros s d; [reflexivity|]. simpl.
    rewrite firstn_firstn, Nat.min_l by lia.
    rewrite skipn_firstn_comm. replace (B + n * B - B)%nat with (n * B)%nat by lia.
    apply IH.
  Qed.

  Lemma process_app n m : forall s d1 d2, length d1 = (n * B)%nat ->
    process (n + m) s (d1 ++ d2) = process m (process n s d1) d2.
  Proof.
    induction n as [|n IH]; intros s d1 d2 Hlen.
    - simpl in Hlen. apply length_zero_nil in Hlen. subst d1. reflexivity.
    - simpl in Hlen. simpl.
      rewrite firstn_app, skipn_app. replace (B - length d1)%nat with 0%nat by lia.
      simpl. rewrite app_nil_r. apply IH. rewrite skipn_length. lia.
  Qed.

  (* ---------- abstract absorber: (chaining value, pending bytes) ---------- *)
  Definition absorb (sp : State * list N) (data : list N) : State * list N :=
    let all := snd sp ++ data in
    let n := (length all / B)%nat in
    (process n (fst sp) all, skipn (n * B) all).

  Lemma absorb_pending_length sp d :
    length (snd (absorb sp d)) = (length (snd sp ++ d) mod B)%nat.
  Proof.
    unfold absorb. simpl. rewrite skipn_length.
    pose proof (div_mod_split B (length (snd sp ++ d)) B_pos). lia.
  Qed.

  Lemma absorb_nil sp : (length (snd sp) < B)%nat -> absorb sp [] = sp.
  Proof.
    intros H. destruct sp as [s p]. unfold absorb. simpl in *. rewrite app_nil_r.
    rewrite Nat.div_small by lia. reflexivity.
  Qed.

  Lemma absorb_absorb sp d1 d2 : absorb (absorb sp d1) d2 = absorb sp (d1 ++ d2).
  Proof.
    destruct sp as [s p]. unfold absorb. simpl.
    set (all1 := p ++ d1).
    set (n1 := (length all1 / B)%nat).
    set (all2 := skipn (n1 * B) all1 ++ d2).
    assert (Hle : (n1 * B <= length all1)%nat) by (apply mul_div_le'; exact B_pos).
    assert (Hall : p ++ d1 ++ d2 = firstn (n1 * B) all1 ++ all2).
    { unfold all2. rewrite app_assoc. rewrite (app_assoc (firstn _ _)). rewrite firstn_skipn. reflexivity. }
    assert (Hf : length (firstn (n1 * B) all1) = (n1 * B)%nat) by (apply firstn_length_le; exact Hle).
    rewrite Hall.
    assert (Hn : (length (firstn (n1 * B) all1 ++ all2) / B = n1 + length all2 / B)%nat).
    { rewrite app_length, Hf. apply div_block_add. exact B_pos. }
    rewrite Hn. f_equal.
    - rewrite process_app by exact Hf. rewrite process_firstn. reflexivity.
    - replace ((n1 + length all2 / B) * B)%nat with (length (firstn (n1 * B) all1) + length all2 / B * B)%nat by lia.
      rewrite <- skipn_skipn'. rewrite skipn_exact_app. reflexivity.
  Qed.

End Absorb.

Section MDProofs.
  Variable State : Type.
  Variable B : nat.
  Variable compress : State -> list N -> State.
  Variable iv : State.
  Variable out : State -> list N.
  Variable L : nat.
  Variable lenfield : Z -> list N.
  Variable padconst : Z.
  Variable sizedesc : Z -> list N.

  Hypothesis B_pos : (0 < B)%nat.
  Hypothesis B_small : Z.of_nat B + Z.of_nat L <= 2 ^ 32.
  Hypothesis padconst_ok : padconst = 2 * Z.of_nat B - Z.of_nat L - 1.
  Hypothesis lenfield_len : forall v, length (lenfield v) = L.
  Hypothesis sizedesc_ok : forall v, 0 <= v < 2 ^ 64 -> sizedesc v = lenfield v.

  Notation process := (process State B compress).
  Notation absorb := (absorb State B compress).
  Notation hasher := (hasher State).
  Notation h_write := (h_write State B compress).
  Notation h_write_tail := (h_write_tail State B compress).
  Notation h_finalize := (h_finalize State B compress out padconst sizedesc).
  Notation h_init := (h_init State iv).
  Notation md_spec := (md_spec State B compress iv out L lenfield).
  Notation md_padded := (md_padded B L lenfield).
  Notation md_pad := (md_pad B L lenfield).
  Notation md_zeros := (md_zeros B L).

  Let BZ_pos : 0 < Z.of_nat B := proj1 (Nat2Z.inj_lt 0 B) B_pos.

  (* ---------- the C++ object refines the absorber ---------- *)
  Definition R (h : hasher) (sp : State * list N) (t : Z) : Prop :=
    h_s h = fst sp /\ length (h_buf h) = B /\ firstn (length (snd sp)) (h_buf h) = snd sp /\
    h_bytes h = t /\ 0 <= t /\ Z.of_nat (length (snd sp)) = t mod Z.of_nat B.

  Lemma R_pending_lt h sp t : R h sp t -> (length (snd sp) < B)%nat.
  Proof.
    intros (_ & _ & _ & _ & _ & Hm). pose proof (Z.mod_pos_bound t (Z.of_nat B) BZ_pos). lia.
  Qed.

  Lemma mod_block_small q r : 0 <= r < Z.of_nat B -> (Z.of_nat B * q + r) mod Z.of_nat B = r.
  Proof.
    intros Hr. rewrite Z.add_comm, Z.mul_comm, Z_mod_plus_full. apply Z.mod_small. exact Hr.
  Qed.

  Lemma memcpy_length buf off src : length buf = B -> (off + length src <= B)%nat ->
    length (memcpy buf off src) = B.
  Proof.
    intros Hb Hle. unfold memcpy. rewrite !app_length, skipn_length, firstn_length_le by lia. lia.
  Qed.

  Lemma memcpy_prefix buf off src p : firstn off buf = p -> length p = off ->
    firstn (off + length src) (memcpy buf off src) = p ++ src.
  Proof.
    intros Hp Hl. unfold memcpy. rewrite Hp, app_assoc.
    replace (off + length src)%nat with (length (p ++ src)) by (rewrite app_length; lia).
    apply firstn_exact_app.
  Qed.

  (* the last two phases of Write, entered either with an empty buffer or with too little data to fill it *)
  Lemma tail_refines h p data t :
    length (h_buf h) = B -> firstn (length p) (h_buf h) = p -> h_bytes h = t -> 0 <= t ->
    Z.of_nat (length p) = t mod Z.of_nat B -> t + Z.of_nat (length data) < 2 ^ 64 ->
    (p = [] \/ (length p + length data < B)%nat) ->
    R (h_write_tail h (length p) data) (absorb (h_s h, p) data) (t + Z.of_nat (length data)).
  Proof.
    intros Hbuf Hpre Hbytes Ht Hmod Hlt Hcase.
    assert (Htq : t = Z.of_nat B * (t / Z.of_nat B) + Z.of_nat (length p)).
    { rewrite Hmod. apply Z.div_mod. lia. }
    destruct Hcase as [Hnil | Hsmall].
    - (* empty buffer: whole blocks straight from the input, the rest into the buffer at offset 0 *)
      subst p. change (Z.of_nat (length (@nil N))) with 0 in *. change (length (@nil N)) with 0%nat in *.
      unfold absorb. cbn [fst snd app].
      set (n := (length data / B)%nat).
      assert (Hle : (n * B <= length data)%nat) by (apply mul_div_le'; exact B_pos).
      pose proof (div_mod_split B (length data) B_pos) as Hsplit. fold n in Hsplit.
      pose proof (Nat.mod_upper_bound (length data) B ltac:(lia)) as Hub.
      unfold h_write_tail.
      assert (Hphase2 :
        (if (B <=? length data)%nat
         then ({| h_s := process (length data / B) (h_s h) data; h_buf := h_buf h;
                  h_bytes := wrapu64 (h_bytes h + Z.of_nat (B * (length data / B))) |},
               skipn (B * (length data / B)) data)
         else (h, data)) =
        ({| h_s := process n (h_s h) data; h_buf := h_buf h; h_bytes := t + Z.of_nat (n * B) |},
         skipn (n * B) data)).
      { destruct (B <=? length data)%nat eqn:E.
        - fold n. rewrite Hbytes. rewrite wrapu64_id by (unfold UINT64_MAX; change (2 ^ 64) with 18446744073709551616 in Hlt; lia).
          rewrite (Nat.mul_comm B n). reflexivity.
        - apply Nat.leb_gt in E. assert (Hn0 : n = 0%nat) by (apply Nat.div_small; exact E).
          rewrite Hn0. simpl. rewrite Z.add_0_r. destruct h; simpl in *; subst; reflexivity. }
      rewrite Hphase2. clear Hphase2.
      set (data2 := skipn (n * B) data).
      assert (Hl2 : length data2 = (length data mod B)%nat).
      { unfold data2. rewrite skipn_length. lia. }
      assert (Hmodfinal : Z.of_nat (length data2) = (t + Z.of_nat (length data)) mod Z.of_nat B).
      { rewrite Htq. symmetry.
        replace (Z.of_nat B * (t / Z.of_nat B) + 0 + Z.of_nat (length data))
          with (Z.of_nat B * (t / Z.of_nat B + Z.of_nat n) + Z.of_nat (length data2)) by lia.
        apply mod_block_small. lia. }
      destruct (0 <? length data2)%nat eqn:E3.
      + unfold R. cbn [h_s h_buf h_bytes fst snd].
        refine (conj _ (conj _ (conj _ (conj _ (conj _ _))))).
        * reflexivity.
        * apply memcpy_length; [exact Hbuf | lia].
        * change (length data2) with (0 + length data2)%nat.
          rewrite (memcpy_prefix (h_buf h) 0 data2 []); reflexivity.
        * rewrite wrapu64_id by (unfold UINT64_MAX; change (2 ^ 64) with 18446744073709551616 in Hlt; lia). lia.
        * lia.
        * exact Hmodfinal.
      + apply Nat.ltb_ge in E3. assert (Hd2 : data2 = []) by (apply length_zero_nil; lia).
        unfold R. cbn [h_s h_buf h_bytes fst snd].
        refine (conj _ (conj _ (conj _ (conj _ (conj _ _))))).
        * reflexivity.
        * exact Hbuf.
        * rewrite Hd2. reflexivity.
        * rewrite Hd2 in Hl2. simpl in Hl2. lia.
        * lia.
        * exact Hmodfinal.
    - (* not enough to fill the buffer: everything is appended to it *)
      unfold absorb. simpl.
      assert (Hn0 : (length (p ++ data) / B = 0)%nat) by (apply Nat.div_small; rewrite app_length; lia).
      rewrite Hn0. simpl.
      unfold h_write_tail.
      assert (E : (B <=? length data)%nat = false) by (apply Nat.leb_gt; lia).
      rewrite E.
      assert (Hmodfinal : Z.of_nat (length (p ++ data)) = (t + Z.of_nat (length data)) mod Z.of_nat B).
      { rewrite app_length. rewrite Htq at 1. symmetry.
        replace (Z.of_nat B * (t / Z.of_nat B) + Z.of_nat (length p) + Z.of_nat (length data))
          with (Z.of_nat B * (t / Z.of_nat B) + Z.of_nat (length p + length data)) by lia.
        apply mod_block_small. lia. }
      destruct (0 <? length data)%nat eqn:E3.
      + unfold R. cbn [h_s h_buf h_bytes fst snd].
        refine (conj _ (conj _ (conj _ (conj _ (conj _ _))))).
        * reflexivity.
        * apply memcpy_length; [exact Hbuf | lia].
        * rewrite app_length. apply memcpy_prefix; [exact Hpre | reflexivity].
        * rewrite Hbytes. rewrite wrapu64_id by (unfold UINT64_MAX; change (2 ^ 64) with 18446744073709551616 in Hlt; lia). reflexivity.
        * lia.
        * exact Hmodfinal.
      + apply Nat.ltb_ge in E3. assert (Hd : data = []) by (apply length_zero_nil; lia).
        subst data. rewrite app_nil_r in *. change (Z.of_nat (length (@nil N))) with 0 in *.
        rewrite Z.add_0_r in *.
        unfold R. cbn [h_s h_buf h_bytes fst snd].
        refine (conj _ (conj _ (conj _ (conj _ (conj _ _))))).
        * reflexivity.
        * exact Hbuf.
        * exact Hpre.
        * exact Hbytes.
        * exact Ht.
        * exact Hmodfinal.
  Qed.

  Lemma write_refines h sp t data :
    R h sp t -> t + Z.of_nat (length data) < 2 ^ 64 ->
    R (h_write h data) (absorb sp data) (t + Z.of_nat (length data)).
  Proof.
    intros HR Hlt. pose proof (R_pending_lt _ _ _ HR) as Hplt.
    destruct sp as [s p]. destruct HR as (Hs & Hbuf & Hpre & Hbytes & Ht & Hmod). simpl in *.
    unfold h_write.
    assert (Hbs : Z.to_nat (h_bytes h mod Z.of_nat B) = length p) by (rewrite Hbytes, <- Hmod; apply Nat2Z.id).
    rewrite Hbs.
    destruct (negb (length p =? 0)%nat && (B <=? length p + length data)%nat) eqn:Ecase.
    - (* the buffer is completed and compressed first *)
      apply andb_prop in Ecase. destruct Ecase as [Enz Efill].
      apply negb_true_iff, Nat.eqb_neq in Enz. apply Nat.leb_le in Efill.
      set (k := (B - length p)%nat).
      set (buf' := memcpy (h_buf h) (length p) (firstn k data)).
      assert (Hkl : length (firstn k data) = k) by (apply firstn_length_le; lia).
      assert (Hbuf' : buf' = p ++ firstn k data).
      { unfold buf', memcpy. rewrite Hpre, Hkl. rewrite skipn_all2 by lia. rewrite app_nil_r. reflexivity. }
      assert (Hbuf'len : length buf' = B) by (rewrite Hbuf', app_length, Hkl; lia).
      assert (Hall : p ++ data = buf' ++ skipn k data).
      { rewrite Hbuf', <- app_assoc, firstn_skipn. reflexivity. }
      set (t' := t + Z.of_nat k).
      assert (Htq : t = Z.of_nat B * (t / Z.of_nat B) + Z.of_nat (length p)).
      { rewrite Hmod. apply Z.div_mod. lia. }
      assert (Hwrap : wrapu64 (h_bytes h + Z.of_nat k) = t').
      { rewrite Hbytes. apply wrapu64_id. unfold UINT64_MAX, t'. change (2 ^ 64) with 18446744073709551616 in Hlt. lia. }
      rewrite Hwrap.
      assert (Hlen' : t' + Z.of_nat (length (skipn k data)) = t + Z.of_nat (length data)).
      { unfold t'. rewrite skipn_length. lia. }
      pose proof (tail_refines {| h_s := compress (h_s h) buf'; h_buf := buf'; h_bytes := t' |}
                               [] (skipn k data) t') as Htail.
      simpl in Htail. rewrite Hlen' in Htail.
      assert (Habs : absorb (s, p) data = absorb (compress (h_s h) buf', []) (skipn k data)).
      { unfold absorb. simpl. rewrite Hall.
        assert (Hn : (length (buf' ++ skipn k data) / B = S (length (skipn k data) / B))%nat).
        { rewrite app_length, Hbuf'len. replace B with (1 * B)%nat at 1 by lia.
          rewrite div_block_add by exact B_pos. reflexivity. }
        rewrite Hn.
        assert (HfB : forall x, firstn B (buf' ++ x) = buf') by (intros x; rewrite <- Hbuf'len; apply firstn_exact_app).
        assert (HsB : forall x, skipn B (buf' ++ x) = x) by (intros x; rewrite <- Hbuf'len; apply skipn_exact_app).
        cbn [CryptoMD.process]. rewrite HfB, HsB, Hs. f_equal.
        replace (S (length (skipn k data) / B) * B)%nat with (B + length (skipn k data) / B * B)%nat by lia.
        rewrite <- skipn_skipn'. rewrite HsB. reflexivity. }
      rewrite Habs. apply Htail; try reflexivity; try lia.
      + unfold t'. rewrite Htq. symmetry.
        replace (Z.of_nat B * (t / Z.of_nat B) + Z.of_nat (length p) + Z.of_nat k)
          with (Z.of_nat B * (t / Z.of_nat B + 1) + 0) by lia.
        apply mod_block_small. lia.
      + left. reflexivity.
    - (* empty buffer, or not enough data to fill it *)
      rewrite <- Hs.
      apply tail_refines; try assumption.
      apply andb_false_iff in Ecase. destruct Ecase as [E | E].
      + left. apply negb_false_iff, Nat.eqb_eq in E. apply length_zero_nil. exact E.
      + right. apply Nat.leb_gt in E. exact E.
  Qed.

  Lemma fold_write_refines chunks : forall h sp t,
    R h sp t -> t + Z.of_nat (length (concat chunks)) < 2 ^ 64 ->
    R (fold_left h_write chunks h) (absorb sp (concat chunks)) (t + Z.of_nat (length (concat chunks))).
  Proof.
    induction chunks as [|c cs IH]; intros h sp t HR Hlt.
    - simpl. rewrite Z.add_0_r. rewrite (absorb_nil State B compress B_pos) by (eapply R_pending_lt; exact HR). exact HR.
    - simpl in *. rewrite app_length in *. rewrite <- (absorb_absorb State B compress B_pos).
      replace (t + Z.of_nat (length c + length (concat cs))) with (t + Z.of_nat (length c) + Z.of_nat (length (concat cs))) by lia.
      apply IH; [apply write_refines; [exact HR | lia] | lia].
  Qed.

  Lemma init_refines ubuf : length ubuf = B -> R (h_init ubuf) (iv, []) 0.
  Proof.
    intros Hl. unfold R, h_init. cbn [h_s h_buf h_bytes fst snd length firstn].
    refine (conj _ (conj _ (conj _ (conj _ (conj _ _))))); try reflexivity; try lia; try assumption.
  Qed.

  (* ---------- padding ---------- *)
  Lemma padlen_eq t : (padconst - t mod Z.of_nat B) mod Z.of_nat B = (- (t + 1 + Z.of_nat L)) mod Z.of_nat B.
  Proof.
    rewrite Zminus_mod_idemp_r. rewrite padconst_ok.
    replace (2 * Z.of_nat B - Z.of_nat L - 1 - t) with (- (t + 1 + Z.of_nat L) + 2 * Z.of_nat B) by lia.
    apply Z_mod_plus_full.
  Qed.

  (* what Finalize takes from the static array `pad` is the 0x80 byte and the zero bytes of the standard *)
  Lemma finalize_pad_bytes t : 0 <= t ->
    firstn (Z.to_nat (1 + (padconst - t mod Z.of_nat B) mod Z.of_nat B)) (pad_array B) =
    128%N :: zeros (Z.to_nat ((- (t + 1 + Z.of_nat L)) mod Z.of_nat B)).
  Proof.
    intros Ht. rewrite padlen_eq.
    pose proof (Z.mod_pos_bound (- (t + 1 + Z.of_nat L)) (Z.of_nat B) BZ_pos) as Hb.
    set (z := (- (t + 1 + Z.of_nat L)) mod Z.of_nat B) in *.
    replace (Z.to_nat (1 + z)) with (S (Z.to_nat z)) by lia.
    unfold pad_array, zeros. simpl. f_equal. apply firstn_repeat'. lia.
  Qed.

  (* ---------- Finalize ---------- *)
  Lemma finalize_refines h msg :
    R h (absorb (iv, []) msg) (Z.of_nat (length msg)) -> 8 * Z.of_nat (length msg) < 2 ^ 64 ->
    h_finalize h = md_spec msg.
  Proof.
    intros HR Hlt. set (t := Z.of_nat (length msg)) in *.
    assert (Hbytes : h_bytes h = t) by (destruct HR as (_ & _ & _ & Hb & _); exact Hb).
    change (2 ^ 64) with 18446744073709551616 in Hlt.
    change (2 ^ 32) with 4294967296 in B_small.
    unfold CryptoMD.h_finalize. rewrite Hbytes.
    rewrite finalize_pad_bytes by lia.
    assert (Hsd : sizedesc (wrapu64 (Z.shiftl t 3)) = lenfield (8 * t)).
    { rewrite Z.shiftl_mul_pow2 by lia. change (2 ^ 3) with 8. rewrite (Z.mul_comm t 8).
      rewrite wrapu64_id by (unfold UINT64_MAX; lia).
      apply sizedesc_ok. change (2 ^ 64) with 18446744073709551616. lia. }
    rewrite Hsd.
    set (padb := 128%N :: zeros (Z.to_nat ((- (t + 1 + Z.of_nat L)) mod Z.of_nat B))).
    pose proof (Z.mod_pos_bound (- (t + 1 + Z.of_nat L)) (Z.of_nat B) BZ_pos) as Hb.
    assert (Hpl : Z.of_nat (length padb) <= Z.of_nat B).
    { unfold padb, zeros. simpl length. rewrite repeat_length. lia. }
    pose proof (write_refines h _ t padb HR ltac:(change (2 ^ 64) with 18446744073709551616; lia)) as H1.
    pose proof (write_refines _ _ _ (lenfield (8 * t)) H1
                  ltac:(rewrite lenfield_len; change (2 ^ 64) with 18446744073709551616; lia)) as H2.
    destruct H2 as (Hs2 & _). rewrite Hs2.
    rewrite !(absorb_absorb State B compress B_pos). unfold CryptoMD.md_spec, absorb. simpl.
    unfold CryptoMD.md_padded, CryptoMD.md_pad, CryptoMD.md_zeros. fold t. reflexivity.
  Qed.

  (* ---------- main theorem: any fragmentation = one shot ---------- *)
  Theorem md_stream_eq_spec ubuf chunks :
    length ubuf = B -> 8 * Z.of_nat (length (concat chunks)) < 2 ^ 64 ->
    h_stream State B compress iv out padconst sizedesc ubuf chunks = md_spec (concat chunks).
  Proof.
    intros Hu Hlt. unfold h_stream.
    apply finalize_refines; [|exact Hlt].
    pose proof (fold_write_refines chunks (h_init ubuf) (iv, []) 0 (init_refines ubuf Hu)) as H.
    simpl in H. apply H. change (2 ^ 64) with 18446744073709551616 in *. lia.
  Qed.
End MDProofs.

(* ---------- the padding of the standard ---------- *)
Section MDPadding.
  Variable B L : nat.
  Variable lenfield : Z -> list N.
  Hypothesis B_pos : (0 < B)%nat.
  Hypothesis lenfield_len : forall v, length (lenfield v) = L.
  Notation md_padded := (md_padded B L lenfield).
  Notation md_zeros := (md_zeros B L).
  Let BZ_pos : 0 < Z.of_nat B := proj1 (Nat2Z.inj_lt 0 B) B_pos.

  (* padded length is a multiple of the block size (FIPS 180-4 5.1) *)
  Lemma md_padded_length msg : (length (md_padded msg) mod B = 0)%nat.
  Proof.
    unfold CryptoMD.md_padded, CryptoMD.md_pad, CryptoMD.md_zeros, zeros.
    rewrite app_length. simpl. rewrite app_length, repeat_length, lenfield_len.
    apply Nat2Z.inj. rewrite Nat2Z.inj_mod.
    pose proof (Z.mod_pos_bound (- (Z.of_nat (length msg) + 1 + Z.of_nat L)) (Z.of_nat B) BZ_pos) as Hb.
    set (x := Z.of_nat (length msg) + 1 + Z.of_nat L) in *.
    replace (Z.of_nat (length msg + S (Z.to_nat (- x mod Z.of_nat B) + L))) with (x + (- x) mod Z.of_nat B) by lia.
    rewrite Zplus_mod_idemp_r. replace (x + - x) with 0 by lia. simpl. apply Z.mod_0_l. lia.
  Qed.

  (* ... and the number of zero bytes is the least possible *)
  Lemma md_zeros_least len k : ((len + 1 + k + L) mod B = 0)%nat -> (md_zeros len <= k)%nat.
  Proof.
    intros Hk. unfold CryptoMD.md_zeros.
    set (x := Z.of_nat len + 1 + Z.of_nat L).
    pose proof (Z.mod_pos_bound (- x) (Z.of_nat B) BZ_pos) as Hb.
    assert (Hkz : (x + Z.of_nat k) mod Z.of_nat B = 0).
    { unfold x. replace (Z.of_nat len + 1 + Z.of_nat L + Z.of_nat k) with (Z.of_nat (len + 1 + k + L)) by lia.
      rewrite <- Nat2Z.inj_mod, Hk. reflexivity. }
    (* k = -x (mod B), and 0 <= k: so k >= (-x) mod B *)
    assert (Hkm : Z.of_nat k mod Z.of_nat B = (- x) mod Z.of_nat B).
    { replace (Z.of_nat k) with ((x + Z.of_nat k) + - x) by lia.
      rewrite <- Zplus_mod_idemp_l, Hkz. simpl. reflexivity. }
    pose proof (Z.mod_le (Z.of_nat k) (Z.of_nat B) ltac:(lia) BZ_pos) as Hle.
    rewrite Hkm in Hle. lia.
  Qed.

End MDPadding.

Lemma md_padding_standard : forall (B L : nat) (lenfield : Z -> list N),
  (0 < B)%nat -> (forall v, length (lenfield v) = L) ->
  forall msg,
    (length (md_padded B L lenfield msg) mod B = 0)%nat /\
    md_padded B L lenfield msg = msg ++ [128%N] ++ zeros (md_zeros B L (length msg)) ++ lenfield (8 * Z.of_nat (length msg)) /\
    (forall k, ((length msg + 1 + k + L) mod B = 0)%nat -> (md_zeros B L (length msg) <= k)%nat).
Proof.
  intros B L lenfield HB Hl msg. split; [|split].
  - apply md_padded_length; assumption.
  - reflexivity.
  - intros k. apply (md_zeros_least B L lenfield HB Hl).
Qed.
