(* C16: the batches BatchWrite builds, and what a prefix of them leaves in the database. *)
From Coq Require Import List NArith Bool Arith Lia.
From BV Require Import model.CrashReplay proofs.CrashReplayBasics proofs.CrashReplayLedger.
Import ListNotations.

Definition eop (ec : dirty_entry * bool) : op := entry_op (fst ec).

Lemma bw_loop_concat : forall es cur fin, concat (bw_loop es cur fin) = cur ++ map eop es ++ fin.
Proof.
  induction es as [|[e cut] r IH]; intros cur fin; simpl.
  - rewrite app_nil_r. reflexivity.
  - destruct cut; simpl; rewrite IH; unfold eop at 2; simpl; rewrite <- !app_assoc; reflexivity.
Qed.

Lemma bw_loop_length : forall es cur fin, 1 <= length (bw_loop es cur fin).
Proof.
  induction es as [|[e cut] r IH]; intros cur fin; simpl; auto.
  destruct cut; simpl; auto; lia.
Qed.

(* a proper, non-empty prefix of the batches = the header and a prefix of the entry writes *)
Lemma bw_loop_prefix : forall es cur fin k,
  0 < k -> k < length (bw_loop es cur fin) ->
  exists j, concat (firstn k (bw_loop es cur fin)) = cur ++ map eop (firstn j es).
Proof.
  induction es as [|[e cut] r IH]; intros cur fin k Hk Hlt; simpl in *.
  - lia.
  - destruct cut; simpl in *.
    + destruct k as [|k']; [lia|]. simpl. destruct k' as [|k''].
      * exists 1. simpl. rewrite app_nil_r. destruct r; reflexivity.
      * destruct (IH [] fin (S k'')) as [j Hj]; try lia.
        exists (S j). rewrite Hj. simpl. unfold eop at 2. simpl. rewrite <- app_assoc. reflexivity.
    + destruct (IH (cur ++ [entry_op e]) fin k Hk Hlt) as [j Hj].
      exists (S j). rewrite Hj. simpl. unfold eop at 2. simpl. rewrite <- app_assoc. reflexivity.
Qed.

(* ---------- entry writes ---------- *)
Definition entries_target (T : outpoint -> option coin) (es : list dirty_entry) : Prop :=
  forall e, In e es -> snd e = T (fst e).

Lemma ops_last_entries_marker : forall (es : list (dirty_entry * bool)) k,
  (k = KBest \/ k = KHead) -> ops_last (map eop es) k = None.
Proof.
  induction es as [|[[o v] c] r IH]; intros k Hk; simpl; auto.
  rewrite IH by auto. unfold eop, entry_op. simpl.
  destruct v; simpl; destruct Hk; subst; reflexivity.
Qed.

Lemma ops_last_entries_coin : forall T (es : list (dirty_entry * bool)) o,
  entries_target T (map fst es) ->
  ops_last (map eop es) (KCoin o) =
  if existsb (op_eqb o) (map fst (map fst es)) then Some (option_map VCoin (T o)) else None.
Proof.
  intros T. induction es as [|[[o' v] c] r IH]; intros o HT; simpl; auto.
  rewrite IH.
  2:{ intros e He. apply HT. simpl. auto. }
  destruct (existsb (op_eqb o) (map fst (map fst r))).
  - rewrite orb_true_r. reflexivity.
  - rewrite orb_false_r. unfold eop, entry_op. simpl.
    assert (Ev : v = T o') by (apply (HT (o', v)); simpl; auto).
    destruct v; simpl; rewrite (op_eqb_sym o o'); destruct (op_eqb_spec o' o) as [E|E]; auto; subst; rewrite <- Ev; reflexivity.
Qed.

Lemma db_coin_of_get : forall m o T, db_get m (KCoin o) = option_map VCoin T -> db_coin m o = T.
Proof. intros m o T H. unfold db_coin. rewrite H. destruct T; reflexivity. Qed.

(* the database after the header and some entry writes *)
Lemma after_header_entries : forall T m new old (es : list (dirty_entry * bool)),
  entries_target T (map fst es) ->
  let m' := apply_ops (bw_header new old ++ map eop es) m in
  db_get m' KBest = None /\
  db_get m' KHead = Some (VHeads [new; old]) /\
  (forall o, db_coin m' o = if existsb (op_eqb o) (map fst (map fst es)) then T o else db_coin m o).
Proof.
  intros T m new old es HT m'. subst m'. split; [|split].
  - rewrite apply_ops_get, ops_last_app, ops_last_entries_marker by auto. reflexivity.
  - rewrite apply_ops_get, ops_last_app, ops_last_entries_marker by auto. reflexivity.
  - intro o. destruct (existsb (op_eqb o) (map fst (map fst es))) eqn:E.
    + apply db_coin_of_get. rewrite apply_ops_get, ops_last_app, (ops_last_entries_coin T) by auto.
      rewrite E. reflexivity.
    + unfold db_coin at 1. rewrite apply_ops_get, ops_last_app, (ops_last_entries_coin T) by auto.
      rewrite E. simpl. reflexivity.
Qed.

(* the database after all batches *)
Lemma after_all_batches : forall T m new old (es : list (dirty_entry * bool)),
  entries_target T (map fst es) ->
  let m' := apply_batches (bw_loop es (bw_header new old) (bw_footer new)) m in
  db_get m' KBest = Some (VBlock new) /\
  db_get m' KHead = None /\
  (forall o, db_coin m' o = if existsb (op_eqb o) (map fst (map fst es)) then T o else db_coin m o).
Proof.
  intros T m new old es HT m'. subst m'. rewrite apply_batches_concat, bw_loop_concat.
  rewrite app_assoc. rewrite apply_ops_app.
  destruct (after_header_entries T m new old es HT) as [_ [_ HC]].
  set (m1 := apply_ops (bw_header new old ++ map eop es) m) in *.
  split; [|split].
  - rewrite apply_ops_get. reflexivity.
  - rewrite apply_ops_get. reflexivity.
  - intro o. rewrite <- HC. unfold db_coin. rewrite apply_ops_get. reflexivity.
Qed.

Lemma firstn_in : forall (A : Type) (l : list A) n x, In x (firstn n l) -> In x l.
Proof.
  induction l as [|y r IH]; intros [|n] x H; simpl in *; try tauto.
  destruct H as [H|H]; auto. right. eapply IH; eauto.
Qed.

Lemma firstn_target : forall T (es : list (dirty_entry * bool)) j,
  entries_target T (map fst es) -> entries_target T (map fst (firstn j es)).
Proof.
  intros T es j HT e He. apply HT. apply in_map_iff in He. destruct He as [x [Ex Hx]].
  apply in_map_iff. exists x. split; auto. eapply firstn_in; eauto.
Qed.

(* crash after k batches, 0 < k < number of batches: marker present, best block erased, every coin
   has its old or its target value *)
Lemma crash_mid_state : forall T m new old (es : list (dirty_entry * bool)) k,
  entries_target T (map fst es) ->
  0 < k -> k < length (bw_loop es (bw_header new old) (bw_footer new)) ->
  let m' := crash_after k (bw_loop es (bw_header new old) (bw_footer new)) m in
  db_get m' KBest = None /\
  db_get m' KHead = Some (VHeads [new; old]) /\
  (forall o, db_coin m' o = db_coin m o \/ db_coin m' o = T o).
Proof.
  intros T m new old es k HT Hk Hlt m'. subst m'. unfold crash_after.
  rewrite apply_batches_concat.
  destruct (bw_loop_prefix es _ _ k Hk Hlt) as [j Hj]. rewrite Hj.
  destruct (after_header_entries T m new old (firstn j es) (firstn_target T es j HT)) as [A [B C]].
  split; [|split]; auto.
  intro o. rewrite C. destruct (existsb (op_eqb o) (map fst (map fst (firstn j es)))); auto.
Qed.

Lemma crash_zero : forall bs m, crash_after 0 bs m = m.
Proof. reflexivity. Qed.
Lemma crash_all : forall bs m, crash_after (length bs) bs m = apply_batches bs m.
Proof. intros. unfold crash_after. rewrite firstn_all. reflexivity. Qed.

(* several flushes in a row: a durable prefix of the concatenated batch sequences is a prefix of the
   first flush, or the whole first flush followed by a prefix of the rest *)
Lemma crash_after_app : forall bs1 bs2 m k,
  crash_after k (bs1 ++ bs2) m =
  if Nat.leb k (length bs1) then crash_after k bs1 m
  else crash_after (k - length bs1) bs2 (apply_batches bs1 m).
Proof.
  intros bs1 bs2 m k. unfold crash_after. rewrite firstn_app.
  destruct (Nat.leb_spec k (length bs1)) as [H|H].
  - replace (k - length bs1) with 0 by lia. simpl. rewrite app_nil_r. reflexivity.
  - rewrite (firstn_all2 bs1) by lia. unfold apply_batches. rewrite fold_left_app. reflexivity.
Qed.
