(* C50 — public key parsing / serialisation, x-only keys (model/EC.v). *)
From Coq Require Import NArith ZArith Lia Znumtheory.
From BV Require Import lib.Ints gen.Params_gen model.EC proofs.ECLemmas.
Local Open Scope Z_scope.

(* ---------------------------------------------------------------------------------------------- *)
(* public key parsing / serialisation *)
Lemma fsqr_range : forall a, 0 <= fsqr a < secp_p.
Proof. intros. rewrite fsqr_spec. apply Z.mod_pos_bound. destruct secp_p_bounds as ([? ?] & _). lia. Qed.

Lemma fe_limit_be_bytes : forall x, 0 <= x < secp_p -> fe_set_b32_limit (be_bytes_z 32 x) = Some x.
Proof.
  intros x Hx. destruct secp_p_bounds as ([Hp1 Hp2] & _).
  rewrite fe_set_b32_limit_spec by (auto using be_bytes_z_ok, be_bytes_z_length).
  rewrite be_val_be_bytes by (change (256 ^ Z.of_nat 32) with (2 ^ 256); lia).
  destruct (Z.ltb_spec x secp_p); [reflexivity|lia].
Qed.

Lemma firstn_skipn_app_len : forall (a b : list N) n, length a = n -> firstn n (a ++ b) = a /\ skipn n (a ++ b) = b.
Proof.
  intros a b n <-. split.
  - rewrite firstn_app, Nat.sub_diag, firstn_O, app_nil_r, firstn_all. reflexivity.
  - rewrite skipn_app, Nat.sub_diag, skipn_all. reflexivity.
Qed.

Theorem parse_serialize_uncompressed : forall x y, 0 <= x < secp_p -> 0 <= y < secp_p -> on_curve x y = true ->
  ec_pubkey_parse (ec_pubkey_serialize false (x, y)) = Some (x, y).
Proof.
  intros x y Hx Hy Hc. unfold ec_pubkey_serialize, ec_pubkey_parse.
  assert (L : length (4%N :: be_bytes_z 32 x ++ be_bytes_z 32 y) = 65%nat)
    by (cbn [length]; rewrite app_length, !be_bytes_z_length; reflexivity).
  rewrite L. cbn [Nat.eqb N.eqb Pos.eqb andb orb].
  destruct (firstn_skipn_app_len (be_bytes_z 32 x) (be_bytes_z 32 y) 32 (be_bytes_z_length 32 x)) as [-> ->].
  rewrite !fe_limit_be_bytes by assumption. rewrite Hc. reflexivity.
Qed.

(* x >= p is rejected whatever the tag *)
Theorem parse_rejects_large_x : forall tag xb, bytes_ok xb -> length xb = 32%nat -> secp_p <= be_val xb ->
  ec_pubkey_parse (tag :: xb) = None.
Proof.
  intros tag xb Hb Hl Hx. unfold ec_pubkey_parse. cbn [length]. rewrite Hl.
  change (33 =? 33)%nat with true. change (33 =? 65)%nat with false. cbn [andb].
  rewrite fe_set_b32_limit_spec by assumption.
  destruct (Z.ltb_spec (be_val xb) secp_p); [lia|].
  destruct ((tag =? 2)%N || (tag =? 3)%N); reflexivity.
Qed.

Lemma fsqrt_spec : forall a, 0 <= fst (fsqrt a) < secp_p /\ snd (fsqrt a) = (fsqr (fst (fsqrt a)) =? a).
Proof. intros a. unfold fsqrt. cbn [fst snd]. split; [unfold fsqrt_chain; apply fsqr_range|reflexivity]. Qed.

Lemma ge_set_xo_sound : forall x odd P, 0 <= x < secp_p -> ge_set_xo x odd = Some P ->
  exists y, P = (x, y) /\ 0 <= y < secp_p /\ on_curve x y = true /\ (y = 0 \/ Z.odd y = odd).
Proof.
  intros x odd P Hx H. unfold ge_set_xo in H. destruct secp_p_bounds as ([Hp1 Hp2] & Hp4 & _).
  set (a := curve_rhs x) in *.
  destruct (fsqrt_spec a) as [Hr Hok].
  destruct (fsqrt a) as [r ok]. cbn [fst snd] in Hr, Hok. subst ok.
  destruct (Z.eqb_spec (fsqr r) a) as [E|]; [|discriminate].
  assert (Hodd : Z.odd secp_p = true) by (vm_compute; reflexivity).
  destruct (Bool.eqb (Z.odd r) odd) eqn:Epar.
  - exists r. assert (EP : P = (x, r)) by congruence. repeat split; try lia; auto.
    + unfold on_curve. fold a. apply Z.eqb_eq. assumption.
    + right. apply Bool.eqb_prop. assumption.
  - exists (fneg r). assert (EP : P = (x, fneg r)) by congruence.
    destruct (fneg_spec r Hr) as [En Hn]. repeat split; try lia; auto.
    + unfold on_curve. fold a. apply Z.eqb_eq. rewrite <- E. rewrite !fsqr_spec, En.
      rewrite <- Z.mul_mod by lia. f_equal. ring.
    + unfold fneg. destruct (Z.eqb_spec r 0) as [->|Hnz].
      * left. reflexivity.
      * right. rewrite Z.odd_sub, Hodd. clear -Epar. destruct (Z.odd r), odd; cbn in Epar |- *; try reflexivity; discriminate.
Qed.
