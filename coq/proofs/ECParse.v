(* C50 — public key parsing / serialisation, x-only keys (model/EC.v). *)
From Coq Require Import NArith ZArith Lia Znumtheory.
From BV Require Import lib.Ints gen.Params_gen model.EC proofs.ECLemmas.
Local Open Scope Z_scope.

(* ---------------------------------------------------------------------------------------------- *)
(* public key parsing / serialisation *)
Lemma fsqr_range : forall a, 0 <= fsqr a < secp_p.
Proof. intros. rewrite fsqr_spec. apply Z.mod_pos_bound. destruct secp_p_bounds as ([? ?] & _). lia. Qed.

Lemma fe_limit_be_bytes : forall x, 0 <= x < secp_p -> fe_set_b32_limit (be_bytes_z 32 x) = Some x.
Proof.
  intros x Hx. destruct secp_p_bounds as ([Hp1 Hp2] & _).
  rewrite fe_set_b32_limit_spec by (auto using be_bytes_z_ok, be_bytes_z_length).
  rewrite be_val_be_bytes by (change (256 ^ Z.of_nat 32) with (2 ^ 256); lia).
  destruct (Z.ltb_spec x secp_p); [reflexivity|lia].
Qed.

Lemma firstn_skipn_app_len : forall (a b : list N) n, length a = n -> firstn n (a ++ b) = a /\ skipn n (a ++ b) = b.
Proof.
  intros a b n <-. split.
  - rewrite firstn_app, Nat.sub_diag, firstn_O, app_nil_r, firstn_all. reflexivity.
  - rewrite skipn_app, Nat.sub_diag, skipn_all. reflexivity.
Qed.

Theorem parse_serialize_uncompressed : forall x y, 0 <= x < secp_p -> 0 <= y < secp_p -> on_curve x y = true ->
  ec_pubkey_parse (ec_pubkey_serialize false (x, y)) = Some (x, y).
Proof.
  intros x y Hx Hy Hc. unfold ec_pubkey_serialize, ec_pubkey_parse.
  assert (L : length (4%N :: be_bytes_z 32 x ++ be_bytes_z 32 y) = 65%nat)
    by (cbn [length]; rewrite app_length, !be_bytes_z_length; reflexivity).
  rewrite L. cbn [Nat.eqb N.eqb Pos.eqb andb orb].
  destruct (firstn_skipn_app_len (be_bytes_z 32 x) (be_bytes_z 32 y) 32 (be_bytes_z_length 32 x)) as [-> ->].
  rewrite !fe_limit_be_bytes by assumption. rewrite Hc. reflexivity.
Qed.

(* x >= p is rejected whatever the tag *)
Theorem parse_rejects_large_x : forall tag xb, bytes_ok xb -> length xb = 32%nat -> secp_p <= be_val xb ->
  ec_pubkey_parse (tag :: xb) = None.
Proof.
  intros tag xb Hb Hl Hx. unfold ec_pubkey_parse. cbn [length]. rewrite Hl.
  change (33 =? 33)%nat with true. change (33 =? 65)%nat with false. cbn [andb].
  rewrite fe_set_b32_limit_spec by assumption.
  destruct (Z.ltb_spec (be_val xb) secp_p); [lia|].
  destruct ((tag =? 2)%N || (tag =? 3)%N); reflexivity.
Qed.

Lemma fsqrt_spec : forall a, 0 <= fst (fsqrt a) < secp_p /\ snd (fsqrt a) = (fsqr (fst (fsqrt a)) =? a).
Proof. intros a. unfold fsqrt. cbn [fst snd]. split; [unfold fsqrt_chain; apply fsqr_range|reflexivity]. Qed.

Lemma xo_core : forall a r odd, 0 <= r < secp_p -> fsqr r = a ->
  let y := if Bool.eqb (Z.odd r) odd then r else fneg r in
  0 <= y < secp_p /\ fsqr y = a /\ (y = 0 \/ Z.odd y = odd).
Proof.
  intros a r odd Hr E y. subst y. destruct secp_p_bounds as ([Hp1 Hp2] & _).
  assert (Hodd : Z.odd secp_p = true) by (vm_compute; reflexivity).
  destruct (Bool.eqb (Z.odd r) odd) eqn:Epar.
  - repeat split; try lia; auto. right. apply Bool.eqb_prop. assumption.
  - destruct (fneg_spec r Hr) as [En Hn]. repeat split; try lia.
    + rewrite <- E. rewrite !fsqr_spec, En. rewrite <- Z.mul_mod by lia. f_equal. ring.
    + unfold fneg. destruct (Z.eqb_spec r 0) as [->|Hnz].
      * left. reflexivity.
      * right. rewrite Z.odd_sub, Hodd. clear -Epar. destruct (Z.odd r), odd; cbn in Epar |- *; try reflexivity; discriminate.
Qed.

Lemma ge_set_xo_with_sound : forall sqrtf,
  (forall a, 0 <= fst (sqrtf a) < secp_p /\ snd (sqrtf a) = (fsqr (fst (sqrtf a)) =? a)) ->
  forall x odd P, ge_set_xo_with sqrtf x odd = Some P ->
  exists y, P = (x, y) /\ 0 <= y < secp_p /\ on_curve x y = true /\ (y = 0 \/ Z.odd y = odd).
Proof.
  intros sqrtf Hs x odd P H. unfold ge_set_xo_with in H.
  destruct (Hs (curve_rhs x)) as [Hr Hok].
  destruct (sqrtf (curve_rhs x)) as [r ok]. cbn [fst snd] in Hr, Hok.
  destruct ok; [|discriminate]. symmetry in Hok. apply Z.eqb_eq in Hok.
  destruct (xo_core (curve_rhs x) r odd Hr Hok) as (Hy & Ey & Hpar).
  exists (if Bool.eqb (Z.odd r) odd then r else fneg r).
  repeat split; try tauto; try congruence.
  unfold on_curve. apply Z.eqb_eq. exact Ey.
Qed.

Lemma ge_set_xo_sound : forall x odd P, ge_set_xo x odd = Some P ->
  exists y, P = (x, y) /\ 0 <= y < secp_p /\ on_curve x y = true /\ (y = 0 \/ Z.odd y = odd).
Proof. exact (ge_set_xo_with_sound fsqrt fsqrt_spec). Qed.

(* a value without square root is rejected (no number theory needed: the candidate root is checked) *)
Theorem ge_set_xo_rejects_non_residue : forall x odd,
  (forall y, 0 <= y < secp_p -> fsqr y <> curve_rhs x) -> ge_set_xo x odd = None.
Proof.
  intros x odd Hn. destruct (ge_set_xo x odd) as [P|] eqn:E; [|reflexivity].
  apply ge_set_xo_sound in E. destruct E as (y & _ & Hy & Hc & _).
  unfold on_curve in Hc. apply Z.eqb_eq in Hc. exfalso. exact (Hn y Hy Hc).
Qed.

Definition tag_ok (tag : N) (y : Z) : Prop :=
  match tag with
  | 2%N => y = 0 \/ Z.odd y = false
  | 3%N => y = 0 \/ Z.odd y = true
  | 4%N => True
  | 6%N => Z.odd y = false
  | 7%N => Z.odd y = true
  | _ => False
  end.

(* whatever secp256k1_ec_pubkey_parse accepts is a point of the curve with reduced coordinates, and the
   tag byte agrees with the parity of y *)
Theorem ec_pubkey_parse_sound : forall tag rest x y, bytes_ok rest ->
  ec_pubkey_parse (tag :: rest) = Some (x, y) ->
  0 <= x < secp_p /\ 0 <= y < secp_p /\ on_curve x y = true /\ tag_ok tag y /\
  ((length rest = 32%nat /\ x = be_val rest) \/ (length rest = 64%nat /\ x = be_val (firstn 32 rest) /\ y = be_val (skipn 32 rest))).
Proof.
  intros tag rest x y Hb H. unfold ec_pubkey_parse in H. cbn [length] in H.
  destruct (Nat.eqb_spec (S (length rest)) 33) as [L33|_].
  - assert (L : length rest = 32%nat) by lia.
    destruct ((tag =? 2)%N || (tag =? 3)%N) eqn:Etag.
    + cbn [andb] in H. rewrite fe_set_b32_limit_spec in H by assumption.
      destruct (Z.ltb_spec (be_val rest) secp_p) as [Hx|]; [|discriminate].
      apply ge_set_xo_sound in H. destruct H as (y' & EP & Hy & Hc & Hpar). injection EP as Ex Ey. subst x y.
      pose proof (be_val_bound rest Hb) as [Hv _].
      split; [lia|]. split; [lia|]. split; [exact Hc|]. split; [|left; split; [assumption|reflexivity]].
      apply Bool.orb_true_iff in Etag. destruct Etag as [E|E]; apply N.eqb_eq in E; subst tag; cbn [tag_ok]; change (2 =? 3)%N with false in Hpar; change (3 =? 3)%N with true in Hpar; exact Hpar.
    + cbn [andb] in H. replace (S (length rest) =? 65)%nat with false in H by (symmetry; apply Nat.eqb_neq; lia).
      discriminate.
  - cbn [andb] in H. destruct (Nat.eqb_spec (S (length rest)) 65) as [L65|_]; [|discriminate].
    assert (L : length rest = 64%nat) by lia.
    destruct ((tag =? 4)%N || (tag =? 6)%N || (tag =? 7)%N) eqn:Etag; [|discriminate]. cbn [andb] in H.
    assert (Hb12 : bytes_ok (firstn 32 rest) /\ bytes_ok (skipn 32 rest)).
    { unfold bytes_ok in *. apply Forall_app. rewrite firstn_skipn. exact Hb. }
    destruct Hb12 as [Hb1 Hb2].
    assert (L1 : length (firstn 32 rest) = 32%nat) by (rewrite firstn_length; lia).
    assert (L2 : length (skipn 32 rest) = 32%nat) by (rewrite skipn_length; lia).
    rewrite !fe_set_b32_limit_spec in H by assumption.
    destruct (Z.ltb_spec (be_val (firstn 32 rest)) secp_p) as [Hx|]; [|discriminate].
    destruct (Z.ltb_spec (be_val (skipn 32 rest)) secp_p) as [Hy|]; [|discriminate].
    pose proof (be_val_bound _ Hb1) as [Hv1 _]. pose proof (be_val_bound _ Hb2) as [Hv2 _].
    destruct (((tag =? 6)%N || (tag =? 7)%N) && negb (Bool.eqb (Z.odd (be_val (skipn 32 rest))) (tag =? 7)%N)) eqn:Ehy; [discriminate|].
    destruct (on_curve _ _) eqn:Hc; [|discriminate]. injection H as Ex Ey. subst x y.
    split; [lia|]. split; [lia|]. split; [exact Hc|]. split; [|right; repeat split; assumption].
    apply Bool.orb_true_iff in Etag. destruct Etag as [Etag|E7].
    + apply Bool.orb_true_iff in Etag. destruct Etag as [E4|E6].
      * apply N.eqb_eq in E4. subst tag. exact I.
      * apply N.eqb_eq in E6. subst tag. simpl in Ehy |- *. destruct (Z.odd _); [discriminate|reflexivity].
    + apply N.eqb_eq in E7. subst tag. simpl in Ehy |- *. destruct (Z.odd _); [reflexivity|discriminate].
Qed.
