(* C50 — public key parsing / serialisation, x-only keys (model/EC.v). *)
From Coq Require Import NArith ZArith Lia Znumtheory.
From BV Require Import lib.Ints gen.Params_gen model.EC proofs.ECLemmas.
Local Open Scope Z_scope.

(* ---------------------------------------------------------------------------------------------- *)
(* public key parsing / serialisation *)
Lemma fsqr_range : forall a, 0 <= fsqr a < secp_p.
Proof. intros. rewrite fsqr_spec. apply Z.mod_pos_bound. destruct secp_p_bounds as ([? ?] & _). lia. Qed.

Lemma fe_limit_be_bytes : forall x, 0 <= x < secp_p -> fe_set_b32_limit (be_bytes_z 32 x) = Some x.
Proof.
  intros x Hx. destruct secp_p_bounds as ([Hp1 Hp2] & _).
  rewrite fe_set_b32_limit_spec by (auto using be_bytes_z_ok, be_bytes_z_length).
  rewrite be_val_be_bytes by (change (256 ^ Z.of_nat 32) with (2 ^ 256); lia).
  destruct (Z.ltb_spec x secp_p); [reflexivity|lia].
Qed.

Lemma firstn_skipn_app_len : forall (a b : list N) n, length a = n -> firstn n (a ++ b) = a /\ skipn n (a ++ b) = b.
Proof.
  intros a b n <-. split.
  - rewrite firstn_app, Nat.sub_diag, firstn_O, app_nil_r, firstn_all. reflexivity.
  - rewrite skipn_app, Nat.sub_diag, skipn_all. reflexivity.
Qed.

Theorem parse_serialize_uncompressed : forall x y, 0 <= x < secp_p -> 0 <= y < secp_p -> on_curve x y = true ->
  ec_pubkey_parse (ec_pubkey_serialize false (x, y)) = Some (x, y).
Proof.
  intros x y Hx Hy Hc. unfold ec_pubkey_serialize, ec_pubkey_parse.
  assert (L : length (4%N :: be_bytes_z 32 x ++ be_bytes_z 32 y) = 65%nat)
    by (cbn [length]; rewrite app_length, !be_bytes_z_length; reflexivity).
  rewrite L. cbn [Nat.eqb N.eqb Pos.eqb andb orb].
  destruct (firstn_skipn_app_len (be_bytes_z 32 x) (be_bytes_z 32 y) 32 (be_bytes_z_length 32 x)) as [-> ->].
  rewrite !fe_limit_be_bytes by assumption. rewrite Hc. reflexivity.
Qed.

(* x >= p is rejected whatever the tag *)
Theorem parse_rejects_large_x : forall tag xb, bytes_ok xb -> length xb = 32%nat -> secp_p <= be_val xb ->
  ec_pubkey_parse (tag :: xb) = None.
Proof.
  intros tag xb Hb Hl Hx. unfold ec_pubkey_parse. cbn [length]. rewrite Hl.
  change (33 =? 33)%nat with true. change (33 =? 65)%nat with false. cbn [andb].
  rewrite fe_set_b32_limit_spec by assumption.
  destruct (Z.ltb_spec (be_val xb) secp_p); [lia|].
  destruct ((tag =? 2)%N || (tag =? 3)%N); reflexivity.
Qed.

Lemma fsqrt_spec : forall a, 0 <= fst (fsqrt a) < secp_p /\ snd (fsqrt a) = (fsqr (fst (fsqrt a)) =? a).
Proof. intros a. unfold fsqrt. cbn [fst snd]. split; [unfold fsqrt_chain; apply fsqr_range|reflexivity]. Qed.

Lemma xo_core : forall a r odd, 0 <= r < secp_p -> fsqr r = a ->
  let y := if Bool.eqb (Z.odd r) odd then r else fneg r in
  0 <= y < secp_p /\ fsqr y = a /\ (y = 0 \/ Z.odd y = odd).
Proof.
  intros a r odd Hr E y. subst y. destruct secp_p_bounds as ([Hp1 Hp2] & _).
  assert (Hodd : Z.odd secp_p = true) by (vm_compute; reflexivity).
  destruct (Bool.eqb (Z.odd r) odd) eqn:Epar.
  - repeat split; try lia; auto. right. apply Bool.eqb_prop. assumption.
  - destruct (fneg_spec r Hr) as [En Hn]. repeat split; try lia.
    + rewrite <- E. rewrite !fsqr_spec, En. rewrite <- Z.mul_mod by lia. f_equal. ring.
    + unfold fneg. destruct (Z.eqb_spec r 0) as [->|Hnz].
      * left. reflexivity.
      * right. rewrite Z.odd_sub, Hodd. clear -Epar. destruct (Z.odd r), odd; cbn in Epar |- *; try reflexivity; discriminate.
Qed.

Lemma ge_set_xo_with_sound : forall sqrtf,
  (forall a, 0 <= fst (sqrtf a) < secp_p /\ snd (sqrtf a) = (fsqr (fst (sqrtf a)) =? a)) ->
  forall x odd P, ge_set_xo_with sqrtf x odd = Some P ->
  exists y, P = (x, y) /\ 0 <= y < secp_p /\ on_curve x y = true /\ (y = 0 \/ Z.odd y = odd).
Proof.
  intros sqrtf Hs x odd P H. unfold ge_set_xo_with in H.
  destruct (Hs (curve_rhs x)) as [Hr Hok].
  destruct (sqrtf (curve_rhs x)) as [r ok]. cbn [fst snd] in Hr, Hok.
  destruct ok; [|discriminate]. symmetry in Hok. apply Z.eqb_eq in Hok.
  destruct (xo_core (curve_rhs x) r odd Hr Hok) as (Hy & Ey & Hpar).
  exists (if Bool.eqb (Z.odd r) odd then r else fneg r).
  repeat split; try tauto; try congruence.
  unfold on_curve. apply Z.eqb_eq. exact Ey.
Qed.

Lemma ge_set_xo_sound : forall x odd P, ge_set_xo x odd = Some P ->
  exists y, P = (x, y) /\ 0 <= y < secp_p /\ on_curve x y = true /\ (y = 0 \/ Z.odd y = odd).
Proof. exact (ge_set_xo_with_sound fsqrt fsqrt_spec). Qed.

(* a value without square root is rejected (no number theory needed: the candidate root is checked) *)
Theorem ge_set_xo_rejects_non_residue : forall x odd,
  (forall y, 0 <= y < secp_p -> fsqr y <> curve_rhs x) -> ge_set_xo x odd = None.
Proof.
  intros x odd Hn. destruct (ge_set_xo x odd) as [P|] eqn:E; [|reflexivity].
  apply ge_set_xo_sound in E. destruct E as (y & _ & Hy & Hc & _).
  unfold on_curve in Hc. apply Z.eqb_eq in Hc. exfalso. exact (Hn y Hy Hc).
Qed.

Definition tag_ok (tag : N) (y : Z) : Prop :=
  match tag with
  | 2%N => y = 0 \/ Z.odd y = false
  | 3%N => y = 0 \/ Z.odd y = true
  | 4%N => True
  | 6%N => Z.odd y = false
  | 7%N => Z.odd y = true
  | _ => False
  end.

(* whatever secp256k1_ec_pubkey_parse accepts is a point of the curve with reduced coordinates, and the
   tag byte agrees with the parity of y *)
Theorem ec_pubkey_parse_sound : forall tag rest x y, bytes_ok rest ->
  ec_pubkey_parse (tag :: rest) = Some (x, y) ->
  0 <= x < secp_p /\ 0 <= y < secp_p /\ on_curve x y = true /\ tag_ok tag y /\
  ((length rest = 32%nat /\ x = be_val rest) \/ (length rest = 64%nat /\ x = be_val (firstn 32 rest) /\ y = be_val (skipn 32 rest))).
Proof.
  intros tag rest x y Hb H. unfold ec_pubkey_parse in H. cbn [length] in H.
  destruct (Nat.eqb_spec (S (length rest)) 33) as [L33|_].
  - assert (L : length rest = 32%nat) by lia.
    destruct ((tag =? 2)%N || (tag =? 3)%N) eqn:Etag.
    + cbn [andb] in H. rewrite fe_set_b32_limit_spec in H by assumption.
      destruct (Z.ltb_spec (be_val rest) secp_p) as [Hx|]; [|discriminate].
      apply ge_set_xo_sound in H. destruct H as (y' & EP & Hy & Hc & Hpar). injection EP as Ex Ey. subst x y.
      pose proof (be_val_bound rest Hb) as [Hv _].
      split; [lia|]. split; [lia|]. split; [exact Hc|]. split; [|left; split; [assumption|reflexivity]].
      apply Bool.orb_true_iff in Etag. destruct Etag as [E|E]; apply N.eqb_eq in E; subst tag; cbn [tag_ok]; change (2 =? 3)%N with false in Hpar; change (3 =? 3)%N with true in Hpar; exact Hpar.
    + cbn [andb] in H. replace (S (length rest) =? 65)%nat with false in H by (symmetry; apply Nat.eqb_neq; lia).
      discriminate.
  - cbn [andb] in H. destruct (Nat.eqb_spec (S (length rest)) 65) as [L65|_]; [|discriminate].
    assert (L : length rest = 64%nat) by lia.
    destruct ((tag =? 4)%N || (tag =? 6)%N || (tag =? 7)%N) eqn:Etag; [|discriminate]. cbn [andb] in H.
    assert (Hb12 : bytes_ok (firstn 32 rest) /\ bytes_ok (skipn 32 rest)).
    { unfold bytes_ok in *. apply Forall_app. rewrite firstn_skipn. exact Hb. }
    destruct Hb12 as [Hb1 Hb2].
    assert (L1 : length (firstn 32 rest) = 32%nat) by (rewrite firstn_length; lia).
    assert (L2 : length (skipn 32 rest) = 32%nat) by (rewrite skipn_length; lia).
    rewrite !fe_set_b32_limit_spec in H by assumption.
    destruct (Z.ltb_spec (be_val (firstn 32 rest)) secp_p) as [Hx|]; [|discriminate].
    destruct (Z.ltb_spec (be_val (skipn 32 rest)) secp_p) as [Hy|]; [|discriminate].
    pose proof (be_val_bound _ Hb1) as [Hv1 _]. pose proof (be_val_bound _ Hb2) as [Hv2 _].
    destruct (((tag =? 6)%N || (tag =? 7)%N) && negb (Bool.eqb (Z.odd (be_val (skipn 32 rest))) (tag =? 7)%N)) eqn:Ehy; [discriminate|].
    destruct (on_curve _ _) eqn:Hc; [|discriminate].
    assert (Ex : x = be_val (firstn 32 rest)) by congruence.
    assert (Ey : y = be_val (skipn 32 rest)) by congruence. clear H. subst x y.
    split; [lia|]. split; [lia|]. split; [exact Hc|]. split; [|right; repeat split; assumption].
    apply Bool.orb_true_iff in Etag. destruct Etag as [Etag|E7].
    + apply Bool.orb_true_iff in Etag. destruct Etag as [E4|E6].
      * apply N.eqb_eq in E4. subst tag. exact I.
      * apply N.eqb_eq in E6. subst tag. simpl in Ehy |- *. destruct (Z.odd _); [discriminate|reflexivity].
    + apply N.eqb_eq in E7. subst tag. simpl in Ehy |- *. destruct (Z.odd _); [reflexivity|discriminate].
Qed.

  (* x-only keys: secp256k1_xonly_pubkey_from_pubkey keeps x, makes y even and reports the old parity;
   secp256k1_xonly_pubkey_parse of the serialised x gives back exactly that even-y point *)
Theorem xonly_from_pubkey_spec : forall x y, 0 <= y < secp_p ->
  let '((x', y'), parity) := xonly_from_pubkey (x, y) in
  x' = x /\ parity = Z.odd y /\ Z.odd y' = false /\ 0 <= y' < secp_p /\ (y' = y \/ y' + y = secp_p) /\
  on_curve x y' = on_curve x y.
Proof.
  intros x y Hy. unfold xonly_from_pubkey.
  assert (Hodd : Z.odd secp_p = true) by (vm_compute; reflexivity).
  destruct (Z.odd y) eqn:Ey.
  - destruct (fneg_spec y Hy) as [En Hn]. unfold fneg in *. destruct (Z.eqb_spec y 0) as [->|Hnz]; [discriminate|].
    repeat split; try lia.
    + rewrite Z.odd_sub, Hodd, Ey. reflexivity.
    + unfold on_curve. f_equal. rewrite !fsqr_spec. rewrite En, <- Z.mul_mod by lia. f_equal. ring.
  - repeat split; auto; lia.
Qed.


(* ---------------------------------------------------------------------------------------------- *)
(* compressed round trip, x-only keys.  Number-theoretic premises: p is prime, and the library's square
   root (a^((p+1)/4) by its addition chain) succeeds on every square (Euler's criterion, p = 3 mod 4). *)
Section NumberTheory.
  Hypothesis prime_p : prime secp_p.
  Hypothesis sqrt_complete : forall y, 0 <= y < secp_p -> snd (fsqrt (fsqr y)) = true.

  Lemma sqr_eq_prime : forall a b, 0 <= a < secp_p -> 0 <= b < secp_p -> fsqr a = fsqr b -> a = b \/ a + b = secp_p.
  Proof.
    intros a b Ha Hb E. rewrite !fsqr_spec in E.
    assert (Hp : 0 < secp_p) by lia.
    assert (D : (secp_p | (a - b) * (a + b))).
    { apply Z.mod_divide; [lia|]. replace ((a - b) * (a + b)) with (a * a - b * b) by ring.
      rewrite Zminus_mod, E, Z.sub_diag. apply Z.mod_0_l. lia. }
    apply prime_mult in D; [|assumption]. destruct D as [[k Hk]|[k Hk]].
    - left. assert (k = 0) by nia. lia.
    - assert (k = 0 \/ k = 1) as [->| ->] by nia; [left|right]; lia.
  Qed.

  Lemma ge_set_xo_with_complete : forall sqrtf,
    (forall a, 0 <= fst (sqrtf a) < secp_p /\ snd (sqrtf a) = (fsqr (fst (sqrtf a)) =? a)) ->
    (forall y, 0 <= y < secp_p -> snd (sqrtf (fsqr y)) = true) ->
    forall x y, 0 <= y < secp_p -> on_curve x y = true -> ge_set_xo_with sqrtf x (Z.odd y) = Some (x, y).
  Proof.
    intros sqrtf Hs Hcomp x y Hy Hc. unfold on_curve in Hc. apply Z.eqb_eq in Hc.
    destruct (ge_set_xo_with sqrtf x (Z.odd y)) as [P|] eqn:E.
    - apply (ge_set_xo_with_sound sqrtf Hs) in E. destruct E as (y' & -> & Hy' & Hc' & Hpar).
      unfold on_curve in Hc'. apply Z.eqb_eq in Hc'.
      assert (Hodd : Z.odd secp_p = true) by (vm_compute; reflexivity).
      destruct (sqr_eq_prime y' y Hy' Hy ltac:(congruence)) as [->|Hsum]; [reflexivity|].
      exfalso. destruct Hpar as [->|Hpar].
      + assert (y = secp_p) by lia. lia.
      + assert (Ey : y' = secp_p - y) by lia. rewrite Ey, Z.odd_sub, Hodd in Hpar. destruct (Z.odd y); discriminate.
    - exfalso. unfold ge_set_xo_with in E. rewrite <- Hc in E.
      pose proof (Hcomp y Hy) as S. destruct (sqrtf (fsqr y)) as [r ok]. cbn [snd] in S. subst ok. discriminate.
  Qed.

  Theorem ge_set_xo_complete : forall x y, 0 <= y < secp_p -> on_curve x y = true ->
    ge_set_xo x (Z.odd y) = Some (x, y).
  Proof. exact (ge_set_xo_with_complete fsqrt fsqrt_spec sqrt_complete). Qed.

  (* parse (serialize P) = P for every point of the curve, with the parity-byte rule *)
  Theorem parse_serialize_compressed : forall x y, 0 <= x < secp_p -> 0 <= y < secp_p -> on_curve x y = true ->
    ec_pubkey_serialize true (x, y) = (if Z.odd y then 3%N else 2%N) :: be_bytes_z 32 x /\
    ec_pubkey_parse (ec_pubkey_serialize true (x, y)) = Some (x, y).
  Proof.
    intros x y Hx Hy Hc. split; [reflexivity|]. unfold ec_pubkey_serialize, ec_pubkey_parse.
    cbn [length]. rewrite be_bytes_z_length. change (33 =? 33)%nat with true. cbn [andb].
    assert (Htag : (((if Z.odd y then 3%N else 2%N) =? 2)%N || ((if Z.odd y then 3%N else 2%N) =? 3)%N) = true)
      by (destruct (Z.odd y); reflexivity).
    rewrite Htag. rewrite fe_limit_be_bytes by assumption.
    replace ((if Z.odd y then 3%N else 2%N) =? 3)%N with (Z.odd y) by (destruct (Z.odd y); reflexivity).
    apply ge_set_xo_complete; assumption.
  Qed.

  Theorem xonly_parse_serialize : forall x y, 0 <= x < secp_p -> 0 <= y < secp_p -> on_curve x y = true ->
    xonly_parse (xonly_serialize (x, y)) = Some (fst (xonly_from_pubkey (x, y))).
  Proof.
    intros x y Hx Hy Hc. unfold xonly_parse, xonly_serialize. cbn [fst].
    rewrite be_bytes_z_length. change (32 =? 32)%nat with true. cbv iota.
    rewrite fe_limit_be_bytes by assumption.
    pose proof (xonly_from_pubkey_spec x y Hy) as S.
    destruct (xonly_from_pubkey (x, y)) as [[x' y'] parity]. destruct S as (-> & _ & Heven & Hy' & _ & Hc').
    cbn [fst]. rewrite <- Heven. apply ge_set_xo_complete; [assumption|]. rewrite Hc'. assumption.
  Qed.
End NumberTheory.

(* tweak-add parity reporting: secp256k1_xonly_pubkey_tweak_add_check accepts exactly the serialised x
   coordinate and the y parity of internal + t*G *)
Theorem xonly_tweak_add_check_spec : forall P t x y, ec_pubkey_tweak_add P t = Some (x, y) ->
  forall x32 parity,
  xonly_tweak_add_check x32 parity P t = true <-> (x32 = be_bytes_z 32 x /\ parity = Z.odd y).
Proof.
  intros P t x y H x32 parity. unfold xonly_tweak_add_check. rewrite H.
  destruct (list_eq_dec N.eq_dec (be_bytes_z 32 x) x32) as [E|E]; cbn [andb].
  - split.
    + intros Hp. apply Bool.eqb_prop in Hp. auto.
    + intros [_ ->]. apply Bool.eqb_reflx.
  - split; [discriminate|]. intros [Hv _]. exfalso. apply E. auto.
Qed.

Corollary xonly_tweak_add_check_none : forall P t x32 parity, ec_pubkey_tweak_add P t = None ->
  xonly_tweak_add_check x32 parity P t = false.
Proof. intros P t x32 parity H. unfold xonly_tweak_add_check. rewrite H. reflexivity. Qed.
