(* HTTPHeaders::Read (model headers_read): resuming after a partial read gives the same result as
   reading everything at once; the size accounting (m_consumed, start) is the same either way; C52. *)
From BV Require Import lib.Ints gen.Params_gen model.Http proofs.HttpLoop.
Local Open Scope Z_scope.

Definition NoInv {S : Type} (s : S) : Prop := True.

Lemma headers_body_decr w s r s' r' : headers_body w s r = Adv s' r' -> (length r' < length r)%nat.
Proof.
  unfold headers_body. destruct s as [h here].
  destruct (read_line MAX_LINE r) as [| |l rest n] eqn:E; try discriminate.
  apply read_line_consumed in E.
  destruct (HTTP_MAX_HEADERS_SIZE <? here + Z.of_nat n + h_consumed h); [discriminate|].
  destruct l as [|c l]; [discriminate|].
  destruct (contains_any [CR; LF; NUL] (c :: l)); [discriminate|].
  destruct (find_byte COLON (c :: l)) as [pos|]; [|discriminate].
  destruct (contains_any _ (firstn pos (c :: l))); [discriminate|].
  destruct (firstn pos (c :: l)); [discriminate|].
  intros H. injection H as <- <-. lia.
Qed.

Ltac hb_line E y :=
  rewrite (read_line_line_ext _ _ y _ _ _ E);
  repeat match goal with
         | |- context [if ?b then _ else _] => destruct b
         | |- context [match ?x with _ => _ end] => destruct x
         end; try discriminate; try reflexivity.

Lemma headers_body_fail w s r sf e y : headers_body w s r = Fail sf e -> headers_body w s (r ++ y) = Fail sf e.
Proof.
  unfold headers_body. destruct s as [h here].
  destruct (read_line MAX_LINE r) as [| |l rest n] eqn:E; try discriminate.
  - intros H. rewrite (read_line_toolong_ext _ _ y E). exact H.
  - rewrite (read_line_line_ext _ _ y _ _ _ E).
    destruct (HTTP_MAX_HEADERS_SIZE <? here + Z.of_nat n + h_consumed h); [auto|].
    destruct l as [|c l]; [discriminate|].
    destruct (contains_any [CR; LF; NUL] (c :: l)); [auto|].
    destruct (find_byte COLON (c :: l)) as [pos|]; [|auto].
    destruct (contains_any _ (firstn pos (c :: l))); [auto|].
    destruct (firstn pos (c :: l)); [auto|discriminate].
Qed.

Lemma headers_body_done w s r s' r' y : headers_body w s r = Done s' r' -> headers_body w s (r ++ y) = Done s' (r' ++ y).
Proof.
  unfold headers_body. destruct s as [h here].
  destruct (read_line MAX_LINE r) as [| |l rest n] eqn:E; try discriminate.
  rewrite (read_line_line_ext _ _ y _ _ _ E).
  destruct (HTTP_MAX_HEADERS_SIZE <? here + Z.of_nat n + h_consumed h); [discriminate|].
  destruct l as [|c l].
  - intros H. injection H as <- <-. reflexivity.
  - destruct (contains_any [CR; LF; NUL] (c :: l)); [discriminate|].
    destruct (find_byte COLON (c :: l)) as [pos|]; [|discriminate].
    destruct (contains_any _ (firstn pos (c :: l))); [discriminate|].
    destruct (firstn pos (c :: l)); discriminate.
Qed.

Lemma headers_body_adv w s r s' r' y : headers_body w s r = Adv s' r' -> headers_body w s (r ++ y) = Adv s' (r' ++ y).
Proof.
  unfold headers_body. destruct s as [h here].
  destruct (read_line MAX_LINE r) as [| |l rest n] eqn:E; try discriminate.
  rewrite (read_line_line_ext _ _ y _ _ _ E).
  destruct (HTTP_MAX_HEADERS_SIZE <? here + Z.of_nat n + h_consumed h); [discriminate|].
  destruct l as [|c l]; [discriminate|].
  destruct (contains_any [CR; LF; NUL] (c :: l)); [discriminate|].
  destruct (find_byte COLON (c :: l)) as [pos|]; [|discriminate].
  destruct (contains_any _ (firstn pos (c :: l))); [discriminate|].
  destruct (firstn pos (c :: l)); [discriminate|].
  intros H. injection H as <- <-. reflexivity.
Qed.

Lemma headers_body_need w s r s' r' : headers_body w s r = Need s' r' -> s' = s /\ r' = r.
Proof.
  unfold headers_body. destruct s as [h here].
  destruct (read_line MAX_LINE r) as [| |l rest n] eqn:E; try discriminate.
  - intros H. injection H as <- <-. auto.
  - destruct (HTTP_MAX_HEADERS_SIZE <? here + Z.of_nat n + h_consumed h); [discriminate|].
    destruct l as [|c l]; [discriminate|].
    destruct (contains_any [CR; LF; NUL] (c :: l)); [discriminate|].
    destruct (find_byte COLON (c :: l)) as [pos|]; [|discriminate].
    destruct (contains_any _ (firstn pos (c :: l))); [discriminate|].
    destruct (firstn pos (c :: l)); discriminate.
Qed.

Lemma headers_loop_resume w s r y :
  match run_loop (headers_body w) s r with
  | LFail sf e => run_loop (headers_body w) s (r ++ y) = LFail sf e
  | LDone s' r' => run_loop (headers_body w) s (r ++ y) = LDone s' (r' ++ y)
  | LNeed s' r' => run_loop (headers_body w) s (r ++ y) = run_loop (headers_body w) s' (r' ++ y)
  | LOutOfFuel => False
  end.
Proof.
  pose proof (run_loop_resume (headers_body w) NoInv) as H.
  specialize (H (fun s r s' r' _ => headers_body_decr w s r s' r') (fun _ _ _ _ _ _ => I) (fun _ _ _ _ _ _ => I)
                (fun s r sf e y _ => headers_body_fail w s r sf e y)
                (fun s r s' r' y _ => headers_body_done w s r s' r' y)
                (fun s r s' r' y _ => headers_body_adv w s r s' r' y)).
  assert (Hneed : forall s r s' r' y, NoInv s -> headers_body w s r = Need s' r' ->
                                      headers_body w s (r ++ y) = headers_body w s' (r' ++ y) \/
                                      headers_body w s (r ++ y) = Adv s' (r' ++ y)).
  { intros s0 r0 s' r' y0 _ E. apply headers_body_need in E. destruct E as [-> ->]. now left. }
  specialize (H Hneed s r y I).
  destruct (run_loop (headers_body w) s r); try exact H. tauto.
Qed.

(* the accounting: starting the loop at (h, here) or at (h with m_consumed += here, 0) is the same *)
Definition hrel (s1 s2 : headers * Z) : Prop :=
  h_list (fst s1) = h_list (fst s2) /\ h_consumed (fst s1) + snd s1 = h_consumed (fst s2) + snd s2.

Definition step_rel (a b : step_res (headers * Z)) : Prop :=
  match a, b with
  | Need s1 r1, Need s2 r2 => hrel s1 s2 /\ r1 = r2
  | Fail s1 e1, Fail s2 e2 => e1 = e2 /\ h_list (fst s1) = h_list (fst s2)
  | Done s1 r1, Done s2 r2 => hrel s1 s2 /\ r1 = r2
  | Adv s1 r1, Adv s2 r2 => hrel s1 s2 /\ r1 = r2
  | _, _ => False
  end.

Lemma headers_body_rel w s1 s2 r : hrel s1 s2 -> step_rel (headers_body w s1 r) (headers_body w s2 r).
Proof.
  destruct s1 as [h1 here1], s2 as [h2 here2]. unfold hrel. cbn [fst snd]. intros [Hl Hc].
  assert (Hfail : forall e, step_rel (Fail (h1, here1) e) (Fail (h2, here2) e)).
  { intros e. unfold step_rel. cbn [fst]. split; [reflexivity | exact Hl]. }
  unfold headers_body.
  destruct (read_line MAX_LINE r) as [| |l rest n] eqn:E;
    [unfold step_rel, hrel; cbn [fst snd]; auto | apply Hfail |].
  replace (here2 + Z.of_nat n + h_consumed h2) with (here1 + Z.of_nat n + h_consumed h1) by lia.
  destruct (HTTP_MAX_HEADERS_SIZE <? here1 + Z.of_nat n + h_consumed h1); [apply Hfail|].
  destruct l as [|c l].
  { unfold step_rel, hrel; cbn [fst snd]. repeat split; auto; lia. }
  destruct (contains_any [CR; LF; NUL] (c :: l)); [apply Hfail|].
  destruct (find_byte COLON (c :: l)) as [pos|]; [|apply Hfail].
  destruct (contains_any _ (firstn pos (c :: l))); [apply Hfail|].
  destruct (firstn pos (c :: l)) as [|k0 key]; [apply Hfail|].
  destruct w; unfold step_rel, hrel, write_header; cbn [fst snd h_list h_consumed]; repeat split; auto; try lia.
  now rewrite Hl.
Qed.

Definition lres_rel (a b : loop_res (headers * Z)) : Prop :=
  match a, b with
  | LNeed s1 r1, LNeed s2 r2 => hrel s1 s2 /\ r1 = r2
  | LFail s1 e1, LFail s2 e2 => e1 = e2 /\ h_list (fst s1) = h_list (fst s2)
  | LDone s1 r1, LDone s2 r2 => hrel s1 s2 /\ r1 = r2
  | LOutOfFuel, LOutOfFuel => True
  | _, _ => False
  end.

Lemma headers_loop_rel w : forall f s1 s2 r, hrel s1 s2 -> lres_rel (loop (headers_body w) f s1 r) (loop (headers_body w) f s2 r).
Proof.
  induction f as [|f IH]; intros s1 s2 r Hr; simpl; [exact I|].
  pose proof (headers_body_rel w s1 s2 r Hr) as Hs.
  destruct (headers_body w s1 r) as [a1 b1|f1 e1|a1 b1|a1 b1], (headers_body w s2 r) as [a2 b2|f2 e2|a2 b2|a2 b2];
    simpl in Hs; try contradiction; auto.
  destruct Hs as [Hr' ->]. now apply IH.
Qed.

Lemma hrel_finish s1 s2 : hrel s1 s2 -> headers_finish s1 = headers_finish s2.
Proof. destruct s1 as [h1 a], s2 as [h2 b]. unfold hrel, headers_finish. simpl. intros [-> H]. f_equal. lia. Qed.

Lemma hrel_finish_zero st : hrel st (headers_finish st, 0).
Proof. destruct st as [h here]. unfold hrel, headers_finish. simpl. split; [reflexivity | lia]. Qed.

(* ---------------------------------------------------------------------------------------------- *)
(* HTTPHeaders::Read as a whole *)

Lemma headers_read_not_out_of_fuel w h r : run_loop (headers_body w) (h, 0) r <> LOutOfFuel.
Proof.
  apply (run_loop_never_out_of_fuel (headers_body w) NoInv);
    first [ exact I | intros s r0 s' r' _; apply headers_body_decr | intros; exact I ].
Qed.


Lemma headers_read_resume w h r y :
  match headers_read w h r with
  | Throw e hf => headers_read w h (r ++ y) = Throw e hf
  | Ret true h' r' => headers_read w h (r ++ y) = Ret true h' (r' ++ y)
  | Ret false h' r' => headers_read w h (r ++ y) = headers_read w h' (r' ++ y)
  end.
Proof.
  unfold headers_read. pose proof (headers_loop_resume w (h, 0) r y) as H.
  destruct (run_loop (headers_body w) (h, 0) r) as [st r'|sf e|st r'|] eqn:E; try contradiction.
  - (* stopped for lack of data: the next call starts from the finished headers *)
    rewrite H. unfold run_loop.
    pose proof (headers_loop_rel w (Datatypes.S (length (r' ++ y))) st (headers_finish st, 0) (r' ++ y) (hrel_finish_zero st)) as Hrel.
    pose proof (headers_read_not_out_of_fuel w (headers_finish st) (r' ++ y)) as Hnf. unfold run_loop in Hnf.
    destruct (loop (headers_body w) _ st (r' ++ y)) as [a1 b1|f1 e1|a1 b1|],
             (loop (headers_body w) _ (headers_finish st, 0) (r' ++ y)) as [a2 b2|f2 e2|a2 b2|];
      simpl in Hrel; try contradiction.
    + destruct Hrel as [Hr ->]. now rewrite (hrel_finish _ _ Hr).
    + destruct Hrel as [-> Hl]. now rewrite Hl.
    + destruct Hrel as [Hr ->]. now rewrite (hrel_finish _ _ Hr).
  - now rewrite H.
  - now rewrite H.
Qed.

(* sizes: the headers object never accounts for more than MAX_HEADERS_SIZE bytes, and what is
   returned with "need more data" has no complete line in it *)
Lemma headers_body_bound w s r :
  h_consumed (fst s) + snd s <= HTTP_MAX_HEADERS_SIZE -> 0 <= snd s ->
  match headers_body w s r with
  | Need s' _ | Done s' _ | Adv s' _ => h_consumed (fst s') + snd s' <= HTTP_MAX_HEADERS_SIZE /\ 0 <= snd s'
  | Fail _ _ => True
  end.
Proof.
  destruct s as [h here]. cbn [fst snd]. intros Hb H0. unfold headers_body.
  destruct (read_line MAX_LINE r) as [| |l rest n] eqn:E; [cbn [fst snd]; auto | exact I |].
  destruct (HTTP_MAX_HEADERS_SIZE <? here + Z.of_nat n + h_consumed h) eqn:Ec; [exact I|].
  destruct l as [|c l]; [cbn [fst snd]; lia|].
  destruct (contains_any [CR; LF; NUL] (c :: l)); [exact I|].
  destruct (find_byte COLON (c :: l)) as [pos|]; [|exact I].
  destruct (contains_any _ (firstn pos (c :: l))); [exact I|].
  destruct (firstn pos (c :: l)); [exact I|].
  destruct w; unfold write_header; cbn [fst snd h_consumed]; lia.
Qed.

Lemma headers_loop_bound w : forall f s r,
  h_consumed (fst s) + snd s <= HTTP_MAX_HEADERS_SIZE -> 0 <= snd s ->
  match loop (headers_body w) f s r with
  | LNeed s' _ | LDone s' _ => h_consumed (fst s') + snd s' <= HTTP_MAX_HEADERS_SIZE
  | _ => True
  end.
Proof.
  induction f as [|f IH]; intros s r Hb H0; simpl; auto.
  pose proof (headers_body_bound w s r Hb H0) as H.
  destruct (headers_body w s r) as [s' r'|e|s' r'|s' r']; auto; try tauto.
  apply IH; tauto.
Qed.

Lemma headers_read_bound w h r : h_consumed h <= HTTP_MAX_HEADERS_SIZE ->
  match headers_read w h r with
  | Ret _ h' _ => h_consumed h' <= HTTP_MAX_HEADERS_SIZE
  | Throw _ _ => True
  end.
Proof.
  intros Hb. unfold headers_read, run_loop.
  pose proof (headers_loop_bound w (Datatypes.S (length r)) (h, 0) r ltac:(simpl; lia) ltac:(simpl; lia)) as H.
  destruct (loop (headers_body w) _ (h, 0) r) as [s' r'|e|s' r'|]; auto.
Qed.
