(* C49 — SHA3-256: the FIPS 202 example digests pin the specification; the unrolled C++ KeccakF is
   the FIPS permutation; the streaming object SHA3_256 (8-byte lane buffer, lane position, sponge
   state) computes SHA3-256 of the bytes written, for every fragmentation and every length. *)
From Coq Require Import NArith Arith.
From BV Require Import lib.Ints model.CryptoBase model.CryptoMD model.CryptoSHA3
  proofs.CryptoBaseLemmas proofs.CryptoMDLemmas proofs.CryptoSipHashLemmas.
Local Open Scope Z_scope.

(* ================= test vectors ================= *)
Definition sha3_hexdigest (l : list N) : Z := be_value l.
Definition bytes_seq251 (n : nat) : list N := map (fun i => N.of_nat (i mod 251)) (seq 0 n).

(* NIST example values / FIPS 202 *)
Example sha3_256_vector_empty :
  sha3_hexdigest (sha3_256_spec []) = 0xa7ffc6f8bf1ed76651c14756a061d662f580ff4de43b49fa82d80a4b80f8434a.
Proof. vm_compute. reflexivity. Qed.

Example sha3_256_vector_abc :
  sha3_hexdigest (sha3_256_spec [97; 98; 99]%N) = 0x3a985da74fe225b2045c172d6bd390bd855f086e3e9d525b46bfe24511431532.
Proof. vm_compute. reflexivity. Qed.

(* "abcdbcdecdefdefgefghfghighijhijkijkljklmklmnlmnomnopnopq" (448 bits) *)
Example sha3_256_vector_448 :
  sha3_hexdigest (sha3_256_spec [97;98;99;100; 98;99;100;101; 99;100;101;102; 100;101;102;103; 101;102;103;104;
                            102;103;104;105; 103;104;105;106; 104;105;106;107; 105;106;107;108; 106;107;108;109;
                            107;108;109;110; 108;109;110;111; 109;110;111;112; 110;111;112;113]%N)
  = 0x41c0dba2a9d6240849100376a8235e2c82e1b9998a999e21db32dd97496d3376.
Proof. vm_compute. reflexivity. Qed.

(* around the rate: 135 bytes (single pad byte 0x86), 136 (a whole extra block of padding), 137, and
   200 bytes; message byte i = i mod 251; expected values from an independent implementation
   (Python hashlib.sha3_256) *)
Example sha3_256_vector_135 :
  sha3_hexdigest (sha3_256_spec (bytes_seq251 135)) = 0xfded8fd9d6551c601eeb3b7c6bc5e5cfd8aad1d015b7e9aaa9c9b9475231d5e2.
Proof. vm_compute. reflexivity. Qed.
Example sha3_256_vector_136 :
  sha3_hexdigest (sha3_256_spec (bytes_seq251 136)) = 0xcf3ccff92480a29160c2d38317c430e14749bfee1788106957dfe73f8c4930e5.
Proof. vm_compute. reflexivity. Qed.
Example sha3_256_vector_137 :
  sha3_hexdigest (sha3_256_spec (bytes_seq251 137)) = 0xce9d7dc90913ee5d92745019479a5352c6d6279bef18ed07dc0a83ee8084daca.
Proof. vm_compute. reflexivity. Qed.
Example sha3_256_vector_200 :
  sha3_hexdigest (sha3_256_spec (bytes_seq251 200)) = 0x5f728f63bf5ee48c77f453c0490398fa645b8d4c4e56be9a41cfec344d6ca899.
Proof. vm_compute. reflexivity. Qed.

(* the model of the C++ object on fragmented input (with a non-zero uninitialised buffer) *)
Example sha3_stream_vectors :
  map (fun cs => sha3_hexdigest (sha3_stream [1;2;3;4;5;6;7;8]%N cs))
      [ []; [[97; 98; 99]]; [[97]; []; [98; 99]];
        [firstn 3 (bytes_seq251 137); firstn 130 (skipn 3 (bytes_seq251 137)); skipn 133 (bytes_seq251 137)] ]%N =
  [0xa7ffc6f8bf1ed76651c14756a061d662f580ff4de43b49fa82d80a4b80f8434a;
   0x3a985da74fe225b2045c172d6bd390bd855f086e3e9d525b46bfe24511431532;
   0x3a985da74fe225b2045c172d6bd390bd855f086e3e9d525b46bfe24511431532;
   0xce9d7dc90913ee5d92745019479a5352c6d6279bef18ed07dc0a83ee8084daca].
Proof. vm_compute. reflexivity. Qed.

(* the rho offsets computed from algorithm 2 are those of FIPS 202 table 2 (reduced mod 64), lane
   (x,y) at index x + 5y *)
Example keccak_rho_offsets_table2 :
  keccak_rho_offsets = map (fun o => o mod 64)
    [   0;   1; 190;  28;  91;
       36; 300;   6;  55; 276;
        3;  10; 171; 153; 231;
      105;  45;  15;  21; 136;
      210;  66; 253; 120;  78 ].
Proof. vm_compute. reflexivity. Qed.

(* the round constants computed from the LFSR of algorithm 5 are the RNDC table of sha3.cpp *)
Lemma keccak_RC_eq_RNDC : keccak_RC = KECCAK_RNDC.
Proof. vm_compute. reflexivity. Qed.

(* the byte-level padding of the specification against the bit-level definition (M || 01 || pad10*1),
   on lengths around the block boundary *)
Example sha3_pad_bits_check :
  forallb (fun len =>
    let msg := bytes_seq251 len in
    if list_eq_dec N.eq_dec (bytes_of_bits (len + 137) (sha3_padded_bits msg)) (sha3_padded msg) then true else false)
    [0; 1; 7; 8; 134; 135; 136; 137; 271; 272]%nat = true.
Proof. vm_compute. reflexivity. Qed.

(* ================= the unrolled C++ KeccakF is KECCAK-f[1600] ================= *)
Ltac destruct_list25 st Hlen :=
  do 25 (destruct st as [|? st]; [discriminate Hlen|]);
  destruct st as [|? st]; [|discriminate Hlen]; clear Hlen.

(* one round: Theta / Rho Pi / Chi Iota of sha3.cpp = iota(chi(pi(rho(theta)))) of FIPS 202, as
   functions of the 25 lanes (symbolic evaluation of both sides) *)
Lemma keccakf_cpp_round_eq st rc : length st = 25%nat -> keccakf_cpp_round st rc = keccak_round st rc.
Proof.
  intros Hlen. destruct_list25 st Hlen.
  cbv - [Z.lxor Z.land rotl64 not64]. reflexivity.
Qed.

Lemma mk_state_length f : length (mk_state f) = 25%nat.
Proof. unfold mk_state. rewrite map_length, seq_length. reflexivity. Qed.

Lemma keccak_round_length st rc : length (keccak_round st rc) = 25%nat.
Proof. unfold keccak_round, keccak_iota. apply mk_state_length. Qed.

Lemma fold_left_cons {A B} (f : A -> B -> A) b l a : fold_left f (b :: l) a = fold_left f l (f a b).
Proof. reflexivity. Qed.

Lemma keccak_fold_length rcs : forall st, length st = 25%nat -> length (fold_left keccak_round rcs st) = 25%nat.
Proof.
  induction rcs as [|rc rcs IH]; intros st Hl; [exact Hl|]. rewrite fold_left_cons. apply IH. apply keccak_round_length.
Qed.

Lemma keccak_f_length st : length st = 25%nat -> length (keccak_f st) = 25%nat.
Proof. apply keccak_fold_length. Qed.

Lemma keccak_fold_eq rcs : forall st, length st = 25%nat ->
  fold_left keccakf_cpp_round rcs st = fold_left keccak_round rcs st.
Proof.
  induction rcs as [|rc rcs IH]; intros st Hl; [reflexivity|]. rewrite !fold_left_cons.
  rewrite (keccakf_cpp_round_eq st rc Hl). apply IH. apply keccak_round_length.
Qed.

(* KeccakF(st) of sha3.cpp = KECCAK-f[1600] = KECCAK-p[1600, 24] of FIPS 202, on every state *)
Theorem keccakf_cpp_eq st : length st = 25%nat -> keccakf_cpp st = keccak_f st.
Proof.
  intros Hl. unfold keccakf_cpp, keccak_f. rewrite keccak_RC_eq_RNDC. apply keccak_fold_eq. exact Hl.
Qed.

(* the permutation on a non-trivial state, both ways (and a known value: KECCAK-f[1600] of the
   all-zero state has first lane 0xF1258F7940E1DDE7) *)
Example keccakf_zero_state :
  (nth 0 (keccak_f (repeat 0 25)) 0, nth 0 (keccakf_cpp (repeat 0 25)) 0) = (0xF1258F7940E1DDE7, 0xF1258F7940E1DDE7).
Proof. vm_compute. reflexivity. Qed.

(* ================= list helpers ================= *)
Lemma firstn_plus {A} (a b : nat) (l : list A) : firstn (a + b) l = firstn a l ++ firstn b (skipn a l).
Proof.
  revert l. induction a as [|a IH]; intros l; [reflexivity|].
  destruct l as [|x l]; [simpl; rewrite firstn_nil; reflexivity|]. simpl. f_equal. apply IH.
Qed.

Lemma le64_words_8 (l : list N) : length l = 8%nat -> le64_words l = [le_value l].
Proof.
  intros H. destruct l as [|a [|b [|c [|d [|e [|f [|g [|h [|i r]]]]]]]]]; try discriminate H. reflexivity.
Qed.

Lemma le64_words_app k : forall a b, length a = (8 * k)%nat -> le64_words (a ++ b) = le64_words a ++ le64_words b.
Proof.
  induction k as [|k IH]; intros a b Hl.
  - destruct a; [reflexivity | discriminate Hl].
  - destruct a as [|a0 [|a1 [|a2 [|a3 [|a4 [|a5 [|a6 [|a7 r]]]]]]]]; try (simpl in Hl; lia).
    change ((a0 :: a1 :: a2 :: a3 :: a4 :: a5 :: a6 :: a7 :: r) ++ b)
      with (a0 :: a1 :: a2 :: a3 :: a4 :: a5 :: a6 :: a7 :: (r ++ b)).
    cbn [le64_words]. rewrite IH by (simpl in Hl; lia). reflexivity.
Qed.

Lemma le64_words_length k : forall a, length a = (8 * k)%nat -> length (le64_words a) = k.
Proof.
  induction k as [|k IH]; intros a Hl.
  - destruct a; [reflexivity | discriminate Hl].
  - destruct a as [|a0 [|a1 [|a2 [|a3 [|a4 [|a5 [|a6 [|a7 r]]]]]]]]; try (simpl in Hl; lia).
    cbn [le64_words length]. rewrite IH by (simpl in Hl; lia). reflexivity.
Qed.

Lemma le64_words_zeros k : le64_words (zeros (8 * k)) = repeat 0 k.
Proof.
  induction k as [|k IH]; [reflexivity|].
  replace (8 * S k)%nat with (8 + 8 * k)%nat by lia. unfold zeros in *. rewrite repeat_app.
  rewrite (le64_words_app 1) by reflexivity. rewrite IH. reflexivity.
Qed.

Lemma zeros_app a b : zeros (a + b) = zeros a ++ zeros b.
Proof. unfold zeros. apply repeat_app. Qed.

Lemma zeros_length k : length (zeros k) = k.
Proof. apply repeat_length. Qed.

(* ================= xoring lanes into the state ================= *)
(* xor the words ws into the first lanes of T *)
Fixpoint xor_in (T ws : list Z) : list Z :=
  match T, ws with s :: T', w :: ws' => Z.lxor s w :: xor_in T' ws' | _, _ => T end.

Lemma xor_in_nil T : xor_in T [] = T.
Proof. destruct T; reflexivity. Qed.

Lemma xor_in_length T : forall ws, length (xor_in T ws) = length T.
Proof.
  induction T as [|s T IH]; intros ws; [reflexivity|]. destruct ws; [reflexivity|].
  cbn [xor_in length]. rewrite IH. reflexivity.
Qed.

Lemma xor_in_zeros T : forall k, xor_in T (repeat 0 k) = T.
Proof.
  induction T as [|s T IH]; intros k; [reflexivity|]. destruct k; [reflexivity|].
  cbn [repeat xor_in]. rewrite Z.lxor_0_r, IH. reflexivity.
Qed.

Lemma xor_in_app_zeros T : forall ws k, xor_in T (ws ++ repeat 0 k) = xor_in T ws.
Proof.
  induction T as [|s T IH]; intros ws k; [reflexivity|].
  destruct ws as [|w ws].
  - cbn [app]. rewrite xor_in_zeros. reflexivity.
  - cbn [app xor_in]. rewrite IH. reflexivity.
Qed.

(* T xor (P || 0^c) of the specification *)
Lemma zip_xor_pad T : forall ws, (length ws <= length T)%nat ->
  zip_xor T (ws ++ repeat 0 (length T - length ws)) = xor_in T ws.
Proof.
  induction T as [|s T IH]; intros ws Hl.
  - destruct ws; [reflexivity | simpl in Hl; lia].
  - destruct ws as [|w ws].
    + cbn [app length Nat.sub repeat zip_xor xor_in]. rewrite Z.lxor_0_r. f_equal.
      specialize (IH [] ltac:(simpl; lia)). cbn [app length] in IH. rewrite Nat.sub_0_r in IH.
      rewrite IH. apply xor_in_nil.
    + cbn [app length Nat.sub zip_xor xor_in]. f_equal. apply IH. simpl in Hl. lia.
Qed.

(* m_state[i] ^= w at the first lane not yet touched *)
Lemma xor_in_snoc T : forall ws w, (length ws < length T)%nat ->
  st_set (xor_in T ws) (length ws) (Z.lxor (st_get (xor_in T ws) (length ws)) w) = xor_in T (ws ++ [w]).
Proof.
  induction T as [|s T IH]; intros ws w Hl; [simpl in Hl; lia|].
  destruct ws as [|w0 ws].
  - cbn [app xor_in length]. unfold st_set, st_get. cbn [firstn skipn nth app].
    rewrite xor_in_nil. reflexivity.
  - cbn [app xor_in length]. unfold st_set, st_get in *. cbn [firstn skipn nth app].
    f_equal. apply IH. simpl in Hl. lia.
Qed.

Lemma st_set_set st i a b : (i < length st)%nat -> st_set (st_set st i a) i b = st_set st i b.
Proof.
  intros Hi. unfold st_set.
  assert (Hf : length (firstn i st) = i) by (apply firstn_length_le; lia).
  rewrite <- Hf at 1. rewrite firstn_exact_app.
  replace (S i) with (length (firstn i st ++ [a])) at 1 by (rewrite app_length, Hf; simpl; lia).
  replace (firstn i st ++ a :: skipn (S i) st) with ((firstn i st ++ [a]) ++ skipn (S i) st)
    by (rewrite <- app_assoc; reflexivity).
  rewrite skipn_exact_app. reflexivity.
Qed.

Lemma st_get_set st i a : (i < length st)%nat -> st_get (st_set st i a) i = a.
Proof.
  intros Hi. unfold st_set, st_get.
  assert (Hf : length (firstn i st) = i) by (apply firstn_length_le; lia).
  rewrite app_nth2 by lia. rewrite Hf, Nat.sub_diag. reflexivity.
Qed.

Lemma st_set_length st i a : (i < length st)%nat -> length (st_set st i a) = length st.
Proof.
  intros Hi. unfold st_set. rewrite app_length, firstn_length_le by lia. cbn [length].
  rewrite skipn_length. lia.
Qed.

(* ================= lanes into the sponge: the (m_state, m_pos) pair ================= *)
Notation absorb136 := (absorb (list Z) 136 sha3_absorb_block).
Notation process8 := (process (list Z * nat) 8 sha3_absorb_lane).

Lemma pos136 : (0 < 136)%nat. Proof. lia. Qed.

Lemma absorb136_pending sp d : length (snd (absorb136 sp d)) = (length (snd sp ++ d) mod 136)%nat.
Proof. exact (absorb_pending_length (list Z) 136 sha3_absorb_block pos136 sp d). Qed.

Lemma absorb136_from_empty T0 d :
  absorb136 (T0, []) d =
  (process (list Z) 136 sha3_absorb_block (length d / 136) T0 d, skipn (length d / 136 * 136) d).
Proof. reflexivity. Qed.

Lemma absorb136_absorb sp d1 d2 : absorb136 (absorb136 sp d1) d2 = absorb136 sp (d1 ++ d2).
Proof. exact (absorb_absorb (list Z) 136 sha3_absorb_block pos136 sp d1 d2). Qed.

(* (m_state, m_pos) represents the sponge state T with the whole lanes P absorbed into the current
   block: the lanes of P are already xored into T *)
Definition Rl (sp : list Z * nat) (SP : list Z * list N) : Prop :=
  fst sp = xor_in (fst SP) (le64_words (snd SP)) /\ length (snd SP) = (8 * snd sp)%nat /\
  (snd sp < 17)%nat /\ length (fst SP) = 25%nat.

Lemma absorb136_small T Q d : (length Q + length d < 136)%nat -> absorb136 (T, Q) d = (T, Q ++ d).
Proof.
  intros Hl. unfold absorb. cbn [fst snd].
  rewrite Nat.div_small by (rewrite app_length; exact Hl). reflexivity.
Qed.

Lemma absorb136_full T Q d : (length Q + length d = 136)%nat ->
  absorb136 (T, Q) d = (sha3_absorb_block T (Q ++ d), []).
Proof.
  intros Hl. unfold absorb. cbn [fst snd].
  assert (Hlen : length (Q ++ d) = 136%nat) by (rewrite app_length; exact Hl).
  rewrite Hlen. change (136 / 136)%nat with 1%nat. cbn [process].
  rewrite firstn_all2 by lia. rewrite skipn_all2 by lia. reflexivity.
Qed.

Lemma absorb_block_xor_in T block : length T = 25%nat -> length block = 136%nat ->
  sha3_absorb_block T block = keccak_f (xor_in T (le64_words block)).
Proof.
  intros HS Hb. unfold sha3_absorb_block.
  pose proof (le64_words_length 17 block Hb) as Hw.
  replace 8%nat with (length T - length (le64_words block))%nat by (rewrite HS, Hw; reflexivity).
  rewrite zip_xor_pad by lia. reflexivity.
Qed.

Lemma sha3_lane_refines sp T P lane8 :
  Rl sp (T, P) -> length lane8 = 8%nat -> Rl (sha3_absorb_lane sp lane8) (absorb136 (T, P) lane8).
Proof.
  destruct sp as [st pos]. intros (Hst & HP & Hpos & HS) Hlane. cbn [fst snd] in *.
  pose proof (le64_words_length pos P HP) as Hw.
  assert (Happ : le64_words (P ++ lane8) = le64_words P ++ [le_value lane8]).
  { rewrite (le64_words_app pos) by exact HP. rewrite (le64_words_8 lane8 Hlane). reflexivity. }
  unfold sha3_absorb_lane. cbn [fst snd]. cbv zeta. subst st.
  pose proof (xor_in_snoc T (le64_words P) (le_value lane8) ltac:(lia)) as Hsnoc. rewrite Hw in Hsnoc.
  rewrite Hsnoc. rewrite <- Happ.
  change SHA3_RATE_BUFFERS with 17%nat.
  destruct (S pos =? 17)%nat eqn:E.
  - apply Nat.eqb_eq in E.
    rewrite absorb136_full by lia.
    assert (Hlen : length (P ++ lane8) = 136%nat) by (rewrite app_length; lia).
    rewrite absorb_block_xor_in by assumption.
    unfold Rl. cbn [fst snd le64_words length].
    rewrite keccakf_cpp_eq by (rewrite xor_in_length; exact HS).
    rewrite xor_in_nil.
    refine (conj _ (conj _ (conj _ _))); try reflexivity; try lia.
    all: apply keccak_f_length; rewrite xor_in_length; exact HS.
  - apply Nat.eqb_neq in E.
    rewrite absorb136_small by lia.
    unfold Rl. cbn [fst snd].
    refine (conj _ (conj _ (conj _ _))); try reflexivity; try lia; try assumption.
    rewrite app_length. lia.
Qed.

(* the while loop: n whole lanes *)
Lemma sha3_lanes_refine n : forall data sp SP,
  Rl sp SP -> (8 * n <= length data)%nat ->
  Rl (process8 n sp data) (absorb136 SP (firstn (8 * n) data)).
Proof.
  induction n as [|n IH]; intros data sp SP HR Hl.
  - cbn [process]. change (8 * 0)%nat with 0%nat. cbn [firstn].
    destruct SP as [T P]. rewrite absorb136_small; [rewrite app_nil_r; exact HR|].
    destruct HR as (_ & HP & Hpos & _). cbn [fst snd length] in *. lia.
  - cbn [process].
    replace (8 * S n)%nat with (8 + 8 * n)%nat by lia. rewrite firstn_plus.
    rewrite <- (absorb_absorb _ _ _ pos136).
    apply IH.
    + destruct SP as [T P]. apply sha3_lane_refines; [exact HR|]. apply firstn_length_le. lia.
    + rewrite skipn_length. lia.
Qed.

(* ================= the object ================= *)
Lemma memcpy_as_app buf off src p :
  firstn off buf = p -> length p = off -> (off + length src <= length buf)%nat ->
  firstn (off + length src) (memcpy buf off src) = p ++ src /\ length (memcpy buf off src) = length buf.
Proof.
  intros Hp Hl Hle. unfold memcpy. rewrite Hp. split.
  - rewrite app_assoc. replace (off + length src)%nat with (length (p ++ src)) by (rewrite app_length; lia).
    apply firstn_exact_app.
  - rewrite !app_length, skipn_length. lia.
Qed.

(* the object represents the sponge state T with pending bytes Q = P ++ p: whole lanes P (already
   xored into m_state) and the partial lane p held in m_buffer *)
Definition Rsha3 (h : sha3_256) (SQ : list Z * list N) : Prop :=
  exists P p, snd SQ = P ++ p /\ Rl (m_state h, m_pos h) (fst SQ, P) /\
              m_bufsize h = length p /\ (length p < 8)%nat /\
              firstn (length p) (m_buffer h) = p /\ length (m_buffer h) = 8%nat.

Lemma div8_facts a : (8 * (a / 8) <= a /\ a - 8 * (a / 8) < 8)%nat.
Proof.
  pose proof (Nat.div_mod a 8 ltac:(lia)). pose proof (Nat.mod_upper_bound a 8 ltac:(lia)). lia.
Qed.

Lemma sha3_tail_refines h T P p data :
  Rl (m_state h, m_pos h) (T, P) -> m_bufsize h = length p ->
  firstn (length p) (m_buffer h) = p -> length (m_buffer h) = 8%nat ->
  (p = [] \/ (length p + length data < 8)%nat) ->
  Rsha3 (sha3_write_tail h data) (absorb136 (T, P ++ p) data).
Proof.
  intros HR Hbs Hpre Hbuf Hcase. unfold sha3_write_tail.
  destruct Hcase as [Hnil | Hsmall].
  - (* empty lane buffer: whole lanes straight from the input, the rest into the buffer *)
    subst p. rewrite app_nil_r. cbn [length] in *.
    set (n := (length data / 8)%nat).
    assert (Hn : (8 * n <= length data)%nat) by (unfold n; apply div8_facts).
    pose proof (sha3_lanes_refine n data _ _ HR Hn) as HR2.
    set (sp2 := process8 n (m_state h, m_pos h) data) in *.
    destruct (absorb136 (T, P) (firstn (8 * n) data)) as [S2 P2] eqn:Eabs.
    replace (n * 8)%nat with (8 * n)%nat by lia.
    set (data2 := skipn (8 * n) data).
    assert (Hl2 : (length data2 < 8)%nat) by (unfold data2, n; rewrite skipn_length; apply div8_facts).
    assert (Hfinal : absorb136 (T, P) data = (S2, P2 ++ data2)).
    { rewrite <- (firstn_skipn (8 * n) data) at 1. rewrite <- (absorb_absorb _ _ _ pos136), Eabs.
      fold data2. apply absorb136_small.
      destruct HR2 as (_ & HP2 & Hpos2 & _). cbn [fst snd] in *. lia. }
    rewrite Hfinal. rewrite Hbs.
    assert (HR2' : Rl (fst sp2, snd sp2) (S2, P2)) by (destruct sp2; exact HR2).
    destruct (0 <? length data2)%nat eqn:E.
    + exists P2, data2. cbn [fst snd m_state m_pos m_bufsize m_buffer].
      destruct (memcpy_as_app (m_buffer h) 0 data2 [] eq_refl eq_refl ltac:(lia)) as [Hm1 Hm2].
      refine (conj _ (conj _ (conj _ (conj _ (conj _ _))))); try reflexivity; try assumption; try lia.
      all: try (cbn [Nat.add] in Hm1; exact Hm1).
    + apply Nat.ltb_ge in E. assert (Hd2 : data2 = []) by (apply length_zero_nil; lia).
      exists P2, []. cbn [fst snd m_state m_pos m_bufsize m_buffer]. rewrite Hd2.
      refine (conj _ (conj _ (conj _ (conj _ (conj _ _))))); try reflexivity; try assumption.
      all: try (cbn [length]; lia).
  - (* not enough to complete the lane: everything is appended to the buffer *)
    assert (Hn0 : (length data / 8 = 0)%nat) by (apply Nat.div_small; lia).
    rewrite Hn0. cbn [process Nat.mul skipn].
    assert (HP : (length P <= 128)%nat) by (destruct HR as (_ & HP & Hpos & _); cbn [fst snd] in *; lia).
    rewrite absorb136_small by (rewrite app_length; lia).
    rewrite <- app_assoc.
    destruct (0 <? length data)%nat eqn:E.
    + exists P, (p ++ data). cbn [fst snd m_state m_pos m_bufsize m_buffer].
      rewrite Hbs.
      destruct (memcpy_as_app (m_buffer h) (length p) data p Hpre eq_refl ltac:(lia)) as [Hm1 Hm2].
      refine (conj _ (conj _ (conj _ (conj _ (conj _ _))))); try reflexivity; try assumption.
      * rewrite app_length. reflexivity.
      * rewrite app_length. lia.
      * rewrite app_length. exact Hm1.
      * lia.
    + apply Nat.ltb_ge in E. assert (Hd : data = []) by (apply length_zero_nil; lia).
      subst data. rewrite app_nil_r.
      exists P, p. cbn [fst snd m_state m_pos m_bufsize m_buffer].
      refine (conj _ (conj _ (conj _ (conj _ (conj _ _))))); try reflexivity; try assumption.
      cbn [length] in Hsmall. lia.
Qed.

Lemma sha3_write_refines h SQ data : Rsha3 h SQ -> Rsha3 (sha3_write h data) (absorb136 SQ data).
Proof.
  destruct SQ as [T Q]. intros (P & p & HQ & HR & Hbs & Hp8 & Hpre & Hbuf). cbn [fst snd] in *. subst Q.
  unfold sha3_write. rewrite Hbs.
  destruct (negb (length p =? 0)%nat && (8 - length p <=? length data)%nat) eqn:Ecase.
  - (* the lane buffer is completed and absorbed first *)
    apply andb_prop in Ecase. destruct Ecase as [Enz Efill].
    apply negb_true_iff, Nat.eqb_neq in Enz. apply Nat.leb_le in Efill.
    set (k := (8 - length p)%nat) in *.
    assert (Hkl : length (firstn k data) = k) by (apply firstn_length_le; lia).
    set (buf := memcpy (m_buffer h) (length p) (firstn k data)).
    assert (Hbufeq : buf = p ++ firstn k data).
    { unfold buf, memcpy. rewrite Hpre, Hkl. rewrite skipn_all2 by (unfold k; lia). rewrite app_nil_r. reflexivity. }
    assert (Hbuflen : length buf = 8%nat) by (rewrite Hbufeq, app_length, Hkl; unfold k; lia).
    pose proof (sha3_lane_refines _ T P buf HR Hbuflen) as HR1.
    set (sp1 := sha3_absorb_lane (m_state h, m_pos h) buf) in *.
    destruct (absorb136 (T, P) buf) as [S1 P1] eqn:Eabs.
    assert (Hsplit : absorb136 (T, P ++ p) data = absorb136 (S1, P1 ++ []) (skipn k data)).
    { rewrite <- (firstn_skipn k data) at 1. rewrite <- (absorb_absorb _ _ _ pos136). f_equal.
      rewrite app_nil_r, <- Eabs, Hbufeq. unfold absorb. cbn [fst snd]. rewrite !app_assoc. reflexivity. }
    rewrite Hsplit.
    apply sha3_tail_refines; cbn [m_state m_pos m_bufsize m_buffer length firstn]; try reflexivity.
    + destruct sp1; exact HR1.
    + exact Hbuflen.
    + left. reflexivity.
  - (* empty lane buffer, or not enough data to complete it *)
    apply sha3_tail_refines; try assumption.
    apply andb_false_iff in Ecase. destruct Ecase as [E | E].
    + left. apply negb_false_iff, Nat.eqb_eq in E. apply length_zero_nil. exact E.
    + right. apply Nat.leb_gt in E. lia.
Qed.

Lemma sha3_fold_write_refines chunks : forall h SQ,
  Rsha3 h SQ -> (length (snd SQ) < 136)%nat ->
  Rsha3 (fold_left sha3_write chunks h) (absorb136 SQ (concat chunks)).
Proof.
  induction chunks as [|c cs IH]; intros h SQ HR Hlt.
  - cbn [fold_left concat]. rewrite (absorb_nil _ _ _ pos136) by exact Hlt. exact HR.
  - cbn [fold_left concat]. rewrite <- (absorb_absorb _ _ _ pos136).
    apply IH; [apply sha3_write_refines; exact HR|].
    rewrite (absorb_pending_length _ _ _ pos136). apply Nat.mod_upper_bound. lia.
Qed.

Lemma sha3_init_refines ubuf : length ubuf = 8%nat -> Rsha3 (sha3_init ubuf) (repeat 0 25, []).
Proof.
  intros Hu. exists [], []. unfold sha3_init, Rl. cbn [fst snd m_state m_pos m_bufsize m_buffer app length firstn le64_words].
  rewrite xor_in_nil.
  refine (conj _ (conj (conj _ (conj _ (conj _ _))) (conj _ (conj _ (conj _ _))))); try reflexivity; try lia; exact Hu.
Qed.

(* ================= Finalize ================= *)
Lemma lxor_high_add x c n : 0 <= n -> 0 <= x < 2 ^ n -> Z.lxor x (Z.shiftl c n) = x + c * 2 ^ n.
Proof.
  intros Hn Hx. rewrite <- (lor_shiftl_add x c n Hn Hx). apply Z.lxor_lor.
  apply Z.bits_inj'. intros m Hm. rewrite Z.land_spec, Z.bits_0.
  destruct (Z_lt_le_dec m n) as [Hlt | Hge].
  - rewrite (Z.shiftl_spec_low c n m Hlt). apply andb_false_r.
  - rewrite <- (Z.mod_small x (2 ^ n) Hx). rewrite Z.mod_pow2_bits_high by lia. reflexivity.
Qed.

(* std::fill(m_buffer + m_bufsize, m_buffer + 8, 0); m_buffer[m_bufsize] ^= 0x06; *)
Lemma finalize_buffer buffer p :
  firstn (length p) buffer = p -> (length p < 8)%nat ->
  firstn (length p) (firstn (length p) buffer ++ zeros (8 - length p)) ++
  N.lxor (nth (length p) (firstn (length p) buffer ++ zeros (8 - length p)) 0%N) 6 ::
  skipn (S (length p)) (firstn (length p) buffer ++ zeros (8 - length p))
  = p ++ 6%N :: zeros (7 - length p).
Proof.
  intros Hpre Hp. rewrite Hpre.
  replace (8 - length p)%nat with (S (7 - length p)) by lia.
  unfold zeros. cbn [repeat].
  rewrite firstn_exact_app. rewrite app_nth2 by lia. rewrite Nat.sub_diag. cbn [nth].
  replace (S (length p)) with (length (p ++ [0%N])) by (rewrite app_length; simpl; lia).
  replace (p ++ 0%N :: repeat 0%N (7 - length p)) with ((p ++ [0%N]) ++ repeat 0%N (7 - length p))
    by (rewrite <- app_assoc; reflexivity).
  rewrite skipn_exact_app. reflexivity.
Qed.

Lemma bytes_ok_inv a l : bytes_ok (a :: l) -> (a < 256)%N /\ bytes_ok l.
Proof. intros H. inversion H; subst. split; assumption. Qed.

(* the last lane when the padding starts in lane 16: both the 0x06 and the final 0x80 fall in it *)
Lemma last_lane_16 p : bytes_ok p -> (length p < 8)%nat ->
  Z.lxor (le_value (p ++ 6%N :: zeros (7 - length p))) 0x8000000000000000 =
  le_value (p ++ sha3_pad (128 + length p)).
Proof.
  intros Hok Hp.
  change 0x8000000000000000 with (Z.shiftl 1 63).
  assert (Hpad : sha3_pad (128 + length p) =
                 if (length p =? 7)%nat then [134%N] else 6%N :: zeros (6 - length p) ++ [128%N]).
  { unfold sha3_pad, SHA3_RATE. rewrite Nat.mod_small by lia.
    destruct (length p =? 7)%nat eqn:E.
    - apply Nat.eqb_eq in E. rewrite E. reflexivity.
    - apply Nat.eqb_neq in E.
      assert (E1 : (136 - (128 + length p) =? 1)%nat = false) by (apply Nat.eqb_neq; lia).
      rewrite E1. replace (136 - (128 + length p) - 2)%nat with (6 - length p)%nat by lia. reflexivity. }
  rewrite Hpad. clear Hpad.
  destruct p as [|a0 [|a1 [|a2 [|a3 [|a4 [|a5 [|a6 [|a7 r]]]]]]]];
    try (simpl in Hp; lia);
    repeat match goal with H : bytes_ok (_ :: _) |- _ => apply bytes_ok_inv in H; destruct H as [? H] end;
    cbn [length Nat.eqb Nat.sub zeros repeat app];
    (rewrite lxor_high_add; [cbn [le_value]; lia | lia | cbn [le_value]; lia]).
Qed.

Lemma first4_lanes st : length st = 25%nat ->
  le_bytes 8 (st_get st 0) ++ le_bytes 8 (st_get st 1) ++ le_bytes 8 (st_get st 2) ++ le_bytes 8 (st_get st 3) =
  concat (map (le_bytes 8) (firstn 4 st)).
Proof.
  intros Hl. destruct st as [|s0 [|s1 [|s2 [|s3 st]]]]; try discriminate Hl.
  unfold st_get. cbn [nth firstn map concat]. rewrite app_nil_r. reflexivity.
Qed.

Lemma sha3_finalize_refines h T Q :
  Rsha3 h (T, Q) -> bytes_ok Q ->
  sha3_finalize h =
  concat (map (le_bytes 8) (firstn 4 (sha3_absorb_block T (Q ++ sha3_pad (length Q))))).
Proof.
  intros (P & p & HQ & HR & Hbs & Hp8 & Hpre & Hbuf) Hok. cbn [fst snd] in *. subst Q.
  destruct HR as (Hst & HP & Hpos & HS). cbn [fst snd] in *.
  set (pos := m_pos h) in *.
  pose proof (le64_words_length pos P HP) as Hw.
  assert (Hokp : bytes_ok p).
  { unfold bytes_ok in *. apply Forall_app in Hok. apply Hok. }
  unfold sha3_finalize. cbv zeta. rewrite Hbs.
  rewrite (finalize_buffer (m_buffer h) p Hpre Hp8).
  set (L1 := le_value (p ++ 6%N :: zeros (7 - length p))).
  fold pos. rewrite Hst.
  change SHA3_RATE_BUFFERS with 17%nat. change (17 - 1)%nat with 16%nat.
  cbv zeta.
  pose proof (xor_in_snoc T (le64_words P) L1 ltac:(lia)) as Hsnoc. rewrite Hw in Hsnoc. rewrite Hsnoc.
  (* the block the specification absorbs *)
  set (F := (P ++ p) ++ sha3_pad (length (P ++ p))).
  assert (Hlanes :
    st_set (xor_in T (le64_words P ++ [L1])) 16
           (Z.lxor (st_get (xor_in T (le64_words P ++ [L1])) 16) 0x8000000000000000) =
    xor_in T (le64_words F) /\ length F = 136%nat).
  { destruct (Nat.eq_dec pos 16) as [E16 | Ene].
    - (* the padding starts in the last lane of the rate *)
      assert (HP128 : length P = 128%nat) by lia.
      assert (HF : F = P ++ (p ++ sha3_pad (128 + length p))).
      { unfold F. rewrite app_length, HP128, <- app_assoc. reflexivity. }
      assert (Hplen : length (p ++ sha3_pad (128 + length p)) = 8%nat).
      { rewrite app_length. unfold sha3_pad, SHA3_RATE. rewrite Nat.mod_small by lia.
        destruct (136 - (128 + length p) =? 1)%nat eqn:E1.
        - apply Nat.eqb_eq in E1. simpl length. lia.
        - apply Nat.eqb_neq in E1. cbn [length]. rewrite app_length, zeros_length. simpl length. lia. }
      split; [|rewrite HF, app_length, Hplen; lia].
      rewrite HF, (le64_words_app pos) by exact HP. rewrite (le64_words_8 _ Hplen).
      rewrite <- (last_lane_16 p Hokp Hp8). fold L1.
      rewrite <- (xor_in_snoc T (le64_words P) L1) by lia.
      rewrite Hw, E16.
      rewrite st_set_set by (rewrite xor_in_length; lia).
      rewrite st_get_set by (rewrite xor_in_length; lia).
      rewrite <- (xor_in_snoc T (le64_words P)) by lia. rewrite Hw, E16.
      rewrite Z.lxor_assoc. reflexivity.
    - (* 0x06 in lane pos < 16, zero lanes, 0x80 at the top of lane 16 *)
      assert (Hq : sha3_pad (length (P ++ p)) =
                   (6%N :: zeros (7 - length p)) ++ zeros (8 * (15 - pos)) ++ (zeros 7 ++ [128%N])).
      { unfold sha3_pad, SHA3_RATE. rewrite app_length. rewrite Nat.mod_small by lia.
        assert (E1 : (136 - (length P + length p) =? 1)%nat = false) by (apply Nat.eqb_neq; lia).
        rewrite E1.
        replace (136 - (length P + length p) - 2)%nat with ((7 - length p) + (8 * (15 - pos) + 7))%nat by lia.
        rewrite !zeros_app. cbn [app]. rewrite <- !app_assoc. reflexivity. }
      assert (HF : F = P ++ (p ++ 6%N :: zeros (7 - length p)) ++ zeros (8 * (15 - pos)) ++ (zeros 7 ++ [128%N])).
      { unfold F. rewrite Hq. rewrite <- !app_assoc. reflexivity. }
      assert (Hl1 : length (p ++ 6%N :: zeros (7 - length p)) = 8%nat).
      { rewrite app_length. cbn [length]. rewrite zeros_length. lia. }
      split.
      2:{ rewrite HF. rewrite !app_length. cbn [length]. rewrite !zeros_length. lia. }
      rewrite HF.
      rewrite (le64_words_app pos) by exact HP.
      rewrite (le64_words_app 1 (p ++ 6%N :: zeros (7 - length p))) by exact Hl1.
      rewrite (le64_words_8 _ Hl1).
      rewrite (le64_words_app (15 - pos) (zeros (8 * (15 - pos)))) by apply zeros_length.
      rewrite le64_words_zeros. fold L1.
      change (le64_words (zeros 7 ++ [128%N])) with [0x8000000000000000].
      rewrite <- (xor_in_app_zeros T (le64_words P ++ [L1]) (15 - pos)).
      assert (Hlen16 : length ((le64_words P ++ [L1]) ++ repeat 0 (15 - pos)) = 16%nat).
      { rewrite !app_length, repeat_length, Hw. simpl length. lia. }
      pose proof (xor_in_snoc T ((le64_words P ++ [L1]) ++ repeat 0 (15 - pos)) 0x8000000000000000 ltac:(lia)) as Hsnoc2.
      rewrite Hlen16 in Hsnoc2. rewrite Hsnoc2.
      rewrite <- !app_assoc. reflexivity. }
  destruct Hlanes as [Hlanes HFlen]. rewrite Hlanes.
  rewrite keccakf_cpp_eq by (rewrite xor_in_length; exact HS).
  rewrite <- absorb_block_xor_in by assumption.
  apply first4_lanes. rewrite absorb_block_xor_in by assumption.
  apply keccak_f_length. rewrite xor_in_length. exact HS.
Qed.

(* ================= the specification as one more absorb ================= *)
Lemma sha3_pad_length len : ((len + length (sha3_pad len)) mod 136 = 0)%nat /\ (1 <= length (sha3_pad len) <= 136)%nat.
Proof.
  unfold sha3_pad, SHA3_RATE.
  pose proof (Nat.mod_upper_bound len 136 ltac:(lia)) as Hub.
  pose proof (Nat.div_mod len 136 ltac:(lia)) as Hdm.
  destruct (136 - len mod 136 =? 1)%nat eqn:E.
  - apply Nat.eqb_eq in E. cbn [length]. split; [|lia].
    replace (len + 1)%nat with (0 + (len / 136 + 1) * 136)%nat by lia. rewrite Nat.mod_add by lia. reflexivity.
  - apply Nat.eqb_neq in E. cbn [length]. rewrite app_length, zeros_length. cbn [length]. split; [|lia].
    replace (len + S (136 - len mod 136 - 2 + 1))%nat with (0 + (len / 136 + 1) * 136)%nat by lia.
    rewrite Nat.mod_add by lia. reflexivity.
Qed.

Lemma spec_as_absorb msg :
  let SQ := absorb136 (repeat 0 25, []) msg in
  sha3_256_spec msg =
  concat (map (le_bytes 8) (firstn 4 (sha3_absorb_block (fst SQ) (snd SQ ++ sha3_pad (length msg))))).
Proof.
  cbv zeta.
  destruct (sha3_pad_length (length msg)) as [Hmod Hrange].
  (* pending bytes after the message: length msg mod 136 *)
  pose proof (absorb136_pending (repeat 0 25, []) msg) as Hpend. cbn [snd app] in Hpend.
  destruct (absorb136 (repeat 0 25, []) msg) as [T Q] eqn:Eabs. cbn [fst snd] in *.
  (* padded length is a multiple of the rate; the pad alone completes exactly one block after Q *)
  assert (HQpad : (length Q + length (sha3_pad (length msg)) = 136)%nat).
  { pose proof (Nat.mod_upper_bound (length msg) 136 ltac:(lia)) as Hub.
    pose proof (Nat.div_mod (length msg) 136 ltac:(lia)) as Hdm.
    pose proof (Nat.div_mod (length msg + length (sha3_pad (length msg))) 136 ltac:(lia)) as Hdm2.
    rewrite Hmod in Hdm2. rewrite Hpend.
    set (k2 := ((length msg + length (sha3_pad (length msg))) / 136)%nat) in *.
    set (k1 := (length msg / 136)%nat) in *.
    set (r := (length msg mod 136)%nat) in *.
    set (pl := length (sha3_pad (length msg))) in *.
    clearbody k2 k1 r pl. lia. }
  pose proof (absorb136_absorb (repeat 0 25, []) msg (sha3_pad (length msg))) as Haa.
  rewrite Eabs in Haa. rewrite absorb136_full in Haa by exact HQpad.
  apply (f_equal fst) in Haa. rewrite absorb136_from_empty in Haa. cbn [fst] in Haa.
  unfold sha3_256_spec, sha3_padded, SHA3_RATE. rewrite <- Haa. reflexivity.
Qed.

(* ================= MAIN THEOREM =================
   SHA3_256().Write(c1)...Write(cn).Finalize(out) writes SHA3-256(c1 || ... || cn), for every
   fragmentation and every total length (m_bufsize < 8 and m_pos < 17 are the only counters: no
   length bound), whatever the initial contents of the uninitialised m_buffer.  bytes_ok: every
   element of the chunks is a byte (the C++ type is unsigned char). *)
Theorem sha3_stream_eq_spec ubuf chunks :
  length ubuf = 8%nat -> bytes_ok (concat chunks) ->
  sha3_finalize (fold_left sha3_write chunks (sha3_init ubuf)) = sha3_256_spec (concat chunks).
Proof.
  intros Hu Hok. set (msg := concat chunks) in *.
  pose proof (sha3_fold_write_refines chunks _ _ (sha3_init_refines ubuf Hu) ltac:(simpl; lia)) as HR.
  fold msg in HR.
  rewrite spec_as_absorb.
  pose proof (absorb136_pending (repeat 0 25, []) msg) as Hpend. cbn [snd app] in Hpend.
  destruct (absorb136 (repeat 0 25, []) msg) as [T Q] eqn:Eabs. cbn [fst snd] in *.
  assert (HQ : Q = skipn (length msg / 136 * 136) msg).
  { rewrite absorb136_from_empty in Eabs. inversion Eabs. reflexivity. }
  assert (HokQ : bytes_ok Q).
  { rewrite HQ. unfold bytes_ok in *. rewrite <- (firstn_skipn (length msg / 136 * 136) msg) in Hok.
    apply Forall_app in Hok. apply Hok. }
  rewrite (sha3_finalize_refines _ T Q HR HokQ).
  (* the padding depends on the length mod 136 only *)
  assert (Hpad : sha3_pad (length Q) = sha3_pad (length msg)).
  { unfold sha3_pad, SHA3_RATE. rewrite Hpend. rewrite Nat.mod_mod by lia. reflexivity. }
  rewrite Hpad. reflexivity.
Qed.

Corollary sha3_chunking_independent ubuf1 ubuf2 chunks1 chunks2 :
  length ubuf1 = 8%nat -> length ubuf2 = 8%nat ->
  concat chunks1 = concat chunks2 -> bytes_ok (concat chunks1) ->
  sha3_stream ubuf1 chunks1 = sha3_stream ubuf2 chunks2.
Proof.
  intros H1 H2 E Hok. unfold sha3_stream.
  rewrite !sha3_stream_eq_spec by (try rewrite <- E; assumption). rewrite E. reflexivity.
Qed.

Lemma keccak_f_length_any st : length (keccak_f st) = 25%nat.
Proof.
  unfold keccak_f, keccak_RC. rewrite fold_left_cons. apply keccak_fold_length. apply keccak_round_length.
Qed.

Lemma sha3_256_spec_length msg : length (sha3_256_spec msg) = 32%nat.
Proof.
  rewrite spec_as_absorb. cbv zeta.
  set (st := sha3_absorb_block _ _).
  assert (Hl : length st = 25%nat) by apply keccak_f_length_any.
  destruct st as [|s0 [|s1 [|s2 [|s3 st]]]]; try discriminate Hl.
  cbn [firstn map concat]. rewrite !app_length, !le_bytes_length. reflexivity.
Qed.
