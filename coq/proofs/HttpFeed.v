(* The connection: feeding a byte stream in fragments or at once gives the same state; C52. *)
From BV Require Import lib.Ints gen.Params_gen model.Http proofs.HttpLoop proofs.HttpHeaders proofs.HttpBody proofs.HttpRequest.
Local Open Scope Z_scope.

Definition dinv (st : dispatch_state) : Prop :=
  match st with (q, _, err) => err = None -> req_inv q end.

Lemma read_request_phase q buf : buf <> [] -> read_request q buf = phase q buf.
Proof.
  intros Hne. destruct buf as [|c t]; [contradiction|]. unfold read_request, phase.
  destruct (rq_state q); reflexivity.
Qed.

Lemma req_inv_new : req_inv new_request.
Proof. unfold req_inv, new_request, fresh. simpl. auto. Qed.

(* dispatch_body on a non-empty buffer, spelled out with [phase] *)
Lemma dispatch_body_nonempty q done buf : buf <> [] ->
  dispatch_body (q, done, None) buf =
    match phase q buf with
    | Throw e q' => Need (set_state Error q', done, Some e) []
    | Ret true q' rest =>
      match rest with
      | [] => Need (new_request, done ++ [q'], None) []
      | _ => Adv (new_request, done ++ [q'], None) rest
      end
    | Ret false q' rest => Need (q', done, None) rest
    end.
Proof.
  intros Hne. unfold dispatch_body. destruct buf as [|c t]; [contradiction|].
  rewrite (read_request_phase q (c :: t)) by discriminate. reflexivity.
Qed.

Lemma dispatch_spec st buf : dinv st ->
  match dispatch_body st buf with
  | Need st' r' => dinv st' /\
      forall y, dispatch_body st (buf ++ y) = dispatch_body st' (r' ++ y) \/ dispatch_body st (buf ++ y) = Adv st' (r' ++ y)
  | Adv st' r' => dinv st' /\ (length r' < length buf)%nat /\ forall y, dispatch_body st (buf ++ y) = Adv st' (r' ++ y)
  | Fail _ _ => False
  | Done _ _ => False
  end.
Proof.
  destruct st as [[q done] err]. intros Hinv. destruct err as [e0|].
  { (* after an error nothing is read *)
    simpl. split; [exact Hinv|]. intros y. left. reflexivity. }
  destruct buf as [|c t].
  { simpl. split; [exact Hinv|]. intros y. now left. }
  assert (Hq : req_inv q) by (apply Hinv; reflexivity).
  assert (Hne : forall y, (c :: t) ++ y <> []) by (intros y; discriminate).
  rewrite (dispatch_body_nonempty q done (c :: t)) by discriminate.
  pose proof (fun y => phase_resume q (c :: t) y Hq) as Hp.
  destruct (phase q (c :: t)) as [[|] q' rest|e qf] eqn:Eph.
  - (* a complete request *)
    destruct rest as [|c1 t1].
    + split; [intros _; apply req_inv_new|]. intros y.
      rewrite (dispatch_body_nonempty q done ((c :: t) ++ y)) by apply Hne.
      destruct (Hp y) as [Hy _]. rewrite Hy. simpl app.
      destruct y as [|c0 t0]; [left; reflexivity | right; reflexivity].
    + split; [intros _; apply req_inv_new|]. split.
      * destruct (Hp []) as [_ Hd]. apply Hd. discriminate.
      * intros y. rewrite (dispatch_body_nonempty q done ((c :: t) ++ y)) by apply Hne.
        destruct (Hp y) as [Hy _]. rewrite Hy. reflexivity.
  - (* more data needed *)
    destruct (Hp []) as (_ & Hq' & _).
    split; [intros _; exact Hq'|]. intros y. left.
    destruct (rest ++ y) as [|c1 t1] eqn:Er.
    + (* nothing was added and nothing is left *)
      apply app_eq_nil in Er. destruct Er as [-> ->]. rewrite app_nil_r.
      rewrite (dispatch_body_nonempty q done (c :: t)) by discriminate. rewrite Eph. reflexivity.
    + rewrite <- Er.
      rewrite (dispatch_body_nonempty q done ((c :: t) ++ y)) by apply Hne.
      rewrite (dispatch_body_nonempty q' done (rest ++ y)) by (rewrite Er; discriminate).
      destruct (Hp y) as (Hy & _ & _). rewrite Hy. reflexivity.
  - (* exception *)
    split; [intros Hn; discriminate|]. intros y. left.
    rewrite (dispatch_body_nonempty q done ((c :: t) ++ y)) by apply Hne.
    rewrite (Hp y). reflexivity.
Qed.

Lemma dispatch_loop_resume st buf y : dinv st ->
  match run_loop dispatch_body st buf with
  | LNeed st' r' => dinv st' /\ run_loop dispatch_body st (buf ++ y) = run_loop dispatch_body st' (r' ++ y)
  | _ => False
  end.
Proof.
  intros Hinv.
  assert (Hdecr : forall s r0 s' r', dinv s -> dispatch_body s r0 = Adv s' r' -> (length r' < length r0)%nat).
  { intros s r0 s' r' Hi E. pose proof (dispatch_spec s r0 Hi) as H. rewrite E in H. tauto. }
  assert (Hia : forall s r0 s' r', dinv s -> dispatch_body s r0 = Adv s' r' -> dinv s').
  { intros s r0 s' r' Hi E. pose proof (dispatch_spec s r0 Hi) as H. rewrite E in H. tauto. }
  assert (Hin : forall s r0 s' r', dinv s -> dispatch_body s r0 = Need s' r' -> dinv s').
  { intros s r0 s' r' Hi E. pose proof (dispatch_spec s r0 Hi) as H. rewrite E in H. tauto. }
  pose proof (run_loop_resume dispatch_body dinv Hdecr Hia Hin) as H.
  specialize (H (fun s r0 sf e y0 Hi E => ltac:(pose proof (dispatch_spec s r0 Hi) as H0; rewrite E in H0; contradiction))).
  specialize (H (fun s r0 s' r' y0 Hi E => ltac:(pose proof (dispatch_spec s r0 Hi) as H0; rewrite E in H0; contradiction))).
  specialize (H (fun s r0 s' r' y0 Hi E => ltac:(pose proof (dispatch_spec s r0 Hi) as H0; rewrite E in H0; exact (proj2 (proj2 H0) y0)))).
  specialize (H (fun s r0 s' r' y0 Hi E => ltac:(pose proof (dispatch_spec s r0 Hi) as H0; rewrite E in H0; exact (proj2 H0 y0)))).
  specialize (H st buf y Hinv).
  destruct (run_loop dispatch_body st buf) as [st' r'|sf e|st' r'|] eqn:E; auto.
  - (* no Fail *)
    exfalso. clear - E Hinv Hia. unfold run_loop in E.
    remember (Datatypes.S (length buf)) as f eqn:Hf. clear Hf. revert st buf Hinv E.
    induction f as [|f IH]; intros st buf Hinv E; simpl in E; [discriminate|].
    pose proof (dispatch_spec st buf Hinv) as Hs.
    destruct (dispatch_body st buf) as [s1 r1|sf1 e1|s1 r1|s1 r1] eqn:Eb; try discriminate; try contradiction.
    eapply IH; [|exact E]. tauto.
  - (* no Done *)
    exfalso. clear - E Hinv Hia. unfold run_loop in E.
    remember (Datatypes.S (length buf)) as f eqn:Hf. clear Hf. revert st buf Hinv E.
    induction f as [|f IH]; intros st buf Hinv E; simpl in E; [discriminate|].
    pose proof (dispatch_spec st buf Hinv) as Hs.
    destruct (dispatch_body st buf) as [s1 r1|sf1 e1|s1 r1|s1 r1] eqn:Eb; try discriminate; try contradiction.
    eapply IH; [|exact E]. tauto.
Qed.

(* ---------------------------------------------------------------------------------------------- *)
(* feed *)

Definition client_inv (c : client) : Prop := dinv (cl_req c, cl_dispatched c, cl_error c).

Lemma client_inv_new : client_inv new_client.
Proof. unfold client_inv, new_client. simpl. intros _. apply req_inv_new. Qed.

Lemma feed_inv c a : client_inv c -> client_inv (feed c a).
Proof.
  intros Hc. unfold feed.
  pose proof (dispatch_loop_resume (cl_req c, cl_dispatched c, cl_error c) (cl_buffer c ++ a) [] Hc) as H.
  destruct (run_loop dispatch_body _ (cl_buffer c ++ a)) as [st' r'|sf e|st' r'|]; try contradiction.
  destruct H as [Hi _]. destruct st' as [[q d] e]. exact Hi.
Qed.

(* THE theorem: two reads, or one read of the concatenation *)
Theorem feed_app c a b : client_inv c -> feed (feed c a) b = feed c (a ++ b).
Proof.
  intros Hc. unfold feed at 2 3.
  pose proof (dispatch_loop_resume (cl_req c, cl_dispatched c, cl_error c) (cl_buffer c ++ a) b Hc) as H.
  rewrite (app_assoc (cl_buffer c) a b).
  destruct (run_loop dispatch_body _ (cl_buffer c ++ a)) as [st' r'|sf e|st' r'|]; try contradiction.
  destruct H as [Hi H]. rewrite H. unfold feed. destruct st' as [[q d] e].
  cbn [client_of cl_req cl_dispatched cl_error cl_buffer].
  pose proof (dispatch_loop_resume (q, d, e) (r' ++ b) [] Hi) as H2.
  destruct (run_loop dispatch_body (q, d, e) (r' ++ b)) as [st2 r2|sf2 e2|st2 r2|]; try contradiction.
  reflexivity.
Qed.

Lemma feed_all_from c a frags : client_inv c -> feed_all (feed c a) frags = feed c (a ++ concat frags).
Proof.
  revert a. induction frags as [|f frags IH]; intros a Hc; simpl.
  - now rewrite app_nil_r.
  - rewrite (feed_app c a f Hc). rewrite IH by exact Hc. now rewrite app_assoc.
Qed.

Lemma feed_new_nil : feed new_client [] = new_client.
Proof. reflexivity. Qed.

(* any fragmentation of a stream on a new connection *)
Theorem feed_all_new frags : feed_all new_client frags = feed new_client (concat frags).
Proof.
  rewrite <- feed_new_nil at 1. rewrite (feed_all_from new_client [] frags client_inv_new). reflexivity.
Qed.

Theorem fragmentation_independent frags1 frags2 : concat frags1 = concat frags2 ->
  feed_all new_client frags1 = feed_all new_client frags2.
Proof. intros H. now rewrite !feed_all_new, H. Qed.
