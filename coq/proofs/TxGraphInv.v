(* C25: invariants of the interface-level model and its agreement with the eager naive graph
   (the closure l_H over everything ever accepted, restricted to the live transactions), for every
   operation sequence whose removals satisfy the condition txgraph.h states. *)
From Coq Require Import List ZArith Bool Arith Lia Relations.
From BV Require Import lib.Ints model.Fee model.Lin model.TxGraph proofs.LinLemmas proofs.TxGraphRel proofs.TxGraphCluster.
Import ListNotations.

(* ------------------------------------------------------------------------------------------- *)
(* removal of a set on one level *)
Definition lv_rm_set (s : nat -> bool) (lv : level) : level :=
  mkLevel (filter (fun t => negb (s (fst t))) (l_txs lv)) (rm_set s (l_A lv)) (rm_set s (l_P lv)) (l_H lv).

Lemma lv_rm_as_set i lv : lv_rm i lv = lv_rm_set (fun y => Nat.eqb y i) lv.
Proof. reflexivity. Qed.

Lemma filter_filter {A} (f g : A -> bool) l : filter g (filter f l) = filter (fun x => f x && g x) l.
Proof.
  induction l as [| x l IH]; simpl; [reflexivity |].
  destruct (f x) eqn:E; simpl; [destruct (g x); rewrite IH; reflexivity | exact IH].
Qed.

Lemma lv_rm_set_twice s t lv : lv_rm_set s (lv_rm_set t lv) = lv_rm_set (fun y => t y || s y) lv.
Proof.
  unfold lv_rm_set. simpl. rewrite !rm_set_rm_set, filter_filter. f_equal.
  apply filter_ext. intros x. rewrite negb_orb. reflexivity.
Qed.

Lemma lv_rm_set_ext s t lv : (forall y, s y = t y) -> lv_rm_set s lv = lv_rm_set t lv.
Proof.
  intros H. unfold lv_rm_set. rewrite (rm_set_ext s t _ H), (rm_set_ext s t _ H). f_equal.
  apply filter_ext. intros x. rewrite H. reflexivity.
Qed.

Lemma lv_rm_set_none lv : lv_rm_set (fun _ => false) lv = lv.
Proof.
  unfold lv_rm_set. rewrite !rm_set_none. destruct lv as [txs A P H]. simpl. f_equal.
  induction txs as [| t txs IH]; simpl; [reflexivity | f_equal; exact IH].
Qed.

Lemma fold_lv_rm removed : forall lv,
  fold_left (fun l i => lv_rm i l) removed lv = lv_rm_set (fun y => memn y removed) lv.
Proof.
  induction removed as [| i r IH]; intros lv; simpl.
  - symmetry. apply lv_rm_set_none.
  - rewrite IH, lv_rm_as_set, lv_rm_set_twice. apply lv_rm_set_ext. intros y. reflexivity.
Qed.

(* ------------------------------------------------------------------------------------------- *)
Lemma live_In lv x : live lv x = true <-> In x (ids lv).
Proof. unfold live. apply memn_In. Qed.

Lemma ids_rm_set s lv : ids (lv_rm_set s lv) = filter (fun x => negb (s x)) (ids lv).
Proof.
  unfold ids, lv_rm_set. simpl. induction (l_txs lv) as [| t l IH]; simpl; [reflexivity |].
  destruct (s (fst t)); simpl; [exact IH | f_equal; exact IH].
Qed.

Lemma ids_add i f lv : ids (lv_add i f lv) = ids lv ++ [i].
Proof. unfold ids, lv_add. simpl. rewrite map_app. reflexivity. Qed.

Lemma ids_fee i f lv : ids (lv_fee i f lv) = ids lv.
Proof.
  unfold ids, lv_fee. simpl. rewrite map_map. apply map_ext. intros t. destruct (Nat.eqb (fst t) i); reflexivity.
Qed.

Lemma NoDup_snoc {A} (l : list A) x : NoDup l -> ~ In x l -> NoDup (l ++ [x]).
Proof.
  intros N H. induction N as [| y l Hy N IH]; simpl.
  - constructor; [intros [] | constructor].
  - constructor.
    + rewrite in_app_iff. simpl. intros [H1 | [H1 | []]]; [contradiction | subst; apply H; left; reflexivity].
    + apply IH. intros H1. apply H. right. exact H1.
Qed.

(* well-formed level *)
Record lv_wf (lv : level) : Prop := {
  wf_nodup : NoDup (ids lv);
  wf_A_trans : trans (l_A lv);
  wf_A_ends : ends_in (l_A lv) (fun x => In x (ids lv));
  wf_P_ends : ends_in (l_P lv) (fun x => In x (ids lv));
  wf_H_trans : trans (l_H lv)
}.

Lemma would_trans lv : lv_wf lv -> trans (would lv).
Proof. intros W. apply apply_deps_trans. apply (wf_A_trans _ W). Qed.
Lemma would_ends lv : lv_wf lv -> ends_in (would lv) (fun x => In x (ids lv)).
Proof. intros W. apply apply_deps_ends; [apply (wf_A_trans _ W) | apply (wf_A_ends _ W) | apply (wf_P_ends _ W)]. Qed.
Lemma would_tc lv a d : lv_wf lv -> (In (a, d) (would lv) <-> tc (l_A lv ++ l_P lv) a d).
Proof. intros W. apply apply_deps_tc. apply (wf_A_trans _ W). Qed.

Lemma empty_wf : lv_wf empty_level.
Proof. split; simpl; try (intros a b c []); try (intros a d []); constructor. Qed.

Lemma ends_in_weaken R (S T : nat -> Prop) : (forall x, S x -> T x) -> ends_in R S -> ends_in R T.
Proof. intros H E a d Hin. destruct (E a d Hin). auto. Qed.

Lemma lv_add_wf i f lv : lv_wf lv -> ~ In i (ids lv) -> lv_wf (lv_add i f lv).
Proof.
  intros W Hi. split; simpl.
  - rewrite ids_add. apply NoDup_snoc; [apply (wf_nodup _ W) | exact Hi].
  - apply (wf_A_trans _ W).
  - apply (ends_in_weaken _ (fun x => In x (ids lv))); [| apply (wf_A_ends _ W)]. intros x Hx. rewrite ids_add. apply in_or_app. auto.
  - apply (ends_in_weaken _ (fun x => In x (ids lv))); [| apply (wf_P_ends _ W)]. intros x Hx. rewrite ids_add. apply in_or_app. auto.
  - apply (wf_H_trans _ W).
Qed.

Lemma lv_rm_set_wf s lv : lv_wf lv -> lv_wf (lv_rm_set s lv).
Proof.
  intros W. split; simpl.
  - rewrite ids_rm_set. apply NoDup_filter. apply (wf_nodup _ W).
  - apply rm_set_trans. apply (wf_A_trans _ W).
  - intros a d Hin. destruct (rm_set_ends s _ _ (wf_A_ends _ W) a d Hin) as [[Ha Ha'] [Hd Hd']].
    rewrite ids_rm_set, !filter_In, Ha', Hd'. auto.
  - intros a d Hin. destruct (rm_set_ends s _ _ (wf_P_ends _ W) a d Hin) as [[Ha Ha'] [Hd Hd']].
    rewrite ids_rm_set, !filter_In, Ha', Hd'. auto.
  - apply (wf_H_trans _ W).
Qed.

Lemma lv_dep_wf p c lv : lv_wf lv -> lv_wf (lv_dep p c lv).
Proof.
  intros W. unfold lv_dep. destruct (Nat.eqb p c || rmem (c, p) (l_H lv)); [exact W |].
  destruct (live lv p && live lv c) eqn:L; [| exact W]. apply andb_true_iff in L. destruct L as [Lp Lc].
  apply live_In in Lp. apply live_In in Lc. split; simpl.
  - apply (wf_nodup _ W).
  - apply (wf_A_trans _ W).
  - apply (wf_A_ends _ W).
  - intros a d Hin. apply in_app_or in Hin. destruct Hin as [Hin | [Hin | []]]; [apply (wf_P_ends _ W); exact Hin |].
    inversion Hin. subst. auto.
  - apply add_closed_trans. apply (wf_H_trans _ W).
Qed.

Lemma lv_fee_wf i f lv : lv_wf lv -> lv_wf (lv_fee i f lv).
Proof.
  intros W. split; simpl; try rewrite ids_fee.
  - apply (wf_nodup _ W).
  - apply (wf_A_trans _ W).
  - apply (wf_A_ends _ W).
  - apply (wf_P_ends _ W).
  - apply (wf_H_trans _ W).
Qed.

Lemma lv_apply_wf ov lv : lv_wf lv -> lv_wf (lv_apply ov lv).
Proof.
  intros W. unfold lv_apply. destruct ov; [exact W |]. split; simpl.
  - apply (wf_nodup _ W).
  - exact (would_trans lv W).
  - exact (would_ends lv W).
  - intros a d [].
  - apply (wf_H_trans _ W).
Qed.

(* ------------------------------------------------------------------------------------------- *)
(* agreement with the naive graph *)
Definition agrees (lv : level) : Prop := forall a d, In (a, d) (would lv) <-> In (a, d) (naive_rel lv).

Lemma naive_rel_In lv a d : In (a, d) (naive_rel lv) <-> In (a, d) (l_H lv) /\ In a (ids lv) /\ In d (ids lv).
Proof. unfold naive_rel. rewrite filter_In. simpl. rewrite andb_true_iff, !live_In. tauto. Qed.

(* every id that H mentions was handed out before *)
Definition H_within (lv : level) (used : list nat) : Prop := ends_in (l_H lv) (fun x => In x used).

Lemma lv_add_agrees i f lv used : agrees lv -> H_within lv used -> ~ In i used -> agrees (lv_add i f lv).
Proof.
  intros Ag HW Hi a d. change (would (lv_add i f lv)) with (would lv). rewrite (Ag a d), !naive_rel_In.
  change (l_H (lv_add i f lv)) with (l_H lv). rewrite ids_add, !in_app_iff. simpl. split.
  - tauto.
  - intros [HH [Ha Hd]]. destruct (HW a d HH) as [Ua Ud]. split; [exact HH |].
    split; [destruct Ha as [Ha | [Ha | []]]; [exact Ha | subst; contradiction]
           | destruct Hd as [Hd | [Hd | []]]; [exact Hd | subst; contradiction]].
Qed.

Definition closed_in (lv : level) (s : nat -> bool) : Prop :=
  (forall a d, In (a, d) (would lv) -> s a = true -> s d = true) \/
  (forall a d, In (a, d) (would lv) -> s d = true -> s a = true).

Lemma would_rm_set s lv a d : lv_wf lv -> closed_in lv s ->
  (In (a, d) (would (lv_rm_set s lv)) <-> In (a, d) (rm_set s (would lv))).
Proof.
  intros W C. unfold would. simpl. apply apply_deps_rm_set; [apply (wf_A_trans _ W) |].
  destruct C as [C | C]; [left; apply fwd_closed_would | right; apply bwd_closed_would]; try apply (wf_A_trans _ W); exact C.
Qed.

Lemma lv_rm_set_agrees s lv : lv_wf lv -> agrees lv -> closed_in lv s -> agrees (lv_rm_set s lv).
Proof.
  intros W Ag C a d. rewrite (would_rm_set s lv a d W C), rm_set_In, (Ag a d), !naive_rel_In.
  change (l_H (lv_rm_set s lv)) with (l_H lv). rewrite ids_rm_set, !filter_In, !negb_true_iff. tauto.
Qed.

Lemma would_dep lv p c : would (mkLevel (l_txs lv) (l_A lv) (l_P lv ++ [(p, c)]) (add_closed (l_H lv) p c)) = add_closed (would lv) p c.
Proof. unfold would, apply_deps. simpl. rewrite fold_left_app. reflexivity. Qed.

Lemma lv_dep_agrees p c lv : lv_wf lv -> agrees lv -> agrees (lv_dep p c lv).
Proof.
  intros W Ag. unfold lv_dep. destruct (Nat.eqb p c || rmem (c, p) (l_H lv)); [exact Ag |].
  destruct (live lv p && live lv c) eqn:L; [| exact Ag]. apply andb_true_iff in L. destruct L as [Lp Lc].
  apply live_In in Lp. apply live_In in Lc. intros a d. rewrite would_dep, naive_rel_In. simpl.
  change (ids {| l_txs := l_txs lv; l_A := l_A lv; l_P := l_P lv ++ [(p, c)]; l_H := add_closed (l_H lv) p c |}) with (ids lv).
  rewrite !add_closed_In. pose proof (would_ends lv W) as E. split.
  - intros [H | [Ha Hd]].
    + apply Ag in H. apply naive_rel_In in H. tauto.
    + assert (Ha' : (a = p \/ In (a, p) (l_H lv)) /\ In a (ids lv)).
      { destruct Ha as [-> | Ha]; [auto |]. apply Ag in Ha. apply naive_rel_In in Ha. tauto. }
      assert (Hd' : (d = c \/ In (c, d) (l_H lv)) /\ In d (ids lv)).
      { destruct Hd as [-> | Hd]; [auto |]. apply Ag in Hd. apply naive_rel_In in Hd. tauto. }
      tauto.
  - intros [[H | [Ha Hd]] [La Ld]].
    + left. apply Ag. apply naive_rel_In. auto.
    + right. split.
      * destruct Ha as [-> | Ha]; [auto |]. right. apply Ag. apply naive_rel_In. auto.
      * destruct Hd as [-> | Hd]; [auto |]. right. apply Ag. apply naive_rel_In. auto.
Qed.

Lemma lv_fee_agrees i f lv : agrees lv -> agrees (lv_fee i f lv).
Proof.
  intros Ag a d. change (would (lv_fee i f lv)) with (would lv). rewrite (Ag a d), !naive_rel_In.
  change (l_H (lv_fee i f lv)) with (l_H lv). rewrite ids_fee. tauto.
Qed.

Lemma lv_apply_agrees ov lv : agrees lv -> agrees (lv_apply ov lv).
Proof. intros Ag. unfold lv_apply. destruct ov; [exact Ag |]. intros a d. exact (Ag a d). Qed.

Lemma H_within_dep p c lv used : H_within lv used -> incl (ids lv) used -> H_within (lv_dep p c lv) used.
Proof.
  intros HW I. unfold lv_dep. destruct (Nat.eqb p c || rmem (c, p) (l_H lv)); [exact HW |].
  destruct (live lv p && live lv c) eqn:L; [| exact HW]. apply andb_true_iff in L. destruct L as [Lp Lc].
  apply live_In in Lp. apply live_In in Lc. unfold H_within. simpl. apply add_closed_ends; auto.
Qed.

(* ------------------------------------------------------------------------------------------- *)
(* the whole state *)
Definition lv_ok (lv : level) (used : list nat) : Prop := lv_wf lv /\ incl (ids lv) used /\ H_within lv used.
Definition st_inv (s : state) : Prop :=
  lv_ok (s_main s) (s_used s) /\ forall l, s_stag s = Some l -> lv_ok l (s_used s).
Definition st_agrees (s : state) : Prop := agrees (s_main s) /\ forall l, s_stag s = Some l -> agrees l.

Lemma lv_ok_mono lv used used' : incl used used' -> lv_ok lv used -> lv_ok lv used'.
Proof.
  intros I [W [Hi Hh]]. split; [exact W |]. split; [intros x Hx; apply I, Hi, Hx |].
  apply (ends_in_weaken _ (fun x => In x used)); [intros x Hx; apply I, Hx | exact Hh].
Qed.
Lemma lv_add_ok i f lv used : lv_ok lv used -> ~ In i used -> lv_ok (lv_add i f lv) (i :: used).
Proof.
  intros [W [Hi Hh]] Hn. split; [apply lv_add_wf; [exact W | intros Hx; apply Hn, Hi, Hx] |]. split.
  - rewrite ids_add. intros x Hx. apply in_app_or in Hx. destruct Hx as [Hx | [<- | []]]; [right; apply Hi, Hx | left; reflexivity].
  - apply (ends_in_weaken _ (fun x => In x used)); [intros x Hx; right; exact Hx | exact Hh].
Qed.
Lemma incl_filter_ids s lv used : incl (ids lv) used -> incl (ids (lv_rm_set s lv)) used.
Proof. intros I x Hx. rewrite ids_rm_set in Hx. apply filter_In in Hx. apply I. tauto. Qed.
Lemma lv_rm_set_ok s lv used : lv_ok lv used -> lv_ok (lv_rm_set s lv) used.
Proof. intros [W [Hi Hh]]. split; [apply lv_rm_set_wf, W |]. split; [apply incl_filter_ids, Hi | exact Hh]. Qed.
Lemma lv_rm_ok i lv used : lv_ok lv used -> lv_ok (lv_rm i lv) used.
Proof. rewrite lv_rm_as_set. apply lv_rm_set_ok. Qed.
Lemma lv_dep_ok p c lv used : lv_ok lv used -> lv_ok (lv_dep p c lv) used.
Proof.
  intros [W [Hi Hh]]. split; [apply lv_dep_wf, W |]. split; [| apply H_within_dep; assumption].
  unfold lv_dep. destruct (Nat.eqb p c || rmem (c, p) (l_H lv)); [exact Hi |]. destruct (live lv p && live lv c); exact Hi.
Qed.
Lemma lv_fee_ok i f lv used : lv_ok lv used -> lv_ok (lv_fee i f lv) used.
Proof. intros [W [Hi Hh]]. split; [apply lv_fee_wf, W |]. split; [rewrite ids_fee; exact Hi | exact Hh]. Qed.
Lemma lv_apply_ok ov lv used : lv_ok lv used -> lv_ok (lv_apply ov lv) used.
Proof. intros [W [Hi Hh]]. split; [apply lv_apply_wf, W |]. unfold lv_apply. destruct ov; split; assumption. Qed.

(* the condition of txgraph.h on removals: the transaction (set) goes together with all its
   descendants or all its ancestors, i.e. what is removed is closed in the would-be graph *)
Definition safe (s : state) (o : op) : Prop :=
  match o with
  | ORm i => closed_in (top s) (fun y => Nat.eqb y i)
  | ODestroy i => closed_in (s_main s) (fun y => Nat.eqb y i) /\
                  forall l, s_stag s = Some l -> closed_in l (fun y => Nat.eqb y i)
  | OTrim removed => closed_in (top s) (fun y => memn y removed)
  | _ => True
  end.
Fixpoint safe_run (s : state) (l : list op) : Prop :=
  match l with
  | [] => True
  | o :: r => safe s o /\ safe_run (step s o) r
  end.

Lemma init_inv mc ms : st_inv (init_state mc ms).
Proof.
  split; [| discriminate]. split; [apply empty_wf |]. split; [intros x [] | intros a d []].
Qed.
Lemma init_agrees mc ms : st_agrees (init_state mc ms).
Proof. split; [| discriminate]. intros a d. simpl. tauto. Qed.

Lemma top_ok s : st_inv s -> lv_ok (top s) (s_used s).
Proof. intros [Im Is]. unfold top. destruct (s_stag s) as [l |]; [apply Is; reflexivity | exact Im]. Qed.
Lemma top_agrees s : st_agrees s -> agrees (top s).
Proof. intros [Am As]. unfold top. destruct (s_stag s) as [l |]; [apply As; reflexivity | exact Am]. Qed.

Lemma with_top_inv s l' : st_inv s -> lv_ok l' (s_used s) -> st_inv (with_top s l').
Proof.
  intros [Im Is] O. unfold with_top. destruct (s_stag s) as [l |]; split; simpl; try discriminate; try assumption.
  intros l0 Hl0. inversion Hl0. subst. exact O.
Qed.
Lemma with_top_agrees s l' : st_agrees s -> agrees l' -> st_agrees (with_top s l').
Proof.
  intros [Am As] A'. unfold with_top. destruct (s_stag s) as [l |]; split; simpl; try discriminate; try assumption.
  intros l0 Hl0. inversion Hl0. subst. exact A'.
Qed.

Lemma normalize_inv s : st_inv s -> st_inv (normalize s).
Proof.
  intros [Im Is]. split; simpl.
  - apply lv_apply_ok, Im.
  - intros l Hl. destruct (s_stag s) as [l0 |]; [| discriminate]. simpl in Hl. inversion Hl. apply lv_apply_ok, Is. reflexivity.
Qed.
Lemma normalize_agrees s : st_agrees s -> st_agrees (normalize s).
Proof.
  intros [Am As]. split; simpl.
  - apply lv_apply_agrees, Am.
  - intros l Hl. destruct (s_stag s) as [l0 |]; [| discriminate]. simpl in Hl. inversion Hl. apply lv_apply_agrees, As. reflexivity.
Qed.

Theorem step_inv s o : st_inv s -> st_inv (step s o).
Proof.
  intros I. pose proof I as [Im Is].
  destruct o as [i fee size | i | p c | i fee | i | | | | removed | |]; simpl.
  - (* add *)
    destruct (memn i (s_used s) || (size <=? 0)%Z) eqn:G; [exact I |].
    apply orb_false_iff in G. destruct G as [G _]. apply memn_false in G.
    assert (M : forall lv, lv_ok lv (s_used s) -> lv_ok lv (i :: s_used s)) by (intros lv; apply lv_ok_mono; intros x Hx; right; exact Hx).
    unfold with_top, top. destruct (s_stag s) as [l |]; split; simpl; try discriminate.
    + apply M, Im.
    + intros l0 Hl0. inversion Hl0. apply lv_add_ok; [apply Is; reflexivity | exact G].
    + apply lv_add_ok; assumption.
  - apply with_top_inv; [exact I | apply lv_rm_ok, top_ok, I].
  - apply with_top_inv; [exact I | apply lv_dep_ok, top_ok, I].
  - split; simpl; [apply lv_fee_ok, Im |]. intros l Hl. destruct (s_stag s) as [l0 |]; [| discriminate].
    simpl in Hl. inversion Hl. apply lv_fee_ok, Is. reflexivity.
  - split; simpl; [apply lv_rm_ok, Im |]. intros l Hl. destruct (s_stag s) as [l0 |]; [| discriminate].
    simpl in Hl. inversion Hl. apply lv_rm_ok, Is. reflexivity.
  - destruct (s_stag s) as [l |] eqn:E; [exact I |]. split; simpl; [apply lv_apply_ok, Im |].
    intros l Hl. inversion Hl. apply lv_apply_ok, Im.
  - destruct (s_stag s) as [l |] eqn:E; [| exact I]. split; simpl; [apply Is; reflexivity | discriminate].
  - destruct (s_stag s) as [l |] eqn:E; [| exact I]. split; simpl; [exact Im | discriminate].
  - apply with_top_inv; [exact I |]. rewrite fold_lv_rm. apply lv_rm_set_ok, top_ok, I.
  - apply normalize_inv, I.
  - apply normalize_inv, I.
Qed.

Theorem run_inv l : forall s, st_inv s -> st_inv (run s l).
Proof. induction l as [| o l IH]; intros s I; [exact I |]. simpl. apply IH, step_inv, I. Qed.

(* one step keeps the agreement with the naive graph, provided the removal is closed *)
Theorem step_agrees s o : st_inv s -> st_agrees s -> safe s o -> st_agrees (step s o).
Proof.
  intros I Ag Sf. pose proof I as [Im Is]. pose proof Ag as [Am As].
  destruct o as [i fee size | i | p c | i fee | i | | | | removed | |]; simpl.
  - destruct (memn i (s_used s) || (size <=? 0)%Z) eqn:G; [exact Ag |].
    apply orb_false_iff in G. destruct G as [G _]. apply memn_false in G.
    unfold with_top, top. destruct (s_stag s) as [l |]; split; simpl; try discriminate.
    + exact Am.
    + intros l0 Hl0. inversion Hl0. destruct (Is l eq_refl) as [_ [_ Hh]]. eapply lv_add_agrees; [apply As; reflexivity | exact Hh | exact G].
    + destruct Im as [_ [_ Hh]]. eapply lv_add_agrees; eauto.
  - apply with_top_agrees; [exact Ag |]. rewrite lv_rm_as_set. simpl in Sf.
    destruct (top_ok s I) as [W _]. apply lv_rm_set_agrees; [exact W | apply top_agrees, Ag | exact Sf].
  - apply with_top_agrees; [exact Ag |]. destruct (top_ok s I) as [W _]. apply lv_dep_agrees; [exact W | apply top_agrees, Ag].
  - split; simpl; [apply lv_fee_agrees, Am |]. intros l Hl. destruct (s_stag s) as [l0 |]; [| discriminate].
    simpl in Hl. inversion Hl. apply lv_fee_agrees, As. reflexivity.
  - simpl in Sf. destruct Sf as [Sm Ss]. split; simpl.
    + rewrite lv_rm_as_set. destruct Im as [W _]. apply lv_rm_set_agrees; assumption.
    + intros l Hl. destruct (s_stag s) as [l0 |]; [| discriminate]. simpl in Hl. inversion Hl.
      rewrite lv_rm_as_set. destruct (Is l0 eq_refl) as [W _]. apply lv_rm_set_agrees; [exact W | apply As; reflexivity | apply Ss; reflexivity].
  - destruct (s_stag s) as [l |] eqn:E; [exact Ag |]. split; simpl; [apply lv_apply_agrees, Am |].
    intros l Hl. inversion Hl. apply lv_apply_agrees, Am.
  - destruct (s_stag s) as [l |] eqn:E; [| exact Ag]. split; simpl; [apply As; reflexivity | discriminate].
  - destruct (s_stag s) as [l |] eqn:E; [| exact Ag]. split; simpl; [exact Am | discriminate].
  - apply with_top_agrees; [exact Ag |]. rewrite fold_lv_rm. simpl in Sf.
    destruct (top_ok s I) as [W _]. apply lv_rm_set_agrees; [exact W | apply top_agrees, Ag | exact Sf].
  - apply normalize_agrees, Ag.
  - apply normalize_agrees, Ag.
Qed.

(* Main agreement theorem: for EVERY operation sequence from the empty graph whose removals are
   closed (each removed transaction, or Trim set, goes with all its descendants or all its
   ancestors), at both levels the would-be ancestry of the lazy model is exactly the naive graph:
   the closure over all accepted dependencies -- including those through transactions that were
   removed since -- restricted to the live transactions. *)
Theorem run_agrees l : forall s, st_inv s -> st_agrees s -> safe_run s l -> st_agrees (run s l).
Proof.
  induction l as [| o l IH]; intros s I Ag Sf; [exact Ag |]. simpl in *. destruct Sf as [S1 S2].
  apply IH; [apply step_inv, I | apply step_agrees; assumption | exact S2].
Qed.

Corollary run_from_init_agrees mc ms l :
  safe_run (init_state mc ms) l -> st_agrees (run (init_state mc ms) l) /\ st_inv (run (init_state mc ms) l).
Proof. intros S. split; [apply run_agrees; [apply init_inv | apply init_agrees | exact S] | apply run_inv, init_inv]. Qed.
