(* BanMan: an address is reported banned exactly while an entry covering it has  now < nBanUntil ;
   SweepBanned removes exactly the entries with  nBanUntil < now  (and invalid subnets) and never changes an
   answer at the same or a later time; Ban / Unban effects. *)
From Coq Require Import List Arith Bool Lia ZArith.
Unset Lia Cache.
From BV Require Import model.NetAddr model.BanMan proofs.NetAddrLemmas.
Import ListNotations.
Local Open Scope Z_scope.

(* IsBanned(addr) <=> some entry covers the address and has not expired: the comparison is  now < nBanUntil *)
Theorem banned_iff now m a :
  is_banned_addr now m a = true <->
  exists s e, In (s, e) m /\ now < b_until e /\ subnet_match s a = true.
Proof.
  unfold is_banned_addr. rewrite existsb_exists. split.
  - intros ([s e]&Hin&H). apply andb_true_iff in H. destruct H as [H1 H2]. apply Z.ltb_lt in H1.
    exists s, e. auto.
  - intros (s&e&Hin&H1&H2). exists (s, e). split; [exact Hin|]. simpl. apply andb_true_iff. split; [apply Z.ltb_lt; exact H1|exact H2].
Qed.

(* SweepBanned keeps exactly the valid entries with  now <= nBanUntil  (it erases when now > nBanUntil):
   an entry with nBanUntil = now is kept (listed by GetBanned) although it no longer bans anybody *)
Theorem sweep_spec now m s e :
  In (s, e) (sweep_banned now m) <-> In (s, e) m /\ s_valid s = true /\ now <= b_until e.
Proof.
  unfold sweep_banned. rewrite filter_In. simpl. rewrite negb_true_iff, orb_false_iff, negb_false_iff, Z.ltb_ge. tauto.
Qed.

Lemma match_needs_valid s a : subnet_match s a = true -> s_valid s = true.
Proof. unfold subnet_match. destruct (s_valid s); simpl; [reflexivity|discriminate]. Qed.

(* sweeping at time `now` changes no IsBanned(addr) answer at any time now' >= now *)
Theorem sweep_keeps_answers now now' m a : now <= now' ->
  is_banned_addr now' (sweep_banned now m) a = is_banned_addr now' m a.
Proof.
  intros Hle. apply eq_true_iff_eq. rewrite !banned_iff. split.
  - intros (s&e&Hin&H1&H2). apply sweep_spec in Hin. exists s, e. tauto.
  - intros (s&e&Hin&H1&H2). exists s, e. split; [|auto]. apply sweep_spec.
    split; [exact Hin|]. split; [eapply match_needs_valid; eassumption|lia].
Qed.

(* the boundary: at now = nBanUntil the entry survives the sweep but does not ban *)
Theorem expiry_boundary s e a : s_valid s = true ->
  let now := b_until e in
  In (s, e) (sweep_banned now [(s, e)]) /\ is_banned_addr now [(s, e)] a = false /\
  (subnet_match s a = true -> is_banned_addr (now - 1) [(s, e)] a = true) /\
  sweep_banned (now + 1) [(s, e)] = [].
Proof.
  intros Hv now. split; [apply sweep_spec; simpl; repeat split; auto; unfold now; lia|]. split.
  - unfold is_banned_addr. simpl. unfold now. rewrite Z.ltb_irrefl. reflexivity.
  - split.
    + intros Hm. unfold is_banned_addr. simpl. rewrite Hm. unfold now.
      replace (b_until e - 1 <? b_until e) with true by (symmetry; apply Z.ltb_lt; lia). reflexivity.
    + unfold sweep_banned. simpl. rewrite Hv. unfold now.
      replace (b_until e <? b_until e + 1) with true by (symmetry; apply Z.ltb_lt; lia). reflexivity.
Qed.

(* ---- map operations ---- *)
Lemma bytes_eqb_refl l : bytes_eqb l l = true.
Proof. apply bytes_eqb_eq. reflexivity. Qed.
Lemma key_eqb_refl s : subnet_key_eqb s s = true.
Proof. unfold subnet_key_eqb, addr_eqb. rewrite network_eqb_refl, !bytes_eqb_refl. reflexivity. Qed.
Lemma key_eqb_eq a b : subnet_key_eqb a b = true <-> s_network a = s_network b /\ s_mask a = s_mask b.
Proof. unfold subnet_key_eqb. rewrite andb_true_iff, addr_eqb_eq, bytes_eqb_eq. tauto. Qed.
Lemma key_eqb_sym a b : subnet_key_eqb a b = subnet_key_eqb b a.
Proof.
  apply eq_true_iff_eq. rewrite !key_eqb_eq. split; intros [H1 H2]; auto.
Qed.
Lemma key_eqb_trans a b c : subnet_key_eqb a b = true -> subnet_key_eqb b c = true -> subnet_key_eqb a c = true.
Proof. rewrite !key_eqb_eq. intros [H1 H2] [H3 H4]. split; congruence. Qed.

Lemma find_set_same m s e : ban_find (ban_set m s e) s = Some e.
Proof.
  induction m as [|[k e0] m IH]; simpl.
  - rewrite key_eqb_refl. reflexivity.
  - destruct (subnet_key_eqb k s) eqn:E; simpl; rewrite E; [reflexivity|exact IH].
Qed.
Lemma find_set_other m s e t : subnet_key_eqb s t = false -> ban_find (ban_set m s e) t = ban_find m t.
Proof.
  intros Hne. induction m as [|[k e0] m IH]; simpl.
  - rewrite Hne. reflexivity.
  - destruct (subnet_key_eqb k s) eqn:E; simpl.
    + destruct (subnet_key_eqb k t) eqn:E2; [|reflexivity].
      rewrite key_eqb_sym in E. rewrite (key_eqb_trans _ _ _ E E2) in Hne. discriminate.
    + destruct (subnet_key_eqb k t); [reflexivity|exact IH].
Qed.
Lemma find_remove_same m s : keys_unique m = true -> ban_find (ban_remove m s) s = None.
Proof.
  induction m as [|[k e0] m IH]; simpl; [reflexivity|]. intros H. apply andb_true_iff in H. destruct H as [H1 H2].
  destruct (subnet_key_eqb k s) eqn:E.
  - apply negb_true_iff in H1.
    destruct (ban_find m s) as [e|] eqn:F; [|reflexivity]. exfalso.
    assert (Hex : existsb (fun p => subnet_key_eqb (fst p) k) m = true).
    { clear -F E. induction m as [|[k1 e1] m IH]; simpl in *; [discriminate|].
      destruct (subnet_key_eqb k1 s) eqn:E1.
      - rewrite key_eqb_sym in E. rewrite (key_eqb_trans _ _ _ E1 E). reflexivity.
      - rewrite (IH F). apply orb_true_r. }
    congruence.
  - simpl. rewrite E. apply IH. exact H2.
Qed.
Lemma find_in m s e : ban_find m s = Some e -> exists k, In (k, e) m /\ subnet_key_eqb k s = true.
Proof.
  induction m as [|[k e0] m IH]; simpl; [discriminate|].
  destruct (subnet_key_eqb k s) eqn:E.
  - intros H; injection H as ->. exists k. auto.
  - intros H. destruct (IH H) as (k1&Hin&Hk). exists k1. auto.
Qed.

(* Unban: afterwards the exact subnet is not reported banned at any time *)
Theorem unban_effect now now' m s : keys_unique m = true ->
  is_banned_subnet now' (snd (unban now m s)) s = false.
Proof.
  intros U. unfold unban, is_banned_subnet. destruct (ban_find m s) eqn:F; simpl; [|rewrite F; reflexivity].
  destruct (ban_find (sweep_banned now (ban_remove m s)) s) as [e|] eqn:F2; [|reflexivity]. exfalso.
  destruct (find_in _ _ _ F2) as (k&Hin&Hk). apply sweep_spec in Hin. destruct Hin as [Hin _].
  pose proof (find_remove_same m s U) as R.
  clear -Hin Hk R. induction (ban_remove m s) as [|[k1 e1] l IH]; simpl in *; [contradiction|].
  destruct (subnet_key_eqb k1 s) eqn:E; [discriminate|].
  destruct Hin as [H|H]; [injection H as -> ->; congruence|exact (IH H R)].
Qed.

(* Ban: the computed expiry (relative offsets count from now, absolute ones from the epoch, non-positive offsets
   mean the default ban time), and the effect when it extends the current ban of that subnet *)
Theorem ban_until_spec now d offset ep :
  ban_until now d offset ep = (if offset <=? 0 then now + d else if ep then offset else now + offset).
Proof. unfold ban_until. destruct (offset <=? 0); [reflexivity|]. destruct ep; reflexivity. Qed.

Lemma set_absent m s e : ban_find m s = None -> ban_set m s e = m ++ [(s, e)].
Proof.
  induction m as [|[k0 e0] m IH]; simpl; [reflexivity|].
  destruct (subnet_key_eqb k0 s); [discriminate|]. intros H. rewrite (IH H). reflexivity.
Qed.
Lemma set_set_absent m s e0 e : ban_find m s = None -> ban_set (ban_set m s e0) s e = m ++ [(s, e)].
Proof.
  intros F. rewrite (set_absent m s e0 F).
  induction m as [|[k0 e1] m IH]; simpl in *.
  - rewrite key_eqb_refl. reflexivity.
  - destruct (subnet_key_eqb k0 s); [discriminate|]. rewrite (IH F). reflexivity.
Qed.
Lemma find_filter_absent (f : subnet * ban_entry -> bool) m s e : ban_find m s = None ->
  ban_find (filter f (m ++ [(s, e)])) s = if f (s, e) then Some e else None.
Proof.
  induction m as [|[k0 e0] m IH]; simpl.
  - intros _. destruct (f (s, e)); simpl; [rewrite key_eqb_refl|]; reflexivity.
  - destruct (subnet_key_eqb k0 s) eqn:E; [discriminate|]. intros F.
    destruct (f (k0, e0)); simpl; [rewrite E|]; apply IH; exact F.
Qed.

(* a new ban (the subnet has no entry yet) is in force from now until its expiry, for every address the subnet matches *)
Theorem ban_effect now d m s offset ep a now' :
  ban_find m s = None -> s_valid s = true ->
  0 < ban_until now d offset ep -> now <= now' -> now' < ban_until now d offset ep -> subnet_match s a = true ->
  is_banned_addr now' (ban now d m s offset ep) a = true /\
  is_banned_subnet now' (ban now d m s offset ep) s = true.
Proof.
  intros F Hv Hpos Hle Hlt Hm. unfold ban. set (u := ban_until now d offset ep) in *. rewrite F.
  replace (0 <? u) with true by (symmetry; apply Z.ltb_lt; lia).
  rewrite (set_set_absent m s _ (mkban now u) F). split.
  - apply banned_iff. exists s, (mkban now u). split; [|simpl; auto].
    apply sweep_spec. simpl. split; [apply in_or_app; right; left; reflexivity|]. split; [exact Hv|lia].
  - unfold is_banned_subnet, sweep_banned. rewrite (find_filter_absent _ m s _ F). simpl. rewrite Hv. simpl.
    replace (u <? now) with false by (symmetry; apply Z.ltb_ge; lia). simpl. apply Z.ltb_lt. lia.
Qed.

(* a ban that would not extend the existing one changes nothing *)
Theorem ban_keeps_longer now d m s offset ep e :
  ban_find m s = Some e -> ban_until now d offset ep <= b_until e -> ban now d m s offset ep = m.
Proof.
  intros F H. unfold ban. rewrite F. replace (b_until e <? ban_until now d offset ep) with false by (symmetry; apply Z.ltb_ge; lia).
  reflexivity.
Qed.

(* ------------------------------------------------------------------------------------------------
   Scripts: the BanMan (which sweeps on every mutation and listing) answers every IsBanned query exactly
   like the reference ban list that never sweeps, for all scripts with a forward-moving clock. *)
Definition all_valid (m : banmap) : Prop := forall s e, In (s, e) m -> s_valid s = true.
Definition hask (m : banmap) (k : subnet) : bool := existsb (fun p => subnet_key_eqb (fst p) k) m.

Lemma hask_false m k : hask m k = false <-> forall k' e', In (k', e') m -> subnet_key_eqb k' k = false.
Proof.
  unfold hask. split.
  - intros H k' e' Hin. destruct (subnet_key_eqb k' k) eqn:E; [|reflexivity].
    assert (existsb (fun p => subnet_key_eqb (fst p) k) m = true) by (apply existsb_exists; exists (k', e'); auto). congruence.
  - intros H. destruct (existsb _ m) eqn:E; [|reflexivity]. apply existsb_exists in E. destruct E as ([k' e']&Hin&Hk).
    simpl in Hk. rewrite (H k' e' Hin) in Hk. discriminate.
Qed.

Lemma key_valid_eq a b : subnet_key_eqb a b = true -> s_valid a = s_valid b -> a = b.
Proof. rewrite key_eqb_eq. destruct a, b; simpl. intros [-> ->] ->. reflexivity. Qed.

Lemma find_none_iff m s : ban_find m s = None <-> hask m s = false.
Proof.
  unfold hask. induction m as [|[k e] m IH]; simpl; [tauto|].
  destruct (subnet_key_eqb k s); simpl; [split; discriminate|exact IH].
Qed.

Lemma in_find m s e : keys_unique m = true -> In (s, e) m -> ban_find m s = Some e.
Proof.
  induction m as [|[k e0] m IH]; simpl; [contradiction|]. intros U [H|H].
  - injection H as -> ->. rewrite key_eqb_refl. reflexivity.
  - apply andb_true_iff in U. destruct U as [U1 U2]. apply negb_true_iff in U1.
    destruct (subnet_key_eqb k s) eqn:E; [|apply IH; assumption].
    exfalso. pose proof (proj1 (hask_false m k) U1 s e H) as Hf. rewrite key_eqb_sym in Hf. congruence.
Qed.

Lemma find_in_valid m s e : all_valid m -> s_valid s = true -> ban_find m s = Some e -> In (s, e) m.
Proof.
  intros V Hs F. destruct (find_in _ _ _ F) as (k&Hin&Hk).
  rewrite (key_valid_eq k s Hk) in Hin; [exact Hin|]. rewrite (V k e Hin), Hs. reflexivity.
Qed.

Lemma in_set_other m s e k e' : subnet_key_eqb k s = false -> (In (k, e') (ban_set m s e) <-> In (k, e') m).
Proof.
  intros Hk. induction m as [|[k0 e0] m IH]; simpl.
  - split; [intros [H|[]]; injection H as -> ->; rewrite key_eqb_refl in Hk; discriminate|tauto].
  - destruct (subnet_key_eqb k0 s) eqn:E; simpl.
    + split; intros [H|H]; auto; injection H as -> ->; congruence.
    + rewrite IH. tauto.
Qed.
Lemma in_set_same m s e k e' : keys_unique m = true -> In (k, e') (ban_set m s e) -> subnet_key_eqb k s = true -> e' = e.
Proof.
  induction m as [|[k0 e0] m IH]; simpl; intros U Hin Hk.
  - destruct Hin as [H|[]]. injection H as _ ->. reflexivity.
  - apply andb_true_iff in U. destruct U as [U1 U2]. apply negb_true_iff in U1.
    destruct (subnet_key_eqb k0 s) eqn:E; simpl in Hin.
    + destruct Hin as [H|H]; [injection H as _ ->; reflexivity|].
      pose proof (proj1 (hask_false m k0) U1 k e' H) as Hf.
      rewrite key_eqb_sym in E. rewrite (key_eqb_trans _ _ _ Hk E) in Hf. discriminate.
    + destruct Hin as [H|H]; [injection H as -> ->; congruence|]. apply IH; assumption.
Qed.
Lemma in_set_new m s e : all_valid m -> s_valid s = true -> In (s, e) (ban_set m s e).
Proof.
  intros V Hs. induction m as [|[k0 e0] m IH]; simpl; [auto|].
  destruct (subnet_key_eqb k0 s) eqn:E; simpl.
  - left. rewrite (key_valid_eq k0 s E); [reflexivity|]. rewrite (V k0 e0 (or_introl eq_refl)), Hs. reflexivity.
  - right. apply IH. intros s' e' H. apply (V s' e'). right. exact H.
Qed.
Lemma in_remove_other m s k e' : subnet_key_eqb k s = false -> (In (k, e') (ban_remove m s) <-> In (k, e') m).
Proof.
  intros Hk. induction m as [|[k0 e0] m IH]; simpl; [tauto|].
  destruct (subnet_key_eqb k0 s) eqn:E; simpl.
  - split; [auto|]. intros [H|H]; [injection H as -> ->; congruence|exact H].
  - rewrite IH. tauto.
Qed.
Lemma in_remove_same m s k e' : keys_unique m = true -> In (k, e') (ban_remove m s) -> subnet_key_eqb k s = true -> False.
Proof.
  induction m as [|[k0 e0] m IH]; simpl; intros U Hin Hk; [contradiction|].
  apply andb_true_iff in U. destruct U as [U1 U2]. apply negb_true_iff in U1.
  destruct (subnet_key_eqb k0 s) eqn:E; simpl in Hin.
  - pose proof (proj1 (hask_false m k0) U1 k e' Hin) as Hf.
    rewrite key_eqb_sym in E. rewrite (key_eqb_trans _ _ _ Hk E) in Hf. discriminate.
  - destruct Hin as [H|H]; [injection H as -> ->; congruence|]. apply IH; assumption.
Qed.

Lemma ku_set m s e : keys_unique m = true -> keys_unique (ban_set m s e) = true.
Proof.
  induction m as [|[k0 e0] m IH]; simpl; intros U; [reflexivity|].
  apply andb_true_iff in U. destruct U as [U1 U2]. apply negb_true_iff in U1.
  destruct (subnet_key_eqb k0 s) eqn:E; simpl.
  - apply andb_true_iff. split; [apply negb_true_iff; exact U1|exact U2].
  - apply andb_true_iff. split; [|apply IH; exact U2]. apply negb_true_iff. apply hask_false.
    intros k' e' Hin. destruct (subnet_key_eqb k' s) eqn:E2.
    + destruct (subnet_key_eqb k' k0) eqn:E3; [|reflexivity].
      rewrite key_eqb_sym in E3. rewrite (key_eqb_trans _ _ _ E3 E2) in E. discriminate.
    + apply (proj1 (hask_false m k0) U1 k' e'). apply (in_set_other m s e k' e' E2). exact Hin.
Qed.
Lemma ku_sub (f : subnet * ban_entry -> bool) m : keys_unique m = true -> keys_unique (filter f m) = true.
Proof.
  induction m as [|[k0 e0] m IH]; simpl; intros U; [reflexivity|].
  apply andb_true_iff in U. destruct U as [U1 U2]. apply negb_true_iff in U1.
  destruct (f (k0, e0)); simpl; [|apply IH; exact U2].
  apply andb_true_iff. split; [|apply IH; exact U2]. apply negb_true_iff. apply hask_false.
  intros k' e' Hin. apply filter_In in Hin. destruct Hin as [Hin _]. exact (proj1 (hask_false m k0) U1 k' e' Hin).
Qed.
Lemma ku_remove m s : keys_unique m = true -> keys_unique (ban_remove m s) = true.
Proof.
  induction m as [|[k0 e0] m IH]; simpl; intros U; [reflexivity|].
  apply andb_true_iff in U. destruct U as [U1 U2]. apply negb_true_iff in U1.
  destruct (subnet_key_eqb k0 s) eqn:E; simpl; [exact U2|].
  apply andb_true_iff. split; [|apply IH; exact U2]. apply negb_true_iff. apply hask_false.
  intros k' e' Hin. destruct (subnet_key_eqb k' s) eqn:E2.
  - exfalso. exact (in_remove_same m s k' e' U2 Hin E2).
  - apply (proj1 (hask_false m k0) U1 k' e'). apply (in_remove_other m s k' e' E2). exact Hin.
Qed.

Lemma all_valid_set m s e : all_valid m -> s_valid s = true -> all_valid (ban_set m s e).
Proof.
  intros V Hs. induction m as [|[k0 e0] m IH]; simpl.
  - intros k x [H|[]]. injection H as Hk _. subst k. exact Hs.
  - assert (V' : all_valid m) by (intros s' e' H'; apply (V s' e'); right; exact H').
    destruct (subnet_key_eqb k0 s) eqn:E0; intros k x [H|H].
    + injection H as Hk _. subst k. exact (V k0 e0 (or_introl eq_refl)).
    + exact (V k x (or_intror H)).
    + injection H as Hk _. subst k. exact (V k0 e0 (or_introl eq_refl)).
    + exact (IH V' k x H).
Qed.
Lemma set_key_is_s m s e k x : all_valid m -> s_valid s = true -> In (k, x) (ban_set m s e) ->
  subnet_key_eqb k s = true -> k = s.
Proof.
  intros V Hs Hin E. apply (key_valid_eq k s E). rewrite Hs. exact (all_valid_set m s e V Hs k x Hin).
Qed.

(* the coupling between the BanMan map M and the reference list R at time `now` *)
Definition coupled (now : Z) (M R : banmap) : Prop :=
  keys_unique M = true /\ keys_unique R = true /\ all_valid R /\
  (forall s e, In (s, e) M -> In (s, e) R) /\
  (forall s e, In (s, e) R -> now <= b_until e -> In (s, e) M).

Lemma coupled_sweep now M R : coupled now M R -> coupled now (sweep_banned now M) R.
Proof.
  intros (U1&U2&V&Sub&Sup). split; [apply ku_sub; exact U1|]. split; [exact U2|]. split; [exact V|]. split.
  - intros s e H. apply sweep_spec in H. apply Sub. tauto.
  - intros s e H Hle. apply sweep_spec. split; [apply Sup; assumption|]. split; [exact (V s e H)|exact Hle].
Qed.
Lemma coupled_later now now' M R : now <= now' -> coupled now M R -> coupled now' M R.
Proof. intros Hle (U1&U2&V&Sub&Sup). repeat split; auto. intros s e H H2. apply Sup; [exact H|lia]. Qed.

Theorem coupled_same_answers now M R a s : coupled now M R -> s_valid s = true ->
  is_banned_addr now M a = is_banned_addr now R a /\ is_banned_subnet now M s = is_banned_subnet now R s.
Proof.
  intros (U1&U2&V&Sub&Sup) Hs. split.
  - apply eq_true_iff_eq. rewrite !banned_iff. split.
    + intros (k&e&Hin&H1&H2). exists k, e. auto.
    + intros (k&e&Hin&H1&H2). exists k, e. split; [apply Sup; [exact Hin|lia]|auto].
  - unfold is_banned_subnet.
    assert (VM : all_valid M) by (intros k e H; exact (V k e (Sub k e H))).
    destruct (ban_find R s) as [eR|] eqn:FR.
    + pose proof (find_in_valid R s eR V Hs FR) as HinR.
      destruct (Z_lt_le_dec now (b_until eR)) as [Hlt|Hge].
      * rewrite (in_find M s eR U1 (Sup s eR HinR ltac:(lia))). reflexivity.
      * replace (now <? b_until eR) with false by (symmetry; apply Z.ltb_ge; lia).
        destruct (ban_find M s) as [eM|] eqn:FM; [|reflexivity].
        pose proof (find_in_valid M s eM VM Hs FM) as HinM.
        rewrite (in_find R s eM U2 (Sub s eM HinM)) in FR. injection FR as ->. apply Z.ltb_ge. lia.
    + destruct (ban_find M s) as [eM|] eqn:FM; [|reflexivity].
      pose proof (find_in_valid M s eM VM Hs FM) as HinM.
      rewrite (in_find R s eM U2 (Sub s eM HinM)) in FR. discriminate.
Qed.

Lemma coupled_ban now d M R s offset ep : coupled now M R -> s_valid s = true -> 0 < ban_until now d offset ep ->
  coupled now (ban now d M s offset ep) (ref_ban now d R s offset ep).
Proof.
  intros C Hs Hpos. pose proof C as (U1&U2&V&Sub&Sup).
  assert (VM : all_valid M) by (intros k e H; exact (V k e (Sub k e H))).
  unfold ban, ref_ban. set (u := ban_until now d offset ep) in *.
  set (e := mkban now u).
  (* the helper: setting the same entry in both keeps the coupling (before the sweep) *)
  assert (CoupSet : forall M0, keys_unique M0 = true -> all_valid M0 ->
            (forall k x, In (k, x) M0 -> subnet_key_eqb k s = false -> In (k, x) R) ->
            (forall k x, In (k, x) R -> subnet_key_eqb k s = false -> now <= b_until x -> In (k, x) M0) ->
            coupled now (ban_set M0 s e) (ban_set R s e)).
  { intros M0 UM0 VM0 S1 S2. split; [apply ku_set; exact UM0|]. split; [apply ku_set; exact U2|]. split.
    - apply all_valid_set; assumption.
    - split.
      + intros k x Hin. destruct (subnet_key_eqb k s) eqn:E.
        * pose proof (in_set_same M0 s e k x UM0 Hin E) as ->.
          rewrite (set_key_is_s M0 s e k e VM0 Hs Hin E). apply in_set_new; assumption.
        * apply (in_set_other R s e k x E). apply S1; [|exact E]. apply (in_set_other M0 s e k x E). exact Hin.
      + intros k x Hin Hle. destruct (subnet_key_eqb k s) eqn:E.
        * pose proof (in_set_same R s e k x U2 Hin E) as ->.
          rewrite (set_key_is_s R s e k e V Hs Hin E). apply in_set_new; assumption.
        * apply (in_set_other M0 s e k x E). apply S2; [|exact E|exact Hle]. apply (in_set_other R s e k x E). exact Hin. }
  (* M1 = M with the default entry inserted when the key is absent *)
  set (M1 := match ban_find M s with Some _ => M | None => ban_set M s (mkban 0 0) end).
  assert (UM1 : keys_unique M1 = true) by (unfold M1; destruct (ban_find M s); [exact U1|apply ku_set; exact U1]).
  assert (SetM1 : ban_set M1 s e = ban_set M s e).
  { unfold M1. destruct (ban_find M s) eqn:F; [reflexivity|]. rewrite (set_set_absent M s _ e F), (set_absent M s e F). reflexivity. }
  destruct (ban_find R s) as [eR|] eqn:FR.
  - pose proof (find_in_valid R s eR V Hs FR) as HinR.
    destruct (ban_find M s) as [eM|] eqn:FM.
    + pose proof (find_in_valid M s eM VM Hs FM) as HinM.
      rewrite (in_find R s eM U2 (Sub s eM HinM)) in FR. injection FR as ->.
      destruct (b_until eR <? u) eqn:Ec.
      * rewrite SetM1. apply coupled_sweep. apply CoupSet; auto.
      * exact C.
    + (* the reference still remembers an expired entry that the BanMan has swept *)
      assert (Hexp : b_until eR < now).
      { destruct (Z_lt_le_dec (b_until eR) now); [assumption|]. exfalso.
        rewrite (in_find M s eR U1 (Sup s eR HinR ltac:(lia))) in FM. discriminate. }
      replace (0 <? u) with true by (symmetry; apply Z.ltb_lt; lia).
      rewrite SetM1. destruct (b_until eR <? u) eqn:Ec.
      * apply coupled_sweep. apply CoupSet; auto.
      * apply Z.ltb_ge in Ec.
        (* the new expiry is already in the past: the BanMan inserts it and sweeps it at once *)
        rewrite (set_absent M s e FM).
        destruct C as (_&_&_&_&_). split; [apply ku_sub; rewrite <- (set_absent M s e FM); apply ku_set; exact U1|].
        split; [exact U2|]. split; [exact V|]. split.
        -- intros k x H. apply sweep_spec in H. destruct H as (H&_&Hle). apply in_app_or in H. destruct H as [H|[H|[]]].
           ++ apply Sub. exact H.
           ++ injection H as -> <-. simpl in Hle. lia.
        -- intros k x H Hle. apply sweep_spec. split; [apply in_or_app; left; apply Sup; assumption|].
           split; [exact (V k x H)|exact Hle].
  - assert (FM : ban_find M s = None).
    { destruct (ban_find M s) as [eM|] eqn:FM; [|reflexivity].
      pose proof (find_in_valid M s eM VM Hs FM) as HinM. rewrite (in_find R s eM U2 (Sub s eM HinM)) in FR. discriminate. }
    rewrite FM. replace (0 <? u) with true by (symmetry; apply Z.ltb_lt; lia).
    rewrite SetM1. apply coupled_sweep. apply CoupSet; auto.
Qed.

Lemma coupled_unban now M R s : coupled now M R -> coupled now (snd (unban now M s)) (ban_remove R s).
Proof.
  intros C. pose proof C as (U1&U2&V&Sub&Sup). unfold unban.
  assert (Crem : coupled now (ban_remove M s) (ban_remove R s)).
  { split; [apply ku_remove; exact U1|]. split; [apply ku_remove; exact U2|]. split.
    - intros k x H. destruct (subnet_key_eqb k s) eqn:E; [exfalso; exact (in_remove_same R s k x U2 H E)|].
      apply (V k x). apply (in_remove_other R s k x E). exact H.
    - split.
      + intros k x H. destruct (subnet_key_eqb k s) eqn:E; [exfalso; exact (in_remove_same M s k x U1 H E)|].
        apply (in_remove_other R s k x E). apply Sub. apply (in_remove_other M s k x E). exact H.
      + intros k x H Hle. destruct (subnet_key_eqb k s) eqn:E; [exfalso; exact (in_remove_same R s k x U2 H E)|].
        apply (in_remove_other M s k x E). apply Sup; [|exact Hle]. apply (in_remove_other R s k x E). exact H. }
  destruct (ban_find M s) eqn:F; simpl.
  - apply coupled_sweep. exact Crem.
  - (* nothing to erase in the BanMan: removing the key from M changes nothing *)
    assert (Hrm : ban_remove M s = M).
    { apply find_none_iff in F. clear -F. induction M as [|[k0 e0] M IH]; simpl in *; [reflexivity|].
      apply orb_false_iff in F. destruct F as [F1 F2]. rewrite F1. f_equal. apply IH. exact F2. }
    rewrite <- Hrm. exact Crem.
Qed.

Theorem bm_refines_reference d ops : forall now M R, coupled now M R -> script_wf d now ops ->
  coupled (fst (bm_run d (now, M) ops)) (snd (bm_run d (now, M) ops)) (snd (ref_run d (now, R) ops)) /\
  fst (bm_run d (now, M) ops) = fst (ref_run d (now, R) ops).
Proof.
  induction ops as [|o ops IH]; intros now M R C W; simpl.
  - auto.
  - unfold bm_run, ref_run in *. simpl. destruct o as [t|s offset ep|s| |]; simpl in *.
    + apply IH; [|exact W]. apply (coupled_later now); [lia|exact C].
    + destruct W as (Hs&Hpos&W). apply IH; [|exact W]. apply coupled_ban; assumption.
    + apply IH; [|exact W]. apply coupled_unban. exact C.
    + apply IH; [|exact W]. destruct C as (_&_&_&_&_). repeat split; auto; intros s e []. 
    + apply IH; [|exact W]. unfold get_banned. apply coupled_sweep. exact C.
Qed.

Lemma coupled_init now : coupled now [] [].
Proof. repeat split; auto; intros s e []. Qed.
