(* Proofs about the control flow of AcceptPackage (C29): results cover exactly the package,
   reported results match mempool membership, no dangling children. *)
From BV Require Import lib.Ints gen.Params_gen model.Package model.PackageAccept proofs.PackageLemmas.
From Coq Require Import Permutation.
Local Open Scope Z_scope.

Lemma NoDup_snoc {A} (l : list A) x : NoDup l -> ~ In x l -> NoDup (l ++ [x]).
Proof.
  intros H Hn. apply (Permutation_NoDup (l := x :: l)); [apply Permutation_cons_append | constructor; assumption].
Qed.

(* ---------- association lists ---------- *)
Lemma rm_find_None_iff w m : rm_find w m = None <-> ~ In w (keys m).
Proof.
  unfold keys. induction m as [|[k r] m IH]; simpl; [tauto|].
  destruct (Z.eqb_spec k w) as [E|NE].
  - split; [discriminate | intros H; exfalso; apply H; left; exact E].
  - rewrite IH. tauto.
Qed.
Lemma rm_find_Some_key w m r : rm_find w m = Some r -> In w (keys m).
Proof.
  intros H. destruct (in_dec Z.eq_dec w (keys m)) as [Hi|Hn]; [exact Hi|].
  apply rm_find_None_iff in Hn. congruence.
Qed.
Lemma rm_find_app w a b : rm_find w (a ++ b) = match rm_find w a with Some r => Some r | None => rm_find w b end.
Proof. induction a as [|[k r] a IH]; simpl; [reflexivity|]. destruct (k =? w); [reflexivity | exact IH]. Qed.
Lemma rm_find_emplace_new w r m : rm_find w m = None -> rm_find w (rm_emplace w r m) = Some r.
Proof. intros H. unfold rm_emplace. rewrite H, rm_find_app, H. simpl. rewrite Z.eqb_refl. reflexivity. Qed.
Lemma rm_find_emplace_other w w' r m : w' <> w -> rm_find w' (rm_emplace w r m) = rm_find w' m.
Proof.
  intros NE. unfold rm_emplace. destruct (rm_find w m); [reflexivity|].
  rewrite rm_find_app. destruct (rm_find w' m); [reflexivity|]. simpl.
  destruct (Z.eqb_spec w w'); [congruence | reflexivity].
Qed.
Lemma rm_emplace_present w r m r0 : rm_find w m = Some r0 -> rm_emplace w r m = m.
Proof. intros H. unfold rm_emplace. rewrite H. reflexivity. Qed.
Lemma rm_find_erase_same w m : rm_find w (rm_erase w m) = None.
Proof.
  induction m as [|[k r] m IH]; simpl; [reflexivity|].
  destruct (Z.eqb_spec k w) as [E|NE]; simpl; [exact IH|].
  destruct (Z.eqb_spec k w); [contradiction | exact IH].
Qed.
Lemma rm_find_erase_other w w' m : w' <> w -> rm_find w' (rm_erase w m) = rm_find w' m.
Proof.
  intros NE. induction m as [|[k r] m IH]; simpl; [reflexivity|].
  destruct (Z.eqb_spec k w) as [E|NE2]; simpl.
  - subst k. destruct (Z.eqb_spec w w'); [congruence | exact IH].
  - destruct (k =? w'); [reflexivity | exact IH].
Qed.
Lemma keys_emplace w r m x : In x (keys (rm_emplace w r m)) <-> x = w \/ In x (keys m).
Proof.
  unfold rm_emplace. destruct (rm_find w m) eqn:E.
  - split; [auto|]. intros [H|H]; [subst; eapply rm_find_Some_key; eauto | exact H].
  - unfold keys. rewrite map_app, in_app_iff. simpl. split; [intros [H|[H|[]]]; auto | intros [H|H]; auto].
Qed.
Lemma keys_erase w m x : In x (keys (rm_erase w m)) <-> x <> w /\ In x (keys m).
Proof.
  unfold keys, rm_erase. rewrite !in_map_iff. split.
  - intros [[k r] [E H]]. apply filter_In in H. destruct H as [H1 H2]. simpl in *. subst k.
    apply negb_true_iff in H2. apply Z.eqb_neq in H2. split; [exact H2|]. exists (x, r). auto.
  - intros [NE [[k r] [E H]]]. simpl in E. subst k. exists (x, r). split; [reflexivity|].
    apply filter_In. split; [exact H|]. simpl. apply negb_true_iff. apply Z.eqb_neq. exact NE.
Qed.
Lemma nodup_keys_emplace w r m : NoDup (keys m) -> NoDup (keys (rm_emplace w r m)).
Proof.
  intros H. unfold rm_emplace. destruct (rm_find w m) eqn:E; [exact H|].
  unfold keys. rewrite map_app. simpl. apply NoDup_snoc; [exact H|].
  apply rm_find_None_iff. exact E.
Qed.
Lemma nodup_keys_erase w m : NoDup (keys m) -> NoDup (keys (rm_erase w m)).
Proof.
  unfold keys, rm_erase. induction m as [|[k r] m IH]; simpl; intros H; [constructor|].
  inversion H; subst. destruct (negb (k =? w)); simpl; [|apply IH; assumption].
  constructor; [|apply IH; assumption]. intros Hin. apply H2.
  apply in_map_iff in Hin. destruct Hin as [[k' r'] [E Hf]]. apply filter_In in Hf. simpl in E. subst k'.
  apply in_map_iff. exists (k, r'). split; [reflexivity | apply Hf].
Qed.

(* ---------- mempool membership ---------- *)
Lemma has_txid_true P x : has_txid P x = true <-> exists e, In e P /\ p_txid e = x.
Proof.
  unfold has_txid. rewrite existsb_exists. split; intros [e [H1 H2]]; exists e; split; auto; apply Z.eqb_eq; auto.
Qed.
Lemma has_txid_false P x : has_txid P x = false <-> forall e, In e P -> p_txid e <> x.
Proof.
  split.
  - intros H e He E. assert (has_txid P x = true) by (apply has_txid_true; exists e; auto). congruence.
  - intros H. destruct (has_txid P x) eqn:E; [|reflexivity]. apply has_txid_true in E. destruct E as [e [He Ee]].
    exfalso. apply (H e He Ee).
Qed.
Lemma has_wtxid_true P w : has_wtxid P w = true <-> exists e, In e P /\ p_wtxid e = w.
Proof.
  unfold has_wtxid. rewrite existsb_exists. split; intros [e [H1 H2]]; exists e; split; auto; apply Z.eqb_eq; auto.
Qed.
Lemma has_wtxid_false P w : has_wtxid P w = false <-> forall e, In e P -> p_wtxid e <> w.
Proof.
  split.
  - intros H e He E. assert (has_wtxid P w = true) by (apply has_wtxid_true; exists e; auto). congruence.
  - intros H. destruct (has_wtxid P w) eqn:E; [|reflexivity]. apply has_wtxid_true in E. destruct E as [e [He Ee]].
    exfalso. apply (H e He Ee).
Qed.
Lemma entry_by_txid_Some P x e : entry_by_txid P x = Some e -> In e P /\ p_txid e = x.
Proof. unfold entry_by_txid. intros H. apply find_some in H. destruct H as [H1 H2]. apply Z.eqb_eq in H2. auto. Qed.
Lemma entry_by_txid_None P x : entry_by_txid P x = None -> has_txid P x = false.
Proof.
  unfold entry_by_txid. intros H. apply has_txid_false. intros e He E.
  pose proof (find_none _ _ H e He) as Hn. simpl in Hn. apply Z.eqb_neq in Hn. contradiction.
Qed.
Lemma has_txid_app P Q x : has_txid (P ++ Q) x = has_txid P x || has_txid Q x.
Proof. unfold has_txid. apply existsb_app. Qed.

Lemma remove_set_In R P t : In t (remove_set R P) <-> In t P /\ ~ In (p_txid t) R.
Proof.
  unfold remove_set. rewrite filter_In, negb_true_iff, zmem_false. tauto.
Qed.
Lemma remove_set_incl R P : incl (remove_set R P) P.
Proof. intros t H. apply remove_set_In in H. tauto. Qed.

Lemma NoDup_map_filter {A} (f : A -> Z) (g : A -> bool) (l : list A) : NoDup (map f l) -> NoDup (map f (filter g l)).
Proof.
  induction l as [|a l IH]; simpl; intros H; [constructor|]. inversion H; subst.
  destruct (g a); simpl; [|apply IH; assumption]. constructor; [|apply IH; assumption].
  intros Hin. apply H2. apply in_map_iff in Hin. destruct Hin as [b [E Hb]]. apply filter_In in Hb.
  apply in_map_iff. exists b. tauto.
Qed.
Lemma pool_wf_remove R P : pool_wf P -> pool_wf (remove_set R P).
Proof. apply NoDup_map_filter. Qed.

Lemma pool_wf_unique P a b : pool_wf P -> In a P -> In b P -> p_txid a = p_txid b -> a = b.
Proof.
  intros Hwf Ha Hb E. apply In_nth_error in Ha. apply In_nth_error in Hb.
  destruct Ha as [i Hi]. destruct Hb as [j Hj].
  assert (i = j) by (eapply (NoDup_map_nth_inj p_txid P Hwf); eauto). subst j. congruence.
Qed.

Lemma pool_wf_app P Q : pool_wf P -> NoDup (map p_txid Q) -> (forall t, In t Q -> has_txid P (p_txid t) = false) -> pool_wf (P ++ Q).
Proof.
  unfold pool_wf. intros HP HQ Hd. rewrite map_app. induction P as [|a P IH]; simpl; [exact HQ|].
  simpl in HP. inversion HP; subst. constructor.
  - rewrite in_app_iff. intros [H|H]; [contradiction|].
    apply in_map_iff in H. destruct H as [t [E Ht]]. specialize (Hd t Ht).
    rewrite has_txid_false in Hd. apply (Hd a); [left; reflexivity | symmetry; exact E].
  - apply IH; [assumption|]. intros t Ht. specialize (Hd t Ht). rewrite has_txid_false in *.
    intros e He. apply Hd. right. exact He.
Qed.

Section Accept.
  Variable utxo : outpoint -> bool.
  Variable single : pool -> ptx -> tx_result * pool.
  Variable multi : pool -> list ptx -> (pkg_state * rmap) * pool.
  Variable trim : pool -> pool.

  Notation avail := (avail utxo).
  Notation closed := (closed utxo).

  (* ---- premises on the evaluation parameters (facts about the sub-evaluations of validation.cpp) ---- *)
  (* a transaction evaluated alone either fails and leaves the mempool alone, or is added after a set of
     mempool transactions closed under descendants was evicted (replacement, sibling eviction), and then all
     its inputs are outputs of remaining mempool transactions or confirmed coins (PreChecks: HaveCoin;
     EntriesAndTxidsDisjoint) *)
  Definition single_ok : Prop := forall P tx res P',
    pool_wf P -> has_txid P (p_txid tx) = false -> single P tx = (res, P') ->
    (exists b y, res = R_invalid b y /\ P' = P) \/
    (res = R_valid /\ exists R, P' = remove_set R P ++ [tx] /\ desc_closed P R /\ avail (remove_set R P) tx).
  (* a sub-package is submitted entirely or not at all (SubmitPackage; its ConsensusScriptChecks failure path is
     declared unreachable there); results are reported only for its own transactions; when submitted every input
     is available from the remaining mempool, an earlier transaction of the sub-package, or a confirmed coin *)
  Definition multi_ok : Prop := forall P txns st res P',
    pool_wf P -> (forall t, In t txns -> has_txid P (p_txid t) = false) -> NoDup (map p_txid txns) ->
    multi P txns = ((st, res), P') ->
    (forall w, In w (keys res) -> In w (map p_wtxid txns)) /\
    (((forall t, In t txns -> rm_find (p_wtxid t) res = Some R_valid) /\
      exists R, P' = remove_set R P ++ txns /\ desc_closed P R /\
        forall pre t post, txns = pre ++ t :: post -> avail (remove_set R P ++ pre) t)
     \/ (P' = P /\ forall w r, rm_find w res = Some r -> exists b y, r = R_invalid b y)).
  (* size limiting evicts a set closed under descendants (Expire: CalculateDescendants; TrimToSize: worst chunk) *)
  Definition trim_ok : Prop := forall P, exists R, trim P = remove_set R P /\ desc_closed P R.

  (* ---- closedness under the mempool transitions ---- *)
  Lemma avail_mono Q Q' t : (forall x, has_txid Q x = true -> has_txid Q' x = true) -> avail Q t -> avail Q' t.
  Proof. intros H Ha inp Hin. destruct (Ha inp Hin) as [H1|H1]; [left; apply H; exact H1 | right; exact H1]. Qed.

  Lemma spends_true t x : spends t x = true <-> exists inp, In inp (p_inputs t) /\ fst inp = x.
  Proof.
    unfold spends. rewrite existsb_exists. split; intros [inp [H1 H2]]; exists inp; split; auto; apply Z.eqb_eq; auto.
  Qed.

  Lemma closed_remove P R : closed P -> desc_closed P R -> closed (remove_set R P).
  Proof.
    intros Hc Hd t Ht inp Hin. apply remove_set_In in Ht. destruct Ht as [HtP HtR].
    destruct (Hc t HtP inp Hin) as [H|H]; [|right; exact H]. left.
    apply has_txid_true in H. destruct H as [e [He Ee]]. apply has_txid_true. exists e. split; [|exact Ee].
    apply remove_set_In. split; [exact He|]. intros HR. apply HtR.
    apply (Hd t (p_txid e) HtP HR). apply spends_true. exists inp. split; [exact Hin | symmetry; exact Ee].
  Qed.

  Lemma closed_app_one Q t : closed Q -> avail Q t -> closed (Q ++ [t]).
  Proof.
    intros Hc Ha t' Ht'. apply in_app_or in Ht'.
    assert (Hm : forall x, has_txid Q x = true -> has_txid (Q ++ [t]) x = true).
    { intros x Hx. rewrite has_txid_app, Hx. reflexivity. }
    destruct Ht' as [H|[H|[]]].
    - apply (avail_mono Q); [exact Hm | apply Hc; exact H].
    - subst t'. apply (avail_mono Q); [exact Hm | exact Ha].
  Qed.

  Lemma closed_app_many : forall txns Q, closed Q ->
    (forall pre t post, txns = pre ++ t :: post -> avail (Q ++ pre) t) -> closed (Q ++ txns).
  Proof.
    induction txns as [|t r IH]; intros Q Hc Ha; [rewrite app_nil_r; exact Hc|].
    replace (Q ++ t :: r) with ((Q ++ [t]) ++ r) by (rewrite <- app_assoc; reflexivity).
    apply IH.
    - apply closed_app_one; [exact Hc|]. specialize (Ha [] t r eq_refl). rewrite app_nil_r in Ha. exact Ha.
    - intros pre t' post E. specialize (Ha (t :: pre) t' post). rewrite <- app_assoc. simpl. apply Ha. rewrite E. reflexivity.
  Qed.

  (* ---- per-transaction status carried through the first loop ---- *)
  (* every mempool entry with t's txid is e *)
  Definition rep_ok (P : pool) (t e : ptx) : Prop := forall e', In e' P -> p_txid e' = p_txid t -> e' = e.
  Definition good (r : tx_result) (t e : ptx) : Prop :=
    match r with
    | R_valid => e = t
    | R_mempool_entry => p_wtxid e = p_wtxid t
    | R_different_witness w => p_wtxid e = w /\ w <> p_wtxid t
    | R_invalid _ _ => False
    end.
  Definition st_in (P : pool) (fin nonfin : rmap) (t : ptx) : Prop :=
    exists e r, rm_find (p_wtxid t) fin = Some r /\ rm_find (p_wtxid t) nonfin = None /\
                rep_ok P t e /\ good r t e /\ p_txid e = p_txid t.
  Definition st_out (P : pool) (fin nonfin : rmap) (t : ptx) : Prop :=
    exists b y, rm_find (p_wtxid t) fin = None /\ rm_find (p_wtxid t) nonfin = Some (R_invalid b y) /\
                has_txid P (p_txid t) = false.

  Lemma rep_ok_sub P Q t e : incl Q P -> rep_ok P t e -> rep_ok Q t e.
  Proof. intros Hi H e' He'. apply H. apply Hi. exact He'. Qed.
  Lemma absent_sub P Q x : incl Q P -> has_txid P x = false -> has_txid Q x = false.
  Proof. intros Hi H. rewrite has_txid_false in *. intros e He. apply H. apply Hi. exact He. Qed.

  Lemma rep_ok_add P R added t e : rep_ok P t e -> (forall a, In a added -> p_txid a <> p_txid t) ->
    rep_ok (remove_set R P ++ added) t e.
  Proof.
    intros H Hd e' He' E. apply in_app_or in He'. destruct He' as [He'|He'].
    - apply H; [apply (remove_set_incl R P); exact He' | exact E].
    - exfalso. apply (Hd e' He' E).
  Qed.
  Lemma absent_add P R added x : has_txid P x = false -> (forall a, In a added -> p_txid a <> x) ->
    has_txid (remove_set R P ++ added) x = false.
  Proof.
    intros H Hd. rewrite has_txid_false in *. intros e He. apply in_app_or in He. destruct He as [He|He].
    - apply H. apply (remove_set_incl R P). exact He.
    - apply Hd. exact He.
  Qed.

  Variable P0 : pool.
  Variable package : list ptx.
  (* a wtxid identifies the transaction (hash collision freedom), for the transactions in play *)
  Hypothesis wtxid_det : forall a b, In a (P0 ++ package) -> In b (P0 ++ package) -> p_wtxid a = p_wtxid b -> a = b.
  Hypothesis pkg_nodup : NoDup (map p_txid package).
  Hypothesis Hsingle : single_ok.
  Hypothesis Hmulti : multi_ok.
  Hypothesis Htrim : trim_ok.

  Lemma pkg_txid_inj a b : In a package -> In b package -> p_txid a = p_txid b -> a = b.
  Proof.
    intros Ha Hb E. apply In_nth_error in Ha. apply In_nth_error in Hb. destruct Ha as [i Hi]. destruct Hb as [j Hj].
    assert (i = j) by (eapply (NoDup_map_nth_inj p_txid package pkg_nodup); eauto). subst j. congruence.
  Qed.
  Lemma pkg_wtxid_inj a b : In a package -> In b package -> p_wtxid a = p_wtxid b -> a = b.
  Proof. intros Ha Hb E. apply wtxid_det; try (apply in_or_app; right; assumption). exact E. Qed.

  Record Inv (pre : list ptx) (st : loop_state) : Prop := {
    inv_wf : pool_wf (ls_pool st);
    inv_closed : closed (ls_pool st);
    inv_univ : incl (ls_pool st) (P0 ++ package);
    inv_status : forall t, In t pre -> st_in (ls_pool st) (ls_final st) (ls_nonfinal st) t \/
                                        st_out (ls_pool st) (ls_final st) (ls_nonfinal st) t;
    inv_keys_f : forall w, In w (keys (ls_final st)) -> In w (map p_wtxid pre);
    inv_keys_n : forall w, In w (keys (ls_nonfinal st)) -> In w (map p_wtxid pre);
    inv_nodup_f : NoDup (keys (ls_final st));
    inv_eval : forall t, In t (ls_eval st) -> In t pre /\ rm_find (p_wtxid t) (ls_final st) = None;
    inv_eval_nodup : NoDup (map p_txid (ls_eval st));
  }.

  Lemma status_other_key P fin nonfin fin' nonfin' t :
    rm_find (p_wtxid t) fin' = rm_find (p_wtxid t) fin -> rm_find (p_wtxid t) nonfin' = rm_find (p_wtxid t) nonfin ->
    (st_in P fin nonfin t \/ st_out P fin nonfin t) -> (st_in P fin' nonfin' t \/ st_out P fin' nonfin' t).
  Proof.
    intros E1 E2 [[e [r H]]|[b [y H]]]; [left; exists e, r | right; exists b, y]; rewrite E1, E2; exact H.
  Qed.

  Lemma status_pool_change P P' fin nonfin t :
    (forall e, rep_ok P t e -> rep_ok P' t e) -> (has_txid P (p_txid t) = false -> has_txid P' (p_txid t) = false) ->
    (st_in P fin nonfin t \/ st_out P fin nonfin t) -> (st_in P' fin nonfin t \/ st_out P' fin nonfin t).
  Proof.
    intros H1 H2 [[e [r [A [B [C [D E]]]]]]|[b [y [A [B C]]]]].
    - left. exists e, r. repeat split; auto.
    - right. exists b, y. repeat split; auto.
  Qed.

  Lemma step_preserves n pre tx post st :
    package = pre ++ tx :: post -> Inv pre st -> Inv (pre ++ [tx]) (step single n st tx).
  Proof.
    intros Epkg I. destruct I as [Iwf Icl Iun Ist Ikf Ikn Ind Iev Ievn].
    assert (Htx_in : In tx package) by (rewrite Epkg; apply in_or_app; right; left; reflexivity).
    assert (Hpre_in : forall t, In t pre -> In t package) by (intros t Ht; rewrite Epkg; apply in_or_app; left; exact Ht).
    assert (Hnotpre : ~ In tx pre).
    { intros Hin. rewrite Epkg in pkg_nodup. rewrite map_app in pkg_nodup. simpl in pkg_nodup.
      apply NoDup_remove_2 in pkg_nodup. apply pkg_nodup. apply in_or_app. left. apply in_map. exact Hin. }
    assert (Hw_ne : forall t, In t pre -> p_wtxid t <> p_wtxid tx).
    { intros t Ht E. apply Hnotpre. rewrite <- (pkg_wtxid_inj t tx (Hpre_in t Ht) Htx_in E). exact Ht. }
    assert (Hx_ne : forall t, In t pre -> p_txid t <> p_txid tx).
    { intros t Ht E. apply Hnotpre. rewrite <- (pkg_txid_inj t tx (Hpre_in t Ht) Htx_in E). exact Ht. }
    assert (Hf_none : rm_find (p_wtxid tx) (ls_final st) = None).
    { apply rm_find_None_iff. intros Hk. apply Ikf in Hk. apply in_map_iff in Hk. destruct Hk as [t [E Ht]].
      apply (Hw_ne t Ht E). }
    assert (Hn_none : rm_find (p_wtxid tx) (ls_nonfinal st) = None).
    { apply rm_find_None_iff. intros Hk. apply Ikn in Hk. apply in_map_iff in Hk. destruct Hk as [t [E Ht]].
      apply (Hw_ne t Ht E). }
    assert (Hkeys_mono : forall w, In w (map p_wtxid pre) -> In w (map p_wtxid (pre ++ [tx]))).
    { intros w Hw. rewrite map_app. apply in_or_app. left. exact Hw. }
    assert (Hkey_tx : In (p_wtxid tx) (map p_wtxid (pre ++ [tx]))).
    { rewrite map_app. apply in_or_app. right. left. reflexivity. }
    unfold step.
    destruct (has_wtxid (ls_pool st) (p_wtxid tx)) eqn:Hhw.
    { (* exact transaction already in the mempool *)
      apply has_wtxid_true in Hhw. destruct Hhw as [e [He Ee]].
      assert (e = tx) by (apply wtxid_det; [apply Iun; exact He | apply in_or_app; right; exact Htx_in | exact Ee]). subst e.
      constructor; simpl; [exact Iwf | exact Icl | exact Iun | | | intros w Hw; apply Hkeys_mono, Ikn, Hw | | | exact Ievn].
      - intros t Ht. apply in_app_or in Ht. destruct Ht as [Ht|[Ht|[]]].
        + apply (status_other_key _ (ls_final st) (ls_nonfinal st)); [|reflexivity|apply Ist; exact Ht].
          apply rm_find_emplace_other. apply Hw_ne. exact Ht.
        + subst t. left. exists tx, R_mempool_entry. split; [apply rm_find_emplace_new; exact Hf_none|].
          split; [exact Hn_none|]. split; [|split; [reflexivity | reflexivity]].
          intros e' He' E'. apply (pool_wf_unique (ls_pool st)); assumption.
      - intros w Hw. apply keys_emplace in Hw. destruct Hw as [Hw|Hw]; [subst; exact Hkey_tx | apply Hkeys_mono, Ikf, Hw].
      - apply nodup_keys_emplace. exact Ind.
      - intros t Ht. destruct (Iev t Ht) as [H1 H2]. split; [apply in_or_app; left; exact H1|].
        rewrite rm_find_emplace_other; [exact H2 | apply Hw_ne; exact H1]. }
    destruct (entry_by_txid (ls_pool st) (p_txid tx)) as [e|] eqn:Hent.
    { (* same txid, different witness in the mempool *)
      apply entry_by_txid_Some in Hent. destruct Hent as [He Ee].
      constructor; simpl; [exact Iwf | exact Icl | exact Iun | | | intros w Hw; apply Hkeys_mono, Ikn, Hw | | | exact Ievn].
      - intros t Ht. apply in_app_or in Ht. destruct Ht as [Ht|[Ht|[]]].
        + apply (status_other_key _ (ls_final st) (ls_nonfinal st)); [|reflexivity|apply Ist; exact Ht].
          apply rm_find_emplace_other. apply Hw_ne. exact Ht.
        + subst t. left. exists e, (R_different_witness (p_wtxid e)). split; [apply rm_find_emplace_new; exact Hf_none|].
          split; [exact Hn_none|]. split; [|split; [|exact Ee]].
          * intros e' He' E'. apply (pool_wf_unique (ls_pool st)); try assumption. congruence.
          * simpl. split; [reflexivity|]. rewrite has_wtxid_false in Hhw. apply Hhw. exact He.
      - intros w Hw. apply keys_emplace in Hw. destruct Hw as [Hw|Hw]; [subst; exact Hkey_tx | apply Hkeys_mono, Ikf, Hw].
      - apply nodup_keys_emplace. exact Ind.
      - intros t Ht. destruct (Iev t Ht) as [H1 H2]. split; [apply in_or_app; left; exact H1|].
        rewrite rm_find_emplace_other; [exact H2 | apply Hw_ne; exact H1]. }
    (* evaluated on its own *)
    apply entry_by_txid_None in Hent.
    destruct (single (ls_pool st) tx) as [res P'] eqn:Hs.
    destruct (Hsingle _ _ _ _ Iwf Hent Hs) as [[b [y [Eres EP]]]|[Eres [R [EP [Hdc Hav]]]]]; subst res P'.
    - (* failed: mempool unchanged *)
      simpl is_valid. cbv iota.
      assert (Hst_tx : forall fin', rm_find (p_wtxid tx) fin' = None ->
                st_in (ls_pool st) fin' (rm_emplace (p_wtxid tx) (R_invalid b y) (ls_nonfinal st)) tx \/
                st_out (ls_pool st) fin' (rm_emplace (p_wtxid tx) (R_invalid b y) (ls_nonfinal st)) tx).
      { intros fin' Hf'. right. exists b, y. split; [exact Hf'|]. split; [apply rm_find_emplace_new; exact Hn_none | exact Hent]. }
      assert (Hst_pre : forall t, In t pre ->
                st_in (ls_pool st) (ls_final st) (rm_emplace (p_wtxid tx) (R_invalid b y) (ls_nonfinal st)) t \/
                st_out (ls_pool st) (ls_final st) (rm_emplace (p_wtxid tx) (R_invalid b y) (ls_nonfinal st)) t).
      { intros t Ht. apply (status_other_key _ (ls_final st) (ls_nonfinal st)); [reflexivity| |apply Ist; exact Ht].
        apply rm_find_emplace_other. apply Hw_ne. exact Ht. }
      assert (Hkn' : forall w, In w (keys (rm_emplace (p_wtxid tx) (R_invalid b y) (ls_nonfinal st))) -> In w (map p_wtxid (pre ++ [tx]))).
      { intros w Hw. apply keys_emplace in Hw. destruct Hw as [Hw|Hw]; [subst; exact Hkey_tx | apply Hkeys_mono, Ikn, Hw]. }
      destruct ((n =? 1)%nat || negb (is_retry (R_invalid b y))).
      + constructor; simpl; [exact Iwf | exact Icl | exact Iun | | intros w Hw; apply Hkeys_mono, Ikf, Hw | exact Hkn' | exact Ind | | exact Ievn].
        * intros t Ht. apply in_app_or in Ht. destruct Ht as [Ht|[Ht|[]]]; [apply Hst_pre; exact Ht | subst t; apply Hst_tx; exact Hf_none].
        * intros t Ht. destruct (Iev t Ht) as [H1 H2]. split; [apply in_or_app; left; exact H1 | exact H2].
      + constructor; simpl; [exact Iwf | exact Icl | exact Iun | | intros w Hw; apply Hkeys_mono, Ikf, Hw | exact Hkn' | exact Ind | | ].
        * intros t Ht. apply in_app_or in Ht. destruct Ht as [Ht|[Ht|[]]]; [apply Hst_pre; exact Ht | subst t; apply Hst_tx; exact Hf_none].
        * intros t Ht. apply in_app_or in Ht. destruct Ht as [Ht|[Ht|[]]].
          -- destruct (Iev t Ht) as [H1 H2]. split; [apply in_or_app; left; exact H1 | exact H2].
          -- subst t. split; [apply in_or_app; right; left; reflexivity | exact Hf_none].
        * rewrite map_app. simpl. apply NoDup_snoc; [exact Ievn|].
          intros Hin. apply in_map_iff in Hin. destruct Hin as [t [E Ht]]. destruct (Iev t Ht) as [H1 _].
          apply (Hx_ne t H1 E).
    - (* accepted: added after evicting a descendant-closed set *)
      simpl is_valid. cbv iota.
      assert (Habs : has_txid (remove_set R (ls_pool st)) (p_txid tx) = false)
        by (apply (absent_sub (ls_pool st)); [apply remove_set_incl | exact Hent]).
      constructor; simpl; [ | | | | | | | | exact Ievn].
      + apply pool_wf_app; [apply pool_wf_remove; exact Iwf | simpl; constructor; [intros [] | constructor] |].
        intros t [Ht|[]]. subst t. exact Habs.
      + apply closed_app_one; [apply closed_remove; assumption | exact Hav].
      + intros e He. apply in_app_or in He. destruct He as [He|[He|[]]].
        * apply Iun. apply (remove_set_incl R). exact He.
        * subst e. apply in_or_app. right. exact Htx_in.
      + intros t Ht. apply in_app_or in Ht. destruct Ht as [Ht|[Ht|[]]].
        * apply (status_other_key _ (ls_final st) (ls_nonfinal st)); [apply rm_find_emplace_other; apply Hw_ne; exact Ht | reflexivity |].
          apply (status_pool_change (ls_pool st)); [| |apply Ist; exact Ht].
          -- intros e Hr. apply rep_ok_add; [exact Hr|]. intros a [Ha|[]]. subst a. intros E. apply (Hx_ne t Ht). symmetry. exact E.
          -- intros Ha. apply absent_add; [exact Ha|]. intros a [Hq|[]]. subst a. intros E. apply (Hx_ne t Ht). symmetry. exact E.
        * subst t. left. exists tx, R_valid. split; [apply rm_find_emplace_new; exact Hf_none|].
          split; [exact Hn_none|]. split; [|split; reflexivity].
          intros e' He' E'. apply in_app_or in He'. destruct He' as [He'|[He'|[]]]; [|symmetry; exact He'].
          exfalso. rewrite has_txid_false in Habs. apply (Habs e' He' E').
      + intros w Hw. apply keys_emplace in Hw. destruct Hw as [Hw|Hw]; [subst; exact Hkey_tx | apply Hkeys_mono, Ikf, Hw].
      + intros w Hw. apply Hkeys_mono, Ikn, Hw.
      + apply nodup_keys_emplace. exact Ind.
      + intros t Ht. destruct (Iev t Ht) as [H1 H2]. split; [apply in_or_app; left; exact H1|].
        rewrite rm_find_emplace_other; [exact H2 | apply Hw_ne; exact H1].
  Qed.

  Lemma loop_preserves n : forall post pre st,
    package = pre ++ post -> Inv pre st -> Inv (pre ++ post) (fold_left (step single n) post st).
  Proof.
    induction post as [|tx post IH]; intros pre st E I; simpl; [rewrite app_nil_r; exact I|].
    replace (pre ++ tx :: post) with ((pre ++ [tx]) ++ post) by (rewrite <- app_assoc; reflexivity).
    apply IH; [rewrite <- app_assoc; exact E | apply (step_preserves n pre tx post); assumption].
  Qed.

  Lemma init_inv : pool_wf P0 -> closed P0 -> Inv [] (init_state P0).
  Proof.
    intros Hwf Hcl. constructor; simpl; [exact Hwf | exact Hcl | | | | | | | ].
    - intros e He. apply in_or_app. left. exact He.
    - intros t [].
    - intros w [].
    - intros w [].
    - constructor.
    - intros t [].
    - constructor.
  Qed.

  (* ---- status after the sub-package evaluation and the size limiting ---- *)
  Definition mid_status (P : pool) (fin nonfin mres : rmap) (t : ptx) : Prop :=
    (rm_find (p_wtxid t) mres = None /\ st_in P fin nonfin t) \/
    (rm_find (p_wtxid t) mres = Some R_valid /\ rm_find (p_wtxid t) fin = None /\ rep_ok P t t) \/
    ((rm_find (p_wtxid t) mres = None \/ exists b y, rm_find (p_wtxid t) mres = Some (R_invalid b y)) /\
      st_out P fin nonfin t).

  Lemma mid_status_sub P Q fin nonfin mres t : incl Q P -> mid_status P fin nonfin mres t -> mid_status Q fin nonfin mres t.
  Proof.
    intros Hi [[A [e [r [B [C [D E]]]]]]|[[A [B C]]|[A [b [y [B [C D]]]]]]].
    - left. split; [exact A|]. exists e, r. repeat split; try tauto. apply (rep_ok_sub P); tauto.
    - right. left. repeat split; auto. apply (rep_ok_sub P); assumption.
    - right. right. split; [exact A|]. exists b, y. repeat split; auto. apply (absent_sub P); assumption.
  Qed.

  (* what the second loop establishes for the transactions already visited *)
  Definition done_ok (P : pool) (fin : rmap) (t : ptx) : Prop :=
    exists r, rm_find (p_wtxid t) fin = Some r /\ result_matches P t r = true.

  Lemma final_step_ok P2 mres nonfin fin0 : pool_wf P2 ->
    forall pre tx post st fin,
    package = pre ++ tx :: post ->
    (forall t, In t package -> mid_status P2 fin0 nonfin mres t) ->
    (forall t, In t pre -> done_ok P2 fin t) ->
    (forall t, In t (tx :: post) -> rm_find (p_wtxid t) fin = rm_find (p_wtxid t) fin0) ->
    (forall w, In w (keys fin) -> In w (map p_wtxid package)) -> NoDup (keys fin) ->
    let '(st', fin') := final_step P2 mres nonfin (st, fin) tx in
    (forall t, In t (pre ++ [tx]) -> done_ok P2 fin' t) /\
    (forall t, In t post -> rm_find (p_wtxid t) fin' = rm_find (p_wtxid t) fin0) /\
    (forall w, In w (keys fin') -> In w (map p_wtxid package)) /\ NoDup (keys fin').
  Proof.
    intros Hwf2 pre tx post st fin Epkg Hmid Hdone Hrest Hkeys Hnd.
    assert (Htx_in : In tx package) by (rewrite Epkg; apply in_or_app; right; left; reflexivity).
    assert (Hin_pkg : forall t, In t pre \/ In t post -> In t package).
    { intros t [H|H]; rewrite Epkg; apply in_or_app; [left; exact H | right; right; exact H]. }
    assert (Hne : forall t, In t pre \/ In t post -> p_wtxid t <> p_wtxid tx).
    { intros t Ht E. pose proof (pkg_wtxid_inj t tx (Hin_pkg t Ht) Htx_in E) as Et. subst t.
      rewrite Epkg in pkg_nodup. rewrite map_app in pkg_nodup. simpl in pkg_nodup.
      pose proof (NoDup_remove_2 _ _ _ pkg_nodup) as Hn. apply Hn. apply in_or_app.
      destruct Ht as [Ht|Ht]; [left | right]; apply in_map; exact Ht. }
    assert (Hkey_tx : In (p_wtxid tx) (map p_wtxid package)) by (apply in_map; exact Htx_in).
    assert (Hfin_tx : rm_find (p_wtxid tx) fin = rm_find (p_wtxid tx) fin0) by (apply Hrest; left; reflexivity).
    (* generic re-establishment after writing only key wtxid tx *)
    assert (Hgen : forall fin' r,
              (forall w, w <> p_wtxid tx -> rm_find w fin' = rm_find w fin) ->
              rm_find (p_wtxid tx) fin' = Some r -> result_matches P2 tx r = true ->
              (forall w, In w (keys fin') -> w = p_wtxid tx \/ In w (keys fin)) -> NoDup (keys fin') ->
              (forall t, In t (pre ++ [tx]) -> done_ok P2 fin' t) /\
              (forall t, In t post -> rm_find (p_wtxid t) fin' = rm_find (p_wtxid t) fin0) /\
              (forall w, In w (keys fin') -> In w (map p_wtxid package)) /\ NoDup (keys fin')).
    { intros fin' r Hoth Hset Hmatch Hk Hnd'. split; [|split; [|split]].
      - intros t Ht. apply in_app_or in Ht. destruct Ht as [Ht|[Ht|[]]].
        + destruct (Hdone t Ht) as [r0 [A B]]. exists r0. split; [|exact B]. rewrite Hoth; [exact A | apply Hne; left; exact Ht].
        + subst t. exists r. split; assumption.
      - intros t Ht. rewrite Hoth; [apply Hrest; right; exact Ht | apply Hne; right; exact Ht].
      - intros w Hw. destruct (Hk w Hw) as [E|H]; [subst; exact Hkey_tx | apply Hkeys; exact H].
      - exact Hnd'. }
    unfold final_step.
    destruct (Hmid tx Htx_in) as [[Hm [e [r0 [Hf0 [Hn0 [Hrep [Hgood Etx]]]]]]]|[[Hm [Hf0 Hrep]]|[Hm [b [y [Hf0 [Hn0 Habs]]]]]]].
    - (* already in results_final *)
      rewrite Hm, Hfin_tx, Hf0.
      destruct (has_txid P2 (p_txid tx)) eqn:Hh; simpl negb; cbv iota.
      + apply (Hgen fin r0); auto; [rewrite Hfin_tx; exact Hf0|].
        apply has_txid_true in Hh. destruct Hh as [e' [He' Ee']]. assert (e' = e) by (apply Hrep; assumption). subst e'.
        destruct r0; simpl in Hgood |- *.
        * subst e. apply has_wtxid_true. exists tx. auto.
        * destruct Hgood.
        * apply has_wtxid_true. exists e. auto.
        * destruct Hgood as [Hg1 Hg2]. rewrite !andb_true_iff. split; [split|].
          -- apply has_txid_true. exists e. auto.
          -- apply has_wtxid_true. exists e. auto.
          -- apply negb_true_iff. apply Z.eqb_neq. exact Hg2.
      + apply (Hgen (rm_emplace (p_wtxid tx) (R_invalid false WHY_MEMPOOL_FULL) (rm_erase (p_wtxid tx) fin)) (R_invalid false WHY_MEMPOOL_FULL)).
        * intros w Hw. rewrite rm_find_emplace_other by exact Hw. apply rm_find_erase_other. exact Hw.
        * apply rm_find_emplace_new. apply rm_find_erase_same.
        * simpl. rewrite Hh. reflexivity.
        * intros w Hw. apply keys_emplace in Hw. destruct Hw as [Hw|Hw]; [left; exact Hw | right; apply keys_erase in Hw; tauto].
        * apply nodup_keys_emplace. apply nodup_keys_erase. exact Hnd.
    - (* submitted with the sub-package *)
      rewrite Hm. simpl is_valid. rewrite andb_true_l.
      assert (Hfn : rm_find (p_wtxid tx) fin = None) by (rewrite Hfin_tx; exact Hf0).
      destruct (has_wtxid P2 (p_wtxid tx)) eqn:Hh; simpl negb; cbv iota.
      + apply (Hgen (rm_emplace (p_wtxid tx) R_valid fin) R_valid).
        * intros w Hw. apply rm_find_emplace_other. exact Hw.
        * apply rm_find_emplace_new. exact Hfn.
        * simpl. exact Hh.
        * intros w Hw. apply keys_emplace in Hw. exact Hw.
        * apply nodup_keys_emplace. exact Hnd.
      + apply (Hgen (rm_emplace (p_wtxid tx) (R_invalid false WHY_MEMPOOL_FULL) fin) (R_invalid false WHY_MEMPOOL_FULL)).
        * intros w Hw. apply rm_find_emplace_other. exact Hw.
        * apply rm_find_emplace_new. exact Hfn.
        * simpl. apply negb_true_iff. apply has_txid_false. intros e' He' Ee'.
          assert (e' = tx) by (apply Hrep; assumption). subst e'.
          rewrite has_wtxid_false in Hh. apply (Hh tx He'). reflexivity.
        * intros w Hw. apply keys_emplace in Hw. exact Hw.
        * apply nodup_keys_emplace. exact Hnd.
    - (* not in the mempool: individually failed and not submitted *)
      assert (Hfn : rm_find (p_wtxid tx) fin = None) by (rewrite Hfin_tx; exact Hf0).
      assert (Hmatch : forall b' y', result_matches P2 tx (R_invalid b' y') = true).
      { intros b' y'. simpl. rewrite Habs. reflexivity. }
      destruct Hm as [Hm|[b' [y' Hm]]]; rewrite Hm.
      + rewrite Hfn, Hn0.
        apply (Hgen (rm_emplace (p_wtxid tx) (R_invalid b y) fin) (R_invalid b y)); auto.
        * intros w Hw. apply rm_find_emplace_other. exact Hw.
        * apply rm_find_emplace_new. exact Hfn.
        * intros w Hw. apply keys_emplace in Hw. exact Hw.
        * apply nodup_keys_emplace. exact Hnd.
      + simpl is_valid. rewrite andb_false_l. cbv iota.
        apply (Hgen (rm_emplace (p_wtxid tx) (R_invalid b' y') fin) (R_invalid b' y')); auto.
        * intros w Hw. apply rm_find_emplace_other. exact Hw.
        * apply rm_find_emplace_new. exact Hfn.
        * intros w Hw. apply keys_emplace in Hw. exact Hw.
        * apply nodup_keys_emplace. exact Hnd.
  Qed.

  Lemma final_loop_ok P2 mres nonfin fin0 : pool_wf P2 ->
    (forall t, In t package -> mid_status P2 fin0 nonfin mres t) ->
    forall post pre st fin,
    package = pre ++ post ->
    (forall t, In t pre -> done_ok P2 fin t) ->
    (forall t, In t post -> rm_find (p_wtxid t) fin = rm_find (p_wtxid t) fin0) ->
    (forall w, In w (keys fin) -> In w (map p_wtxid package)) -> NoDup (keys fin) ->
    let '(st', fin') := fold_left (final_step P2 mres nonfin) post (st, fin) in
    (forall t, In t package -> done_ok P2 fin' t) /\
    (forall w, In w (keys fin') -> In w (map p_wtxid package)) /\ NoDup (keys fin').
  Proof.
    intros Hwf2 Hmid. induction post as [|tx post IH]; intros pre st fin Epkg Hdone Hrest Hkeys Hnd.
    - simpl. rewrite app_nil_r in Epkg. subst pre. auto.
    - cbn [fold_left]. pose proof (final_step_ok P2 mres nonfin fin0 Hwf2 pre tx post st fin Epkg Hmid Hdone Hrest Hkeys Hnd) as Hs.
      destruct (final_step P2 mres nonfin (st, fin) tx) as [st' fin'].
      destruct Hs as [H1 [H2 [H3 H4]]].
      apply (IH (pre ++ [tx])); auto. rewrite <- app_assoc. exact Epkg.
  Qed.

  (* ---- the theorem ---- *)
  Definition gate : Prop := is_well_formed package = None /\ ((1 < length package)%nat -> is_child_with_parents package = true).

  Lemma accept_package_gate st fin log P' :
    accept_package single multi trim P0 package = ((st, fin), log, P') ->
    gate \/ (fin = [] /\ log = [] /\ P' = P0 /\ st <> PS_valid).
  Proof.
    unfold accept_package, gate. destruct (is_well_formed package) eqn:Hwf.
    - intros E. inversion E; subst. right. repeat split; auto. discriminate.
    - destruct ((1 <? length package)%nat && negb (is_child_with_parents package)) eqn:Hc.
      + intros E. inversion E; subst. right. repeat split; auto. discriminate.
      + intros _. left. split; [reflexivity|]. intros Hl. apply andb_false_iff in Hc. destruct Hc as [Hc|Hc].
        * apply Nat.ltb_ge in Hc. lia.
        * apply negb_false_iff in Hc. exact Hc.
  Qed.

  Lemma accept_package_evaluated st fin log P' :
    pool_wf P0 -> closed P0 -> gate ->
    accept_package single multi trim P0 package = ((st, fin), log, P') ->
    pool_wf P' /\ closed P' /\
    (forall w, In w (keys fin) <-> In w (map p_wtxid package)) /\ NoDup (keys fin) /\
    (forall t, In t package -> exists r, rm_find (p_wtxid t) fin = Some r /\ result_matches P' t r = true).
  Proof.
    intros Hwf0 Hcl0 [Hg1 Hg2]. unfold accept_package. rewrite Hg1.
    assert (Hc : (1 <? length package)%nat && negb (is_child_with_parents package) = false).
    { destruct (1 <? length package)%nat eqn:Hl; [|reflexivity]. apply Nat.ltb_lt in Hl. rewrite (Hg2 Hl). reflexivity. }
    rewrite Hc.
    pose proof (loop_preserves (length package) package [] (init_state P0) eq_refl (init_inv Hwf0 Hcl0)) as I.
    simpl app in I. set (S := fold_left (step single (length package)) package (init_state P0)) in *.
    destruct I as [Iwf Icl Iun Ist Ikf Ikn Ind Iev Ievn].
    (* the sub-package evaluation *)
    assert (Hmidex : forall mst mres P1,
      (if ls_quit S || is_nil (ls_eval S) then (((if ls_quit S then PS_tx_failed else PS_valid), @nil (Z * tx_result)), ls_pool S)
       else sub_package single multi (ls_pool S) (ls_eval S)) = ((mst, mres), P1) ->
      pool_wf P1 /\ closed P1 /\ forall t, In t package -> mid_status P1 (ls_final S) (ls_nonfinal S) mres t).
    { intros mst mres P1 E.
      assert (Hskip : forall t, In t package -> mid_status (ls_pool S) (ls_final S) (ls_nonfinal S) [] t).
      { intros t Ht. destruct (Ist t Ht) as [H|H]; [left; split; [reflexivity | exact H] | right; right; split; [left; reflexivity | exact H]]. }
      destruct (ls_quit S || is_nil (ls_eval S)) eqn:Hsk.
      { inversion E; subst. auto. }
      assert (Hev_abs : forall t, In t (ls_eval S) -> has_txid (ls_pool S) (p_txid t) = false).
      { intros t Ht. destruct (Iev t Ht) as [H1 H2]. destruct (Ist t H1) as [[e [r [A _]]]|[b [y [_ [_ A]]]]]; [congruence | exact A]. }
      unfold sub_package in E.
      destruct (ls_eval S) as [|t1 [|t2 rest]] eqn:Hev.
      - (* empty: excluded by skip *) rewrite orb_true_r in Hsk. discriminate.
      - (* a single transaction is evaluated on its own again *)
        destruct (single (ls_pool S) t1) as [res P1'] eqn:Hs. inversion E; subst mst mres P1'. clear E.
        assert (Ht1 : In t1 package /\ rm_find (p_wtxid t1) (ls_final S) = None) by (apply Iev; left; reflexivity).
        destruct Ht1 as [Ht1 Hf1].
        assert (Habs1 : has_txid (ls_pool S) (p_txid t1) = false) by (apply Hev_abs; left; reflexivity).
        destruct (Hsingle _ _ _ _ Iwf Habs1 Hs) as [[b [y [Eres EP]]]|[Eres [R [EP [Hdc Hav]]]]]; subst res P1.
        + split; [exact Iwf|]. split; [exact Icl|]. intros t Ht.
          destruct (Z.eq_dec (p_wtxid t) (p_wtxid t1)) as [E|NE].
          * assert (t = t1) by (apply pkg_wtxid_inj; assumption). subst t.
            destruct (Ist t1 Ht) as [[e [r [A _]]]|H]; [congruence|].
            right. right. split; [right; exists b, y; simpl; rewrite Z.eqb_refl; reflexivity | exact H].
          * assert (Hm : rm_find (p_wtxid t) [(p_wtxid t1, R_invalid b y)] = None).
            { simpl. destruct (Z.eqb_spec (p_wtxid t1) (p_wtxid t)); [congruence | reflexivity]. }
            destruct (Ist t Ht) as [H|H]; [left; split; assumption | right; right; split; [left; exact Hm | exact H]].
        + assert (Habs' : has_txid (remove_set R (ls_pool S)) (p_txid t1) = false)
            by (apply (absent_sub (ls_pool S)); [apply remove_set_incl | exact Habs1]).
          split; [|split].
          * apply pool_wf_app; [apply pool_wf_remove; exact Iwf | simpl; constructor; [intros [] | constructor] |].
            intros t [Ht|[]]. subst t. exact Habs'.
          * apply closed_app_one; [apply closed_remove; assumption | exact Hav].
          * intros t Ht. destruct (Z.eq_dec (p_wtxid t) (p_wtxid t1)) as [E|NE].
            -- assert (t = t1) by (apply pkg_wtxid_inj; assumption). subst t.
               right. left. split; [simpl; rewrite Z.eqb_refl; reflexivity|]. split; [exact Hf1|].
               intros e' He' Ee'. apply in_app_or in He'. destruct He' as [He'|[He'|[]]]; [|symmetry; exact He'].
               exfalso. rewrite has_txid_false in Habs'. apply (Habs' e' He' Ee').
            -- assert (Hm : rm_find (p_wtxid t) [(p_wtxid t1, R_valid)] = None).
               { simpl. destruct (Z.eqb_spec (p_wtxid t1) (p_wtxid t)); [congruence | reflexivity]. }
               assert (Hxne : forall a, In a [t1] -> p_txid a <> p_txid t).
               { intros a [Ha|[]]. subst a. intros Ex. apply NE. f_equal. symmetry. apply pkg_txid_inj; assumption. }
               destruct (Ist t Ht) as [[e [r [A [B [C [D F]]]]]]|[b [y [A [B C]]]]].
               ++ left. split; [exact Hm|]. exists e, r. repeat split; auto. apply rep_ok_add; assumption.
               ++ right. right. split; [left; exact Hm|]. exists b, y. repeat split; auto. apply absent_add; assumption.
      - (* two or more: AcceptMultipleTransactionsInternal *)
        rewrite <- Hev in *.
        destruct (Hmulti _ _ _ _ _ Iwf Hev_abs Ievn E) as [Hk [[Hall [R [EP [Hdc Hav]]]]|[EP Hinv]]].
        + subst P1.
          assert (Habs' : forall t, In t (ls_eval S) -> has_txid (remove_set R (ls_pool S)) (p_txid t) = false).
          { intros t Ht. apply (absent_sub (ls_pool S)); [apply remove_set_incl | apply Hev_abs; exact Ht]. }
          split; [|split].
          * apply pool_wf_app; [apply pool_wf_remove; exact Iwf | exact Ievn | exact Habs'].
          * apply closed_app_many; [apply closed_remove; assumption | exact Hav].
          * intros t Ht. destruct (in_dec Z.eq_dec (p_wtxid t) (map p_wtxid (ls_eval S))) as [Hin|Hnin].
            -- apply in_map_iff in Hin. destruct Hin as [t' [E' Ht']].
               assert (t' = t) by (apply pkg_wtxid_inj; [apply Iev; exact Ht' | exact Ht | exact E']). subst t'.
               right. left. split; [apply Hall; exact Ht'|]. split; [apply Iev; exact Ht'|].
               intros e' He' Ee'. apply in_app_or in He'. destruct He' as [He'|He'].
               ++ exfalso. specialize (Habs' t Ht'). rewrite has_txid_false in Habs'. apply (Habs' e' He' Ee').
               ++ apply pkg_txid_inj; [apply Iev; exact He' | exact Ht | exact Ee'].
            -- assert (Hm : rm_find (p_wtxid t) mres = None).
               { apply rm_find_None_iff. intros Hc'. apply Hnin. apply Hk. exact Hc'. }
               assert (Hxne : forall a, In a (ls_eval S) -> p_txid a <> p_txid t).
               { intros a Ha Ex. apply Hnin. apply in_map_iff. exists a. split; [|exact Ha].
                 f_equal. apply pkg_txid_inj; [apply Iev; exact Ha | exact Ht | exact Ex]. }
               destruct (Ist t Ht) as [[e [r [A [B [C [D F]]]]]]|[b [y [A [B C]]]]].
               ++ left. split; [exact Hm|]. exists e, r. repeat split; auto. apply rep_ok_add; assumption.
               ++ right. right. split; [left; exact Hm|]. exists b, y. repeat split; auto. apply absent_add; assumption.
        + subst P1. split; [exact Iwf|]. split; [exact Icl|]. intros t Ht.
          destruct (rm_find (p_wtxid t) mres) as [r|] eqn:Hm.
          * destruct (Hinv _ _ Hm) as [b [y Er]]. subst r.
            assert (Hin : In (p_wtxid t) (map p_wtxid (ls_eval S))) by (apply Hk; eapply rm_find_Some_key; eauto).
            apply in_map_iff in Hin. destruct Hin as [t' [E' Ht']].
            assert (t' = t) by (apply pkg_wtxid_inj; [apply Iev; exact Ht' | exact Ht | exact E']). subst t'.
            destruct (Ist t Ht) as [[e [r [A _]]]|H]; [destruct (Iev t Ht') as [_ Hf]; congruence|].
            right. right. split; [right; exists b, y; exact Hm | exact H].
          * destruct (Ist t Ht) as [H|H]; [left; split; assumption | right; right; split; [left; exact Hm | exact H]]. }
    destruct (if ls_quit S || is_nil (ls_eval S) then _ else _) as [[mst mres] P1] eqn:Esub.
    destruct (Hmidex mst mres P1 eq_refl) as [Hwf1 [Hcl1 Hmid1]].
    destruct (Htrim P1) as [R [Etrim Hdc]].
    intros E.
    assert (Hwf2 : pool_wf (trim P1)) by (rewrite Etrim; apply pool_wf_remove; exact Hwf1).
    assert (Hcl2 : closed (trim P1)) by (rewrite Etrim; apply closed_remove; assumption).
    assert (Hmid2 : forall t, In t package -> mid_status (trim P1) (ls_final S) (ls_nonfinal S) mres t).
    { intros t Ht. apply (mid_status_sub P1); [rewrite Etrim; apply remove_set_incl | apply Hmid1; exact Ht]. }
    pose proof (final_loop_ok (trim P1) mres (ls_nonfinal S) (ls_final S) Hwf2 Hmid2 package [] mst (ls_final S) eq_refl) as Hfl.
    destruct (fold_left (final_step (trim P1) mres (ls_nonfinal S)) package (mst, ls_final S)) as [st' fin'] eqn:Ef.
    inversion E; subst st' fin' log P'. clear E.
    destruct Hfl as [Hd [Hk Hn]].
    - intros t [].
    - intros t _. reflexivity.
    - intros w Hw. apply Ikf. exact Hw.
    - exact Ind.
    - split; [exact Hwf2|]. split; [exact Hcl2|]. split; [|split; [exact Hn | exact Hd]].
      intros w. split; [apply Hk|]. intros Hw. apply in_map_iff in Hw. destruct Hw as [t [E Ht]].
      destruct (Hd t Ht) as [r [A _]]. subst w. eapply rm_find_Some_key. exact A.
  Qed.
End Accept.

(* ---------- the statement with every premise explicit ---------- *)
Lemma is_well_formed_None_nodup txns : is_well_formed txns = None -> NoDup (map p_txid txns).
Proof.
  unfold is_well_formed.
  destruct (_ >? MAX_PACKAGE_COUNT); [discriminate|].
  destruct (_ && _); [discriminate|].
  destruct (negb (Nat.eqb _ _)) eqn:Hd; [discriminate|]. intros _.
  apply negb_false_iff in Hd. apply Nat.eqb_eq in Hd. rewrite <- (map_length p_txid txns) in Hd.
  apply nodup_length_eq_iff. exact Hd.
Qed.

Theorem accept_package_correct : forall utxo single multi trim P0 package st fin log P',
  single_ok utxo single -> multi_ok utxo multi -> trim_ok trim ->
  (forall a b, In a (P0 ++ package) -> In b (P0 ++ package) -> p_wtxid a = p_wtxid b -> a = b) ->
  pool_wf P0 -> closed utxo P0 ->
  accept_package single multi trim P0 package = ((st, fin), log, P') ->
  ((fin <> [] \/ log <> [] \/ P' <> P0) ->
     is_well_formed package = None /\ ((1 < length package)%nat -> is_child_with_parents package = true)) /\
  (is_well_formed package = None -> ((1 < length package)%nat -> is_child_with_parents package = true) ->
     (forall w, In w (keys fin) <-> In w (map p_wtxid package)) /\ NoDup (keys fin) /\
     (forall t, In t package -> exists r, rm_find (p_wtxid t) fin = Some r /\ result_matches P' t r = true) /\
     (forall t p inp, In t package -> In p package -> In t P' -> In inp (p_inputs t) -> fst inp = p_txid p ->
        has_txid P' (p_txid p) = true \/ utxo inp = true)).
Proof.
  intros utxo single multi trim P0 package st fin log P' Hs Hm Ht Hdet Hwf Hcl E. split.
  - intros Hev. destruct (accept_package_gate single multi trim P0 package Hdet st fin log P' E) as [G|[A [B [C _]]]]; [exact G|].
    exfalso. destruct Hev as [H|[H|H]]; contradiction.
  - intros Hg1 Hg2.
    pose proof (is_well_formed_None_nodup package Hg1) as Hnd.
    destruct (accept_package_evaluated utxo single multi trim P0 package Hdet Hnd Hs Hm Ht st fin log P' Hwf Hcl (conj Hg1 Hg2) E)
      as [Hwf' [Hcl' [Hk [Hn Hr]]]].
    split; [exact Hk|]. split; [exact Hn|]. split; [exact Hr|].
    intros t p inp _ _ HtP Hin Ep. rewrite <- Ep. apply (Hcl' t HtP inp Hin).
Qed.

(* ---------- the scenario evaluator satisfies the premises (so they are satisfiable together) ---------- *)
Lemma remove_set_nil P : remove_set [] P = P.
Proof. unfold remove_set. induction P as [|a P IH]; simpl; [reflexivity | f_equal; exact IH]. Qed.
Lemma desc_closed_nil P : desc_closed P [].
Proof. intros t x _ []. Qed.

Lemma inputs_avail_avail utxo Q t : inputs_avail utxo Q t = true -> avail utxo Q t.
Proof.
  unfold inputs_avail, avail. rewrite forallb_forall. intros H inp Hin. specialize (H inp Hin).
  unfold input_avail in H. apply orb_true_iff in H. destruct H as [H|H]; [right; exact H|]. left.
  apply existsb_exists in H. destruct H as [e [He Hc]]. apply andb_true_iff in Hc. destruct Hc as [Hc _].
  apply andb_true_iff in Hc. destruct Hc as [Hc _]. apply Z.eqb_eq in Hc. apply has_txid_true. exists e. auto.
Qed.

Lemma toy_single_ok utxo : single_ok utxo (toy_single utxo).
Proof.
  intros P tx res P' _ _. unfold toy_single.
  destruct (negb (inputs_avail utxo P tx)) eqn:Ha.
  { intros E. inversion E; subst. left. exists true, WHY_MISSING_INPUTS. auto. }
  destruct (p_fee tx <? fee_for (vsize_of tx)).
  { intros E. inversion E; subst. left. exists true, WHY_MIN_RELAY_FEE. auto. }
  intros E. inversion E; subst. right. split; [reflexivity|]. exists []. rewrite remove_set_nil.
  split; [reflexivity|]. split; [apply desc_closed_nil|]. apply inputs_avail_avail. apply negb_false_iff in Ha. exact Ha.
Qed.

Lemma toy_prechecks_Some_In utxo : forall txns Q t, toy_prechecks utxo Q txns = Some t -> In t txns.
Proof.
  induction txns as [|a r IH]; simpl; intros Q t H; [discriminate|].
  destruct (inputs_avail utxo Q a); [right; eapply IH; exact H | inversion H; left; reflexivity].
Qed.
Lemma toy_prechecks_None utxo : forall txns Q, toy_prechecks utxo Q txns = None ->
  forall pre t post, txns = pre ++ t :: post -> inputs_avail utxo (Q ++ pre) t = true.
Proof.
  induction txns as [|a r IH]; simpl; intros Q H pre t post E; [destruct pre; discriminate|].
  destruct (inputs_avail utxo Q a) eqn:Ha; [|discriminate].
  destruct pre as [|b pre]; simpl in E; inversion E; subst.
  - rewrite app_nil_r. exact Ha.
  - specialize (IH (Q ++ [b]) H pre t post eq_refl). rewrite <- app_assoc in IH. exact IH.
Qed.
Lemma last_opt_In {A} (l : list A) x : last_opt l = Some x -> In x l.
Proof.
  induction l as [|a l IH]; simpl; [discriminate|]. destruct l as [|b l]; [intros H; inversion H; left; reflexivity|].
  intros H. right. apply IH. exact H.
Qed.
Lemma rm_find_all_valid txns : forall t, In t txns ->
  rm_find (p_wtxid t) (map (fun t => (p_wtxid t, R_valid)) txns) = Some R_valid.
Proof.
  induction txns as [|a r IH]; simpl; intros t Ht; [destruct Ht|].
  destruct Ht as [E|H]; [subst; rewrite Z.eqb_refl; reflexivity|].
  destruct (p_wtxid a =? p_wtxid t); [reflexivity | apply IH; exact H].
Qed.

Lemma toy_multi_ok utxo : multi_ok utxo (toy_multi utxo).
Proof.
  intros P txns st res P' _ _ _. unfold toy_multi.
  destruct (is_well_formed txns).
  { intros E. inversion E; subst. split; [intros w []|]. right. split; [reflexivity|]. intros w r H. discriminate. }
  destruct (toy_prechecks utxo P txns) as [t|] eqn:Hp.
  { intros E. inversion E; subst. split.
    - intros w [Hw|[]]. simpl in Hw. subst w. apply in_map. eapply toy_prechecks_Some_In. exact Hp.
    - right. split; [reflexivity|]. intros w r H. simpl in H. destruct (p_wtxid t =? w); [|discriminate].
      inversion H. eauto. }
  destruct (zsum (map p_fee txns) <? fee_for (zsum (map vsize_of txns))).
  { destruct (last_opt txns) as [l|] eqn:Hl; intros E; inversion E; subst.
    - split.
      + intros w [Hw|[]]. simpl in Hw. subst w. apply in_map. apply last_opt_In. exact Hl.
      + right. split; [reflexivity|]. intros w r H. simpl in H. destruct (p_wtxid l =? w); [|discriminate]. inversion H. eauto.
    - split; [intros w []|]. right. split; [reflexivity|]. intros w r H. discriminate. }
  intros E. inversion E; subst. split.
  - intros w Hw. unfold keys in Hw. rewrite map_map in Hw. simpl in Hw. exact Hw.
  - left. split; [apply rm_find_all_valid|]. exists []. rewrite remove_set_nil. split; [reflexivity|].
    split; [apply desc_closed_nil|]. intros pre t post Et. apply inputs_avail_avail. eapply toy_prechecks_None; eauto.
Qed.

Lemma toy_trim_ok : trim_ok toy_trim.
Proof. intros P. exists []. rewrite remove_set_nil. split; [reflexivity | apply desc_closed_nil]. Qed.
