(* C21: the value represented by a MuHash3072 object (numerator / denominator modulo P3072) and how the
   operations act on it; used by the index proofs. *)
From Coq Require Import NArith Znumtheory Permutation.
From BV Require Import lib.Ints model.CryptoBase model.MuHash proofs.MuHashArith proofs.MuHashLemmas.
Local Open Scope Z_scope.

Definition mh_val (s : muhash) : Z := mh_finalize_num s.
Definition mh_good (s : muhash) : Prop := mh_ok s /\ invertible (mh_den s).

Lemma mh_val_spec s : mh_ok s -> mh_val s = (mh_num s * finv (mh_den s)) mod P3072.
Proof. apply mh_finalize_num_spec. Qed.

Lemma mh_val_range s : mh_ok s -> 0 <= mh_val s < P3072.
Proof. intros [Hn Hd]. apply num_divide_range; assumption. Qed.

Lemma mh_finalize_val s t : mh_val s = mh_val t -> mh_finalize s = mh_finalize t.
Proof. apply mh_finalize_of_num. Qed.

Lemma finv_1 : finv 1 = 1.
Proof.
  pose proof (finv_range 1) as R. pose proof (finv_spec 1 invertible_1) as S. pose proof P3072_gt1.
  rewrite Z.mul_1_r, Z.mod_small in S by lia. exact S.
Qed.

Lemma finv_mod a : finv (a mod P3072) = finv a.
Proof. apply finv_congr. apply Z.mod_mod. pose proof P3072_gt1. lia. Qed.

Lemma finv_mul a b : invertible a -> invertible b -> finv (a * b) = (finv a * finv b) mod P3072.
Proof.
  intros Ha Hb. pose proof P3072_gt1 as Hp.
  pose proof (finv_range (a * b)) as R1.
  assert (R2 : 0 <= (finv a * finv b) mod P3072 < P3072) by (apply Z.mod_pos_bound; lia).
  assert (E : finv (a * b) mod P3072 = ((finv a * finv b) mod P3072) mod P3072).
  { apply invertible_cancel with (a := a * b); [ apply invertible_mult; assumption | ].
    rewrite (finv_spec (a * b)) by (apply invertible_mult; assumption).
    rewrite Zmult_mod_idemp_l.
    replace (finv a * finv b * (a * b)) with ((finv a * a) * (finv b * b)) by ring.
    rewrite Zmult_mod, (finv_spec a Ha), (finv_spec b Hb). rewrite Z.mul_1_l, Z.mod_small by lia. reflexivity. }
  rewrite !Z.mod_small in E by assumption. exact E.
Qed.

Lemma mh_good_empty : mh_good mh_empty.
Proof. split; [ exact mh_empty_ok | exact invertible_1 ]. Qed.
Lemma mh_good_insert s x : mh_good s -> mh_good (mh_insert s x).
Proof. intros [Ho Hi]. split; [ apply mh_insert_ok, Ho | exact Hi ]. Qed.
Lemma mh_good_remove s x : mh_good s -> invertible (mh_to_num3072 x) -> mh_good (mh_remove s x).
Proof.
  intros [Ho Hi] Hx. split; [ apply mh_remove_ok, Ho | ]. simpl. destruct Ho as [Hn Hd].
  rewrite num_multiply_spec by (exact Hd || apply el_ok). apply (proj1 (invertible_mod _)).
  apply invertible_mult; assumption.
Qed.
Lemma mh_good_finalize_state s : mh_ok s -> mh_good (mh_finalize_state s).
Proof. intros Ho. split; [ apply mh_finalize_state_ok, Ho | exact invertible_1 ]. Qed.

Lemma mh_val_empty : mh_val mh_empty = 1.
Proof.
  rewrite mh_val_spec by exact mh_empty_ok. simpl. rewrite finv_1. apply Z.mod_small. pose proof P3072_gt1. lia.
Qed.

Lemma mh_val_insert s x : mh_ok s -> mh_val (mh_insert s x) = (mh_val s * mh_to_num3072 x) mod P3072.
Proof.
  intros Ho. rewrite (mh_val_spec _ (mh_insert_ok s x Ho)), (mh_val_spec s Ho). destruct Ho as [Hn Hd]. simpl.
  rewrite num_multiply_spec by (exact Hn || apply el_ok). rewrite !Zmult_mod_idemp_l. f_equal. ring.
Qed.

Lemma mh_val_remove s x : mh_good s -> invertible (mh_to_num3072 x) ->
  mh_val (mh_remove s x) = (mh_val s * finv (mh_to_num3072 x)) mod P3072.
Proof.
  intros [Ho Hi] Hx. rewrite (mh_val_spec _ (mh_remove_ok s x Ho)), (mh_val_spec s Ho). destruct Ho as [Hn Hd]. simpl.
  rewrite num_multiply_spec by (exact Hd || apply el_ok). rewrite finv_mod, (finv_mul _ _ Hi Hx).
  rewrite Zmult_mod_idemp_r, Zmult_mod_idemp_l. f_equal. ring.
Qed.

Lemma mh_val_finalize_state s : mh_ok s -> mh_val (mh_finalize_state s) = mh_val s.
Proof.
  intros Ho. rewrite (mh_val_spec _ (mh_finalize_state_ok s Ho)). simpl. rewrite finv_1, Z.mul_1_r.
  apply Z.mod_small. apply (mh_val_range s Ho).
Qed.

(* the factor an operation multiplies the value by *)
Definition op_factor (o : mh_op) : Z :=
  match o with MhInsert d => mh_to_num3072 d | MhRemove d => finv (mh_to_num3072 d) end.
Definition ops_factor (ops : list mh_op) : Z := fold_right (fun o acc => op_factor o * acc) 1 ops.
Definition op_data (o : mh_op) : list N := match o with MhInsert d => d | MhRemove d => d end.
Definition ops_invertible (ops : list mh_op) : Prop := forall o, In o ops -> invertible (mh_to_num3072 (op_data o)).

Lemma ops_factor_cons o ops : ops_factor (o :: ops) = op_factor o * ops_factor ops.
Proof. reflexivity. Qed.
Lemma ops_factor_app a b : ops_factor (a ++ b) = ops_factor a * ops_factor b.
Proof.
  induction a as [| o a IH].
  - change (ops_factor b = 1 * ops_factor b). lia.
  - change ((o :: a) ++ b) with (o :: (a ++ b)). rewrite !ops_factor_cons, IH. ring.
Qed.
Lemma ops_invertible_cons o ops : ops_invertible (o :: ops) -> invertible (mh_to_num3072 (op_data o)) /\ ops_invertible ops.
Proof. intros H. split; [ apply H; left; reflexivity | intros o' Ho'; apply H; right; exact Ho' ]. Qed.
Lemma ops_invertible_app a b : ops_invertible (a ++ b) <-> ops_invertible a /\ ops_invertible b.
Proof.
  unfold ops_invertible. split.
  - intros H. split; intros o Ho; apply H; apply in_or_app; [ left | right ]; exact Ho.
  - intros [Ha Hb] o Ho. apply in_app_or in Ho. destruct Ho; [ apply Ha | apply Hb ]; assumption.
Qed.
Lemma ops_invertible_inv ops : ops_invertible ops -> ops_invertible (map mh_op_inv ops).
Proof.
  intros H o Ho. apply in_map_iff in Ho. destruct Ho as [o' [<- Ho']]. specialize (H o' Ho'). destruct o'; exact H.
Qed.

(* running a sequence multiplies the value by the sequence's factor *)
Lemma mh_val_run ops : forall s, mh_good s -> ops_invertible ops ->
  mh_good (mh_run ops s) /\ mh_val (mh_run ops s) = (mh_val s * ops_factor ops) mod P3072.
Proof.
  pose proof P3072_gt1 as Hp.
  induction ops as [| o t IH]; intros s Hs Hinv.
  - split; [ exact Hs | ]. change (ops_factor []) with 1. rewrite Z.mul_1_r. symmetry. apply Z.mod_small.
    apply mh_val_range, Hs.
  - apply ops_invertible_cons in Hinv. destruct Hinv as [Ho Ht].
    change (mh_run (o :: t) s) with (mh_run t (mh_apply s o)). rewrite ops_factor_cons.
    destruct o as [d | d]; simpl mh_apply; simpl in Ho.
    + destruct (IH (mh_insert s d) (mh_good_insert s d Hs) Ht) as [G V]. split; [ exact G | ].
      rewrite V, mh_val_insert by apply Hs. rewrite Zmult_mod_idemp_l. f_equal. simpl op_factor. ring.
    + destruct (IH (mh_remove s d) (mh_good_remove s d Hs Ho) Ht) as [G V]. split; [ exact G | ].
      rewrite V, mh_val_remove by assumption. rewrite Zmult_mod_idemp_l. f_equal. simpl op_factor. ring.
Qed.

(* a sequence followed by its inverse multiplies by 1 *)
Lemma ops_factor_inv ops : ops_invertible ops -> (ops_factor ops * ops_factor (map mh_op_inv ops)) mod P3072 = 1.
Proof.
  pose proof P3072_gt1 as Hp.
  induction ops as [| o t IH]; intros Hinv.
  - simpl. apply Z.mod_small. lia.
  - apply ops_invertible_cons in Hinv. destruct Hinv as [Ho Ht].
    change (map mh_op_inv (o :: t)) with (mh_op_inv o :: map mh_op_inv t). rewrite !ops_factor_cons.
    replace (op_factor o * ops_factor t * (op_factor (mh_op_inv o) * ops_factor (map mh_op_inv t)))
      with ((op_factor o * op_factor (mh_op_inv o)) * (ops_factor t * ops_factor (map mh_op_inv t))) by ring.
    rewrite Zmult_mod, (IH Ht).
    assert (E : (op_factor o * op_factor (mh_op_inv o)) mod P3072 = 1).
    { destruct o as [d | d]; simpl in *; [ rewrite Z.mul_comm | ]; apply finv_spec; exact Ho. }
    rewrite E. apply Z.mod_small. lia.
Qed.

Lemma mh_val_run_inverse ops s : mh_good s -> ops_invertible ops ->
  mh_good (mh_run (map mh_op_inv ops) (mh_run ops s)) /\ mh_val (mh_run (map mh_op_inv ops) (mh_run ops s)) = mh_val s.
Proof.
  intros Hs Hinv. pose proof P3072_gt1 as Hp.
  destruct (mh_val_run ops s Hs Hinv) as [G1 V1].
  destruct (mh_val_run (map mh_op_inv ops) _ G1 (ops_invertible_inv ops Hinv)) as [G2 V2].
  split; [ exact G2 | ]. rewrite V2, V1, Zmult_mod_idemp_l, <- Z.mul_assoc.
  rewrite <- Zmult_mod_idemp_r, (ops_factor_inv ops Hinv), Z.mul_1_r. apply Z.mod_small. apply mh_val_range, Hs.
Qed.

(* the factor of a sequence in terms of its inserted and removed elements *)
Lemma ops_factor_split ops : ops_invertible ops ->
  (ops_factor ops * prodl (rem_list ops)) mod P3072 = prodl (ins_list ops) mod P3072.
Proof.
  pose proof P3072_gt1 as Hp.
  induction ops as [| o t IH]; intros Hinv.
  - reflexivity.
  - apply ops_invertible_cons in Hinv. destruct Hinv as [Ho Ht]. specialize (IH Ht). rewrite ops_factor_cons.
    destruct o as [d | d]; simpl ins_list; simpl rem_list; simpl op_factor; rewrite ?prodl_cons.
    + replace (mh_to_num3072 d * ops_factor t * prodl (rem_list t)) with (mh_to_num3072 d * (ops_factor t * prodl (rem_list t))) by ring.
      rewrite <- Zmult_mod_idemp_r, IH, Zmult_mod_idemp_r. reflexivity.
    + replace (finv (mh_to_num3072 d) * ops_factor t * (mh_to_num3072 d * prodl (rem_list t)))
        with ((finv (mh_to_num3072 d) * mh_to_num3072 d) * (ops_factor t * prodl (rem_list t))) by ring.
      simpl in Ho. rewrite Zmult_mod, (finv_spec _ Ho), IH, Z.mul_1_l. apply Z.mod_mod. lia.
Qed.
