(* Blocks: removeConflicts / removeForBlock leave a pool in which every remaining entry's missing parent was confirmed by
   the block; connecting (ConnectTip) and disconnecting (DisconnectTip) a block preserve the working invariant J; a plain
   connect keeps every entry final and mature for the next block. *)
From BV Require Import lib.Ints gen.Params_gen model.Locks model.Mempool proofs.LocksLemmas.
From BV Require Import proofs.MempoolBase proofs.MempoolPool proofs.MempoolGraph proofs.MempoolChain proofs.MempoolInv.
Local Open Scope Z_scope.

(* q is p with some entries removed; an entry of q whose parent (an entry of p creating one of its inputs) is gone lost it to
   `confirmed` *)
Record sub_ok (p q : pool) (confirmed : list Z) : Prop := {
  so_p : pool_ok p;
  so_q : pool_ok q;
  so_incl : incl (p_entries q) (p_entries p);
  so_parent : forall e e' o, In e (p_entries q) -> In e' (p_entries p) -> ~ In (e_id e') (pool_ids q) ->
              In o (t_ins (e_tx e)) -> tx_creates (e_tx e') o = true -> In (e_id e') confirmed }.

Lemma sub_ok_refl p : pool_ok p -> sub_ok p p [].
Proof.
  intros K. constructor; auto; [intros e He; exact He|].
  intros e e' o _ He' Hn. exfalso. apply Hn. apply in_map. exact He'.
Qed.

Lemma same_id_same_entry p e e' : pool_ok p -> In e (p_entries p) -> In e' (p_entries p) -> e_id e = e_id e' -> e = e'.
Proof.
  intros K He He' E. pose proof (find_entry_unique p e (ok_ids p K) He) as A.
  pose proof (find_entry_unique p e' (ok_ids p K) He') as B. rewrite E in A. congruence.
Qed.

Lemma sub_ok_weaken p q cf cf' : sub_ok p q cf -> incl cf cf' -> sub_ok p q cf'.
Proof. intros [A B C D] H. constructor; auto. intros. apply H. eapply D; eassumption. Qed.

Lemma sub_ok_remove_closed p q cf D : sub_ok p q cf -> closed (children q) D -> sub_ok p (remove_list q D) cf.
Proof.
  intros [Kp Kq Hi Hp] Hcl. constructor.
  - exact Kp.
  - apply remove_list_ok. exact Kq.
  - intros e He. apply remove_list_In in He. apply Hi. tauto.
  - intros e e' o He He' Hn Ho Hc.
    destruct (in_dec Z.eq_dec (e_id e') (pool_ids q)) as [X|X].
    + exfalso. apply in_map_iff in X. destruct X as (e'' & E & He'').
      assert (e'' = e') as -> by (apply (same_id_same_entry p); auto).
      eapply (closed_no_orphan q D Kq Hcl e e' o); eassumption.
    + apply remove_list_In in He. eapply Hp; try eassumption. tauto.
Qed.

Lemma sub_ok_remove_one p q cf id : sub_ok p q cf -> sub_ok p (remove_unchecked q id) (id :: cf).
Proof.
  intros [Kp Kq Hi Hp]. constructor.
  - exact Kp.
  - apply remove_unchecked_ok. exact Kq.
  - intros e He. rewrite remove_unchecked_entries in He. apply filter_In in He. apply Hi. tauto.
  - intros e e' o He He' Hn Ho Hc. rewrite remove_unchecked_entries in He. apply filter_In in He. destruct He as [He _].
    destruct (Z.eq_dec (e_id e') id) as [E|E]; [left; auto|]. right. eapply Hp; try eassumption.
    intros X. apply Hn. unfold pool_ids. rewrite remove_unchecked_entries. apply in_map_iff in X. destruct X as (x & Ex & Hx).
    apply in_map_iff. exists x. split; [exact Ex|]. apply filter_In. split; [exact Hx|]. apply negb_true_iff, Z.eqb_neq. congruence.
Qed.

(* removeConflicts(tx): afterwards no entry spends an input of tx *)
Definition rc_step (t : tx) (q : pool) (o : outpoint) : pool :=
  match next_find (p_next q) o with
  | Some c => if c =? t_id t then q else remove_list q (descendants q [c])
  | None => q
  end.

Lemma rc_fold p cf t : forall l q, sub_ok p q cf -> ~ In (t_id t) (pool_ids q) ->
  let q' := fold_left (rc_step t) l q in
  sub_ok p q' cf /\ (forall e o, In e (p_entries q') -> In o (t_ins (e_tx e)) -> ~ In o l) /\ incl (p_entries q') (p_entries q).
Proof.
  induction l as [|o r IH]; intros q Hs Hn; simpl.
  - split; [exact Hs|]. split; [intros e o _ _ []|intros e He; exact He].
  - pose proof (so_q _ _ _ Hs) as Kq.
    assert (sub_ok p (rc_step t q o) cf /\ incl (p_entries (rc_step t q o)) (p_entries q) /\
            (forall e, In e (p_entries (rc_step t q o)) -> ~ In o (t_ins (e_tx e)))) as (S1 & I1 & N1).
    { unfold rc_step. destruct (next_find (p_next q) o) as [cid|] eqn:F.
      - pose proof (proj1 (next_find_spends q o cid Kq) F) as (x & Hx & Ex & Ox).
        destruct (Z.eqb_spec cid (t_id t)) as [E|E]; [exfalso; apply Hn; rewrite <- E, <- Ex; apply in_map; exact Hx|].
        split; [apply sub_ok_remove_closed; [exact Hs|apply desc_closed; exact Kq]|]. split.
        + intros e He. apply remove_list_In in He. tauto.
        + intros e He Ho. apply remove_list_In in He. destruct He as [He Hd]. apply Hd.
          assert (e = x) as -> by (eapply no_double_spend; eassumption).
          rewrite Ex. apply desc_seed; [left; reflexivity|rewrite <- Ex; apply in_map; exact Hx].
      - split; [exact Hs|]. split; [intros e He; exact He|]. intros e He Ho.
        assert (next_find (p_next q) o = Some (e_id e)) as X by (apply (next_find_spends q o _ Kq); exists e; auto). congruence. }
    assert (~ In (t_id t) (pool_ids (rc_step t q o))) as Hn1.
    { intros X. apply Hn. apply in_map_iff in X. destruct X as (x & Ex & Hx). rewrite <- Ex. apply in_map. apply I1. exact Hx. }
    destruct (IH _ S1 Hn1) as (S2 & N2 & I2). split; [exact S2|]. split.
    + intros e o' He Ho' [<-|Hr]; [apply (N1 e (I2 e He)); exact Ho'|apply (N2 e o' He Ho'); exact Hr].
    + intros e He. apply I1, I2. exact He.
Qed.

Lemma remove_conflicts_unfold q t : remove_conflicts q t = fold_left (rc_step t) (t_ins t) q.
Proof. reflexivity. Qed.

(* removeForBlock *)
Definition rfb_step (q : pool) (t : tx) : pool :=
  remove_conflicts (if in_pool q (t_id t) then remove_unchecked q (t_id t) else q) t.

Lemma rfb_fold p : forall txs q cf, sub_ok p q cf ->
  let q' := fold_left rfb_step txs q in
  sub_ok p q' (ids_of txs ++ cf) /\ incl (p_entries q') (p_entries q) /\
  (forall t, In t txs -> ~ In (t_id t) (pool_ids q') /\ forall e o, In e (p_entries q') -> In o (t_ins (e_tx e)) -> ~ In o (t_ins t)).
Proof.
  induction txs as [|t r IH]; intros q cf Hs; simpl.
  - split; [exact Hs|]. split; [intros e He; exact He|]. intros t [].
  - set (q0 := if in_pool q (t_id t) then remove_unchecked q (t_id t) else q).
    assert (sub_ok p q0 (t_id t :: cf) /\ ~ In (t_id t) (pool_ids q0) /\ incl (p_entries q0) (p_entries q)) as (S0 & N0 & I0).
    { unfold q0. destruct (in_pool q (t_id t)) eqn:I.
      - split; [apply sub_ok_remove_one; exact Hs|]. split.
        + unfold pool_ids. rewrite remove_unchecked_entries. intros X. apply in_map_iff in X. destruct X as (x & Ex & Hx).
          apply filter_In in Hx. destruct Hx as [_ Hx]. apply negb_true_iff, Z.eqb_neq in Hx. contradiction.
        + intros e He. rewrite remove_unchecked_entries in He. apply filter_In in He. tauto.
      - split; [eapply sub_ok_weaken; [exact Hs|intros x Hx; right; exact Hx]|]. split; [apply in_pool_false; exact I|intros e He; exact He]. }
    destruct (rc_fold p (t_id t :: cf) t (t_ins t) q0 S0 N0) as (S1 & N1 & I1).
    change (fold_left (rc_step t) (t_ins t) q0) with (rfb_step q t) in *.
    destruct (IH (rfb_step q t) (t_id t :: cf) S1) as (S2 & I2 & N2).
    split; [eapply sub_ok_weaken; [exact S2|]|].
    { intros x Hx. apply in_app_iff in Hx. simpl.
      destruct Hx as [Hx|[<-|Hx]]; [right; apply in_app_iff; auto|left; reflexivity|right; apply in_app_iff; auto]. }
    split; [intros e He; apply I0, I1, I2; exact He|].
    intros t' [<-|Ht'].
    + split.
      * intros X. apply N0. apply in_map_iff in X. destruct X as (x & Ex & Hx). rewrite <- Ex. apply in_map. apply I1, I2. exact Hx.
      * intros e o He Ho. apply (N1 e o (I2 e He) Ho).
    + apply N2. exact Ht'.
Qed.

Lemma remove_for_block_unfold p txs : remove_for_block p txs = fold_left rfb_step txs p.
Proof. reflexivity. Qed.

Lemma remove_for_block_spec p txs : pool_ok p ->
  let q := remove_for_block p txs in
  sub_ok p q (ids_of txs) /\
  (forall t, In t txs -> ~ In (t_id t) (pool_ids q) /\ forall e o, In e (p_entries q) -> In o (t_ins (e_tx e)) -> ~ In o (t_ins t)).
Proof.
  intros K. rewrite remove_for_block_unfold. destruct (rfb_fold p txs p [] (sub_ok_refl p K)) as (A & _ & B).
  rewrite app_nil_r in A. auto.
Qed.

Section WithU.
Variable U : tx -> Prop.
Hypothesis U_inj : forall t1 t2, U t1 -> U t2 -> t_id t1 = t_id t2 -> t1 = t2.
Hypothesis U_wf : forall t, U t -> 0 <= t_locktime t <= 4294967295.

(* ConnectTip: the chain grows by b, removeForBlock on the pool, the queue drops the transactions b confirmed *)
Lemma connect_J c p dp b : J U c p dp -> block_ok c b = true -> (forall t, In t (b_txs b) -> U t) ->
  J U (b :: c) (remove_for_block p (b_txs b)) (filter (fun t => negb (memz (t_id t) (map t_id (b_txs b)))) dp).
Proof.
  intros Hj Hb HbU. pose proof (j_pool _ _ _ _ Hj) as K. pose proof (j_chain _ _ _ _ Hj) as Hc.
  destruct (remove_for_block_spec p (b_txs b) K) as (Hs & Hn). set (q := remove_for_block p (b_txs b)) in *.
  pose proof (block_ok_facts _ _ Hb) as F.
  assert (forall e o, In e (p_entries q) -> In o (t_ins (e_tx e)) -> spent_in_block b o = false) as Hunspent.
  { intros e o He Ho. destruct (spent_in_block b o) eqn:S; [|reflexivity]. exfalso.
    apply spent_in_block_iff in S. destruct S as (t & Ht & Hot). exact (proj2 (Hn t Ht) e o He Ho Hot). }
  constructor.
  - apply chain_ok_cons; [apply chain_ok_nonempty; exact Hc|exact Hb|exact Hc].
  - exact (so_q _ _ _ Hs).
  - intros e o He Ho. pose proof (Hunspent e o He Ho) as S. pose proof (so_incl _ _ _ Hs e He) as Hep.
    destruct (j_avail _ _ _ _ Hj e o Hep Ho) as [A|[(e' & He' & Ce')|(t & Ht & Ct)]].
    + left. destruct (utxo c o) as [x|] eqn:Ux; [|tauto]. rewrite (utxo_connect_old c b Hb o x Ux S). discriminate.
    + destruct (in_dec Z.eq_dec (e_id e') (pool_ids q)) as [X|X].
      * right. left. exists e'. split; [|exact Ce']. apply in_map_iff in X. destruct X as (e'' & E & He'').
        assert (e'' = e') as <- by (apply (same_id_same_entry p); auto; apply (so_incl _ _ _ Hs); exact He''). exact He''.
      * left. pose proof (so_parent _ _ _ Hs e e' o He He' X Ho Ce') as Hcf. apply in_map_iff in Hcf.
        destruct Hcf as (t & Et & Ht).
        assert (t = e_tx e') as -> by (apply U_inj; [apply HbU; exact Ht|apply (j_pool_U _ _ _ _ Hj); exact He'|exact Et]).
        rewrite (utxo_connect_new c b Hc Hb (e_tx e') o Ht Ce' S). discriminate.
    + destruct (memz (t_id t) (map t_id (b_txs b))) eqn:M.
      * left. apply memz_In, in_map_iff in M. destruct M as (t' & Et & Ht').
        assert (t' = t) as -> by (apply U_inj; [apply HbU; exact Ht'|apply (j_dp_U _ _ _ _ Hj); exact Ht|exact Et]).
        rewrite (utxo_connect_new c b Hc Hb t o Ht' Ct S). discriminate.
      * right. right. exists t. split; [|exact Ct]. apply filter_In. split; [exact Ht|]. rewrite M. reflexivity.
  - intros e He. rewrite chain_txids_cons, in_app_iff. intros [X|X].
    + apply in_map_iff in X. destruct X as (t & Et & Ht). apply (proj1 (Hn t Ht)). rewrite Et. apply in_map. exact He.
    + apply (j_disj _ _ _ _ Hj e); [apply (so_incl _ _ _ Hs); exact He|exact X].
  - intros e o t He. apply (j_flag _ _ _ _ Hj). apply (so_incl _ _ _ Hs). exact He.
  - intros e He. apply (j_pool_U _ _ _ _ Hj). apply (so_incl _ _ _ Hs). exact He.
  - intros b' t [<-|Hb'] Ht; [apply HbU; exact Ht|eapply (j_chain_U _ _ _ _ Hj); eassumption].
  - intros t Ht. apply filter_In in Ht. apply (j_dp_U _ _ _ _ Hj). tauto.
Qed.

Lemma connect_entries_incl p txs : pool_ok p -> incl (p_entries (remove_for_block p txs)) (p_entries p).
Proof. intros K. destruct (remove_for_block_spec p txs K) as (Hs & _). exact (so_incl _ _ _ Hs). Qed.

(* a plain connect keeps finality and coinbase maturity for the next block *)
Lemma connect_final c b t : chain_okb c = true -> block_ok c b = true -> U t ->
  check_final c t = true -> check_final (b :: c) t = true.
Proof.
  intros Hc Hb Ut. unfold check_final. pose proof (block_ok_facts _ _ Hb) as F.
  pose proof (chain_ok_height c Hc) as Hh. pose proof (bf_height _ _ F) as Hh'. unfold INT32_MAX in *.
  apply is_final_mono.
  - simpl. apply U_wf. exact Ut.
  - lia.
  - rewrite height_cons. lia.
  - rewrite height_cons. lia.
  - apply mtp_tip_mono; [apply chain_ok_nonempty; exact Hc|exact (bf_time _ _ F)].
Qed.

Lemma connect_mature c p b e o h : J U c p [] -> block_ok c b = true -> (forall t, In t (b_txs b) -> U t) ->
  (forall h', utxo c o = Some (h', true) -> COINBASE_MATURITY <= height c + 1 - h') ->
  In e (p_entries p) -> In o (t_ins (e_tx e)) ->
  utxo (b :: c) o = Some (h, true) -> COINBASE_MATURITY <= height (b :: c) + 1 - h.
Proof.
  intros Hj Hb HbU Hold He Ho Hu. rewrite height_cons. apply utxo_cons_inv in Hu.
  destruct Hu as [Hu|(t & Ht & Ct & Ecb & _)].
  - specialize (Hold h Hu). lia.
  - exfalso. pose proof (block_ok_facts _ _ Hb) as F. pose proof (tx_creates_id _ _ Ct) as Eid.
    destruct (j_avail _ _ _ _ Hj e o He Ho) as [A|[(e' & He' & Ce')|(t' & [] & _)]].
    + apply (bf_fresh _ _ F (t_id t)); [apply in_map; exact Ht|]. rewrite <- Eid. apply utxo_id. exact A.
    + assert (t = e_tx e') as -> by (apply U_inj; [apply HbU; exact Ht|apply (j_pool_U _ _ _ _ Hj); exact He'|
                                       rewrite <- Eid; apply tx_creates_id; exact Ce']).
      destruct (ok_ins p (j_pool _ _ _ _ Hj) e' He') as [_ Hne]. symmetry in Ecb. unfold is_cb in Ecb. apply is_nil_true in Ecb. contradiction.
Qed.

(* DisconnectTip: the transactions of the block join the queue *)
Lemma disconnect_J b c p dp : c <> [] -> J U (b :: c) p dp -> J U c p (b_txs b ++ dp).
Proof.
  intros Hne Hj. pose proof (chain_ok_inv b c Hne (j_chain _ _ _ _ Hj)) as [_ Hc]. constructor.
  - exact Hc.
  - exact (j_pool _ _ _ _ Hj).
  - intros e o He Ho. destruct (j_avail _ _ _ _ Hj e o He Ho) as [A|[A|(t & Ht & Ct)]]; [|auto|].
    + destruct (utxo_disconnect b c o A) as [X|(t & Ht & Ct)]; [auto|]. right. right. exists t. split; [apply in_app_iff; auto|exact Ct].
    + right. right. exists t. split; [apply in_app_iff; auto|exact Ct].
  - intros e He X. apply (j_disj _ _ _ _ Hj e He). rewrite chain_txids_cons. apply in_app_iff. auto.
  - exact (j_flag _ _ _ _ Hj).
  - exact (j_pool_U _ _ _ _ Hj).
  - intros b' t Hb'. apply (j_chain_U _ _ _ _ Hj). right. exact Hb'.
  - intros t Ht. apply in_app_iff in Ht. destruct Ht as [Ht|Ht]; [apply (j_chain_U _ _ _ _ Hj b); [left; reflexivity|exact Ht]|apply (j_dp_U _ _ _ _ Hj); exact Ht].
Qed.

End WithU.
