(* The UTXO map of model/Ledger.v: a strictly sorted association list is a canonical
   representation of a finite map (equal maps are equal terms). *)
From BV Require Import lib.Ints gen.Params_gen model.Amount model.Ledger.
Local Open Scope Z_scope.

Definition olt (a b : outpoint) : Prop := fst a < fst b \/ (fst a = fst b /\ snd a < snd b).

Lemma ocmp_eq a b : ocmp a b = Eq <-> a = b.
Proof.
  destruct a as [a1 a2], b as [b1 b2]. unfold ocmp. cbn [fst snd].
  destruct (Z.compare_spec a1 b1) as [E|L|G]; destruct (Z.compare_spec a2 b2) as [E2|L2|G2];
    split; intros H; try discriminate; try (injection H as H1 H2; lia); subst; reflexivity.
Qed.
Lemma ocmp_lt a b : ocmp a b = Lt <-> olt a b.
Proof.
  destruct a as [a1 a2], b as [b1 b2]. unfold ocmp, olt. cbn [fst snd].
  destruct (Z.compare_spec a1 b1) as [E|L|G]; destruct (Z.compare_spec a2 b2) as [E2|L2|G2];
    split; intros H; try discriminate; try lia; try reflexivity.
Qed.
Lemma ocmp_gt a b : ocmp a b = Gt <-> olt b a.
Proof.
  destruct a as [a1 a2], b as [b1 b2]. unfold ocmp, olt. cbn [fst snd].
  destruct (Z.compare_spec a1 b1) as [E|L|G]; destruct (Z.compare_spec a2 b2) as [E2|L2|G2];
    split; intros H; try discriminate; try lia; try reflexivity.
Qed.
Lemma oeqb_eq a b : oeqb a b = true <-> a = b.
Proof.
  destruct a as [a1 a2], b as [b1 b2]. unfold oeqb. cbn [fst snd]. split.
  - intros H. apply andb_prop in H. destruct H as [H1 H2]. apply Z.eqb_eq in H1, H2. subst. reflexivity.
  - intros H. injection H as -> ->. rewrite !Z.eqb_refl. reflexivity.
Qed.
Lemma oeqb_refl a : oeqb a a = true.
Proof. apply oeqb_eq. reflexivity. Qed.
Lemma oeqb_neq a b : oeqb a b = false <-> a <> b.
Proof.
  split.
  - intros H E. apply oeqb_eq in E. congruence.
  - intros H. destruct (oeqb a b) eqn:E; [|reflexivity]. apply oeqb_eq in E. contradiction.
Qed.
Lemma outpoint_dec (a b : outpoint) : {a = b} + {a <> b}.
Proof. destruct (oeqb a b) eqn:E; [left; apply oeqb_eq; exact E|right; apply oeqb_neq; exact E]. Qed.
Lemma olt_trans a b c : olt a b -> olt b c -> olt a c.
Proof. unfold olt. lia. Qed.
Lemma olt_irrefl a : ~ olt a a.
Proof. unfold olt. lia. Qed.
Lemma olt_neq a b : olt a b -> a <> b.
Proof. intros H E. subst. exact (olt_irrefl _ H). Qed.
Lemma olt_total a b : olt a b \/ a = b \/ olt b a.
Proof.
  destruct (ocmp a b) eqn:E.
  - right; left. apply ocmp_eq. exact E.
  - left. apply ocmp_lt. exact E.
  - right; right. apply ocmp_gt. exact E.
Qed.

Fixpoint sorted (u : utxo) : Prop :=
  match u with
  | [] => True
  | kc :: r => (forall k', In k' (map fst r) -> olt (fst kc) k') /\ sorted r
  end.

(* ---- lookup ---- *)
Lemma lookup_none_notin u o : lookup u o = None <-> ~ In o (map fst u).
Proof.
  induction u as [|[k c] r IH]; cbn [lookup map fst In]; [tauto|].
  destruct (oeqb o k) eqn:E.
  - apply oeqb_eq in E. subst. split; [discriminate|]. intros H. exfalso. apply H. left. reflexivity.
  - apply oeqb_neq in E. rewrite IH. split.
    + intros H [H1|H1]; [congruence|contradiction].
    + intros H H1. apply H. right. exact H1.
Qed.
Lemma lookup_some_in u o c : lookup u o = Some c -> In (o, c) u.
Proof.
  induction u as [|[k d] r IH]; cbn [lookup In]; [discriminate|].
  destruct (oeqb o k) eqn:E.
  - apply oeqb_eq in E. subst. intros H. injection H as ->. left. reflexivity.
  - intros H. right. apply IH. exact H.
Qed.
Lemma lookup_some_key u o c : lookup u o = Some c -> In o (map fst u).
Proof. intros H. apply lookup_some_in in H. apply (in_map fst) in H. exact H. Qed.
Lemma in_lookup_sorted u o c : sorted u -> In (o, c) u -> lookup u o = Some c.
Proof.
  induction u as [|[k d] r IH]; cbn [sorted lookup In fst]; [intros _ []|].
  intros [Hk Hs] [H|H].
  - injection H as -> ->. rewrite oeqb_refl. reflexivity.
  - destruct (oeqb o k) eqn:E.
    + apply oeqb_eq in E. subst. exfalso. apply (olt_irrefl k). apply Hk.
      apply (in_map fst) in H. exact H.
    + apply IH; assumption.
Qed.

Lemma lookup_add_eq u o c : lookup (add u o c) o = Some c.
Proof.
  induction u as [|[k d] r IH]; cbn [add lookup].
  - rewrite oeqb_refl. reflexivity.
  - destruct (ocmp o k) eqn:E; cbn [lookup].
    + rewrite oeqb_refl. reflexivity.
    + rewrite oeqb_refl. reflexivity.
    + assert (o <> k) by (intros ->; apply ocmp_gt in E; exact (olt_irrefl _ E)).
      apply oeqb_neq in H. rewrite H. exact IH.
Qed.
Lemma lookup_add_neq u o c o' : o' <> o -> lookup (add u o c) o' = lookup u o'.
Proof.
  intros Hn. induction u as [|[k d] r IH]; cbn [add lookup].
  - apply oeqb_neq in Hn. rewrite Hn. reflexivity.
  - destruct (ocmp o k) eqn:E; cbn [lookup].
    + apply ocmp_eq in E. subst k. apply oeqb_neq in Hn. rewrite Hn. reflexivity.
    + apply oeqb_neq in Hn. rewrite Hn. reflexivity.
    + rewrite IH. reflexivity.
Qed.
Lemma lookup_add u o c o' : lookup (add u o c) o' = if oeqb o' o then Some c else lookup u o'.
Proof.
  destruct (oeqb o' o) eqn:E.
  - apply oeqb_eq in E. subst. apply lookup_add_eq.
  - apply oeqb_neq in E. apply lookup_add_neq. exact E.
Qed.
Lemma lookup_remove_neq u o o' : o' <> o -> lookup (remove u o) o' = lookup u o'.
Proof.
  intros Hn. induction u as [|[k d] r IH]; cbn [remove lookup]; [reflexivity|].
  destruct (oeqb o k) eqn:E.
  - apply oeqb_eq in E. subst k. apply oeqb_neq in Hn. rewrite Hn. reflexivity.
  - cbn [lookup]. rewrite IH. reflexivity.
Qed.
Lemma keys_remove u o k : In k (map fst (remove u o)) -> In k (map fst u).
Proof.
  induction u as [|[k0 d] r IH]; cbn [remove map fst In]; [tauto|].
  destruct (oeqb o k0); cbn [map fst In]; tauto.
Qed.
Lemma lookup_remove_eq u o : sorted u -> lookup (remove u o) o = None.
Proof.
  induction u as [|[k d] r IH]; cbn [sorted remove lookup fst]; [reflexivity|].
  intros [Hk Hs]. destruct (oeqb o k) eqn:E.
  - apply oeqb_eq in E. subst k. apply lookup_none_notin. intros Hin. exact (olt_irrefl _ (Hk _ Hin)).
  - cbn [lookup]. rewrite E. apply IH. exact Hs.
Qed.
Lemma lookup_remove u o o' : sorted u -> lookup (remove u o) o' = if oeqb o' o then None else lookup u o'.
Proof.
  intros Hs. destruct (oeqb o' o) eqn:E.
  - apply oeqb_eq in E. subst. apply lookup_remove_eq. exact Hs.
  - apply oeqb_neq in E. apply lookup_remove_neq. exact E.
Qed.

(* ---- sortedness is preserved ---- *)
Lemma keys_add u o c k : In k (map fst (add u o c)) -> k = o \/ In k (map fst u).
Proof.
  induction u as [|[k0 d] r IH]; cbn [add map fst In].
  - intros [H|[]]. left. symmetry. exact H.
  - destruct (ocmp o k0) eqn:E; cbn [map fst In].
    + intros [H|H]; [left; symmetry; exact H|right; right; exact H].
    + intros [H|[H|H]]; [left; symmetry; exact H|right; left; exact H|right; right; exact H].
    + intros [H|H]; [right; left; exact H|]. destruct (IH H) as [H1|H1]; [left; exact H1|right; right; exact H1].
Qed.
Lemma sorted_add u o c : sorted u -> sorted (add u o c).
Proof.
  induction u as [|[k d] r IH]; cbn [add sorted fst map].
  - intros _. split; [intros k' []|exact I].
  - intros [Hk Hs]. destruct (ocmp o k) eqn:E; cbn [sorted fst map].
    + apply ocmp_eq in E. subst k. split; assumption.
    + apply ocmp_lt in E. split; [|split; assumption].
      intros k' [H|H]; [subst; exact E|]. apply (olt_trans _ k); [exact E|apply Hk; exact H].
    + apply ocmp_gt in E. split; [|apply IH; exact Hs].
      intros k' H. destruct (keys_add _ _ _ _ H) as [H1|H1]; [subst; exact E|apply Hk; exact H1].
Qed.
Lemma sorted_remove u o : sorted u -> sorted (remove u o).
Proof.
  induction u as [|[k d] r IH]; cbn [remove sorted fst]; [tauto|].
  intros [Hk Hs]. destruct (oeqb o k); [exact Hs|]. cbn [sorted fst]. split; [|apply IH; exact Hs].
  intros k' H. apply Hk. apply (keys_remove _ _ _ H).
Qed.

(* ---- extensionality: the representation is canonical ---- *)
Lemma sorted_ext u v : sorted u -> sorted v -> (forall o, lookup u o = lookup v o) -> u = v.
Proof.
  revert v. induction u as [|[k c] r IH]; intros v Hu Hv H.
  - destruct v as [|[k' c'] r']; [reflexivity|]. specialize (H k'). cbn [lookup] in H.
    rewrite oeqb_refl in H. discriminate.
  - destruct v as [|[k' c'] r'].
    { specialize (H k). cbn [lookup] in H. rewrite oeqb_refl in H. discriminate. }
    cbn [sorted fst] in Hu, Hv. destruct Hu as [Hk Hs], Hv as [Hk' Hs'].
    assert (Ek : k = k').
    { destruct (olt_total k k') as [L|[E|L]]; [|exact E|].
      - exfalso. pose proof (H k) as Hq. cbn [lookup] in Hq. rewrite oeqb_refl in Hq.
        assert (oeqb k k' = false) by (apply oeqb_neq; apply olt_neq; exact L). rewrite H0 in Hq.
        symmetry in Hq. apply lookup_some_key in Hq. apply (olt_irrefl k). apply (olt_trans _ k'); [exact L|]. apply Hk'. exact Hq.
      - exfalso. pose proof (H k') as Hq. cbn [lookup] in Hq. rewrite oeqb_refl in Hq.
        assert (oeqb k' k = false) by (apply oeqb_neq; apply olt_neq; exact L). rewrite H0 in Hq.
        apply lookup_some_key in Hq. apply (olt_irrefl k'). apply (olt_trans _ k); [exact L|]. apply Hk. exact Hq. }
    subst k'. pose proof (H k) as Hq. cbn [lookup] in Hq. rewrite oeqb_refl in Hq. injection Hq as ->.
    f_equal. apply IH; try assumption. intros o. specialize (H o). cbn [lookup] in H.
    destruct (oeqb o k) eqn:E; [|exact H]. apply oeqb_eq in E. subst o.
    assert (lookup r k = None) by (apply lookup_none_notin; intros Hin; exact (olt_irrefl _ (Hk _ Hin))).
    assert (lookup r' k = None) by (apply lookup_none_notin; intros Hin; exact (olt_irrefl _ (Hk' _ Hin))).
    congruence.
Qed.

Lemma remove_add u o c : sorted u -> lookup u o = None -> remove (add u o c) o = u.
Proof.
  intros Hs Hn. apply sorted_ext; [apply sorted_remove; apply sorted_add; exact Hs|exact Hs|].
  intros o'. rewrite lookup_remove by (apply sorted_add; exact Hs). rewrite lookup_add.
  destruct (oeqb o' o) eqn:E; [|reflexivity]. apply oeqb_eq in E. subst. symmetry. exact Hn.
Qed.
Lemma add_remove u o c : sorted u -> lookup u o = Some c -> add (remove u o) o c = u.
Proof.
  intros Hs Hn. apply sorted_ext; [apply sorted_add; apply sorted_remove; exact Hs|exact Hs|].
  intros o'. rewrite lookup_add, lookup_remove by exact Hs.
  destruct (oeqb o' o) eqn:E; [|reflexivity]. apply oeqb_eq in E. subst. symmetry. exact Hn.
Qed.

(* ---- totals ---- *)
Lemma total_remove u o : total (remove u o) = total u - val_of (lookup u o).
Proof.
  unfold total. induction u as [|[k d] r IH]; cbn [remove lookup map zsum snd val_of]; [lia|].
  destruct (oeqb o k) eqn:E; cbn [map zsum snd val_of]; [lia|]. rewrite IH. lia.
Qed.
Lemma total_add u o c : sorted u -> total (add u o c) = total u + c_value c - val_of (lookup u o).
Proof.
  unfold total. induction u as [|[k d] r IH]; cbn [add lookup map zsum snd val_of sorted fst]; [lia|].
  intros [Hk Hs]. destruct (ocmp o k) eqn:E.
  - apply ocmp_eq in E. subst k. rewrite oeqb_refl. cbn [map zsum snd val_of]. lia.
  - apply ocmp_lt in E. assert (En : oeqb o k = false) by (apply oeqb_neq; apply olt_neq; exact E). rewrite En.
    assert (lookup r o = None).
    { apply lookup_none_notin. intros Hin. apply (olt_irrefl o). apply (olt_trans _ k); [exact E|apply Hk; exact Hin]. }
    rewrite H. cbn [map zsum snd val_of]. lia.
  - apply ocmp_gt in E. assert (En : oeqb o k = false).
    { apply oeqb_neq. intros ->. exact (olt_irrefl _ E). }
    rewrite En. cbn [map zsum snd]. rewrite IH by exact Hs. lia.
Qed.
Lemma total_add_fresh u o c : sorted u -> lookup u o = None -> total (add u o c) = total u + c_value c.
Proof. intros Hs Hn. rewrite total_add by exact Hs. rewrite Hn. cbn [val_of]. lia. Qed.

(* every coin of the set satisfies P *)
Definition all_coins (P : coin -> Prop) (u : utxo) : Prop := forall o c, lookup u o = Some c -> P c.
Lemma all_coins_add P u o c : all_coins P u -> P c -> all_coins P (add u o c).
Proof.
  intros Hu Hc o' c'. rewrite lookup_add. destruct (oeqb o' o); [intros H; injection H as <-; exact Hc|apply Hu].
Qed.
Lemma all_coins_remove P u o : sorted u -> all_coins P u -> all_coins P (remove u o).
Proof.
  intros Hs Hu o' c'. rewrite lookup_remove by exact Hs. destruct (oeqb o' o); [discriminate|apply Hu].
Qed.
Lemma all_coins_nil P : all_coins P [].
Proof. intros o c. cbn. discriminate. Qed.
