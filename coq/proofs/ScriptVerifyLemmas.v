(* VerifyScript (model/ScriptVerify.v): flags are soft forks for valid combinations; flag-set inclusions
   between the policy flags and the consensus flags over the generated constants. *)
From BV Require Import lib.Ints gen.Params_gen model.Script model.ScriptVerify
  proofs.ScriptNumLemmas proofs.ScriptLemmas proofs.ScriptInvLemmas proofs.ScriptFlagsLemmas.
Local Open Scope Z_scope.

Section VerifyMono.
Variable sha256 ripemd160 sha1 : bytes -> bytes.
Variable ck : checker.
Variable tap_commit : bytes -> bytes -> bytes -> bool.
Variables f g : Z.
Hypothesis Hle : flags_le f g.

Notation eval_g := (eval sha256 ripemd160 sha1 g ck).
Notation eval_f := (eval sha256 ripemd160 sha1 f ck).
Notation vwp_g := (verify_witness_program sha256 ripemd160 sha1 g ck tap_commit).
Notation vwp_f := (verify_witness_program sha256 ripemd160 sha1 f ck tap_commit).

(* walk through the successful run under g, collecting for each stage the corresponding fact about f *)
Ltac transport E :=
  try (let E' := fresh "Evf" in pose proof (eval_mono sha256 ripemd160 sha1 ck f g Hle _ _ _ _ E) as E');
  try (let E' := fresh "Ewf" in pose proof (verify_witness_program_mono sha256 ripemd160 sha1 ck f g Hle tap_commit _ _ _ _ E) as E').
Ltac walk H :=
  repeat
    (cbn [obind verr vok] in H;
     match type of H with
     | context [match ?x with _ => _ end] =>
       lazymatch x with context [match _ with _ => _ end] => fail | _ => idtac end;
       let E := fresh "Em" in destruct x eqn:E; try discriminate H; transport E
     | context [obind ?r _] =>
       lazymatch r with obind _ _ => fail | Some _ => fail | _ => idtac end;
       let E := fresh "Eo" in destruct r as [[[]|?]|] eqn:E; try discriminate H; transport E
     end).
Ltac finish :=
  cbn [andb orb negb] in *;
  repeat (cbn [obind verr vok andb orb negb];
          match goal with
          | E : ?l = _ |- context [?l] =>
            lazymatch l with true => fail | false => fail | _ => idtac end; rewrite E
          end);
  cbn [obind verr vok andb orb negb]; try reflexivity.

Theorem verify_script_mono ssig spk wit : flags_valid f = true -> flags_valid g = true ->
  verify_script sha256 ripemd160 sha1 g ck tap_commit ssig spk wit = Some (Ok tt) ->
  verify_script sha256 ripemd160 sha1 f ck tap_commit ssig spk wit = Some (Ok tt).
Proof.
  unfold verify_script, flags_valid. cbv zeta.
  destruct (has f SCR_FLAG_SIGPUSHONLY) eqn:fS; destruct (has g SCR_FLAG_SIGPUSHONLY) eqn:gS; try (apply Hle in fS; congruence);
  destruct (has f SCR_FLAG_P2SH) eqn:fP; destruct (has g SCR_FLAG_P2SH) eqn:gP; try (apply Hle in fP; congruence);
  destruct (has f SCR_FLAG_WITNESS) eqn:fW; destruct (has g SCR_FLAG_WITNESS) eqn:gW; try (apply Hle in fW; congruence);
  destruct (has f SCR_FLAG_CLEANSTACK) eqn:fC; destruct (has g SCR_FLAG_CLEANSTACK) eqn:gC; try (apply Hle in fC; congruence);
  cbn [andb orb negb]; intros Vf Vg; try discriminate Vf; try discriminate Vg; clear Vf Vg; intros H;
  walk H; finish.
Qed.

End VerifyMono.

(* ------------------------------------------------------------------------------------------- *)
(* flag sets as bit sets over the generated constants *)
Definition subset_flags (a b : Z) : bool := Z.land a b =? a.

Lemma subset_flags_le a b : 0 <= a -> subset_flags a b = true -> flags_le a b.
Proof.
  unfold subset_flags, flags_le, has. intros Ha H i Hi. apply Z.eqb_eq in H.
  rewrite <- H in Hi. rewrite Z.land_spec in Hi. apply Bool.andb_true_iff in Hi. tauto.
Qed.

Lemma standard_contains_mandatory : subset_flags SCR_MANDATORY_SCRIPT_VERIFY_FLAGS SCR_STANDARD_SCRIPT_VERIFY_FLAGS = true.
Proof. vm_compute. reflexivity. Qed.

Lemma standard_not_mandatory_is_difference :
  SCR_STANDARD_NOT_MANDATORY_VERIFY_FLAGS = Z.land SCR_STANDARD_SCRIPT_VERIFY_FLAGS (Z.lnot SCR_MANDATORY_SCRIPT_VERIFY_FLAGS) /\
  Z.lor SCR_MANDATORY_SCRIPT_VERIFY_FLAGS SCR_STANDARD_NOT_MANDATORY_VERIFY_FLAGS = SCR_STANDARD_SCRIPT_VERIFY_FLAGS.
Proof. vm_compute. split; reflexivity. Qed.

(* every value GetBlockScriptFlags returns (all chains, all deployment boundaries, all exception blocks) *)
Lemma block_flags_subset_standard : forallb (fun bf => subset_flags bf SCR_STANDARD_SCRIPT_VERIFY_FLAGS) SCR_BLOCK_FLAGS_ALL = true.
Proof. vm_compute. reflexivity. Qed.
Lemma block_flags_nonneg : forallb (fun bf => 0 <=? bf) SCR_BLOCK_FLAGS_ALL = true.
Proof. vm_compute. reflexivity. Qed.
Lemma block_flags_valid : forallb flags_valid SCR_BLOCK_FLAGS_ALL = true /\ flags_valid SCR_STANDARD_SCRIPT_VERIFY_FLAGS = true.
Proof. vm_compute. split; reflexivity. Qed.
Lemma per_chain_block_flags_listed :
  forallb (fun bf => existsb (Z.eqb bf) SCR_BLOCK_FLAGS_ALL)
    (SCR_BLOCK_FLAGS_main ++ SCR_BLOCK_FLAGS_test ++ SCR_BLOCK_FLAGS_testnet4 ++ SCR_BLOCK_FLAGS_signet ++ SCR_BLOCK_FLAGS_regtest) = true /\
  existsb (Z.eqb SCR_TIP_BLOCK_FLAGS_main) SCR_BLOCK_FLAGS_main = true /\
  SCR_TIP_BLOCK_FLAGS_main = SCR_MANDATORY_SCRIPT_VERIFY_FLAGS.
Proof. vm_compute. repeat split; reflexivity. Qed.

Lemma block_flags_le_standard bf : In bf SCR_BLOCK_FLAGS_ALL -> flags_le bf SCR_STANDARD_SCRIPT_VERIFY_FLAGS /\ flags_valid bf = true.
Proof.
  intros Hin. pose proof block_flags_subset_standard as H1. pose proof block_flags_nonneg as H2. pose proof (proj1 block_flags_valid) as H3.
  rewrite forallb_forall in H1, H2, H3. split; [|apply H3; exact Hin].
  apply subset_flags_le; [specialize (H2 _ Hin); lia|apply H1; exact Hin].
Qed.

(* A spend that verifies under the standard (policy) flags verifies under the script flags of any block *)
Theorem policy_implies_consensus sha256 ripemd160 sha1 ck tap_commit bf ssig spk wit : In bf SCR_BLOCK_FLAGS_ALL ->
  verify_script sha256 ripemd160 sha1 SCR_STANDARD_SCRIPT_VERIFY_FLAGS ck tap_commit ssig spk wit = Some (Ok tt) ->
  verify_script sha256 ripemd160 sha1 bf ck tap_commit ssig spk wit = Some (Ok tt).
Proof.
  intros Hin H. destruct (block_flags_le_standard bf Hin) as [Hle Hv].
  eapply verify_script_mono; [exact Hle|exact Hv|exact (proj2 block_flags_valid)|exact H].
Qed.
