(* PostLinearize model: the output is a permutation of the input, and topologically valid whenever
   the input is. *)
From Coq Require Import Permutation.
From BV Require Import lib.Ints model.Fee model.Lin model.LinPost proofs.LinLemmas.
Local Open Scope Z_scope.

Definition gflat (L : list pgroup) : list nat := concat (map pg_txs (rev L)).   (* L: last group first *)
Definition aflat (A : list pgroup) : list nat := concat (map pg_txs A).         (* A: nearest first *)

Lemma gflat_cons p L : gflat (p :: L) = gflat L ++ pg_txs p.
Proof. unfold gflat. cbn [rev]. rewrite map_app, concat_app. cbn. rewrite app_nil_r. reflexivity. Qed.

Lemma gflat_rev_app A L : gflat (rev A ++ L) = gflat L ++ aflat A.
Proof.
  unfold gflat, aflat. rewrite rev_app_distr, rev_involutive, map_app, concat_app. reflexivity.
Qed.

(* what pl_settle returns, flattened: a rearrangement in which only non-dependent groups were passed *)
Lemma pl_settle_perm before : forall cur after,
  Permutation (gflat (pl_settle cur before after)) (gflat before ++ pg_txs cur ++ aflat after).
Proof.
  induction before as [|p rest IH]; intros cur after; cbn [pl_settle].
  - rewrite gflat_rev_app, gflat_cons, <- app_assoc. apply Permutation_refl.
  - destruct (byratio_gt (pg_fee cur) (pg_fee p)).
    + destruct (overlaps (pg_deps cur) (pg_txs p)).
      * rewrite IH. cbn [pg_txs]. rewrite gflat_cons, <- !app_assoc. apply Permutation_refl.
      * rewrite IH. rewrite gflat_cons. unfold aflat at 1. cbn [map concat]. fold (aflat after).
        rewrite <- !app_assoc. apply Permutation_app_head.
        rewrite !app_assoc. apply Permutation_app_tail. apply Permutation_app_comm.
    + replace (rev after ++ cur :: p :: rest) with (rev after ++ (cur :: p :: rest)) by reflexivity.
      rewrite gflat_rev_app, !gflat_cons, <- !app_assoc. apply Permutation_refl.
Qed.

Lemma pl_fold_perm n deps (fr : list (Z * Z)) (rev_ : bool) seq : forall L,
  Permutation (gflat (fold_left (fun L idx =>
      let f := nth idx fr (0, 0) in
      pl_settle (mk_pgroup [idx] (if rev_ then descendants n deps idx else ancestors n deps idx)
                           (if rev_ then (wrap64 (- fst f), snd f) else f)) L []) seq L))
              (gflat L ++ seq).
Proof.
  induction seq as [|x seq IH]; intros L; cbn [fold_left]; [rewrite app_nil_r; apply Permutation_refl|].
  rewrite IH. cbv zeta. rewrite pl_settle_perm. cbn [pg_txs aflat map concat]. rewrite app_nil_r, <- app_assoc. apply Permutation_refl.
Qed.

Lemma pl_pass_perm n deps fr rev_ lin : Permutation (pl_pass n deps fr rev_ lin) lin.
Proof.
  unfold pl_pass. cbv zeta.
  match goal with |- Permutation (if rev_ then rev ?o else ?o) _ => set (out := o) end.
  assert (P : Permutation out (if rev_ then rev lin else lin)).
  { subst out. fold (gflat (fold_left (fun L idx =>
      let f := nth idx fr (0, 0) in
      pl_settle (mk_pgroup [idx] (if rev_ then descendants n deps idx else ancestors n deps idx)
                           (if rev_ then (wrap64 (- fst f), snd f) else f)) L []) (if rev_ then rev lin else lin) [])).
    rewrite pl_fold_perm. cbn. apply Permutation_refl. }
  destruct rev_.
  - rewrite <- (Permutation_rev out). rewrite P. symmetry. apply Permutation_rev.
  - exact P.
Qed.

Theorem post_linearize_perm n deps fr lin : Permutation (post_linearize n deps fr lin) lin.
Proof. unfold post_linearize. rewrite pl_pass_perm. apply pl_pass_perm. Qed.

(* ---------------------------------------------------------------------------------- *)
(* order validity w.r.t. a "must come earlier" function D (D a may contain a itself) *)
Section Order.
Variable D : nat -> list nat.

Fixpoint ok (s : list nat) : Prop :=
  match s with [] => True | a :: r => (forall b, In b r -> ~ In b (D a)) /\ ok r end.
Definition cross (s1 s2 : list nat) : Prop := forall a b, In a s1 -> In b s2 -> ~ In b (D a).

Lemma ok_app s1 s2 : ok (s1 ++ s2) <-> ok s1 /\ ok s2 /\ cross s1 s2.
Proof.
  induction s1 as [|a s1 IH]; cbn [app ok].
  - unfold cross. split; [intros H; repeat split; [exact H | intros a b []] | intros [_ [H _]]; exact H].
  - rewrite IH. unfold cross. split.
    + intros [H1 [H2 [H3 H4]]]. split; [split; [intros b Hb; apply H1; apply in_or_app; left; exact Hb | exact H2]|].
      split; [exact H3|]. intros x b [Hx|Hx] Hb; [subst x; apply H1; apply in_or_app; right; exact Hb | apply H4; assumption].
    + intros [[H1 H2] [H3 H4]]. split.
      * intros b Hb. apply in_app_or in Hb. destruct Hb as [Hb|Hb]; [apply H1; exact Hb | apply H4; [left; reflexivity | exact Hb]].
      * split; [exact H2|]. split; [exact H3|]. intros x b Hx Hb. apply H4; [right; exact Hx | exact Hb].
Qed.

Lemma cross_app_l s1 s2 t : cross (s1 ++ s2) t <-> cross s1 t /\ cross s2 t.
Proof.
  unfold cross. split.
  - intros H. split; intros a b Ha Hb; apply H; try exact Hb; apply in_or_app; [left|right]; exact Ha.
  - intros [H1 H2] a b Ha Hb. apply in_app_or in Ha. destruct Ha; [apply H1 | apply H2]; assumption.
Qed.
Lemma cross_app_r s t1 t2 : cross s (t1 ++ t2) <-> cross s t1 /\ cross s t2.
Proof.
  unfold cross. split.
  - intros H. split; intros a b Ha Hb; apply H; try exact Ha; apply in_or_app; [left|right]; exact Hb.
  - intros [H1 H2] a b Ha Hb. apply in_app_or in Hb. destruct Hb; [apply H1 | apply H2]; assumption.
Qed.
Lemma cross_perm_l s s' t : Permutation s s' -> cross s t -> cross s' t.
Proof. intros P H a b Ha Hb. apply H; [apply (Permutation_in _ (Permutation_sym P)); exact Ha | exact Hb]. Qed.

(* moving a block C in front of a block P it does not depend on *)
Lemma ok_swap X P C A : ok (X ++ P ++ C ++ A) -> cross C P -> ok (X ++ C ++ P ++ A).
Proof.
  rewrite !ok_app, !cross_app_r. intros [HX [[HP [[HC [HA CA]] [PC PA]]] [XP [XC XA]]]] CP.
  repeat split; assumption.
Qed.

Definition gwf (g : pgroup) : Prop := forall x, In x (pg_txs g) -> incl (D x) (pg_deps g).

Lemma overlaps_false a b : overlaps a b = false -> forall x, In x a -> ~ In x b.
Proof.
  unfold overlaps. intros H x Hx Hb. assert (E : existsb (fun y => memn y b) a = true).
  { apply existsb_exists. exists x. split; [exact Hx | apply memn_In; exact Hb]. }
  rewrite E in H. discriminate.
Qed.

Lemma pl_settle_ok before : forall cur after,
  Forall gwf before -> gwf cur -> Forall gwf after ->
  ok (gflat before ++ pg_txs cur ++ aflat after) ->
  ok (gflat (pl_settle cur before after)) /\ Forall gwf (pl_settle cur before after).
Proof.
  induction before as [|p rest IH]; intros cur after Wb Wc Wa H; cbn [pl_settle].
  - split.
    + rewrite gflat_rev_app, gflat_cons, <- app_assoc. exact H.
    + apply Forall_app. split; [apply Forall_rev; exact Wa | constructor; [exact Wc | constructor]].
  - inversion Wb as [|? ? Wp Wrest]; subst. rewrite gflat_cons, <- app_assoc in H.
    destruct (byratio_gt (pg_fee cur) (pg_fee p)).
    + destruct (overlaps (pg_deps cur) (pg_txs p)) eqn:Eo.
      * apply IH; try assumption.
        -- intros x Hx. cbn [pg_txs pg_deps] in *. apply in_app_or in Hx. destruct Hx as [Hx|Hx].
           ++ apply incl_appr. apply Wp. exact Hx.
           ++ apply incl_appl. apply Wc. exact Hx.
        -- cbn [pg_txs]. rewrite <- app_assoc. exact H.
      * apply IH; try assumption; [constructor; assumption|].
        unfold aflat. cbn [map concat]. fold (aflat after).
        apply ok_swap; [exact H|].
        intros c q Hc Hq Hin. apply (overlaps_false _ _ Eo q); [apply (Wc c Hc); exact Hin | exact Hq].
    + split.
      * replace (rev after ++ cur :: p :: rest) with (rev after ++ (cur :: p :: rest)) by reflexivity.
        rewrite gflat_rev_app, !gflat_cons, <- !app_assoc. exact H.
      * apply Forall_app. split; [apply Forall_rev; exact Wa | constructor; [exact Wc | exact Wb]].
Qed.

Variable feeof : nat -> FF.
Definition pl_fold (seq : list nat) (L : list pgroup) : list pgroup :=
  fold_left (fun L idx => pl_settle (mk_pgroup [idx] (D idx) (feeof idx)) L []) seq L.

Lemma pl_fold_perm' seq : forall L, Permutation (gflat (pl_fold seq L)) (gflat L ++ seq).
Proof.
  induction seq as [|x seq IH]; intros L; cbn [pl_fold fold_left]; [rewrite app_nil_r; apply Permutation_refl|].
  fold (pl_fold seq (pl_settle (mk_pgroup [x] (D x) (feeof x)) L [])).
  rewrite IH, pl_settle_perm. cbn [pg_txs aflat map concat]. rewrite app_nil_r, <- app_assoc. apply Permutation_refl.
Qed.

Lemma pl_fold_ok seq : forall L, Forall gwf L -> ok (gflat L ++ seq) ->
  ok (gflat (pl_fold seq L)) /\ Forall gwf (pl_fold seq L).
Proof.
  induction seq as [|x seq IH]; intros L W H; cbn [pl_fold fold_left].
  - rewrite app_nil_r in H. split; assumption.
  - fold (pl_fold seq (pl_settle (mk_pgroup [x] (D x) (feeof x)) L [])).
    set (cur := mk_pgroup [x] (D x) (feeof x)).
    assert (Wc : gwf cur) by (intros y [Hy|[]]; subst y; cbn [pg_deps cur]; apply incl_refl).
    replace (gflat L ++ x :: seq) with ((gflat L ++ [x]) ++ seq) in H by (rewrite <- app_assoc; reflexivity).
    apply ok_app in H. destruct H as [H1 [H2 H3]].
    destruct (pl_settle_ok L cur [] W Wc (Forall_nil _)) as [O1 W1].
    { cbn [pg_txs cur aflat map concat]. rewrite app_nil_r. exact H1. }
    apply IH; [exact W1|]. apply ok_app. split; [exact O1|]. split; [exact H2|].
    apply (cross_perm_l (gflat L ++ [x])); [|exact H3].
    symmetry. rewrite pl_settle_perm. cbn [pg_txs cur aflat map concat]. rewrite app_nil_r. apply Permutation_refl.
Qed.
End Order.

(* ---------------------------------------------------------------------------------- *)
(* the closure sets *)
Lemma fold_add_spec l : forall acc, exists extra,
  fold_left (fun a x => if memn x a then a else a ++ [x]) l acc = acc ++ extra /\
  (forall x, In x l -> In x (acc ++ extra)) /\ (forall x, In x extra -> In x l).
Proof.
  induction l as [|y l IH]; intros acc; cbn [fold_left].
  - exists []. rewrite app_nil_r. split; [reflexivity|]. split; intros x [].
  - destruct (memn y acc) eqn:E.
    + destruct (IH acc) as [extra [E1 [E2 E3]]]. exists extra. split; [exact E1|]. split.
      * intros x [Hx|Hx]; [subst x; apply in_or_app; left; apply memn_In; exact E | apply E2; exact Hx].
      * intros x Hx. right. apply E3. exact Hx.
    + destruct (IH (acc ++ [y])) as [extra [E1 [E2 E3]]]. exists (y :: extra). rewrite E1, <- app_assoc. split; [reflexivity|]. split.
      * intros x [Hx|Hx]; [subst x; apply in_or_app; right; left; reflexivity|].
        specialize (E2 x Hx). rewrite <- app_assoc in E2. exact E2.
      * intros x [Hx|Hx]; [left; exact Hx | right; apply E3; exact Hx].
Qed.

Lemma closure_incl next (S : list nat) : (forall y, In y S -> incl (next y) S) ->
  forall fuel acc, incl acc S -> incl (closure fuel next acc) S.
Proof.
  intros HS. induction fuel as [|k IH]; intros acc Ha; cbn [closure]; [exact Ha|].
  destruct (fold_add_spec (flat_map next acc) acc) as [extra [E1 [_ E3]]]. rewrite E1.
  destruct (Nat.eqb _ _); [exact Ha|]. apply IH.
  intros x Hx. apply in_app_or in Hx. destruct Hx as [Hx|Hx]; [apply Ha; exact Hx|].
  apply E3 in Hx. apply in_flat_map in Hx. destruct Hx as [y [Hy Hx]]. apply (HS y (Ha y Hy)). exact Hx.
Qed.

Lemma closure_mono next : forall fuel acc, incl acc (closure fuel next acc).
Proof.
  induction fuel as [|k IH]; intros acc; cbn [closure]; [apply incl_refl|].
  destruct (fold_add_spec (flat_map next acc) acc) as [extra [E1 _]]. rewrite E1.
  destruct (Nat.eqb _ _); [apply incl_refl|]. intros x Hx. apply IH. apply in_or_app. left. exact Hx.
Qed.

Lemma closure_first_step next k acc y x : In y acc -> In x (next y) -> In x (closure (S k) next acc).
Proof.
  intros Hy Hx. cbn [closure].
  destruct (fold_add_spec (flat_map next acc) acc) as [extra [E1 [E2 _]]]. rewrite E1.
  assert (Hin : In x (acc ++ extra)) by (apply E2; apply in_flat_map; exists y; split; assumption).
  destruct (Nat.eqb (length (acc ++ extra)) (length acc)) eqn:El.
  - apply Nat.eqb_eq in El. rewrite app_length in El. assert (extra = []) by (destruct extra; [reflexivity | cbn in El; lia]).
    subst extra. rewrite app_nil_r in Hin. exact Hin.
  - apply closure_mono. exact Hin.
Qed.

Lemma parents_of_In deps p c : In p (parents_of deps c) <-> In (p, c) deps.
Proof.
  unfold parents_of. rewrite in_map_iff. split.
  - intros [[a b] [E H]]. apply filter_In in H. destruct H as [H1 H2]. cbn [fst snd] in *. apply Nat.eqb_eq in H2. subst. exact H1.
  - intros H. exists (p, c). split; [reflexivity|]. apply filter_In. split; [exact H | cbn; apply Nat.eqb_refl].
Qed.

Lemma parent_in_ancestors n deps p c : (0 < n)%nat -> In (p, c) deps -> In p (ancestors n deps c).
Proof.
  intros Hn H. unfold ancestors. destruct n as [|k]; [lia|].
  apply (closure_first_step _ k [c] c p); [left; reflexivity | apply parents_of_In; exact H].
Qed.

(* ---------------------------------------------------------------------------------- *)
(* topological validity <-> order validity w.r.t. the ancestor sets *)
Definition closed_under (deps : list (nat * nat)) (S : list nat) : Prop :=
  forall y, In y S -> forall p, In (p, y) deps -> In p S.

Lemma walk_ok n deps lin : forall seen, closed_under deps seen -> topo_walk deps seen lin = true ->
  ok (ancestors n deps) lin.
Proof.
  induction lin as [|x r IH]; intros seen Hc Hw; cbn [ok]; [exact I|].
  cbn [topo_walk] in Hw. rewrite !andb_true_iff in Hw. destruct Hw as [[Hx Hr] Hw].
  pose proof (proj1 (ready_spec deps seen x) Hr) as Hr'. clear Hr. rename Hr' into Hr.
  assert (Hc' : closed_under deps (x :: seen)).
  { intros y [Hy|Hy] p Hp; [subst y; right; apply Hr; exact Hp | right; apply (Hc y Hy p Hp)]. }
  split; [|apply (IH (x :: seen) Hc' Hw)].
  intros b Hb Hin.
  apply topo_walk_iff in Hw. destruct Hw as [_ [Hns _]]. apply (Hns b Hb).
  apply (closure_incl (parents_of deps) (x :: seen)) with (fuel := n) (acc := [x]); [| |exact Hin].
  - intros y Hy p Hp. apply parents_of_In in Hp. apply (Hc' y Hy p Hp).
  - intros y [Hy|[]]. subst y. left. reflexivity.
Qed.

Lemma topo_valid_ok n deps lin : topo_valid n deps lin -> ok (ancestors n deps) lin.
Proof.
  intros V. apply is_topological_iff in V. unfold is_topological in V. rewrite !andb_true_iff in V.
  destruct V as [_ Hw]. apply (walk_ok n deps lin []); [intros y [] | exact Hw].
Qed.

Lemma ok_before D s a b : ok D s -> before a b s -> ~ In b (D a).
Proof.
  intros H [l1 [l2 [l3 E]]]. subst s. apply ok_app in H. destruct H as [_ [H _]]. cbn [ok] in H.
  apply (proj1 H). apply in_or_app. right. left. reflexivity.
Qed.

Lemma two_in_nodup s : forall a b, NoDup s -> In a s -> In b s -> a <> b -> before a b s \/ before b a s.
Proof.
  induction s as [|x s IH]; intros a b N Ha Hb Hab; [contradiction|].
  inversion N as [|? ? Hx N']; subst.
  destruct Ha as [Ha|Ha]; destruct Hb as [Hb|Hb]; subst.
  - contradiction.
  - left. apply before_head. exact Hb.
  - right. apply before_head. exact Ha.
  - destruct (IH a b N' Ha Hb Hab) as [H|H]; [left | right]; apply before_cons; exact H.
Qed.

Lemma before_neq p c l : NoDup l -> before p c l -> p <> c.
Proof.
  intros N [l1 [l2 [l3 E]]] Epc. subst c l. apply NoDup_remove_2 in N. apply N.
  apply in_or_app. right. apply in_or_app. right. left. reflexivity.
Qed.

Lemma ok_topo_valid n deps lin s : topo_valid n deps lin -> Permutation s lin ->
  ok (ancestors n deps) s -> topo_valid n deps s.
Proof.
  intros [N [Hin Hd]] P O.
  assert (Ns : NoDup s) by (apply (Permutation_NoDup (Permutation_sym P)); exact N).
  split; [exact Ns|]. split.
  - intros i. rewrite <- Hin. split; apply Permutation_in; [exact P | apply Permutation_sym; exact P].
  - intros p c Hpc. pose proof (Hd p c Hpc) as B. destruct (before_In p c lin B) as [Ip Ic].
    assert (Hn : (0 < n)%nat) by (apply Hin in Ic; lia).
    assert (Ne : p <> c) by (apply (before_neq p c lin N B)).
    destruct (two_in_nodup s p c Ns (Permutation_in _ (Permutation_sym P) Ip) (Permutation_in _ (Permutation_sym P) Ic) Ne) as [H|H]; [exact H|].
    exfalso. apply (ok_before _ s c p O H). apply parent_in_ancestors; assumption.
Qed.

(* ---------------------------------------------------------------------------------- *)
(* the backward pass is the forward pass on the reversed order with dependencies flipped *)
Definition flip (deps : list (nat * nat)) : list (nat * nat) := map (fun d => (snd d, fst d)) deps.

Lemma flip_In deps a b : In (a, b) (flip deps) <-> In (b, a) deps.
Proof.
  unfold flip. rewrite in_map_iff. split.
  - intros [[x y] [E H]]. cbn [fst snd] in E. inversion E; subst. exact H.
  - intros H. exists (b, a). split; [reflexivity | exact H].
Qed.

Lemma before_rev p c l : before p c l -> before c p (rev l).
Proof.
  intros [l1 [l2 [l3 E]]]. subst l. exists (rev l3), (rev l2), (rev l1).
  rewrite !rev_app_distr. cbn [rev]. rewrite !rev_app_distr. cbn [rev app]. rewrite <- !app_assoc. reflexivity.
Qed.

Lemma topo_valid_flip n deps l : topo_valid n deps l -> topo_valid n (flip deps) (rev l).
Proof.
  intros [N [Hin Hd]]. split; [apply NoDup_rev; exact N|]. split.
  - intros i. rewrite <- in_rev. apply Hin.
  - intros p c H. apply (proj1 (flip_In _ _ _)) in H. apply before_rev. apply Hd. exact H.
Qed.

Lemma flip_flip deps : flip (flip deps) = deps.
Proof. unfold flip. rewrite map_map. rewrite <- (map_id deps) at 2. apply map_ext. intros [a b]. reflexivity. Qed.

Lemma children_parents_flip deps i : children_of deps i = parents_of (flip deps) i.
Proof.
  unfold children_of, parents_of, flip. induction deps as [|[a b] deps IH]; [reflexivity|].
  cbn [map filter fst snd]. destruct (Nat.eqb a i); cbn [map fst snd]; rewrite IH; reflexivity.
Qed.

Lemma closure_ext f g : (forall x, f x = g x) -> forall fuel acc, closure fuel f acc = closure fuel g acc.
Proof.
  intros H. induction fuel as [|k IH]; intros acc; cbn [closure]; [reflexivity|].
  assert (E : flat_map f acc = flat_map g acc) by (induction acc as [|a acc IHa]; cbn; [reflexivity | rewrite H, IHa; reflexivity]).
  rewrite E. destruct (Nat.eqb _ _); [reflexivity | apply IH].
Qed.

Lemma descendants_flip n deps i : descendants n deps i = ancestors n (flip deps) i.
Proof. unfold descendants, ancestors. apply closure_ext. intros x. apply children_parents_flip. Qed.

Lemma ok_ext D D' s : (forall x, D x = D' x) -> ok D s -> ok D' s.
Proof. intros H. induction s as [|a r IH]; cbn [ok]; [trivial|]. intros [H1 H2]. split; [rewrite <- H; exact H1 | apply IH; exact H2]. Qed.

(* ---------------------------------------------------------------------------------- *)
Lemma pl_pass_false_eq n deps (fr : list (Z * Z)) lin :
  pl_pass n deps fr false lin = gflat (pl_fold (ancestors n deps) (fun idx => nth idx fr (0, 0)) lin []).
Proof. reflexivity. Qed.

Lemma pl_pass_true_eq n deps (fr : list (Z * Z)) lin :
  pl_pass n deps fr true lin =
  rev (gflat (pl_fold (descendants n deps) (fun idx => (wrap64 (- fst (nth idx fr (0, 0))), snd (nth idx fr (0, 0)))) (rev lin) [])).
Proof. reflexivity. Qed.

Lemma pl_pass_topo n deps fr rev_ lin : topo_valid n deps lin -> topo_valid n deps (pl_pass n deps fr rev_ lin).
Proof.
  intros V. destruct rev_.
  - rewrite pl_pass_true_eq.
    set (D := descendants n deps). set (fe := fun idx => (wrap64 (- fst (nth idx fr (0, 0))), snd (nth idx fr (0, 0)))).
    pose proof (topo_valid_flip n deps lin V) as Vf.
    assert (O : ok D (rev lin)).
    { apply (ok_ext (ancestors n (flip deps))); [intros x; symmetry; apply descendants_flip | apply topo_valid_ok; exact Vf]. }
    destruct (pl_fold_ok D fe (rev lin) [] (Forall_nil _) O) as [O' _].
    assert (P : Permutation (gflat (pl_fold D fe (rev lin) [])) (rev lin)) by (rewrite pl_fold_perm'; apply Permutation_refl).
    assert (V' : topo_valid n (flip deps) (gflat (pl_fold D fe (rev lin) []))).
    { apply (ok_topo_valid n (flip deps) (rev lin)); [exact Vf | exact P|].
      apply (ok_ext D); [intros x; apply descendants_flip | exact O']. }
    apply topo_valid_flip in V'. rewrite flip_flip in V'. exact V'.
  - rewrite pl_pass_false_eq.
    set (D := ancestors n deps). set (fe := fun idx => nth idx fr (0, 0)).
    pose proof (topo_valid_ok n deps lin V) as O.
    destruct (pl_fold_ok D fe lin [] (Forall_nil _) O) as [O' _].
    apply (ok_topo_valid n deps lin); [exact V | rewrite pl_fold_perm'; apply Permutation_refl | exact O'].
Qed.

Theorem post_linearize_topo n deps fr lin : topo_valid n deps lin -> topo_valid n deps (post_linearize n deps fr lin).
Proof. intros V. unfold post_linearize. apply pl_pass_topo. apply pl_pass_topo. exact V. Qed.

Theorem post_linearize_perm_topo n deps fr lin :
  Permutation (post_linearize n deps fr lin) lin /\
  (topo_valid n deps lin -> topo_valid n deps (post_linearize n deps fr lin)).
Proof. split; [apply post_linearize_perm | apply post_linearize_topo]. Qed.
