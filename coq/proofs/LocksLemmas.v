(* Proofs about model/Locks.v (C05). *)
From Coq Require Import Sorting.Sorted Sorting.Permutation.
From BV Require Import lib.Ints gen.Params_gen model.Locks.
Local Open Scope Z_scope.

(* ------------------------------------------------------------------------------------------ *)
(* bit tests on the generated flag constants *)

Lemma land_pow2 a n : 0 <= n -> Z.land a (2 ^ n) = if Z.testbit a n then 2 ^ n else 0.
Proof.
  intros Hn. apply Z.bits_inj'. intros k Hk.
  rewrite Z.land_spec, Z.pow2_bits_eqb by lia.
  destruct (Z.eqb_spec n k) as [->|Hne].
  - destruct (Z.testbit a k) eqn:E; simpl.
    + rewrite Z.pow2_bits_true by lia. reflexivity.
    + rewrite Z.bits_0. reflexivity.
  - rewrite andb_false_r. destruct (Z.testbit a n).
    + rewrite Z.pow2_bits_false by lia. reflexivity.
    + rewrite Z.bits_0. reflexivity.
Qed.

Lemma land_pow2_test a n : 0 <= n -> negb (Z.land a (2 ^ n) =? 0) = Z.testbit a n.
Proof.
  intros Hn. rewrite land_pow2 by exact Hn.
  assert (0 < 2 ^ n) by (apply Z.pow_pos_nonneg; lia).
  destruct (Z.testbit a n); simpl.
  - destruct (Z.eqb_spec (2 ^ n) 0); [lia|reflexivity].
  - reflexivity.
Qed.

Lemma disable_flag_test s : negb (Z.land s LOCKS_SEQUENCE_LOCKTIME_DISABLE_FLAG =? 0) = Z.testbit s 31.
Proof. change LOCKS_SEQUENCE_LOCKTIME_DISABLE_FLAG with (2 ^ 31). apply land_pow2_test. lia. Qed.

Lemma type_flag_test s : negb (Z.land s LOCKS_SEQUENCE_LOCKTIME_TYPE_FLAG =? 0) = Z.testbit s 22.
Proof. change LOCKS_SEQUENCE_LOCKTIME_TYPE_FLAG with (2 ^ 22). apply land_pow2_test. lia. Qed.

Lemma verify_sequence_flag_test f : negb (Z.land f LOCKS_LOCKTIME_VERIFY_SEQUENCE =? 0) = Z.testbit f 0.
Proof. change LOCKS_LOCKTIME_VERIFY_SEQUENCE with (2 ^ 0). apply land_pow2_test. lia. Qed.

Lemma mask_value s : Z.land s LOCKS_SEQUENCE_LOCKTIME_MASK = s mod 65536.
Proof. change LOCKS_SEQUENCE_LOCKTIME_MASK with (Z.ones 16). rewrite Z.land_ones by lia. reflexivity. Qed.

Lemma shifted_value v : 0 <= v < 65536 ->
  wrapu32 (Z.shiftl v LOCKS_SEQUENCE_LOCKTIME_GRANULARITY) = 512 * v.
Proof.
  intros Hv. change LOCKS_SEQUENCE_LOCKTIME_GRANULARITY with 9.
  rewrite Z.shiftl_mul_pow2 by lia. change (2 ^ 9) with 512.
  rewrite wrapu32_id; unfold UINT32_MAX; lia.
Qed.

(* ------------------------------------------------------------------------------------------ *)
(* IsFinalTx *)

Lemma forallb_eqb_Forall c l : forallb (fun s => s =? c) l = true <-> Forall (fun s => s = c) l.
Proof.
  rewrite forallb_forall, Forall_forall. split; intros H x Hx.
  - apply Z.eqb_eq. auto.
  - apply Z.eqb_eq. auto.
Qed.

Lemma is_final_iff : forall t h time,
  0 <= lt_locktime t <= 4294967295 -> -2147483648 <= h <= 2147483647 ->
  (is_final_tx t h time = true <->
   lt_locktime t = 0
   \/ (lt_locktime t < 500000000 /\ lt_locktime t < h)
   \/ (500000000 <= lt_locktime t /\ lt_locktime t < time)
   \/ Forall (fun s => s = 4294967295) (lt_seqs t)).
Proof.
  intros t h time Hl Hh. unfold is_final_tx.
  rewrite (wrap64_id (lt_locktime t)) by (unfold INT64_MIN, INT64_MAX; lia).
  rewrite (wrap64_id h) by (unfold INT64_MIN, INT64_MAX; lia).
  change LOCKTIME_THRESHOLD with 500000000. change LOCKS_SEQUENCE_FINAL with 4294967295.
  destruct (Z.eqb_spec (lt_locktime t) 0) as [E0|N0].
  - split; auto.
  - destruct (Z.ltb_spec (lt_locktime t) 500000000) as [Lt|Ge].
    + destruct (Z.ltb_spec (lt_locktime t) h) as [Lh|Gh].
      * split; auto.
      * rewrite forallb_eqb_Forall. split; [auto|]. intros [A|[A|[A|A]]]; try lia; auto.
    + destruct (Z.ltb_spec (lt_locktime t) time) as [Lh|Gh].
      * split; auto.
      * rewrite forallb_eqb_Forall. split; [auto|]. intros [A|[A|[A|A]]]; try lia; auto.
Qed.

Lemma spec_final_b_iff : forall t h time,
  spec_final_b t h time = true <->
   lt_locktime t = 0
   \/ (lt_locktime t < 500000000 /\ lt_locktime t < h)
   \/ (500000000 <= lt_locktime t /\ lt_locktime t < time)
   \/ Forall (fun s => s = 4294967295) (lt_seqs t).
Proof.
  intros. unfold spec_final_b. rewrite !orb_true_iff, !andb_true_iff, forallb_eqb_Forall.
  rewrite Z.eqb_eq, !Z.ltb_lt, Z.leb_le. tauto.
Qed.

Lemma is_final_eq_spec : forall t h time,
  0 <= lt_locktime t <= 4294967295 -> -2147483648 <= h <= 2147483647 ->
  is_final_tx t h time = spec_final_b t h time.
Proof.
  intros t h time Hl Hh. apply eq_true_iff_eq. rewrite is_final_iff, spec_final_b_iff by assumption. tauto.
Qed.

(* ------------------------------------------------------------------------------------------ *)
(* GetMedianTimePast *)

Lemma firstn_S_snoc {A} (l : list A) n x : nth_error l n = Some x -> firstn (S n) l = firstn n l ++ [x].
Proof.
  revert n. induction l as [|a l IH]; intros [|n] H; simpl in *; try discriminate.
  - inversion H. reflexivity.
  - f_equal. apply IH. exact H.
Qed.

Lemma nth_error_skipn' {A} (l : list A) k n : nth_error (skipn k l) n = nth_error l (k + n).
Proof.
  revert l. induction k as [|k IH]; intros l; simpl.
  - reflexivity.
  - destruct l as [|a l]; simpl.
    + destruct n; reflexivity.
    + apply IH.
Qed.

Lemma nth_error_firstn' {A} (l : list A) n i : (i < n)%nat -> nth_error (firstn n l) i = nth_error l i.
Proof.
  revert l i. induction n as [|n IH]; intros l i Hi; [lia|].
  destruct l as [|a l]; [destruct i; reflexivity|].
  destruct i as [|i]; simpl; [reflexivity|]. apply IH. lia.
Qed.

Definition window_of (chain : list Z) (h fuel : nat) : list Z :=
  let n := Nat.min fuel (h + 1) in firstn n (skipn (h + 1 - n) chain).

Lemma walk_back_window : forall chain fuel h, (h < length chain)%nat ->
  walk_back chain h fuel = Some (window_of chain h fuel).
Proof.
  intros chain fuel. induction fuel as [|f IH]; intros h Hh.
  - reflexivity.
  - simpl. destruct (nth_error chain h) as [t|] eqn:Et.
    2:{ apply nth_error_None in Et. lia. }
    destruct h as [|h'].
    + unfold window_of. replace (Nat.min (S f) (0 + 1)) with 1%nat by lia.
      destruct chain as [|a c]; simpl in *; [discriminate|].
      inversion Et. reflexivity.
    + rewrite IH by lia. f_equal. unfold window_of.
      replace (Nat.min (S f) (S h' + 1)) with (S (Nat.min f (h' + 1))) by lia.
      replace (S h' + 1 - S (Nat.min f (h' + 1)))%nat with (h' + 1 - Nat.min f (h' + 1))%nat by lia.
      symmetry. apply firstn_S_snoc. rewrite nth_error_skipn'.
      replace (h' + 1 - Nat.min f (h' + 1) + Nat.min f (h' + 1))%nat with (S h') by lia. exact Et.
Qed.

Lemma walk_back_none : forall chain fuel h, (length chain <= h)%nat -> (0 < fuel)%nat -> walk_back chain h fuel = None.
Proof.
  intros chain [|f] h Hh Hf; [lia|]. simpl.
  destruct (nth_error chain h) eqn:E; [|reflexivity].
  assert (nth_error chain h <> None) as X by congruence. apply nth_error_Some in X. lia.
Qed.

Lemma window_is_last_times chain h : window_of chain h (Z.to_nat LOCKS_MEDIAN_TIME_SPAN) = last_times chain h.
Proof. reflexivity. Qed.

(* what last_times is: the times at heights h+1-n .. h, n = min(11, h+1) *)
Lemma last_times_spec chain h : (h < length chain)%nat ->
  length (last_times chain h) = Nat.min 11 (h + 1) /\
  forall i, (i < Nat.min 11 (h + 1))%nat -> nth_error (last_times chain h) i = nth_error chain (h + 1 - Nat.min 11 (h + 1) + i).
Proof.
  intros Hh. unfold last_times. split.
  - rewrite firstn_length, skipn_length. lia.
  - intros i Hi. rewrite nth_error_firstn' by exact Hi. apply nth_error_skipn'.
Qed.

Lemma firstn_In' {A} (l : list A) n x : In x (firstn n l) -> In x l.
Proof.
  revert l. induction n as [|n IH]; intros l H; [destruct H|].
  destruct l as [|a l]; [destruct H|]. destruct H as [H|H]; [left; exact H|right; apply IH; exact H].
Qed.

Lemma last_times_incl chain h x : In x (last_times chain h) -> In x chain.
Proof.
  unfold last_times. intros H. apply firstn_In' in H.
  rewrite <- (firstn_skipn (h + 1 - Nat.min 11 (h + 1)) chain). apply in_or_app. right. exact H.
Qed.

(* insertion sort: sorted permutation *)
Lemma insert_sorted_perm x l : Permutation (insert_sorted x l) (x :: l).
Proof.
  induction l as [|y r IH]; simpl.
  - apply Permutation_refl.
  - destruct (x <=? y).
    + apply Permutation_refl.
    + eapply Permutation_trans; [apply perm_skip; exact IH|apply perm_swap].
Qed.

Lemma sort_times_perm l : Permutation (sort_times l) l.
Proof.
  induction l as [|x l IH]; simpl.
  - apply Permutation_refl.
  - eapply Permutation_trans; [apply insert_sorted_perm|apply perm_skip; exact IH].
Qed.

Lemma insert_sorted_ssorted x l : StronglySorted Z.le l -> StronglySorted Z.le (insert_sorted x l).
Proof.
  induction l as [|y r IH]; intros Hs; simpl.
  - constructor; constructor.
  - inversion Hs as [|? ? Hr Hy]; subst.
    destruct (Z.leb_spec x y) as [Hle|Hgt].
    + constructor; [exact Hs|]. constructor; [exact Hle|].
      rewrite Forall_forall in *. intros z Hz. specialize (Hy z Hz). lia.
    + constructor; [apply IH; exact Hr|].
      rewrite Forall_forall in *. intros z Hz.
      apply (Permutation_in _ (insert_sorted_perm x r)) in Hz. destruct Hz as [<-|Hz]; [lia|auto].
Qed.

Lemma sort_times_ssorted l : StronglySorted Z.le (sort_times l).
Proof.
  induction l as [|x l IH]; simpl; [constructor|apply insert_sorted_ssorted; exact IH].
Qed.

Lemma Zle_trans' : Relations_1.Transitive Z.le.
Proof. intros a b c. apply Z.le_trans. Qed.

(* counting characterisation of "element number k of the sorted list" *)
Lemma count_lt_cons m x l : count_lt m (x :: l) = ((if (x <? m)%Z then 1 else 0) + count_lt m l)%nat.
Proof. unfold count_lt. simpl. destruct (x <? m); reflexivity. Qed.
Lemma count_le_cons m x l : count_le m (x :: l) = ((if (x <=? m)%Z then 1 else 0) + count_le m l)%nat.
Proof. unfold count_le. simpl. destruct (x <=? m); reflexivity. Qed.

Lemma count_lt_zero a l : Forall (Z.le a) l -> count_lt a l = 0%nat.
Proof.
  induction 1 as [|x l Hx Hl IH]; [reflexivity|].
  rewrite count_lt_cons, IH. destruct (Z.ltb_spec x a); [lia|reflexivity].
Qed.

Lemma sorted_nth_counts : forall s, StronglySorted Z.le s -> forall k m, nth_error s k = Some m ->
  (count_lt m s <= k)%nat /\ (k < count_le m s)%nat.
Proof.
  induction 1 as [|a r Hr IH Ha]; intros k m Hk.
  - destruct k; discriminate.
  - rewrite count_lt_cons, count_le_cons. destruct k as [|k]; simpl in Hk.
    + inversion Hk; subst m. rewrite (count_lt_zero a r Ha).
      destruct (Z.ltb_spec a a); [lia|]. destruct (Z.leb_spec a a); lia.
    + destruct (IH k m Hk) as [I1 I2].
      assert (a <= m) as Ham.
      { rewrite Forall_forall in Ha. apply Ha. eapply nth_error_In. exact Hk. }
      destruct (Z.leb_spec a m); [|lia]. destruct (a <? m); lia.
Qed.

Lemma count_lt_perm m l l' : Permutation l l' -> count_lt m l = count_lt m l'.
Proof.
  induction 1; try reflexivity.
  - rewrite !count_lt_cons. lia.
  - rewrite !count_lt_cons. lia.
  - congruence.
Qed.
Lemma count_le_perm m l l' : Permutation l l' -> count_le m l = count_le m l'.
Proof.
  induction 1; try reflexivity.
  - rewrite !count_le_cons. lia.
  - rewrite !count_le_cons. lia.
  - congruence.
Qed.

Lemma count_le_lt_mono m1 m2 l : m1 < m2 -> (count_le m1 l <= count_lt m2 l)%nat.
Proof.
  intros H. induction l as [|x l IH]; [unfold count_le, count_lt; simpl; lia|].
  rewrite count_le_cons, count_lt_cons.
  destruct (Z.leb_spec x m1); destruct (Z.ltb_spec x m2); lia.
Qed.


Lemma median_of_counts w m : median_of w m ->
  In m w /\ (count_lt m w <= Nat.div (length w) 2)%nat /\ (Nat.div (length w) 2 < count_le m w)%nat.
Proof.
  intros (s & Hp & Hs & Hn).
  apply Sorted_StronglySorted in Hs; [|exact Zle_trans'].
  destruct (sorted_nth_counts s Hs _ _ Hn) as [A B].
  rewrite (count_lt_perm m s w Hp) in A. rewrite (count_le_perm m s w Hp) in B.
  split; [|split; assumption].
  eapply Permutation_in; [exact Hp|]. eapply nth_error_In. exact Hn.
Qed.

Lemma counts_unique w m1 m2 :
  (count_lt m1 w <= Nat.div (length w) 2)%nat -> (Nat.div (length w) 2 < count_le m1 w)%nat ->
  (count_lt m2 w <= Nat.div (length w) 2)%nat -> (Nat.div (length w) 2 < count_le m2 w)%nat -> m1 = m2.
Proof.
  intros A1 B1 A2 B2.
  destruct (Z.lt_trichotomy m1 m2) as [L|[E|G]]; [|exact E|].
  - pose proof (count_le_lt_mono m1 m2 w L). lia.
  - pose proof (count_le_lt_mono m2 m1 w G). lia.
Qed.

Lemma median_of_unique w m1 m2 : median_of w m1 -> median_of w m2 -> m1 = m2.
Proof.
  intros H1 H2. apply median_of_counts in H1. apply median_of_counts in H2.
  destruct H1 as (_ & A1 & B1). destruct H2 as (_ & A2 & B2). eapply counts_unique; eassumption.
Qed.

Lemma median_of_window_is_median w m : median_of_window w = Some m -> median_of w m.
Proof.
  unfold median_of_window. intros H. exists (sort_times w). split; [apply sort_times_perm|]. split.
  - apply StronglySorted_Sorted. apply sort_times_ssorted.
  - exact H.
Qed.

Lemma median_of_window_some w : w <> [] -> exists m, median_of_window w = Some m.
Proof.
  intros Hw. unfold median_of_window.
  destruct (nth_error (sort_times w) (Nat.div (length w) 2)) as [m|] eqn:E; [eauto|].
  apply nth_error_None in E. rewrite (Permutation_length (sort_times_perm w)) in E.
  destruct w as [|x w]; [congruence|]. simpl length in E.
  pose proof (Nat.div_lt (S (length w)) 2). lia.
Qed.

Lemma median_of_window_iff w m : median_of_window w = Some m <-> median_of w m.
Proof.
  split; [apply median_of_window_is_median|]. intros H.
  assert (w <> []) as Hw.
  { destruct H as (s & Hp & _ & Hn). intros ->. apply Permutation_sym, Permutation_nil in Hp. subst s. destruct (Nat.div (length (@nil Z)) 2); discriminate. }
  destruct (median_of_window_some w Hw) as [m' Hm'].
  rewrite Hm'. f_equal. eapply median_of_unique; [apply median_of_window_is_median; exact Hm'|exact H].
Qed.

Lemma is_median_b_iff w m : is_median_b w m = true <->
  In m w /\ (count_lt m w <= Nat.div (length w) 2)%nat /\ (Nat.div (length w) 2 < count_le m w)%nat.
Proof.
  unfold is_median_b. rewrite !andb_true_iff, existsb_exists, Nat.leb_le, Nat.ltb_lt.
  split.
  - intros [[(x & Hx & Ex) A] B]. apply Z.eqb_eq in Ex. subst x. auto.
  - intros (Hi & A & B). split; [split|]; auto. exists m. split; [exact Hi|apply Z.eqb_refl].
Qed.

Lemma find_is_median w m : median_of w m -> find (is_median_b w) w = Some m.
Proof.
  intros H. pose proof (median_of_counts w m H) as (Hi & A & B).
  destruct (find (is_median_b w) w) as [x|] eqn:E.
  - apply find_some in E. destruct E as [_ E]. apply is_median_b_iff in E. destruct E as (_ & A' & B').
    f_equal. eapply counts_unique; eassumption.
  - exfalso. pose proof (find_none _ _ E m Hi) as X.
    assert (is_median_b w m = true) as Y by (apply is_median_b_iff; auto). congruence.
Qed.

Lemma mtp_nat_some chain h : (h < length chain)%nat ->
  exists m, mtp_nat chain h = Some m /\ median_of (last_times chain h) m.
Proof.
  intros Hh. unfold mtp_nat. rewrite walk_back_window by exact Hh. rewrite window_is_last_times.
  assert (last_times chain h <> []) as Hne.
  { intros E. pose proof (proj1 (last_times_spec chain h Hh)) as L. rewrite E in L. change (length (@nil Z)) with 0%nat in L. lia. }
  destruct (median_of_window_some _ Hne) as [m Hm]. exists m. split; [exact Hm|].
  apply median_of_window_is_median. exact Hm.
Qed.

Lemma mtp_nat_none chain h : (length chain <= h)%nat -> mtp_nat chain h = None.
Proof.
  intros Hh. unfold mtp_nat. rewrite walk_back_none; [reflexivity|exact Hh|].
  change LOCKS_MEDIAN_TIME_SPAN with 11. simpl. lia.
Qed.

(* MTP of the block at height h is the median of the last min(11,h+1) block times, and is defined
   exactly for the heights of the chain *)
Lemma mtp_at_iff chain h m :
  mtp_at chain h = Some m <->
  0 <= h < Z.of_nat (length chain) /\ median_of (last_times chain (Z.to_nat h)) m.
Proof.
  unfold mtp_at. destruct (Z.ltb_spec h 0) as [Hn|Hp].
  - split; [discriminate|]. intros [? _]. lia.
  - destruct (Nat.lt_ge_cases (Z.to_nat h) (length chain)) as [Hl|Hg].
    + destruct (mtp_nat_some chain _ Hl) as (m' & E & Hm'). rewrite E. split.
      * intros X. inversion X; subst m'. split; [lia|exact Hm'].
      * intros [_ Hm]. f_equal. eapply median_of_unique; eassumption.
    + rewrite mtp_nat_none by exact Hg. split; [discriminate|]. intros [? _]. lia.
Qed.

Lemma mtp_at_some chain h : 0 <= h < Z.of_nat (length chain) -> exists m, mtp_at chain h = Some m.
Proof.
  intros Hh. unfold mtp_at. destruct (Z.ltb_spec h 0); [lia|].
  destruct (mtp_nat_some chain (Z.to_nat h)) as (m & E & _); [lia|]. eauto.
Qed.

Lemma mtp_at_in chain h m : mtp_at chain h = Some m -> In m chain.
Proof.
  intros H. apply mtp_at_iff in H. destruct H as [_ H]. apply median_of_counts in H.
  destruct H as [Hi _]. eapply last_times_incl. exact Hi.
Qed.

Lemma spec_mtp_eq chain h : spec_mtp chain h = mtp_at chain h.
Proof.
  unfold spec_mtp. destruct (Z.ltb_spec h 0) as [Hn|Hp]; simpl.
  - unfold mtp_at. destruct (Z.ltb_spec h 0); [reflexivity|lia].
  - destruct (Z.leb_spec (Z.of_nat (length chain)) h) as [Hg|Hl].
    + unfold mtp_at. destruct (Z.ltb_spec h 0); [lia|]. rewrite mtp_nat_none by lia. reflexivity.
    + destruct (mtp_at_some chain h) as [m Hm]; [lia|]. rewrite Hm.
      apply mtp_at_iff in Hm. destruct Hm as [_ Hm]. apply find_is_median. exact Hm.
Qed.

(* ------------------------------------------------------------------------------------------ *)
(* Sequence locks *)


Definition wf_inputs (chain : list Z) (ins : list (Z * Z)) : Prop :=
  Forall (fun sc => 0 <= fst sc <= 4294967295 /\ 0 <= snd sc <= block_height chain + 1) ins.

(* when is the lock of input (s, ch) in force, and what it requires of a bound X on heights / T on times *)
Definition height_lock_below (s ch X : Z) : Prop :=
  Z.testbit s 31 = false -> Z.testbit s 22 = false -> ch + s mod 65536 - 1 < X.
Definition time_lock_below (chain : list Z) (s ch T : Z) : Prop :=
  Z.testbit s 31 = false -> Z.testbit s 22 = true ->
  exists a, mtp_at chain (Z.max (ch - 1) 0) = Some a /\ a + 512 * (s mod 65536) - 1 < T.

Lemma mtp_bounds chain h m : Forall (fun t => 0 <= t <= 4294967295) chain -> mtp_at chain h = Some m -> 0 <= m <= 4294967295.
Proof.
  intros Hc Hm. apply mtp_at_in in Hm. rewrite Forall_forall in Hc. apply Hc. exact Hm.
Qed.

Lemma calc_loop_spec chain : wf_chain chain -> forall ins minH minT,
  wf_inputs chain ins -> -1 <= minH <= 2147483647 -> -1 <= minT <= 4328521215 ->
  exists r, calc_locks_loop chain ins minH minT = Some r /\
    (forall X, lr_height r < X <-> minH < X /\ Forall (fun sc => height_lock_below (fst sc) (snd sc) X) ins) /\
    (forall T, lr_time r < T <-> minT < T /\ Forall (fun sc => time_lock_below chain (fst sc) (snd sc) T) ins).
Proof.
  intros (Hlen & Hmax & Htimes). induction ins as [|[s ch] r IH]; intros minH minT Hwf HmH HmT.
  - simpl. eexists. split; [reflexivity|]. simpl. split; intros; split; try tauto; intros; split; auto; tauto.
  - inversion Hwf as [|? ? [Hs Hch] Hwf']; subst. simpl in Hs, Hch.
    unfold block_height in Hch.
    assert (0 <= s mod 65536 < 65536) as Hv by (apply Z.mod_pos_bound; lia).
    cbn [calc_locks_loop]. rewrite disable_flag_test, type_flag_test, mask_value.
    destruct (Z.testbit s 31) eqn:Ed.
    + (* disabled *)
      destruct (IH minH minT Hwf' HmH HmT) as (r0 & E0 & HH & HT). rewrite E0. simpl.
      eexists. split; [reflexivity|]. simpl. split.
      * intros X. rewrite HH. split.
        -- intros [A B]. split; [exact A|]. constructor; [|exact B]. unfold height_lock_below. cbn [fst snd]. intros; congruence.
        -- intros [A B]. inversion B; subst. tauto.
      * intros T. rewrite HT. split.
        -- intros [A B]. split; [exact A|]. constructor; [|exact B]. unfold time_lock_below. cbn [fst snd]. intros; congruence.
        -- intros [A B]. inversion B; subst. tauto.
    + destruct (Z.testbit s 22) eqn:Et.
      * (* time lock *)
        rewrite (wrap32_id (ch - 1)) by (unfold INT32_MIN, INT32_MAX; lia).
        unfold ancestor_mtp, block_height.
        destruct (Z.gtb_spec (Z.max (ch - 1) 0) (Z.of_nat (length chain) - 1)) as [Hbad|Hok]; [lia|].
        destruct (Z.ltb_spec (Z.max (ch - 1) 0) 0) as [Hbad|Hok2]; [lia|]. cbn [orb].
        destruct (mtp_at_some chain (Z.max (ch - 1) 0)) as [a Ha]; [lia|]. rewrite Ha.
        pose proof (mtp_bounds chain _ _ Htimes Ha) as Hab.
        rewrite shifted_value by exact Hv.
        rewrite (wrap64_id (512 * (s mod 65536))) by (unfold INT64_MIN, INT64_MAX; lia).
        rewrite (wrap64_id (a + _)) by (unfold INT64_MIN, INT64_MAX; lia).
        rewrite (wrap64_id (a + _ - 1)) by (unfold INT64_MIN, INT64_MAX; lia).
        destruct (IH minH (Z.max minT (a + 512 * (s mod 65536) - 1)) Hwf' HmH) as (r0 & E0 & HH & HT); [lia|].
        rewrite E0. simpl. eexists. split; [reflexivity|]. simpl. split.
        -- intros X. rewrite HH. split.
           ++ intros [A B]. split; [exact A|]. constructor; [|exact B]. unfold height_lock_below. cbn [fst snd]. intros; congruence.
           ++ intros [A B]. inversion B; subst. tauto.
        -- intros T. rewrite HT. rewrite Z.max_lub_lt_iff. split.
           ++ intros [[A A'] B]. split; [exact A|]. constructor; [|exact B].
              unfold time_lock_below. cbn [fst snd]. intros _ _. exists a. split; [exact Ha|exact A'].
           ++ intros [A B]. inversion B as [|? ? B1 B2]; subst. split; [|exact B2]. split; [exact A|].
              unfold time_lock_below in B1. cbn [fst snd] in B1. destruct (B1 Ed Et) as (a' & Ea' & La').
              rewrite Ha in Ea'. inversion Ea'; subst a'. exact La'.
      * (* height lock *)
        rewrite (wrap32_id (s mod 65536)) by (unfold INT32_MIN, INT32_MAX; lia).
        rewrite (wrap32_id (ch + _)) by (unfold INT32_MIN, INT32_MAX; lia).
        rewrite (wrap32_id (ch + _ - 1)) by (unfold INT32_MIN, INT32_MAX; lia).
        destruct (IH (Z.max minH (ch + s mod 65536 - 1)) minT Hwf') as (r0 & E0 & HH & HT); [lia|exact HmT|].
        rewrite E0. simpl. eexists. split; [reflexivity|]. simpl. split.
        -- intros X. rewrite HH. rewrite Z.max_lub_lt_iff. split.
           ++ intros [[A A'] B]. split; [exact A|]. constructor; [|exact B].
              unfold height_lock_below. cbn [fst snd]. intros _ _. exact A'.
           ++ intros [A B]. inversion B as [|? ? B1 B2]; subst. split; [|exact B2]. split; [exact A|].
              apply B1; assumption.
        -- intros T. rewrite HT. split.
           ++ intros [A B]. split; [exact A|]. constructor; [|exact B]. unfold time_lock_below. cbn [fst snd]. intros; congruence.
           ++ intros [A B]. inversion B; subst. tauto.
Qed.


Lemma wf_inputs_combine chain seqs prevs :
  Forall (fun s => 0 <= s <= 4294967295) seqs -> Forall (fun ch => 0 <= ch <= block_height chain + 1) prevs ->
  wf_inputs chain (combine seqs prevs).
Proof.
  intros Hs Hp. unfold wf_inputs. rewrite Forall_forall in *. intros [s ch] Hin.
  pose proof (in_combine_l _ _ _ _ Hin). pose proof (in_combine_r _ _ _ _ Hin). simpl. auto.
Qed.


Lemma enforce_bip68_iff version flags : 0 <= version <= 4294967295 ->
  enforce_bip68 version flags = true <-> 2 <= version /\ Z.testbit flags 0 = true.
Proof.
  intros Hv. unfold enforce_bip68. rewrite wrapu32_id by (unfold UINT32_MAX; lia).
  rewrite verify_sequence_flag_test, andb_true_iff. rewrite Z.geb_le. tauto.
Qed.

Theorem sequence_locks_iff : forall t flags prevs chain,
  wf_locks_input t prevs chain ->
  exists b, sequence_locks t flags prevs chain = Some b /\
   (b = true <-> forall s ch, In (s, ch) (combine (lt_seqs t) prevs) -> input_lock_ok chain (lt_version t) flags s ch).
Proof.
  intros t flags prevs chain (Hc & Hv & Hlen & Hs & Hp).
  pose proof Hc as (Hl2 & Hmax & Htimes).
  unfold sequence_locks, calculate_sequence_locks.
  rewrite Hlen, Nat.eqb_refl. simpl negb. cbv iota.
  assert (1 <= block_height chain) as HH by (unfold block_height; lia).
  destruct (mtp_at_some chain (block_height chain - 1)) as [bt Hbt]; [unfold block_height in *; lia|].
  pose proof (mtp_bounds chain _ _ Htimes Hbt) as Hbtb.
  destruct (enforce_bip68 (lt_version t) flags) eqn:Eenf.
  - apply enforce_bip68_iff in Eenf; [|exact Hv]. destruct Eenf as [Ev Ef]. simpl negb. cbv iota.
    destruct (calc_loop_spec chain Hc (combine (lt_seqs t) prevs) (-1) (-1)) as (r & Er & HHt & HTm);
      [apply wf_inputs_combine; assumption|lia|lia|].
    rewrite Er. unfold evaluate_sequence_locks.
    destruct (Z.ltb_spec (block_height chain) 1); [lia|]. rewrite Hbt.
    eexists. split; [reflexivity|].
    rewrite negb_true_iff, orb_false_iff.
    assert (forall a b, (a >=? b) = false <-> a < b) as Gf.
    { intros a b. destruct (Z.geb_spec a b); split; intros; try lia; try discriminate; reflexivity. }
    rewrite !Gf, HHt, HTm. rewrite !Forall_forall. split.
    + intros [[_ A] [_ B]] s ch Hin _ _ Hd. specialize (A _ Hin). specialize (B _ Hin). simpl in A, B.
      destruct (Z.testbit s 22) eqn:Et.
      * destruct (B Hd Et) as (a & Ea & La). exists a, bt. repeat split; auto. lia.
      * specialize (A Hd Et). lia.
    + intros Hall. split; (split; [lia|]); intros [s ch] Hin; simpl.
      * intros Hd Et. pose proof (Hall s ch Hin Ev Ef Hd) as X. rewrite Et in X. lia.
      * intros Hd Et. pose proof (Hall s ch Hin Ev Ef Hd) as X. rewrite Et in X.
        destruct X as (a & b & Ea & Eb & Lab). rewrite Hbt in Eb. inversion Eb; subst b.
        exists a. split; [exact Ea|lia].
  - simpl negb. cbv iota. simpl lr_height. simpl lr_time. unfold evaluate_sequence_locks.
    destruct (Z.ltb_spec (block_height chain) 1); [lia|]. rewrite Hbt.
    eexists. split; [reflexivity|].
    destruct (Z.geb_spec (-1) (block_height chain)); [lia|].
    destruct (Z.geb_spec (-1) bt); [lia|]. simpl. split; [|reflexivity].
    intros _ s ch _ Hv2 Hf _.
    assert (enforce_bip68 (lt_version t) flags = true) by (apply enforce_bip68_iff; auto). congruence.
Qed.

(* never enforced for version < 2, without the flag, or with the disable bit on every input *)
Theorem sequence_locks_disabled : forall t flags prevs chain,
  wf_locks_input t prevs chain ->
  lt_version t < 2 \/ Z.testbit flags 0 = false \/ Forall (fun s => Z.testbit s 31 = true) (lt_seqs t) ->
  sequence_locks t flags prevs chain = Some true.
Proof.
  intros t flags prevs chain Hwf Hdis.
  destruct (sequence_locks_iff t flags prevs chain Hwf) as (b & E & Hb).
  rewrite E. f_equal. apply Hb. intros s ch Hin Hv Hf Hd. exfalso.
  destruct Hdis as [A|[A|A]]; [lia|congruence|].
  rewrite Forall_forall in A. apply in_combine_l in Hin. specialize (A _ Hin). congruence.
Qed.

(* the executable form of the statement used by the violation search *)
Lemma input_lock_ok_b_iff chain version flags s ch :
  input_lock_ok_b chain version flags (s, ch) = true <-> input_lock_ok chain version flags s ch.
Proof.
  unfold input_lock_ok_b, input_lock_ok, lock_enabled_b, lock_is_time_b, lock_value.
  rewrite !spec_mtp_eq.
  destruct (Z.leb_spec 2 version) as [Hv|Hv]; cbn [andb negb].
  2:{ split; [intros _ ?; lia|reflexivity]. }
  destruct (Z.testbit flags 0); cbn [andb negb].
  2:{ split; [intros _ _ ?; discriminate|reflexivity]. }
  destruct (Z.testbit s 31); cbn [andb negb].
  { split; [intros _ _ _ ?; discriminate|reflexivity]. }
  destruct (Z.testbit s 22).
  - destruct (mtp_at chain (Z.max (ch - 1) 0)) as [a|].
    + destruct (mtp_at chain (block_height chain - 1)) as [b|].
      * rewrite Z.leb_le. split.
        -- intros L _ _ _. exists a, b. auto.
        -- intros X. destruct (X Hv eq_refl eq_refl) as (a' & b' & Ea & Eb & L). congruence.
      * split; [discriminate|]. intros X. destruct (X Hv eq_refl eq_refl) as (a' & b' & Ea & Eb & L). discriminate.
    + split; [discriminate|]. intros X. destruct (X Hv eq_refl eq_refl) as (a' & b' & Ea & Eb & L). discriminate.
  - rewrite Z.leb_le. split; auto.
Qed.

Lemma spec_sequence_locks_b_iff t flags prevs chain :
  spec_sequence_locks_b t flags prevs chain = true <->
  forall s ch, In (s, ch) (combine (lt_seqs t) prevs) -> input_lock_ok chain (lt_version t) flags s ch.
Proof.
  unfold spec_sequence_locks_b. rewrite forallb_forall. split.
  - intros H s ch Hin. apply input_lock_ok_b_iff. apply H. exact Hin.
  - intros H [s ch] Hin. apply input_lock_ok_b_iff. apply H. exact Hin.
Qed.

Lemma sequence_locks_eq_spec t flags prevs chain : wf_locks_input t prevs chain ->
  sequence_locks t flags prevs chain = Some (spec_sequence_locks_b t flags prevs chain).
Proof.
  intros Hwf. destruct (sequence_locks_iff t flags prevs chain Hwf) as (b & E & Hb).
  rewrite E. f_equal. apply eq_true_iff_eq. rewrite spec_sequence_locks_b_iff. exact Hb.
Qed.

(* ------------------------------------------------------------------------------------------ *)
(* Coinbase maturity *)

Lemma maturity_iff : forall nSpendHeight coins,
  0 <= nSpendHeight <= 2147483647 -> (forall c, In c coins -> 0 <= c_height c <= 2147483647) ->
  (check_inputs_maturity nSpendHeight coins = true <->
   forall c, In c coins -> c_coinbase c = true -> 100 <= nSpendHeight - c_height c).
Proof.
  intros sh coins Hs Hc. unfold check_inputs_maturity. rewrite negb_true_iff. split.
  - intros H c Hin Hcb.
    assert (premature_spend sh c = false) as P.
    { destruct (premature_spend sh c) eqn:E; [|reflexivity].
      assert (existsb (premature_spend sh) coins = true) by (apply existsb_exists; eauto). congruence. }
    unfold premature_spend in P. rewrite Hcb in P. simpl in P.
    rewrite wrap32_id in P by (specialize (Hc c Hin); unfold INT32_MIN, INT32_MAX; lia).
    change COINBASE_MATURITY with 100 in P. lia.
  - intros H. destruct (existsb (premature_spend sh) coins) eqn:E; [|reflexivity]. exfalso.
    apply existsb_exists in E. destruct E as (c & Hin & P).
    unfold premature_spend in P. apply andb_true_iff in P. destruct P as [Hcb P].
    rewrite wrap32_id in P by (specialize (Hc c Hin); unfold INT32_MIN, INT32_MAX; lia).
    change COINBASE_MATURITY with 100 in P. specialize (H c Hin Hcb). lia.
Qed.

Lemma spec_mature_b_iff sh coins :
  spec_mature_b sh coins = true <-> forall c, In c coins -> c_coinbase c = true -> 100 <= sh - c_height c.
Proof.
  unfold spec_mature_b. rewrite forallb_forall. split.
  - intros H c Hin Hcb. specialize (H c Hin). rewrite Hcb in H. simpl in H. lia.
  - intros H c Hin. destruct (c_coinbase c) eqn:E; simpl; [|reflexivity]. specialize (H c Hin E). lia.
Qed.

(* ------------------------------------------------------------------------------------------ *)
(* ContextualCheckBlock's finality rule *)

Lemma contextual_final_iff : forall prev_chain csv_active block_time txs,
  (1 <= length prev_chain)%nat -> Z.of_nat (length prev_chain) <= 2147483647 ->
  (forall t, In t txs -> 0 <= lt_locktime t <= 4294967295) ->
  exists cutoff,
    (csv_active = true -> mtp_at prev_chain (Z.of_nat (length prev_chain) - 1) = Some cutoff) /\
    (csv_active = false -> cutoff = block_time) /\
    contextual_txs_final prev_chain csv_active block_time txs =
      Some (forallb (fun t => spec_final_b t (Z.of_nat (length prev_chain)) cutoff) txs).
Proof.
  intros pc csv bt txs Hl Hmax Htx. unfold contextual_txs_final, block_height.
  replace (Z.of_nat (length pc) - 1 + 1) with (Z.of_nat (length pc)) by lia.
  assert (forall cutoff, forallb (fun t => is_final_tx t (Z.of_nat (length pc)) cutoff) txs =
                         forallb (fun t => spec_final_b t (Z.of_nat (length pc)) cutoff) txs) as Eq.
  { intros cutoff. revert Htx. clear - Hmax. induction txs as [|t r IH]; intros Htx; [reflexivity|]. simpl.
    rewrite IH by (intros; apply Htx; right; assumption).
    rewrite is_final_eq_spec; [reflexivity|apply Htx; left; reflexivity|lia]. }
  destruct csv.
  - destruct (mtp_at_some pc (Z.of_nat (length pc) - 1)) as [m Hm]; [lia|].
    exists m. split; [intros _; exact Hm|]. split; [discriminate|]. rewrite Hm, Eq. reflexivity.
  - exists bt. split; [discriminate|]. split; [reflexivity|]. rewrite Eq. reflexivity.
Qed.

(* ------------------------------------------------------------------------------------------ *)
(* One transaction in a block, end to end *)

Lemma maturity_eq_spec : forall nSpendHeight coins,
  0 <= nSpendHeight <= 2147483647 -> (forall c, In c coins -> 0 <= c_height c <= 2147483647) ->
  check_inputs_maturity nSpendHeight coins = spec_mature_b nSpendHeight coins.
Proof.
  intros sh coins Hs Hc. apply eq_true_iff_eq. rewrite maturity_iff, spec_mature_b_iff by assumption. tauto.
Qed.

Lemma block_height_snoc chain x : block_height (chain ++ [x]) = block_height chain + 1.
Proof. unfold block_height. rewrite app_length. simpl. lia. Qed.

Theorem connect_tx_verdict_is_spec : forall prev_chain csv_height block_time t coins,
  wf_locks_input t (map c_height coins) (prev_chain ++ [block_time]) ->
  0 <= lt_locktime t <= 4294967295 ->
  connect_tx_verdict prev_chain csv_height block_time t coins = spec_verdict prev_chain csv_height block_time t coins.
Proof.
  intros pc csv bt t coins Hwf Hlt.
  pose proof Hwf as ((Hl2 & Hmax & Htimes) & Hv & Hlen & Hs & Hp).
  rewrite app_length in Hl2, Hmax. simpl in Hl2, Hmax.
  assert (block_height pc + 1 = Z.of_nat (length pc)) as HN by (unfold block_height; lia).
  unfold connect_tx_verdict, spec_verdict. rewrite HN.
  destruct (contextual_final_iff pc (csv <=? Z.of_nat (length pc)) bt [t]) as (cutoff & C1 & C2 & C3); [lia|lia| |].
  { intros t' [<-|[]]. exact Hlt. }
  rewrite C3. rewrite spec_mtp_eq.
  assert ((if csv <=? Z.of_nat (length pc) then mtp_at pc (Z.of_nat (length pc) - 1) else Some bt) = Some cutoff) as Ec.
  { destruct (csv <=? Z.of_nat (length pc)); [apply C1; reflexivity|rewrite C2; reflexivity]. }
  rewrite Ec. cbn [forallb]. rewrite andb_true_r.
  destruct (spec_final_b t (Z.of_nat (length pc)) cutoff); cbn [negb]; [|reflexivity].
  rewrite maturity_eq_spec.
  2:{ lia. }
  2:{ intros c Hc. rewrite Forall_forall in Hp. specialize (Hp (c_height c) (in_map _ _ _ Hc)).
      rewrite block_height_snoc in Hp. unfold block_height in Hp. lia. }
  destruct (spec_mature_b (Z.of_nat (length pc)) coins); cbn [negb]; [|reflexivity].
  assert (forall b : bool, (if b then LOCKS_LOCKTIME_VERIFY_SEQUENCE else 0) = (if b then 1 else 0)) as Ef by (intros []; reflexivity).
  rewrite Ef. rewrite sequence_locks_eq_spec by exact Hwf.
  destruct (spec_sequence_locks_b _ _ _ _); reflexivity.
Qed.
