(* Per-opcode specifications of the script interpreter (model/Script.v), each stated against list
   operations / integer arithmetic for an executed instruction (exec_op).  Stacks have the top first. *)
From BV Require Import lib.Ints gen.Params_gen model.Script proofs.ScriptNumLemmas proofs.ScriptLemmas proofs.ScriptInvLemmas.
Local Open Scope Z_scope.

Lemma bytes_eqb_spec a : forall b, bytes_eqb a b = true <-> a = b.
Proof.
  induction a as [|x a IH]; intros [|y b]; unfold bytes_eqb; fold bytes_eqb; split; intros H; try reflexivity; try discriminate.
  - apply Bool.andb_true_iff in H. destruct H as [H1 H2]. apply Z.eqb_eq in H1. apply IH in H2. congruence.
  - inversion H; subst. apply Bool.andb_true_iff. split; [apply Z.eqb_refl|apply IH; reflexivity].
Qed.

(* the mathematical meaning of the numeric opcodes (no int64 wrap) *)
Definition unop_spec (u : unop) (n : Z) : Z :=
  match u with
  | U_1ADD => n + 1 | U_1SUB => n - 1 | U_NEGATE => - n | U_ABS => Z.abs n
  | U_NOT => if n =? 0 then 1 else 0 | U_0NOTEQUAL => if n =? 0 then 0 else 1
  end.
Definition binop_spec (b : binop) (a1 a2 : Z) : Z :=
  match b with
  | B_ADD => a1 + a2 | B_SUB => a1 - a2
  | B_BOOLAND => if (a1 =? 0) || (a2 =? 0) then 0 else 1
  | B_BOOLOR => if (a1 =? 0) && (a2 =? 0) then 0 else 1
  | B_NUMEQUAL | B_NUMEQUALVERIFY => if a1 =? a2 then 1 else 0
  | B_NUMNOTEQUAL => if a1 =? a2 then 0 else 1
  | B_LESSTHAN => if a1 <? a2 then 1 else 0
  | B_GREATERTHAN => if a2 <? a1 then 1 else 0
  | B_LESSTHANOREQUAL => if a1 <=? a2 then 1 else 0
  | B_GREATERTHANOREQUAL => if a2 <=? a1 then 1 else 0
  | B_MIN => Z.min a1 a2 | B_MAX => Z.max a1 a2
  end.

Lemma unop_apply_spec u n : - (2 ^ 31 - 1) <= n <= 2 ^ 31 - 1 -> unop_apply u n = unop_spec u n.
Proof.
  intros H. destruct u; cbn [unop_apply unop_spec]; unfold bool_z; rewrite ?wrap64_small by lia; try reflexivity.
  - destruct (n <? 0) eqn:E; rewrite ?wrap64_small by lia; lia.
  - destruct (n =? 0); reflexivity.
Qed.
Lemma binop_apply_spec b a1 a2 : - (2 ^ 31 - 1) <= a1 <= 2 ^ 31 - 1 -> - (2 ^ 31 - 1) <= a2 <= 2 ^ 31 - 1 ->
  binop_apply b a1 a2 = binop_spec b a1 a2.
Proof.
  intros H1 H2. destruct b; cbn [binop_apply binop_spec]; unfold bool_z; rewrite ?wrap64_small by lia; try reflexivity;
    repeat match goal with |- context [?x =? ?y] => destruct (Z.eqb_spec x y) end;
    repeat match goal with |- context [?x <? ?y] => destruct (Z.ltb_spec x y) end;
    repeat match goal with |- context [?x <=? ?y] => destruct (Z.leb_spec x y) end;
    repeat match goal with |- context [?x >? ?y] => rewrite (Z.gtb_ltb x y) end;
    repeat match goal with |- context [?x >=? ?y] => rewrite (Z.geb_leb x y) end;
    repeat match goal with |- context [?x <? ?y] => destruct (Z.ltb_spec x y) end;
    repeat match goal with |- context [?x <=? ?y] => destruct (Z.leb_spec x y) end;
    cbn; try reflexivity; try lia.
Qed.

Section OpSpecs.
Variable sha256 ripemd160 sha1 : bytes -> bytes.
Variable fl : Z.
Variable ck : checker.
Variable sv : sigversion.
Notation exec_op' := (exec_op sha256 ripemd160 sha1 fl ck sv).

Variable p : pop.
Variable fx : bool.
Variable st : state.

Ltac by_stack := intros Hs; cbn [exec_op invalid_stack]; rewrite Hs; reflexivity.

(* --- stack manipulation: success on a stack of the right depth, INVALID_STACK_OPERATION otherwise --- *)
Lemma op_dup_spec x r : st_stack st = x :: r -> exec_op' p O_DUP fx st = Ok (set_stack st (x :: x :: r)).
Proof. by_stack. Qed.
Lemma op_drop_spec x r : st_stack st = x :: r -> exec_op' p O_DROP fx st = Ok (set_stack st r).
Proof. by_stack. Qed.
Lemma op_nip_spec x2 x1 r : st_stack st = x2 :: x1 :: r -> exec_op' p O_NIP fx st = Ok (set_stack st (x2 :: r)).
Proof. by_stack. Qed.
Lemma op_over_spec x2 x1 r : st_stack st = x2 :: x1 :: r -> exec_op' p O_OVER fx st = Ok (set_stack st (x1 :: x2 :: x1 :: r)).
Proof. by_stack. Qed.
Lemma op_rot_spec x3 x2 x1 r : st_stack st = x3 :: x2 :: x1 :: r -> exec_op' p O_ROT fx st = Ok (set_stack st (x1 :: x3 :: x2 :: r)).
Proof. by_stack. Qed.
Lemma op_swap_spec x2 x1 r : st_stack st = x2 :: x1 :: r -> exec_op' p O_SWAP fx st = Ok (set_stack st (x1 :: x2 :: r)).
Proof. by_stack. Qed.
Lemma op_tuck_spec x2 x1 r : st_stack st = x2 :: x1 :: r -> exec_op' p O_TUCK fx st = Ok (set_stack st (x2 :: x1 :: x2 :: r)).
Proof. by_stack. Qed.
Lemma op_2drop_spec x2 x1 r : st_stack st = x2 :: x1 :: r -> exec_op' p O_2DROP fx st = Ok (set_stack st r).
Proof. by_stack. Qed.
Lemma op_2dup_spec x2 x1 r : st_stack st = x2 :: x1 :: r -> exec_op' p O_2DUP fx st = Ok (set_stack st (x2 :: x1 :: x2 :: x1 :: r)).
Proof. by_stack. Qed.
Lemma op_3dup_spec x3 x2 x1 r : st_stack st = x3 :: x2 :: x1 :: r ->
  exec_op' p O_3DUP fx st = Ok (set_stack st (x3 :: x2 :: x1 :: x3 :: x2 :: x1 :: r)).
Proof. by_stack. Qed.
Lemma op_2over_spec x4 x3 x2 x1 r : st_stack st = x4 :: x3 :: x2 :: x1 :: r ->
  exec_op' p O_2OVER fx st = Ok (set_stack st (x2 :: x1 :: x4 :: x3 :: x2 :: x1 :: r)).
Proof. by_stack. Qed.
Lemma op_2rot_spec x6 x5 x4 x3 x2 x1 r : st_stack st = x6 :: x5 :: x4 :: x3 :: x2 :: x1 :: r ->
  exec_op' p O_2ROT fx st = Ok (set_stack st (x2 :: x1 :: x6 :: x5 :: x4 :: x3 :: r)).
Proof. by_stack. Qed.
Lemma op_2swap_spec x4 x3 x2 x1 r : st_stack st = x4 :: x3 :: x2 :: x1 :: r ->
  exec_op' p O_2SWAP fx st = Ok (set_stack st (x2 :: x1 :: x4 :: x3 :: r)).
Proof. by_stack. Qed.
Lemma op_ifdup_spec x r : st_stack st = x :: r ->
  exec_op' p O_IFDUP fx st = Ok (set_stack st (if cast_to_bool x then x :: x :: r else x :: r)).
Proof. by_stack. Qed.
Lemma op_depth_spec : exec_op' p O_DEPTH fx st = Ok (set_stack st (num_encode (lenz (st_stack st)) :: st_stack st)).
Proof. reflexivity. Qed.
Lemma op_size_spec x r : st_stack st = x :: r -> exec_op' p O_SIZE fx st = Ok (set_stack st (num_encode (lenz x) :: x :: r)).
Proof. by_stack. Qed.
Lemma op_toaltstack_spec x r : st_stack st = x :: r -> exec_op' p O_TOALTSTACK fx st = Ok (set_stacks st r (x :: st_alt st)).
Proof. by_stack. Qed.
Lemma op_fromaltstack_spec x a : st_alt st = x :: a -> exec_op' p O_FROMALTSTACK fx st = Ok (set_stacks st (x :: st_stack st) a).
Proof. by_stack. Qed.
Lemma op_fromaltstack_empty : st_alt st = [] -> exec_op' p O_FROMALTSTACK fx st = Err SE_INVALID_ALTSTACK_OPERATION.
Proof. by_stack. Qed.

(* too few elements: every stack opcode reports INVALID_STACK_OPERATION *)
Definition min_depth (o : opc) : option nat :=
  match o with
  | O_DUP | O_DROP | O_IFDUP | O_SIZE | O_TOALTSTACK | O_VERIFY | O_UNARY _ | O_HASH _ => Some 1%nat
  | O_NIP | O_OVER | O_SWAP | O_TUCK | O_2DROP | O_2DUP | O_PICK | O_ROLL | O_EQUAL | O_EQUALVERIFY | O_BINARY _
  | O_CHECKSIG | O_CHECKSIGVERIFY => Some 2%nat
  | O_ROT | O_3DUP | O_WITHIN => Some 3%nat
  | O_2OVER | O_2SWAP => Some 4%nat
  | O_2ROT => Some 6%nat
  | _ => None
  end.
Lemma op_too_few_elements o n : min_depth o = Some n -> (length (st_stack st) < n)%nat ->
  exec_op' p o fx st = Err SE_INVALID_STACK_OPERATION.
Proof.
  intros Hm Hl. destruct (st_stack st) as [|x1 [|x2 [|x3 [|x4 [|x5 [|x6 r]]]]]] eqn:E; cbn [length] in Hl;
    destruct o; try discriminate Hm; inversion Hm; subst n; try lia; cbn [exec_op invalid_stack]; rewrite E; reflexivity.
Qed.

(* --- OP_PICK / OP_ROLL: n = top element as a number; requires 0 <= n < (size after popping n) --- *)
Lemma op_pick_spec vn r n : st_stack st = vn :: r -> r <> [] -> bytes_ok vn -> num4 fl vn = Ok n -> 0 <= n < lenz r ->
  exists x, nth_error r (Z.to_nat n) = Some x /\ exec_op' p O_PICK fx st = Ok (set_stack st (x :: r)).
Proof.
  intros Hs Hr Hvn Hn Hrange. cbn [exec_op invalid_stack]. rewrite Hs. destruct r as [|y r']; [congruence|].
  pose proof (num4_range _ _ _ Hvn Hn) as Hnr.
  rewrite Hn. cbn [bind].
  assert (Hg : getint n = n). { unfold getint, INT32_MAX, INT32_MIN. unfold lenz in Hrange.
    destruct (n >? 2147483647) eqn:E1; [|destruct (n <? -2147483648) eqn:E2; [lia|reflexivity]].
    exfalso. lia. }
  rewrite Hg. replace ((n <? 0) || (n >=? lenz (y :: r'))) with false by lia.
  destruct (nth_error (y :: r') (Z.to_nat n)) as [x|] eqn:E.
  - exists x. split; reflexivity.
  - exfalso. apply nth_error_None in E. unfold lenz in Hrange. lia.
Qed.
Lemma op_roll_spec vn r n : st_stack st = vn :: r -> r <> [] -> bytes_ok vn -> num4 fl vn = Ok n -> 0 <= n < lenz r ->
  exists x, nth_error r (Z.to_nat n) = Some x /\
    exec_op' p O_ROLL fx st = Ok (set_stack st (x :: firstn (Z.to_nat n) r ++ skipn (S (Z.to_nat n)) r)).
Proof.
  intros Hs Hr Hvn Hn Hrange. cbn [exec_op invalid_stack]. rewrite Hs. destruct r as [|y r']; [congruence|].
  pose proof (num4_range _ _ _ Hvn Hn) as Hnr.
  rewrite Hn. cbn [bind].
  assert (Hg : getint n = n). { unfold getint, INT32_MAX, INT32_MIN. unfold lenz in Hrange.
    destruct (n >? 2147483647) eqn:E1; [|destruct (n <? -2147483648) eqn:E2; [lia|reflexivity]].
    exfalso. lia. }
  rewrite Hg. replace ((n <? 0) || (n >=? lenz (y :: r'))) with false by lia.
  destruct (nth_error (y :: r') (Z.to_nat n)) as [x|] eqn:E.
  - exists x. split; reflexivity.
  - exfalso. apply nth_error_None in E. unfold lenz in Hrange. lia.
Qed.
(* the rolled stack is a permutation with the same elements: r = firstn n r ++ x :: skipn (S n) r *)
Lemma roll_decompose {A} (r : list A) n x : nth_error r n = Some x -> r = firstn n r ++ x :: skipn (S n) r.
Proof.
  revert n. induction r as [|y r IH]; intros [|n] H; cbn in *; try discriminate.
  - inversion H; reflexivity.
  - f_equal. apply IH. exact H.
Qed.
Lemma op_pick_roll_out_of_range o vn r n : (o = O_PICK \/ o = O_ROLL) -> st_stack st = vn :: r -> r <> [] -> bytes_ok vn -> num4 fl vn = Ok n ->
  (n < 0 \/ lenz r <= n) -> exec_op' p o fx st = Err SE_INVALID_STACK_OPERATION.
Proof.
  intros Ho Hs Hr Hvn Hn Hrange. destruct r as [|y r']; [congruence|].
  pose proof (num4_range _ _ _ Hvn Hn) as Hnr.
  assert (Hg : (getint n <? 0) || (getint n >=? lenz (y :: r')) = true).
  { unfold getint, INT32_MAX, INT32_MIN.
    destruct (n >? 2147483647) eqn:E1; [exfalso; lia|].
    destruct (n <? -2147483648) eqn:E2; [exfalso; lia|]. lia. }
  destruct Ho; subst o; cbn [exec_op invalid_stack]; rewrite Hs, Hn; cbn [bind]; rewrite Hg; reflexivity.
Qed.

(* --- OP_EQUAL --- *)
Lemma op_equal_spec x2 x1 r : st_stack st = x2 :: x1 :: r ->
  exec_op' p O_EQUAL fx st = Ok (set_stack st ((if list_eq_dec Z.eq_dec x1 x2 then [1] else []) :: r)).
Proof.
  intros Hs. cbn [exec_op invalid_stack]. rewrite Hs. do 3 f_equal.
  destruct (list_eq_dec Z.eq_dec x1 x2) as [e|ne].
  - apply bytes_eqb_spec in e. rewrite e. reflexivity.
  - destruct (bytes_eqb x1 x2) eqn:E; [apply bytes_eqb_spec in E; congruence|reflexivity].
Qed.

(* --- arithmetic: operands are 4-byte numbers; the result is the mathematical one --- *)
Lemma op_unary_spec u x r n : st_stack st = x :: r -> bytes_ok x -> num4 fl x = Ok n ->
  exec_op' p (O_UNARY u) fx st = Ok (set_stack st (num_encode (unop_spec u n) :: r)).
Proof.
  intros Hs Hx Hn. cbn [exec_op invalid_stack]. rewrite Hs, Hn. cbn [bind]. unfold push_num.
  rewrite unop_apply_spec by (eapply num4_range; eauto). reflexivity.
Qed.
Lemma op_binary_spec b x2 x1 r a1 a2 : b <> B_NUMEQUALVERIFY -> st_stack st = x2 :: x1 :: r -> bytes_ok x1 -> bytes_ok x2 ->
  num4 fl x1 = Ok a1 -> num4 fl x2 = Ok a2 ->
  exec_op' p (O_BINARY b) fx st = Ok (set_stack st (num_encode (binop_spec b a1 a2) :: r)).
Proof.
  intros Hb Hs H1 H2 E1 E2. cbn [exec_op invalid_stack]. rewrite Hs, E1. cbn [bind]. rewrite E2. cbn [bind].
  rewrite (binop_apply_spec b a1 a2 (num4_range _ _ _ H1 E1) (num4_range _ _ _ H2 E2)). destruct b; try congruence; reflexivity.
Qed.
Lemma op_numequalverify_spec x2 x1 r a1 a2 : st_stack st = x2 :: x1 :: r -> bytes_ok x1 -> bytes_ok x2 ->
  num4 fl x1 = Ok a1 -> num4 fl x2 = Ok a2 ->
  exec_op' p (O_BINARY B_NUMEQUALVERIFY) fx st = if a1 =? a2 then Ok (set_stack st r) else Err SE_NUMEQUALVERIFY.
Proof.
  intros Hs H1 H2 E1 E2. cbn [exec_op invalid_stack]. rewrite Hs, E1. cbn [bind]. rewrite E2. cbn [bind binop_apply].
  unfold bool_z. destruct (a1 =? a2); reflexivity.
Qed.
Lemma op_within_spec x3 x2 x1 r v lo hi : st_stack st = x3 :: x2 :: x1 :: r ->
  num4 fl x1 = Ok v -> num4 fl x2 = Ok lo -> num4 fl x3 = Ok hi ->
  exec_op' p O_WITHIN fx st = Ok (set_stack st ((if (lo <=? v) && (v <? hi) then [1] else []) :: r)).
Proof.
  intros Hs E1 E2 E3. cbn [exec_op invalid_stack]. rewrite Hs, E1. cbn [bind]. rewrite E2. cbn [bind]. rewrite E3. cbn [bind].
  destruct ((lo <=? v) && (v <? hi)); reflexivity.
Qed.
Lemma op_operand_too_long o x r : (exists u, o = O_UNARY u) -> st_stack st = x :: r -> 4 < lenz x ->
  exec_op' p o fx st = Err SE_SCRIPTNUM.
Proof.
  intros [u ->] Hs Hl. cbn [exec_op invalid_stack]. rewrite Hs. unfold num4, script_num.
  change SCR_DEFAULT_MAX_NUM_SIZE with 4. replace (lenz x >? 4) with true by lia. reflexivity.
Qed.

(* --- hashes, VERIFY, RETURN --- *)
Lemma op_hash_spec h x r : st_stack st = x :: r ->
  exec_op' p (O_HASH h) fx st = Ok (set_stack st (hash_of sha256 ripemd160 sha1 h x :: r)).
Proof. by_stack. Qed.
Lemma op_verify_spec x r : st_stack st = x :: r ->
  exec_op' p O_VERIFY fx st = if cast_to_bool x then Ok (set_stack st r) else Err SE_VERIFY.
Proof. by_stack. Qed.
Lemma op_return_spec : exec_op' p O_RETURN fx st = Err SE_OP_RETURN.
Proof. reflexivity. Qed.

End OpSpecs.
