(* C25: finite relations kept transitively closed (DepGraph style): membership characterisations,
   closure = clos_trans of the raw edges, removals. *)
From Coq Require Import List ZArith Bool Arith Lia Relations.
From BV Require Import lib.Ints model.Fee model.Lin model.TxGraph proofs.LinLemmas.
Import ListNotations.

Lemma pair_eqb_true e f : pair_eqb e f = true <-> e = f.
Proof.
  destruct e as [a b], f as [c d]. unfold pair_eqb. simpl.
  rewrite andb_true_iff, !Nat.eqb_eq. split.
  - intros [-> ->]. reflexivity.
  - intros H. inversion H. auto.
Qed.

Lemma rmem_In e R : rmem e R = true <-> In e R.
Proof.
  unfold rmem. rewrite existsb_exists. split.
  - intros [f [Hf He]]. apply pair_eqb_true in He. subst. exact Hf.
  - intros H. exists e. split; [exact H | apply pair_eqb_true; reflexivity].
Qed.

Lemma radd_In e R f : In f (radd e R) <-> f = e \/ In f R.
Proof.
  unfold radd. destruct (rmem e R) eqn:E.
  - apply rmem_In in E. split; [auto | intros [-> | H]; auto].
  - simpl. split; intros [H | H]; auto.
Qed.

Lemma fold_radd_In l R f : In f (fold_right radd R l) <-> In f l \/ In f R.
Proof.
  induction l as [| e l IH]; simpl.
  - tauto.
  - rewrite radd_In, IH. split; intros H; intuition (subst; auto).
Qed.

Lemma ancs_strict_In R x a : In a (ancs_strict R x) <-> In (a, x) R.
Proof.
  unfold ancs_strict. rewrite in_map_iff. split.
  - intros [[a' x'] [Ha He]]. simpl in Ha. subst. apply filter_In in He. destruct He as [He Hx].
    simpl in Hx. apply Nat.eqb_eq in Hx. subst. exact He.
  - intros H. exists (a, x). split; [reflexivity |]. apply filter_In. split; [exact H |]. simpl. apply Nat.eqb_refl.
Qed.

Lemma descs_strict_In R x d : In d (descs_strict R x) <-> In (x, d) R.
Proof.
  unfold descs_strict. rewrite in_map_iff. split.
  - intros [[x' d'] [Hd He]]. simpl in Hd. subst. apply filter_In in He. destruct He as [He Hx].
    simpl in Hx. apply Nat.eqb_eq in Hx. subst. exact He.
  - intros H. exists (x, d). split; [reflexivity |]. apply filter_In. split; [exact H |]. simpl. apply Nat.eqb_refl.
Qed.

Lemma add_closed_In R p c a d :
  In (a, d) (add_closed R p c) <->
  In (a, d) R \/ ((a = p \/ In (a, p) R) /\ (d = c \/ In (c, d) R)).
Proof.
  unfold add_closed. rewrite fold_radd_In, in_prod_iff. simpl.
  rewrite ancs_strict_In, descs_strict_In. split; intros H; intuition (subst; auto).
Qed.

Lemma add_closed_incl R p c e : In e R -> In e (add_closed R p c).
Proof. destruct e. intros H. apply add_closed_In. auto. Qed.

Definition trans (R : rel) : Prop := forall a b c, In (a, b) R -> In (b, c) R -> In (a, c) R.

Lemma add_closed_trans R p c : trans R -> trans (add_closed R p c).
Proof.
  intros T a b d H1 H2. apply add_closed_In in H1. apply add_closed_In in H2. apply add_closed_In.
  destruct H1 as [H1 | [H1a H1b]], H2 as [H2 | [H2a H2b]].
  - left. eapply T; eauto.
  - right. split; [| exact H2b]. right. destruct H2a as [-> | H2a]; [exact H1 | eapply T; eauto].
  - right. split; [exact H1a |]. right. destruct H1b as [-> | H1b]; [exact H2 | eapply T; eauto].
  - right. split; assumption.
Qed.

(* ------------------------------------------------------------------------------------------- *)
(* the raw edge relation of a list and its closures *)
Definition edge (E : rel) (a b : nat) : Prop := In (a, b) E.
Definition tc (E : rel) : nat -> nat -> Prop := clos_trans nat (edge E).

Lemma tc_mono E F a d : (forall x y, edge E x y -> tc F x y) -> tc E a d -> tc F a d.
Proof.
  intros H T. induction T as [x y Hxy | x y z _ IH1 _ IH2].
  - apply H. exact Hxy.
  - eapply t_trans; eauto.
Qed.

Lemma tc_incl E F a d : incl E F -> tc E a d -> tc F a d.
Proof. intros I. apply tc_mono. intros x y H. apply t_step. apply I. exact H. Qed.

Lemma trans_tc R a d : trans R -> (tc R a d <-> In (a, d) R).
Proof.
  intros T. split.
  - intros H. induction H as [x y H | x y z _ IH1 _ IH2]; [exact H | eapply T; eauto].
  - intros H. apply t_step. exact H.
Qed.

Lemma add_closed_tc R p c a d : trans R -> (In (a, d) (add_closed R p c) <-> tc ((p, c) :: R) a d).
Proof.
  intros T. split.
  - intros H. apply add_closed_In in H. destruct H as [H | [Ha Hd]].
    + apply t_step. right. exact H.
    + assert (Hpc : tc ((p, c) :: R) p c) by (apply t_step; left; reflexivity).
      assert (Hap : a = p \/ tc ((p, c) :: R) a p).
      { destruct Ha as [-> | Ha]; [left; reflexivity | right; apply t_step; right; exact Ha]. }
      assert (Hcd : d = c \/ tc ((p, c) :: R) c d).
      { destruct Hd as [-> | Hd]; [left; reflexivity | right; apply t_step; right; exact Hd]. }
      destruct Hap as [-> | Hap], Hcd as [-> | Hcd].
      * exact Hpc.
      * eapply t_trans; eauto.
      * eapply t_trans; eauto.
      * eapply t_trans; [exact Hap |]. eapply t_trans; eauto.
  - intros H. apply (trans_tc (add_closed R p c) a d (add_closed_trans R p c T)).
    revert H. apply tc_mono. intros x y [Hxy | Hxy].
    + inversion Hxy. subst. apply t_step. apply add_closed_In. right. auto.
    + apply t_step. apply add_closed_incl. exact Hxy.
Qed.

(* replacing a prefix by something with the same closure does not change the closure *)
Lemma tc_app_congr X Y P a d :
  (forall x y, tc X x y <-> tc Y x y) -> (tc (X ++ P) a d <-> tc (Y ++ P) a d).
Proof.
  intros H. split; apply tc_mono; intros x y Hxy; apply in_app_or in Hxy; destruct Hxy as [Hxy | Hxy].
  - apply (tc_incl Y); [apply incl_appl, incl_refl |]. apply H. apply t_step. exact Hxy.
  - apply t_step. apply in_or_app. right. exact Hxy.
  - apply (tc_incl X); [apply incl_appl, incl_refl |]. apply H. apply t_step. exact Hxy.
  - apply t_step. apply in_or_app. right. exact Hxy.
Qed.

Lemma tc_perm_cons e R P a d : tc ((e :: R) ++ P) a d <-> tc (R ++ e :: P) a d.
Proof.
  split; apply tc_incl; intros x Hx; simpl in *; rewrite in_app_iff in *; simpl in *; tauto.
Qed.

Lemma apply_deps_spec P : forall A, trans A ->
  trans (apply_deps A P) /\ forall a d, In (a, d) (apply_deps A P) <-> tc (A ++ P) a d.
Proof.
  induction P as [| e P IH]; intros A T.
  - simpl. split; [exact T |]. intros a d. rewrite app_nil_r. symmetry. apply trans_tc. exact T.
  - destruct e as [p c]. change (apply_deps A ((p, c) :: P)) with (apply_deps (add_closed A p c) P).
    destruct (IH (add_closed A p c) (add_closed_trans A p c T)) as [T' S]. split; [exact T' |].
    intros a d. rewrite S. rewrite <- tc_perm_cons. apply tc_app_congr.
    intros x y. rewrite (trans_tc _ x y (add_closed_trans A p c T)). apply add_closed_tc. exact T.
Qed.

Lemma apply_deps_trans A P : trans A -> trans (apply_deps A P).
Proof. intros T. apply (apply_deps_spec P A T). Qed.
Lemma apply_deps_tc A P a d : trans A -> (In (a, d) (apply_deps A P) <-> tc (A ++ P) a d).
Proof. intros T. apply (apply_deps_spec P A T). Qed.
Lemma apply_deps_nil A : apply_deps A [] = A.
Proof. reflexivity. Qed.
Lemma apply_deps_incl A P e : In e A -> In e (apply_deps A P).
Proof.
  revert A. induction P as [| [p c] P IH]; intros A H; [exact H |].
  apply IH. apply add_closed_incl. exact H.
Qed.

(* ------------------------------------------------------------------------------------------- *)
(* endpoints *)
Definition ends_in (R : rel) (S : nat -> Prop) : Prop := forall a d, In (a, d) R -> S a /\ S d.

Lemma tc_ends E S a d : ends_in E S -> tc E a d -> S a /\ S d.
Proof.
  intros H T. induction T as [x y Hxy | x y z _ [IH1 _] _ [_ IH2]]; [apply H; exact Hxy | auto].
Qed.

Lemma add_closed_ends R S p c : ends_in R S -> S p -> S c -> ends_in (add_closed R p c) S.
Proof.
  intros H Hp Hc a d Hin. apply add_closed_In in Hin. destruct Hin as [Hin | [Ha Hd]]; [apply H; exact Hin |].
  split.
  - destruct Ha as [-> | Ha]; [exact Hp | apply (H _ _ Ha)].
  - destruct Hd as [-> | Hd]; [exact Hc | apply (H _ _ Hd)].
Qed.

Lemma apply_deps_ends A P S : trans A -> ends_in A S -> ends_in P S -> ends_in (apply_deps A P) S.
Proof.
  intros T HA HP a d H. apply apply_deps_tc in H; [| exact T]. revert H. apply tc_ends.
  intros x y Hxy. apply in_app_or in Hxy. destruct Hxy; [apply HA | apply HP]; assumption.
Qed.

(* ------------------------------------------------------------------------------------------- *)
(* removal of a set of transactions: filter by a boolean predicate *)
Definition rm_set (s : nat -> bool) (R : rel) : rel := filter (fun e => negb (s (fst e)) && negb (s (snd e))) R.

Lemma rm_set_In s R a d : In (a, d) (rm_set s R) <-> In (a, d) R /\ s a = false /\ s d = false.
Proof.
  unfold rm_set. rewrite filter_In. simpl. rewrite andb_true_iff, !negb_true_iff. tauto.
Qed.

Lemma rm_rel_rm_set x R : rm_rel x R = rm_set (fun y => Nat.eqb y x) R.
Proof. reflexivity. Qed.

Lemma rm_rel_In x R a d : In (a, d) (rm_rel x R) <-> In (a, d) R /\ a <> x /\ d <> x.
Proof. rewrite rm_rel_rm_set, rm_set_In, !Nat.eqb_neq. tauto. Qed.

Lemma rm_set_trans s R : trans R -> trans (rm_set s R).
Proof.
  intros T a b c H1 H2. apply rm_set_In in H1. apply rm_set_In in H2. apply rm_set_In.
  destruct H1 as [H1 [Ha _]], H2 as [H2 [_ Hc]]. split; [eapply T; eauto | auto].
Qed.

Lemma rm_rel_trans x R : trans R -> trans (rm_rel x R).
Proof. rewrite rm_rel_rm_set. apply rm_set_trans. Qed.

Lemma rm_set_ends s R S : ends_in R S -> ends_in (rm_set s R) (fun y => S y /\ s y = false).
Proof.
  intros H a d Hin. apply rm_set_In in Hin. destruct Hin as [Hin [Ha Hd]]. destruct (H _ _ Hin). auto.
Qed.

(* the set is closed forwards (all descendants of members are members) or backwards *)
Definition fwd_closed (E : rel) (s : nat -> bool) : Prop := forall a d, In (a, d) E -> s a = true -> s d = true.
Definition bwd_closed (E : rel) (s : nat -> bool) : Prop := forall a d, In (a, d) E -> s d = true -> s a = true.

Lemma tc_fwd E s a d : fwd_closed E s -> tc E a d -> s a = true -> s d = true.
Proof. intros F T. induction T as [x y H | x y z _ IH1 _ IH2]; [apply (F _ _ H) | auto]. Qed.
Lemma tc_bwd E s a d : bwd_closed E s -> tc E a d -> s d = true -> s a = true.
Proof. intros F T. induction T as [x y H | x y z _ IH1 _ IH2]; [apply (F _ _ H) | auto]. Qed.

(* a path between two kept transactions never needs a removed one, when the removed set is closed
   under descendants or under ancestors: this is the header's "If together with any transaction
   removal all its descendants, or all its ancestors, are removed as well ... this reordering will not
   affect the behavior of TxGraph" *)
Lemma tc_avoid E s a d :
  fwd_closed E s \/ bwd_closed E s -> tc E a d -> s a = false -> s d = false -> tc (rm_set s E) a d.
Proof.
  intros C T. apply clos_trans_t1n in T.
  induction T as [x y H | x y z H T IH]; intros Hx Hz.
  - apply t_step. apply rm_set_In. auto.
  - destruct (s y) eqn:Hy.
    + exfalso. destruct C as [F | B].
      * apply clos_t1n_trans in T. pose proof (tc_fwd _ _ _ _ F T Hy). congruence.
      * pose proof (B _ _ H Hy). congruence.
    + eapply t_trans; [apply t_step; apply rm_set_In; eauto | apply IH; auto].
Qed.

Lemma rm_set_app s A P : rm_set s (A ++ P) = rm_set s A ++ rm_set s P.
Proof. unfold rm_set. apply filter_app. Qed.

Lemma tc_rm_set_sub E s a d : tc (rm_set s E) a d -> tc E a d /\ s a = false /\ s d = false.
Proof.
  intros T. split.
  - revert T. apply tc_incl. intros [x y] H. apply rm_set_In in H. tauto.
  - assert (H : ends_in (rm_set s E) (fun y => s y = false)).
    { intros x y Hxy. apply rm_set_In in Hxy. tauto. }
    apply (tc_ends _ _ _ _ H T).
Qed.

(* removing a closed set commutes with applying the pending dependencies *)
Theorem apply_deps_rm_set A P s a d :
  trans A -> fwd_closed (A ++ P) s \/ bwd_closed (A ++ P) s ->
  (In (a, d) (apply_deps (rm_set s A) (rm_set s P)) <-> In (a, d) (rm_set s (apply_deps A P))).
Proof.
  intros T C. rewrite apply_deps_tc by (apply rm_set_trans; exact T).
  rewrite rm_set_In, apply_deps_tc by exact T. rewrite <- rm_set_app. split.
  - apply tc_rm_set_sub.
  - intros [H [Ha Hd]]. apply tc_avoid; assumption.
Qed.

(* closedness with respect to the would-be relation is closedness with respect to its raw edges *)
Lemma fwd_closed_tc E s : fwd_closed E s -> forall a d, tc E a d -> s a = true -> s d = true.
Proof. intros F a d. apply tc_fwd. exact F. Qed.

Lemma fwd_closed_would A P s : trans A ->
  (forall a d, In (a, d) (apply_deps A P) -> s a = true -> s d = true) -> fwd_closed (A ++ P) s.
Proof.
  intros T H a d Hin. apply H. apply apply_deps_tc; [exact T |]. apply t_step. exact Hin.
Qed.
Lemma bwd_closed_would A P s : trans A ->
  (forall a d, In (a, d) (apply_deps A P) -> s d = true -> s a = true) -> bwd_closed (A ++ P) s.
Proof.
  intros T H a d Hin. apply H. apply apply_deps_tc; [exact T |]. apply t_step. exact Hin.
Qed.

(* several single removals = one set removal *)
Lemma rm_set_rm_set s t R : rm_set s (rm_set t R) = rm_set (fun y => t y || s y) R.
Proof.
  unfold rm_set. induction R as [| e R IH]; simpl; [reflexivity |].
  destruct (t (fst e)) eqn:E1; simpl; [exact IH |].
  destruct (t (snd e)) eqn:E2; simpl.
  - rewrite andb_false_r. exact IH.
  - destruct (negb (s (fst e)) && negb (s (snd e))) eqn:E3; rewrite IH; reflexivity.
Qed.

Lemma rm_set_ext s t R : (forall y, s y = t y) -> rm_set s R = rm_set t R.
Proof. intros H. unfold rm_set. apply filter_ext. intros e. rewrite !H. reflexivity. Qed.

Lemma rm_set_none R : rm_set (fun _ => false) R = R.
Proof. unfold rm_set. induction R as [| e R IH]; simpl; [reflexivity | f_equal; exact IH]. Qed.
