(* ConnectBlock / DisconnectBlock of model/Ledger.v: extensional descriptions of every pass over the
   view, and the exact-inverse theorem (C09 core). *)
From BV Require Import lib.Ints gen.Params_gen model.Amount model.Ledger proofs.LedgerMap.
From BV Require model.TxCheck proofs.TxCheckLemmas.
Local Open Scope Z_scope.

(* coins that can be in a view of a chain above genesis: value in range, created at a height > 0 *)
Definition coin_ok (c : coin) : Prop := 0 <= c_value c <= MAX_MONEY /\ 0 < c_height c.
Definition wf_utxo (u : utxo) : Prop := sorted u /\ all_coins coin_ok u.

Lemma wf_nil : wf_utxo [].
Proof. split; [exact I|apply all_coins_nil]. Qed.

(* ------------------------------------------------------------------------------------------ *)
(* new_coins *)
Lemma new_coins_keys txid h cb n outs k :
  In k (map fst (new_coins txid h cb n outs)) -> fst k = txid /\ n <= snd k < n + Z.of_nat (length outs).
Proof.
  revert n. induction outs as [|o r IH]; intros n; cbn [new_coins map In length]; [tauto|].
  rewrite map_app, in_app_iff. intros [H|H].
  - destruct (o_spendable o); cbn in H; [|tauto]. destruct H as [<-|[]]. cbn [fst snd]. lia.
  - apply IH in H. lia.
Qed.
Lemma new_coins_lookup_range txid h cb n outs k c :
  lookup (new_coins txid h cb n outs) k = Some c -> fst k = txid /\ n <= snd k < n + Z.of_nat (length outs).
Proof. intros H. apply lookup_some_key in H. apply new_coins_keys in H. exact H. Qed.
Lemma new_coins_lookup_below txid h cb n outs m : m < n -> lookup (new_coins txid h cb n outs) (txid, m) = None.
Proof.
  intros Hm. destruct (lookup _ _) eqn:E; [|reflexivity]. apply new_coins_lookup_range in E. cbn [snd] in E. lia.
Qed.
Lemma new_coins_cons txid h cb n o r k :
  lookup (new_coins txid h cb n (o :: r)) k =
  if o_spendable o && oeqb k (txid, n) then Some (mk_coin o h cb) else lookup (new_coins txid h cb (n + 1) r) k.
Proof.
  cbn [new_coins]. destruct (o_spendable o); cbn [app andb]; [|reflexivity].
  cbn [lookup]. reflexivity.
Qed.
Lemma new_coins_coin_ok txid h cb n outs k c :
  (forall o, In o outs -> 0 <= o_value o <= MAX_MONEY) -> 0 < h ->
  lookup (new_coins txid h cb n outs) k = Some c -> coin_ok c.
Proof.
  intros Hv Hh. revert n. induction outs as [|o r IH]; intros n; [cbn; discriminate|].
  rewrite new_coins_cons. destruct (o_spendable o && oeqb k (txid, n)).
  - intros H. injection H as <-. split; cbn; [apply Hv; left; reflexivity|exact Hh].
  - apply IH. intros o' Ho'. apply Hv. right. exact Ho'.
Qed.
(* every created coin is one of the transaction's spendable outputs *)
Lemma new_coins_origin txid h cb n outs k c :
  lookup (new_coins txid h cb n outs) k = Some c ->
  exists o, In o outs /\ o_spendable o = true /\ c = mk_coin o h cb.
Proof.
  revert n. induction outs as [|o r IH]; intros n; [cbn; discriminate|].
  rewrite new_coins_cons. destruct (o_spendable o) eqn:Es; cbn [andb].
  - destruct (oeqb k (txid, n)).
    + intros H. injection H as <-. exists o. split; [left; reflexivity|split; [exact Es|reflexivity]].
    + intros H. destruct (IH _ H) as [o' [Hi Ho]]. exists o'. split; [right; exact Hi|exact Ho].
  - intros H. destruct (IH _ H) as [o' [Hi Ho]]. exists o'. split; [right; exact Hi|exact Ho].
Qed.
Lemma out_points_in txid n outs k :
  In k (out_points txid n outs) <-> fst k = txid /\ n <= snd k < n + Z.of_nat (length outs).
Proof.
  revert n. induction outs as [|o r IH]; intros n; cbn [out_points In length].
  - split; [tauto|lia].
  - rewrite IH. destruct k as [k1 k2]. cbn [fst snd]. split.
    + intros [H|H]; [injection H as <- <-; lia|lia].
    + intros [H1 H2]. destruct (Z.eq_dec k2 n) as [->|Hn]; [left; subst; reflexivity|right; lia].
Qed.
Lemma any_output_exists_false u txid n outs :
  any_output_exists u txid n outs = false <-> (forall k, In k (out_points txid n outs) -> lookup u k = None).
Proof.
  revert n. induction outs as [|o r IH]; intros n; cbn [any_output_exists out_points In].
  - split; [intros _ k []|reflexivity].
  - rewrite orb_false_iff, IH. unfold have_coin. split.
    + intros [H1 H2] k [<-|Hk]; [destruct (lookup u (txid, n)); [discriminate|reflexivity]|apply H2; exact Hk].
    + intros H. split; [rewrite (H (txid, n)) by (left; reflexivity); reflexivity|intros k Hk; apply H; right; exact Hk].
Qed.
Lemma new_coins_in_out_points txid h cb n outs k c :
  lookup (new_coins txid h cb n outs) k = Some c -> In k (out_points txid n outs).
Proof. intros H. apply out_points_in. apply (new_coins_lookup_range _ _ _ _ _ _ _ H). Qed.

(* ------------------------------------------------------------------------------------------ *)
(* AddCoins *)
Lemma add_outputs_spec u txid h cb n outs u2 :
  sorted u -> add_outputs u txid h cb n outs = Some u2 ->
  sorted u2 /\
  (forall k, lookup u2 k = match lookup (new_coins txid h cb n outs) k with Some c => Some c | None => lookup u k end) /\
  (cb = false -> forall k c, lookup (new_coins txid h cb n outs) k = Some c -> lookup u k = None).
Proof.
  revert u n. induction outs as [|o r IH]; intros u n Hs; cbn [add_outputs].
  - intros H. injection H as <-. split; [exact Hs|]. split; [intros k; reflexivity|intros _ k c; cbn; discriminate].
  - destruct (o_spendable o) eqn:Es; cbn [negb].
    + destruct (have_coin u (txid, n) && negb cb) eqn:Eo; [discriminate|].
      intros H. destruct (IH _ _ (sorted_add _ _ _ Hs) H) as [S2 [L2 F2]]. split; [exact S2|]. split.
      * intros k. rewrite new_coins_cons, Es. cbn [andb]. rewrite L2, lookup_add.
        destruct (oeqb k (txid, n)) eqn:Ek; [|reflexivity].
        apply oeqb_eq in Ek. subst k. rewrite new_coins_lookup_below by lia. reflexivity.
      * intros Hcb k c. rewrite new_coins_cons, Es. cbn [andb]. subst cb. cbn [negb] in Eo. rewrite andb_true_r in Eo.
        destruct (oeqb k (txid, n)) eqn:Ek.
        -- apply oeqb_eq in Ek. subst k. intros _. unfold have_coin in Eo. destruct (lookup u (txid, n)); [discriminate|reflexivity].
        -- intros Hk. specialize (F2 eq_refl k c Hk). rewrite lookup_add, Ek in F2. exact F2.
    + intros H. destruct (IH _ _ Hs H) as [S2 [L2 F2]]. split; [exact S2|]. split.
      * intros k. rewrite new_coins_cons, Es. cbn [andb]. apply L2.
      * intros Hcb k c. rewrite new_coins_cons, Es. cbn [andb]. apply F2. exact Hcb.
Qed.

(* the outputs pass of DisconnectBlock *)
Lemma remove_outputs_spec exc u txid h cb n outs u' cl :
  sorted u -> remove_outputs exc u txid h cb n outs = (u', cl) ->
  sorted u' /\
  (forall k, lookup u' k = if is_some (lookup (new_coins txid h cb n outs) k) then None else lookup u k) /\
  ((forall k c, lookup (new_coins txid h cb n outs) k = Some c -> lookup u k = Some c) -> cl = true).
Proof.
  revert u n u' cl. induction outs as [|o r IH]; intros u n u' cl Hs; cbn [remove_outputs].
  - intros H. injection H as <- <-. split; [exact Hs|]. split; [intros k; reflexivity|reflexivity].
  - destruct (o_spendable o) eqn:Es; cbn [negb].
    + destruct (remove_outputs exc (remove u (txid, n)) txid h cb (n + 1) r) as [u1 cl1] eqn:E1.
      intros H. injection H as <- <-.
      destruct (IH _ _ _ _ (sorted_remove _ _ Hs) E1) as [S1 [L1 C1]]. split; [exact S1|]. split.
      * intros k. rewrite new_coins_cons, Es. cbn [andb]. rewrite L1, lookup_remove by exact Hs.
        destruct (oeqb k (txid, n)) eqn:Ek; cbn [is_some]; [|reflexivity].
        destruct (is_some _); reflexivity.
      * intros Hall. rewrite C1.
        -- pose proof (Hall (txid, n) (mk_coin o h cb)) as Hk. rewrite new_coins_cons, Es, oeqb_refl in Hk.
           rewrite (Hk eq_refl). cbn [mk_coin c_value c_height c_cb]. rewrite !Z.eqb_refl, Bool.eqb_reflx. reflexivity.
        -- intros k c Hk. assert (Hne : k <> (txid, n)).
           { intros ->. rewrite new_coins_lookup_below in Hk by lia. discriminate. }
           rewrite lookup_remove_neq by exact Hne. apply Hall. rewrite new_coins_cons, Es. cbn [andb].
           apply oeqb_neq in Hne. rewrite Hne. exact Hk.
    + intros H. destruct (IH _ _ _ _ Hs H) as [S1 [L1 C1]]. split; [exact S1|]. split.
      * intros k. rewrite new_coins_cons, Es. cbn [andb]. apply L1.
      * intros Hall. apply C1. intros k c Hk. apply Hall. rewrite new_coins_cons, Es. cbn [andb]. exact Hk.
Qed.

Lemma outputs_roundtrip exc u txid h cb n outs u2 :
  sorted u -> add_outputs u txid h cb n outs = Some u2 ->
  (forall k c, lookup (new_coins txid h cb n outs) k = Some c -> lookup u k = None) ->
  remove_outputs exc u2 txid h cb n outs = (u, true).
Proof.
  intros Hs Ha Hf. destruct (add_outputs_spec _ _ _ _ _ _ _ Hs Ha) as [S2 [L2 _]].
  destruct (remove_outputs exc u2 txid h cb n outs) as [u' cl] eqn:E.
  destruct (remove_outputs_spec _ _ _ _ _ _ _ _ _ S2 E) as [S' [L' C']]. f_equal.
  - apply sorted_ext; [exact S'|exact Hs|]. intros k. rewrite L', L2.
    destruct (lookup (new_coins txid h cb n outs) k) eqn:Ek; cbn [is_some]; [symmetry; apply (Hf _ _ Ek)|reflexivity].
  - apply C'. intros k c Hk. rewrite L2, Hk. reflexivity.
Qed.

(* ------------------------------------------------------------------------------------------ *)
(* spending the inputs / restoring them *)
Lemma spend_inputs_spec u ins u1 cs :
  sorted u -> spend_inputs u ins = Some (u1, cs) ->
  sorted u1 /\ NoDup (map i_prev ins) /\
  (forall k, lookup u1 k = if existsb (oeqb k) (map i_prev ins) then None else lookup u k) /\
  Forall2 (fun i c => lookup u (i_prev i) = Some c) ins cs /\
  total u1 = total u - zsum (map c_value cs).
Proof.
  revert u u1 cs. induction ins as [|i r IH]; intros u u1 cs Hs; cbn [spend_inputs].
  - intros H. injection H as <- <-. split; [exact Hs|]. split; [constructor|]. split; [intros k; reflexivity|].
    split; [constructor|cbn; lia].
  - destruct (lookup u (i_prev i)) as [c|] eqn:El; [|discriminate].
    destruct (spend_inputs (remove u (i_prev i)) r) as [[u' cs']|] eqn:Er; [|discriminate].
    intros H. injection H as <- <-.
    destruct (IH _ _ _ (sorted_remove _ _ Hs) Er) as [S1 [ND [L1 [F1 T1]]]].
    assert (Hni : ~ In (i_prev i) (map i_prev r)).
    { intros Hin. apply in_map_iff in Hin. destruct Hin as [j [Ej Hj]].
      clear -F1 Hj Ej Hs. induction F1 as [|x y l l' Hxy F IHF]; [destruct Hj|].
      destruct Hj as [->|Hj]; [|apply IHF; exact Hj].
      rewrite Ej, lookup_remove_eq in Hxy by exact Hs. discriminate. }
    split; [exact S1|]. split; [cbn [map]; constructor; assumption|]. split; [|split].
    + intros k. cbn [map existsb]. rewrite L1, lookup_remove by exact Hs.
      destruct (oeqb k (i_prev i)); cbn [orb]; [destruct (existsb _ _); reflexivity|reflexivity].
    + constructor; [exact El|]. clear -F1 Hni Hs. induction F1 as [|x y l l' Hxy F IHF]; [constructor|].
      constructor.
      * rewrite lookup_remove_neq in Hxy; [exact Hxy|]. intros E. apply Hni. cbn [map]. left. exact E.
      * apply IHF. intros Hin. apply Hni. cbn [map]. right. exact Hin.
    + rewrite T1, total_remove, El. cbn [map zsum val_of]. lia.
Qed.

Lemma restore_inputs_roundtrip u ins u1 cs :
  sorted u -> all_coins (fun c => c_height c <> 0) u ->
  spend_inputs u ins = Some (u1, cs) -> restore_inputs u1 ins cs = Some (u, true).
Proof.
  revert u u1 cs. induction ins as [|i r IH]; intros u u1 cs Hs Hh; cbn [spend_inputs].
  - intros H. injection H as <- <-. reflexivity.
  - destruct (lookup u (i_prev i)) as [c|] eqn:El; [|discriminate].
    destruct (spend_inputs (remove u (i_prev i)) r) as [[u' cs']|] eqn:Er; [|discriminate].
    intros H. injection H as <- <-. cbn [restore_inputs].
    rewrite (IH _ _ _ (sorted_remove _ _ Hs) (all_coins_remove _ _ _ Hs Hh) Er).
    unfold apply_txin_undo, have_coin. rewrite lookup_remove_eq by exact Hs. cbn [is_some negb].
    assert (c_height c =? 0 = false) by (apply Z.eqb_neq; apply (Hh _ _ El)). rewrite H.
    rewrite add_remove by assumption. reflexivity.
Qed.

(* ------------------------------------------------------------------------------------------ *)
(* UpdateCoins *)
Lemma tx_creates_coin_ok t h k c :
  (forall o, In o (t_out t) -> 0 <= o_value o <= MAX_MONEY) -> 0 < h ->
  lookup (tx_creates t h) k = Some c -> coin_ok c.
Proof. unfold tx_creates. apply new_coins_coin_ok. Qed.

Lemma update_coins_spec u t h u2 spent :
  sorted u -> update_coins u t h = Ok (u2, spent) ->
  sorted u2 /\
  NoDup (tx_spends t) /\
  (forall k, lookup u2 k = match lookup (tx_creates t h) k with
                           | Some c => Some c
                           | None => if existsb (oeqb k) (tx_spends t) then None else lookup u k
                           end) /\
  Forall2 (fun o c => lookup u o = Some c) (tx_spends t) spent /\
  (is_cb t = false -> forall k c, lookup (tx_creates t h) k = Some c ->
                                  existsb (oeqb k) (tx_spends t) = true \/ lookup u k = None).
Proof.
  intros Hs. unfold update_coins, tx_spends, tx_creates. destruct (is_cb t) eqn:Ecb.
  - destruct (add_outputs u (t_id t) h true 0 (t_out t)) as [u2'|] eqn:Ea; [|discriminate].
    intros H. injection H as <- <-. destruct (add_outputs_spec _ _ _ _ _ _ _ Hs Ea) as [S2 [L2 _]].
    split; [exact S2|]. split; [constructor|]. split; [intros k; rewrite L2; cbn [existsb]; reflexivity|].
    split; [constructor|discriminate].
  - destruct (spend_inputs u (t_in t)) as [[u1 cs]|] eqn:Esp; [|discriminate].
    destruct (add_outputs u1 (t_id t) h false 0 (t_out t)) as [u2'|] eqn:Ea; [|discriminate].
    intros H. injection H as <- <-.
    destruct (spend_inputs_spec _ _ _ _ Hs Esp) as [S1 [ND [L1 [F1 _]]]].
    destruct (add_outputs_spec _ _ _ _ _ _ _ S1 Ea) as [S2 [L2 F2]].
    split; [exact S2|]. split; [exact ND|]. split; [|split].
    + intros k. rewrite L2, L1. reflexivity.
    + clear -F1. induction F1; cbn [map]; constructor; assumption.
    + intros _ k c Hk. specialize (F2 eq_refl k c Hk). rewrite L1 in F2.
      destruct (existsb (oeqb k) (map i_prev (t_in t))); [left; reflexivity|right; exact F2].
Qed.

Lemma existsb_oeqb_in k l : existsb (oeqb k) l = true <-> In k l.
Proof.
  rewrite existsb_exists. split.
  - intros [x [Hx E]]. apply oeqb_eq in E. subst. exact Hx.
  - intros H. exists k. split; [exact H|apply oeqb_refl].
Qed.

Lemma update_coins_wf u t h u2 spent :
  wf_utxo u -> 0 < h -> (forall o, In o (t_out t) -> 0 <= o_value o <= MAX_MONEY) ->
  update_coins u t h = Ok (u2, spent) -> wf_utxo u2.
Proof.
  intros [Hs Hc] Hh Hv Hu. destruct (update_coins_spec _ _ _ _ _ Hs Hu) as [S2 [_ [L2 _]]].
  split; [exact S2|]. intros k c. rewrite L2. destruct (lookup (tx_creates t h) k) eqn:Ek.
  - intros H. injection H as <-. apply (tx_creates_coin_ok _ _ _ _ Hv Hh Ek).
  - destruct (existsb _ _); [discriminate|apply Hc].
Qed.

Lemma coin_ok_height u : all_coins coin_ok u -> all_coins (fun c => c_height c <> 0) u.
Proof. intros H o c Hl. destruct (H o c Hl) as [_ Hh]. lia. Qed.

(* undoing one non-coinbase transaction *)
Lemma disconnect_tx_roundtrip cf u t h u2 spent :
  wf_utxo u -> is_cb t = false -> update_coins u t h = Ok (u2, spent) ->
  disconnect_tx cf u2 t spent h = Some (u, true).
Proof.
  intros [Hs Hc] Ecb. unfold update_coins, disconnect_tx. rewrite Ecb. cbn [andb].
  destruct (spend_inputs u (t_in t)) as [[u1 cs]|] eqn:Esp; [|discriminate].
  destruct (add_outputs u1 (t_id t) h false 0 (t_out t)) as [u2'|] eqn:Ea; [|discriminate].
  intros H. injection H as <- <-.
  destruct (spend_inputs_spec _ _ _ _ Hs Esp) as [S1 _].
  destruct (add_outputs_spec _ _ _ _ _ _ _ S1 Ea) as [_ [_ F2]].
  rewrite (outputs_roundtrip false _ _ _ _ _ _ _ S1 Ea (F2 eq_refl)).
  rewrite (restore_inputs_roundtrip _ _ _ _ Hs (coin_ok_height _ Hc) Esp). reflexivity.
Qed.

(* ------------------------------------------------------------------------------------------ *)
(* CheckBlock facts *)
Lemma to_txcheck_is_cb t : TxCheck.is_coinbase (to_txcheck t) = is_cb t.
Proof.
  unfold TxCheck.is_coinbase, is_cb, to_txcheck. cbn [TxCheck.vin]. destruct (t_in t) as [|i [|j r]]; reflexivity.
Qed.

Lemma check_transaction_none_facts t :
  TxCheck.check_transaction (to_txcheck t) = None ->
  t_in t <> [] /\ NoDup (map i_prev (t_in t)) /\
  (forall o, In o (t_out t) -> 0 <= o_value o <= MAX_MONEY) /\ 0 <= sum_out t <= MAX_MONEY.
Proof.
  unfold TxCheck.check_transaction. cbn [to_txcheck TxCheck.vin TxCheck.vout].
  destruct (t_in t) as [|i0 ri] eqn:Ein; [discriminate|]. rewrite <- Ein.
  destruct (map (fun i => _) (t_in t)) as [|x xs] eqn:Em; [rewrite Ein in Em; discriminate|]. rewrite <- Em.
  destruct (map (fun o => _) (t_out t)) as [|y ys] eqn:Eo; [discriminate|]. rewrite <- Eo.
  destruct (_ >? _); [discriminate|].
  destruct (TxCheck.check_outputs 0 _) eqn:Eco; [discriminate|].
  destruct (TxCheck.has_dup_from [] _) eqn:Ed; [discriminate|]. intros _.
  split; [rewrite Ein; discriminate|]. split.
  - apply TxCheckLemmas.has_dup_false_iff in Ed. rewrite map_map in Ed. unfold TxCheck.outpoint in Ed. cbn in Ed.
    clear -Ed. remember (t_in t) as l. clear Heql. induction l as [|a l IH]; [constructor|].
    cbn [map] in *. inversion Ed as [|? ? Hn Hd]; subst. constructor; [|apply IH; exact Hd].
    intros Hin. apply Hn. apply in_map_iff in Hin. destruct Hin as [j [Ej Hj]]. apply in_map_iff. exists j.
    split; [rewrite Ej; reflexivity|exact Hj].
  - pose proof TxCheckLemmas.max_money_21M as MM.
    rewrite TxCheckLemmas.check_outputs_eq in Eco by (rewrite <- MM; vm_compute; split; discriminate).
    apply TxCheckLemmas.first_output_violation_none in Eco; [|rewrite <- MM; vm_compute; split; discriminate].
    destruct Eco as [Hv Hsum]. rewrite <- MM in *.
    assert (Hv' : forall o, In o (t_out t) -> 0 <= o_value o <= MAX_MONEY).
    { intros o Ho. specialize (Hv {| TxCheck.value := o_value o; TxCheck.spk_len := 1 |}). cbn in Hv. apply Hv.
      apply in_map_iff. exists o. split; [reflexivity|exact Ho]. }
    split; [exact Hv'|]. rewrite map_map in Hsum. cbn in Hsum. unfold sum_out.
    split; [|exact Hsum]. clear -Hv'. induction (t_out t) as [|o r IH]; cbn [map zsum]; [lia|].
    assert (0 <= o_value o <= MAX_MONEY) by (apply Hv'; left; reflexivity).
    assert (0 <= zsum (map o_value r)) by (apply IH; intros o' Ho'; apply Hv'; right; exact Ho'). lia.
Qed.

Definition tx_ok (t : ltx) : Prop :=
  t_in t <> [] /\ NoDup (map i_prev (t_in t)) /\
  (forall o, In o (t_out t) -> 0 <= o_value o <= MAX_MONEY) /\ 0 <= sum_out t <= MAX_MONEY.

Lemma first_tx_error_none l : first_tx_error l = None -> Forall tx_ok l.
Proof.
  induction l as [|t r IH]; cbn [first_tx_error]; [constructor|].
  destruct (TxCheck.check_transaction (to_txcheck t)) eqn:E; [discriminate|].
  intros H. constructor; [apply check_transaction_none_facts; exact E|apply IH; exact H].
Qed.

Lemma check_block_none b :
  check_block b = None ->
  exists cbt rest, b = cbt :: rest /\ is_cb cbt = true /\ Forall (fun t => is_cb t = false) rest /\ Forall tx_ok b.
Proof.
  unfold check_block. destruct b as [|cbt rest]; [discriminate|].
  destruct (is_cb cbt) eqn:Ec; cbn [negb]; [|discriminate].
  destruct (existsb is_cb rest) eqn:Ee; [discriminate|]. intros H.
  exists cbt, rest. split; [reflexivity|]. split; [exact Ec|]. split; [|apply first_tx_error_none; exact H].
  apply Forall_forall. intros t Ht. destruct (is_cb t) eqn:E; [|reflexivity].
  assert (existsb is_cb rest = true) by (apply existsb_exists; exists t; split; assumption). congruence.
Qed.

(* ------------------------------------------------------------------------------------------ *)
(* the loop *)
Lemma tx_loop_cons cf h first u fees sf t r res :
  tx_loop cf h first u fees sf (t :: r) = Ok res ->
  exists fees' u1 spent u2 f s undo,
    tx_fees u t h fees = Ok fees' /\
    (scripts_ok cf t = true \/ cf_par cf = true) /\
    update_coins u t h = Ok (u1, spent) /\
    tx_loop cf h false u1 fees' (sf || negb (scripts_ok cf t)) r = Ok (u2, f, s, undo) /\
    res = (u2, f, s, if first then undo else spent :: undo).
Proof.
  cbn [tx_loop]. destruct (tx_fees u t h fees) as [fees'|] eqn:Ef; [|discriminate].
  destruct (negb (scripts_ok cf t) && negb (cf_par cf)) eqn:Es; [discriminate|].
  destruct (update_coins u t h) as [[u1 spent]|] eqn:Eu; [|discriminate].
  destruct (tx_loop cf h false u1 fees' _ r) as [[[[u2 f] s] undo]|] eqn:El; [|discriminate].
  intros H. injection H as <-. exists fees', u1, spent, u2, f, s, undo.
  split; [reflexivity|]. split.
  { destruct (scripts_ok cf t); [left; reflexivity|]. destruct (cf_par cf); [right; reflexivity|discriminate]. }
  split; [reflexivity|]. split; [exact El|reflexivity].
Qed.

(* the loop over the transactions after the coinbase, undone by disconnect_txs *)
Lemma tx_loop_roundtrip cf h txs : forall u fees sf u' f s undo,
  wf_utxo u -> 0 < h -> Forall (fun t => is_cb t = false) txs -> Forall tx_ok txs ->
  tx_loop cf h false u fees sf txs = Ok (u', f, s, undo) ->
  wf_utxo u' /\ length undo = length txs /\ disconnect_txs cf u' txs undo h = Some (u, true).
Proof.
  induction txs as [|t r IH]; intros u fees sf u' f s undo Hwf Hh Hncb Hok.
  - cbn [tx_loop]. intros H. injection H as <- <- <- <-. split; [exact Hwf|]. split; reflexivity.
  - intros H. apply tx_loop_cons in H. destruct H as [fees' [u1 [spent [u2 [f2 [s2 [undo2 [Hf [_ [Hu [Hl Hres]]]]]]]]]]].
    cbn in Hres. injection Hres as -> -> -> ->.
    inversion Hncb as [|? ? Hcb Hncb']; subst. inversion Hok as [|? ? Htok Hok']; subst.
    destruct Htok as [_ [_ [Hv _]]].
    pose proof (update_coins_wf _ _ _ _ _ Hwf Hh Hv Hu) as Hwf1.
    destruct (IH _ _ _ _ _ _ _ Hwf1 Hh Hncb' Hok' Hl) as [Hwf2 [Hlen Hd]].
    split; [exact Hwf2|]. split; [cbn [length]; rewrite Hlen; reflexivity|].
    cbn [disconnect_txs]. rewrite Hd. rewrite (disconnect_tx_roundtrip cf _ _ _ _ _ Hwf Hcb Hu). reflexivity.
Qed.

Lemma bip30_not_violated u b t :
  bip30_violated u b = false -> In t b -> forall k, In k (tx_outpoints t) -> lookup u k = None.
Proof.
  unfold bip30_violated. intros H Ht. destruct (any_output_exists u (t_id t) 0 (t_out t)) eqn:E.
  - assert (existsb (fun t => any_output_exists u (t_id t) 0 (t_out t)) b = true).
    { apply existsb_exists. exists t. split; assumption. } congruence.
  - apply any_output_exists_false. exact E.
Qed.

Lemma connect_block_inv cf u b h u' undo :
  connect_block cf u b h = Ok (u', undo) ->
  check_block b = None /\ (cf_bip30 cf = true -> bip30_violated u b = false) /\
  exists fees sf cb_out,
    tx_loop cf h true u 0 false b = Ok (u', fees, sf, undo) /\
    (exists cbt rest, b = cbt :: rest /\ get_value_out cbt = Some cb_out) /\
    cb_out <= wrap64 (fees + get_block_subsidy (cf_interval cf) h) /\ sf = false.
Proof.
  unfold connect_block. destruct (check_block b) eqn:Ecb; [discriminate|].
  destruct (cf_bip30 cf && bip30_violated u b) eqn:Eb; [discriminate|].
  destruct (tx_loop cf h true u 0 false b) as [[[[u2 fees] sf] undo2]|] eqn:El; [|discriminate].
  destruct b as [|cbt rest]; [discriminate|].
  destruct (get_value_out cbt) as [cb_out|] eqn:Ev; [|discriminate].
  destruct (cb_out >? _) eqn:Ea; [discriminate|]. destruct sf; [discriminate|].
  intros H. injection H as <- <-. split; [reflexivity|]. split.
  { intros Hb. rewrite Hb in Eb. exact Eb. }
  exists fees, false, cb_out. split; [reflexivity|]. split; [exists cbt, rest; split; [reflexivity|exact Ev]|].
  split; [lia|reflexivity].
Qed.

(* C09, one block: DisconnectBlock is the exact inverse of ConnectBlock on the map *)
Theorem disconnect_connect cf u b h u' undo :
  wf_utxo u -> 0 < h -> bip30_violated u b = false ->
  connect_block cf u b h = Ok (u', undo) ->
  disconnect_block cf u' b undo h = dr_ok u.
Proof.
  intros Hwf Hh Hb Hc. apply connect_block_inv in Hc. destruct Hc as [Hcb [_ [fees [sf [cb_out [Hl _]]]]]].
  destruct (check_block_none _ Hcb) as [cbt [rest [-> [Ecb [Hncb Hok]]]]].
  apply tx_loop_cons in Hl. destruct Hl as [fees' [u1 [spent [u2 [f2 [s2 [undo2 [_ [_ [Hu [Hl Hres]]]]]]]]]]].
  cbn in Hres. injection Hres as -> -> -> ->.
  inversion Hok as [|? ? Hcbok Hok']; subst. destruct Hcbok as [_ [_ [Hv _]]].
  pose proof (update_coins_wf _ _ _ _ _ Hwf Hh Hv Hu) as Hwf1.
  destruct (tx_loop_roundtrip _ _ _ _ _ _ _ _ _ _ Hwf1 Hh Hncb Hok' Hl) as [Hwf2 [Hlen Hd]].
  unfold disconnect_block. rewrite Hlen, Nat.eqb_refl. cbn [negb]. rewrite Hd.
  (* the coinbase outputs *)
  unfold update_coins in Hu. rewrite Ecb in Hu.
  destruct (add_outputs u (t_id cbt) h true 0 (t_out cbt)) as [u1'|] eqn:Ea; [|discriminate].
  injection Hu as <- <-. rewrite Ecb.
  rewrite (outputs_roundtrip _ u _ _ _ _ _ _ (proj1 Hwf) Ea).
  - reflexivity.
  - intros k c Hk. apply (bip30_not_violated _ _ cbt Hb (or_introl eq_refl)).
    apply (new_coins_in_out_points _ _ _ _ _ _ _ Hk).
Qed.

Lemma connect_block_wf cf u b h u' undo :
  wf_utxo u -> 0 < h -> connect_block cf u b h = Ok (u', undo) -> wf_utxo u'.
Proof.
  intros Hwf Hh Hc. apply connect_block_inv in Hc. destruct Hc as [Hcb [_ [fees [sf [cb_out [Hl _]]]]]].
  destruct (check_block_none _ Hcb) as [cbt [rest [-> [Ecb [Hncb Hok]]]]].
  apply tx_loop_cons in Hl. destruct Hl as [fees' [u1 [spent [u2 [f2 [s2 [undo2 [_ [_ [Hu [Hl Hres]]]]]]]]]]].
  cbn in Hres. injection Hres as -> -> -> ->.
  inversion Hok as [|? ? Hcbok Hok']; subst. destruct Hcbok as [_ [_ [Hv _]]].
  pose proof (update_coins_wf _ _ _ _ _ Hwf Hh Hv Hu) as Hwf1.
  apply (tx_loop_roundtrip _ _ _ _ _ _ _ _ _ _ Hwf1 Hh Hncb Hok' Hl).
Qed.
