(* CScriptNum: decode/encode round trip, minimality and uniqueness of the minimal encoding, operand
   ranges.  (model/Script.v: num_decode, num_encode, num_minimal, script_num) *)
From BV Require Import lib.Ints gen.Params_gen model.Script.
Local Open Scope Z_scope.

Definition byte_ok (b : Z) : Prop := 0 <= b < 256.
Definition bytes_ok (l : bytes) : Prop := Forall byte_ok l.

(* little-endian value of a digit string *)
Fixpoint le_decode (l : bytes) : Z := match l with [] => 0 | b :: r => b + 256 * le_decode r end.
(* the most significant (last) digit is not zero; vacuous for [] *)
Fixpoint last_nz (l : bytes) : Prop :=
  match l with [] => True | [b] => b <> 0 | _ :: t => last_nz t end.

Lemma le_decode_nonneg l : bytes_ok l -> 0 <= le_decode l.
Proof. induction 1 as [|b r Hb _ IH]; cbn [le_decode]; unfold byte_ok in *; lia. Qed.

Lemma le_decode_bound l : bytes_ok l -> le_decode l < 256 ^ Z.of_nat (length l).
Proof.
  induction 1 as [|b r Hb _ IH]; [cbn; lia|].
  change (length (b :: r)) with (S (length r)). rewrite Nat2Z.inj_succ, Z.pow_succ_r by lia.
  cbn [le_decode]. unfold byte_ok in Hb. lia.
Qed.

Lemma le_decode_lower l : bytes_ok l -> l <> [] -> last_nz l -> 256 ^ (Z.of_nat (length l) - 1) <= le_decode l.
Proof.
  induction 1 as [|b r Hb Hr IH]; [congruence|]. intros _ Hnz.
  destruct r as [|c r'].
  - simpl in *. unfold byte_ok in Hb. lia.
  - assert (Hl : last_nz (c :: r')) by exact Hnz.
    specialize (IH ltac:(discriminate) Hl).
    change (length (b :: c :: r')) with (S (length (c :: r'))). rewrite Nat2Z.inj_succ.
    replace (Z.succ (Z.of_nat (length (c :: r'))) - 1) with (Z.succ (Z.of_nat (length (c :: r')) - 1)) by lia.
    rewrite Z.pow_succ_r by (cbn [length]; lia).
    change (le_decode (b :: c :: r')) with (b + 256 * le_decode (c :: r')). unfold byte_ok in Hb. lia.
Qed.

(* --- le_bytes ------------------------------------------------------------------------------ *)
Lemma le_bytes_zero fuel : le_bytes fuel 0 = [].
Proof. destruct fuel; reflexivity. Qed.

Lemma le_bytes_step fuel a : 0 < a -> le_bytes (S fuel) a = (a mod 256) :: le_bytes fuel (a / 256).
Proof. intros H. simpl. destruct (a =? 0) eqn:E; [lia|reflexivity]. Qed.

(* enough fuel: the result does not depend on the fuel *)
Lemma le_bytes_stable f1 : forall f2 a, 0 <= a < 256 ^ Z.of_nat f1 -> (f1 <= f2)%nat -> le_bytes f1 a = le_bytes f2 a.
Proof.
  induction f1 as [|f1 IH]; intros f2 a Ha Hf.
  - simpl in Ha. assert (a = 0) by lia. subst. rewrite (le_bytes_zero f2). reflexivity.
  - destruct f2 as [|f2]; [lia|].
    destruct (Z.eq_dec a 0) as [->|Hnz]; [reflexivity|].
    rewrite !le_bytes_step by lia. f_equal. apply IH; [|lia].
    rewrite Nat2Z.inj_succ, Z.pow_succ_r in Ha by lia. split; [apply Z.div_pos; lia|].
    apply Z.div_lt_upper_bound; lia.
Qed.

Lemma le_bytes_of_decode l : forall fuel, bytes_ok l -> last_nz l -> (length l <= fuel)%nat ->
  le_bytes fuel (le_decode l) = l.
Proof.
  induction l as [|b r IH]; intros fuel Hok Hnz Hf.
  - simpl. apply le_bytes_zero.
  - inversion Hok as [|? ? Hb Hr]; subst.
    destruct fuel as [|fuel]; [simpl in Hf; lia|].
    assert (Hpos : 0 < le_decode (b :: r)).
    { pose proof (le_decode_lower (b :: r) Hok ltac:(discriminate) Hnz) as H.
      assert (0 < 256 ^ (Z.of_nat (length (b :: r)) - 1)) by (apply Z.pow_pos_nonneg; cbn [length]; lia). lia. }
    rewrite le_bytes_step by exact Hpos.
    cbn [le_decode]. unfold byte_ok in Hb.
    replace ((b + 256 * le_decode r) mod 256) with b by lia.
    replace ((b + 256 * le_decode r) / 256) with (le_decode r) by lia.
    f_equal. apply IH; [exact Hr| |simpl in Hf; lia].
    destruct r; [exact I|exact Hnz].
Qed.

Lemma le_bytes_spec fuel : forall a, 0 <= a < 256 ^ Z.of_nat fuel ->
  bytes_ok (le_bytes fuel a) /\ le_decode (le_bytes fuel a) = a /\ last_nz (le_bytes fuel a) /\ (0 < a -> le_bytes fuel a <> []).
Proof.
  induction fuel as [|fuel IH]; intros a Ha.
  - simpl in Ha. assert (a = 0) by lia. subst. simpl. repeat split; try constructor; lia.
  - destruct (Z.eq_dec a 0) as [->|Hnz].
    + simpl. repeat split; try constructor; lia.
    + rewrite le_bytes_step by lia.
      rewrite Nat2Z.inj_succ, Z.pow_succ_r in Ha by lia.
      assert (Hq : 0 <= a / 256 < 256 ^ Z.of_nat fuel).
      { split; [apply Z.div_pos; lia|apply Z.div_lt_upper_bound; lia]. }
      destruct (IH _ Hq) as (Hok & Hdec & Hlast & Hne).
      repeat split.
      * constructor; [unfold byte_ok; apply Z.mod_pos_bound; lia|exact Hok].
      * cbn [le_decode]. rewrite Hdec. pose proof (Z.div_mod a 256 ltac:(lia)). lia.
      * destruct (le_bytes fuel (a / 256)) as [|c r'] eqn:E.
        -- cbn [last_nz]. cbn [le_decode] in Hdec. intros H0.
           destruct (Z.eq_dec (a / 256) 0) as [Hz|Hz]; [|specialize (Hne ltac:(lia)); congruence].
           pose proof (Z.div_mod a 256 ltac:(lia)). lia.
        -- exact Hlast.
      * discriminate.
Qed.

Lemma num_digits_ok a : 0 < a -> a < 256 ^ Z.of_nat (num_digits a).
Proof.
  intros Ha. unfold num_digits. rewrite Nat2Z.inj_succ, Z2Nat.id by (apply Z.div_pos; [apply Z.log2_nonneg|lia]).
  pose proof (Z.log2_spec a Ha) as [_ Hu].
  replace 256 with (2 ^ 8) by reflexivity. rewrite <- Z.pow_mul_r by (pose proof (Z.log2_nonneg a); lia).
  eapply Z.lt_le_trans; [exact Hu|]. apply Z.pow_le_mono_r; [lia|].
  pose proof (Z.log2_nonneg a). pose proof (Z.div_mod (Z.log2 a) 8 ltac:(lia)). pose proof (Z.mod_pos_bound (Z.log2 a) 8 ltac:(lia)). lia.
Qed.

(* --- set_sign / num_mag_sign --------------------------------------------------------------- *)
Lemma set_sign_nonempty l neg : l <> [] -> set_sign l neg <> [].
Proof. destruct l as [|b [|c r]]; intros H; simpl; try congruence; destruct (128 <=? b); discriminate. Qed.

Lemma mag_sign_set_sign l neg : bytes_ok l -> l <> [] -> last_nz l ->
  num_mag_sign (set_sign l neg) = (le_decode l, neg).
Proof.
  induction l as [|b r IH]; intros Hok Hne Hnz; [congruence|].
  inversion Hok as [|? ? Hb Hr]; subst. unfold byte_ok in Hb.
  destruct r as [|c r'].
  - simpl in Hnz. simpl set_sign. destruct (128 <=? b) eqn:Eb.
    + destruct neg; simpl; rewrite ?Z.mod_same by lia; f_equal; lia.
    + destruct neg.
      * simpl. replace ((b + 128) mod 128) with b
          by (symmetry; replace (b + 128) with (b + 1 * 128) by lia; rewrite Z.mod_add by lia; apply Z.mod_small; lia).
        replace (128 <=? b + 128) with true by (symmetry; apply Z.leb_le; lia). f_equal; lia.
      * simpl. rewrite Z.mod_small by lia. rewrite Eb. f_equal; lia.
  - change (set_sign (b :: c :: r') neg) with (b :: set_sign (c :: r') neg).
    assert (Hne' : set_sign (c :: r') neg <> []) by (apply set_sign_nonempty; discriminate).
    destruct (set_sign (c :: r') neg) as [|d t] eqn:E; [congruence|].
    change (num_mag_sign (b :: d :: t)) with (let '(m, s) := num_mag_sign (d :: t) in (b + 256 * m, s)).
    rewrite (IH Hr ltac:(discriminate) Hnz). reflexivity.
Qed.

Lemma set_sign_bytes_ok l neg : bytes_ok l -> bytes_ok (set_sign l neg).
Proof.
  induction l as [|b r IH]; intros Hok; [constructor|].
  inversion Hok as [|? ? Hb Hr]; subst. unfold byte_ok in Hb.
  destruct r as [|c r'].
  - simpl. destruct (128 <=? b) eqn:E.
    + constructor; [exact Hb|]. constructor; [|constructor]. destruct neg; unfold byte_ok; lia.
    + constructor; [|constructor]. destruct neg; unfold byte_ok; lia.
  - change (set_sign (b :: c :: r') neg) with (b :: set_sign (c :: r') neg). constructor; [exact Hb|apply IH; exact Hr].
Qed.

Lemma set_sign_minimal l neg : bytes_ok l -> l <> [] -> last_nz l -> num_minimal (set_sign l neg) = true.
Proof.
  induction l as [|b r IH]; intros Hok Hne Hnz; [congruence|].
  inversion Hok as [|? ? Hb Hr]; subst. unfold byte_ok in Hb.
  destruct r as [|c r'].
  - simpl in Hnz. simpl set_sign. destruct (128 <=? b) eqn:Eb.
    + destruct neg; simpl; rewrite Eb; reflexivity.
    + destruct neg; simpl.
      * replace ((b + 128) mod 128) with b
          by (symmetry; replace (b + 128) with (b + 1 * 128) by lia; rewrite Z.mod_add by lia; apply Z.mod_small; lia).
        destruct (b =? 0) eqn:E0; [lia|reflexivity].
      * rewrite Z.mod_small by lia. destruct (b =? 0) eqn:E0; [lia|reflexivity].
  - change (set_sign (b :: c :: r') neg) with (b :: set_sign (c :: r') neg).
    specialize (IH Hr ltac:(discriminate) Hnz).
    destruct r' as [|d r''].
    + (* r = [c]: set_sign [c] is one or two bytes *)
      inversion Hr as [|? ? Hc _]; subst. unfold byte_ok in Hc. simpl in Hnz.
      simpl set_sign in *. destruct (128 <=? c) eqn:Ec.
      * exact IH.
      * destruct neg; simpl in *.
        -- replace ((c + 128) mod 128) with c in *
             by (symmetry; replace (c + 128) with (c + 1 * 128) by lia; rewrite Z.mod_add by lia; apply Z.mod_small; lia).
           destruct (c =? 0) eqn:E0; [lia|reflexivity].
        -- rewrite Z.mod_small in * by lia. destruct (c =? 0) eqn:E0; [lia|reflexivity].
    + change (set_sign (c :: d :: r'') neg) with (c :: set_sign (d :: r'') neg) in *.
      assert (Hne' : set_sign (d :: r'') neg <> []) by (apply set_sign_nonempty; discriminate).
      destruct (set_sign (d :: r'') neg) as [|e t] eqn:E; [congruence|]. exact IH.
Qed.

(* --- the theorems -------------------------------------------------------------------------- *)
Lemma num_encode_digits n : n <> 0 ->
  let l := le_bytes (num_digits (Z.abs n)) (Z.abs n) in
  bytes_ok l /\ le_decode l = Z.abs n /\ last_nz l /\ l <> [].
Proof.
  intros Hn l. pose proof (num_digits_ok (Z.abs n) ltac:(lia)) as Hd.
  destruct (le_bytes_spec (num_digits (Z.abs n)) (Z.abs n) ltac:(lia)) as (H1 & H2 & H3 & H4).
  repeat split; auto. apply H4. lia.
Qed.

(* decode (encode n) = n, for every integer *)
Theorem num_decode_encode n : num_decode (num_encode n) = n.
Proof.
  unfold num_encode. destruct (n =? 0) eqn:E0; [apply Z.eqb_eq in E0; subst; reflexivity|].
  apply Z.eqb_neq in E0.
  destruct (num_encode_digits n E0) as (Hok & Hdec & Hnz & Hne).
  unfold num_decode. cbv zeta. rewrite (mag_sign_set_sign _ _ Hok Hne Hnz), Hdec.
  destruct (n <? 0) eqn:En; lia.
Qed.

Theorem num_encode_minimal n : num_minimal (num_encode n) = true.
Proof.
  unfold num_encode. destruct (n =? 0) eqn:E0; [reflexivity|].
  apply Z.eqb_neq in E0.
  destruct (num_encode_digits n E0) as (Hok & Hdec & Hnz & Hne).
  cbv zeta. apply set_sign_minimal; auto.
Qed.

Theorem num_encode_bytes_ok n : bytes_ok (num_encode n).
Proof.
  unfold num_encode. destruct (n =? 0) eqn:E0; [constructor|].
  apply Z.eqb_neq in E0.
  destruct (num_encode_digits n E0) as (Hok & _). cbv zeta. apply set_sign_bytes_ok; auto.
Qed.

(* A minimal byte string is the encoding of its value: the minimal encoding is unique. *)
(* magnitude digits and sign of a non-empty minimal string *)
Lemma minimal_decompose v : bytes_ok v -> v <> [] -> num_minimal v = true ->
  exists l, bytes_ok l /\ l <> [] /\ last_nz l /\
            num_mag_sign v = (le_decode l, snd (num_mag_sign v)) /\ set_sign l (snd (num_mag_sign v)) = v.
Proof.
  induction v as [|b r IH]; intros Hok Hne Hmin; [congruence|].
  inversion Hok as [|? ? Hb Hr]; subst. unfold byte_ok in Hb.
  destruct r as [|c r'].
  - (* one byte: not 0x00 / 0x80 *)
    simpl in Hmin. destruct (b mod 128 =? 0) eqn:E0; [discriminate|].
    exists [b mod 128]. assert (Hm : 0 <= b mod 128 < 128) by (apply Z.mod_pos_bound; lia).
    repeat split.
    + constructor; [unfold byte_ok; lia|constructor].
    + discriminate.
    + cbn [num_mag_sign le_decode set_sign snd last_nz]. lia.
    + cbn [num_mag_sign le_decode set_sign snd last_nz]. f_equal. lia.
    + cbn [num_mag_sign le_decode set_sign snd last_nz]. replace (128 <=? b mod 128) with false by (symmetry; apply Z.leb_gt; lia).
      destruct (128 <=? b) eqn:Eb.
      * f_equal. lia.
      * f_equal. lia.
  - destruct r' as [|d r''].
    + (* two bytes [b; c] *)
      inversion Hr as [|? ? Hc _]; subst. unfold byte_ok in Hc.
      simpl in Hmin.
      destruct (c mod 128 =? 0) eqn:E0.
      * (* the last byte is 0x00 or 0x80: a pure sign byte, allowed because b >= 128 *)
        simpl in Hmin. exists [b]. repeat split.
        -- constructor; [unfold byte_ok; lia|constructor].
        -- discriminate.
        -- cbn [num_mag_sign le_decode set_sign snd last_nz]. lia.
        -- cbn [num_mag_sign le_decode set_sign snd last_nz]. f_equal. lia.
        -- cbn [num_mag_sign le_decode set_sign snd last_nz]. rewrite Hmin. f_equal. f_equal.
           assert (Hm : c mod 128 = 0) by lia.
           destruct (128 <=? c) eqn:Ec; lia.
      * exists [b; c mod 128]. assert (Hm : 0 <= c mod 128 < 128) by (apply Z.mod_pos_bound; lia).
        repeat split.
        -- constructor; [unfold byte_ok; lia|constructor; [unfold byte_ok; lia|constructor]].
        -- discriminate.
        -- cbn [num_mag_sign le_decode set_sign snd last_nz]. lia.
        -- cbn [num_mag_sign le_decode set_sign snd last_nz]. replace (128 <=? c mod 128) with false by (symmetry; apply Z.leb_gt; lia).
           f_equal. f_equal.
           destruct (128 <=? c) eqn:Ec; lia.
        -- cbn [num_mag_sign le_decode set_sign snd last_nz]. replace (128 <=? c mod 128) with false by (symmetry; apply Z.leb_gt; lia).
           f_equal. f_equal. destruct (128 <=? c) eqn:Ec; lia.
    + (* three or more: peel the first byte *)
      assert (Hmin' : num_minimal (c :: d :: r'') = true) by exact Hmin.
      destruct (IH Hr ltac:(discriminate) Hmin') as (l & Hlok & Hlne & Hlnz & Hms & Hss).
      exists (b :: l).
      change (num_mag_sign (b :: c :: d :: r'')) with (let '(m, s) := num_mag_sign (c :: d :: r'') in (b + 256 * m, s)).
      destruct (num_mag_sign (c :: d :: r'')) as [m s] eqn:Em. cbn [snd] in *.
      repeat split.
      * constructor; [exact Hb|exact Hlok].
      * discriminate.
      * destruct l; [congruence|exact Hlnz].
      * cbn [le_decode]. inversion Hms. reflexivity.
      * destruct l as [|e l']; [congruence|].
        change (set_sign (b :: e :: l') s) with (b :: set_sign (e :: l') s). rewrite Hss. reflexivity.
Qed.

Theorem num_encode_decode_minimal v : bytes_ok v -> num_minimal v = true -> num_encode (num_decode v) = v.
Proof.
  intros Hok Hmin. destruct v as [|b r]; [reflexivity|].
  destruct (minimal_decompose _ Hok ltac:(discriminate) Hmin) as (l & Hlok & Hlne & Hlnz & Hms & Hss).
  unfold num_decode. destruct (num_mag_sign (b :: r)) as [m s] eqn:Em. cbn [snd] in *. inversion Hms as [Hm]. clear Hms.
  pose proof (le_decode_lower l Hlok Hlne Hlnz) as Hlow.
  assert (Hpos : 0 < le_decode l).
  { assert (1 <= Z.of_nat (length l)) by (destruct l; [congruence|cbn [length]; lia]).
    assert (0 < 256 ^ (Z.of_nat (length l) - 1)) by (apply Z.pow_pos_nonneg; lia). lia. }
  set (n := if s then - le_decode l else le_decode l).
  assert (Habs : Z.abs n = le_decode l) by (unfold n; destruct s; lia).
  assert (Hneg : (n <? 0) = s) by (unfold n; destruct s; [apply Z.ltb_lt|apply Z.ltb_ge]; lia).
  unfold num_encode. replace (n =? 0) with false by (symmetry; apply Z.eqb_neq; unfold n; destruct s; lia).
  cbv zeta. rewrite Habs, Hneg.
  replace (le_bytes (num_digits (le_decode l)) (le_decode l)) with l; [exact Hss|].
  symmetry.
  assert (Hst : le_bytes (num_digits (le_decode l)) (le_decode l)
                = le_bytes (Nat.max (num_digits (le_decode l)) (length l)) (le_decode l)).
  { apply le_bytes_stable; [split; [lia|apply num_digits_ok; lia]|lia]. }
  rewrite Hst. apply le_bytes_of_decode; auto. lia.
Qed.

Corollary num_minimal_unique v1 v2 : bytes_ok v1 -> bytes_ok v2 -> num_minimal v1 = true -> num_minimal v2 = true ->
  num_decode v1 = num_decode v2 -> v1 = v2.
Proof. intros H1 H2 M1 M2 E. rewrite <- (num_encode_decode_minimal v1 H1 M1), <- (num_encode_decode_minimal v2 H2 M2), E. reflexivity. Qed.

(* ranges: k bytes hold exactly the magnitudes below 2^(8k-1) *)
Lemma mag_sign_bound v : bytes_ok v -> v <> [] ->
  0 <= fst (num_mag_sign v) < 2 ^ (8 * Z.of_nat (length v) - 1).
Proof.
  induction v as [|b r IH]; intros Hok Hne; [congruence|].
  inversion Hok as [|? ? Hb Hr]; subst. unfold byte_ok in Hb.
  destruct r as [|c r'].
  - cbn [num_mag_sign fst length]. change (2 ^ (8 * Z.of_nat 1 - 1)) with 128. pose proof (Z.mod_pos_bound b 128 ltac:(lia)). lia.
  - specialize (IH Hr ltac:(discriminate)).
    change (num_mag_sign (b :: c :: r')) with (let '(m, s) := num_mag_sign (c :: r') in (b + 256 * m, s)).
    destruct (num_mag_sign (c :: r')) as [m s]. cbn [fst] in *.
    change (length (b :: c :: r')) with (S (length (c :: r'))). rewrite Nat2Z.inj_succ.
    replace (8 * Z.succ (Z.of_nat (length (c :: r'))) - 1) with (8 + (8 * Z.of_nat (length (c :: r')) - 1)) by lia.
    rewrite Z.pow_add_r by (cbn [length]; lia). change (2 ^ 8) with 256. lia.
Qed.

Theorem num_decode_range v k : bytes_ok v -> 1 <= k -> Z.of_nat (length v) <= k ->
  - (2 ^ (8 * k - 1) - 1) <= num_decode v <= 2 ^ (8 * k - 1) - 1.
Proof.
  intros Hok Hk Hlen. destruct v as [|b r].
  - change (num_decode []) with 0. assert (0 < 2 ^ (8 * k - 1)) by (apply Z.pow_pos_nonneg; lia). lia.
  - pose proof (mag_sign_bound (b :: r) Hok ltac:(discriminate)) as Hb.
    assert (Hmono : 2 ^ (8 * Z.of_nat (length (b :: r)) - 1) <= 2 ^ (8 * k - 1)) by (apply Z.pow_le_mono_r; lia).
    unfold num_decode. destruct (num_mag_sign (b :: r)) as [m s]. cbn [fst] in Hb. destruct s; lia.
Qed.

Lemma set_sign_length l neg : bytes_ok l -> l <> [] ->
  Z.of_nat (length (set_sign l neg)) = Z.of_nat (length l) + (if 128 <=? last l 0 then 1 else 0).
Proof.
  induction l as [|b r IH]; intros Hok Hne; [congruence|].
  inversion Hok as [|? ? Hb Hr]; subst.
  destruct r as [|c r'].
  - cbn [set_sign last]. destruct (128 <=? b); cbn [length]; lia.
  - change (set_sign (b :: c :: r') neg) with (b :: set_sign (c :: r') neg).
    change (last (b :: c :: r') 0) with (last (c :: r') 0).
    change (length (b :: set_sign (c :: r') neg)) with (S (length (set_sign (c :: r') neg))).
    change (length (b :: c :: r')) with (S (length (c :: r'))).
    rewrite !Nat2Z.inj_succ, (IH Hr ltac:(discriminate)). lia.
Qed.

Lemma le_decode_last_bound l : bytes_ok l -> l <> [] ->
  last l 0 * 256 ^ (Z.of_nat (length l) - 1) <= le_decode l.
Proof.
  induction l as [|b r IH]; intros Hok Hne; [congruence|].
  inversion Hok as [|? ? Hb Hr]; subst. unfold byte_ok in Hb.
  destruct r as [|c r'].
  - cbn [last length le_decode]. change (256 ^ (Z.of_nat 1 - 1)) with 1. lia.
  - specialize (IH Hr ltac:(discriminate)).
    change (last (b :: c :: r') 0) with (last (c :: r') 0).
    change (length (b :: c :: r')) with (S (length (c :: r'))). rewrite Nat2Z.inj_succ.
    replace (Z.succ (Z.of_nat (length (c :: r'))) - 1) with (Z.succ (Z.of_nat (length (c :: r')) - 1)) by lia.
    rewrite Z.pow_succ_r by (cbn [length]; lia).
    change (le_decode (b :: c :: r')) with (b + 256 * le_decode (c :: r')). nia.
Qed.

(* |n| <= 2^(8k-1) - 1  ->  the encoding has at most k bytes *)
Theorem num_encode_length n k : 1 <= k -> - (2 ^ (8 * k - 1) - 1) <= n <= 2 ^ (8 * k - 1) - 1 ->
  Z.of_nat (length (num_encode n)) <= k.
Proof.
  intros Hk Hn. unfold num_encode. destruct (n =? 0) eqn:E0; [cbn [length]; lia|].
  apply Z.eqb_neq in E0.
  destruct (num_encode_digits n E0) as (Hok & Hdec & Hnz & Hne). cbv zeta.
  set (l := le_bytes (num_digits (Z.abs n)) (Z.abs n)) in *.
  rewrite set_sign_length by auto.
  pose proof (le_decode_lower l Hok Hne Hnz) as Hlow.
  pose proof (le_decode_last_bound l Hok Hne) as Hlast.
  assert (Hlen1 : 1 <= Z.of_nat (length l)) by (destruct l; [congruence|cbn [length]; lia]).
  set (L := Z.of_nat (length l)) in *.
  assert (Habs : Z.abs n <= 2 ^ (8 * k - 1) - 1) by lia.
  replace 256 with (2 ^ 8) in Hlow, Hlast by reflexivity. rewrite <- Z.pow_mul_r in Hlow, Hlast by lia.
  destruct (128 <=? last l 0) eqn:El.
  - (* top digit >= 128: 128 * 2^(8(L-1)) = 2^(8L-1) <= |n| < 2^(8k-1), so L < k *)
    assert (H1 : 2 ^ (8 * L - 1) <= le_decode l).
    { replace (8 * L - 1) with (7 + 8 * (L - 1)) by lia. rewrite Z.pow_add_r by lia. change (2 ^ 7) with 128.
      assert (0 <= 2 ^ (8 * (L - 1))) by (apply Z.pow_nonneg; lia). nia. }
    destruct (Z_lt_le_dec L k) as [Hlt|Hge]; [lia|].
    assert (2 ^ (8 * k - 1) <= 2 ^ (8 * L - 1)) by (apply Z.pow_le_mono_r; lia). lia.
  - destruct (Z_le_gt_dec L k) as [Hle|Hgt]; [lia|].
    assert (2 ^ (8 * k - 1) <= 2 ^ (8 * (L - 1))) by (apply Z.pow_le_mono_r; lia). lia.
Qed.

(* Operands of numeric opcodes are at most 4 bytes: exactly the range +-(2^31 - 1). *)
Theorem script_num_ok_range rm v n : bytes_ok v -> script_num rm 4 v = Ok n -> - (2 ^ 31 - 1) <= n <= 2 ^ 31 - 1.
Proof.
  unfold script_num, lenz. intros Hok H. destruct (Z.of_nat (length v) >? 4) eqn:E; [discriminate|].
  destruct (rm && negb (num_minimal v)); [discriminate|]. inversion H; subst.
  apply (num_decode_range v 4 Hok); lia.
Qed.

Theorem script_num_accepts_range rm n : - (2 ^ 31 - 1) <= n <= 2 ^ 31 - 1 -> script_num rm 4 (num_encode n) = Ok n.
Proof.
  intros Hn. unfold script_num, lenz. pose proof (num_encode_length n 4 ltac:(lia) Hn) as Hl.
  destruct (Z.of_nat (length (num_encode n)) >? 4) eqn:E; [lia|].
  rewrite num_encode_minimal, num_decode_encode. destruct rm; reflexivity.
Qed.

(* Results may need 5 bytes: they can be pushed (num_encode is total) but not consumed as a 4-byte operand. *)
Theorem script_num_rejects_out_of_range rm n : 2 ^ 31 <= Z.abs n -> script_num rm 4 (num_encode n) = Err SE_SCRIPTNUM.
Proof.
  intros Hn. unfold script_num, lenz. destruct (Z.of_nat (length (num_encode n)) >? 4) eqn:E; [reflexivity|].
  exfalso. pose proof (num_decode_range (num_encode n) 4 (num_encode_bytes_ok n) ltac:(lia) ltac:(lia)) as H.
  rewrite num_decode_encode in H. lia.
Qed.

Theorem arith_result_fits_5_bytes a b : - (2 ^ 31 - 1) <= a <= 2 ^ 31 - 1 -> - (2 ^ 31 - 1) <= b <= 2 ^ 31 - 1 ->
  wrap64 (a + b) = a + b /\ wrap64 (a - b) = a - b /\
  Z.of_nat (length (num_encode (a + b))) <= 5 /\ Z.of_nat (length (num_encode (a - b))) <= 5.
Proof.
  intros Ha Hb. repeat split.
  - apply wrap64_id. unfold INT64_MIN, INT64_MAX. lia.
  - apply wrap64_id. unfold INT64_MIN, INT64_MAX. lia.
  - apply num_encode_length; lia.
  - apply num_encode_length; lia.
Qed.
