(* The scenario evaluator with the TRUC rules meets the premises of the AcceptPackage theorem. *)
From BV Require Import lib.Ints gen.Params_gen model.Package model.PackageAccept model.Truc model.PackageTruc
  proofs.PackageLemmas proofs.PackageAcceptLemmas.
Local Open Scope Z_scope.

Lemma desc_closed_b_sound P R : desc_closed_b P R = true -> desc_closed P R.
Proof.
  unfold desc_closed_b, desc_closed. rewrite forallb_forall. intros H t x Ht Hx Hs.
  specialize (H t Ht). apply orb_true_iff in H. destruct H as [H|H]; [|apply zmem_In; exact H].
  apply negb_true_iff in H. rewrite existsb_false_forall in H. rewrite (H x Hx) in Hs. discriminate.
Qed.

Lemma toy3_single_ok utxo : single_ok utxo (toy3_single utxo).
Proof.
  intros P tx res P' _ _. unfold toy3_single.
  destruct (negb (inputs_avail utxo P tx)) eqn:Ha.
  { intros E. inversion E; subst. left. exists true, WHY_MISSING_INPUTS. auto. }
  destruct (p_fee tx <? fee_for (vsize_of tx)).
  { intros E. inversion E; subst. left. exists true, WHY_MIN_RELAY_FEE. auto. }
  destruct (single_truc_checks P tx (parents_of P tx) (direct_conflicts P tx) (vsize_of tx)).
  { intros E. inversion E; subst. left. exists false, WHY_TRUC. auto. }
  destruct (direct_conflicts P tx) as [|c0 cs] eqn:Hc.
  { intros E. inversion E; subst. right. split; [reflexivity|]. exists []. rewrite remove_set_nil.
    split; [reflexivity|]. split; [apply desc_closed_nil|]. apply inputs_avail_avail. apply negb_false_iff in Ha. exact Ha. }
  destruct (_ || _).
  { intros E. inversion E; subst. left. exists true, WHY_INSUFFICIENT_FEE. auto. }
  destruct (negb (inputs_avail utxo (remove_set (desc_txids P (c0 :: cs)) P) tx)) eqn:Hav.
  { intros E. inversion E; subst. left. exists false, WHY_SPENDS_CONFLICT. auto. }
  destruct (negb (desc_closed_b P (desc_txids P (c0 :: cs)))) eqn:Hdc.
  { intros E. inversion E; subst. left. exists false, WHY_SPENDS_CONFLICT. auto. }
  intros E. inversion E; subst. right. split; [reflexivity|]. exists (desc_txids P (c0 :: cs)).
  split; [reflexivity|]. split; [apply desc_closed_b_sound; apply negb_false_iff in Hdc; exact Hdc|].
  apply inputs_avail_avail. apply negb_false_iff in Hav. exact Hav.
Qed.

Lemma toy3_prechecks_Some utxo P : forall txns Q t r, toy3_prechecks utxo P Q txns = Some (t, r) ->
  In t txns /\ exists b y, r = R_invalid b y.
Proof.
  induction txns as [|a l IH]; simpl; intros Q t r H; [discriminate|].
  destruct (negb (inputs_avail utxo Q a)).
  { inversion H; subst. split; [left; reflexivity | eauto]. }
  destruct (single_truc_checks P a (parents_of P a) [] (vsize_of a)).
  { inversion H; subst. split; [left; reflexivity | eauto]. }
  destruct (IH _ _ _ H) as [H1 H2]. split; [right; exact H1 | exact H2].
Qed.

Lemma toy3_prechecks_None utxo P : forall txns Q, toy3_prechecks utxo P Q txns = None ->
  forall pre t post, txns = pre ++ t :: post -> inputs_avail utxo (Q ++ pre) t = true.
Proof.
  induction txns as [|a r IH]; simpl; intros Q H pre t post E; [destruct pre; discriminate|].
  destruct (negb (inputs_avail utxo Q a)) eqn:Ha; [discriminate|]. apply negb_false_iff in Ha.
  destruct (single_truc_checks P a (parents_of P a) [] (vsize_of a)); [discriminate|].
  destruct pre as [|b pre]; simpl in E; inversion E; subst.
  - rewrite app_nil_r. exact Ha.
  - specialize (IH (Q ++ [b]) H pre t post eq_refl). rewrite <- app_assoc in IH. exact IH.
Qed.

Lemma toy3_multi_ok utxo : multi_ok utxo (toy3_multi utxo).
Proof.
  intros P txns st res P' _ _ _. unfold toy3_multi.
  destruct (is_well_formed txns).
  { intros E. inversion E; subst. split; [intros w []|]. right. split; [reflexivity|]. intros w r H. discriminate. }
  destruct (toy3_prechecks utxo P P txns) as [[t r0]|] eqn:Hp.
  { destruct (toy3_prechecks_Some utxo P txns P t r0 Hp) as [Hin [b [y Er]]]. intros E. inversion E; subst. split.
    - intros w [Hw|[]]. simpl in Hw. subst w. apply in_map. exact Hin.
    - right. split; [reflexivity|]. intros w r H. simpl in H. destruct (p_wtxid t =? w); [|discriminate].
      inversion H. subst. eauto. }
  destruct (negb (toy3_package_truc P txns 0 txns)).
  { intros E. inversion E; subst. split; [intros w []|]. right. split; [reflexivity|]. intros w r H. discriminate. }
  destruct (zsum (map p_fee txns) <? fee_for (zsum (map vsize_of txns))).
  { destruct (last_opt txns) as [l|] eqn:Hl; intros E; inversion E; subst.
    - split.
      + intros w [Hw|[]]. simpl in Hw. subst w. apply in_map. apply last_opt_In. exact Hl.
      + right. split; [reflexivity|]. intros w r H. simpl in H. destruct (p_wtxid l =? w); [|discriminate]. inversion H. eauto.
    - split; [intros w []|]. right. split; [reflexivity|]. intros w r H. discriminate. }
  intros E. inversion E; subst. split.
  - intros w Hw. unfold keys in Hw. rewrite map_map in Hw. simpl in Hw. exact Hw.
  - left. split; [apply rm_find_all_valid|]. exists []. rewrite remove_set_nil. split; [reflexivity|].
    split; [apply desc_closed_nil|]. intros pre t post Et. apply inputs_avail_avail. eapply toy3_prechecks_None; eauto.
Qed.
