(* C22 meets C23: a block made of a coinbase and any duplicate-free list of pool entries in which every entry comes after
   its in-pool parents (all of them listed) passes block_ok on the tip - the structural part of ConnectBlock the mempool
   invariant is about (fresh txids, every input unspent in the chain or created earlier in the block, nothing spent twice,
   nTime above the median time past). *)
From BV Require Import lib.Ints gen.Params_gen model.Locks model.Mempool model.Miner.
From BV Require Import proofs.MempoolBase proofs.MempoolPool proofs.MempoolGraph proofs.MempoolChain proofs.MempoolInv proofs.MempoolBlock
  proofs.MempoolReorg proofs.MinerLemmas.
Local Open Scope Z_scope.

Lemma txs_ok_intro c : forall txs earlier spent,
  (forall pre t post, txs = pre ++ t :: post ->
     is_cb t = false /\ NoDup (t_ins t) /\
     forall o, In o (t_ins t) -> ~ In o spent /\ (forall t', In t' pre -> ~ In o (t_ins t')) /\
               (utxo c o <> None \/ exists t', (In t' earlier \/ In t' pre) /\ tx_creates t' o = true)) ->
  txs_ok c earlier spent txs = true.
Proof.
  induction txs as [|a r IH]; intros earlier spent H; [reflexivity|].
  simpl. destruct (H [] a r eq_refl) as (A & B & C). rewrite A. simpl.
  assert (nodupb_o (t_ins a) = true) as E by (apply nodupb_o_NoDup; exact B). rewrite E. simpl.
  apply andb_true_iff. split.
  - apply forallb_forall. intros o Ho. destruct (C o Ho) as (C1 & _ & C3). apply andb_true_iff. split.
    + apply negb_true_iff, memo_false. exact C1.
    + apply orb_true_iff. destruct C3 as [C3|(t' & [Ht'|[]] & Ct')].
      * left. destruct (utxo c o); [reflexivity|tauto].
      * right. apply existsb_exists. eauto.
  - apply IH. intros pre t post Ep. destruct (H (a :: pre) t post ltac:(simpl; rewrite Ep; reflexivity)) as (A' & B' & C').
    split; [exact A'|]. split; [exact B'|]. intros o Ho. destruct (C' o Ho) as (D1 & D2 & D3). split; [|split].
    + intros X. apply in_app_iff in X. destruct X as [X|X]; [|tauto]. apply (D2 a); [left; reflexivity|exact X].
    + intros t' Ht'. apply D2. right. exact Ht'.
    + destruct D3 as [D3|(t' & Ht' & Ct')]; [left; exact D3|]. right. exists t'. split; [|exact Ct'].
      destruct Ht' as [Ht'|[<-|Ht']]; [left; apply in_app_iff; auto|left; apply in_app_iff; right; left; reflexivity|right; exact Ht'].
Qed.

Section WithU.
Variable U : tx -> Prop.

Theorem pool_block_ok st (es : list entry) (cb : tx) (bid btime : Z) :
  Inv U st ->
  (forall e, In e es -> In e (p_entries (s_pool st))) -> NoDup (map e_id es) ->
  (* every in-pool parent of a listed entry is listed before it *)
  (forall pre e post e' o, es = pre ++ e :: post -> In o (t_ins (e_tx e)) -> In e' (p_entries (s_pool st)) ->
      tx_creates (e_tx e') o = true -> In e' pre) ->
  is_cb cb = true -> ~ In (t_id cb) (chain_txids (s_chain st)) -> ~ In (t_id cb) (map e_id es) ->
  mtp_tip (s_chain st) < btime -> height (s_chain st) + 1 < INT32_MAX ->
  block_ok (s_chain st) {| b_id := bid; b_time := btime; b_txs := cb :: map e_tx es |} = true.
Proof.
  intros [Hj _] Hin Hnd Htopo Hcb Hfresh Hfresh2 Htime Hh. pose proof (j_pool _ _ _ _ Hj) as K.
  unfold block_ok. cbn [b_txs b_time]. rewrite Hcb.
  assert (map t_id (map e_tx es) = map e_id es) as Eids by (rewrite map_map; reflexivity).
  rewrite !andb_true_iff. repeat split.
  - apply nodupb_z_NoDup. cbn [map]. rewrite Eids. constructor; assumption.
  - apply negb_true_iff. apply intersects_false. cbn [map]. rewrite Eids. intros x [<-|Hx]; [exact Hfresh|].
    apply in_map_iff in Hx. destruct Hx as (e & <- & He). apply (j_disj _ _ _ _ Hj). apply Hin. exact He.
  - apply Z.ltb_lt. exact Htime.
  - apply txs_ok_intro. intros pre t post Ep.
    (* split the entry list accordingly *)
    assert (exists pe e pose, es = pe ++ e :: pose /\ map e_tx pe = pre /\ e_tx e = t) as (pe & e & pose & Ees & Epre & Et).
    { clear -Ep. revert pre Ep. induction es as [|a l IH]; intros pre Ep; [destruct pre; discriminate|].
      destruct pre as [|x pre]; simpl in Ep; inversion Ep; subst.
      - exists [], a, l. auto.
      - destruct (IH pre H1) as (pe & e & pose & A & B & C). exists (a :: pe), e, pose. subst. auto. }
    assert (In e (p_entries (s_pool st))) as Hep by (apply Hin; rewrite Ees; apply in_app_iff; right; left; reflexivity).
    destruct (ok_ins _ K e Hep) as [Nd Ne]. subst t. split; [unfold is_cb; apply is_nil_false; exact Ne|]. split; [exact Nd|].
    intros o Ho. split; [intros []|]. split.
    + intros t' Ht' Ho'. rewrite <- Epre in Ht'. apply in_map_iff in Ht'. destruct Ht' as (e2 & <- & He2).
      assert (In e2 (p_entries (s_pool st))) as He2p by (apply Hin; rewrite Ees; apply in_app_iff; auto).
      assert (e2 = e) as -> by (eapply no_double_spend; eassumption).
      (* e would be listed twice *)
      rewrite Ees in Hnd. rewrite map_app in Hnd. simpl in Hnd. apply NoDup_remove_2 in Hnd. apply Hnd.
      apply in_app_iff. left. apply in_map. exact He2.
    + destruct (j_avail _ _ _ _ Hj e o Hep Ho) as [A|[(e' & He' & Ce')|(t' & [] & _)]]; [left; exact A|].
      right. exists (e_tx e'). split; [|exact Ce']. right. rewrite <- Epre. apply in_map.
      eapply Htopo; eassumption.
  - apply Z.ltb_lt. exact Hh.
Qed.

End WithU.
