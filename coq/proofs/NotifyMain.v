(* C63 -- ActivateBestChain passes, InvalidateBlock, whole op scripts; the statements used by Properties_C63. *)
From BV Require Import lib.Ints model.Notify proofs.NotifyPool proofs.NotifySteps proofs.NotifyConnect.
Local Open Scope Z_scope.

Definition Rtop (T : tree) (s : nstate) (ss : sstate) : Prop :=
  ss_chain ss = annotate T (ns_chain s) /\ ss_pool ss = ns_pool s /\ ss_pend ss = [] /\ (ss_low ss <= length (ns_chain s))%nat.

Lemma Rtop_mk T s ss : Rtop T s ss -> ss = mk_ss (annotate T (ns_chain s)) (ns_pool s) [] (ss_low ss).
Proof. intros (H1 & H2 & H3 & _). destruct ss; simpl in *; subst; reflexivity. Qed.

Lemma Rtop_sub_of T s : Rtop T s (sub_of T s).
Proof. unfold Rtop, sub_of. simpl. auto. Qed.

(* ---- several steps ---- *)

Lemma steps_sub tol T start : forall l s s' ev low,
  exec_steps T s l = Some (s', ev) ->
  ninv T s -> lowrel start (ns_chain s) low -> (tol = true \/ Forall nse_step l) ->
  exists low',
    sub_run tol (mk_ss (annotate T (ns_chain s)) (ns_pool s) [] low) ev
      = Some (mk_ss (annotate T (ns_chain s')) (ns_pool s') [] low')
    /\ ninv T s' /\ lowrel start (ns_chain s') low'.
Proof.
  induction l as [|st l IH]; intros s s' ev low H Hinv Hlow Htol; simpl in H.
  - inversion H; subst. exists low. auto.
  - destruct (exec_step T s st) as [[s1 e1]|] eqn:E1; [|discriminate].
    destruct (exec_steps T s1 l) as [[s2 e2]|] eqn:E2; [|discriminate].
    inversion H; subst. clear H.
    destruct (step_sub tol T start s st s1 e1 low E1 Hinv Hlow) as (low1 & S1 & Hinv1 & Hlow1 & _).
    { destruct Htol as [Ht|Hn]; [left; exact Ht | right; inversion Hn; assumption]. }
    destruct (IH s1 s' e2 low1 E2 Hinv1 Hlow1) as (low2 & S2 & Hinv2 & Hlow2).
    { destruct Htol as [Ht|Hn]; [left; exact Ht | right; inversion Hn; assumption]. }
    exists low2. split; [|split]; auto. rewrite sub_run_app, S1. exact S2.
Qed.

(* ---- the fork block of UpdatedBlockTip ---- *)

Lemma sla_app T f B : forall Y,
  suffix_len_at (annotate T (Y ++ B)) f =
  match suffix_len_at (annotate T Y) f with Some k => Some (k + length B)%nat | None => suffix_len_at (annotate T B) f end.
Proof.
  induction Y as [|y Y IH].
  - reflexivity.
  - change (annotate T ((y :: Y) ++ B)) with ((y, txs_of T y) :: annotate T (Y ++ B)).
    change (annotate T (y :: Y)) with ((y, txs_of T y) :: annotate T Y).
    cbn [suffix_len_at fst]. destruct (y =? f).
    + cbn [length]. rewrite !annotate_length, app_length. reflexivity.
    + exact IH.
Qed.

Lemma sla_none T f : forall c, suffix_len_at (annotate T c) f = None -> ~ In f c.
Proof.
  induction c as [|y c IH]; intros H; [intros []|].
  change (annotate T (y :: c)) with ((y, txs_of T y) :: annotate T c) in H. cbn [suffix_len_at fst] in H.
  destruct (y =? f) eqn:E; [discriminate|]. apply Z.eqb_neq in E. intros [Hx|Hx]; [contradiction | exact (IH H Hx)].
Qed.

Lemma find_app' {A} (p : A -> bool) X B : find p (X ++ B) = match find p X with Some x => Some x | None => find p B end.
Proof. induction X as [|x X IH]; simpl; [reflexivity|]. destruct (p x); [reflexivity | exact IH]. Qed.

Lemma nodup_app_disj {A} (X B : list A) x : NoDup (X ++ B) -> In x X -> In x B -> False.
Proof.
  induction X as [|y X IH]; intros Hnd HX HB; [exact HX|].
  simpl in Hnd. apply NoDup_cons_iff in Hnd. destruct Hnd as [Hn Hnd]. destruct HX as [HX|HX].
  - subst. apply Hn. apply in_or_app. right; exact HB.
  - exact (IH Hnd HX HB).
Qed.

Lemma fork_low T start final low f :
  lowrel start final low -> NoDup start -> find_fork final start = Some f ->
  exists k, suffix_len_at (annotate T final) f = Some k /\ (low <= k)%nat.
Proof.
  intros (X & Y & B & Hs & Hf & Hl) Hnd Hfind. subst start final. unfold find_fork in Hfind.
  rewrite sla_app. destruct (suffix_len_at (annotate T Y) f) as [k|] eqn:Ey.
  - exists (k + length B)%nat. split; [reflexivity | lia].
  - apply sla_none in Ey. rewrite find_app' in Hfind.
    destruct (find (fun b => memb b (Y ++ B)) X) as [x|] eqn:Ex.
    + inversion Hfind; subst x. apply find_some in Ex. destruct Ex as [HfX Hmem]. apply memb_In in Hmem.
      apply in_app_or in Hmem. destruct Hmem as [Hm|Hm]; [contradiction|].
      exfalso. exact (nodup_app_disj X B f Hnd HfX Hm).
    + destruct B as [|b B']; [discriminate|]. simpl in Hfind.
      assert (Hb : memb b (Y ++ b :: B') = true) by (apply memb_In; apply in_or_app; right; left; reflexivity).
      rewrite Hb in Hfind. inversion Hfind; subst f.
      exists (length (b :: B')). split; [|exact Hl].
      change (annotate T (b :: B')) with ((b, txs_of T b) :: annotate T B'). cbn [suffix_len_at fst]. rewrite Z.eqb_refl.
      cbn [length]. rewrite annotate_length. reflexivity.
Qed.

(* ---- one pass of ActivateBestChain's outer loop ---- *)

Lemma iter_sub tol T s steps s' ev ss :
  exec_iter T s steps = Some (s', ev) ->
  ninv T s -> Rtop T s ss -> (tol = true \/ Forall nse_step steps) ->
  exists ss', sub_run tol ss ev = Some ss' /\ Rtop T s' ss' /\ ninv T s'.
Proof.
  intros H Hinv HR Htol. unfold exec_iter in H. destruct steps as [|st steps'].
  - inversion H; subst. exists ss. auto.
  - remember (st :: steps') as steps eqn:Est. clear Est.
    destruct (exec_steps T s steps) as [[s1 e1]|] eqn:E1; [|discriminate].
    destruct (ns_chain s1) as [|nw rest] eqn:Ec; [discriminate|].
    destruct (find_fork (nw :: rest) (ns_chain s)) as [f|] eqn:Ef; [|discriminate].
    inversion H; subst s' ev. clear H.
    pose proof (Rtop_mk T s ss HR) as Hss. destruct HR as (_ & _ & _ & Hlow0).
    destruct (steps_sub tol T (ns_chain s) steps s s1 e1 (ss_low ss) E1 Hinv (lowrel_refl _ _ Hlow0) Htol) as (low1 & S1 & Hinv1 & Hlow1).
    rewrite Hss. destruct (f =? nw) eqn:Efn.
    + rewrite app_nil_r. eexists. split; [exact S1|]. split; [|exact Hinv1].
      unfold Rtop. simpl. repeat split; auto. apply lowrel_le in Hlow1. exact Hlow1.
    + rewrite sub_run_app, S1. cbv beta iota.
      rewrite Ec in Hlow1.
      destruct (fork_low T (ns_chain s) (nw :: rest) low1 f Hlow1 (ni_nd _ _ Hinv) Ef) as (k & Hk & Hle).
      simpl. rewrite Ec. change (annotate T (nw :: rest)) with ((nw, txs_of T nw) :: annotate T rest). cbn iota beta.
      rewrite Z.eqb_refl, Efn. cbn [negb orb].
      change ((nw, txs_of T nw) :: annotate T rest) with (annotate T (nw :: rest)). rewrite Hk.
      assert (El : Nat.leb low1 k = true) by (apply Nat.leb_le; exact Hle). rewrite El.
      eexists. split; [reflexivity|]. split; [|exact Hinv1].
      unfold Rtop. simpl. rewrite Ec. repeat split; auto. rewrite annotate_length. simpl. lia.
Qed.

Lemma iters_sub tol T : forall l s s' ev ss,
  exec_iters T s l = Some (s', ev) ->
  ninv T s -> Rtop T s ss -> (tol = true \/ Forall (Forall nse_step) l) ->
  exists ss', sub_run tol ss ev = Some ss' /\ Rtop T s' ss' /\ ninv T s'.
Proof.
  induction l as [|it l IH]; intros s s' ev ss H Hinv HR Htol; simpl in H.
  - inversion H; subst. exists ss. auto.
  - destruct (exec_iter T s it) as [[s1 e1]|] eqn:E1; [|discriminate].
    destruct (exec_iters T s1 l) as [[s2 e2]|] eqn:E2; [|discriminate].
    inversion H; subst. clear H.
    destruct (iter_sub tol T s it s1 e1 ss E1 Hinv HR) as (ss1 & S1 & HR1 & Hinv1).
    { destruct Htol as [Ht|Hn]; [left; exact Ht | right; inversion Hn; assumption]. }
    destruct (IH s1 s' e2 ss1 E2 Hinv1 HR1) as (ss2 & S2 & HR2 & Hinv2).
    { destruct Htol as [Ht|Hn]; [left; exact Ht | right; inversion Hn; assumption]. }
    exists ss2. split; [|split]; auto. rewrite sub_run_app, S1. exact S2.
Qed.

(* ---- InvalidateBlock ---- *)

Fixpoint nse_inval (l : list (list txid * bool * list mpop)) : Prop :=
  match l with [] => True | (_, _, fx) :: r => nse_mpops fx /\ nse_inval r end.

Lemma invalidate_sub tol T : forall l s s' ev ss,
  exec_invalidate T s l = Some (s', ev) ->
  ninv T s -> Rtop T s ss -> (tol = true \/ nse_inval l) ->
  exists ss', sub_run tol ss ev = Some ss' /\ Rtop T s' ss' /\ ninv T s'.
Proof.
  induction l as [|[[evict rc] fx] l IH]; intros s s' ev ss H Hinv HR Htol; simpl in H.
  - inversion H; subst. exists ss. auto.
  - destruct (disconnect_tip T s evict rc) as [[s1 e1]|] eqn:E1; [|discriminate].
    destruct (exec_mpops T (ns_chain s1) (ns_pool s1) fx) as [[p2 e2]|] eqn:E2; [|discriminate].
    destruct (exec_invalidate T {| ns_chain := ns_chain s1; ns_pool := p2; ns_ibd := ns_ibd s1 |} l) as [[s3 e3]|] eqn:E3; [|discriminate].
    inversion H; subst. clear H.
    pose proof (Rtop_mk T s ss HR) as Hss. destruct HR as (_ & _ & _ & Hlow0).
    destruct (disconnect_sub tol T s evict rc s1 e1 (ss_low ss) (ns_chain s) E1 Hinv (lowrel_refl _ _ Hlow0)) as (S1 & _ & Hinv1 & Hlow1).
    set (low1 := Nat.min (ss_low ss) (length (ns_chain s1))) in *.
    destruct (mpops_sub tol T (ns_chain s1) (annotate T (ns_chain s1)) fx (ns_pool s1) p2 e2 [] (ns_pool s1) [] low1 E2 eq_refl) as (sp2 & S2 & Hp2).
    { intros t []. }
    { intros t Ht. rewrite sub_confirmed_annotate in Ht. exact Ht. }
    { destruct Htol as [Ht|[Hn _]]; [left|right]; assumption. }
    simpl in Hp2. subst sp2.
    set (s2 := {| ns_chain := ns_chain s1; ns_pool := p2; ns_ibd := ns_ibd s1 |}) in *.
    assert (Hinv2 : ninv T s2).
    { destruct Hinv1 as [Hok1 Hnd1 Hfr1]. constructor; simpl; auto. eapply mpops_fresh; eauto. }
    assert (HR2 : Rtop T s2 (mk_ss (annotate T (ns_chain s1)) p2 [] low1)).
    { unfold Rtop. simpl. repeat split; auto. unfold low1. lia. }
    destruct (IH s2 s' e3 _ E3 Hinv2 HR2) as (ss3 & S3 & HR3 & Hinv3).
    { destruct Htol as [Ht|[_ Hn]]; [left|right]; assumption. }
    exists ss3. split; [|split]; auto.
    rewrite Hss. rewrite sub_run_app, S1. cbv beta iota. rewrite sub_run_app, S2. exact S3.
Qed.

(* ---- op scripts ---- *)

Definition nse_op (o : op) : Prop :=
  match o with
  | OActivate its => Forall (Forall nse_step) its
  | OInvalidate l => nse_inval l
  | OMempool m => nse_mpop m
  end.

Lemma op_sub tol T o s s' ev ss :
  exec_op T s o = Some (s', ev) ->
  ninv T s -> Rtop T s ss -> (tol = true \/ nse_op o) ->
  exists ss', sub_run tol ss ev = Some ss' /\ Rtop T s' ss' /\ ninv T s'.
Proof.
  intros H Hinv HR Htol. destruct o as [its | l | m]; simpl in H.
  - eapply iters_sub; eauto.
  - eapply invalidate_sub; eauto.
  - destruct (exec_mpop T (ns_chain s) (ns_pool s) m) as [[p ev']|] eqn:E; [|discriminate].
    inversion H; subst. clear H.
    pose proof (Rtop_mk T s ss HR) as Hss. destruct HR as (_ & _ & _ & Hlow0).
    destruct (mpop_sub tol T (ns_chain s) (annotate T (ns_chain s)) m (ns_pool s) p ev [] (ns_pool s) [] (ss_low ss) E eq_refl) as (sp' & S & Hp).
    { intros t []. }
    { intros t Ht. rewrite sub_confirmed_annotate in Ht. exact Ht. }
    { exact Htol. }
    simpl in Hp. subst sp'. rewrite Hss. eexists. split; [exact S|]. split.
    + unfold Rtop. simpl. auto.
    + destruct Hinv as [Hok Hnd Hfr]. constructor; simpl; auto. eapply mpop_fresh; eauto.
Qed.

Lemma ops_sub tol T : forall l s s' ev ss,
  exec_ops T s l = Some (s', ev) ->
  ninv T s -> Rtop T s ss -> (tol = true \/ Forall nse_op l) ->
  exists ss', sub_run tol ss ev = Some ss' /\ Rtop T s' ss' /\ ninv T s'.
Proof.
  induction l as [|o l IH]; intros s s' ev ss H Hinv HR Htol; simpl in H.
  - inversion H; subst. exists ss. auto.
  - destruct (exec_op T s o) as [[s1 e1]|] eqn:E1; [|discriminate].
    destruct (exec_ops T s1 l) as [[s2 e2]|] eqn:E2; [|discriminate].
    inversion H; subst. clear H.
    destruct (op_sub tol T o s s1 e1 ss E1 Hinv HR) as (ss1 & S1 & HR1 & Hinv1).
    { destruct Htol as [Ht|Hn]; [left; exact Ht | right; inversion Hn; assumption]. }
    destruct (IH s1 s' e2 ss1 E2 Hinv1 HR1) as (ss2 & S2 & HR2 & Hinv2).
    { destruct Htol as [Ht|Hn]; [left; exact Ht | right; inversion Hn; assumption]. }
    exists ss2. split; [|split]; auto. rewrite sub_run_app, S1. exact S2.
Qed.

(* ---- the statements ---- *)

(* every notification sequence the node side can produce is accepted by the (tolerant) subscriber, which ends with
   exactly the node's chain and mempool; so does every prefix that ends at an op boundary (take the prefix script) *)
Theorem replay_tolerant T ops s s' evs :
  ninv T s -> exec_ops T s ops = Some (s', evs) ->
  exists ss', sub_run true (sub_of T s) evs = Some ss' /\
              ss_chain ss' = annotate T (ns_chain s') /\ ss_pool ss' = ns_pool s' /\ ss_pend ss' = [].
Proof.
  intros Hinv H. destruct (ops_sub true T ops s s' evs (sub_of T s) H Hinv (Rtop_sub_of T s) (or_introl eq_refl)) as (ss' & S & (H1 & H2 & H3 & _) & _).
  exists ss'. auto.
Qed.

(* the strict subscriber (no removal of a transaction it does not hold) accepts every sequence of a script in which no
   acceptance evicts the transaction being accepted *)
Theorem replay_strict T ops s s' evs :
  ninv T s -> Forall nse_op ops -> exec_ops T s ops = Some (s', evs) ->
  exists ss', sub_run false (sub_of T s) evs = Some ss' /\
              ss_chain ss' = annotate T (ns_chain s') /\ ss_pool ss' = ns_pool s' /\ ss_pend ss' = [].
Proof.
  intros Hinv Hn H. destruct (ops_sub false T ops s s' evs (sub_of T s) H Hinv (Rtop_sub_of T s) (or_intror Hn)) as (ss' & S & (H1 & H2 & H3 & _) & _).
  exists ss'. auto.
Qed.

(* what the strict subscriber's acceptance means for a transaction: it holds t only if t was in the initial pool or
   was reported added *)
Lemma sub_step_pool_origin tol s e s' t :
  sub_step tol s e = Some s' -> In t (ss_pool s') -> In t (ss_pool s) \/ e = EvAdd t.
Proof.
  intros H Hin. destruct e as [b p txs | b p txs | nw f | t0 | t0 r | b txs]; simpl in H.
  - destruct (ss_pend s); [|discriminate]. destruct (ss_chain s) as [|[b' txs'] [|[p' q] rest]]; try discriminate.
    destruct ((b' =? b) && list_eqb txs' txs && (p' =? p)); [|discriminate]. inversion H; subst. simpl in Hin. left; exact Hin.
  - destruct (ss_chain s) as [|[p' q] rest]; [discriminate|]. destruct (negb (p' =? p)); [discriminate|].
    assert (Hsub : In t (rem_all txs (ss_pool s)) -> In t (ss_pool s)) by (intros Hx; apply rem_all_In in Hx; tauto).
    destruct (ss_pend s) as [|[b' rtxs] pend'].
    + inversion H; subst. simpl in Hin. left; auto.
    + destruct (b' =? b).
      * destruct (forallb (fun t1 => memb t1 txs) rtxs); [|discriminate]. inversion H; subst. simpl in Hin. left; auto.
      * inversion H; subst. simpl in Hin. left; auto.
  - destruct (ss_pend s); [|discriminate]. destruct (ss_chain s) as [|[b q] rest]; [discriminate|].
    destruct (negb (b =? nw) || (f =? nw)); [discriminate|].
    destruct (suffix_len_at ((b, q) :: rest) f); [|discriminate]. destruct (Nat.leb (ss_low s) n); [|discriminate].
    inversion H; subst. simpl in Hin. left; exact Hin.
  - destruct (memb t0 (ss_pool s) || sub_confirmed (ss_chain s) t0); [discriminate|]. inversion H; subst. simpl in Hin.
    destruct Hin as [Hx|Hx]; [right; subst; reflexivity | left; exact Hx].
  - destruct (is_block_reason r); [discriminate|]. destruct (memb t0 (ss_pool s)).
    + inversion H; subst. simpl in Hin. apply rem1_In in Hin. left; tauto.
    + destruct (tol && is_limit_reason r); [|discriminate]. inversion H; subst. left; exact Hin.
  - destruct (nodupb txs && forallb (fun t1 => memb t1 (ss_pool s)) txs); [|discriminate]. inversion H; subst. simpl in Hin.
    apply rem_all_In in Hin. left; tauto.
Qed.

Lemma sub_run_pool_origin tol : forall a s s' t,
  sub_run tol s a = Some s' -> In t (ss_pool s') -> In t (ss_pool s) \/ In (EvAdd t) a.
Proof.
  induction a as [|e a IH]; intros s s' t H Hin; simpl in H.
  - inversion H; subst. left; exact Hin.
  - destruct (sub_step tol s e) as [s1|] eqn:E; [|discriminate].
    destruct (IH s1 s' t H Hin) as [H1|H1]; [|right; right; exact H1].
    destruct (sub_step_pool_origin tol s e s1 t E H1) as [H2|H2]; [left; exact H2 | right; left; exact H2].
Qed.

Lemma sub_run_split tol : forall a e b s s',
  sub_run tol s (a ++ e :: b) = Some s' -> exists s1 s2, sub_run tol s a = Some s1 /\ sub_step tol s1 e = Some s2.
Proof.
  intros a e b s s' H. rewrite sub_run_app in H. destruct (sub_run tol s a) as [s1|]; [|discriminate].
  simpl in H. destruct (sub_step tol s1 e) as [s2|] eqn:E; [|discriminate]. exists s1, s2. auto.
Qed.

(* "reported added before reported removed", for the scripts without a self-evicting acceptance *)
Theorem added_before_removed T ops s s' evs a t r b :
  ninv T s -> Forall nse_op ops -> exec_ops T s ops = Some (s', evs) ->
  evs = a ++ EvRem t r :: b ->
  In t (ns_pool s) \/ In (EvAdd t) a.
Proof.
  intros Hinv Hn H Hsplit.
  destruct (replay_strict T ops s s' evs Hinv Hn H) as (ss' & S & _).
  rewrite Hsplit in S. destruct (sub_run_split false a (EvRem t r) b _ _ S) as (s1 & s2 & S1 & S2).
  simpl in S2. destruct (is_block_reason r); [discriminate|].
  destruct (memb t (ss_pool s1)) eqn:Em; [|discriminate]. apply memb_In in Em.
  exact (sub_run_pool_origin false a (sub_of T s) s1 t S1 Em).
Qed.
