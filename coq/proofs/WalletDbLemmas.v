(* C43: proofs about the wallet database model (model/WalletDb.v). *)
From Coq Require Import ZArith List Bool Lia.
From BV Require Import lib.Ints model.WalletDb.
Import ListNotations.
Open Scope Z_scope.

Lemma addr_eqb_eq a b : addr_eqb a b = true <-> a = b.
Proof.
  destruct a as [s i|k], b as [s' i'|k']; cbn; try (split; [discriminate|intros H; inversion H]).
  - rewrite andb_true_iff, Nat.eqb_eq, Z.eqb_eq. split; [intros [-> ->]; reflexivity|intros H; inversion H; auto].
  - rewrite Z.eqb_eq. split; [intros ->; reflexivity|intros H; inversion H; auto].
Qed.

Lemma addr_eqb_refl a : addr_eqb a a = true.
Proof. apply addr_eqb_eq; reflexivity. Qed.

(* ---------------------------------------------------------------------------------------------- *)
(* the database layer *)

Definition plain (c : call) : bool :=
  match c with CBegin | CCommit | CAbort => false | _ => true end.

Lemma apply_plain_pending cs : forall c p,
  forallb plain cs = true ->
  apply_calls (mkDb c (Some p)) cs = mkDb c (Some (fold_left db_apply cs p)).
Proof.
  induction cs as [|x r IH]; intros c p H; cbn; [reflexivity|].
  cbn in H. apply andb_true_iff in H. destruct H as [Hx Hr].
  unfold apply_calls in IH. destruct x; try discriminate; cbn; apply IH; exact Hr.
Qed.

Lemma apply_plain_auto cs : forall c,
  forallb plain cs = true ->
  apply_calls (mkDb c None) cs = mkDb (fold_left db_apply cs c) None.
Proof.
  induction cs as [|x r IH]; intros c H; cbn; [reflexivity|].
  cbn in H. apply andb_true_iff in H. destruct H as [Hx Hr].
  unfold apply_calls in IH. destruct x; try discriminate; cbn; apply IH; exact Hr.
Qed.

Lemma apply_calls_app s a b : apply_calls s (a ++ b) = apply_calls (apply_calls s a) b.
Proof. unfold apply_calls. apply fold_left_app. Qed.

(* a transaction: nothing is visible before the commit, everything after *)
Lemma txn_commit c ws :
  forallb plain ws = true ->
  apply_calls (mkDb c None) (CBegin :: ws ++ [CCommit]) = mkDb (fold_left db_apply ws c) None.
Proof.
  intros H. change (CBegin :: ws ++ [CCommit]) with ([CBegin] ++ (ws ++ [CCommit])).
  rewrite apply_calls_app. cbn [apply_calls fold_left apply_call committed]. rewrite apply_calls_app.
  rewrite apply_plain_pending by exact H. reflexivity.
Qed.

Lemma firstn_txn_cases {A} (b e : A) ws j :
  (exists ws', firstn j (b :: ws ++ [e]) = [] /\ ws' = @nil A) \/
  (exists k, firstn j (b :: ws ++ [e]) = b :: firstn k ws) \/
  firstn j (b :: ws ++ [e]) = b :: ws ++ [e].
Proof.
  destruct j as [|j]; [left; exists []; split; reflexivity|]. right.
  cbn [firstn]. destruct (Nat.le_gt_cases j (length ws)) as [Hle|Hgt].
  - left. exists j. f_equal. rewrite firstn_app. replace (j - length ws)%nat with 0%nat by lia. cbn. apply app_nil_r.
  - right. f_equal. apply firstn_all2. rewrite app_length. cbn. lia.
Qed.

Lemma forallb_firstn {A} (f : A -> bool) l k : forallb f l = true -> forallb f (firstn k l) = true.
Proof.
  revert k. induction l as [|a r IH]; intros k H; destruct k; cbn; auto.
  cbn in H. apply andb_true_iff in H. destruct H as [Ha Hr]. rewrite Ha. cbn. apply IH; exact Hr.
Qed.

Lemma txn_atomic c ws j :
  forallb plain ws = true ->
  crash (apply_calls (mkDb c None) (firstn j (CBegin :: ws ++ [CCommit]))) = c \/
  crash (apply_calls (mkDb c None) (firstn j (CBegin :: ws ++ [CCommit]))) = crash (apply_calls (mkDb c None) (CBegin :: ws ++ [CCommit])).
Proof.
  intros H. destruct (firstn_txn_cases CBegin CCommit ws j) as [[ws' [E _]]|[[k E]|E]]; rewrite E.
  - left; reflexivity.
  - left. change (CBegin :: firstn k ws) with ([CBegin] ++ firstn k ws). rewrite apply_calls_app.
    cbn [apply_calls fold_left apply_call committed]. change (fold_left apply_call (firstn k ws) ?s) with (apply_calls s (firstn k ws)).
    rewrite apply_plain_pending by (apply forallb_firstn; exact H). reflexivity.
  - right; reflexivity.
Qed.

Lemma txn_abort_atomic c ws j :
  forallb plain ws = true ->
  crash (apply_calls (mkDb c None) (firstn j (CBegin :: ws ++ [CAbort]))) = c.
Proof.
  intros H. destruct (firstn_txn_cases CBegin CAbort ws j) as [[ws' [E _]]|[[k E]|E]]; rewrite E.
  - reflexivity.
  - change (CBegin :: firstn k ws) with ([CBegin] ++ firstn k ws). rewrite apply_calls_app.
    cbn [apply_calls fold_left apply_call committed]. change (fold_left apply_call (firstn k ws) ?s) with (apply_calls s (firstn k ws)).
    rewrite apply_plain_pending by (apply forallb_firstn; exact H). reflexivity.
  - change (CBegin :: ws ++ [CAbort]) with ([CBegin] ++ (ws ++ [CAbort])). rewrite apply_calls_app.
    cbn [apply_calls fold_left apply_call committed]. change (fold_left apply_call (ws ++ [CAbort]) ?s) with (apply_calls s (ws ++ [CAbort])).
    rewrite apply_calls_app. rewrite apply_plain_pending by exact H. reflexivity.
Qed.

(* ---------------------------------------------------------------------------------------------- *)
(* the running wallet agrees with what LoadWallet would rebuild from the committed records *)

Definition lv (m : mem) (d : db) : Prop :=
  (forall s, d (KDesc s) = Some (VDesc (fst (m_desc m s)) (snd (m_desc m s)))) /\
  (forall k, m_imp m k = m_imp (load_mem d []) k) /\
  (forall a, m_label m a = m_label (load_mem d []) a) /\
  (forall a, m_purpose m a = m_purpose (load_mem d []) a) /\
  (forall a, m_used m a = m_used (load_mem d []) a) /\
  (forall a id, m_rr m a id = m_rr (load_mem d []) a id) /\
  (forall k, m_tx m k = m_tx (load_mem d []) k) /\
  m_opn m = m_opn (load_mem d []) /\
  m_flag m = m_flag (load_mem d []).

Definition pview (f : Z -> option bool) (n : Z) : bool := match f n with Some true => true | _ => false end.
Definition lv_locks (m : mem) (d : db) : Prop :=
  (forall n, pview (m_locks m) n = match d (KLock n) with Some _ => true | None => false end) /\
  (forall n, m_locks m n <> None -> In n (m_lk m)).

Definition synced (st : wst) : Prop := pending (w_db st) = None /\ lv (w_mem st) (committed (w_db st)).
Definition synced_locks (st : wst) : Prop := lv_locks (w_mem st) (committed (w_db st)).

Ltac lvsplit := unfold lv; cbn [m_desc m_imp m_label m_purpose m_used m_rr m_tx m_opn m_flag load_mem];
  repeat match goal with |- _ /\ _ => split end.

Ltac caseb := repeat match goal with
  | |- context [if ?c then _ else _] => destruct c eqn:?
  | |- context [match ?d ?k with _ => _ end] => destruct (d k) eqn:?
  end.

Lemma tx_remove_get ks : forall f k', tx_remove f ks k' = if existsb (Z.eqb k') ks then None else f k'.
Proof.
  induction ks as [|k r IH]; intros f k'; cbn; [reflexivity|].
  rewrite IH. unfold zset. destruct (k' =? k); cbn; [destruct (existsb (Z.eqb k') r); reflexivity|reflexivity].
Qed.

Lemma rm_calls_plain m ks cs : rm_calls m ks = Some cs -> forallb plain cs = true.
Proof.
  revert cs. induction ks as [|k r IH]; intros cs H; cbn in H; [inversion H; reflexivity|].
  destruct (m_tx m k); [|discriminate]. destruct (rm_calls m r) as [cs'|]; [|discriminate].
  inversion H; subst. cbn. apply IH. reflexivity.
Qed.

Lemma rm_calls_apply m ks cs : rm_calls m ks = Some cs ->
  forall d key, fold_left db_apply cs d key =
    match key with
    | KTx k' | KTxVar k' => if existsb (Z.eqb k') ks then None else d key
    | _ => d key
    end.
Proof.
  revert cs. induction ks as [|k r IH]; intros cs H d key; cbn in H.
  - inversion H; subst. cbn. destruct key; reflexivity.
  - destruct (m_tx m k); [|discriminate]. destruct (rm_calls m r) as [cs'|] eqn:R; [|discriminate].
    inversion H; subst. cbn [fold_left]. rewrite (IH _ eq_refl). cbn [db_apply existsb]. unfold db_set.
    destruct key; cbn [key_eqb]; try reflexivity.
    + destruct (k0 =? k); cbn; [destruct (existsb (Z.eqb k0) r); reflexivity|reflexivity].
    + destruct (k0 =? k); cbn; [destruct (existsb (Z.eqb k0) r); reflexivity|reflexivity].
Qed.

Lemma unlock_all_plain f lk : forallb plain (unlock_all_calls f lk) = true.
Proof.
  unfold unlock_all_calls. induction lk as [|n r IH]; cbn; [reflexivity|].
  rewrite forallb_app, IH. destruct (f n) as [[|]|]; reflexivity.
Qed.

Lemma unlock_all_apply f lk : forall d key,
  fold_left db_apply (unlock_all_calls f lk) d key =
    match key with
    | KLock n => if existsb (fun n' => (n =? n') && pview f n') lk then None else d key
    | _ => d key
    end.
Proof.
  unfold unlock_all_calls. induction lk as [|n r IH]; intros d key; cbn [flat_map fold_left existsb].
  - destruct key; reflexivity.
  - rewrite fold_left_app, IH. unfold pview. destruct (f n) as [[|]|]; cbn [fold_left db_apply app].
    + unfold db_set. destruct key; cbn [key_eqb]; try reflexivity.
      destruct (n0 =? n) eqn:E; cbn; [destruct (existsb _ r); reflexivity|reflexivity].
    + destruct key; try reflexivity. rewrite andb_false_r. reflexivity.
    + destruct key; try reflexivity. rewrite andb_false_r. reflexivity.
Qed.

Ltac fin := repeat match goal with
   | |- context [addr_eqb ?x ?y] => destruct (addr_eqb x y) eqn:?
   | |- context [Z.eqb ?x ?y] => destruct (Z.eqb x y) eqn:?
   | |- context [Nat.eqb ?x ?y] => destruct (Nat.eqb x y) eqn:?
   end; cbn; auto.
Ltac std := eexists; split; [cbn; reflexivity|]; split; [|intros; cbn; auto];
  lvsplit; intros; cbn; unfold db_set, fset, zset, nset; cbn; fin.

(* one operation (not a restart) keeps the wallet and its database in step *)
Lemma op_synced upgrade kp m d o m1 cs r :
  lv m d -> op_effect upgrade kp m o = (m1, cs, r) ->
  exists d1, apply_calls (mkDb d None) cs = mkDb d1 None /\ lv m1 d1 /\
             (forall n, match o with OLock _ _ | OUnlock _ | OUnlockAll => True | _ => d1 (KLock n) = d (KLock n) /\ m_locks m1 = m_locks m /\ m_lk m1 = m_lk m end).
Proof.
  intros L H. pose proof L as L'. unfold lv in L'. cbn [m_desc m_imp m_label m_purpose m_used m_rr m_tx m_opn m_flag load_mem] in L'.
  destruct L' as (A & B & C & D & E & F & G & Hh & I).
  destruct o; cbn [op_effect] in H.
  - (* ONew *)
    unfold topup_calls in H. cbn [fst snd] in H.
    destruct (Nat.ltb s 4); inversion H; subst; clear H; std.
  - (* OLabel *)
    inversion H; subst; clear H. destruct p as [q|]; std.
  - (* ODel *)
    destruct (is_mine m a); inversion H; subst; clear H.
    + exists d. split; [reflexivity|]. split; [exact L|intros n; auto].
    + std.
  - (* OSpent *)
    inversion H; subst; clear H. destruct u; std.
  - (* ORr *)
    inversion H; subst; clear H. std.
    apply addr_eqb_eq in Heqb; subst. apply F.
  - (* ORrDel *)
    inversion H; subst; clear H. std.
    apply addr_eqb_eq in Heqb; subst. apply F.
  - (* OLock *)
    inversion H; subst; clear H. destruct persist.
    + eexists. split; [cbn; reflexivity|]. split; [|intros; exact Logic.I].
      lvsplit; intros; cbn; unfold db_set; cbn; auto.
    + exists d. split; [reflexivity|]. split; [|intros; exact Logic.I]. lvsplit; auto.
  - (* OUnlock *)
    inversion H; subst; clear H. destruct (m_locks m n) as [[|]|].
    + eexists. split; [cbn; reflexivity|]. split; [|intros; exact Logic.I].
      lvsplit; intros; cbn; unfold db_set; cbn; auto.
    + exists d. split; [reflexivity|]. split; [|intros; exact Logic.I]. lvsplit; auto.
    + exists d. split; [reflexivity|]. split; [|intros; exact Logic.I]. lvsplit; auto.
  - (* OUnlockAll *)
    inversion H; subst; clear H.
    eexists. split; [apply apply_plain_auto; apply unlock_all_plain|]. split; [|intros; exact Logic.I].
    lvsplit; intros; rewrite ?unlock_all_apply; auto.
  - (* OTx *)
    destruct (m_tx m k) eqn:T; inversion H; subst; clear H.
    + exists d. split; [reflexivity|]. split; [exact L|intros n; auto].
    + std.
  - (* ORmTx *)
    destruct (rm_calls m ks) as [cs0|] eqn:R; inversion H; subst; clear H.
    + eexists. split; [apply txn_commit; eapply rm_calls_plain; exact R|]. split.
      * lvsplit; intros; rewrite ?(rm_calls_apply _ _ _ R); auto.
        rewrite tx_remove_get, G. destruct (existsb (Z.eqb k) ks); reflexivity.
      * intros n. rewrite (rm_calls_apply _ _ _ R). auto.
    + exists d. split; [reflexivity|]. split; [exact L|intros n; auto].
  - (* OTop *)
    unfold topup_calls in H. inversion H; subst; clear H. std.
  - (* OFlag *)
    inversion H; subst; clear H. std.
  - (* OImport *)
    inversion H; subst; clear H. std.
  - inversion H; subst. exists d. split; [reflexivity|]. split; [exact L|intros n; auto].
  - inversion H; subst. exists d. split; [reflexivity|]. split; [exact L|intros n; auto].
Qed.

Lemma mkdb_inj d1 d2 : mkDb d1 None = mkDb d2 None -> d1 = d2.
Proof. intros H; inversion H; reflexivity. Qed.

Lemma lk_add_in n l x : In x (lk_add n l) <-> x = n \/ In x l.
Proof.
  unfold lk_add. destruct (existsb (Z.eqb n) l) eqn:E.
  - split; [auto|]. intros [->|H]; [|exact H]. apply existsb_exists in E. destruct E as [y [Hy Ey]]. apply Z.eqb_eq in Ey; subst; exact Hy.
  - cbn. split; intros [H|H]; auto.
Qed.

(* persistent locks: with the upgrading LockCoin the records are exactly the persistent in-memory locks *)
Lemma op_locks kp m d o m1 cs r d1 :
  lv m d -> lv_locks m d -> op_effect true kp m o = (m1, cs, r) ->
  apply_calls (mkDb d None) cs = mkDb d1 None -> lv_locks m1 d1.
Proof.
  intros L [P Q] H Ha.
  destruct (op_synced _ _ _ _ _ _ _ _ L H) as (d1' & Ha' & _ & K). rewrite Ha in Ha'. apply mkdb_inj in Ha'. subst d1'.
  destruct o; try (split; intros x; destruct (K x) as (K1 & K2 & K3); rewrite ?K1, ?K2, ?K3; auto; fail).
  - (* OLock *)
    cbn [op_effect] in H. inversion H; subst; clear H.
    unfold lv_locks. cbn [m_locks m_lk]. unfold lock_mem.
    assert (P' : forall n0, match m_locks m n0 with Some true => true | _ => false end = match d (KLock n0) with Some _ => true | None => false end) by exact P.
    destruct persist; cbn in Ha; apply mkdb_inj in Ha; subst d1.
    + split; intros n0.
      * destruct (m_locks m n) as [[|]|] eqn:Ln; cbn [andb negb]; unfold pview, zset, db_set; cbn [key_eqb];
        destruct (n0 =? n) eqn:En; try (apply Z.eqb_eq in En; subst n0); rewrite ?Ln; auto.
      * intros Hn. apply lk_add_in. destruct (n0 =? n) eqn:En; [left; apply Z.eqb_eq; exact En|right; apply Q].
        destruct (m_locks m n) as [[|]|] eqn:Ln; cbn [andb negb] in Hn; unfold zset in Hn; rewrite ?En in Hn; exact Hn.
    + split; intros n0.
      * destruct (m_locks m n) as [[|]|] eqn:Ln; cbn [andb negb]; unfold pview, zset; auto.
        destruct (n0 =? n) eqn:En; [apply Z.eqb_eq in En; subst n0; rewrite <- P', Ln; reflexivity|apply P'].
      * intros Hn. apply lk_add_in. destruct (n0 =? n) eqn:En; [left; apply Z.eqb_eq; exact En|right; apply Q].
        destruct (m_locks m n) as [[|]|] eqn:Ln; cbn [andb negb] in Hn; unfold zset in Hn; rewrite ?En in Hn; exact Hn.
  - (* OUnlock *)
    cbn [op_effect] in H. inversion H; subst; clear H.
    unfold lv_locks. cbn [m_locks m_lk].
    assert (P' : forall n0, match m_locks m n0 with Some true => true | _ => false end = match d (KLock n0) with Some _ => true | None => false end) by exact P.
    destruct (m_locks m n) as [[|]|] eqn:Ln; cbn in Ha; apply mkdb_inj in Ha; subst d1; split; intros n0.
    + unfold pview, zset, db_set. cbn [key_eqb]. destruct (n0 =? n); [reflexivity|apply P'].
    + unfold zset. destruct (n0 =? n); [congruence|apply Q].
    + unfold pview, zset. destruct (n0 =? n) eqn:En; [|apply P'].
      apply Z.eqb_eq in En; subst n0. rewrite <- P', Ln. reflexivity.
    + unfold zset. destruct (n0 =? n); [congruence|apply Q].
    + unfold pview, zset. destruct (n0 =? n) eqn:En; [|apply P'].
      apply Z.eqb_eq in En; subst n0. rewrite <- P', Ln. reflexivity.
    + unfold zset. destruct (n0 =? n); [congruence|apply Q].
  - (* OUnlockAll *)
    cbn [op_effect] in H. inversion H; subst; clear H. unfold lv_locks. cbn [m_locks m_lk].
    rewrite apply_plain_auto in Ha by apply unlock_all_plain. apply mkdb_inj in Ha. subst d1. split; intros n0; [|congruence].
    unfold pview at 1. rewrite unlock_all_apply.
    destruct (existsb (fun n' : Z => (n0 =? n') && pview (m_locks m) n') (m_lk m)) eqn:Ex; [reflexivity|].
    destruct (d (KLock n0)) eqn:Dn; [|reflexivity]. exfalso.
    specialize (P n0). rewrite Dn in P.
    assert (Hin : In n0 (m_lk m)) by (apply Q; unfold pview in P; destruct (m_locks m n0); congruence).
    assert (Ht : existsb (fun n' : Z => (n0 =? n') && pview (m_locks m) n') (m_lk m) = true).
    { apply existsb_exists. exists n0. split; [exact Hin|]. rewrite Z.eqb_refl, P. reflexivity. }
    congruence.
Qed.

(* loading *)
Lemma load_topup_props kp n : forall m s m1 s1 d,
  s = mkDb d None -> lv m d -> load_topup kp n m s = (m1, s1) ->
  exists d1, s1 = mkDb d1 None /\ lv m1 d1 /\
    (forall k, match k with KDesc _ => True | _ => d1 k = d k end) /\
    (forall t, fst (m_desc m1 t) = fst (m_desc m t) /\ snd (m_desc m t) <= snd (m_desc m1 t)) /\
    m_imp m1 = m_imp m /\ m_label m1 = m_label m /\ m_purpose m1 = m_purpose m /\ m_used m1 = m_used m /\ m_rr m1 = m_rr m /\
    m_locks m1 = m_locks m /\ m_lk m1 = m_lk m /\ m_tx m1 = m_tx m /\ m_opn m1 = m_opn m /\ m_flag m1 = m_flag m.
Proof.
  induction n as [|n IH]; intros m s m1 s1 d Hs L H; cbn [load_topup] in H.
  - inversion H; subst. exists d. split; [reflexivity|]. split; [exact L|]. split; [intros k; destruct k; auto|].
    split; [intros t; split; [reflexivity|lia]|]. repeat split; reflexivity.
  - destruct (load_topup kp n m s) as [m0 s0] eqn:R.
    destruct (IH _ _ _ _ _ Hs L R) as (d0 & E0 & L0 & K0 & D0 & I1 & I2 & I3 & I4 & I5 & I6 & I7 & I8 & I9 & I10).
    unfold topup_calls in H. cbn [fst snd] in H. inversion H; subst; clear H.
    eexists. split; [cbn; reflexivity|]. split.
    { pose proof L0 as L'. unfold lv in L'. cbn [m_desc m_imp m_label m_purpose m_used m_rr m_tx m_opn m_flag load_mem] in L'.
      destruct L' as (A & B & C & D & E & F & G & Hh & I).
      lvsplit; intros; cbn; unfold db_set, nset; cbn; fin. }
    split.
    { intros k. destruct k; auto; unfold db_set; cbn [key_eqb]; match goal with |- _ ?kk = _ => exact (K0 kk) end. }
    split.
    { intros t. cbn [m_desc]. unfold nset. destruct (Nat.eqb t n) eqn:En.
      - apply Nat.eqb_eq in En; subst t. cbn [fst snd]. destruct (D0 n) as [Da Db]. split; [exact Da|]. lia.
      - apply D0. }
    cbn. repeat split; assumption.
Qed.

Lemma load_mem_lv m d lk : lv m d -> lv (load_mem d lk) d.
Proof.
  intros L. pose proof L as L'. unfold lv in L'. cbn [m_desc m_imp m_label m_purpose m_used m_rr m_tx m_opn m_flag load_mem] in L'.
  destruct L' as (A & _). lvsplit; intros; auto. rewrite A. reflexivity.
Qed.

(* a restart: the reloaded wallet is in step with the database, answers every getter like the running wallet did;
   only range_end may have grown (the loader tops the keypools up) and memory-only locks are gone *)
Lemma reopen_props st :
  synced st ->
  synced (reopen st) /\
  (forall t, fst (m_desc (w_mem (reopen st)) t) = fst (m_desc (w_mem st) t) /\ snd (m_desc (w_mem st) t) <= snd (m_desc (w_mem (reopen st)) t)) /\
  (forall k, m_imp (w_mem (reopen st)) k = m_imp (w_mem st) k) /\
  (forall a, m_label (w_mem (reopen st)) a = m_label (w_mem st) a) /\
  (forall a, m_purpose (w_mem (reopen st)) a = m_purpose (w_mem st) a) /\
  (forall a, m_used (w_mem (reopen st)) a = m_used (w_mem st) a) /\
  (forall a id, m_rr (w_mem (reopen st)) a id = m_rr (w_mem st) a id) /\
  (forall k, m_tx (w_mem (reopen st)) k = m_tx (w_mem st) k) /\
  m_opn (w_mem (reopen st)) = m_opn (w_mem st) /\
  m_flag (w_mem (reopen st)) = m_flag (w_mem st) /\
  (forall n, m_locks (w_mem (reopen st)) n = match committed (w_db st) (KLock n) with Some _ => Some true | None => None end) /\
  (forall n, committed (w_db (reopen st)) (KLock n) = committed (w_db st) (KLock n)) /\
  m_lk (w_mem (reopen st)) = m_lk (w_mem st).
Proof.
  intros [Hp L]. unfold reopen, crash.
  destruct (load_topup (w_kp st) 8 (load_mem (committed (w_db st)) (m_lk (w_mem st))) (mkDb (committed (w_db st)) None)) as [m1 s1] eqn:R.
  pose proof (load_mem_lv _ _ (m_lk (w_mem st)) L) as L0.
  destruct (load_topup_props _ _ _ _ _ _ _ eq_refl L0 R) as (d1 & E1 & L1 & K1 & D1 & I1 & I2 & I3 & I4 & I5 & I6 & I7 & I8 & I9 & I10).
  subst s1. cbn [w_mem w_db committed pending].
  pose proof L as L'. unfold lv in L'. cbn [m_desc m_imp m_label m_purpose m_used m_rr m_tx m_opn m_flag load_mem] in L'.
  destruct L' as (A & B & C & D & E & F & G & Hh & I).
  split; [split; [reflexivity|exact L1]|].
  split.
  { intros t. destruct (D1 t) as [Da Db]. cbn [load_mem m_desc] in Da, Db. rewrite A in Da, Db. cbn [fst snd] in *. split; [exact Da|exact Db]. }
  rewrite I1, I2, I3, I4, I5, I6, I7, I8, I9, I10. cbn [load_mem m_imp m_label m_purpose m_used m_rr m_locks m_lk m_tx m_opn m_flag].
  repeat split; intros; auto. apply (K1 (KLock n)).
Qed.

Global Opaque reopen.

Definition is_restart (o : op) : bool := match o with OReload | OCrash => true | _ => false end.
Lemma step_restart upgrade st o : is_restart o = true -> step upgrade st o = (reopen st, true).
Proof. destruct o; intros H; try discriminate; reflexivity. Qed.
Lemma step_normal upgrade st o : is_restart o = false ->
  step upgrade st o = (let '(m1, cs, r) := op_effect upgrade (w_kp st) (w_mem st) o in (mkW m1 (apply_calls (w_db st) cs) (w_kp st), r)).
Proof. destruct o; intros H; try discriminate; reflexivity. Qed.

Lemma step_synced upgrade st o st' r : synced st -> step upgrade st o = (st', r) -> synced st'.
Proof.
  intros S H. destruct (is_restart o) eqn:Ro.
  - rewrite step_restart in H by exact Ro. injection H as E1 E2; subst st' r. apply reopen_props; exact S.
  - rewrite step_normal in H by exact Ro. destruct S as [Hp L].
    destruct (op_effect upgrade (w_kp st) (w_mem st) o) as [[m1 cs] r1] eqn:OE. inversion H; subst; clear H.
    destruct (op_synced _ _ _ _ _ _ _ _ L OE) as (d1 & Ha & L1 & _).
    destruct (w_db st) as [c p]. cbn in Hp; subst p. cbn [w_mem w_db committed pending] in *. rewrite Ha. split; [reflexivity|exact L1].
Qed.

Lemma step_synced_locks st o st' r :
  synced st -> synced_locks st -> step true st o = (st', r) -> synced_locks st'.
Proof.
  intros S SL H. destruct (is_restart o) eqn:Ro.
  - rewrite step_restart in H by exact Ro. injection H as E1 E2; subst st' r. unfold synced_locks.
    destruct (reopen_props _ S) as (_ & _ & _ & _ & _ & _ & _ & _ & _ & _ & RL & RD & RK).
    destruct SL as [P Q]. split; intros n.
    + unfold pview. rewrite RL, RD. destruct (committed (w_db st) (KLock n)); reflexivity.
    + rewrite RL, RK. intros Hn. apply Q. specialize (P n). unfold pview in P.
      destruct (committed (w_db st) (KLock n)); [destruct (m_locks (w_mem st) n); congruence|congruence].
  - rewrite step_normal in H by exact Ro. destruct S as [Hp L].
    destruct (op_effect true (w_kp st) (w_mem st) o) as [[m1 cs] r1] eqn:OE. inversion H; subst; clear H.
    destruct (op_synced _ _ _ _ _ _ _ _ L OE) as (d1 & Ha & L1 & _).
    destruct (w_db st) as [c p]. cbn in Hp; subst p. unfold synced_locks in *. cbn [w_mem w_db committed pending] in *. rewrite Ha. cbn [committed].
    eapply op_locks; eassumption.
Qed.
